// fingerprint: normalised source of every function of the repository under verification.
//
//	fingerprint <repo> <out.json>
//
// For every non-test Go file under <repo>/src (files with a build constraint naming `verif` are
// skipped) and every function declaration, the output maps "src/pkg/file.go:Recv.Func" to the
// function's source printed by go/printer after comments, doc comments and logging statements
// (calls through a `.logger` field) have been removed, and to its SHA-256.  Formatting, comments
// and logging therefore do not change a fingerprint; anything else does.  ./check compares the
// fingerprints of the functions a property's model mirrors with the ones recorded (in
// /verif/fingerprints.json) when the model was last validated against them: a difference means the
// hand-written model is no longer known to describe the code (the tie is broken).
// Standard library only.
package main

import (
	"bytes"
	"crypto/sha256"
	"encoding/hex"
	"encoding/json"
	"fmt"
	"go/ast"
	"go/parser"
	"go/printer"
	"go/token"
	"os"
	"path/filepath"
	"sort"
	"strings"
)

type entry struct {
	Sha  string `json:"sha"`
	Text string `json:"text"`
}

// fnInfo: what a function calls (simple names) and which struct fields it assigns directly
// (`x.f = ...`, `x.f[k] = ...`, `x.f++`, `delete(x.f, k)`, `T{f: ...}`).
type fnInfo struct {
	key, dir, name string
	calls          map[string]bool
	writes         map[string]bool
}

func fieldOf(e ast.Expr) string {
	for {
		switch x := e.(type) {
		case *ast.IndexExpr:
			e = x.X
		case *ast.StarExpr:
			e = x.X
		case *ast.ParenExpr:
			e = x.X
		case *ast.SelectorExpr:
			return x.Sel.Name
		default:
			return ""
		}
	}
}

func infoOf(fd *ast.FuncDecl, key, dir, name string) *fnInfo {
	fi := &fnInfo{key: key, dir: dir, name: name, calls: map[string]bool{}, writes: map[string]bool{}}
	ast.Inspect(fd, func(n ast.Node) bool {
		switch x := n.(type) {
		case *ast.AssignStmt:
			for _, l := range x.Lhs {
				if f := fieldOf(l); f != "" {
					fi.writes[f] = true
				}
			}
		case *ast.IncDecStmt:
			if f := fieldOf(x.X); f != "" {
				fi.writes[f] = true
			}
		case *ast.CompositeLit:
			for _, el := range x.Elts {
				if kv, ok := el.(*ast.KeyValueExpr); ok {
					if id, ok := kv.Key.(*ast.Ident); ok {
						fi.writes[id.Name] = true
					}
				}
			}
		case *ast.CallExpr:
			switch f := x.Fun.(type) {
			case *ast.Ident:
				fi.calls[f.Name] = true
				if f.Name == "delete" && len(x.Args) > 0 {
					if fl := fieldOf(x.Args[0]); fl != "" {
						fi.writes[fl] = true
					}
				}
			case *ast.SelectorExpr:
				fi.calls[f.Sel.Name] = true
			}
		}
		return true
	})
	return fi
}

func isLogging(e ast.Expr) bool {
	for {
		switch x := e.(type) {
		case *ast.CallExpr:
			e = x.Fun
		case *ast.SelectorExpr:
			if x.Sel.Name == "logger" {
				return true
			}
			e = x.X
		case *ast.Ident:
			return x.Name == "logger"
		default:
			return false
		}
	}
}

func filterStmts(l []ast.Stmt) []ast.Stmt {
	res := l[:0:0]
	for _, s := range l {
		if es, ok := s.(*ast.ExprStmt); ok {
			if c, ok := es.X.(*ast.CallExpr); ok && isLogging(c.Fun) {
				continue
			}
		}
		res = append(res, s)
	}
	return res
}

func stripLogging(n ast.Node) {
	ast.Inspect(n, func(x ast.Node) bool {
		switch b := x.(type) {
		case *ast.BlockStmt:
			b.List = filterStmts(b.List)
		case *ast.CaseClause:
			b.Body = filterStmts(b.Body)
		case *ast.CommClause:
			b.Body = filterStmts(b.Body)
		}
		return true
	})
}

func recvName(fd *ast.FuncDecl) string {
	if fd.Recv == nil || len(fd.Recv.List) == 0 {
		return ""
	}
	t := fd.Recv.List[0].Type
	if s, ok := t.(*ast.StarExpr); ok {
		t = s.X
	}
	if id, ok := t.(*ast.Ident); ok {
		return id.Name
	}
	return "?"
}

func main() {
	if len(os.Args) != 3 {
		fmt.Fprintln(os.Stderr, "usage: fingerprint <repo> <out.json>")
		os.Exit(2)
	}
	repo := os.Args[1]
	out := map[string]entry{}
	infos := []*fnInfo{}
	root := filepath.Join(repo, "src")
	filepath.Walk(root, func(path string, info os.FileInfo, err error) error {
		if err != nil || info.IsDir() || !strings.HasSuffix(path, ".go") || strings.HasSuffix(path, "_test.go") {
			return nil
		}
		raw, err := os.ReadFile(path)
		if err != nil {
			return nil
		}
		head := string(raw)
		if i := strings.Index(head, "\npackage "); i >= 0 {
			head = head[:i]
		}
		if strings.Contains(head, "go:build") && strings.Contains(head, "verif") {
			return nil // instrumentation of the verification harness
		}
		fset := token.NewFileSet()
		f, err := parser.ParseFile(fset, path, raw, 0) // comments are not parsed
		if err != nil {
			fmt.Fprintln(os.Stderr, "fingerprint: cannot parse", path, err)
			os.Exit(3)
		}
		rel, _ := filepath.Rel(repo, path)
		for _, d := range f.Decls {
			fd, ok := d.(*ast.FuncDecl)
			if !ok {
				continue
			}
			fd.Doc = nil
			stripLogging(fd)
			var b bytes.Buffer
			printer.Fprint(&b, fset, fd)
			name := fd.Name.Name
			if r := recvName(fd); r != "" {
				name = r + "." + name
			}
			key := rel + ":" + name
			infos = append(infos, infoOf(fd, key, filepath.Dir(rel), fd.Name.Name))
			lines := []string{}
			for _, l := range strings.Split(b.String(), "\n") {
				if strings.TrimSpace(l) != "" {
					lines = append(lines, strings.TrimRight(l, " \t"))
				}
			}
			txt := strings.Join(lines, "\n")
			if prev, dup := out[key]; dup {
				txt = prev.Text + "\n" + txt
			}
			h := sha256.Sum256([]byte(txt))
			out[key] = entry{Sha: hex.EncodeToString(h[:]), Text: txt}
		}
		return nil
	})
	writerSets(infos, out)
	keys := make([]string, 0, len(out))
	for k := range out {
		keys = append(keys, k)
	}
	sort.Strings(keys)
	var b bytes.Buffer
	b.WriteString("{\n")
	for i, k := range keys {
		kj, _ := json.Marshal(k)
		vj, _ := json.Marshal(out[k])
		b.Write(kj)
		b.WriteString(": ")
		b.Write(vj)
		if i+1 < len(keys) {
			b.WriteString(",")
		}
		b.WriteString("\n")
	}
	b.WriteString("}\n")
	if err := os.WriteFile(os.Args[2], b.Bytes(), 0644); err != nil {
		fmt.Fprintln(os.Stderr, err)
		os.Exit(3)
	}
}

// writerSets adds, for every struct field assigned somewhere, the entry
// "writers:<package dir>:<field>": the functions that assign the field directly (distance 0) and
// the functions that reach one of them through at most three calls (calls resolved by simple name,
// across the repository), each with its distance. A new path by which a field can be written —
// e.g. a handler that starts calling a setter — changes the entry although no mirrored function
// changed.
func writerSets(infos []*fnInfo, out map[string]entry) {
	callers := map[string][]*fnInfo{} // simple name -> functions calling it
	for _, fi := range infos {
		for c := range fi.calls {
			callers[c] = append(callers[c], fi)
		}
	}
	type wk struct{ dir, field string }
	direct := map[wk][]*fnInfo{}
	for _, fi := range infos {
		for f := range fi.writes {
			direct[wk{fi.dir, f}] = append(direct[wk{fi.dir, f}], fi)
		}
	}
	for k, ws := range direct {
		dist := map[string]int{}
		frontier := []*fnInfo{}
		for _, w := range ws {
			dist[w.key] = 0
			frontier = append(frontier, w)
		}
		for d := 1; d <= 3; d++ {
			next := []*fnInfo{}
			for _, f := range frontier {
				for _, c := range callers[f.name] {
					if _, seen := dist[c.key]; !seen {
						dist[c.key] = d
						next = append(next, c)
					}
				}
			}
			frontier = next
		}
		lines := []string{}
		for fk, d := range dist {
			lines = append(lines, fmt.Sprintf("%d %s", d, fk))
		}
		sort.Strings(lines)
		txt := strings.Join(lines, "\n")
		h := sha256.Sum256([]byte(txt))
		out["writers:"+k.dir+":"+k.field] = entry{Sha: hex.EncodeToString(h[:]), Text: txt}
	}
}
