module verif/fingerprint

go 1.21
