#!/bin/sh
# Builds the framework from files on disk only (offline).
set -e
cd "$(dirname "$0")"
export GOFLAGS=-mod=mod GOPROXY=off GOSUMDB=off GOTOOLCHAIN=local
mkdir -p .build evidence replays
(cd extract && go build -o ../.build/extract .)
./.build/extract "${VERIF_REPO:-/repo}" lean/Babble .build/facts.json
(cd lean && lake build Babble driver)
cp harness/go.sum .build/harness.sum
sed "s#=> /repo#=> ${VERIF_REPO:-/repo}#" harness/go.mod > .build/harness.mod
(cd harness && go build -tags verif -modfile ../.build/harness.mod -o ../.build/harness .)
echo "setup done"
