// extract: regenerates lean/Babble/Generated.lean and facts.json from the Go
// sources of the repository under verification. Standard library only.
//
// The program is deliberately small and pattern based: each fact is found by
// looking for one syntactic shape inside one named function. When the shape is
// not there it emits the Lean identifier `unsupported_<fact>` which does not
// exist, so every proof that depends on the fact stops elaborating: a broken
// obligation, reported by ./check.
package main

import (
	"bytes"
	"encoding/json"
	"fmt"
	"go/ast"
	"go/parser"
	"go/printer"
	"go/token"
	"os"
	"path/filepath"
	"sort"
	"strings"
)

var fset = token.NewFileSet()

type fact struct {
	Name string `json:"name"`
	Lean string `json:"lean"`
	Site string `json:"site"`
	Src  string `json:"src"`
	OK   bool   `json:"ok"`
}

var facts []fact

func parse(path string) *ast.File {
	f, err := parser.ParseFile(fset, path, nil, 0)
	if err != nil {
		fmt.Fprintln(os.Stderr, "extract: cannot parse", path, err)
		os.Exit(3)
	}
	return f
}

func src(n ast.Node) string {
	var b bytes.Buffer
	printer.Fprint(&b, fset, n)
	return strings.Join(strings.Fields(b.String()), " ")
}

func findFunc(f *ast.File, recv, name string) *ast.FuncDecl {
	for _, d := range f.Decls {
		fd, ok := d.(*ast.FuncDecl)
		if !ok || fd.Name.Name != name {
			continue
		}
		if recv == "" && fd.Recv == nil {
			return fd
		}
		if fd.Recv != nil && len(fd.Recv.List) == 1 && strings.Contains(src(fd.Recv.List[0].Type), recv) {
			return fd
		}
	}
	return nil
}

// intExpr translates an integer Go expression to a Lean term over Nat/Int.
func intExpr(e ast.Expr, env map[string]string) (string, bool) {
	switch v := e.(type) {
	case *ast.BasicLit:
		return v.Value, true
	case *ast.ParenExpr:
		s, ok := intExpr(v.X, env)
		return "(" + s + ")", ok
	case *ast.BinaryExpr:
		switch v.Op {
		case token.ADD, token.SUB, token.MUL, token.QUO:
		default:
			return "unsupported", false
		}
		l, ok1 := intExpr(v.X, env)
		r, ok2 := intExpr(v.Y, env)
		return "(" + l + " " + v.Op.String() + " " + r + ")", ok1 && ok2
	case *ast.CallExpr:
		s := src(v)
		if r, ok := env[s]; ok {
			return r, true
		}
		// int(math.Ceil(float64(a) / float64(b)))  =>  ceilDiv a b
		if id, ok := v.Fun.(*ast.Ident); ok && id.Name == "int" && len(v.Args) == 1 {
			if c, ok := v.Args[0].(*ast.CallExpr); ok && src(c.Fun) == "math.Ceil" && len(c.Args) == 1 {
				if b, ok := c.Args[0].(*ast.BinaryExpr); ok && b.Op == token.QUO {
					fa, oka := b.X.(*ast.CallExpr)
					fb, okb := b.Y.(*ast.CallExpr)
					if oka && okb && src(fa.Fun) == "float64" && src(fb.Fun) == "float64" {
						x, ok1 := intExpr(fa.Args[0], env)
						y, ok2 := intExpr(fb.Args[0], env)
						return "(ceilDiv " + x + " " + y + ")", ok1 && ok2
					}
				}
			}
		}
		// float64(4) => 4
		if id, ok := v.Fun.(*ast.Ident); ok && id.Name == "float64" && len(v.Args) == 1 {
			return intExpr(v.Args[0], env)
		}
		return "unsupported", false
	default:
		s := src(e)
		if r, ok := env[s]; ok {
			return r, true
		}
		return "unsupported", false
	}
}

var cmpNames = map[token.Token]string{token.GEQ: ".ge", token.GTR: ".gt", token.LEQ: ".le", token.LSS: ".lt", token.EQL: ".eq", token.NEQ: ".ne"}

// cmpAt finds, inside fn, the k-th (0 based) atomic comparison whose source
// contains all needles; returns the Lean Cmp constructor and the source text.
func cmpAt(fn *ast.FuncDecl, k int, needles ...string) (string, string, bool) {
	if fn == nil {
		return "", "", false
	}
	res, text := "", ""
	found := false
	cnt := 0
	ast.Inspect(fn, func(n ast.Node) bool {
		b, ok := n.(*ast.BinaryExpr)
		if !ok || found {
			return true
		}
		name, isCmp := cmpNames[b.Op]
		if !isCmp {
			return true
		}
		s := src(b)
		for _, nd := range needles {
			if !strings.Contains(s, nd) {
				return true
			}
		}
		if cnt == k {
			res, text, found = name, s, true
		}
		cnt++
		return true
	})
	return res, text, found
}

func addCmp(name string, fn *ast.FuncDecl, site string, k int, needles ...string) {
	c, text, ok := cmpAt(fn, k, needles...)
	if !ok {
		facts = append(facts, fact{Name: name, Lean: fmt.Sprintf("def %s : Cmp := unsupported_%s", name, name), Site: site, OK: false})
		return
	}
	facts = append(facts, fact{Name: name, Lean: fmt.Sprintf("def %s : Cmp := %s", name, c), Site: site, Src: text, OK: true})
}

// operandOrder: records which side of a comparison mentions `needle` (so that a
// swap of operands is seen as well as a changed operator).
func addCmpOriented(name string, fn *ast.FuncDecl, site string, k int, leftNeedle string, needles ...string) {
	c, text, ok := cmpAt(fn, k, needles...)
	if ok {
		// orientation: left operand must contain leftNeedle
		parts := strings.SplitN(text, " ", 2)
		_ = parts
		var be *ast.BinaryExpr
		cnt := 0
		ast.Inspect(fn, func(n ast.Node) bool {
			b, isB := n.(*ast.BinaryExpr)
			if !isB || be != nil {
				return true
			}
			if _, isCmp := cmpNames[b.Op]; !isCmp {
				return true
			}
			s := src(b)
			for _, nd := range needles {
				if !strings.Contains(s, nd) {
					return true
				}
			}
			if cnt == k {
				be = b
			}
			cnt++
			return true
		})
		if be == nil || !strings.Contains(src(be.X), leftNeedle) {
			ok = false
		}
	}
	if !ok {
		facts = append(facts, fact{Name: name, Lean: fmt.Sprintf("def %s : Cmp := unsupported_%s", name, name), Site: site, OK: false})
		return
	}
	facts = append(facts, fact{Name: name, Lean: fmt.Sprintf("def %s : Cmp := %s", name, c), Site: site, Src: text, OK: true})
}

func constVal(f *ast.File, name string) (ast.Expr, bool) {
	for _, d := range f.Decls {
		gd, ok := d.(*ast.GenDecl)
		if !ok || gd.Tok != token.CONST {
			continue
		}
		for _, sp := range gd.Specs {
			vs := sp.(*ast.ValueSpec)
			for i, n := range vs.Names {
				if n.Name == name && i < len(vs.Values) {
					return vs.Values[i], true
				}
			}
		}
	}
	return nil, false
}

func addConst(name, typ string, f *ast.File, goName, site string) {
	e, ok := constVal(f, goName)
	s := ""
	if ok {
		s, ok = intExpr(e, nil)
	}
	if !ok {
		facts = append(facts, fact{Name: name, Lean: fmt.Sprintf("def %s : %s := unsupported_%s", name, typ, name), Site: site, OK: false})
		return
	}
	facts = append(facts, fact{Name: name, Lean: fmt.Sprintf("def %s : %s := %s", name, typ, s), Site: site, Src: goName + " = " + src(e), OK: true})
}

// boolExpr translates the processRPC gate.
func boolExpr(e ast.Expr) (string, bool) {
	switch v := e.(type) {
	case *ast.ParenExpr:
		s, ok := boolExpr(v.X)
		return "(" + s + ")", ok
	case *ast.UnaryExpr:
		if v.Op == token.NOT {
			s, ok := boolExpr(v.X)
			return "(!" + s + ")", ok
		}
	case *ast.BinaryExpr:
		switch v.Op {
		case token.LAND, token.LOR:
			l, ok1 := boolExpr(v.X)
			r, ok2 := boolExpr(v.Y)
			op := "&&"
			if v.Op == token.LOR {
				op = "||"
			}
			return "(" + l + " " + op + " " + r + ")", ok1 && ok2
		case token.EQL, token.NEQ:
			l, ok1 := stateExpr(v.X)
			r, ok2 := stateExpr(v.Y)
			op := "=="
			if v.Op == token.NEQ {
				op = "!="
			}
			return "(" + l + " " + op + " " + r + ")", ok1 && ok2
		}
	case *ast.Ident:
		if v.Name == "isSyncRequest" {
			return "isSync", true
		}
	}
	return "unsupported", false
}

func stateExpr(e ast.Expr) (string, bool) {
	switch v := e.(type) {
	case *ast.Ident:
		if v.Name == "state" {
			return "st", true
		}
	case *ast.SelectorExpr:
		if src(v.X) == "_state" {
			m := map[string]string{"Babbling": "NodeState.babbling", "CatchingUp": "NodeState.catchingUp", "Joining": "NodeState.joining",
				"Leaving": "NodeState.leaving", "Shutdown": "NodeState.shutdown", "Suspended": "NodeState.suspended"}
			if r, ok := m[v.Sel.Name]; ok {
				return r, true
			}
		}
	}
	return "unsupported", false
}

// callOrder lists, in source order, the calls in fn whose function expression
// ends with one of the given suffixes.
func callOrder(fn *ast.FuncDecl, table map[string]string) []string {
	res := []string{}
	if fn == nil {
		return res
	}
	type pc struct {
		pos  token.Pos
		name string
	}
	var l []pc
	ast.Inspect(fn, func(n ast.Node) bool {
		if c, ok := n.(*ast.CallExpr); ok {
			s := src(c.Fun)
			for suf, lean := range table {
				if s == suf || strings.HasSuffix(s, "."+suf) {
					l = append(l, pc{c.Pos(), lean})
				}
			}
		}
		return true
	})
	sort.Slice(l, func(i, j int) bool { return l[i].pos < l[j].pos })
	for _, x := range l {
		res = append(res, x.name)
	}
	return res
}

func main() {
	if len(os.Args) < 3 {
		fmt.Fprintln(os.Stderr, "usage: extract <repo> <outdir-lean-Babble> [facts.json]")
		os.Exit(3)
	}
	repo := os.Args[1]
	ps := parse(filepath.Join(repo, "src/peers/peer_set.go"))
	hgf := parse(filepath.Join(repo, "src/hashgraph/hashgraph.go"))
	ri := parse(filepath.Join(repo, "src/hashgraph/roundInfo.go"))
	core := parse(filepath.Join(repo, "src/node/core.go"))
	node := parse(filepath.Join(repo, "src/node/node.go"))
	rpc := parse(filepath.Join(repo, "src/node/node_rpc.go"))
	appc := parse(filepath.Join(repo, "src/proxy/socket/app/socket_app_proxy_client.go"))
	babc := parse(filepath.Join(repo, "src/proxy/socket/babble/socket_babble_proxy_client.go"))

	// F1 supermajority
	{
		env := map[string]string{"peerSet.Len()": "n"}
		done := false
		if fn := findFunc(ps, "PeerSet", "SuperMajority"); fn != nil {
			ast.Inspect(fn, func(n ast.Node) bool {
				if as, ok := n.(*ast.AssignStmt); ok && !done && len(as.Lhs) == 1 && src(as.Lhs[0]) == "val" {
					s, ok := intExpr(as.Rhs[0], env)
					if ok {
						facts = append(facts, fact{"superMajority", "def superMajority (n : Nat) : Nat := " + s, "peers/peer_set.go:SuperMajority", src(as), true})
						done = true
					}
				}
				return true
			})
		}
		if !done {
			facts = append(facts, fact{"superMajority", "def superMajority (n : Nat) : Nat := unsupported_superMajority", "peers/peer_set.go:SuperMajority", "", false})
		}
	}
	// F2 trust count: guard on len(Peers) (slice length) and quotient on Len() (distinct keys)
	{
		env := map[string]string{"peerSet.Len()": "lenKeys", "len(peerSet.Peers)": "lenPeers"}
		done := false
		if fn := findFunc(ps, "PeerSet", "TrustCount"); fn != nil {
			ast.Inspect(fn, func(n ast.Node) bool {
				is, ok := n.(*ast.IfStmt)
				if !ok || done {
					return true
				}
				be, ok := is.Cond.(*ast.BinaryExpr)
				if !ok || len(is.Body.List) != 1 || is.Else != nil {
					return true
				}
				as, ok := is.Body.List[0].(*ast.AssignStmt)
				if !ok || src(as.Lhs[0]) != "val" {
					return true
				}
				cn, isCmp := cmpNames[be.Op]
				l, ok1 := intExpr(be.X, env)
				r, ok2 := intExpr(be.Y, env)
				v, ok3 := intExpr(as.Rhs[0], env)
				if isCmp && ok1 && ok2 && ok3 {
					facts = append(facts, fact{"trustCount",
						fmt.Sprintf("def trustCount (lenPeers lenKeys : Nat) : Nat := if (Cmp.evalN %s %s %s) then %s else 0", cn, l, r, v),
						"peers/peer_set.go:TrustCount", src(is.Cond) + " ; " + src(as), true})
					done = true
				}
				return true
			})
		}
		if !done {
			facts = append(facts, fact{"trustCount", "def trustCount (lenPeers lenKeys : Nat) : Nat := unsupported_trustCount", "peers/peer_set.go:TrustCount", "", false})
		}
	}
	// F3 comparison operators
	H := func(name string) *ast.FuncDecl { return findFunc(hgf, "Hashgraph", name) }
	addCmpOriented("cmpAncestor", H("_ancestor"), "hashgraph.go:_ancestor", 0, "entry.Index", "entry.Index", "ey.Index()")
	addCmpOriented("cmpStronglySeeCoord", H("_stronglySee"), "hashgraph.go:_stronglySee", 0, "xla.Index", "xla.Index", "yfd.Index")
	addCmpOriented("cmpStronglySee", H("_stronglySee"), "hashgraph.go:_stronglySee", 0, "c", "SuperMajority")
	addCmpOriented("cmpRound", H("_round"), "hashgraph.go:_round", 0, "c", "SuperMajority")
	addCmpOriented("cmpRoundParent", H("_round"), "hashgraph.go:_round", 0, "opRound", "opRound", "parentRound")
	addCmpOriented("cmpWitness", H("_witness"), "hashgraph.go:_witness", 0, "xRound", "xRound", "spRound")
	addCmpOriented("cmpLamport", H("_lamportTimestamp"), "hashgraph.go:_lamportTimestamp", 0, "opLT", "opLT", "plt")
	addCmpOriented("cmpFameTie", H("DecideFame"), "hashgraph.go:DecideFame", 0, "yays", "yays", "nays")
	addCmpOriented("cmpFameNormal", H("DecideFame"), "hashgraph.go:DecideFame (normal round)", 0, "t", "jPeerSet.SuperMajority")
	addCmpOriented("cmpFameCoin", H("DecideFame"), "hashgraph.go:DecideFame (coin round)", 1, "t", "jPeerSet.SuperMajority")
	addCmpOriented("cmpFirstVoteRound", H("DecideFame"), "hashgraph.go:DecideFame", 0, "diff", "diff", "1")
	addCmpOriented("cmpCoinTest", H("DecideFame"), "hashgraph.go:DecideFame", 0, "math.Mod", "math.Mod", "COIN_ROUND_FREQ")
	addCmpOriented("cmpWitnessesDecided", findFunc(ri, "RoundInfo", "WitnessesDecided"), "roundInfo.go:WitnessesDecided", 0, "c", "SuperMajority")
	addCmpOriented("cmpRoundReceivedAll", H("DecideRoundReceived"), "hashgraph.go:DecideRoundReceived", 0, "len(s)", "len(s)", "len(fws)")
	addCmpOriented("cmpRoundReceived", H("DecideRoundReceived"), "hashgraph.go:DecideRoundReceived", 0, "len(s)", "SuperMajority")
	addCmpOriented("cmpAnchor", H("SetAnchorBlock"), "hashgraph.go:SetAnchorBlock", 0, "len(block.Signatures)", "TrustCount")
	addCmpOriented("cmpAnchorIndex", H("SetAnchorBlock"), "hashgraph.go:SetAnchorBlock", 0, "block.Index()", "block.Index()", "h.AnchorBlock")
	addCmpOriented("cmpCheckBlockReject", H("CheckBlock"), "hashgraph.go:CheckBlock", 0, "validSignatures", "TrustCount")
	addCmpOriented("cmpBlockHasTx", H("ProcessDecidedRounds"), "hashgraph.go:ProcessDecidedRounds", 0, "len(block.Transactions())", "len(block.Transactions())")
	addCmpOriented("cmpBlockHasItx", H("ProcessDecidedRounds"), "hashgraph.go:ProcessDecidedRounds", 0, "len(block.InternalTransactions())", "len(block.InternalTransactions())")
	addCmpOriented("cmpFrameNonEmpty", H("ProcessDecidedRounds"), "hashgraph.go:ProcessDecidedRounds", 0, "len(frame.Events)", "len(frame.Events)")

	// F4 constants
	addConst("rootDepth", "Nat", hgf, "ROOT_DEPTH", "hashgraph.go:ROOT_DEPTH")
	addConst("coinRoundFreq", "Nat", hgf, "COIN_ROUND_FREQ", "hashgraph.go:COIN_ROUND_FREQ")
	{
		done := false
		if fn := findFunc(core, "core", "processAcceptedInternalTransactions"); fn != nil {
			ast.Inspect(fn, func(n ast.Node) bool {
				if as, ok := n.(*ast.AssignStmt); ok && !done && len(as.Lhs) == 1 && src(as.Lhs[0]) == "effectiveRound" {
					s, ok := intExpr(as.Rhs[0], map[string]string{"roundReceived": "rr"})
					if ok {
						facts = append(facts, fact{"effectiveRound", "def effectiveRound (rr : Int) : Int := " + s, "core.go:processAcceptedInternalTransactions", src(as), true})
						done = true
					}
				}
				return true
			})
		}
		if !done {
			facts = append(facts, fact{"effectiveRound", "def effectiveRound (rr : Int) : Int := unsupported_effectiveRound", "core.go:processAcceptedInternalTransactions", "", false})
		}
	}
	retries := func(name string, f *ast.File, ctor string, site string) {
		done := false
		ast.Inspect(f, func(n ast.Node) bool {
			kv, ok := n.(*ast.KeyValueExpr)
			if ok && !done && src(kv.Key) == "retries" {
				if s, ok := intExpr(kv.Value, nil); ok {
					facts = append(facts, fact{name, fmt.Sprintf("def %s : Nat := %s", name, s), site, src(kv), true})
					done = true
				}
			}
			return true
		})
		if !done {
			facts = append(facts, fact{name, fmt.Sprintf("def %s : Nat := unsupported_%s", name, name), site, "", false})
		}
	}
	retries("appProxyRetries", appc, "NewSocketAppProxyClient", "socket_app_proxy_client.go")
	retries("babbleProxyRetries", babc, "NewSocketBabbleProxyClient", "socket_babble_proxy_client.go")

	// F5 gate of processRPC
	{
		done := false
		if fn := findFunc(rpc, "Node", "processRPC"); fn != nil {
			ast.Inspect(fn, func(n ast.Node) bool {
				is, ok := n.(*ast.IfStmt)
				if ok && !done && is.Init != nil && strings.Contains(src(is.Init), "GetState") {
					s, ok := boolExpr(is.Cond)
					// the refusing branch must respond with an error and return
					body := src(is.Body)
					if ok && strings.Contains(body, "rpc.Respond(nil,") && strings.Contains(body, "return") {
						facts = append(facts, fact{"rpcRefused", "def rpcRefused (st : NodeState) (isSync : Bool) : Bool := " + s, "node_rpc.go:processRPC", src(is.Cond), true})
						done = true
					}
				}
				return true
			})
		}
		if !done {
			facts = append(facts, fact{"rpcRefused", "def rpcRefused (st : NodeState) (isSync : Bool) : Bool := unsupported_rpcRefused", "node_rpc.go:processRPC", "", false})
		}
	}
	// F8 checkSuspend: the comparison operators of the two conditions
	{
		fn := findFunc(node, "Node", "checkSuspend")
		addCmpOriented("cmpSuspendUndetermined", fn, "node.go:checkSuspend", 0, "newUndeterminedEvents", "newUndeterminedEvents", "SuspendLimit")
		addCmpOriented("cmpEvictedRemovedPositive", fn, "node.go:checkSuspend", 0, "removedRound", "removedRound > 0")
		addCmpOriented("cmpEvictedAfterAccepted", fn, "node.go:checkSuspend", 0, "removedRound", "removedRound", "acceptedRound")
		addCmpOriented("cmpEvictedReached", fn, "node.go:checkSuspend", 0, "LastConsensusRound", "LastConsensusRound", "removedRound")
		ok := false
		if fn != nil {
			b := src(fn.Body)
			ok = strings.Contains(b, "if tooManyUndeterminedEvents || evicted {") && strings.Contains(b, "n.Suspend()") &&
				strings.Contains(b, "len(n.core.getUndeterminedEvents()) - n.initialUndeterminedEvents") &&
				strings.Contains(b, "n.conf.SuspendLimit*n.core.validators.Len()") &&
				strings.Contains(b, "evicted := n.core.hg.LastConsensusRound != nil && n.core.removedRound > 0 && n.core.removedRound > n.core.acceptedRound && *n.core.hg.LastConsensusRound >= n.core.removedRound")
		}
		v := "true"
		if !ok {
			v = "unsupported_suspendShape"
		}
		facts = append(facts, fact{"suspendShape", "def suspendShape : Bool := " + v, "node.go:checkSuspend", "suspend iff tooManyUndeterminedEvents || evicted (shape of the two definitions)", ok})
	}
	// F9 core.busy: the disjunction that keeps a node gossiping
	{
		fn := findFunc(core, "core", "busy")
		ok := false
		text := ""
		if fn != nil {
			text = src(fn.Body)
			ok = strings.Contains(text, "return c.hg.PendingLoadedEvents > 0 || len(c.transactionPool) > 0 || len(c.internalTransactionPool) > 0 || c.selfBlockSignatures.Len() > 0 || (c.hg.LastConsensusRound != nil && *c.hg.LastConsensusRound < c.targetRound)")
		}
		v := "true"
		if !ok {
			v = "unsupported_busyShape"
		}
		facts = append(facts, fact{"busyShape", "def busyShape : Bool := " + v, "core.go:busy", "pendingLoaded > 0 || txPool > 0 || itxPool > 0 || sigPool > 0 || (lcr != nil && lcr < targetRound)", ok})
	}
	// F6 order of steps
	{
		fnChk := findFunc(core, "core", "checkFastForward")
		orderChk := callOrder(fnChk, map[string]string{"checkFastForwardInput": ".structure", "CheckBlock": ".checkBlock", "frame.Hash": ".frameHashCompare", "checkTrustedSigner": ".trustedSigner"})
		facts = append(facts, fact{"coreCheckSteps", "def coreCheckSteps : List FFStep := [" + strings.Join(orderChk, ", ") + "]", "core.go:checkFastForward", strings.Join(orderChk, " "), fnChk != nil})
		fn := findFunc(core, "core", "fastForward")
		order := callOrder(fn, map[string]string{"checkFastForward": ".check", "CheckBlock": ".checkBlock", "frame.Hash": ".frameHashCompare", "Reset": ".reset", "setPeers": ".setPeers"})
		facts = append(facts, fact{"coreFFSteps", "def coreFFSteps : List FFStep := [" + strings.Join(order, ", ") + "]", "core.go:fastForward", strings.Join(order, " "), fn != nil})
		fn2 := findFunc(node, "Node", "fastForward")
		order2 := callOrder(fn2, map[string]string{"checkFastForward": ".check", "Restore": ".restore", "fastForward": ".coreFF"})
		facts = append(facts, fact{"nodeFFSteps", "def nodeFFSteps : List FFStep := [" + strings.Join(order2, ", ") + "]", "node.go:fastForward", strings.Join(order2, " "), fn2 != nil})
	}
	// F7 which set CheckBlock is given, and which sets the trusted-signer check consults
	{
		set := "FFSet.unknown"
		text := ""
		fn := findFunc(core, "core", "checkFastForward")
		if fn == nil {
			fn = findFunc(core, "core", "fastForward")
		}
		if fn != nil {
			defs := map[string]string{}
			ast.Inspect(fn, func(n ast.Node) bool {
				if as, ok := n.(*ast.AssignStmt); ok && len(as.Lhs) == 1 && len(as.Rhs) == 1 {
					defs[src(as.Lhs[0])] = src(as.Rhs[0])
				}
				if c, ok := n.(*ast.CallExpr); ok && strings.HasSuffix(src(c.Fun), "CheckBlock") && len(c.Args) == 2 && text == "" {
					a := src(c.Args[1])
					if d, ok := defs[a]; ok {
						a = d
					}
					text = a
				}
				return true
			})
			if text == "peers.NewPeerSet(frame.Peers)" {
				set = "FFSet.fromResponse"
			} else if strings.Contains(text, "c.validators") || strings.Contains(text, "c.peers") || strings.Contains(text, "genesisPeers") || strings.Contains(text, "Store.GetPeerSet") {
				set = "FFSet.fromKnown"
			}
		}
		facts = append(facts, fact{"ffCheckSet", "def ffCheckSet : FFSet := " + set, "core.go:checkFastForward", text, true})
		srcs := []string{}
		texts := []string{}
		if ts := findFunc(core, "core", "checkTrustedSigner"); ts != nil {
			ast.Inspect(ts, func(n ast.Node) bool {
				if ix, ok := n.(*ast.IndexExpr); ok {
					t := src(ix.X)
					m := map[string]string{"c.peers.ByPubKey": ".peers", "c.genesisPeers.ByPubKey": ".genesis", "c.validators.ByPubKey": ".validators"}
					if l, ok := m[t]; ok {
						srcs = append(srcs, l)
						texts = append(texts, t)
					}
				}
				return true
			})
			// the function must end by refusing when no trusted signer verified
			body := src(ts.Body)
			if !strings.Contains(body, "block.Verify(s)") || !strings.HasSuffix(strings.TrimSpace(strings.TrimSuffix(strings.TrimSpace(body), "}")), `fmt.Errorf("Block is not signed by any known validator")`) {
				srcs = nil
			}
		}
		facts = append(facts, fact{"ffTrustedSets", "def ffTrustedSets : List TrustSrc := [" + strings.Join(srcs, ", ") + "]", "core.go:checkTrustedSigner", strings.Join(texts, " "), len(srcs) > 0})
	}

	// database and wire forms of an event: which fields are written, which are read back
	{
		evf := parse(filepath.Join(repo, "src/hashgraph/event.go"))
		leanPairs := func(l [][2]string) string {
			ps := []string{}
			for _, p := range l {
				ps = append(ps, fmt.Sprintf("(%q, %q)", p[0], p[1]))
			}
			return "[" + strings.Join(ps, ", ") + "]"
		}
		structFields := func(name string) []string {
			res := []string{}
			for _, d := range evf.Decls {
				gd, ok := d.(*ast.GenDecl)
				if !ok {
					continue
				}
				for _, sp := range gd.Specs {
					ts, ok := sp.(*ast.TypeSpec)
					if !ok || ts.Name.Name != name {
						continue
					}
					if st, ok := ts.Type.(*ast.StructType); ok {
						for _, f := range st.Fields.List {
							for _, n := range f.Names {
								res = append(res, n.Name)
							}
						}
					}
				}
			}
			return res
		}
		literal := func(fn *ast.FuncDecl, typ string) [][2]string {
			res := [][2]string{}
			if fn == nil {
				return res
			}
			ast.Inspect(fn, func(n ast.Node) bool {
				cl, ok := n.(*ast.CompositeLit)
				if !ok || src(cl.Type) != typ {
					return true
				}
				for _, el := range cl.Elts {
					if kv, ok := el.(*ast.KeyValueExpr); ok {
						if _, nested := kv.Value.(*ast.CompositeLit); nested {
							continue
						}
						res = append(res, [2]string{src(kv.Key), src(kv.Value)})
					}
				}
				return true
			})
			sort.Slice(res, func(i, j int) bool { return res[i][0] < res[j][0] })
			return res
		}
		quoteList := func(l []string) string {
			q := []string{}
			for _, x := range l {
				q = append(q, fmt.Sprintf("%q", x))
			}
			return "[" + strings.Join(q, ", ") + "]"
		}
		ws := structFields("eventWrapper")
		sort.Strings(ws)
		facts = append(facts, fact{"eventDBStruct", "def eventDBStruct : List String := " + quoteList(ws), "event.go:eventWrapper", strings.Join(ws, " "), len(ws) > 0})
		written := literal(findFunc(evf, "Event", "MarshalDB"), "eventWrapper")
		facts = append(facts, fact{"eventDBWritten", "def eventDBWritten : List (String × String) := " + leanPairs(written), "event.go:MarshalDB", fmt.Sprint(written), len(written) > 0})
		read := [][2]string{}
		if fn := findFunc(evf, "Event", "UnmarshalDB"); fn != nil {
			ast.Inspect(fn, func(n ast.Node) bool {
				as, ok := n.(*ast.AssignStmt)
				if !ok || len(as.Lhs) != 1 || len(as.Rhs) != 1 {
					return true
				}
				if se, ok := as.Rhs[0].(*ast.SelectorExpr); ok && src(se.X) == "wrapper" {
					read = append(read, [2]string{se.Sel.Name, src(as.Lhs[0])})
				}
				return true
			})
		}
		sort.Slice(read, func(i, j int) bool { return read[i][0] < read[j][0] })
		facts = append(facts, fact{"eventDBRead", "def eventDBRead : List (String × String) := " + leanPairs(read), "event.go:UnmarshalDB", fmt.Sprint(read), len(read) > 0})
		wb := structFields("WireBody")
		sort.Strings(wb)
		facts = append(facts, fact{"wireBodyStruct", "def wireBodyStruct : List String := " + quoteList(wb), "event.go:WireBody", strings.Join(wb, " "), len(wb) > 0})
		ww := literal(findFunc(evf, "Event", "ToWire"), "WireBody")
		facts = append(facts, fact{"wireBodyWritten", "def wireBodyWritten : List (String × String) := " + leanPairs(ww), "event.go:ToWire", fmt.Sprint(ww), len(ww) > 0})
	}

	// emit
	var b strings.Builder
	b.WriteString("-- GENERATED by /verif/extract from the Go sources of the repository under verification.\n")
	b.WriteString("-- Do not edit: ./check rewrites this file on every run when the sources changed.\n")
	b.WriteString("import Babble.Model.Prim\nnamespace Babble.Gen\nopen Babble\n\n")
	for _, f := range facts {
		if f.Src != "" {
			b.WriteString("/-- " + f.Site + " : `" + strings.ReplaceAll(f.Src, "-/", "- /") + "` -/\n")
		} else {
			b.WriteString("/-- " + f.Site + " : pattern not found -/\n")
		}
		b.WriteString(f.Lean + "\n\n")
	}
	b.WriteString("end Babble.Gen\n")
	out := filepath.Join(os.Args[2], "Generated.lean")
	old, _ := os.ReadFile(out)
	if string(old) != b.String() {
		if err := os.WriteFile(out, []byte(b.String()), 0644); err != nil {
			fmt.Fprintln(os.Stderr, "extract:", err)
			os.Exit(3)
		}
		fmt.Println("extract: Generated.lean rewritten")
	} else {
		fmt.Println("extract: Generated.lean unchanged")
	}
	if len(os.Args) > 3 {
		j, _ := json.MarshalIndent(facts, "", " ")
		os.WriteFile(os.Args[3], j, 0644)
	}
	bad := 0
	for _, f := range facts {
		if !f.OK {
			fmt.Println("extract: pattern not found for", f.Name, "at", f.Site)
			bad++
		}
	}
	_ = bad
}
