#!/bin/bash
# sweep.sh "<props>" "<quick seeds>" "<thorough seeds>": unchanged-tree sweep, meant for `vp run --with-repo -- ./sweep.sh ...`
# (builds the framework in the snapshot, runs against the snapshot of /repo; results are not evidence).
export VERIF_REPO=${VP_RUN_REPO:-/repo}
./setup.sh > setup.log 2>&1 || { echo SETUP-FAILED; tail -20 setup.log; exit 2; }
for s in $2; do for p in $1; do VERIF_SEED=$s ./check $p --tier quick 2>&1 | grep -E '^(OK|VIOLATION|BROKEN)' | sed "s/^/seed=$s /"; done; done
for s in $3; do for p in $1; do VERIF_SEED=$s ./check $p --tier thorough 2>&1 | grep -E '^(OK|VIOLATION|BROKEN)' | sed "s/^/seed=$s /"; done; done
echo SWEEP-DONE
