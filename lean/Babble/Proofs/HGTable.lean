import Babble.Proofs.PeerSets
import Babble.Proofs.HGRounds
/-! The validator-set table of the operational model is `buildTable` of its delivered blocks, and the
    delivered blocks are `Increasing`: the replay theorem of C10 applies to every reachable state of a
    node started from genesis.  Core Lean only. -/
namespace Babble.HG

/-- a delivered block as the table sees it -/
def pb (b : Block) : PBlock := (b.rr, b.itx)

def TblInv (g : List Nat) (s : St) : Prop :=
  (s.peerSets, s.validators) = buildTable g (s.blocks.map pb)

theorem applyReceipts_tableStep (s : St) (rr : Int) (itxs : List (Bool × Nat)) :
    ((s.applyReceipts rr itxs).peerSets, (s.applyReceipts rr itxs).validators) =
      tableStep (s.peerSets, s.validators) (rr, itxs) := by
  unfold St.applyReceipts tableStep
  by_cases h : itxs.isEmpty = true
  · simp [h]
  · simp only [h]
    by_cases h2 : (s.peerSets.any (·.1 == Gen.effectiveRound rr)) = true
    · simp [h2]
    · simp [h2]

theorem buildTable_snoc (g : List Nat) (bs : List PBlock) (b : PBlock) :
    buildTable g (bs ++ [b]) = tableStep (buildTable g bs) b := by
  unfold buildTable; rw [List.foldl_append]; rfl

theorem tblInv_of_out {g : List Nat} {a b : St} (h : b.out = a.out) (hI : TblInv g a) : TblInv g b := by
  unfold TblInv at hI ⊢
  have h1 : b.blocks = a.blocks := congrArg (·.1) h
  have h2 : b.peerSets = a.peerSets := congrArg (·.2.2.1) h
  have h3 : b.validators = a.validators := congrArg (·.2.2.2.1) h
  rw [h1, h2, h3]; exact hI

theorem processOne_tbl (g : List Nat) (s s' : St) (hI : TblInv g s) (h : s.processOne = some s') : TblInv g s' := by
  unfold St.processOne at h
  split at h
  · cases h
  · rename_i r d rest hp
    split at h
    · cases h
    · split at h
      · cases h
      · rename_i ri hg
        simp only [] at h
        split at h
        · rename_i b hb
          injection h with h
          subst h
          unfold TblInv at hI ⊢
          show ((St.addBlock _ b).peerSets, (St.addBlock _ b).validators) = buildTable g ((St.addBlock _ b).blocks.map pb)
          rw [(addBlock_blocks _ b).1]
          unfold St.addBlock
          rw [applyReceipts_tableStep]
          show tableStep (s.peerSets, s.validators) (b.rr, b.itx) = buildTable g ((s.blocks ++ [b]).map pb)
          rw [List.map_append, List.map_cons, List.map_nil, buildTable_snoc, ← hI]
          rfl
        · injection h with h
          subst h
          exact hI

theorem processLoop_tbl (g : List Nat) (fuel : Nat) (s : St) (hI : TblInv g s) : TblInv g (s.processLoop fuel) := by
  induction fuel generalizing s with
  | zero => exact hI
  | succ fuel ih =>
    unfold St.processLoop
    split
    · exact hI
    · rename_i s' h
      exact ih s' (processOne_tbl g s s' hI h)

theorem runConsensus_tbl (g : List Nat) (s : St) (hI : TblInv g s) : TblInv g s.runConsensus := by
  unfold St.runConsensus St.processDecidedRounds
  have hout : (s.divideRounds.decideFame.decideRoundReceived).out = s.out := by
    rw [decideRoundReceived_out, decideFame_out, divideRounds_out]
  exact processLoop_tbl g _ _ (tblInv_of_out hout hI)

theorem insertAndRun_tbl (g : List Nat) (s : St) (e : Ev) (hI : TblInv g s) : TblInv g (s.insertAndRun e).1 := by
  unfold St.insertAndRun
  split
  · exact hI
  · exact runConsensus_tbl g _ (tblInv_of_out (insert_out s e) hI)

theorem runAll_tbl (g : List Nat) (s : St) (es : List Ev) (hI : TblInv g s) : TblInv g (runAll s es) := by
  unfold runAll
  induction es generalizing s with
  | nil => exact hI
  | cons e es ih => simp only [List.foldl_cons]; exact ih _ (insertAndRun_tbl g s e hI)

theorem init_tbl (g : List Nat) : TblInv g (St.init g) := rfl

theorem increasing_of_pairwise (bs : List PBlock) (h0 : ∀ b ∈ bs, 0 ≤ b.1)
    (hp : bs.Pairwise (fun a b => a.1 < b.1)) : Increasing bs := by
  induction bs with
  | nil => trivial
  | cons b t ih =>
    rw [List.pairwise_cons] at hp
    exact ⟨h0 b List.mem_cons_self, hp.1, ih (fun c hc => h0 c (List.mem_cons_of_mem _ hc)) hp.2⟩

/-- the delivered blocks of a node started from genesis are `Increasing` -/
theorem runAll_increasing (g : List Nat) (es : List Ev) (hes : ∀ e ∈ es, e.round = none) :
    Increasing ((runAll (St.init g) es).blocks.map pb) := by
  have hI := runAll_inv _ es (init_rinv g) hes
  apply increasing_of_pairwise
  · intro b hb
    obtain ⟨b', hb', rfl⟩ := List.mem_map.mp hb
    exact (hI.b1 b' hb').1
  · rw [List.pairwise_map]; exact hI.b3

end Babble.HG
