import Babble.Proofs.HGRoundMono
/-! # What a stored witness flag means — on the operational model
    For every sequence of insertion attempts of fresh events into a node started from genesis: an
    event whose witness flag is `true` has a round strictly above the round of its self-parent — it is
    the first event of its creator's chain in that round.  Same skeleton as `HGRoundMono`.
    Core Lean only. -/
namespace Babble.HG

def St.witOpt (s : St) (x : String) : Option Bool := (s.get x).bind (·.wit)

/-- a witness's round is strictly above its self-parent's -/
def WTrue (s : St) : Prop := ∀ x sp op r, s.parOf x = some (sp, op) → s.witOpt x = some true → s.roundOpt x = some r →
  (sp ≠ "" → ∀ rp, s.roundOpt sp = some rp → rp < r)

theorem WTrue.congr {s s' : St} (hp : ∀ x, s'.parOf x = s.parOf x) (hr : ∀ x, s'.roundOpt x = s.roundOpt x)
    (hw : ∀ x, s'.witOpt x = s.witOpt x) (h : WTrue s) : WTrue s' := by
  intro x sp op r hx hwx hrx hsp rp hrp
  rw [hp] at hx; rw [hw] at hwx; rw [hr] at hrx hrp
  exact h x sp op r hx hwx hrx hsp rp hrp

theorem witOpt_of_final {s s' : St} (hA : AttrOnly s s') (hF : Final s s') (hall : RAll s) (x : String) :
    s'.witOpt x = s.witOpt x := by
  have hp := hA.parOf x
  cases hx : s.get x with
  | none =>
    have : s'.get x = none := by
      have h1 := parOf_isSome s' x
      rw [hp, parOf_isSome, hx] at h1
      cases h' : s'.get x with
      | none => rfl
      | some _ => rw [h'] at h1; cases h1
    unfold St.witOpt; rw [this, hx]
  | some e =>
    have hs : (s.roundOpt x).isSome := hall x (by rw [parOf_isSome, hx]; rfl)
    obtain ⟨e', hg', hr, _, _⟩ := hF.ev x e hx
    unfold St.roundOpt at hs
    unfold St.witOpt
    rw [hx] at hs ⊢
    rw [hg']
    simp only [Option.bind_some] at hs ⊢
    exact (hr hs).2

theorem witOpt_of_get_map (s s' : St) (g : Ev → Ev) (h : ∀ x, s'.get x = (s.get x).map g)
    (hg : ∀ e, (g e).wit = e.wit) (x : String) : s'.witOpt x = s.witOpt x := by
  unfold St.witOpt; rw [h]; cases s.get x <;> simp [hg]

/-- the witness flag `assignRound` stores -/
def St.assignedWit (s : St) (id : String) (ev : Ev) : Bool :=
  ((s.queueRound (s.computeRound ev) ((s.getRound (s.computeRound ev)).getD {})).update id
    (fun e => { e with round := some (s.computeRound ev) })).computeWitness ev (s.computeRound ev)

theorem assignRound_get'' (s : St) (id : String) (ev : Ev) (x : String) :
    (s.assignRound id ev).get x =
      (s.get x).map (fun e => if e.id == id then { e with round := some (s.computeRound ev), wit := some (s.assignedWit id ev) } else e) := by
  unfold St.assignRound St.assignedWit
  simp only []
  rw [get_update, get_of_events (setRound_events _ _ _), get_update, get_of_events (queueRound_events _ _ _)]
  · cases s.get x with
    | none => rfl
    | some e =>
      simp only [Option.map_some]
      by_cases hc : e.id = id
      · have hc' : (e.id == id) = true := by simpa using hc
        simp [hc']
      · have hc' : (e.id == id) = false := by simpa using hc
        simp [hc']
  · intro e; rfl
  · intro e; rfl

/-- a `true` flag was computed from a round strictly above the self-parent's -/
theorem assignedWit_true (s : St) (id : String) (ev : Ev) (h : s.assignedWit id ev = true)
    (hsp : ev.sp ≠ "") (hne : ev.sp ≠ id) : s.roundOf ev.sp < s.computeRound ev := by
  unfold St.assignedWit St.computeWitness at h
  simp only [Bool.and_eq_true] at h
  have h2 := h.2
  have hsp' : (ev.sp == "") = false := by simpa using hsp
  simp only [hsp', Bool.false_eq_true, if_false, Gen.cmpWitness, Cmp.eval, decide_eq_true_eq] at h2
  have : ((s.queueRound (s.computeRound ev) ((s.getRound (s.computeRound ev)).getD {})).update id
      (fun e => { e with round := some (s.computeRound ev) })).roundOf ev.sp = s.roundOf ev.sp := by
    unfold St.roundOf
    rw [get_update _ id (fun e => { e with round := some (s.computeRound ev) }) (fun _ => rfl), get_of_events (queueRound_events _ _ _)]
    cases hg : s.get ev.sp with
    | none => rfl
    | some p =>
      have hid : p.id = ev.sp := get_id hg
      have : ¬ p.id = id := by rw [hid]; exact hne
      simp [this]
  rw [this] at h2
  omega

theorem assignRound_witOpt (s : St) (id : String) (ev : Ev) (x : String) :
    (s.assignRound id ev).witOpt x =
      if x = id ∧ (s.get x).isSome then some (s.assignedWit id ev) else s.witOpt x := by
  unfold St.witOpt
  rw [assignRound_get'']
  cases hx : s.get x with
  | none => simp
  | some e =>
    have hid : e.id = x := get_id hx
    simp only [Option.map_some, Option.bind_some, Option.isSome_some, and_true]
    by_cases hxy : x = id
    · have : (e.id == id) = true := by simpa [hid] using hxy
      simp only [this, if_true, hxy]
    · have : (e.id == id) = false := by simpa [hid] using hxy
      simp only [this, Bool.false_eq_true, if_false, hxy]

theorem assignLamport_witOpt (s : St) (id : String) (x : String) :
    (s.assignLamport id).witOpt x = s.witOpt x := by
  unfold St.assignLamport
  split
  · rfl
  · rename_i ev1 hg
    apply witOpt_of_get_map s _ _
      (get_update s id (fun e => { e with lamport := some (s.computeLamport ev1) }) (fun _ => rfl))
    intro e; split <;> rfl

theorem divideOne_witOpt (st : St) (y : String) (x : String) :
    (divideOne st y).witOpt x =
      match st.get y with
      | some ev => if x = y ∧ ev.round.isNone then some (st.assignedWit y ev) else st.witOpt x
      | none => st.witOpt x := by
  unfold divideOne
  cases hg : st.get y with
  | none => rfl
  | some ev =>
    simp only []
    have key : ∀ st1 : St, (if ev.lamport.isNone = true then st1.assignLamport y else st1).witOpt x = st1.witOpt x := by
      intro st1; split
      · exact assignLamport_witOpt st1 y x
      · rfl
    rw [key]
    by_cases hr : ev.round.isNone = true
    · simp only [hr, if_true, and_true]
      rw [assignRound_witOpt]
      by_cases hxy : x = y
      · subst hxy; simp [hg]
      · simp [hxy]
    · have hr' : ev.round.isNone = false := by cases h : ev.round.isNone <;> simp_all
      simp [hr']

theorem foldl_divideOne_wset (l : List String) (st : St)
    (h : ∀ y ∈ l, (st.parOf y).isSome → (st.roundOpt y).isSome) :
    ∀ x, (l.foldl divideOne st).witOpt x = st.witOpt x := by
  induction l generalizing st with
  | nil => exact fun _ => rfl
  | cons y l ih =>
    have hround : ∀ ev, st.get y = some ev → ev.round.isNone = false := by
      intro ev hg
      have hs := h y (by simp) (by rw [parOf_isSome, hg]; rfl)
      unfold St.roundOpt at hs
      rw [hg] at hs
      simp only [Option.bind_some] at hs
      cases hh : ev.round with
      | none => rw [hh] at hs; cases hs
      | some _ => rfl
    have h1 : ∀ x, (divideOne st y).witOpt x = st.witOpt x := by
      intro x
      rw [divideOne_witOpt]
      cases hg : st.get y with
      | none => rfl
      | some ev => simp [hround ev hg]
    have h1r : ∀ x, (divideOne st y).roundOpt x = st.roundOpt x := by
      intro x
      rw [divideOne_roundOpt]
      cases hg : st.get y with
      | none => rfl
      | some ev => simp [hround ev hg]
    have h2 : ∀ x, (divideOne st y).parOf x = st.parOf x := divideOne_parOf st y
    have ih' := ih (divideOne st y) (fun z hz hzp => by
      rw [h1r]; rw [h2] at hzp; exact h z (List.mem_cons_of_mem _ hz) hzp)
    simp only [List.foldl_cons]
    exact fun x => (ih' x).trans (h1 x)

/-! ## InsertEvent -/

theorem fdWalk_witOpt (s : St) (fuel : Nat) (ah : String) (cr : Nat) (idx : Int) (x : String) :
    (s.fdWalk fuel ah cr idx).witOpt x = s.witOpt x := by
  induction fuel generalizing s ah with
  | zero => rfl
  | succ fuel ih =>
    unfold St.fdWalk
    split
    · rfl
    · split
      · rfl
      · simp only []
        have hu : (s.update ah (fun a => { a with fd := setAt a.fd cr (some idx) })).witOpt x = s.witOpt x := by
          apply witOpt_of_get_map s _ _ (get_update s ah (fun a => { a with fd := setAt a.fd cr (some idx) }) (fun _ => rfl))
          intro e; split <;> rfl
        split
        · exact hu
        · exact (ih _ _).trans hu

theorem foldl_walkOne_witOpt (cr : Nat) (idx : Int) (l : List (Option Coord)) (s : St) (x : String) :
    (l.foldl (walkOne cr idx) s).witOpt x = s.witOpt x := by
  induction l generalizing s with
  | nil => rfl
  | cons c l ih =>
    simp only [List.foldl_cons]
    refine (ih _).trans ?_
    unfold walkOne; split
    · exact fdWalk_witOpt _ _ _ _ _ _
    · rfl

theorem insert_witOpt_ne (s : St) (e : Ev) (x : String) (hne : e.id ≠ x) :
    (s.insert e).witOpt x = s.witOpt x := by
  have h1 : (s.insert e).witOpt x = (s.insertCoords e).witOpt x := rfl
  rw [h1]
  unfold St.insertCoords
  simp only []
  rw [foldl_walkOne_witOpt]
  unfold St.witOpt
  rw [get_cons_ne s { e with la := s.initLa e, fd := setAt [] e.creator (some e.index) } x hne]

/-! ## one insertion followed by the passes -/

theorem insert_divide_wtrue (s : St) (e : Ev) (hR : RMInv s) (hW : WTrue s) (hadm : s.admission e = none)
    (hf : s.get e.id = none) (hid : e.id ≠ "") (hl : e.round = none)
    (hu : e.id ∉ s.undet) : WTrue (s.insert e).divideRounds := by
  have hP1 : ∀ x, e.id ≠ x → (s.insert e).parOf x = s.parOf x := fun x h => insert_parOf_ne s e x h
  have hPz : (s.insert e).parOf e.id = some (e.sp, e.op) := insert_parOf_eq s e hid
  have hL1 : ∀ x, e.id ≠ x → (s.insert e).roundOpt x = s.roundOpt x := fun x h => insert_roundOpt_ne s e x h
  have hW1 : ∀ x, e.id ≠ x → (s.insert e).witOpt x = s.witOpt x := fun x h => insert_witOpt_ne s e x h
  have hLz : (s.insert e).roundOpt e.id = none := insert_roundOpt_eq s e hid hl
  have hund : (s.insert e).undet = s.undet ++ [e.id] := by
    unfold St.insert; simp only []; rw [(insertCoords_quiet s e).undet]
  have hpz0 : s.parOf e.id = none := parOf_none_of_get s e.id hf
  have hset : ∀ y ∈ s.undet, ((s.insert e).parOf y).isSome → ((s.insert e).roundOpt y).isSome := by
    intro y hy hyp
    have hne : e.id ≠ y := fun h => hu (h ▸ hy)
    rw [hL1 y hne]; rw [hP1 y hne] at hyp; exact hR.all y hyp
  unfold St.divideRounds
  rw [hund, List.foldl_append]
  simp only [List.foldl_cons, List.foldl_nil]
  obtain ⟨hl', hp'⟩ := foldl_divideOne_rset s.undet (s.insert e) hset
  have hw' := foldl_divideOne_wset s.undet (s.insert e) hset
  generalize s.undet.foldl divideOne (s.insert e) = st' at hl' hp' hw'
  have hP2 : ∀ x, (divideOne st' e.id).parOf x = (s.insert e).parOf x :=
    fun x => (divideOne_parOf st' e.id x).trans (hp' x)
  have hpz' : st'.parOf e.id = some (e.sp, e.op) := by rw [hp', hPz]
  obtain ⟨ev, hev⟩ : ∃ ev, st'.get e.id = some ev := by
    have := parOf_isSome st' e.id
    rw [hpz'] at this
    exact Option.isSome_iff_exists.mp this.symm
  have hevp : ev.sp = e.sp ∧ ev.op = e.op := by
    unfold St.parOf at hpz'
    rw [hev] at hpz'
    simp only [Option.map_some, Option.some.injEq, Prod.mk.injEq] at hpz'
    exact hpz'
  have hevr : ev.round = none := by
    have := hl' e.id
    rw [hLz] at this
    unfold St.roundOpt at this
    rw [hev] at this
    simpa using this
  have hR2z : (divideOne st' e.id).roundOpt e.id = some (st'.computeRound ev) := by
    rw [divideOne_roundOpt, hev]; simp [hevr]
  have hW2z : (divideOne st' e.id).witOpt e.id = some (st'.assignedWit e.id ev) := by
    rw [divideOne_witOpt, hev]; simp [hevr]
  have hR2 : ∀ x, e.id ≠ x → (divideOne st' e.id).roundOpt x = s.roundOpt x := by
    intro x hne
    rw [divideOne_roundOpt, hev]
    have hxe : ¬ x = e.id := fun h => hne h.symm
    simp only [hxe, false_and, if_false, hl', hL1 x hne]
  have hW2 : ∀ x, e.id ≠ x → (divideOne st' e.id).witOpt x = s.witOpt x := by
    intro x hne
    rw [divideOne_witOpt, hev]
    have hxe : ¬ x = e.id := fun h => hne h.symm
    simp only [hxe, false_and, if_false, hw', hW1 x hne]
  have hpar := admission_parents s e hadm
  have hspz : e.sp ≠ "" → e.id ≠ e.sp := by
    intro h heq
    have := hpar.1 h
    rw [← heq, hpz0] at this; cases this
  intro x sp op r hx hwx hrx hsp rp hrp
  rw [hP2] at hx
  by_cases hxz : e.id = x
  · subst hxz
    rw [hPz] at hx
    simp only [Option.some.injEq, Prod.mk.injEq] at hx
    obtain ⟨h1, h2⟩ := hx
    subst h1; subst h2
    rw [hW2z] at hwx
    rw [hR2z] at hrx
    injection hwx with hwx
    injection hrx with hrx
    subst hrx
    have hne := hspz hsp
    rw [hR2 _ hne] at hrp
    have hlt := assignedWit_true st' e.id ev hwx (by rw [hevp.1]; exact hsp) (by rw [hevp.1]; exact fun h => hne h.symm)
    rw [hevp.1, roundOf_eq, hl', hL1 _ hne, hrp] at hlt
    simpa using hlt
  · rw [hP1 x hxz] at hx
    rw [hW2 x hxz] at hwx
    rw [hR2 x hxz] at hrx
    have hin := hR.par x sp op hx
    have hne : e.id ≠ sp := by
      intro heq; have := hin.1 hsp; rw [← heq, hpz0] at this; cases this
    rw [hR2 sp hne] at hrp
    exact hW x sp op r hx hwx hrx hsp rp hrp

theorem insertAndRun_wtrue (s : St) (e : Ev) (seen : List String) (hA : AllInv s seen) (hR : RMInv s) (hW : WTrue s)
    (hf : e.id ∉ seen) (hid : e.id ≠ "") (hl : e.round = none) (hrr : e.rr = none) :
    WTrue (s.insertAndRun e).1 := by
  unfold St.insertAndRun
  split
  · exact hW
  · rename_i hadm
    have hget : s.get e.id = none := get_none_of_not_mem s e.id (fun h => hf (hA.ids _ h))
    have hu : e.id ∉ s.undet := fun h => hf (hA.c.us _ h)
    have k0 := insert_keeps s e hget hrr
    have hc1 := insert_cinv s e seen hA.c hf
    have hn1 : NInv (s.insert e) := by
      intro x hx
      have hund : (s.insert e).undet = s.undet ++ [e.id] := by
        unfold St.insert; simp only []; rw [(insertCoords_quiet s e).undet]
      rw [hund] at hx
      rcases List.mem_append.mp hx with hx | hx
      · exact k0.rr_none x (hA.n x hx)
      · have : x = e.id := by simpa using hx
        subst this
        exact k0.rr_none _ (fun e' he' => by rw [hget] at he'; cases he')
    have h2 := insert_divide_wtrue s e hR hW hadm hget hid hl hu
    have hR2 := insert_divide_rminv s e hR hadm hget hid hl hu
    obtain ⟨f, a⟩ := tail_final (s.insert e) (seen ++ [e.id]) hc1 hn1
    exact h2.congr a.parOf (roundOpt_of_final a f hR2.all) (witOpt_of_final a f hR2.all)

theorem runAll_wtrue (s : St) (es : List Ev) (seen : List String) (hA : AllInv s seen) (hR : RMInv s) (hW : WTrue s)
    (hnd : (seen ++ es.map (·.id)).Nodup) (hfresh : ∀ e ∈ es, e.id ≠ "" ∧ e.round = none ∧ e.rr = none) :
    WTrue (runAll s es) := by
  induction es generalizing s seen with
  | nil => exact hW
  | cons e es ih =>
    have hf : e.id ∉ seen := by
      intro hm
      exact (List.nodup_append.mp hnd).2.2 e.id hm e.id (by simp) rfl
    have hfe := hfresh e (by simp)
    have h1 := insertAndRun_wtrue s e seen hA hR hW hf hfe.1 hfe.2.1 hfe.2.2
    have hR1 := insertAndRun_rminv s e seen hA hR hf hfe.1 hfe.2.1 hfe.2.2
    obtain ⟨_, hA1⟩ := insertAndRun_all s e seen hA hf hfe.2.2
    have : runAll s (e :: es) = runAll (s.insertAndRun e).1 es := rfl
    rw [this]
    exact ih (s.insertAndRun e).1 (seen ++ [e.id]) hA1 hR1 h1 (by simpa [List.append_assoc] using hnd)
      (fun e' he' => hfresh e' (List.mem_cons_of_mem _ he'))

/-- **a witness is the first event of its creator's chain in its round**: in every state a node
    started from genesis reaches by insertion attempts of fresh events, a stored event whose witness
    flag is `true` has a round strictly above the round of its self-parent -/
theorem witness_above_self_parent (g : List Nat) (es : List Ev) (hnd : (es.map (·.id)).Nodup)
    (hfresh : ∀ e ∈ es, e.id ≠ "" ∧ e.round = none ∧ e.rr = none) (x : String) (e p : Ev) (r rp : Int)
    (hx : (runAll (St.init g) es).get x = some e) (hw : e.wit = some true) (hr : e.round = some r)
    (hsp : e.sp ≠ "") (hp : (runAll (St.init g) es).get e.sp = some p) (hrp : p.round = some rp) : rp < r := by
  have hW := runAll_wtrue (St.init g) es [] (init_all g) (init_rminv g)
    (by
      intro x sp op r hx
      have hget : (St.init g).get x = none := by unfold St.get St.init; simp
      rw [parOf_none_of_get _ _ hget] at hx; cases hx)
    (by simpa using hnd) hfresh
  generalize runAll (St.init g) es = s at hW hx hp
  exact hW x e.sp e.op r (by unfold St.parOf; rw [hx]; rfl) (by unfold St.witOpt; rw [hx]; exact hw)
    (by unfold St.roundOpt; rw [hx]; exact hr) hsp rp (by unfold St.roundOpt; rw [hp]; exact hrp)

end Babble.HG
