import Babble.Model.Containers
/-! Refinement lemmas for the container models: what `RollingIndex` and `LRU` return is always the
    latest value written at that index / key (they are partial views of a plain map), and their sizes
    stay bounded.  Core Lean only. -/
namespace Babble.Containers
namespace RI
variable {α : Type}

/-- regular: an index that is still "empty" (`lastIndex < 0`) holds no items.  Holds whenever the
    first index set is non-negative (participant indexes start at 0 after the C07 repair; the
    consensus cache counts from 0). -/
def Reg (r : RI α) : Prop := (r.lastIndex < 0 → r.items = []) ∧ (r.items.length : Int) ≤ r.lastIndex + 1

/-- the cached window as a partial function from indexes to items -/
def view (r : RI α) (i : Int) : Option α :=
  if r.oldest ≤ i ∧ i ≤ r.lastIndex then r.items[(i - r.oldest).toNat]? else none

theorem reg_new (size : Nat) : Reg (new size : RI α) := by
  unfold Reg new; simp

theorem getItem_eq_view (r : RI α) (hr : Reg r) (i : Int) :
    r.getItem i = (match r.view i with
      | some x => .ok x
      | none => if i < r.oldest then .error .tooLate else .error .notFound) := by
  unfold getItem view oldest
  by_cases h1 : i < r.lastIndex - r.items.length + 1
  · have : ¬ (r.lastIndex - r.items.length + 1 ≤ i ∧ i ≤ r.lastIndex) := by omega
    simp [h1, this]
  · simp only [h1, if_false]
    by_cases h2 : i ≤ r.lastIndex
    · have h3 : r.lastIndex - r.items.length + 1 ≤ i ∧ i ≤ r.lastIndex := ⟨by omega, h2⟩
      simp only [h3, and_self, if_true]
      cases r.items[(i - (r.lastIndex - ↑r.items.length + 1)).toNat]? <;> simp [h1]
    · have h3 : ¬ (r.lastIndex - r.items.length + 1 ≤ i ∧ i ≤ r.lastIndex) := by omega
      have h4 : r.items[(i - (r.lastIndex - ↑r.items.length + 1)).toNat]? = none := by
        apply List.getElem?_eq_none
        omega
      simp [h3, h4, h1]

/-- a successful `Set` with a non-negative index keeps the structure regular -/
theorem set_reg (r r' : RI α) (x : α) (i : Int) (hr : Reg r) (hi : 0 ≤ i) (h : r.set x i = .ok r') : Reg r' := by
  unfold set at h
  split at h
  · cases h
  · split at h
    · injection h with h; subst h
      unfold Reg roll
      simp only []
      constructor
      · intro hneg; omega
      · split
        · simp only [List.length_append, List.length_drop, List.length_singleton]
          have := hr.2
          push_cast
          omega
        · simp only [List.length_append, List.length_singleton]
          have := hr.2
          push_cast
          rename_i hc _
          rcases hc with hc | hc
          · have := hr.1 hc; simp [this]; omega
          · omega
    · split at h
      · cases h
      · injection h with h; subst h
        unfold Reg at *
        simp only [List.length_set]
        exact ⟨by intro hn; have := hr.1 hn; simp [this], hr.2⟩

/-- `Set` stores the item at its index -/
theorem view_set_same (r r' : RI α) (x : α) (i : Int) (hr : Reg r) (hi : 0 ≤ i) (h : r.set x i = .ok r') :
    r'.view i = some x := by
  unfold set at h
  split at h
  · cases h
  · rename_i hskip
    split at h
    · rename_i happ
      injection h with h; subst h
      unfold view oldest roll
      simp only []
      split
      · simp only [List.length_append, List.length_drop, List.length_singleton]
        have h1 : (i - (i - (↑(r.items.length - r.size / 2 + 1) : Int) + 1)).toNat = r.items.length - r.size / 2 := by
          push_cast; omega
        have h2 : (i - (↑(r.items.length - r.size / 2 + 1) : Int) + 1 ≤ i ∧ i ≤ i) := by
          constructor
          · push_cast; omega
          · omega
        simp only [h2, and_self, if_true, h1]
        rw [List.getElem?_append_right (by simp)]
        simp
      · simp only [List.length_append, List.length_singleton]
        have h1 : (i - (i - (↑(r.items.length + 1) : Int) + 1)).toNat = r.items.length := by
          push_cast; omega
        have h2 : (i - (↑(r.items.length + 1) : Int) + 1 ≤ i ∧ i ≤ i) := by
          constructor
          · push_cast; omega
          · omega
        simp only [h2, and_self, if_true, h1]
        rw [List.getElem?_append_right (by simp)]
        simp
    · rename_i happ
      split at h
      · cases h
      · rename_i hold
        injection h with h; subst h
        unfold view oldest at *
        simp only [List.length_set]
        have hle : i ≤ r.lastIndex := by omega
        have h2 : r.lastIndex - r.items.length + 1 ≤ i ∧ i ≤ r.lastIndex := ⟨by omega, hle⟩
        simp only [h2, and_self, if_true]
        rw [List.getElem?_set_self]
        omega

/-- replacing in place leaves every other index untouched -/
theorem view_set_replace (r r' : RI α) (x : α) (i j : Int) (h : r.set x i = .ok r')
    (hin : ¬ (r.lastIndex < 0 ∨ i = r.lastIndex + 1)) (hij : j ≠ i) : r'.view j = r.view j := by
  unfold set at h
  split at h
  · cases h
  · split at h
    · cases h
    · rename_i hold
      injection h with h; subst h
      unfold view oldest at *
      simp only [List.length_set]
      by_cases hw : r.lastIndex - r.items.length + 1 ≤ j ∧ j ≤ r.lastIndex
      · simp only [hw, and_self, if_true]
        rw [List.getElem?_set_ne]
        omega
      · simp [hw]

theorem view_none_of_gt (r : RI α) (j : Int) (h : r.lastIndex < j) : r.view j = none := by
  unfold view
  have : ¬ (r.oldest ≤ j ∧ j ≤ r.lastIndex) := by omega
  simp [this]

theorem view_none_of_lt (r : RI α) (j : Int) (h : j < r.oldest) : r.view j = none := by
  unfold view
  have : ¬ (r.oldest ≤ j ∧ j ≤ r.lastIndex) := by omega
  simp [this]

theorem view_empty (r : RI α) (j : Int) (h : r.items = []) : r.view j = none := by
  unfold view oldest
  rw [h]
  have : ¬ (r.lastIndex - (([] : List α).length : Nat) + 1 ≤ j ∧ j ≤ r.lastIndex) := by simp; omega
  simp [this]

/-- the state after an appending `Set` -/
theorem set_append_eq (r r' : RI α) (x : α) (i : Int) (h : r.set x i = .ok r')
    (hin : r.lastIndex < 0 ∨ i = r.lastIndex + 1) :
    r'.lastIndex = i ∧ r'.size = r.size ∧
    r'.items = (if r.items.length ≥ r.size then r.items.drop (r.size / 2) else r.items) ++ [x] := by
  unfold set at h
  split at h
  · rename_i hs; omega
  · simp only [] at h
    injection h with h; subst h
    unfold roll
    refine ⟨rfl, ?_, ?_⟩ <;> split <;> rfl

/-- appending keeps every index that is still inside the new window -/
theorem view_set_append (r r' : RI α) (x : α) (i j : Int) (hr : Reg r) (h : r.set x i = .ok r')
    (hin : r.lastIndex < 0 ∨ i = r.lastIndex + 1) (hij : j ≠ i) (hw : r'.oldest ≤ j) : r'.view j = r.view j := by
  obtain ⟨hl, _, hit⟩ := set_append_eq r r' x i h hin
  by_cases hgt : i < j
  · rw [view_none_of_gt r' j (by omega)]
    by_cases hneg : r.lastIndex < 0
    · rw [view_empty r j (hr.1 hneg)]
    · rw [view_none_of_gt r j (by omega)]
  · have hlt : j < i := by omega
    by_cases hneg : r.lastIndex < 0
    · -- first item: new window = {i}
      have hitems := hr.1 hneg
      rw [hitems] at hit
      have : r'.items = [x] := by rw [hit]; split <;> simp
      unfold oldest at hw
      rw [this, hl] at hw
      simp at hw
      omega
    · have hi' : i = r.lastIndex + 1 := by omega
      have hjl : j ≤ r.lastIndex := by omega
      unfold view oldest at *
      rw [hl] at hw ⊢
      rw [hit] at hw ⊢
      by_cases hfull : r.items.length ≥ r.size
      · simp only [hfull, if_true, List.length_append, List.length_drop, List.length_singleton] at hw ⊢
        have hlen := hr.2
        have c1 : (i - (↑(r.items.length - r.size / 2 + 1) : Int) + 1 ≤ j ∧ j ≤ i) := ⟨hw, by omega⟩
        have c2 : (r.lastIndex - (r.items.length : Int) + 1 ≤ j ∧ j ≤ r.lastIndex) := ⟨by push_cast at hw; omega, hjl⟩
        simp only [c1, c2, and_self, if_true]
        rw [List.getElem?_append_left (by simp; push_cast at hw; omega)]
        rw [List.getElem?_drop]
        congr 1
        push_cast at hw ⊢
        omega
      · simp only [hfull, if_false, List.length_append, List.length_singleton] at hw ⊢
        have c1 : (i - (↑(r.items.length + 1) : Int) + 1 ≤ j ∧ j ≤ i) := ⟨hw, by omega⟩
        have c2 : (r.lastIndex - (r.items.length : Int) + 1 ≤ j ∧ j ≤ r.lastIndex) := ⟨by push_cast at hw; omega, hjl⟩
        simp only [c1, c2, and_self, if_true]
        rw [List.getElem?_append_left (by push_cast at hw; omega)]
        congr 1
        push_cast at hw ⊢
        omega

/-- capacity: with a size of at least two the window never exceeds `size` items -/
theorem set_len (r r' : RI α) (x : α) (i : Int) (hs : 2 ≤ r.size) (hl : r.items.length ≤ r.size)
    (h : r.set x i = .ok r') : r'.items.length ≤ r'.size ∧ r'.size = r.size := by
  by_cases hin : r.lastIndex < 0 ∨ i = r.lastIndex + 1
  · obtain ⟨_, hsz, hit⟩ := set_append_eq r r' x i h hin
    rw [hsz, hit]
    refine ⟨?_, rfl⟩
    split
    · simp only [List.length_append, List.length_drop, List.length_singleton]; omega
    · simp only [List.length_append, List.length_singleton]; omega
  · unfold set at h
    split at h
    · cases h
    · split at h
      · cases h
      · injection h with h; subst h; simp [hl]

end RI
end Babble.Containers

namespace Babble.Containers
section alist
variable {κ ν : Type} [DecidableEq κ]

theorem alookup_aerase_self (k : κ) (l : List (κ × ν)) : alookup k (aerase k l) = none := by
  induction l with
  | nil => rfl
  | cons p l ih =>
    unfold aerase
    split
    · exact ih
    · rename_i h; unfold alookup; simp [h, ih]

theorem alookup_aerase_ne (k k' : κ) (l : List (κ × ν)) (h : k' ≠ k) :
    alookup k' (aerase k l) = alookup k' l := by
  induction l with
  | nil => rfl
  | cons p l ih =>
    unfold aerase
    split
    · rename_i hp
      have : ¬ p.1 = k' := fun e => h (e.symm.trans hp)
      rw [ih]; conv => rhs; unfold alookup
      simp [this]
    · unfold alookup; rw [ih]

theorem aerase_length_le (k : κ) (l : List (κ × ν)) : (aerase k l).length ≤ l.length := by
  induction l with
  | nil => simp [aerase]
  | cons p l ih => unfold aerase; split <;> simp <;> omega

theorem aerase_length_lt (k : κ) (l : List (κ × ν)) (h : (alookup k l).isSome) : (aerase k l).length < l.length := by
  induction l with
  | nil => simp [alookup] at h
  | cons p l ih =>
    unfold aerase
    split
    · have := aerase_length_le k l; simp; omega
    · rename_i hp
      unfold alookup at h
      simp only [hp, if_false] at h
      have := ih h
      simp; omega

theorem mem_keys_of_alookup (k : κ) (l : List (κ × ν)) (h : (alookup k l).isSome) : k ∈ l.map (·.1) := by
  induction l with
  | nil => simp [alookup] at h
  | cons p l ih =>
    unfold alookup at h
    split at h
    · rename_i hp; simp [hp]
    · simp [ih h]

theorem alookup_of_mem_keys (k : κ) (l : List (κ × ν)) (h : k ∈ l.map (·.1)) : (alookup k l).isSome := by
  induction l with
  | nil => simp at h
  | cons p l ih =>
    unfold alookup
    split
    · rfl
    · rename_i hp
      simp only [List.map_cons, List.mem_cons] at h
      rcases h with h | h
      · exact absurd h.symm hp
      · exact ih h

theorem keys_aerase_sub (k : κ) (l : List (κ × ν)) : ∀ x, x ∈ (aerase k l).map (·.1) → x ∈ l.map (·.1) := by
  induction l with
  | nil => intro x h; simpa [aerase] using h
  | cons p l ih =>
    intro x h
    unfold aerase at h
    split at h
    · simp [ih x h]
    · simp only [List.map_cons, List.mem_cons] at h ⊢
      rcases h with h | h
      · exact Or.inl h
      · exact Or.inr (ih x h)

theorem nodup_aerase (k : κ) (l : List (κ × ν)) (h : (l.map (·.1)).Nodup) : ((aerase k l).map (·.1)).Nodup := by
  induction l with
  | nil => simp [aerase]
  | cons p l ih =>
    have hn : p.1 ∉ l.map (·.1) ∧ (l.map (·.1)).Nodup := by
      rw [List.map_cons] at h; exact List.nodup_cons.mp h
    unfold aerase
    split
    · exact ih hn.2
    · simp only [List.map_cons]
      exact List.nodup_cons.mpr ⟨fun hm => hn.1 (keys_aerase_sub k l _ hm), ih hn.2⟩

theorem alookup_dropLast (k : κ) (x : ν) (l : List (κ × ν)) (h : alookup k l.dropLast = some x) :
    alookup k l = some x := by
  induction l with
  | nil => simpa using h
  | cons p l ih =>
    cases l with
    | nil => simp [alookup] at h
    | cons q l =>
      simp only [List.dropLast_cons₂] at h
      unfold alookup at h ⊢
      split
      · rename_i hp; simpa [hp] using h
      · rename_i hp; simp only [hp, if_false] at h; exact ih h

end alist

namespace LRU
variable {κ ν : Type} [DecidableEq κ]

/-- no key twice, never more than `size` entries -/
def Inv (c : LRU κ ν) : Prop := (c.items.map (·.1)).Nodup ∧ c.items.length ≤ c.size

theorem inv_new (size : Nat) : Inv (new size : LRU κ ν) := by simp [Inv, new]

/-- `Add` keeps the invariant -/
theorem add_inv (c : LRU κ ν) (k : κ) (v : ν) (h : Inv c) : Inv (c.add k v).1 := by
  unfold add
  split
  · rename_i hk
    unfold Inv at *
    simp only [List.map_cons, List.length_cons]
    refine ⟨List.nodup_cons.mpr ⟨?_, nodup_aerase _ _ h.1⟩, ?_⟩
    · intro hm
      have := alookup_of_mem_keys k _ hm
      rw [alookup_aerase_self] at this; cases this
    · have := aerase_length_lt k c.items hk; omega
  · rename_i hk
    have hnot : k ∉ c.items.map (·.1) := fun hm => hk (alookup_of_mem_keys k _ hm)
    have hnd : (((k, v) :: c.items).map (·.1)).Nodup := by
      simp only [List.map_cons]; exact List.nodup_cons.mpr ⟨hnot, h.1⟩
    split
    · unfold Inv
      simp only []
      constructor
      · rw [List.map_dropLast]; exact hnd.sublist (List.dropLast_sublist _)
      · simp only [List.length_dropLast, List.length_cons]; have := h.2; omega
    · unfold Inv
      simp only [List.length_cons]
      exact ⟨hnd, by omega⟩

/-- the entry just added is readable (capacity ≥ 1) -/
theorem lookup_add_same (c : LRU κ ν) (k : κ) (v : ν) (hs : 1 ≤ c.size) (h : Inv c) : (c.add k v).1.lookup k = some v := by
  unfold add
  split
  · simp [lookup, alookup]
  · split
    · cases hc : c.items with
      | nil => rename_i hl; have := h.2; simp [hc] at hl; omega
      | cons q l => simp [lookup, alookup, List.dropLast_cons₂]
    · simp [lookup, alookup]

/-- any other key that is readable after `Add` had the same value before -/
theorem lookup_add_other (c : LRU κ ν) (k k' : κ) (v x : ν) (hne : k' ≠ k)
    (h : (c.add k v).1.lookup k' = some x) : c.lookup k' = some x := by
  have hkk : ¬ k = k' := fun e => hne e.symm
  unfold add at h
  split at h
  · simp only [lookup] at h ⊢
    unfold alookup at h
    simp only [hkk, if_false] at h
    rw [alookup_aerase_ne _ _ _ hne] at h
    exact h
  · split at h
    · simp only [lookup] at h ⊢
      have := alookup_dropLast _ _ _ h
      unfold alookup at this
      simpa [hkk] using this
    · simp only [lookup] at h ⊢
      unfold alookup at h
      simpa [hkk] using h

/-- `Get` returns what `lookup` sees and does not change any binding -/
theorem get_spec (c : LRU κ ν) (k : κ) : (c.get k).2 = c.lookup k ∧ ∀ k', (c.get k).1.lookup k' = c.lookup k' := by
  unfold get
  cases hl : c.lookup k with
  | none => exact ⟨rfl, fun _ => rfl⟩
  | some v =>
    refine ⟨rfl, ?_⟩
    intro k'
    simp only [lookup] at hl ⊢
    by_cases hk : k = k'
    · subst hk; simp [alookup, hl]
    · have : alookup k' ((k, v) :: aerase k c.items) = alookup k' (aerase k c.items) := by
        conv => lhs; unfold alookup
        simp [hk]
      rw [this]
      exact alookup_aerase_ne _ _ _ (fun e => hk e.symm)

theorem get_inv (c : LRU κ ν) (k : κ) (h : Inv c) : Inv (c.get k).1 := by
  unfold get
  cases hl : c.lookup k with
  | none => exact h
  | some v =>
    unfold Inv at *
    simp only [List.map_cons, List.length_cons]
    refine ⟨List.nodup_cons.mpr ⟨?_, nodup_aerase _ _ h.1⟩, ?_⟩
    · intro hm
      have := alookup_of_mem_keys k _ hm
      rw [alookup_aerase_self] at this; cases this
    · have := aerase_length_lt k c.items (by simp only [lookup] at hl; rw [hl]; rfl); omega

theorem remove_spec (c : LRU κ ν) (k : κ) :
    (c.remove k).1.lookup k = none ∧ ∀ k', k' ≠ k → (c.remove k).1.lookup k' = c.lookup k' := by
  unfold remove
  split
  · exact ⟨alookup_aerase_self _ _, fun k' h => alookup_aerase_ne _ _ _ h⟩
  · rename_i hn
    refine ⟨?_, fun _ _ => rfl⟩
    cases hl : c.lookup k with
    | none => rfl
    | some _ => simp [hl] at hn

end LRU

/-! ### refinement: an LRU is a partial view of a plain map -/
inductive LOp (κ ν : Type) | add (k : κ) (v : ν) | get (k : κ) | remove (k : κ)

variable {κ ν : Type} [DecidableEq κ]

def lruStep (c : LRU κ ν) : LOp κ ν → LRU κ ν
  | .add k v => (c.add k v).1
  | .get k => (c.get k).1
  | .remove k => (c.remove k).1

/-- the trivially correct reference: a total map from keys to the latest value -/
def mapStep (m : κ → Option ν) : LOp κ ν → (κ → Option ν)
  | .add k v => fun k' => if k' = k then some v else m k'
  | .get _ => m
  | .remove k => fun k' => if k' = k then none else m k'

def Sim (c : LRU κ ν) (m : κ → Option ν) : Prop := ∀ k v, c.lookup k = some v → m k = some v

theorem lookup_add_self_val (c : LRU κ ν) (k : κ) (v x : ν) (h : (c.add k v).1.lookup k = some x) : x = v := by
  unfold LRU.add at h
  split at h
  · simp [LRU.lookup, alookup] at h; exact h.symm
  · split at h
    · have := alookup_dropLast _ _ _ h
      simp [alookup] at this; exact this.symm
    · simp [LRU.lookup, alookup] at h; exact h.symm

theorem sim_step (c : LRU κ ν) (m : κ → Option ν) (op : LOp κ ν) (h : Sim c m) :
    Sim (lruStep c op) (mapStep m op) := by
  intro k' x hx
  cases op with
  | add k v =>
    simp only [lruStep, mapStep] at *
    by_cases hk : k' = k
    · subst hk
      simp only [if_true]
      rw [lookup_add_self_val c k' v x hx]
    · simp only [hk, if_false]
      exact h k' x (LRU.lookup_add_other c k k' v x hk hx)
  | get k =>
    simp only [lruStep, mapStep] at *
    rw [(LRU.get_spec c k).2 k'] at hx
    exact h k' x hx
  | remove k =>
    simp only [lruStep, mapStep] at *
    by_cases hk : k' = k
    · subst hk
      rw [(LRU.remove_spec c k').1] at hx; cases hx
    · simp only [hk, if_false]
      rw [(LRU.remove_spec c k).2 k' hk] at hx
      exact h k' x hx

theorem sim_foldl (ops : List (LOp κ ν)) (c : LRU κ ν) (m : κ → Option ν) (h : Sim c m) :
    Sim (ops.foldl lruStep c) (ops.foldl mapStep m) := by
  induction ops generalizing c m with
  | nil => exact h
  | cons op ops ih => exact ih (lruStep c op) (mapStep m op) (sim_step c m op h)

/-- every value an LRU returns, after any sequence of operations, is the latest value the reference
    map holds for that key -/
theorem lru_refines_map (ops : List (LOp κ ν)) (size : Nat) (k : κ) (v : ν)
    (h : (ops.foldl lruStep (LRU.new size)).lookup k = some v) :
    (ops.foldl mapStep (fun _ => none)) k = some v :=
  sim_foldl ops (LRU.new size) (fun _ => none) (by intro k v h; simp [LRU.lookup, LRU.new, alookup] at h) k v h

theorem lru_inv_all (ops : List (LOp κ ν)) (size : Nat) : LRU.Inv (ops.foldl lruStep (LRU.new size)) := by
  have : ∀ (c : LRU κ ν), LRU.Inv c → LRU.Inv (ops.foldl lruStep c) := by
    induction ops with
    | nil => intro c h; exact h
    | cons op ops ih =>
      intro c h
      apply ih
      cases op with
      | add k v => exact LRU.add_inv c k v h
      | get k => exact LRU.get_inv c k h
      | remove k =>
        simp only [lruStep, LRU.remove]
        split
        · unfold LRU.Inv at *
          exact ⟨nodup_aerase _ _ h.1, by have := aerase_length_le k c.items; simp only []; omega⟩
        · exact h
  exact this _ (LRU.inv_new size)

end Babble.Containers
