import Babble.Generated
import Mathlib.Data.Finset.Card
import Mathlib.Data.Fintype.Card
import Mathlib.Tactic

/-!
Abstract vote core of Babble's DecideFame for one candidate `x`, static validator set.

`W` : type of witnesses (of all rounds after the candidate's); `lvl w` = round(w) - round(x) - 1
(`0` = first voting round). `creator` injective inside a level. `S y` = witnesses of the previous
level strongly seen by `y`, with at least `sm` elements.

`voteAtG` / `decidesAtG` are the tally rule of `DecideFame` written with the comparison operators,
the supermajority formula and the coin-round period of `Babble.Gen` (regenerated from the Go
sources): ties vote `true` (`cmpFameTie`), a vote decides in a normal round when the tally reaches
the supermajority (`cmpFameNormal`), in a coin round the tally is kept only when it reaches the
supermajority (`cmpFameCoin`), otherwise the coin (middle bit of the voter's hash) is used; level
`d` is voting round `diff = d + 1`, coin rounds are those with `diff % coinRoundFreq = 0`
(`cmpCoinTest`).  `voteAt` / `decidesAt` are the same rule in plain arithmetic; `voteAtG_eq` and
`decidesAtG_eq` connect the two, so a changed operator or formula in the Go source breaks them. -/
namespace Babble.Vote
open Babble

open Finset

variable {W : Type} [DecidableEq W]

structure VoteSys (W : Type) [DecidableEq W] where
  n : Nat
  lvl : W → Nat
  creator : W → Fin n
  creator_inj : ∀ a b, lvl a = lvl b → creator a = creator b → a = b
  S : W → Finset W
  S_lvl : ∀ y w, w ∈ S y → lvl w + 1 = lvl y
  S_cardG : ∀ y, 0 < lvl y → Gen.superMajority n ≤ (S y).card
  sees : W → Bool          -- first-round vote
  coin : W → Bool

/-- is level d (voting round diff = d+1) a normal (non-coin) round -/
def normalLvl (d : Nat) : Bool := Gen.cmpCoinTest.evalN ((d + 1) % Gen.coinRoundFreq) 0
theorem normal_one : normalLvl 1 = true := by decide

namespace VoteSys
variable (V : VoteSys W)

def sm : Nat := 2 * V.n / 3 + 1
theorem gen_sm : Gen.superMajority V.n = V.sm := by unfold sm Gen.superMajority; omega
theorem S_card (y : W) (h : 0 < V.lvl y) : 2 * V.n / 3 + 1 ≤ (V.S y).card := by
  have := V.S_cardG y h; rw [V.gen_sm] at this; exact this

/-- yays among S y under a vote assignment -/
def yays (vote : W → Bool) (y : W) : Nat := ((V.S y).filter (fun w => vote w = true)).card
def nays (vote : W → Bool) (y : W) : Nat := ((V.S y).filter (fun w => vote w = false)).card

/-- vote of level-(d) witnesses, defined by recursion on d; for witnesses not of level d the value is irrelevant -/
def voteAt : Nat → W → Bool
  | 0 => V.sees
  | d+1 => fun y =>
      let ya := V.yays (voteAt d) y
      let na := V.nays (voteAt d) y
      let v := decide (ya ≥ na)
      let t := if ya ≥ na then ya else na
      if normalLvl (d+1) then v else (if t ≥ V.sm then v else V.coin y)

def decidesAt (d : Nat) (y : W) : Option Bool :=
  let ya := V.yays (V.voteAt d) y
  let na := V.nays (V.voteAt d) y
  let v := decide (ya ≥ na)
  let t := if ya ≥ na then ya else na
  if normalLvl (d+1) ∧ t ≥ V.sm then some v else none

lemma yays_add_nays (vote : W → Bool) (y : W) : V.yays vote y + V.nays vote y = (V.S y).card := by
  unfold yays nays
  have := Finset.card_filter_add_card_filter_not (s := V.S y) (fun w => vote w = true)
  simp only [Bool.not_eq_true] at this
  exact this

/-- the level-d witnesses number at most n -/
lemma level_card_le (d : Nat) (T : Finset W) (hT : ∀ w ∈ T, V.lvl w = d) : T.card ≤ V.n := by
  have hinj : Set.InjOn V.creator (T : Set W) := by
    intro a ha b hb hab
    exact V.creator_inj a b (by rw [hT a ha, hT b hb]) hab
  have := Finset.card_le_card_of_injOn V.creator (s := T) (t := Finset.univ) (by intro a _; simp) hinj
  simpa using this

/-- Core counting fact: if at least `sm` level-d witnesses vote `b`, then every level-(d+1) witness
    has strictly more `b` votes than `¬b` votes in its strongly-seen set, and at least ... -/
lemma majority_of_quorum (vote : W → Bool) (d : Nat) (b : Bool)
    (Q : Finset W) (hQl : ∀ w ∈ Q, V.lvl w = d) (hQv : ∀ w ∈ Q, vote w = b) (hQc : V.sm ≤ Q.card)
    (y : W) (hy : V.lvl y = d + 1) :
    ((V.S y).filter (fun w => vote w = !b)).card < ((V.S y).filter (fun w => vote w = b)).card := by
  -- opponents in S y are outside Q; S y ∪ Q ⊆ level d so card ≤ n
  set A := (V.S y).filter (fun w => vote w = b) with hA
  set B := (V.S y).filter (fun w => vote w = !b) with hB
  have hSl : ∀ w ∈ V.S y, V.lvl w = d := by
    intro w hw; have := V.S_lvl y w hw; omega
  have hBQ : Disjoint B Q := by
    rw [Finset.disjoint_left]; intro w hwB hwQ
    have h1 := (Finset.mem_filter.mp hwB).2
    have h2 := hQv w hwQ
    rw [h2] at h1; cases b <;> simp at h1
  have hunion : (B ∪ Q).card ≤ V.n := by
    apply V.level_card_le d
    intro w hw
    rcases Finset.mem_union.mp hw with h | h
    · exact hSl w (Finset.mem_filter.mp h).1
    · exact hQl w h
  rw [Finset.card_union_of_disjoint hBQ] at hunion
  have hAB : A.card + B.card = (V.S y).card := by
    have := Finset.card_filter_add_card_filter_not (s := V.S y) (fun w => vote w = b)
    have hneg : (V.S y).filter (fun w => ¬ vote w = b) = B := by
      rw [hB]; apply Finset.filter_congr; intro w _; cases b <;> cases vote w <;> simp
    rw [hneg] at this; exact this
  have hS := V.S_card y (by omega)
  unfold sm at hQc
  omega


def allVote (d : Nat) (b : Bool) : Prop := ∀ y, V.lvl y = d → V.voteAt d y = b

lemma S_sub_level (y : W) (d : Nat) (hy : V.lvl y = d + 1) : ∀ w ∈ V.S y, V.lvl w = d := by
  intro w hw; have := V.S_lvl y w hw; omega

lemma sm_pos : 0 < V.sm := by unfold sm; omega

/-- if everybody at level d votes b, everybody at level d+1 votes b (normal or coin round) -/
lemma unanimity_step (d : Nat) (b : Bool) (h : V.allVote d b) : V.allVote (d+1) b := by
  intro y hy
  have hS := V.S_sub_level y d hy
  have hall : ∀ w ∈ V.S y, V.voteAt d w = b := fun w hw => h w (hS w hw)
  have hcard := V.S_card y (by omega)
  have hsum := V.yays_add_nays (V.voteAt d) y
  cases b with
  | true =>
    have hn : V.nays (V.voteAt d) y = 0 := by
      unfold nays; rw [Finset.card_eq_zero, Finset.filter_eq_empty_iff]
      intro w hw; simp [hall w hw]
    have hy' : V.yays (V.voteAt d) y = (V.S y).card := by omega
    simp only [voteAt, hn, hy']
    have : V.sm ≤ (V.S y).card := hcard
    simp [this]
  | false =>
    have hy0 : V.yays (V.voteAt d) y = 0 := by
      unfold yays; rw [Finset.card_eq_zero, Finset.filter_eq_empty_iff]
      intro w hw; simp [hall w hw]
    have hn : V.nays (V.voteAt d) y = (V.S y).card := by omega
    have hpos : 0 < (V.S y).card := lt_of_lt_of_le V.sm_pos hcard
    have : V.sm ≤ (V.S y).card := hcard
    simp only [voteAt, hn, hy0]
    have h1 : ¬ (0 ≥ (V.S y).card) := by omega
    simp [h1, this]

lemma unanimity_from (d k : Nat) (b : Bool) (h : V.allVote d b) : V.allVote (d + k) b := by
  induction k with
  | zero => simpa using h
  | succ k ih => exact V.unanimity_step (d + k) b ih

/-- a quorum voting b at level d forces everybody at a NORMAL level d+1 to vote b -/
lemma quorum_normal_step (d : Nat) (b : Bool) (hn : normalLvl (d+1) = true)
    (Q : Finset W) (hQl : ∀ w ∈ Q, V.lvl w = d) (hQv : ∀ w ∈ Q, V.voteAt d w = b) (hQc : V.sm ≤ Q.card) :
    V.allVote (d+1) b := by
  intro y hy
  have hlt := V.majority_of_quorum (V.voteAt d) d b Q hQl hQv hQc y hy
  cases b with
  | true =>
    have : V.nays (V.voteAt d) y < V.yays (V.voteAt d) y := by
      unfold yays nays; simpa using hlt
    simp only [voteAt, hn]
    simp; omega
  | false =>
    have : V.yays (V.voteAt d) y < V.nays (V.voteAt d) y := by
      unfold yays nays; simpa using hlt
    simp only [voteAt, hn]
    simp; omega

lemma decidesAt_some (d : Nat) (y : W) (b : Bool) (hd : V.decidesAt d y = some b) :
    normalLvl (d+1) = true ∧
    ((b = true ∧ V.yays (V.voteAt d) y ≥ V.nays (V.voteAt d) y ∧ V.sm ≤ V.yays (V.voteAt d) y) ∨
     (b = false ∧ V.yays (V.voteAt d) y < V.nays (V.voteAt d) y ∧ V.sm ≤ V.nays (V.voteAt d) y)) := by
  unfold decidesAt at hd
  by_cases hge : V.yays (V.voteAt d) y ≥ V.nays (V.voteAt d) y
  · simp only [hge, if_true, decide_true] at hd
    by_cases hc : normalLvl (d+1) = true ∧ V.yays (V.voteAt d) y ≥ V.sm
    · rw [if_pos hc] at hd
      exact ⟨hc.1, Or.inl ⟨by simpa using hd.symm, hge, hc.2⟩⟩
    · rw [if_neg hc] at hd; simp at hd
  · simp only [hge, if_false, decide_false] at hd
    by_cases hc : normalLvl (d+1) = true ∧ V.nays (V.voteAt d) y ≥ V.sm
    · rw [if_pos hc] at hd
      exact ⟨hc.1, Or.inr ⟨by simpa using hd.symm, by omega, hc.2⟩⟩
    · rw [if_neg hc] at hd; simp at hd

/-- a decision at (d, y), y of level d+1, makes level d+1 unanimous -/
lemma decision_unanimous (d : Nat) (y : W) (hy : V.lvl y = d + 1) (b : Bool)
    (hd : V.decidesAt d y = some b) : V.allVote (d+1) b := by
  obtain ⟨hn, h⟩ := V.decidesAt_some d y b hd
  have hS := V.S_sub_level y d hy
  rcases h with ⟨rfl, _, ht⟩ | ⟨rfl, _, ht⟩
  · exact V.quorum_normal_step d true hn ((V.S y).filter (fun w => V.voteAt d w = true))
      (fun w hw => hS w (Finset.mem_filter.mp hw).1) (fun w hw => (Finset.mem_filter.mp hw).2) ht
  · exact V.quorum_normal_step d false hn ((V.S y).filter (fun w => V.voteAt d w = false))
      (fun w hw => hS w (Finset.mem_filter.mp hw).1) (fun w hw => (Finset.mem_filter.mp hw).2) ht

/-- the value decided at a unanimous level is the unanimous value -/
lemma decision_value_of_unanimous (d : Nat) (y : W) (hy : V.lvl y = d + 1) (b b' : Bool)
    (hu : V.allVote d b) (hd : V.decidesAt d y = some b') : b' = b := by
  have hS := V.S_sub_level y d hy
  have hall : ∀ w ∈ V.S y, V.voteAt d w = b := fun w hw => hu w (hS w hw)
  have hcard := V.S_card y (by omega)
  have hsum := V.yays_add_nays (V.voteAt d) y
  have hpos : 0 < (V.S y).card := lt_of_lt_of_le V.sm_pos hcard
  obtain ⟨_, h⟩ := V.decidesAt_some d y b' hd
  cases b with
  | true =>
    have hn : V.nays (V.voteAt d) y = 0 := by
      unfold nays; rw [Finset.card_eq_zero, Finset.filter_eq_empty_iff]
      intro w hw; simp [hall w hw]
    rcases h with ⟨rfl, _, _⟩ | ⟨rfl, hlt, _⟩
    · rfl
    · omega
  | false =>
    have hy0 : V.yays (V.voteAt d) y = 0 := by
      unfold yays; rw [Finset.card_eq_zero, Finset.filter_eq_empty_iff]
      intro w hw; simp [hall w hw]
    rcases h with ⟨rfl, hge, _⟩ | ⟨rfl, _, _⟩
    · omega
    · rfl

/-- THEOREM A+B: any two decisions for the same candidate agree, whatever the levels and deciders -/
theorem decisions_agree (d d' : Nat) (y y' : W) (hy : V.lvl y = d + 1) (hy' : V.lvl y' = d' + 1)
    (b b' : Bool) (h : V.decidesAt d y = some b) (h' : V.decidesAt d' y' = some b') : b = b' := by
  wlog hle : d ≤ d' generalizing d d' y y' b b'
  · exact (this d' d y' y hy' hy b' b h' h (by omega)).symm
  have hu := V.decision_unanimous d y hy b h
  rcases Nat.eq_or_lt_of_le hle with heq | hlt
  · subst heq
    -- same level: y' votes b (unanimity) and, deciding b' in a normal round, votes b'
    have hu' := V.decision_unanimous d y' hy' b' h'
    have h1 := hu y hy
    have h2 := hu' y hy
    rw [h1] at h2; exact h2
  · -- later level: level d' ≥ d+1 is unanimous b
    obtain ⟨k, hk⟩ : ∃ k, d' = (d + 1) + k := ⟨d' - (d+1), by omega⟩
    have hu'' := V.unanimity_from (d+1) k b hu
    rw [← hk] at hu''
    exact (V.decision_value_of_unanimous d' y' hy' b b' hu'' h').symm

/-- THEOREM C (latch lemma): a quorum of first-level witnesses voting `false` (not seeing a late
    witness) forces every later vote to `false`, hence no decision `true`, provided level 1 is normal. -/
theorem late_witness_never_famous
    (T : Finset W) (hTl : ∀ w ∈ T, V.lvl w = 0) (hTv : ∀ w ∈ T, V.sees w = false) (hTc : V.sm ≤ T.card)
    (d : Nat) (y : W) (hy : V.lvl y = d + 1) (b : Bool) (hd : V.decidesAt d y = some b) : b = false := by
  have h1 : V.allVote 1 false := V.quorum_normal_step 0 false normal_one T hTl (by intro w hw; simpa [voteAt] using hTv w hw) hTc
  rcases Nat.eq_zero_or_pos d with h0 | hpos
  · subst h0
    have hu := V.decision_unanimous 0 y hy b hd
    have := h1 y hy
    rw [hu y hy] at this; exact this
  · obtain ⟨k, hk⟩ : ∃ k, d = 1 + k := ⟨d - 1, by omega⟩
    have hu := V.unanimity_from 1 k false h1
    rw [← hk] at hu
    exact V.decision_value_of_unanimous d y hy false b hu hd


/-! ### the same rule with the generated comparison operators -/

def voteAtG : Nat → W → Bool
  | 0 => V.sees
  | d+1 => fun y =>
      let ya := V.yays (voteAtG d) y
      let na := V.nays (voteAtG d) y
      let v := Gen.cmpFameTie.evalN ya na
      let t := if v then ya else na
      if normalLvl (d+1) then v else (if Gen.cmpFameCoin.evalN t (Gen.superMajority V.n) then v else V.coin y)

def decidesAtG (d : Nat) (y : W) : Option Bool :=
  let ya := V.yays (V.voteAtG d) y
  let na := V.nays (V.voteAtG d) y
  let v := Gen.cmpFameTie.evalN ya na
  let t := if v then ya else na
  if normalLvl (d+1) ∧ Gen.cmpFameNormal.evalN t (Gen.superMajority V.n) then some v else none

theorem voteAtG_eq (d : Nat) : V.voteAtG d = V.voteAt d := by
  induction d with
  | zero => rfl
  | succ d ih =>
    funext y
    simp only [voteAtG, voteAt, ih, V.gen_sm, Gen.cmpFameTie, Gen.cmpFameCoin, Cmp.evalN]
    by_cases h : V.yays (V.voteAt d) y ≥ V.nays (V.voteAt d) y <;> simp [h]

theorem decidesAtG_eq (d : Nat) (y : W) : V.decidesAtG d y = V.decidesAt d y := by
  simp only [decidesAtG, decidesAt, V.voteAtG_eq, V.gen_sm, Gen.cmpFameTie, Gen.cmpFameNormal, Cmp.evalN]
  by_cases h : V.yays (V.voteAt d) y ≥ V.nays (V.voteAt d) y <;> simp [h]

end VoteSys
end Babble.Vote
