import Babble.Model.ByteCodec
/-! Round-trips and re-spelling facts of the hexadecimal and base-36 encodings (`Babble.ByteCodec`),
    and the link to the success/failure model of C08 (`Babble.Decode`).  Core Lean only. -/
namespace Babble.ByteCodec
open Babble.Decode (Bytes splitOn)

/-! ## hexadecimal -/

theorem hexVal_hexDigitU (d : Nat) (h : d < 16) : hexVal (hexDigitU d) = some d := by
  have : ∀ d : Fin 16, hexVal (hexDigitU d.1) = some d.1 := by decide
  exact this ⟨d, h⟩

theorem hexDecode_hexBody (bs : List Nat) (h : ∀ b ∈ bs, b < 256) : hexDecode (hexBody bs) = some bs := by
  induction bs with
  | nil => rfl
  | cons b r ih =>
    have hb : b < 256 := h b (by simp)
    have ih' := ih (fun x hx => h x (by simp [hx]))
    simp only [hexBody, hexDecode, hexVal_hexDigitU (b / 16) (by omega), hexVal_hexDigitU (b % 16) (by omega), ih']
    congr 2
    omega

/-- **round-trip**: decoding the canonical spelling of a byte string gives the bytes back -/
theorem decode_encode (bs : List Nat) (h : ∀ b ∈ bs, b < 256) : decodeFromString (encodeToString bs) = some bs := by
  simp [decodeFromString, encodeToString, hexDecode_hexBody bs h]

/-- the canonical spelling is injective: two byte strings with the same spelling are equal -/
theorem encode_injective (a b : List Nat) (ha : ∀ x ∈ a, x < 256) (hb : ∀ x ∈ b, x < 256)
    (h : encodeToString a = encodeToString b) : a = b := by
  have h1 := decode_encode a ha
  rw [h, decode_encode b hb] at h1
  exact (Option.some.inj h1).symm

/-- the decoder never looks at the first two bytes -/
theorem prefix_ignored (a b a' b' : Nat) (r : Bytes) :
    decodeFromString (a :: b :: r) = decodeFromString (a' :: b' :: r) := by
  simp [decodeFromString]

theorem hexVal_lower (c : Nat) : hexVal (lowerByte c) = hexVal c := by
  by_cases hc : c < 128
  · have : ∀ c : Fin 128, hexVal (lowerByte c.1) = hexVal c.1 := by decide
    exact this ⟨c, hc⟩
  · have : lowerByte c = c := by unfold lowerByte; split <;> omega
    rw [this]

theorem hexVal_upper (c : Nat) : hexVal (upperByte c) = hexVal c := by
  by_cases hc : c < 128
  · have : ∀ c : Fin 128, hexVal (upperByte c.1) = hexVal c.1 := by decide
    exact this ⟨c, hc⟩
  · have : upperByte c = c := by unfold upperByte; split <;> omega
    rw [this]

theorem hexDecode_cons2_none (a b : Nat) (r : Bytes)
    (hn : ∀ x y t, hexVal a = some x → hexVal b = some y → hexDecode r = some t → False) :
    hexDecode (a :: b :: r) = none := by
  simp only [hexDecode]

theorem hexDecode_map (f : Nat → Nat) (hf : ∀ c, hexVal (f c) = hexVal c) (s : Bytes) :
    hexDecode (s.map f) = hexDecode s := by
  fun_induction hexDecode s with
  | case1 => rfl
  | case2 => rfl
  | case3 a b r x y t hr hb ha ih => simp [hexDecode, hf, ha, hb, ih, hr]
  | case4 a b r hn ih =>
    simp only [List.map_cons]
    apply hexDecode_cons2_none
    intro x y t hx hy ht
    rw [hf] at hx hy
    rw [ih] at ht
    exact hn x y t hx hy ht

/-- **one value, many spellings**: the case of the hexadecimal digits does not matter … -/
theorem decode_lower (s : Bytes) : decodeFromString (s.map lowerByte) = decodeFromString s := by
  simp only [decodeFromString, List.length_map, ← List.map_drop]
  rw [hexDecode_map lowerByte hexVal_lower]

theorem decode_upper (s : Bytes) : decodeFromString (s.map upperByte) = decodeFromString s := by
  simp only [decodeFromString, List.length_map, ← List.map_drop]
  rw [hexDecode_map upperByte hexVal_upper]

/-! ### link to the success / length model of C08 -/

theorem isHexByte_iff (c : Nat) : Babble.Decode.isHexByte c = (hexVal c).isSome := by
  by_cases hc : c < 128
  · have : ∀ c : Fin 128, Babble.Decode.isHexByte c.1 = (hexVal c.1).isSome := by decide
    exact this ⟨c, hc⟩
  · have h1 : hexVal c = none := by
      unfold hexVal
      rw [if_neg (by omega), if_neg (by omega), if_neg (by omega)]
    have h2 : Babble.Decode.isHexByte c = false := by
      unfold Babble.Decode.isHexByte
      simp
      omega
    rw [h1, h2]; rfl

theorem hexDecode_isSome (s : Bytes) :
    (hexDecode s).isSome = (decide (s.length % 2 = 0) && s.all (fun c => (hexVal c).isSome)) := by
  fun_induction hexDecode s with
  | case1 => simp
  | case2 a => simp
  | case3 a b r x y t hr hb ha ih =>
    simp only [hr, Option.isSome_some] at ih
    simp only [Option.isSome_some, List.length_cons, List.all_cons, ha, hb, Bool.true_and]
    rw [ih]
    congr 1
    have : ((r.length + 1 + 1) % 2 = 0) ↔ (r.length % 2 = 0) := by omega
    simp only [this]
  | case4 a b r hn ih =>
    simp only [Option.isSome_none, List.length_cons, List.all_cons]
    have : ((r.length + 1 + 1) % 2 = 0) ↔ (r.length % 2 = 0) := by omega
    simp only [this]
    cases ha : hexVal a with
    | none => simp
    | some x =>
      cases hb : hexVal b with
      | none => simp
      | some y =>
        cases hr : hexDecode r with
        | some t => exact (hn x y t ha hb hr).elim
        | none =>
          simp only [hr, Option.isSome_none] at ih
          simp only [Option.isSome_some, Bool.true_and]
          rw [Bool.and_comm] at ih ⊢
          exact ih

theorem hexDecode_length (s : Bytes) : ∀ bs, hexDecode s = some bs → bs.length = s.length / 2 := by
  fun_induction hexDecode s with
  | case1 => intro bs h; cases h; rfl
  | case2 a => intro bs h; cases h
  | case3 a b r x y t hr hb ha ih =>
    intro bs h
    cases h
    have := ih t hr
    simp only [List.length_cons, this]
    omega
  | case4 a b r hn ih =>
    intro bs h
    cases h

theorem hexDecode_class (s : Bytes) :
    Babble.Decode.hexDecode s = match hexDecode s with
      | some bs => .ok bs.length
      | none => .err := by
  have h1 := hexDecode_isSome s
  have hall : s.all Babble.Decode.isHexByte = s.all (fun c => (hexVal c).isSome) := by
    congr 1; funext c; exact isHexByte_iff c
  unfold Babble.Decode.hexDecode
  rw [hall]
  cases h : hexDecode s with
  | none =>
    simp only [h, Option.isSome_none] at h1
    have h1' := h1.symm
    simp only [Bool.and_eq_false_iff, decide_eq_false_iff_not] at h1'
    rcases h1' with h2 | h2
    · simp [h2]
    · simp [h2]
  | some bs =>
    simp only [h, Option.isSome_some] at h1
    have h1' := h1.symm
    simp only [Bool.and_eq_true, decide_eq_true_eq] at h1'
    have hl := hexDecode_length s bs h
    simp [h1'.1, h1'.2, hl]

/-- the C08 model (`ok n` / `err`) is the shadow of this one: same successes, `n` = number of bytes -/
theorem decode_class (s : Bytes) :
    Babble.Decode.decodeFromString s = match decodeFromString s with
      | some bs => .ok bs.length
      | none => .err := by
  unfold Babble.Decode.decodeFromString decodeFromString Babble.Decode.sliceFrom2
  by_cases h : s.length < 2
  · simp [h]
  · simp only [h, if_false]
    exact hexDecode_class (s.drop 2)

/-! ## base 36 -/

theorem val36_digit36 (d : Nat) (h : d < 36) : val36 (digit36 d) = some d := by
  have : ∀ d : Fin 36, val36 (digit36 d.1) = some d.1 := by decide
  exact this ⟨d, h⟩

theorem digit36_range (d : Nat) (h : d < 36) : 48 ≤ digit36 d ∧ digit36 d ≤ 122 := by
  unfold digit36; split <;> omega

theorem digitsLE_lt (n : Nat) : ∀ d ∈ digitsLE n, d < 36 := by
  fun_induction digitsLE n with
  | case1 n h => intro d hd; simp at hd; omega
  | case2 n h ih =>
    intro d hd
    simp only [List.mem_cons] at hd
    rcases hd with hd | hd
    · omega
    · exact ih d hd

theorem digitsLE_ne_nil (n : Nat) : digitsLE n ≠ [] := by
  unfold digitsLE; split <;> simp

theorem digitsLE_value (n : Nat) : (digitsLE n).foldr (fun d acc => acc * 36 + d) 0 = n := by
  fun_induction digitsLE n with
  | case1 n h => simp
  | case2 n h ih => simp only [List.foldr_cons, ih]; omega

theorem parseAux_digits (ds : List Nat) (h : ∀ d ∈ ds, d < 36) (a : Nat) (rest : Bytes) :
    parseAux a (ds.map digit36 ++ rest) = parseAux (ds.foldl (fun acc d => acc * 36 + d) a) rest := by
  induction ds generalizing a with
  | nil => rfl
  | cons d r ih =>
    simp only [List.map_cons, List.cons_append, parseAux, val36_digit36 d (h d (by simp)), List.foldl_cons]
    exact ih (fun x hx => h x (by simp [hx])) _

theorem parse_text36 (n : Nat) : parseAux 0 (text36 n) = some n := by
  have h := parseAux_digits (digitsLE n).reverse (by intro d hd; exact digitsLE_lt n d (by simpa using hd)) 0 []
  simp only [List.append_nil] at h
  unfold text36
  rw [h, List.foldl_reverse]
  simp only [parseAux]
  congr 1
  exact digitsLE_value n

theorem text36_range (n : Nat) : ∀ c ∈ text36 n, 48 ≤ c ∧ c ≤ 122 := by
  intro c hc
  unfold text36 at hc
  simp only [List.mem_map, List.mem_reverse] at hc
  obtain ⟨d, hd, rfl⟩ := hc
  exact digit36_range d (digitsLE_lt n d hd)

theorem text36_ne_nil (n : Nat) : text36 n ≠ [] := by
  unfold text36
  simp [digitsLE_ne_nil]

/-- **round-trip of one integer**: `SetString(n.Text(36), 36) = n` -/
theorem setString36_text36 (n : Nat) : setString36 (text36 n) = some (Int.ofNat n) := by
  have hr := text36_range n
  have hne := text36_ne_nil n
  have hp := parse_text36 n
  generalize text36 n = t at *
  cases t with
  | nil => exact absurd rfl hne
  | cons c r =>
    have hc := hr c (by simp)
    unfold setString36
    split
    · rename_i r' heq; injection heq with h1 _; omega
    · rename_i r' heq; injection heq with h1 _; omega
    · simp [hp]

theorem splitOn_none (sep : Nat) (b : Bytes) (h : sep ∉ b) : splitOn sep b = [b] := by
  induction b with
  | nil => rfl
  | cons c r ih =>
    have hc : c ≠ sep := fun e => h (by simp [e])
    have ih' := ih (fun hm => h (by simp [hm]))
    simp [splitOn, ih', hc]

theorem splitOn_mid (sep : Nat) (a b : Bytes) (ha : sep ∉ a) (hb : sep ∉ b) :
    splitOn sep (a ++ sep :: b) = [a, b] := by
  induction a with
  | nil => simp [splitOn, splitOn_none sep b hb]
  | cons c r ih =>
    have hc : c ≠ sep := fun e => ha (by simp [e])
    have ih' := ih (fun hm => ha (by simp [hm]))
    simp [splitOn, ih', hc]

/-- **round-trip of a signature**: decoding the spelling `EncodeSignature` produces gives (r, s) back -/
theorem decode_encode_signature (r s : Nat) :
    decodeSignature (encodeSignature r s) = some (Int.ofNat r, Int.ofNat s) := by
  have h1 : (124 : Nat) ∉ text36 r := fun h => by have := text36_range r 124 h; omega
  have h2 : (124 : Nat) ∉ text36 s := fun h => by have := text36_range s 124 h; omega
  unfold decodeSignature encodeSignature
  rw [splitOn_mid 124 _ _ h1 h2]
  simp [setString36_text36, pairOpt]

/-- `EncodeSignature` is injective -/
theorem encodeSignature_injective (r s r' s' : Nat) (h : encodeSignature r s = encodeSignature r' s') :
    r = r' ∧ s = s' := by
  have h1 := decode_encode_signature r s
  rw [h, decode_encode_signature] at h1
  simp only [Option.some.injEq, Prod.mk.injEq] at h1
  exact ⟨(Int.ofNat.inj h1.1).symm, (Int.ofNat.inj h1.2).symm⟩

theorem val36_upper (c : Nat) : val36 (upperByte c) = val36 c := by
  by_cases hc : c < 128
  · have : ∀ c : Fin 128, val36 (upperByte c.1) = val36 c.1 := by decide
    exact this ⟨c, hc⟩
  · have : upperByte c = c := by unfold upperByte; split <;> omega
    rw [this]

theorem parseAux_upper (a : Nat) (s : Bytes) : parseAux a (s.map upperByte) = parseAux a s := by
  induction s generalizing a with
  | nil => rfl
  | cons c r ih => simp only [List.map_cons, parseAux, val36_upper]; split <;> simp [ih]

/-- a leading zero does not change the value: a signature has infinitely many spellings -/
theorem parseAux_leading_zero (s : Bytes) : parseAux 0 (48 :: s) = parseAux 0 s := by
  simp [parseAux, val36]

/-- … and so does the case of its letters -/
theorem setString36_upper (n : Nat) : setString36 ((text36 n).map upperByte) = some (Int.ofNat n) := by
  have hr := text36_range n
  have hne := text36_ne_nil n
  have hp := parse_text36 n
  generalize text36 n = t at *
  cases t with
  | nil => exact absurd rfl hne
  | cons c r =>
    have hc := hr c (by simp)
    have hp' : parseAux 0 ((c :: r).map upperByte) = some n := by rw [parseAux_upper]; exact hp
    have hu : 48 ≤ upperByte c := by unfold upperByte; split <;> omega
    unfold setString36
    simp only [List.map_cons] at hp' ⊢
    split
    · rename_i r' heq; injection heq with h1 _; omega
    · rename_i r' heq; injection heq with h1 _; omega
    · simp [hp']

/-! ### link to the success model of C08 -/

theorem isB36Byte_iff (c : Nat) : Babble.Decode.isB36Byte c = (val36 c).isSome := by
  by_cases hc : c < 128
  · have : ∀ c : Fin 128, Babble.Decode.isB36Byte c.1 = (val36 c.1).isSome := by decide
    exact this ⟨c, hc⟩
  · have h1 : val36 c = none := by
      unfold val36
      rw [if_neg (by omega), if_neg (by omega), if_neg (by omega)]
    have h2 : Babble.Decode.isB36Byte c = false := by
      unfold Babble.Decode.isB36Byte
      simp
      omega
    rw [h1, h2]; rfl

theorem parseAux_isSome (a : Nat) (s : Bytes) : (parseAux a s).isSome = s.all Babble.Decode.isB36Byte := by
  induction s generalizing a with
  | nil => rfl
  | cons c r ih =>
    simp only [parseAux, List.all_cons, isB36Byte_iff]
    cases h : val36 c with
    | none => simp
    | some v => simp [ih]

theorem setString36_class (s : Bytes) : Babble.Decode.setString36 s = (setString36 s).isSome := by
  unfold Babble.Decode.setString36 setString36
  split <;> simp only [] <;> split <;> simp_all [parseAux_isSome]

theorem pair_isSome (x y : Option Int) : (pairOpt x y).isSome = (x.isSome && y.isSome) := by
  cases x <;> cases y <;> rfl

/-- the C08 model of `DecodeSignature` (`ok` / `err`) is the shadow of this one -/
theorem decodeSignature_class (s : Bytes) :
    Babble.Decode.decodeSignature s = (if (decodeSignature s).isSome then .ok () else .err) := by
  unfold Babble.Decode.decodeSignature decodeSignature
  generalize splitOn 124 s = l
  match l with
  | [a, b] =>
    simp only [setString36_class, pair_isSome]
  | [] => simp
  | [_] => simp
  | _ :: _ :: _ :: _ => simp

end Babble.ByteCodec
