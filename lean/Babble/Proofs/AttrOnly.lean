import Babble.Proofs.Admission
import Babble.Proofs.HGBlocks
/-! The consensus passes only touch mutable attributes of stored events (`AttrOnly`), hence keep the
    admission invariant.  Core Lean only. -/
namespace Babble.HG

/-- `s'` has the same events as `s` up to attribute-only changes -/
def AttrOnly (s s' : St) : Prop := ∃ g : Ev → Ev, (∀ e, evCore (g e) = evCore e) ∧ s'.events = s.events.map g

theorem AttrOnly.refl (s : St) : AttrOnly s s := ⟨id, fun _ => rfl, by simp⟩
theorem AttrOnly.of_eq {s s' : St} (h : s'.events = s.events) : AttrOnly s s' := ⟨id, fun _ => rfl, by simp [h]⟩
theorem AttrOnly.trans {a b c : St} (h1 : AttrOnly a b) (h2 : AttrOnly b c) : AttrOnly a c := by
  obtain ⟨g1, hg1, e1⟩ := h1; obtain ⟨g2, hg2, e2⟩ := h2
  exact ⟨g2 ∘ g1, fun e => by simp [Function.comp, hg2, hg1], by rw [e2, e1, List.map_map]⟩

theorem AttrOnly.admInv {s s' : St} (h : AttrOnly s s') (hI : AdmInv s.events) : AdmInv s'.events := by
  obtain ⟨g, hg, he⟩ := h; rw [he]; exact AdmInv_map g hg hI

theorem AttrOnly.update (s : St) (id : String) (f : Ev → Ev) (hf : ∀ e, evCore (f e) = evCore e) :
    AttrOnly s (s.update id f) :=
  ⟨fun e => if e.id == id then f e else e, fun e => by
    by_cases h : (e.id == id) = true
    · simp only [h, if_true]; exact hf e
    · simp only [h]; rfl, rfl⟩

theorem AttrOnly.setRound (s : St) (r : Int) (ri : RoundInfo) : AttrOnly s (s.setRound r ri) := AttrOnly.of_eq rfl

theorem foldl_attr {α} (f : St → α → St) (h : ∀ s a, AttrOnly s (f s a)) (l : List α) (s : St) :
    AttrOnly s (l.foldl f s) := by
  induction l generalizing s with
  | nil => exact AttrOnly.refl s
  | cons a l ih => exact (h s a).trans (ih _)

theorem foldl_attr_fst {α β} (f : St × β → α → St × β) (h : ∀ p a, AttrOnly p.1 (f p a).1)
    (l : List α) (p : St × β) : AttrOnly p.1 (l.foldl f p).1 := by
  induction l generalizing p with
  | nil => exact AttrOnly.refl _
  | cons a l ih => exact (h p a).trans (ih _)

theorem fdWalk_attr (s : St) (fuel : Nat) (ah : String) (cr : Nat) (idx : Int) :
    AttrOnly s (s.fdWalk fuel ah cr idx) := by
  induction fuel generalizing s ah with
  | zero => exact AttrOnly.refl s
  | succ fuel ih =>
    unfold St.fdWalk
    split
    · exact AttrOnly.refl s
    · split
      · exact AttrOnly.refl s
      · simp only []
        have hu := AttrOnly.update s ah (fun a => { a with fd := setAt a.fd cr (some idx) }) (fun _ => rfl)
        split
        · exact hu
        · exact hu.trans (ih _ _)

theorem walkOne_attr (cr : Nat) (idx : Int) (s : St) (c : Option Coord) : AttrOnly s (walkOne cr idx s c) := by
  unfold walkOne; split
  · exact fdWalk_attr _ _ _ _ _
  · exact AttrOnly.refl s

theorem queueRound_attr (s : St) (r : Int) (ri : RoundInfo) : AttrOnly s (s.queueRound r ri) := by
  unfold St.queueRound; split
  · exact AttrOnly.of_eq rfl
  · exact AttrOnly.refl s

/-- peel the outermost operation of the target state -/
theorem AttrOnly.to_update {a b : St} (id : String) (f : Ev → Ev)
    (hf : ∀ e, evCore (f e) = evCore e) (h : AttrOnly a b) : AttrOnly a (b.update id f) :=
  h.trans (AttrOnly.update b id f hf)

theorem AttrOnly.to_setRound {a b : St} (r : Int) (ri : RoundInfo) (h : AttrOnly a b) :
    AttrOnly a (b.setRound r ri) := h.trans (AttrOnly.setRound b r ri)

theorem assignRound_attr (s : St) (id : String) (ev : Ev) : AttrOnly s (s.assignRound id ev) := by
  unfold St.assignRound
  simp only []
  apply AttrOnly.to_update
  · intro _; rfl
  apply AttrOnly.to_setRound
  apply AttrOnly.to_update
  · intro _; rfl
  exact queueRound_attr s _ _

theorem assignLamport_attr (s : St) (id : String) : AttrOnly s (s.assignLamport id) := by
  unfold St.assignLamport; split
  · exact AttrOnly.refl s
  · exact AttrOnly.update _ id _ (fun _ => rfl)

theorem divideOne_attr (s : St) (id : String) : AttrOnly s (divideOne s id) := by
  unfold divideOne
  split
  · exact AttrOnly.refl s
  · simp only []
    split <;> split
    · exact (assignRound_attr _ _ _).trans (assignLamport_attr _ _)
    · exact assignLamport_attr _ _
    · exact assignRound_attr _ _ _
    · exact AttrOnly.refl s

theorem divideRounds_attr (s : St) : AttrOnly s s.divideRounds := foldl_attr _ divideOne_attr _ _

theorem decideFameRound_events (p : St × List Int) (pr : Int × Bool) : (decideFameRound p pr).1.events = p.1.events := by
  unfold decideFameRound
  simp only []
  split <;> rfl

theorem decideFame_attr (s : St) : AttrOnly s s.decideFame := by
  unfold St.decideFame
  have := foldl_attr_fst decideFameRound (fun p a => AttrOnly.of_eq (decideFameRound_events p a)) s.pending (s, [])
  revert this
  generalize s.pending.foldl decideFameRound (s, []) = p
  intro h
  exact h.trans (AttrOnly.of_eq rfl)

theorem rrLoop_attr (s : St) (x : String) (fuel : Nat) (i : Int) : AttrOnly s (s.rrLoop x fuel i).1 := by
  induction fuel generalizing s i with
  | zero => exact AttrOnly.refl s
  | succ fuel ih =>
    unfold St.rrLoop
    split
    · exact AttrOnly.refl s
    · split
      · split
        · exact AttrOnly.refl s
        · split
          · exact AttrOnly.refl s
          · exact ih _ _
      · simp only []
        split
        · split
          · exact AttrOnly.setRound _ _ _
          · split
            · exact AttrOnly.setRound _ _ _
            · exact (AttrOnly.setRound _ _ _).trans (ih _ _)
        · split
          · apply AttrOnly.to_setRound
            apply AttrOnly.to_update
            · intro _; rfl
            exact AttrOnly.setRound _ _ _
          · exact (AttrOnly.setRound _ _ _).trans (ih _ _)

theorem receiveOne_attr (p : St × List String) (x : String) : AttrOnly p.1 (receiveOne p x).1 := by
  unfold receiveOne
  simp only []
  exact rrLoop_attr _ _ _ _

theorem decideRoundReceived_attr (s : St) : AttrOnly s s.decideRoundReceived := by
  unfold St.decideRoundReceived
  have := foldl_attr_fst receiveOne receiveOne_attr s.undet (s, [])
  revert this
  generalize s.undet.foldl receiveOne (s, []) = p
  intro h
  exact h.trans (AttrOnly.of_eq rfl)

theorem applyReceipts_events (s : St) (rr : Int) (itxs : List (Bool × Nat)) :
    (s.applyReceipts rr itxs).events = s.events := by
  unfold St.applyReceipts
  split
  · rfl
  · simp only []
    split <;> rfl

theorem processOne_events (s s' : St) (h : s.processOne = some s') : s'.events = s.events := by
  unfold St.processOne at h
  split at h
  · cases h
  · split at h
    · cases h
    · split at h
      · cases h
      · simp only [] at h
        split at h
        · injection h with h; subst h
          simp only [St.popPending, St.addBlock]
          rw [applyReceipts_events]
          rfl
        · injection h with h; subst h; rfl

theorem processLoop_events (fuel : Nat) (s : St) : (s.processLoop fuel).events = s.events := by
  induction fuel generalizing s with
  | zero => rfl
  | succ fuel ih =>
    unfold St.processLoop
    split
    · rfl
    · rename_i s' h
      rw [ih, processOne_events s s' h]

theorem runConsensus_attr (s : St) : AttrOnly s s.runConsensus := by
  unfold St.runConsensus St.processDecidedRounds
  exact ((divideRounds_attr s).trans ((decideFame_attr _).trans (decideRoundReceived_attr _))).trans
    (AttrOnly.of_eq (processLoop_events _ _))

/-- the history after `insertCoords` is the new event (with its coordinates) on top of the old
    history, up to attribute-only changes made by the first-descendant walk -/
theorem insertCoords_attr (s : St) (e : Ev) :
    AttrOnly { s with events := { e with la := s.initLa e, fd := setAt [] e.creator (some e.index) } :: s.events }
      (s.insertCoords e) := by
  unfold St.insertCoords
  simp only []
  exact foldl_attr _ (walkOne_attr e.creator e.index) _ _

theorem insert_AdmInv (s : St) (e : Ev) (hI : AdmInv s.events) (hadm : s.admission e = none)
    (hid : e.id ≠ "") (hfresh : getL s.events e.id = none) : AdmInv (s.insert e).events := by
  have h1 := admitted_AdmInv s e hI hadm hid hfresh
  have h2 := (insertCoords_attr s e).admInv h1
  unfold St.insert
  exact h2

end Babble.HG
