import Babble.Model.Hashgraph
/-! # Coordinates = ancestry (under the admission invariant)

`AdmInv` is the admission invariant of C07, defined by structural recursion on the insertion history
(newest first): every stored event has a fresh non-empty id, its self-parent is its creator's latest
earlier event with index = that index + 1 (or no self-parent and index 0), its other-parent is
present, and its `lastAncestors` are the ones `initEventCoordinates` computes.

Main results: `la_sound`, `la_complete`, `chain` (a creator's events form one chain with
index = height) and `ancestorL_iff_Anc`: the Go `ancestor(x,y)` predicate — index arithmetic on
`lastAncestors` — is exactly reachability in the DAG.  Core Lean only. -/
namespace Babble.HG

def getL (es : List Ev) (id : String) : Option Ev := es.find? (fun e => e.id == id)
def lastFromL (es : List Ev) (c : Nat) : Option Ev := es.find? (fun e => e.creator == c)

/-- index component of a positional coordinate list -/
def laGet (l : List (Option Coord)) (p : Nat) : Option Int := (posGet l p).map (·.idx)

def maxO : Option Int → Option Int → Option Int
  | none, b => b
  | a, none => a
  | some a, some b => some (if a < b then b else a)

def laOf (es : List Ev) (id : String) : List (Option Coord) := ((getL es id).map (·.la)).getD []

theorem laGet_merge (a b : List (Option Coord)) (p : Nat) :
    laGet (mergeLa a b) p = maxO (laGet a p) (laGet b p) := by
  induction a generalizing b p with
  | nil => cases b <;> simp [mergeLa, laGet, posGet, maxO]
  | cons x a ih =>
    cases b with
    | nil =>
      simp only [mergeLa, laGet, posGet]
      cases h : ((x :: a)[p]?).getD none <;> simp [maxO]
    | cons y b =>
      cases p with
      | zero =>
        simp only [mergeLa, laGet, posGet, List.getElem?_cons_zero, Option.getD_some]
        cases x <;> cases y <;> simp [maxC, maxO]
        split <;> rfl
      | succ p => simpa [mergeLa, laGet, posGet] using ih b p

theorem laGet_setAt_same (l : List (Option Coord)) (p : Nat) (c : Coord) : laGet (setAt l p (some c)) p = some c.idx := by
  induction l generalizing p with
  | nil =>
    induction p with
    | zero => simp [setAt, laGet, posGet]
    | succ p ih => simpa [setAt, laGet, posGet] using ih
  | cons x l ih =>
    cases p with
    | zero => simp [setAt, laGet, posGet]
    | succ p => simpa [setAt, laGet, posGet] using ih p

theorem laGet_setAt_other (l : List (Option Coord)) (p q : Nat) (v : Option Coord) (h : q ≠ p) :
    laGet (setAt l p v) q = laGet l q := by
  induction l generalizing p q with
  | nil =>
    induction p generalizing q with
    | zero => cases q <;> simp_all [setAt, laGet, posGet]
    | succ p ih =>
      cases q with
      | zero => simp [setAt, laGet, posGet]
      | succ q =>
        have := ih q (by omega)
        simpa [setAt, laGet, posGet] using this
  | cons x l ih =>
    cases p with
    | zero => cases q <;> simp_all [setAt, laGet, posGet]
    | succ p =>
      cases q with
      | zero => simp [setAt, laGet, posGet]
      | succ q => simpa [setAt, laGet, posGet] using ih p q (by omega)

/-- admission invariant, structurally over the insertion history (newest first) -/
def AdmInv : List Ev → Prop
  | [] => True
  | e :: es => AdmInv es ∧ e.id ≠ "" ∧ getL es e.id = none ∧
      (match lastFromL es e.creator with
       | none => e.sp = "" ∧ e.index = 0
       | some l => e.sp = l.id ∧ e.index = l.index + 1) ∧
      (e.op = "" ∨ (getL es e.op).isSome) ∧
      e.la = setAt (mergeLa (laOf es e.sp) (laOf es e.op)) e.creator (some { idx := e.index, id := e.id })

/-- z is an ancestor-or-self of b -/
inductive Anc (es : List Ev) : String → String → Prop
  | refl {x : String} : (getL es x).isSome → Anc es x x
  | sp {z b : String} {eb : Ev} : getL es b = some eb → eb.sp ≠ "" → Anc es z eb.sp → Anc es z b
  | op {z b : String} {eb : Ev} : getL es b = some eb → eb.op ≠ "" → Anc es z eb.op → Anc es z b

/-- `ancestor(x, y)` of the Go code on a history: y ancestor of x -/
def ancestorL (es : List Ev) (x y : String) : Bool :=
  if x == y then true else
  match getL es x, getL es y with
  | some ex, some ey =>
    match laGet ex.la ey.creator with
    | some i => decide (i ≥ ey.index)
    | none => false
  | _, _ => false


theorem getL_cons (e : Ev) (es : List Ev) (id : String) :
    getL (e :: es) id = if e.id = id then some e else getL es id := by
  unfold getL
  by_cases h : e.id = id
  · simp [List.find?_cons, h]
  · have : (e.id == id) = false := by simpa using h
    simp [List.find?_cons, h, this]

theorem getL_id {es : List Ev} {id : String} {e : Ev} (h : getL es id = some e) : e.id = id := by
  unfold getL at h
  have := List.find?_some h
  simpa using this

theorem getL_mem {es : List Ev} {id : String} {e : Ev} (h : getL es id = some e) : e ∈ es := by
  unfold getL at h; exact List.mem_of_find?_eq_some h

theorem lastFromL_cons (e : Ev) (es : List Ev) (c : Nat) :
    lastFromL (e :: es) c = if e.creator = c then some e else lastFromL es c := by
  unfold lastFromL
  by_cases h : e.creator = c
  · simp [List.find?_cons, h]
  · have : (e.creator == c) = false := by simpa using h
    simp [List.find?_cons, h, this]

theorem lastFromL_creator {es : List Ev} {c : Nat} {l : Ev} (h : lastFromL es c = some l) : l.creator = c := by
  unfold lastFromL at h
  have := List.find?_some h
  simpa using this

theorem lastFromL_mem {es : List Ev} {c : Nat} {l : Ev} (h : lastFromL es c = some l) : l ∈ es := by
  unfold lastFromL at h; exact List.mem_of_find?_eq_some h

/-- every stored event can be fetched by its id (ids are unique under AdmInv) -/
theorem getL_of_mem : ∀ {es : List Ev}, AdmInv es → ∀ {z : Ev}, z ∈ es → getL es z.id = some z
  | [], _, z, hz => by cases hz
  | e :: es, hI, z, hz => by
    obtain ⟨hI', _, hfresh, _, _, _⟩ := hI
    rw [getL_cons]
    rcases List.mem_cons.mp hz with rfl | hz'
    · simp
    · have hz'' := getL_of_mem hI' hz'
      have : e.id ≠ z.id := by
        intro heq; rw [heq] at hfresh; rw [hfresh] at hz''; cases hz''
      simp [this, hz'']

/-- the latest event of a creator has the largest index, and indexes are ≥ 0 -/
theorem index_le_last : ∀ {es : List Ev}, AdmInv es → ∀ {z : Ev}, z ∈ es →
    ∃ l, lastFromL es z.creator = some l ∧ z.index ≤ l.index ∧ 0 ≤ z.index
  | [], _, z, hz => by cases hz
  | e :: es, hI, z, hz => by
    obtain ⟨hI', _, _, hchain, _, _⟩ := hI
    rw [lastFromL_cons]
    rcases List.mem_cons.mp hz with rfl | hz'
    · refine ⟨z, by simp, Int.le_refl _, ?_⟩
      cases hl : lastFromL es z.creator with
      | none => rw [hl] at hchain; omega
      | some l =>
        rw [hl] at hchain
        obtain ⟨_, hle, h0⟩ := index_le_last hI' (lastFromL_mem hl)
        omega
    · obtain ⟨l, hl, hle, h0⟩ := index_le_last hI' hz'
      by_cases hc : e.creator = z.creator
      · refine ⟨e, by simp [hc], ?_, h0⟩
        rw [hc, hl] at hchain
        omega
      · exact ⟨l, by simp [hc, hl], hle, h0⟩

/-- same creator and same index ⇒ same event -/
theorem unique_index : ∀ {es : List Ev}, AdmInv es → ∀ {a b : Ev}, a ∈ es → b ∈ es →
    a.creator = b.creator → a.index = b.index → a = b
  | [], _, a, _, ha, _, _, _ => by cases ha
  | e :: es, hI, a, b, ha, hb, hc, hi => by
    obtain ⟨hI', _, _, hchain, _, _⟩ := hI
    have newer : ∀ z, z ∈ es → z.creator = e.creator → z.index < e.index := by
      intro z hz hzc
      obtain ⟨l, hl, hle, _⟩ := index_le_last hI' hz
      rw [hzc] at hl; rw [hl] at hchain; omega
    rcases List.mem_cons.mp ha with rfl | ha' <;> rcases List.mem_cons.mp hb with rfl | hb'
    · rfl
    · have := newer b hb' hc.symm; omega
    · have := newer a ha' hc; omega
    · exact unique_index hI' ha' hb' hc hi


theorem id_ne_empty : ∀ {es : List Ev}, AdmInv es → ∀ {z : Ev}, z ∈ es → z.id ≠ ""
  | [], _, z, hz => by cases hz
  | e :: es, hI, z, hz => by
    rcases List.mem_cons.mp hz with rfl | hz'
    · exact hI.2.1
    · exact id_ne_empty hI.1 hz'

theorem getL_empty {es : List Ev} (hI : AdmInv es) : getL es "" = none := by
  cases h : getL es "" with
  | none => rfl
  | some e => exact absurd (getL_id h) (id_ne_empty hI (getL_mem h))

theorem getL_cons_old {e : Ev} {es : List Ev} (hI : AdmInv (e :: es)) {b : String} {eb : Ev}
    (h : getL es b = some eb) : getL (e :: es) b = some eb := by
  rw [getL_cons]
  have : e.id ≠ b := by
    intro heq; have := hI.2.2.1; rw [heq, h] at this; cases this
  simp [this, h]

/-- self-parent of a stored event: present, same creator, index one less; or empty with index 0 -/
theorem sp_spec : ∀ {es : List Ev}, AdmInv es → ∀ {z : Ev}, z ∈ es →
    (z.sp = "" ∧ z.index = 0) ∨ (∃ l, getL es z.sp = some l ∧ l.creator = z.creator ∧ z.index = l.index + 1)
  | [], _, z, hz => by cases hz
  | e :: es, hI, z, hz => by
    rcases List.mem_cons.mp hz with rfl | hz'
    · obtain ⟨hI', _, _, hchain, _, _⟩ := hI
      cases hl : lastFromL es z.creator with
      | none => rw [hl] at hchain; exact Or.inl hchain
      | some l =>
        rw [hl] at hchain
        right
        refine ⟨l, ?_, lastFromL_creator hl, hchain.2⟩
        rw [hchain.1]
        exact getL_cons_old ⟨hI', by assumption, by assumption, by rw [hl]; exact hchain, by assumption, by assumption⟩
          (getL_of_mem hI' (lastFromL_mem hl))
    · rcases sp_spec hI.1 hz' with h | ⟨l, hl, hc, hi⟩
      · exact Or.inl h
      · exact Or.inr ⟨l, getL_cons_old hI hl, hc, hi⟩

theorem op_present : ∀ {es : List Ev}, AdmInv es → ∀ {z : Ev}, z ∈ es → z.op = "" ∨ (getL es z.op).isSome
  | [], _, z, hz => by cases hz
  | e :: es, hI, z, hz => by
    rcases List.mem_cons.mp hz with rfl | hz'
    · rcases hI.2.2.2.2.1 with h | h
      · exact Or.inl h
      · right
        cases hg : getL es z.op with
        | none => rw [hg] at h; cases h
        | some o => rw [getL_cons_old hI hg]; rfl
    · rcases op_present hI.1 hz' with h | h
      · exact Or.inl h
      · right
        cases hg : getL es z.op with
        | none => rw [hg] at h; cases h
        | some o => rw [getL_cons_old hI hg]; rfl

theorem Anc.trans {es : List Ev} {a b c : String} (h1 : Anc es a b) (h2 : Anc es b c) : Anc es a c := by
  induction h2 with
  | refl _ => exact h1
  | sp hg hne _ ih => exact Anc.sp hg hne ih
  | op hg hne _ ih => exact Anc.op hg hne ih

theorem Anc.weaken {e : Ev} {es : List Ev} (hI : AdmInv (e :: es)) {z b : String} (h : Anc es z b) :
    Anc (e :: es) z b := by
  induction h with
  | refl hx =>
    apply Anc.refl
    cases hg : getL es _ with
    | none => rw [hg] at hx; cases hx
    | some o => rw [getL_cons_old hI hg]; rfl
  | sp hg hne _ ih => exact Anc.sp (getL_cons_old hI hg) hne ih
  | op hg hne _ ih => exact Anc.op (getL_cons_old hI hg) hne ih

/-- ancestry of an old event does not involve the newest event -/
theorem Anc.old {e : Ev} {es : List Ev} (hI : AdmInv (e :: es)) {z b : String}
    (h : Anc (e :: es) z b) (hb : (getL es b).isSome) : Anc es z b := by
  induction h with
  | refl _ => exact Anc.refl hb
  | @sp b eb hg hne _ ih =>
    cases hgb : getL es b with
    | none => rw [hgb] at hb; cases hb
    | some ob =>
      have heq : eb = ob := by
        have := getL_cons_old hI hgb; rw [hg] at this; exact Option.some.inj this
      subst heq
      rcases sp_spec hI.1 (getL_mem hgb) with ⟨h0, _⟩ | ⟨l, hl, _, _⟩
      · exact absurd h0 hne
      · exact Anc.sp hgb hne (ih (by rw [hl]; rfl))
  | @op b eb hg hne _ ih =>
    cases hgb : getL es b with
    | none => rw [hgb] at hb; cases hb
    | some ob =>
      have heq : eb = ob := by
        have := getL_cons_old hI hgb; rw [hg] at this; exact Option.some.inj this
      subst heq
      rcases op_present hI.1 (getL_mem hgb) with h0 | hp
      · exact absurd h0 hne
      · exact Anc.op hgb hne (ih hp)


/-- events of one creator form a chain: lower index ⇒ self-ancestor -/
theorem chain {es : List Ev} (hI : AdmInv es) : ∀ (k : Nat) {y z : Ev}, y ∈ es → z ∈ es →
    y.creator = z.creator → y.index ≤ z.index → (z.index - y.index).toNat = k → Anc es y.id z.id := by
  intro k
  induction k with
  | zero =>
    intro y z hy hz hc hle hk
    have : y.index = z.index := by omega
    have := unique_index hI hy hz hc this
    subst this
    exact Anc.refl (by rw [getL_of_mem hI hy]; rfl)
  | succ k ih =>
    intro y z hy hz hc hle hk
    rcases sp_spec hI hz with ⟨_, h0⟩ | ⟨l, hl, hlc, hli⟩
    · obtain ⟨_, _, _, hy0⟩ := index_le_last hI hy
      omega
    · have hne : z.sp ≠ "" := by
        intro h; rw [h, getL_empty hI] at hl; cases hl
      have hanc := ih hy (getL_mem hl) (by rw [hc, hlc]) (by omega) (by omega)
      rw [getL_id hl] at hanc
      exact Anc.sp (getL_of_mem hI hz) hne hanc

theorem maxO_some {a b : Option Int} {i : Int} (h : maxO a b = some i) : a = some i ∨ b = some i := by
  cases a <;> cases b <;> simp [maxO] at h ⊢
  · exact h
  · exact h
  · split at h <;> simp_all

theorem maxO_ge_left {a b : Option Int} {i : Int} (h : a = some i) : ∃ j, maxO a b = some j ∧ i ≤ j := by
  subst h; cases b with
  | none => exact ⟨i, rfl, Int.le_refl _⟩
  | some b =>
    simp only [maxO]; split
    · exact ⟨b, rfl, by omega⟩
    · exact ⟨i, rfl, Int.le_refl _⟩

theorem maxO_ge_right {a b : Option Int} {i : Int} (h : b = some i) : ∃ j, maxO a b = some j ∧ i ≤ j := by
  subst h; cases a with
  | none => exact ⟨i, rfl, Int.le_refl _⟩
  | some a =>
    simp only [maxO]; split
    · exact ⟨i, rfl, Int.le_refl _⟩
    · exact ⟨a, rfl, by omega⟩

theorem laOf_some {es : List Ev} {id : String} {p : Nat} {i : Int} (h : laGet (laOf es id) p = some i) :
    ∃ l, getL es id = some l ∧ laGet l.la p = some i := by
  unfold laOf at h
  cases hg : getL es id with
  | none => rw [hg] at h; simp [laGet, posGet] at h
  | some l => rw [hg] at h; exact ⟨l, rfl, by simpa using h⟩

/-- (A) soundness of coordinates: an entry comes from a real ancestor -/
theorem la_sound : ∀ {es : List Ev}, AdmInv es → ∀ {x : Ev}, x ∈ es → ∀ {p : Nat} {i : Int},
    laGet x.la p = some i → ∃ z, z ∈ es ∧ Anc es z.id x.id ∧ z.creator = p ∧ z.index = i
  | [], _, x, hx, _, _, _ => by cases hx
  | e :: es, hI, x, hx, p, i, hla => by
    rcases List.mem_cons.mp hx with rfl | hx'
    · obtain ⟨hI', hne, hfresh, hchain, hop, hlaeq⟩ := hI
      have hIfull : AdmInv (x :: es) := ⟨hI', hne, hfresh, hchain, hop, hlaeq⟩
      have hgx : getL (x :: es) x.id = some x := by rw [getL_cons]; simp
      by_cases hp : p = x.creator
      · subst hp
        rw [hlaeq, laGet_setAt_same] at hla
        exact ⟨x, List.mem_cons_self, Anc.refl (by rw [hgx]; rfl), rfl, (Option.some.inj hla)⟩
      · rw [hlaeq, laGet_setAt_other _ _ _ _ hp, laGet_merge] at hla
        rcases maxO_some hla with h | h
        · obtain ⟨l, hl, hll⟩ := laOf_some h
          obtain ⟨z, hz, hanc, hc, hi⟩ := la_sound hI' (getL_mem hl) hll
          have hspne : x.sp ≠ "" := by
            intro h0; rw [h0, getL_empty hI'] at hl; cases hl
          rw [getL_id hl] at hanc
          exact ⟨z, List.mem_cons_of_mem _ hz, Anc.sp hgx hspne (Anc.weaken hIfull hanc), hc, hi⟩
        · obtain ⟨l, hl, hll⟩ := laOf_some h
          obtain ⟨z, hz, hanc, hc, hi⟩ := la_sound hI' (getL_mem hl) hll
          have hopne : x.op ≠ "" := by
            intro h0; rw [h0, getL_empty hI'] at hl; cases hl
          rw [getL_id hl] at hanc
          exact ⟨z, List.mem_cons_of_mem _ hz, Anc.op hgx hopne (Anc.weaken hIfull hanc), hc, hi⟩
    · obtain ⟨z, hz, hanc, hc, hi⟩ := la_sound hI.1 hx' hla
      exact ⟨z, List.mem_cons_of_mem _ hz, Anc.weaken hI hanc, hc, hi⟩


theorem Anc.left_present {es : List Ev} {z b : String} (h : Anc es z b) : (getL es z).isSome := by
  induction h with
  | refl h => exact h
  | sp _ _ _ ih => exact ih
  | op _ _ _ ih => exact ih

/-- ancestry into the newest event goes through one of its parents -/
theorem Anc.head_cases {e : Ev} {es : List Ev} (hI : AdmInv (e :: es)) {z : String}
    (h : Anc (e :: es) z e.id) :
    z = e.id ∨ (e.sp ≠ "" ∧ Anc es z e.sp) ∨ (e.op ≠ "" ∧ Anc es z e.op) := by
  have hge : getL (e :: es) e.id = some e := by rw [getL_cons]; simp
  cases h with
  | refl _ => exact Or.inl rfl
  | sp hg hne hanc =>
    rw [hge] at hg; cases hg
    right; left
    refine ⟨hne, Anc.old hI hanc ?_⟩
    obtain ⟨_, _, _, hchain, _, _⟩ := hI
    cases hl : lastFromL es e.creator with
    | none => rw [hl] at hchain; exact absurd hchain.1 hne
    | some l =>
      rw [hl] at hchain; rw [hchain.1, getL_of_mem (by assumption) (lastFromL_mem hl)]; rfl
  | op hg hne hanc =>
    rw [hge] at hg; cases hg
    right; right
    refine ⟨hne, Anc.old hI hanc ?_⟩
    rcases hI.2.2.2.2.1 with h0 | hp
    · exact absurd h0 hne
    · exact hp

/-- (B) completeness of coordinates: every ancestor is dominated by the entry of its creator -/
theorem la_complete : ∀ {es : List Ev}, AdmInv es → ∀ {z x : Ev}, z ∈ es → x ∈ es → Anc es z.id x.id →
    ∃ i, laGet x.la z.creator = some i ∧ z.index ≤ i
  | [], _, z, _, hz, _, _ => by cases hz
  | e :: es, hI, z, x, hz, hx, hanc => by
    rcases List.mem_cons.mp hx with rfl | hx'
    · -- x is the newest event
      obtain ⟨hI', hne, hfresh, hchain, hop, hlaeq⟩ := hI
      have hIfull : AdmInv (x :: es) := ⟨hI', hne, hfresh, hchain, hop, hlaeq⟩
      by_cases hc : z.creator = x.creator
      · -- same creator: own entry, and z is not newer than x
        rw [hlaeq, hc, laGet_setAt_same]
        refine ⟨x.index, rfl, ?_⟩
        rcases List.mem_cons.mp hz with rfl | hz'
        · exact Int.le_refl _
        · obtain ⟨l, hl, hle, _⟩ := index_le_last hI' hz'
          rw [hc] at hl; rw [hl] at hchain; omega
      · rw [hlaeq, laGet_setAt_other _ _ _ _ hc, laGet_merge]
        have hzne : z ≠ x := by intro h; subst h; exact hc rfl
        have hz' : z ∈ es := by
          rcases List.mem_cons.mp hz with rfl | h
          · exact absurd rfl hzne
          · exact h
        rcases Anc.head_cases hIfull hanc with heq | ⟨hspne, hsp⟩ | ⟨hopne, hopa⟩
        · -- z.id = x.id impossible: x.id fresh
          have := getL_of_mem hI' hz'; rw [heq, hfresh] at this; cases this
        · cases hl : getL es x.sp with
          | none =>
            -- sp present
            cases hlf : lastFromL es x.creator with
            | none => rw [hlf] at hchain; exact absurd hchain.1 hspne
            | some l => rw [hlf] at hchain; rw [hchain.1, getL_of_mem hI' (lastFromL_mem hlf)] at hl; cases hl
          | some l =>
            have hsp' : Anc es z.id l.id := by rw [getL_id hl]; exact hsp
            obtain ⟨i, hi, hle⟩ := la_complete hI' hz' (getL_mem hl) hsp'
            have : laGet (laOf es x.sp) z.creator = some i := by simp [laOf, hl, hi]
            obtain ⟨j, hj, hij⟩ := maxO_ge_left (b := laGet (laOf es x.op) z.creator) this
            exact ⟨j, hj, by omega⟩
        · rcases hop with h0 | hp
          · exact absurd h0 hopne
          · cases hl : getL es x.op with
            | none => rw [hl] at hp; cases hp
            | some l =>
              have hop' : Anc es z.id l.id := by rw [getL_id hl]; exact hopa
              obtain ⟨i, hi, hle⟩ := la_complete hI' hz' (getL_mem hl) hop'
              have : laGet (laOf es x.op) z.creator = some i := by simp [laOf, hl, hi]
              obtain ⟨j, hj, hij⟩ := maxO_ge_right (a := laGet (laOf es x.sp) z.creator) this
              exact ⟨j, hj, by omega⟩
    · -- x old: z must be old too, and the ancestry is old
      have hgx : (getL es x.id).isSome := by rw [getL_of_mem hI.1 hx']; rfl
      have hanc' := Anc.old hI hanc hgx
      have hz' : z ∈ es := by
        rcases List.mem_cons.mp hz with rfl | h
        · -- newest event cannot be an ancestor of an old one: its id is not in es
          exfalso
          have : (getL es z.id).isSome := Anc.left_present hanc'
          rw [hI.2.2.1] at this; cases this
        · exact h
      exact la_complete hI.1 hz' hx' hanc'


/-- MAIN: the Go `ancestor` predicate (index arithmetic on lastAncestors) is real ancestry -/
theorem ancestorL_iff_Anc {es : List Ev} (hI : AdmInv es) {x y : Ev} (hx : x ∈ es) (hy : y ∈ es) :
    ancestorL es x.id y.id = true ↔ Anc es y.id x.id := by
  unfold ancestorL
  by_cases hxy : x.id = y.id
  · simp only [hxy, beq_self_eq_true, if_true, true_iff]
    exact Anc.refl (by rw [getL_of_mem hI hy]; rfl)
  · have hbeq : (x.id == y.id) = false := by simpa using hxy
    simp only [hbeq, getL_of_mem hI hx, getL_of_mem hI hy]
    constructor
    · intro h
      cases hla : laGet x.la y.creator with
      | none => rw [hla] at h; simp at h
      | some i =>
        rw [hla] at h
        have hge : i ≥ y.index := by simpa using h
        obtain ⟨z, hz, hanc, hc, hi⟩ := la_sound hI hx hla
        have hch := chain hI _ hy hz hc.symm (by omega) rfl
        exact Anc.trans hch hanc
    · intro h
      obtain ⟨i, hi, hle⟩ := la_complete hI hy hx h
      rw [hi]; simpa using hle





end Babble.HG
