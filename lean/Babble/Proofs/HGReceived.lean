import Babble.Proofs.HGRounds
/-! # Every event is received by one round, once — hence committed in at most one block, once.
    For the operational model started from genesis.  Core Lean only. -/
namespace Babble.HG

/-- the events a round has received so far -/
def recvOf (s : St) (k : Int) : List String := ((s.getRound k).map (·.received)).getD []

theorem recv_setRound (s : St) (r k : Int) (ri : RoundInfo) :
    recvOf (s.setRound r ri) k = if k = r then ri.received else recvOf s k := by
  unfold recvOf
  rw [getRound_setRound]
  split <;> rfl

theorem recv_update (s : St) (id : String) (f : Ev → Ev) (k : Int) : recvOf (s.update id f) k = recvOf s k := rfl

/-- a pass that leaves the received lists and the undetermined queue alone -/
structure Quiet (s s' : St) : Prop where
  recv : ∀ k, recvOf s' k = recvOf s k
  undet : s'.undet = s.undet
  blocks : s'.blocks = s.blocks

theorem Quiet.refl (s : St) : Quiet s s := ⟨fun _ => rfl, rfl, rfl⟩
theorem Quiet.trans {a b c : St} (h1 : Quiet a b) (h2 : Quiet b c) : Quiet a c :=
  ⟨fun k => (h2.recv k).trans (h1.recv k), h2.undet.trans h1.undet, h2.blocks.trans h1.blocks⟩

theorem Quiet.update (s : St) (id : String) (f : Ev → Ev) : Quiet s (s.update id f) := ⟨fun _ => rfl, rfl, rfl⟩

theorem Quiet.setRound (s : St) (r : Int) (ri : RoundInfo) (h : ri.received = recvOf s r) : Quiet s (s.setRound r ri) :=
  ⟨fun k => by rw [recv_setRound]; split <;> simp_all, rfl, rfl⟩

theorem foldl_quiet {α} (f : St → α → St) (h : ∀ s a, Quiet s (f s a)) (l : List α) (s : St) : Quiet s (l.foldl f s) := by
  induction l generalizing s with
  | nil => exact Quiet.refl s
  | cons a l ih => exact (h s a).trans (ih _)

theorem foldl_quiet_fst {α β} (f : St × β → α → St × β) (h : ∀ p a, Quiet p.1 (f p a).1) (l : List α) (p : St × β) :
    Quiet p.1 (l.foldl f p).1 := by
  induction l generalizing p with
  | nil => exact Quiet.refl _
  | cons a l ih => exact (h p a).trans (ih _)

theorem recv_getD (s : St) (r : Int) : ((s.getRound r).getD {}).received = recvOf s r := by
  unfold recvOf; cases s.getRound r <;> rfl

theorem addCreated_received (ri : RoundInfo) (id : String) (w : Bool) : (ri.addCreated id w).received = ri.received := by
  unfold RoundInfo.addCreated; split <;> rfl

theorem setFame_received (ri : RoundInfo) (id : String) (f : Bool) : (ri.setFame id f).received = ri.received := by
  unfold RoundInfo.setFame; simp only []; split <;> rfl

theorem witnessesDecided_received (ri : RoundInfo) (ps : List Nat) : (ri.witnessesDecided ps).2.received = ri.received := by
  unfold RoundInfo.witnessesDecided
  split
  · rfl
  · split <;> rfl

theorem queueRound_quiet (s : St) (r : Int) (ri : RoundInfo) : Quiet s (s.queueRound r ri) := by
  unfold St.queueRound; split
  · exact ⟨fun _ => rfl, rfl, rfl⟩
  · exact Quiet.refl s

theorem assignRound_quiet (s : St) (id : String) (ev : Ev) : Quiet s (s.assignRound id ev) := by
  unfold St.assignRound
  simp only []
  have h1 := queueRound_quiet s (s.computeRound ev) ((s.getRound (s.computeRound ev)).getD {})
  refine ((h1.trans (Quiet.update _ _ _)).trans (Quiet.setRound _ _ _ ?_)).trans (Quiet.update _ _ _)
  rw [addCreated_received, recv_getD, recv_update, h1.recv]

theorem assignLamport_quiet (s : St) (id : String) : Quiet s (s.assignLamport id) := by
  unfold St.assignLamport; split
  · exact Quiet.refl s
  · exact Quiet.update _ _ _

theorem divideOne_quiet (s : St) (id : String) : Quiet s (divideOne s id) := by
  unfold divideOne; split
  · exact Quiet.refl s
  · simp only []
    split <;> split <;> first
      | exact (assignRound_quiet _ _ _).trans (assignLamport_quiet _ _)
      | exact assignRound_quiet _ _ _
      | exact assignLamport_quiet _ _
      | exact Quiet.refl s

theorem divideRounds_quiet (s : St) : Quiet s s.divideRounds := foldl_quiet _ divideOne_quiet _ _

/-! ## DecideFame -/

theorem decideWitness_received (st : St) (r : Int) (ri : RoundInfo) (x : String) :
    (st.decideWitness r ri x).received = ri.received := by
  unfold St.decideWitness
  split
  · rfl
  · split
    · exact setFame_received _ _ _
    · rfl

theorem foldl_decideWitness_received (st : St) (r : Int) (l : List String) (ri : RoundInfo) :
    (l.foldl (st.decideWitness r) ri).received = ri.received := by
  induction l generalizing ri with
  | nil => rfl
  | cons x l ih => simp only [List.foldl_cons]; rw [ih, decideWitness_received]

theorem recv_of_getRound {s : St} {r : Int} {ri : RoundInfo} (h : s.getRound r = some ri) : recvOf s r = ri.received := by
  unfold recvOf; rw [h]; rfl

theorem decideFameRound_quiet (p : St × List Int) (pr : Int × Bool) : Quiet p.1 (decideFameRound p pr).1 := by
  unfold decideFameRound
  simp only []
  split
  · exact Quiet.refl _
  · rename_i ri hg
    apply Quiet.setRound
    rw [witnessesDecided_received, foldl_decideWitness_received, recv_of_getRound hg]

theorem decideFame_quiet (s : St) : Quiet s s.decideFame := by
  unfold St.decideFame
  have := foldl_quiet_fst decideFameRound decideFameRound_quiet s.pending (s, [])
  revert this
  generalize s.pending.foldl decideFameRound (s, []) = p
  intro h
  exact h.trans ⟨fun _ => rfl, rfl, rfl⟩

/-! ## DecideRoundReceived -/

/-- what one search does to the received lists: nothing, or — when it succeeds — `x` is appended to
    the list of exactly one round -/
def RecvStep (s s' : St) (x : String) (got : Bool) : Prop :=
  s'.undet = s.undet ∧ s'.blocks = s.blocks ∧
  ((got = false ∧ ∀ k, recvOf s' k = recvOf s k) ∨
   (got = true ∧ ∃ i, recvOf s' i = recvOf s i ++ [x] ∧ ∀ k, k ≠ i → recvOf s' k = recvOf s k))

theorem RecvStep.of_quiet {s s' : St} (x : String) (h : Quiet s s') : RecvStep s s' x false :=
  ⟨h.undet, h.blocks, Or.inl ⟨rfl, h.recv⟩⟩

theorem Quiet.then {a b c : St} {x : String} {got : Bool} (h1 : Quiet a b) (h2 : RecvStep b c x got) : RecvStep a c x got := by
  obtain ⟨hu, hb, h⟩ := h2
  refine ⟨hu.trans h1.undet, hb.trans h1.blocks, ?_⟩
  rcases h with ⟨hg, hk⟩ | ⟨hg, i, hi, hk⟩
  · exact Or.inl ⟨hg, fun k => (hk k).trans (h1.recv k)⟩
  · exact Or.inr ⟨hg, i, by rw [hi, h1.recv], fun k hki => (hk k hki).trans (h1.recv k)⟩

theorem rrLoop_recv (s : St) (x : String) (fuel : Nat) (i : Int) :
    RecvStep s (s.rrLoop x fuel i).1 x (s.rrLoop x fuel i).2 := by
  induction fuel generalizing s i with
  | zero => exact RecvStep.of_quiet x (Quiet.refl s)
  | succ fuel ih =>
    unfold St.rrLoop
    by_cases hgt : i > s.lastRound
    · simp only [hgt, if_true]; exact RecvStep.of_quiet x (Quiet.refl s)
    · simp only [hgt, if_false]
      cases hg : s.getRound i with
      | none =>
        simp only []
        split
        · exact RecvStep.of_quiet x (Quiet.refl s)
        · split
          · exact RecvStep.of_quiet x (Quiet.refl s)
          · exact ih _ _
      | some tr =>
        simp only []
        have hq1 : Quiet s (s.setRound i (tr.witnessesDecided (s.peersAt i)).2) :=
          Quiet.setRound s i _ (by rw [witnessesDecided_received, recv_of_getRound hg])
        by_cases hd : (tr.witnessesDecided (s.peersAt i)).1 = true
        · simp only [hd, Bool.not_true, Bool.false_eq_true, if_false]
          split
          · -- received
            refine ⟨rfl, rfl, Or.inr ⟨rfl, i, ?_, ?_⟩⟩
            · rw [recv_setRound]; simp only [if_true]
              rw [witnessesDecided_received, recv_of_getRound hg]
            · intro k hk
              rw [recv_setRound]; simp only [hk, if_false]
              rw [recv_update, hq1.recv]
          · exact hq1.then (ih _ _)
        · simp only [hd, Bool.not_false, if_true]
          split
          · exact RecvStep.of_quiet x hq1
          · split
            · exact RecvStep.of_quiet x hq1
            · exact hq1.then (ih _ _)

/-! ## the invariant -/

/-- `seen`: the ids inserted so far (ghost) -/
structure CInv (s : St) (seen : List String) : Prop where
  u : s.undet.Nodup
  us : ∀ x ∈ s.undet, x ∈ seen
  r1 : ∀ k, (recvOf s k).Nodup
  r2 : ∀ k k', k ≠ k' → ∀ x ∈ recvOf s k, x ∉ recvOf s k'
  r3 : ∀ k, ∀ x ∈ recvOf s k, x ∉ s.undet
  rs : ∀ k, ∀ x ∈ recvOf s k, x ∈ seen
  b : ∀ b ∈ s.blocks, b.events.Nodup ∧ ∀ x ∈ b.events, x ∈ recvOf s b.rr

theorem Quiet.cinv {s s' : St} {seen : List String} (h : Quiet s s') (hI : CInv s seen) : CInv s' seen where
  u := by rw [h.undet]; exact hI.u
  us := by rw [h.undet]; exact hI.us
  r1 := fun k => by rw [h.recv]; exact hI.r1 k
  r2 := fun k k' hk x hx => by rw [h.recv] at hx ⊢; exact hI.r2 k k' hk x hx
  r3 := fun k x hx => by rw [h.recv] at hx; rw [h.undet]; exact hI.r3 k x hx
  rs := fun k x hx => by rw [h.recv] at hx; exact hI.rs k x hx
  b := fun b hb => by rw [h.blocks] at hb; rw [h.recv]; exact hI.b b hb

/-- the invariant in the middle of `DecideRoundReceived`: `acc` are the events looked at and still
    undetermined, `rest` those still to look at -/
structure FInv (st : St) (acc rest : List String) (seen : List String) : Prop where
  nd : (acc ++ rest).Nodup
  as : ∀ x ∈ acc ++ rest, x ∈ seen
  r1 : ∀ k, (recvOf st k).Nodup
  r2 : ∀ k k', k ≠ k' → ∀ x ∈ recvOf st k, x ∉ recvOf st k'
  r3 : ∀ k, ∀ x ∈ recvOf st k, x ∉ acc ++ rest
  rs : ∀ k, ∀ x ∈ recvOf st k, x ∈ seen
  b : ∀ b ∈ st.blocks, b.events.Nodup ∧ ∀ x ∈ b.events, x ∈ recvOf st b.rr

theorem recvStep_finv {st st' : St} {acc rest seen : List String} {x : String} {got : Bool}
    (hs : RecvStep st st' x got) (h : FInv st acc (x :: rest) seen) :
    FInv st' (if got then acc else acc ++ [x]) rest seen := by
  obtain ⟨_, hb, hc⟩ := hs
  have hxnotin : ∀ k, x ∉ recvOf st k := fun k hx => h.r3 k x hx (by simp)
  have hxseen : x ∈ seen := h.as x (by simp)
  rcases hc with ⟨hg, hk⟩ | ⟨hg, i, hi, hk⟩
  · subst hg
    simp only [Bool.false_eq_true, if_false]
    refine ⟨by simpa using h.nd, fun y hy => h.as y (by simpa using hy), fun k => by rw [hk]; exact h.r1 k, ?_, ?_, ?_, ?_⟩
    · intro k k' hkk y hy; rw [hk] at hy ⊢; exact h.r2 k k' hkk y hy
    · intro k y hy; rw [hk] at hy; simpa using h.r3 k y hy
    · intro k y hy; rw [hk] at hy; exact h.rs k y hy
    · intro b hbm; rw [hb] at hbm; rw [hk]; exact h.b b hbm
  · subst hg
    simp only [if_true]
    have hnd : (acc ++ rest).Nodup := by
      have := h.nd
      rw [List.nodup_append] at this ⊢
      refine ⟨this.1, (List.nodup_cons.mp this.2.1).2, fun a ha b hb => this.2.2 a ha b (List.mem_cons_of_mem _ hb)⟩
    have hxacc : x ∉ acc ++ rest := by
      have := h.nd
      rw [List.nodup_append] at this
      intro hx
      rcases List.mem_append.mp hx with hx | hx
      · exact this.2.2 x hx x (List.mem_cons_self) rfl
      · exact (List.nodup_cons.mp this.2.1).1 hx
    have recv_cases : ∀ k y, y ∈ recvOf st' k → (y ∈ recvOf st k) ∨ (k = i ∧ y = x) := by
      intro k y hy
      by_cases hki : k = i
      · subst hki; rw [hi] at hy
        rcases List.mem_append.mp hy with hy | hy
        · exact Or.inl hy
        · exact Or.inr ⟨rfl, by simpa using hy⟩
      · rw [hk k hki] at hy; exact Or.inl hy
    refine ⟨hnd, fun y hy => h.as y ?_, ?_, ?_, ?_, ?_, ?_⟩
    · rcases List.mem_append.mp hy with hy | hy
      · exact List.mem_append.mpr (Or.inl hy)
      · exact List.mem_append.mpr (Or.inr (List.mem_cons_of_mem _ hy))
    · intro k
      by_cases hki : k = i
      · subst hki; rw [hi]
        exact List.nodup_append.mpr ⟨h.r1 k, by simp, fun a ha b hb => by
          have : b = x := by simpa using hb
          subst this; intro hab; subst hab; exact hxnotin k ha⟩
      · rw [hk k hki]; exact h.r1 k
    · intro k k' hkk y hy hy'
      rcases recv_cases k y hy with h1 | ⟨h1, h1'⟩ <;> rcases recv_cases k' y hy' with h2 | ⟨h2, h2'⟩
      · exact h.r2 k k' hkk y h1 h2
      · subst h2'; exact hxnotin k h1
      · subst h1'; exact hxnotin k' h2
      · exact hkk (h1.trans h2.symm)
    · intro k y hy
      rcases recv_cases k y hy with h1 | ⟨_, h1'⟩
      · intro hm
        exact h.r3 k y h1 (by
          rcases List.mem_append.mp hm with hm | hm
          · exact List.mem_append.mpr (Or.inl hm)
          · exact List.mem_append.mpr (Or.inr (List.mem_cons_of_mem _ hm)))
      · subst h1'; exact hxacc
    · intro k y hy
      rcases recv_cases k y hy with h1 | ⟨_, h1'⟩
      · exact h.rs k y h1
      · subst h1'; exact hxseen
    · intro b hbm
      rw [hb] at hbm
      refine ⟨(h.b b hbm).1, fun y hy => ?_⟩
      have := (h.b b hbm).2 y hy
      by_cases hki : b.rr = i
      · rw [hki, hi]; rw [hki] at this; exact List.mem_append.mpr (Or.inl this)
      · rw [hk _ hki]; exact this

theorem receiveOne_finv (p : St × List String) (x : String) (rest seen : List String)
    (h : FInv p.1 p.2 (x :: rest) seen) : FInv (receiveOne p x).1 (receiveOne p x).2 rest seen := by
  unfold receiveOne
  simp only []
  have hs := rrLoop_recv p.1 x (p.1.lastRound - p.1.roundOf x + 1).toNat (p.1.roundOf x + 1)
  have := recvStep_finv hs h
  revert this
  generalize p.1.rrLoop x (p.1.lastRound - p.1.roundOf x + 1).toNat (p.1.roundOf x + 1) = q
  obtain ⟨q1, q2⟩ := q
  intro this
  cases q2 <;> simpa using this

theorem foldl_receiveOne_finv (l : List String) (p : St × List String) (seen : List String)
    (h : FInv p.1 p.2 l seen) : FInv (l.foldl receiveOne p).1 (l.foldl receiveOne p).2 [] seen := by
  induction l generalizing p with
  | nil => exact h
  | cons x l ih => exact ih _ (receiveOne_finv p x l seen h)

theorem decideRoundReceived_cinv (s : St) (seen : List String) (hI : CInv s seen) : CInv s.decideRoundReceived seen := by
  unfold St.decideRoundReceived
  have h0 : FInv s [] s.undet seen :=
    ⟨by simpa using hI.u, by simpa using hI.us, hI.r1, hI.r2, fun k x hx => by simpa using hI.r3 k x hx, hI.rs, hI.b⟩
  have := foldl_receiveOne_finv s.undet (s, []) seen h0
  revert this
  generalize s.undet.foldl receiveOne (s, []) = p
  intro h
  exact ⟨by simpa using h.nd, fun x hx => h.as x (by simpa using hx), h.r1, h.r2,
    fun k x hx => by simpa using h.r3 k x hx, h.rs, h.b⟩

/-! ## ProcessDecidedRounds -/

theorem get_id {s : St} {x : String} {e : Ev} (h : s.get x = some e) : e.id = x := by
  unfold St.get at h
  split at h
  · cases h
  · have := List.find?_some h
    simpa using this

theorem map_id_filterMap_get (s : St) (l : List String) :
    (l.filterMap s.get).map (·.id) = l.filter (fun x => (s.get x).isSome) := by
  induction l with
  | nil => rfl
  | cons x l ih =>
    cases hg : s.get x with
    | none => simp [List.filterMap_cons, hg, ih]
    | some e => simp [List.filterMap_cons, hg, ih, get_id hg]

theorem frame_ids (s : St) (r : Int) (ri : RoundInfo) (hnd : ri.received.Nodup) :
    ((s.getFrame r ri).2.map (·.id)).Nodup ∧ ∀ x ∈ (s.getFrame r ri).2.map (·.id), x ∈ ri.received := by
  have hperm : ((s.getFrame r ri).2.map (·.id)).Perm ((ri.received.filterMap s.get).map (·.id)) :=
    (List.mergeSort_perm _ _).map _
  rw [map_id_filterMap_get] at hperm
  refine ⟨hperm.nodup_iff.mpr (hnd.sublist List.filter_sublist), fun x hx => ?_⟩
  exact (List.mem_filter.mp (hperm.mem_iff.mp hx)).1

theorem blockOf_events (index r : Int) (frame : Frame) (sorted : List Ev) (b : Block)
    (h : blockOf index r frame sorted = some b) : b.events = sorted.map (·.id) ∧ b.rr = r := by
  unfold blockOf at h
  simp only [] at h
  split at h
  · injection h with h; subst h; exact ⟨rfl, rfl⟩
  · cases h

theorem applyReceipts_undet (s : St) (rr : Int) (itxs : List (Bool × Nat)) : (s.applyReceipts rr itxs).undet = s.undet := by
  unfold St.applyReceipts
  split
  · rfl
  · simp only []; split <;> rfl

theorem processOne_cinv (s s' : St) (seen : List String) (hI : CInv s seen) (h : s.processOne = some s') : CInv s' seen := by
  obtain ⟨r, rest, hp, _, _, hrin, _⟩ := processOne_fields s s' h
  have hrecv : ∀ k, recvOf s' k = recvOf s k := fun k => by unfold recvOf; rw [getRound_of_rin hrin]
  unfold St.processOne at h
  rw [hp] at h
  simp only [Bool.not_true, Bool.false_eq_true, if_false] at h
  split at h
  · cases h
  · rename_i ri hg
    try simp only [] at h
    have hfr := frame_ids s r ri (by rw [← recv_of_getRound hg]; exact hI.r1 r)
    have hundet_blocks : s'.undet = s.undet ∧
        (s'.blocks = s.blocks ∨ ∃ b, s'.blocks = s.blocks ++ [b] ∧ b.events = (s.getFrame r ri).2.map (·.id) ∧ b.rr = r) := by
      split at h
      · rename_i b hb
        injection h with h
        subst h
        have hbe := blockOf_events _ _ _ _ _ hb
        have hab := addBlock_blocks (s.addFrame (s.getFrame r ri).1 (s.getFrame r ri).2) b
        refine ⟨?_, Or.inr ⟨b, ?_, hbe.1, hbe.2⟩⟩
        · show (St.addBlock _ b).undet = s.undet
          unfold St.addBlock; rw [applyReceipts_undet]; rfl
        · show (St.addBlock _ b).blocks = s.blocks ++ [b]
          rw [hab.1]; rfl
      · injection h with h
        subst h
        exact ⟨rfl, Or.inl rfl⟩
    obtain ⟨hu, hb⟩ := hundet_blocks
    refine ⟨by rw [hu]; exact hI.u, by rw [hu]; exact hI.us, fun k => by rw [hrecv]; exact hI.r1 k, ?_, ?_, ?_, ?_⟩
    · intro k k' hkk x hx; rw [hrecv] at hx ⊢; exact hI.r2 k k' hkk x hx
    · intro k x hx; rw [hrecv] at hx; rw [hu]; exact hI.r3 k x hx
    · intro k x hx; rw [hrecv] at hx; exact hI.rs k x hx
    · intro b hbm
      rw [hrecv]
      rcases hb with hb | ⟨nb, hb, hev, hrr⟩
      · rw [hb] at hbm; exact hI.b b hbm
      · rw [hb] at hbm
        rcases List.mem_append.mp hbm with hbm | hbm
        · exact hI.b b hbm
        · have : b = nb := by simpa using hbm
          subst this
          rw [hev, hrr, recv_of_getRound hg]
          exact hfr

theorem processLoop_cinv (fuel : Nat) (s : St) (seen : List String) (hI : CInv s seen) : CInv (s.processLoop fuel) seen := by
  induction fuel generalizing s with
  | zero => exact hI
  | succ fuel ih =>
    unfold St.processLoop
    cases h : s.processOne with
    | none => exact hI
    | some s' => exact ih s' (processOne_cinv s s' seen hI h)

theorem runConsensus_cinv (s : St) (seen : List String) (hI : CInv s seen) : CInv s.runConsensus seen := by
  unfold St.runConsensus St.processDecidedRounds
  apply processLoop_cinv
  apply decideRoundReceived_cinv
  exact (decideFame_quiet _).cinv ((divideRounds_quiet _).cinv hI)

/-! ## InsertEvent -/

theorem fdWalk_quiet (s : St) (fuel : Nat) (ah : String) (cr : Nat) (idx : Int) : Quiet s (s.fdWalk fuel ah cr idx) := by
  induction fuel generalizing s ah with
  | zero => exact Quiet.refl s
  | succ fuel ih =>
    unfold St.fdWalk
    split
    · exact Quiet.refl s
    · split
      · exact Quiet.refl s
      · simp only []
        split
        · exact Quiet.update _ _ _
        · exact (Quiet.update _ _ _).trans (ih _ _)

theorem walkOne_quiet (cr : Nat) (idx : Int) (s : St) (c : Option Coord) : Quiet s (walkOne cr idx s c) := by
  unfold walkOne; split
  · exact fdWalk_quiet _ _ _ _ _
  · exact Quiet.refl s

theorem insertCoords_quiet (s : St) (e : Ev) : Quiet s (s.insertCoords e) := by
  unfold St.insertCoords
  simp only []
  have h0 : Quiet s { s with events := { e with la := s.initLa e, fd := setAt [] e.creator (some e.index) } :: s.events } :=
    ⟨fun _ => rfl, rfl, rfl⟩
  exact h0.trans (foldl_quiet _ (walkOne_quiet e.creator e.index) _ _)

/-- inserting an event whose id was never seen -/
theorem insert_cinv (s : St) (e : Ev) (seen : List String) (hI : CInv s seen) (hf : e.id ∉ seen) :
    CInv (s.insert e) (seen ++ [e.id]) := by
  have hq := insertCoords_quiet s e
  have hI' := hq.cinv hI
  have hrecv : ∀ k, recvOf (s.insert e) k = recvOf (s.insertCoords e) k := fun _ => rfl
  have hundet : (s.insert e).undet = (s.insertCoords e).undet ++ [e.id] := rfl
  have hblocks : (s.insert e).blocks = (s.insertCoords e).blocks := rfl
  refine ⟨?_, ?_, fun k => by rw [hrecv]; exact hI'.r1 k, ?_, ?_, ?_, ?_⟩
  · rw [hundet]
    exact List.nodup_append.mpr ⟨hI'.u, by simp, fun a ha b hb => by
      have : b = e.id := by simpa using hb
      subst this; intro hab; subst hab; exact hf (hI'.us _ ha)⟩
  · intro x hx
    rw [hundet] at hx
    rcases List.mem_append.mp hx with hx | hx
    · exact List.mem_append.mpr (Or.inl (hI'.us x hx))
    · exact List.mem_append.mpr (Or.inr hx)
  · intro k k' hkk x hx; rw [hrecv] at hx ⊢; exact hI'.r2 k k' hkk x hx
  · intro k x hx hm
    rw [hrecv] at hx
    rw [hundet] at hm
    rcases List.mem_append.mp hm with hm | hm
    · exact hI'.r3 k x hx hm
    · have : x = e.id := by simpa using hm
      subst this; exact hf (hI'.rs k _ hx)
  · intro k x hx; rw [hrecv] at hx; exact List.mem_append.mpr (Or.inl (hI'.rs k x hx))
  · intro b hb; rw [hblocks] at hb; rw [hrecv]; exact hI'.b b hb

theorem CInv.mono {s : St} {seen seen' : List String} (hI : CInv s seen) (h : ∀ x ∈ seen, x ∈ seen') : CInv s seen' :=
  ⟨hI.u, fun x hx => h x (hI.us x hx), hI.r1, hI.r2, hI.r3, fun k x hx => h x (hI.rs k x hx), hI.b⟩

theorem insertAndRun_cinv (s : St) (e : Ev) (seen : List String) (hI : CInv s seen) (hf : e.id ∉ seen) :
    CInv (s.insertAndRun e).1 (seen ++ [e.id]) := by
  unfold St.insertAndRun
  split
  · exact hI.mono (fun x hx => List.mem_append.mpr (Or.inl hx))
  · exact runConsensus_cinv _ _ (insert_cinv s e seen hI hf)

theorem runAll_cinv (s : St) (es : List Ev) (seen : List String) (hI : CInv s seen)
    (hnd : (seen ++ es.map (·.id)).Nodup) : CInv (runAll s es) (seen ++ es.map (·.id)) := by
  induction es generalizing s seen with
  | nil =>
    have : runAll s [] = s := rfl
    rw [this]; simpa using hI
  | cons e es ih =>
    have hf : e.id ∉ seen := by
      intro hm
      have := (List.nodup_append.mp hnd).2.2 e.id hm e.id (by simp)
      exact this rfl
    have h1 := insertAndRun_cinv s e seen hI hf
    have h2 := ih (s.insertAndRun e).1 (seen ++ [e.id]) h1 (by simpa [List.append_assoc] using hnd)
    have : runAll s (e :: es) = runAll (s.insertAndRun e).1 es := rfl
    rw [this]
    simpa [List.append_assoc] using h2

theorem init_cinv (g : List Nat) : CInv (St.init g) [] where
  u := List.nodup_nil
  us := fun _ h => by cases h
  r1 := fun _ => List.nodup_nil
  r2 := fun _ _ _ _ h => by cases h
  r3 := fun _ _ h => by cases h
  rs := fun _ _ h => by cases h
  b := fun _ h => by cases h

/-- **every event is committed at most once**: for every sequence of insertion attempts of events
    with pairwise distinct ids into a node started from genesis, no delivered block lists an event
    twice and no two delivered blocks share an event -/
theorem committed_once (g : List Nat) (es : List Ev) (hes : ∀ e ∈ es, e.round = none) (hnd : (es.map (·.id)).Nodup) :
    (∀ b ∈ (runAll (St.init g) es).blocks, b.events.Nodup) ∧
    (runAll (St.init g) es).blocks.Pairwise (fun a b => ∀ x ∈ a.events, x ∉ b.events) := by
  have hI := runAll_cinv (St.init g) es [] (init_cinv g) (by simpa using hnd)
  have hrr := blocks_rr_increasing g es hes
  refine ⟨fun b hb => (hI.b b hb).1, ?_⟩
  have hall : ∀ b ∈ (runAll (St.init g) es).blocks, ∀ x ∈ b.events, x ∈ recvOf (runAll (St.init g) es) b.rr :=
    fun b hb => (hI.b b hb).2
  revert hrr hall
  generalize (runAll (St.init g) es).blocks = bs
  intro hrr hall
  induction bs with
  | nil => exact List.Pairwise.nil
  | cons a bs ih =>
    rw [List.pairwise_cons] at hrr ⊢
    refine ⟨fun b hb x hxa hxb => ?_, ih hrr.2 (fun b hb => hall b (List.mem_cons_of_mem _ hb))⟩
    have hne : a.rr ≠ b.rr := by have := hrr.1 b hb; omega
    exact hI.r2 a.rr b.rr hne x (hall a (List.mem_cons_self) x hxa) (hall b (List.mem_cons_of_mem _ hb) x hxb)

end Babble.HG
