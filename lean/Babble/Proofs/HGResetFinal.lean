import Babble.Proofs.HGFinal
/-! # finality of assigned values on a node reset from a frame

`values_final` (HGFinal) is about a node started from genesis: its invariant `CInv` ties the delivered
blocks to the received lists of the rounds, which a reset node's anchor block does not satisfy (the
anchor's events were received by somebody else). Finality needs less: the undetermined queue has no
duplicates and lists only known ids, and none of its events has a round received. That weaker invariant
(`WInv`) holds in the state `resetFrom` builds — the queue is empty there — and is carried by the same
pass lemmas. -/
namespace Babble.HG

structure WInv (s : St) (seen : List String) : Prop where
  u : s.undet.Nodup
  us : ∀ x ∈ s.undet, x ∈ seen
  n : NInv s
  ids : ∀ x ∈ idsOf s, x ∈ seen

theorem receiveOne_snd (p : St × List String) (x : String) :
    (receiveOne p x).2 = p.2 ∨ (receiveOne p x).2 = p.2 ++ [x] := by
  unfold receiveOne
  simp only []
  split
  · exact Or.inl rfl
  · exact Or.inr rfl

theorem foldl_receiveOne_mem (l : List String) (p : St × List String) :
    ∀ y ∈ (l.foldl receiveOne p).2, y ∈ p.2 ∨ y ∈ l := by
  induction l generalizing p with
  | nil => intro y hy; exact Or.inl hy
  | cons x l ih =>
    intro y hy
    simp only [List.foldl_cons] at hy
    rcases ih (receiveOne p x) y hy with h | h
    · rcases receiveOne_snd p x with h' | h'
      · rw [h'] at h; exact Or.inl h
      · rw [h'] at h
        rcases List.mem_append.mp h with h | h
        · exact Or.inl h
        · have hy' : y = x := by simpa using h
          subst hy'
          exact Or.inr (by simp)
    · exact Or.inr (List.mem_cons_of_mem _ h)

theorem decideRoundReceived_undet (s : St) (hu : s.undet.Nodup) (hI : NInv s) :
    s.decideRoundReceived.undet.Nodup ∧ ∀ x ∈ s.decideRoundReceived.undet, x ∈ s.undet := by
  unfold St.decideRoundReceived
  have h0 : GInv s s [] s.undet := ⟨by simpa using hu, fun y hy => hI y (by simpa using hy), Final.refl s⟩
  have h1 := foldl_receiveOne_ginv s s.undet (s, []) h0
  have h2 := foldl_receiveOne_mem s.undet (s, [])
  revert h1 h2
  generalize s.undet.foldl receiveOne (s, []) = p
  intro h1 h2
  refine ⟨by simpa using h1.nd, fun x hx => ?_⟩
  rcases h2 x hx with h | h
  · cases h
  · exact h

theorem runConsensus_w (s : St) (hu : s.undet.Nodup) (hI : NInv s) :
    Final s s.runConsensus ∧ NInv s.runConsensus ∧ s.runConsensus.undet.Nodup ∧
      ∀ x ∈ s.runConsensus.undet, x ∈ s.undet := by
  unfold St.runConsensus St.processDecidedRounds
  have k1 := divideRounds_keeps s
  have q1 := divideRounds_quiet s
  have k2 := decideFame_keeps s.divideRounds
  have q2 := decideFame_quiet s.divideRounds
  have hI2 : NInv s.divideRounds.decideFame := k2.ninv q2.undet (k1.ninv q1.undet hI)
  have hu2 : s.divideRounds.decideFame.undet.Nodup := by rw [q2.undet, q1.undet]; exact hu
  obtain ⟨f3, hI3⟩ := decideRoundReceived_final _ hu2 hI2
  obtain ⟨hu3, hs3⟩ := decideRoundReceived_undet _ hu2 hI2
  have k4 := processLoop_keeps (s.divideRounds.decideFame.decideRoundReceived.pending.length + 1) s.divideRounds.decideFame.decideRoundReceived
  have hu4 := processLoop_undet (s.divideRounds.decideFame.decideRoundReceived.pending.length + 1) s.divideRounds.decideFame.decideRoundReceived
  refine ⟨((k1.trans k2).final.trans f3).trans k4.final, k4.ninv hu4 hI3, by rw [hu4]; exact hu3, ?_⟩
  intro x hx
  rw [hu4] at hx
  have := hs3 x hx
  rwa [q2.undet, q1.undet] at this

theorem insertAndRun_w (s : St) (e : Ev) (seen : List String) (hA : WInv s seen) (hf : e.id ∉ seen) (hrr : e.rr = none) :
    Final s (s.insertAndRun e).1 ∧ WInv (s.insertAndRun e).1 (seen ++ [e.id]) := by
  unfold St.insertAndRun
  split
  · exact ⟨Final.refl s, ⟨hA.u, fun x hx => List.mem_append.mpr (Or.inl (hA.us x hx)), hA.n,
      fun x hx => List.mem_append.mpr (Or.inl (hA.ids x hx))⟩⟩
  · have hget : s.get e.id = none := get_none_of_not_mem s e.id (fun h => hf (hA.ids _ h))
    have k0 := insert_keeps s e hget hrr
    have hu : (s.insert e).undet = s.undet ++ [e.id] := by
      unfold St.insert; simp only []; rw [(insertCoords_quiet s e).undet]
    have hu1 : (s.insert e).undet.Nodup := by
      rw [hu]
      refine List.nodup_append.mpr ⟨hA.u, by simp, ?_⟩
      intro a ha b hb hab
      have : b = e.id := by simpa using hb
      subst this; subst hab
      exact hf (hA.us _ ha)
    have hn1 : NInv (s.insert e) := by
      intro x hx
      rw [hu] at hx
      rcases List.mem_append.mp hx with hx | hx
      · exact k0.rr_none x (hA.n x hx)
      · have : x = e.id := by simpa using hx
        subst this
        exact k0.rr_none _ (fun e' he' => by rw [hget] at he'; cases he')
    obtain ⟨f1, hn2, hu2, hs2⟩ := runConsensus_w (s.insert e) hu1 hn1
    refine ⟨k0.final.trans f1, ⟨hu2, ?_, hn2, ?_⟩⟩
    · intro x hx
      have := hs2 x hx
      rw [hu] at this
      rcases List.mem_append.mp this with h | h
      · exact List.mem_append.mpr (Or.inl (hA.us x h))
      · exact List.mem_append.mpr (Or.inr h)
    · intro x hx
      rw [runConsensus_ids, insert_ids] at hx
      rcases List.mem_cons.mp hx with hx | hx
      · exact List.mem_append.mpr (Or.inr (by simp [hx]))
      · exact List.mem_append.mpr (Or.inl (hA.ids x hx))

theorem runAll_w (s : St) (es : List Ev) (seen : List String) (hA : WInv s seen)
    (hnd : (seen ++ es.map (·.id)).Nodup) (hrr : ∀ e ∈ es, e.rr = none) :
    Final s (runAll s es) ∧ WInv (runAll s es) (seen ++ es.map (·.id)) := by
  induction es generalizing s seen with
  | nil =>
    have : runAll s [] = s := rfl
    rw [this]
    exact ⟨Final.refl s, by simpa using hA⟩
  | cons e es ih =>
    have hf : e.id ∉ seen := by
      intro hm
      exact (List.nodup_append.mp hnd).2.2 e.id hm e.id (by simp) rfl
    obtain ⟨f1, hA1⟩ := insertAndRun_w s e seen hA hf (hrr e (by simp))
    obtain ⟨f2, hA2⟩ := ih (s.insertAndRun e).1 (seen ++ [e.id]) hA1 (by simpa [List.append_assoc] using hnd)
      (fun e' he' => hrr e' (List.mem_cons_of_mem _ he'))
    have : runAll s (e :: es) = runAll (s.insertAndRun e).1 es := rfl
    rw [this]
    exact ⟨f1.trans f2, by simpa [List.append_assoc] using hA2⟩

/-! ## the state built by `Reset` -/

theorem setRound_undet (s : St) (r : Int) (ri : RoundInfo) : (s.setRound r ri).undet = s.undet := rfl

theorem insertFrameEvent_undet (s : St) (p : FrameEv × Ev) : (s.insertFrameEvent p).undet = s.undet := by
  unfold St.insertFrameEvent
  simp only []
  rw [(insertCoords_quiet _ _).undet]
  rfl

theorem foldl_insertFrameEvent_undet (l : List (FrameEv × Ev)) (s : St) :
    (l.foldl St.insertFrameEvent s).undet = s.undet := by
  induction l generalizing s with
  | nil => rfl
  | cons p l ih => simp only [List.foldl_cons]; rw [ih, insertFrameEvent_undet]

theorem resetFrom_undet (blk : Block) (fr : Frame) (lookup : String → Option Ev) :
    (resetFrom blk fr lookup).undet = [] := by
  unfold resetFrom
  simp only []
  rw [applyReceipts_undet]
  simp only []
  rw [foldl_insertFrameEvent_undet]

theorem resetFrom_w (blk : Block) (fr : Frame) (lookup : String → Option Ev) :
    WInv (resetFrom blk fr lookup) (idsOf (resetFrom blk fr lookup)) where
  u := by rw [resetFrom_undet]; exact List.nodup_nil
  us := by rw [resetFrom_undet]; intro _ h; cases h
  n := by intro x hx; rw [resetFrom_undet] at hx; cases hx
  ids := fun _ h => h

/-- **assigned values are final on a reset node**: take a node reset from an anchor block and frame,
    any sequence of insertion attempts of fresh events (ids distinct from each other and from the ids
    the frame brought, no round received yet) and any continuation. Whatever round, witness flag,
    Lamport timestamp or round received an event has after the first part — the values preset from
    the frame included — it has after the continuation. -/
theorem values_final_after_reset (blk : Block) (fr : Frame) (lookup : String → Option Ev) (es1 es2 : List Ev)
    (hnd : (idsOf (resetFrom blk fr lookup) ++ (es1 ++ es2).map (·.id)).Nodup)
    (hrr : ∀ e ∈ es1 ++ es2, e.rr = none) (x : String) (e : Ev)
    (hx : (runAll (resetFrom blk fr lookup) es1).get x = some e) :
    ∃ e', (runAll (resetFrom blk fr lookup) (es1 ++ es2)).get x = some e' ∧
      (e.round.isSome → e'.round = e.round ∧ e'.wit = e.wit) ∧ (e.lamport.isSome → e'.lamport = e.lamport) ∧
      (e.rr.isSome → e'.rr = e.rr) := by
  rw [runAll_append]
  have hnd1 : (idsOf (resetFrom blk fr lookup) ++ es1.map (·.id)).Nodup := by
    rw [List.map_append, ← List.append_assoc] at hnd
    exact (List.nodup_append.mp hnd).1
  obtain ⟨_, hA1⟩ := runAll_w (resetFrom blk fr lookup) es1 _ (resetFrom_w blk fr lookup) hnd1
    (fun e he => hrr e (List.mem_append.mpr (Or.inl he)))
  obtain ⟨f2, _⟩ := runAll_w (runAll (resetFrom blk fr lookup) es1) es2 _ hA1
    (by simpa [List.map_append, List.append_assoc] using hnd) (fun e he => hrr e (List.mem_append.mpr (Or.inr he)))
  exact f2.ev x e hx

/-! ## what `Reset` stores is what the frame says -/

theorem insertFrameEvent_ids (s : St) (p : FrameEv × Ev) : idsOf (s.insertFrameEvent p) = p.2.id :: idsOf s := by
  unfold St.insertFrameEvent St.insertCoords
  simp only []
  have h := foldl_ids (walkOne p.2.creator p.2.index) (walkOne_ids p.2.creator p.2.index)
  unfold idsOf at h ⊢
  simp only []
  rw [h]
  rfl

/-- the record `InsertFrameEvent` stores -/
def presetOf (p : FrameEv × Ev) : Ev :=
  { p.2 with la := [], fd := [], round := some p.1.round, lamport := some p.1.lamport, wit := some p.1.witness, rr := none }

theorem insertFrameEvent_keeps (s : St) (p : FrameEv × Ev) (hf : s.get p.2.id = none) :
    Keeps s (s.insertFrameEvent p) := by
  unfold St.insertFrameEvent St.insertCoords
  simp only []
  let s0 := s.setRound p.1.round (((s.getRound p.1.round).getD {}).addCreated p.1.id p.1.witness)
  have hs0 : s0.events = s.events := rfl
  have k00 : Keeps s s0 := Keeps.of_events hs0
  have hf0 : s0.get p.2.id = none := by rw [get_of_events hs0]; exact hf
  have h0 := cons_keeps s0 { presetOf p with la := s0.initLa (presetOf p), fd := setAt [] p.2.creator (some p.2.index) } hf0 rfl
  have h1 := foldl_keeps (walkOne p.2.creator p.2.index) (walkOne_keeps p.2.creator p.2.index)
    (s0.initLa (presetOf p)) { s0 with events := { presetOf p with la := s0.initLa (presetOf p), fd := setAt [] p.2.creator (some p.2.index) } :: s0.events }
  exact ((k00.trans h0).trans h1).trans (Keeps.of_events rfl)

theorem insertFrameEvent_get (s : St) (p : FrameEv × Ev) (hne : p.2.id ≠ "") :
    ∃ e', (s.insertFrameEvent p).get p.2.id = some e' ∧ e'.round = some p.1.round ∧ e'.wit = some p.1.witness ∧
      e'.lamport = some p.1.lamport ∧ e'.rr = none := by
  unfold St.insertFrameEvent St.insertCoords
  simp only []
  let s0 := s.setRound p.1.round (((s.getRound p.1.round).getD {}).addCreated p.1.id p.1.witness)
  let e0 : Ev := { presetOf p with la := s0.initLa (presetOf p), fd := setAt [] p.2.creator (some p.2.index) }
  have hg := get_cons_eq s0 e0 hne
  have h1 := foldl_keeps (walkOne p.2.creator p.2.index) (walkOne_keeps p.2.creator p.2.index)
    (s0.initLa (presetOf p)) { s0 with events := e0 :: s0.events }
  obtain ⟨e', he', hr, hl, hrr⟩ := h1.ev p.2.id e0 hg
  refine ⟨e', ?_, ?_, ?_, ?_, ?_⟩
  · rw [← he']; exact get_of_events rfl _
  · exact (hr rfl).1
  · exact (hr rfl).2
  · exact hl rfl
  · exact hrr

/-- the values the frame carries for an event -/
def Installed (s : St) (p : FrameEv × Ev) : Prop :=
  ∃ e', s.get p.2.id = some e' ∧ e'.round = some p.1.round ∧ e'.wit = some p.1.witness ∧
    e'.lamport = some p.1.lamport ∧ e'.rr = none

theorem Keeps.installed {s s' : St} (h : Keeps s s') {p : FrameEv × Ev} (hp : Installed s p) : Installed s' p := by
  obtain ⟨e, hg, hr, hw, hl, hrr⟩ := hp
  obtain ⟨e', hg', hr', hl', hrr'⟩ := h.ev _ e hg
  have h1 := hr' (by rw [hr]; rfl)
  have h2 := hl' (by rw [hl]; rfl)
  exact ⟨e', hg', h1.1.trans hr, h1.2.trans hw, h2.trans hl, hrr'.trans hrr⟩

theorem foldl_insertFrameEvent_installed (l : List (FrameEv × Ev)) (s : St)
    (hnd : (l.map (·.2.id)).Nodup) (hfresh : ∀ p ∈ l, p.2.id ∉ idsOf s) (hne : ∀ p ∈ l, p.2.id ≠ "") :
    (∀ p ∈ l, Installed (l.foldl St.insertFrameEvent s) p) ∧ Keeps s (l.foldl St.insertFrameEvent s) := by
  induction l generalizing s with
  | nil => exact ⟨fun _ h => (nomatch h), Keeps.refl s⟩
  | cons q l ih =>
    simp only [List.foldl_cons]
    have hq : s.get q.2.id = none := get_none_of_not_mem s _ (hfresh q (by simp))
    have k0 := insertFrameEvent_keeps s q hq
    have hnd' : (l.map (·.2.id)).Nodup := by
      simp only [List.map_cons, List.nodup_cons] at hnd; exact hnd.2
    have hqn : q.2.id ∉ l.map (·.2.id) := by
      simp only [List.map_cons, List.nodup_cons] at hnd; exact hnd.1
    obtain ⟨h1, k1⟩ := ih (s.insertFrameEvent q) hnd'
      (fun p hp hm => by
        rw [insertFrameEvent_ids] at hm
        rcases List.mem_cons.mp hm with hm | hm
        · exact hqn (by rw [← hm]; exact List.mem_map_of_mem hp)
        · exact hfresh p (List.mem_cons_of_mem _ hp) hm)
      (fun p hp => hne p (List.mem_cons_of_mem _ hp))
    refine ⟨fun p hp => ?_, k0.trans k1⟩
    rcases List.mem_cons.mp hp with hp | hp
    · subst hp
      exact k1.installed (insertFrameEvent_get s p (hne p (by simp)))
    · exact h1 p hp

/-- the (frame event, core event) pairs `Reset` inserts -/
def frameSources (fr : Frame) (lookup : String → Option Ev) : List (FrameEv × Ev) :=
  ((fr.roots.map (·.2)).flatten ++ fr.events).filterMap (fun fe => (lookup fe.id).map (fun e => (fe, e)))

theorem applyReceipts_events' (s : St) (rr : Int) (itxs : List (Bool × Nat)) :
    (s.applyReceipts rr itxs).events = s.events := by
  unfold St.applyReceipts
  split
  · rfl
  · simp only []
    split <;> rfl

/-- **`Reset` installs the frame's values**: if the events the frame ships have pairwise distinct,
    non-empty ids, the reset node holds every one of them with exactly the round, witness flag and
    Lamport timestamp the frame states, and with no round received -/
theorem resetFrom_installed (blk : Block) (fr : Frame) (lookup : String → Option Ev)
    (hnd : ((frameSources fr lookup).map (·.2.id)).Nodup) (hne : ∀ p ∈ frameSources fr lookup, p.2.id ≠ "") :
    ∀ p ∈ frameSources fr lookup, Installed (resetFrom blk fr lookup) p := by
  intro p hp
  have hperm := List.mergeSort_perm (frameSources fr lookup) frameEvLe
  have hnd' : (((frameSources fr lookup).mergeSort frameEvLe).map (·.2.id)).Nodup :=
    ((hperm.map _).nodup_iff).mpr hnd
  obtain ⟨h1, _⟩ := foldl_insertFrameEvent_installed ((frameSources fr lookup).mergeSort frameEvLe)
    { peerSets := fr.peerSets,
      validators := ((((fr.peerSets.filter (fun p => decide (p.1 > fr.round))).getLast?).map (·.2)).getD fr.peers),
      repertoire := fr.peerSets.foldl (fun rep p => p.2.foldl addRep rep) [] }
    hnd' (fun _ _ hm => by cases hm) (fun q hq => hne q (hperm.mem_iff.mp hq))
  obtain ⟨e', hg, hrest⟩ := h1 p (hperm.mem_iff.mpr hp)
  refine ⟨e', ?_, hrest⟩
  rw [← hg]
  unfold resetFrom
  simp only []
  exact get_of_events (applyReceipts_events' _ _ _) _

end Babble.HG
