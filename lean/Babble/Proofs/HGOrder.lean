import Babble.Model.Hashgraph
/-! The frame order: events of one round received sorted by (Lamport timestamp, signature key);
    Lamport timestamps strictly exceed those of the parents. Core Lean only. -/
namespace Babble.HG

theorem frameLe_total (a b : Ev) : (frameLe a b || frameLe b a) = true := by
  unfold frameLe
  simp only []
  generalize a.lamport.getD 0 = x
  generalize b.lamport.getD 0 = y
  by_cases h : x = y
  · subst h
    simp
    omega
  · have h' : ¬ y = x := fun e => h e.symm
    simp [h, h']
    omega

theorem frameLe_trans (a b c : Ev) (h1 : frameLe a b = true) (h2 : frameLe b c = true) : frameLe a c = true := by
  unfold frameLe at *
  simp only [] at *
  by_cases hab : a.lamport.getD 0 = b.lamport.getD 0 <;> by_cases hbc : b.lamport.getD 0 = c.lamport.getD 0 <;>
    by_cases hac : a.lamport.getD 0 = c.lamport.getD 0 <;> simp_all <;> omega

/-- the committed order inside a frame is sorted by (Lamport, key) and is a permutation of the
    round's received events -/
theorem getFrame_sorted (s : St) (r : Int) (ri : RoundInfo) :
    (s.getFrame r ri).2.Pairwise (fun a b => frameLe a b = true) ∧
    (s.getFrame r ri).2.Perm (ri.received.filterMap s.get) := by
  unfold St.getFrame
  simp only []
  exact ⟨List.pairwise_mergeSort (le := frameLe) frameLe_trans frameLe_total _, List.mergeSort_perm _ _⟩

/-- `frameLe` with a strictly smaller Lamport timestamp on the left is strict: the larger one never
    comes first -/
theorem frameLe_of_lamport_lt (a b : Ev) (h : a.lamport.getD 0 < b.lamport.getD 0) :
    frameLe a b = true ∧ frameLe b a = false := by
  unfold frameLe
  simp only []
  have h1 : ¬ a.lamport.getD 0 = b.lamport.getD 0 := by omega
  have h2 : ¬ b.lamport.getD 0 = a.lamport.getD 0 := by omega
  simp [h1, h2]
  omega

/-- in a list sorted by `frameLe`, an event with a strictly smaller Lamport timestamp never comes
    after one with a larger timestamp -/
theorem sorted_lamport_order (l : List Ev) (hs : l.Pairwise (fun a b => frameLe a b = true))
    (i j : Nat) (hi : i < l.length) (hj : j < l.length)
    (hlt : (l[i]).lamport.getD 0 < (l[j]).lamport.getD 0) : i < j := by
  apply Decidable.byContradiction
  intro hn
  have hji : j ≤ i := by omega
  rcases Nat.eq_or_lt_of_le hji with heq | hlt'
  · subst heq; omega
  · have := (List.pairwise_iff_getElem.mp hs) j i hj hi hlt'
    have h2 := (frameLe_of_lamport_lt _ _ hlt).2
    rw [h2] at this; cases this

/-- `_lamportTimestamp`: strictly greater than the timestamps of both parents (when they are stored) -/
theorem computeLamport_gt (s : St) (e : Ev) :
    (e.sp ≠ "" → ∀ t, s.lamportOf e.sp = some t → t < s.computeLamport e) ∧
    (e.op ≠ "" → ∀ t, s.lamportOf e.op = some t → t < s.computeLamport e) := by
  unfold St.computeLamport
  simp only [Gen.cmpLamport, Cmp.eval]
  constructor
  · intro hsp t ht
    have hsp' : (e.sp == "") = false := by simpa using hsp
    simp only [hsp', ht, Option.getD_some]
    by_cases hop : e.op == ""
    · simp [hop]; omega
    · simp only [hop]
      split <;> simp at * <;> omega
  · intro hop t ht
    have hop' : (e.op == "") = false := by simpa using hop
    simp only [hop', ht, Option.getD_some]
    split <;> simp at * <;> omega

theorem blockOf_payload (index r : Int) (frame : Frame) (sorted : List Ev) (b : Block)
    (h : blockOf index r frame sorted = some b) :
    b.txs = (sorted.map (·.txs)).flatten ∧ b.itx = (sorted.map (·.itx)).flatten ∧
    b.events = sorted.map (·.id) ∧ b.ts = frame.ts ∧ b.peers = frame.peers ∧
    (b.txs ≠ [] ∨ b.itx ≠ []) := by
  unfold blockOf at h
  simp only [] at h
  split at h
  · rename_i hc
    injection h with h; subst h
    refine ⟨rfl, rfl, rfl, rfl, rfl, ?_⟩
    simp only [Gen.cmpFrameNonEmpty, Gen.cmpBlockHasTx, Gen.cmpBlockHasItx, Cmp.evalN, Bool.and_eq_true,
      Bool.or_eq_true, decide_eq_true_eq] at hc
    rcases hc.2 with h | h
    · left; intro h0; simp only [] at h0; rw [h0] at h; simp at h
    · right; intro h0; simp only [] at h0; rw [h0] at h; simp at h
  · cases h

end Babble.HG

namespace Babble.HG
/-- two events are ordered both ways by `frameLe` only if they carry the same (Lamport, key) pair -/
theorem frameLe_antisymm_key (a b : Ev) (h1 : frameLe a b = true) (h2 : frameLe b a = true) :
    a.lamport.getD 0 = b.lamport.getD 0 ∧ a.key = b.key := by
  unfold frameLe at *
  simp only [] at *
  generalize a.lamport.getD 0 = x at *
  generalize b.lamport.getD 0 = y at *
  by_cases h : x = y
  · subst h; simp at h1 h2; exact ⟨rfl, by omega⟩
  · have h' : ¬ y = x := fun e => h e.symm
    simp [h, h'] at h1 h2; omega

/-- The committed order of a frame does not depend on the order in which its events were received
    (i.e. on the insertion order / the order of `ReceivedEvents`), provided signature sort keys are
    distinct for distinct events (checked per trace by the harness). -/
theorem frame_order_canonical (l₁ l₂ : List Ev) (hp : l₁.Perm l₂)
    (hkey : ∀ a b, a ∈ l₁ → b ∈ l₁ → a.lamport.getD 0 = b.lamport.getD 0 → a.key = b.key → a = b) :
    l₁.mergeSort frameLe = l₂.mergeSort frameLe := by
  apply List.Perm.eq_of_pairwise (le := fun a b => frameLe a b = true)
  · intro a b ha hb h1 h2
    have hb' : b ∈ l₁ := by
      have : b ∈ l₂ := by simpa using hb
      exact hp.symm.subset this
    have ha' : a ∈ l₁ := by simpa using ha
    obtain ⟨hl, hk⟩ := frameLe_antisymm_key a b h1 h2
    exact hkey a b ha' hb' hl hk
  · exact List.pairwise_mergeSort (le := frameLe) frameLe_trans frameLe_total _
  · exact List.pairwise_mergeSort (le := frameLe) frameLe_trans frameLe_total _
  · exact (List.mergeSort_perm _ _).trans (hp.trans (List.mergeSort_perm _ _).symm)
end Babble.HG
