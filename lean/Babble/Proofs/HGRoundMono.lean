import Babble.Proofs.HGLamport
/-! # Rounds never decrease along the parent edges — on the operational model
    For every sequence of insertion attempts of fresh events into a node started from genesis: every
    stored event has a round, and it is at least the round of each parent it names.  Same skeleton as
    `HGLamport`.  Core Lean only. -/
namespace Babble.HG

def St.roundOpt (s : St) (x : String) : Option Int := (s.get x).bind (·.round)

theorem roundOf_eq (s : St) (x : String) : s.roundOf x = (s.roundOpt x).getD (-1) := by
  unfold St.roundOf St.roundOpt
  cases s.get x with
  | none => rfl
  | some e => cases e.round <;> rfl

/-- `_round` is at least the round of each parent -/
theorem computeRound_ge (s : St) (e : Ev) :
    (e.sp ≠ "" → s.roundOf e.sp ≤ s.computeRound e) ∧ (e.op ≠ "" → s.roundOf e.op ≤ s.computeRound e) := by
  have hpr : (e.sp ≠ "" → s.roundOf e.sp ≤ s.parentRound e) ∧ (e.op ≠ "" → s.roundOf e.op ≤ s.parentRound e) := by
    unfold St.parentRound
    simp only [Gen.cmpRoundParent, Cmp.eval]
    constructor
    · intro hsp
      have hsp' : (e.sp == "") = false := by simpa using hsp
      simp only [hsp', Bool.false_eq_true, if_false]
      by_cases hop : e.op == ""
      · simp [hop]
      · simp only [hop]
        split <;> simp at * <;> omega
    · intro hop
      have hop' : (e.op == "") = false := by simpa using hop
      simp only [hop', Bool.false_eq_true, if_false]
      split <;> simp at * <;> omega
  have hge : s.parentRound e ≤ s.computeRound e := by
    unfold St.computeRound
    simp only []
    by_cases h1 : (s.parentRound e == -1) = true
    · simp only [h1, if_true]
      have : s.parentRound e = -1 := by simpa using h1
      omega
    · simp only [h1, Bool.false_eq_true, if_false]
      split
      · exact Int.le_refl _
      · split
        · omega
        · exact Int.le_refl _
  exact ⟨fun h => Int.le_trans (hpr.1 h) hge, fun h => Int.le_trans (hpr.2 h) hge⟩

def RAll (s : St) : Prop := ∀ x, (s.parOf x).isSome → (s.roundOpt x).isSome
def RLe (s : St) : Prop := ∀ x sp op r, s.parOf x = some (sp, op) → s.roundOpt x = some r →
  (sp ≠ "" → ∀ rp, s.roundOpt sp = some rp → rp ≤ r) ∧ (op ≠ "" → ∀ rp, s.roundOpt op = some rp → rp ≤ r)

structure RMInv (s : St) : Prop where
  all : RAll s
  par : ParIn s
  le : RLe s

theorem RMInv.congr {s s' : St} (hp : ∀ x, s'.parOf x = s.parOf x) (hl : ∀ x, s'.roundOpt x = s.roundOpt x)
    (h : RMInv s) : RMInv s' := by
  refine ⟨fun x hx => ?_, fun x sp op hx => ?_, fun x sp op t hx ht => ?_⟩
  · rw [hl]; rw [hp] at hx; exact h.all x hx
  · rw [hp] at hx; simp only [hp]; exact h.par x sp op hx
  · rw [hp] at hx; rw [hl] at ht; simp only [hl]; exact h.le x sp op t hx ht

theorem roundOpt_of_final {s s' : St} (hA : AttrOnly s s') (hF : Final s s') (hall : RAll s) (x : String) :
    s'.roundOpt x = s.roundOpt x := by
  have hp := hA.parOf x
  cases hx : s.get x with
  | none =>
    have : s'.get x = none := by
      have h1 := parOf_isSome s' x
      rw [hp, parOf_isSome, hx] at h1
      cases h' : s'.get x with
      | none => rfl
      | some _ => rw [h'] at h1; cases h1
    unfold St.roundOpt; rw [this, hx]
  | some e =>
    have hs : (s.roundOpt x).isSome := hall x (by rw [parOf_isSome, hx]; rfl)
    obtain ⟨e', hg', hr, _, _⟩ := hF.ev x e hx
    unfold St.roundOpt at hs ⊢
    rw [hx] at hs ⊢
    rw [hg']
    simp only [Option.bind_some] at hs ⊢
    exact (hr hs).1

theorem RMInv.of_final {s s' : St} (hA : AttrOnly s s') (hF : Final s s') (h : RMInv s) : RMInv s' :=
  h.congr hA.parOf (roundOpt_of_final hA hF h.all)

/-! ## DivideRounds: one event -/

theorem roundOpt_of_get_map (s s' : St) (g : Ev → Ev) (h : ∀ x, s'.get x = (s.get x).map g)
    (hg : ∀ e, (g e).round = e.round) (x : String) : s'.roundOpt x = s.roundOpt x := by
  unfold St.roundOpt; rw [h]; cases s.get x <;> simp [hg]

/-- `assignRound` with the assigned round explicit -/
theorem assignRound_get' (s : St) (id : String) (ev : Ev) :
    ∃ w, ∀ x, (s.assignRound id ev).get x =
      (s.get x).map (fun e => if e.id == id then { e with round := some (s.computeRound ev), wit := some w } else e) := by
  unfold St.assignRound
  simp only []
  refine ⟨((s.queueRound (s.computeRound ev) ((s.getRound (s.computeRound ev)).getD {})).update id
    (fun e => { e with round := some (s.computeRound ev) })).computeWitness ev (s.computeRound ev), fun x => ?_⟩
  rw [get_update, get_of_events (setRound_events _ _ _), get_update, get_of_events (queueRound_events _ _ _)]
  · cases s.get x with
    | none => rfl
    | some e =>
      simp only [Option.map_some]
      by_cases hc : e.id = id
      · have hc' : (e.id == id) = true := by simpa using hc
        simp [hc']
      · have hc' : (e.id == id) = false := by simpa using hc
        simp [hc']
  · intro e; rfl
  · intro e; rfl

theorem assignRound_roundOpt (s : St) (id : String) (ev : Ev) (x : String) :
    (s.assignRound id ev).roundOpt x =
      if x = id ∧ (s.get x).isSome then some (s.computeRound ev) else s.roundOpt x := by
  obtain ⟨w, hget⟩ := assignRound_get' s id ev
  unfold St.roundOpt
  rw [hget]
  cases hx : s.get x with
  | none => simp
  | some e =>
    have hid : e.id = x := get_id hx
    simp only [Option.map_some, Option.bind_some, Option.isSome_some, and_true]
    by_cases hxy : x = id
    · have : (e.id == id) = true := by simpa [hid] using hxy
      simp only [this, if_true, hxy]
    · have : (e.id == id) = false := by simpa [hid] using hxy
      simp only [this, Bool.false_eq_true, if_false, hxy]

theorem assignLamport_roundOpt (s : St) (id : String) (x : String) :
    (s.assignLamport id).roundOpt x = s.roundOpt x := by
  unfold St.assignLamport
  split
  · rfl
  · rename_i ev1 hg
    apply roundOpt_of_get_map s _ _
      (get_update s id (fun e => { e with lamport := some (s.computeLamport ev1) }) (fun _ => rfl))
    intro e; split <;> rfl

/-- what `divideOne` does to the rounds: the event it is called for gets one if it has none —
    `_round` evaluated in the state before — and nothing else changes -/
theorem divideOne_roundOpt (st : St) (y : String) (x : String) :
    (divideOne st y).roundOpt x =
      match st.get y with
      | some ev => if x = y ∧ ev.round.isNone then some (st.computeRound ev) else st.roundOpt x
      | none => st.roundOpt x := by
  unfold divideOne
  cases hg : st.get y with
  | none => rfl
  | some ev =>
    simp only []
    have key : ∀ st1 : St, (if ev.lamport.isNone = true then st1.assignLamport y else st1).roundOpt x = st1.roundOpt x := by
      intro st1; split
      · exact assignLamport_roundOpt st1 y x
      · rfl
    rw [key]
    by_cases hr : ev.round.isNone = true
    · simp only [hr, if_true, and_true]
      rw [assignRound_roundOpt]
      by_cases hxy : x = y
      · subst hxy; simp [hg]
      · simp [hxy]
    · have hr' : ev.round.isNone = false := by cases h : ev.round.isNone <;> simp_all
      simp [hr']

theorem foldl_divideOne_rset (l : List String) (st : St)
    (h : ∀ y ∈ l, (st.parOf y).isSome → (st.roundOpt y).isSome) :
    (∀ x, (l.foldl divideOne st).roundOpt x = st.roundOpt x) ∧ (∀ x, (l.foldl divideOne st).parOf x = st.parOf x) := by
  induction l generalizing st with
  | nil => exact ⟨fun _ => rfl, fun _ => rfl⟩
  | cons y l ih =>
    have h1 : ∀ x, (divideOne st y).roundOpt x = st.roundOpt x := by
      intro x
      rw [divideOne_roundOpt]
      cases hg : st.get y with
      | none => rfl
      | some ev =>
        have hs := h y (by simp) (by rw [parOf_isSome, hg]; rfl)
        have : ev.round.isNone = false := by
          unfold St.roundOpt at hs
          rw [hg] at hs
          simp only [Option.bind_some] at hs
          cases hh : ev.round with
          | none => rw [hh] at hs; cases hs
          | some _ => rfl
        simp [this]
    have h2 : ∀ x, (divideOne st y).parOf x = st.parOf x := divideOne_parOf st y
    have ih' := ih (divideOne st y) (fun z hz hzp => by
      rw [h1]; rw [h2] at hzp; exact h z (List.mem_cons_of_mem _ hz) hzp)
    simp only [List.foldl_cons]
    exact ⟨fun x => (ih'.1 x).trans (h1 x), fun x => (ih'.2 x).trans (h2 x)⟩

/-! ## InsertEvent -/

theorem update_fd_roundOpt (s : St) (ah : String) (f : Ev → Ev) (hid : ∀ e, (f e).id = e.id)
    (hl : ∀ e, (f e).round = e.round) (x : String) : (s.update ah f).roundOpt x = s.roundOpt x := by
  apply roundOpt_of_get_map s _ _ (get_update s ah f hid)
  intro e; split
  · exact hl e
  · rfl

theorem fdWalk_roundOpt (s : St) (fuel : Nat) (ah : String) (cr : Nat) (idx : Int) (x : String) :
    (s.fdWalk fuel ah cr idx).roundOpt x = s.roundOpt x := by
  induction fuel generalizing s ah with
  | zero => rfl
  | succ fuel ih =>
    unfold St.fdWalk
    split
    · rfl
    · split
      · rfl
      · simp only []
        have hu := update_fd_roundOpt s ah (fun a => { a with fd := setAt a.fd cr (some idx) }) (fun _ => rfl) (fun _ => rfl) x
        split
        · exact hu
        · exact (ih _ _).trans hu

theorem foldl_walkOne_roundOpt (cr : Nat) (idx : Int) (l : List (Option Coord)) (s : St) (x : String) :
    (l.foldl (walkOne cr idx) s).roundOpt x = s.roundOpt x := by
  induction l generalizing s with
  | nil => rfl
  | cons c l ih =>
    simp only [List.foldl_cons]
    refine (ih _).trans ?_
    unfold walkOne; split
    · exact fdWalk_roundOpt _ _ _ _ _ _
    · rfl

theorem insert_roundOpt_eq (s : St) (e : Ev) (hid : e.id ≠ "") (hl : e.round = none) :
    (s.insert e).roundOpt e.id = none := by
  have h1 : (s.insert e).roundOpt e.id = (s.insertCoords e).roundOpt e.id := rfl
  rw [h1]
  unfold St.insertCoords
  simp only []
  rw [foldl_walkOne_roundOpt]
  unfold St.roundOpt
  have := get_cons_eq s { e with la := s.initLa e, fd := setAt [] e.creator (some e.index) } hid
  simp only [] at this
  rw [this]
  simpa using hl

theorem insert_roundOpt_ne (s : St) (e : Ev) (x : String) (hne : e.id ≠ x) :
    (s.insert e).roundOpt x = s.roundOpt x := by
  have h1 : (s.insert e).roundOpt x = (s.insertCoords e).roundOpt x := rfl
  rw [h1]
  unfold St.insertCoords
  simp only []
  rw [foldl_walkOne_roundOpt]
  unfold St.roundOpt
  rw [get_cons_ne s { e with la := s.initLa e, fd := setAt [] e.creator (some e.index) } x hne]

/-! ## one insertion followed by the passes -/

theorem insert_divide_rminv (s : St) (e : Ev) (hI : RMInv s) (hadm : s.admission e = none)
    (hf : s.get e.id = none) (hid : e.id ≠ "") (hl : e.round = none)
    (hu : e.id ∉ s.undet) : RMInv (s.insert e).divideRounds := by
  have hP1 : ∀ x, e.id ≠ x → (s.insert e).parOf x = s.parOf x := fun x h => insert_parOf_ne s e x h
  have hPz : (s.insert e).parOf e.id = some (e.sp, e.op) := insert_parOf_eq s e hid
  have hL1 : ∀ x, e.id ≠ x → (s.insert e).roundOpt x = s.roundOpt x := fun x h => insert_roundOpt_ne s e x h
  have hLz : (s.insert e).roundOpt e.id = none := insert_roundOpt_eq s e hid hl
  have hund : (s.insert e).undet = s.undet ++ [e.id] := by
    unfold St.insert; simp only []; rw [(insertCoords_quiet s e).undet]
  have hpz0 : s.parOf e.id = none := parOf_none_of_get s e.id hf
  unfold St.divideRounds
  rw [hund, List.foldl_append]
  simp only [List.foldl_cons, List.foldl_nil]
  obtain ⟨hl', hp'⟩ := foldl_divideOne_rset s.undet (s.insert e) (by
    intro y hy hyp
    have hne : e.id ≠ y := fun h => hu (h ▸ hy)
    rw [hL1 y hne]; rw [hP1 y hne] at hyp; exact hI.all y hyp)
  generalize s.undet.foldl divideOne (s.insert e) = st' at hl' hp'
  have hP2 : ∀ x, (divideOne st' e.id).parOf x = (s.insert e).parOf x :=
    fun x => (divideOne_parOf st' e.id x).trans (hp' x)
  -- the record of the new event in st'
  have hpz' : st'.parOf e.id = some (e.sp, e.op) := by rw [hp', hPz]
  obtain ⟨ev, hev⟩ : ∃ ev, st'.get e.id = some ev := by
    have := parOf_isSome st' e.id
    rw [hpz'] at this
    exact Option.isSome_iff_exists.mp this.symm
  have hevp : ev.sp = e.sp ∧ ev.op = e.op := by
    unfold St.parOf at hpz'
    rw [hev] at hpz'
    simp only [Option.map_some, Option.some.injEq, Prod.mk.injEq] at hpz'
    exact hpz'
  have hevr : ev.round = none := by
    have := hl' e.id
    rw [hLz] at this
    unfold St.roundOpt at this
    rw [hev] at this
    simpa using this
  have hL2z : (divideOne st' e.id).roundOpt e.id = some (st'.computeRound ev) := by
    rw [divideOne_roundOpt, hev]
    simp [hevr]
  have hL2 : ∀ x, e.id ≠ x → (divideOne st' e.id).roundOpt x = s.roundOpt x := by
    intro x hne
    rw [divideOne_roundOpt, hev]
    have hxe : ¬ x = e.id := fun h => hne h.symm
    simp only [hxe, false_and, if_false, hl', hL1 x hne]
  have hpar := admission_parents s e hadm
  have hspz : e.sp ≠ "" → e.id ≠ e.sp := by
    intro h heq
    have := hpar.1 h
    rw [← heq, hpz0] at this; cases this
  have hopz : e.op ≠ "" → e.id ≠ e.op := by
    intro h heq
    have := hpar.2 h
    rw [← heq, hpz0] at this; cases this
  have hge := computeRound_ge st' ev
  rw [hevp.1, hevp.2] at hge
  refine ⟨fun x hx => ?_, fun x sp op hx => ?_, fun x sp op t hx ht => ?_⟩
  · by_cases hxz : e.id = x
    · subst hxz; rw [hL2z]; rfl
    · rw [hL2 x hxz]; rw [hP2, hP1 x hxz] at hx; exact hI.all x hx
  · have key : ∀ p, (s.parOf p).isSome → ((divideOne st' e.id).parOf p).isSome := by
      intro p hp
      rw [hP2]
      by_cases hpz : e.id = p
      · subst hpz; rw [hPz]; rfl
      · rw [hP1 p hpz]; exact hp
    rw [hP2] at hx
    by_cases hxz : e.id = x
    · subst hxz
      rw [hPz] at hx
      simp only [Option.some.injEq, Prod.mk.injEq] at hx
      obtain ⟨h1, h2⟩ := hx
      subst h1; subst h2
      exact ⟨fun h => key _ (hpar.1 h), fun h => key _ (hpar.2 h)⟩
    · rw [hP1 x hxz] at hx
      have := hI.par x sp op hx
      exact ⟨fun h => key _ (this.1 h), fun h => key _ (this.2 h)⟩
  · rw [hP2] at hx
    by_cases hxz : e.id = x
    · subst hxz
      rw [hPz] at hx
      simp only [Option.some.injEq, Prod.mk.injEq] at hx
      obtain ⟨h1, h2⟩ := hx
      subst h1; subst h2
      rw [hL2z] at ht
      injection ht with ht
      subst ht
      constructor
      · intro h rp hrp
        rw [hL2 _ (hspz h)] at hrp
        have h1 := hge.1 h
        rw [roundOf_eq, hl', hL1 _ (hspz h), hrp] at h1
        simpa using h1
      · intro h rp hrp
        rw [hL2 _ (hopz h)] at hrp
        have h1 := hge.2 h
        rw [roundOf_eq, hl', hL1 _ (hopz h), hrp] at h1
        simpa using h1
    · rw [hP1 x hxz] at hx
      rw [hL2 x hxz] at ht
      have hin := hI.par x sp op hx
      have hlt := hI.le x sp op t hx ht
      constructor
      · intro h tp htp
        have hne : e.id ≠ sp := by
          intro heq; have := hin.1 h; rw [← heq, hpz0] at this; cases this
        rw [hL2 sp hne] at htp
        exact hlt.1 h tp htp
      · intro h tp htp
        have hne : e.id ≠ op := by
          intro heq; have := hin.2 h; rw [← heq, hpz0] at this; cases this
        rw [hL2 op hne] at htp
        exact hlt.2 h tp htp

theorem insertAndRun_rminv (s : St) (e : Ev) (seen : List String) (hA : AllInv s seen) (hI : RMInv s)
    (hf : e.id ∉ seen) (hid : e.id ≠ "") (hl : e.round = none) (hrr : e.rr = none) :
    RMInv (s.insertAndRun e).1 := by
  unfold St.insertAndRun
  split
  · exact hI
  · rename_i hadm
    have hget : s.get e.id = none := get_none_of_not_mem s e.id (fun h => hf (hA.ids _ h))
    have hu : e.id ∉ s.undet := fun h => hf (hA.c.us _ h)
    have k0 := insert_keeps s e hget hrr
    have hc1 := insert_cinv s e seen hA.c hf
    have hn1 : NInv (s.insert e) := by
      intro x hx
      have hund : (s.insert e).undet = s.undet ++ [e.id] := by
        unfold St.insert; simp only []; rw [(insertCoords_quiet s e).undet]
      rw [hund] at hx
      rcases List.mem_append.mp hx with hx | hx
      · exact k0.rr_none x (hA.n x hx)
      · have : x = e.id := by simpa using hx
        subst this
        exact k0.rr_none _ (fun e' he' => by rw [hget] at he'; cases he')
    have h2 := insert_divide_rminv s e hI hadm hget hid hl hu
    obtain ⟨f, a⟩ := tail_final (s.insert e) (seen ++ [e.id]) hc1 hn1
    exact h2.of_final a f

theorem runAll_rminv (s : St) (es : List Ev) (seen : List String) (hA : AllInv s seen) (hI : RMInv s)
    (hnd : (seen ++ es.map (·.id)).Nodup) (hfresh : ∀ e ∈ es, e.id ≠ "" ∧ e.round = none ∧ e.rr = none) :
    RMInv (runAll s es) := by
  induction es generalizing s seen with
  | nil => exact hI
  | cons e es ih =>
    have hf : e.id ∉ seen := by
      intro hm
      exact (List.nodup_append.mp hnd).2.2 e.id hm e.id (by simp) rfl
    have hfe := hfresh e (by simp)
    have h1 := insertAndRun_rminv s e seen hA hI hf hfe.1 hfe.2.1 hfe.2.2
    obtain ⟨_, hA1⟩ := insertAndRun_all s e seen hA hf hfe.2.2
    have : runAll s (e :: es) = runAll (s.insertAndRun e).1 es := rfl
    rw [this]
    exact ih (s.insertAndRun e).1 (seen ++ [e.id]) hA1 h1 (by simpa [List.append_assoc] using hnd)
      (fun e' he' => hfresh e' (List.mem_cons_of_mem _ he'))

theorem init_rminv (g : List Nat) : RMInv (St.init g) := by
  have hget : ∀ x, (St.init g).get x = none := by
    intro x; unfold St.get St.init; simp
  refine ⟨fun x hx => ?_, fun x sp op hx => ?_, fun x sp op t hx => ?_⟩
  · rw [parOf_none_of_get _ _ (hget x)] at hx; cases hx
  · rw [parOf_none_of_get _ _ (hget x)] at hx; cases hx
  · rw [parOf_none_of_get _ _ (hget x)] at hx; cases hx

/-- **rounds never decrease along the parent edges**, in every state a node started from genesis
    reaches by insertion attempts of fresh events: every stored event has a round, the parents it
    names are stored, and their rounds are at most its own -/
theorem round_parents (g : List Nat) (es : List Ev) (hnd : (es.map (·.id)).Nodup)
    (hfresh : ∀ e ∈ es, e.id ≠ "" ∧ e.round = none ∧ e.rr = none) (x : String) (e : Ev)
    (hx : (runAll (St.init g) es).get x = some e) :
    ∃ r, e.round = some r ∧
      (e.sp ≠ "" → ∃ p rp, (runAll (St.init g) es).get e.sp = some p ∧ p.round = some rp ∧ rp ≤ r) ∧
      (e.op ≠ "" → ∃ p rp, (runAll (St.init g) es).get e.op = some p ∧ p.round = some rp ∧ rp ≤ r) := by
  have hI := runAll_rminv (St.init g) es [] (init_all g) (init_rminv g) (by simpa using hnd) hfresh
  generalize runAll (St.init g) es = s at hI hx
  have hpx : s.parOf x = some (e.sp, e.op) := by unfold St.parOf; rw [hx]; rfl
  have hsome := hI.all x (by rw [hpx]; rfl)
  have hlx : s.roundOpt x = e.round := by unfold St.roundOpt; rw [hx]; rfl
  rw [hlx] at hsome
  obtain ⟨t, ht⟩ := Option.isSome_iff_exists.mp hsome
  have hin := hI.par x e.sp e.op hpx
  have hlt := hI.le x e.sp e.op t hpx (by rw [hlx]; exact ht)
  have aux : ∀ p : String, (s.parOf p).isSome → (∀ tp, s.roundOpt p = some tp → tp ≤ t) →
      ∃ q tp, s.get p = some q ∧ q.round = some tp ∧ tp ≤ t := by
    intro p hp hlt'
    rw [parOf_isSome] at hp
    obtain ⟨q, hq⟩ := Option.isSome_iff_exists.mp hp
    have hsq := hI.all p (by rw [parOf_isSome, hq]; rfl)
    have hlq : s.roundOpt p = q.round := by unfold St.roundOpt; rw [hq]; rfl
    rw [hlq] at hsq
    obtain ⟨tp, htp⟩ := Option.isSome_iff_exists.mp hsq
    exact ⟨q, tp, hq, htp, hlt' tp (by rw [hlq]; exact htp)⟩
  exact ⟨t, ht, fun h => aux e.sp (hin.1 h) (hlt.1 h), fun h => aux e.op (hin.2 h) (hlt.2 h)⟩

end Babble.HG
