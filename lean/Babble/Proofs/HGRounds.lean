import Babble.Proofs.HGBlocks
/-! # Round tables of the operational model: rounds are created contiguously, queued once, and
    processed in increasing order — hence the round received of delivered blocks strictly increases.
    For a node started from genesis (no fast-sync lower bound).  Core Lean only. -/
namespace Babble.HG

/-! ## getRound / setRound -/

theorem find_map_replace_same {β} (l : List (Int × β)) (r : Int) (v : β) :
    (l.map (fun p => if p.1 == r then (r, v) else p)).find? (fun p => p.1 == r) =
      if l.any (fun p => p.1 == r) then some (r, v) else none := by
  induction l with
  | nil => simp
  | cons p l ih =>
    simp only [List.map_cons, List.find?_cons, List.any_cons]
    by_cases hp : p.1 = r
    · have hpr : (p.1 == r) = true := by simpa using hp
      simp [hpr]
    · have hpr : (p.1 == r) = false := by simpa using hp
      simp only [hpr, Bool.false_eq_true, if_false, Bool.false_or]
      exact ih

theorem find_map_replace_other {β} (l : List (Int × β)) (r k : Int) (v : β) (hk : k ≠ r) :
    (l.map (fun p => if p.1 == r then (r, v) else p)).find? (fun p => p.1 == k) = l.find? (fun p => p.1 == k) := by
  induction l with
  | nil => simp
  | cons p l ih =>
    simp only [List.map_cons, List.find?_cons]
    by_cases hp : p.1 = r
    · have hpr : (p.1 == r) = true := by simpa using hp
      have h1 : (r == k) = false := by simpa using fun h => hk h.symm
      have h2 : (p.1 == k) = false := by rw [hp]; exact h1
      simp only [hpr, if_true, h1, h2]
      exact ih
    · have hpr : (p.1 == r) = false := by simpa using hp
      simp only [hpr, Bool.false_eq_true, if_false]
      rw [ih]

theorem getRound_setRound (s : St) (r k : Int) (ri : RoundInfo) :
    (s.setRound r ri).getRound k = if k = r then some ri else s.getRound k := by
  unfold St.setRound St.getRound
  simp only []
  by_cases hany : s.rounds.any (fun p => p.1 == r) = true
  · simp only [hany, if_true]
    by_cases hk : k = r
    · subst hk
      rw [find_map_replace_same]; simp [hany]
    · rw [find_map_replace_other _ _ _ _ hk]; simp [hk]
  · simp only [hany, Bool.false_eq_true, if_false]
    rw [List.find?_append]
    by_cases hk : k = r
    · subst hk
      have hnone : s.rounds.find? (fun p => p.1 == k) = none := by
        rw [List.find?_eq_none]
        intro p hp
        have : ¬ (s.rounds.any (fun p => p.1 == k) = true) := hany
        simp only [List.any_eq_true, not_exists, not_and] at this
        exact this p hp
      simp [hnone]
    · have h1 : (r == k) = false := by simpa using fun h => hk h.symm
      simp [hk, h1]

theorem lastRound_setRound (s : St) (r : Int) (ri : RoundInfo) :
    (s.setRound r ri).lastRound = if r > s.lastRound then r else s.lastRound := rfl

theorem setRound_pending (s : St) (r : Int) (ri : RoundInfo) : (s.setRound r ri).pending = s.pending := rfl
theorem setRound_events (s : St) (r : Int) (ri : RoundInfo) : (s.setRound r ri).events = s.events := rfl
theorem update_rounds (s : St) (id : String) (f : Ev → Ev) : (s.update id f).rounds = s.rounds := rfl
theorem update_getRound (s : St) (id : String) (f : Ev → Ev) (k : Int) : (s.update id f).getRound k = s.getRound k := rfl
theorem update_lastRound (s : St) (id : String) (f : Ev → Ev) : (s.update id f).lastRound = s.lastRound := rfl
theorem update_pending (s : St) (id : String) (f : Ev → Ev) : (s.update id f).pending = s.pending := rfl

/-! ## the invariant -/

def evRounds (s : St) : List (Option Int) := s.events.map (·.round)

structure RInv (s : St) : Prop where
  lb : s.lowerBound = none
  l0 : -1 ≤ s.lastRound
  cont : ∀ k, (s.getRound k).isSome ↔ (0 ≤ k ∧ k ≤ s.lastRound)
  evr : ∀ r, some r ∈ evRounds s → 0 ≤ r ∧ r ≤ s.lastRound
  p1 : s.pending.Pairwise (fun a b => a.1 < b.1)
  p4 : ∀ p ∈ s.pending, 0 ≤ p.1 ∧ p.1 ≤ s.lastRound
  p5 : ∀ r ri, s.getRound r = some ri → ri.decided = true ∨ ∃ d, (r, d) ∈ s.pending
  p6 : ∀ r, (r, true) ∈ s.pending → ∃ ri, s.getRound r = some ri ∧ ri.decided = true
  b1 : ∀ b ∈ s.blocks, 0 ≤ b.rr ∧ b.rr ≤ s.lastRound
  b2 : ∀ b ∈ s.blocks, ∀ p ∈ s.pending, b.rr < p.1
  b3 : s.blocks.Pairwise (fun a b => a.rr < b.rr)

/-- a step that changes neither the queue, the blocks, the set of rounds nor the rounds stored on
    events, and never clears a `decided` latch -/
structure Benign (s s' : St) : Prop where
  lb : s'.lowerBound = s.lowerBound
  lr : s'.lastRound = s.lastRound
  pend : s'.pending = s.pending
  blocks : s'.blocks = s.blocks
  evr : ∀ r, some r ∈ evRounds s' → some r ∈ evRounds s ∨ (0 ≤ r ∧ r ≤ s.lastRound)
  some_iff : ∀ k, (s'.getRound k).isSome ↔ (s.getRound k).isSome
  mono : ∀ k ri ri', s.getRound k = some ri → s'.getRound k = some ri' → ri.decided = true → ri'.decided = true

theorem Benign.refl (s : St) : Benign s s :=
  ⟨rfl, rfl, rfl, rfl, fun _ h => Or.inl h, fun _ => Iff.rfl, fun _ ri ri' h1 h2 hd => by rw [h1] at h2; injection h2 with h2; rw [← h2]; exact hd⟩

theorem Benign.trans {a b c : St} (h1 : Benign a b) (h2 : Benign b c) : Benign a c where
  lb := by rw [h2.lb, h1.lb]
  lr := by rw [h2.lr, h1.lr]
  pend := by rw [h2.pend, h1.pend]
  blocks := by rw [h2.blocks, h1.blocks]
  evr := fun r h => by
    rcases h2.evr r h with h | h
    · exact h1.evr r h
    · right; rw [← h1.lr]; exact h
  some_iff := fun k => (h2.some_iff k).trans (h1.some_iff k)
  mono := by
    intro k ri ri'' ha hc hd
    have hb : (b.getRound k).isSome := (h1.some_iff k).mpr (by rw [ha]; rfl)
    obtain ⟨rib, hrib⟩ := Option.isSome_iff_exists.mp hb
    exact h2.mono k rib ri'' hrib hc (h1.mono k ri rib ha hrib hd)

theorem Benign.inv {s s' : St} (h : Benign s s') (hI : RInv s) : RInv s' where
  lb := by rw [h.lb]; exact hI.lb
  l0 := by rw [h.lr]; exact hI.l0
  cont := fun k => by rw [h.some_iff k, h.lr]; exact hI.cont k
  evr := fun r hr => by
    rw [h.lr]
    rcases h.evr r hr with h1 | h1
    · exact hI.evr r h1
    · exact h1
  p1 := by rw [h.pend]; exact hI.p1
  p4 := by rw [h.pend, h.lr]; exact hI.p4
  p5 := by
    intro r ri' hr
    have hs : (s.getRound r).isSome := (h.some_iff r).mp (by rw [hr]; rfl)
    obtain ⟨ri, hri⟩ := Option.isSome_iff_exists.mp hs
    rcases hI.p5 r ri hri with hd | hp
    · left; exact h.mono r ri ri' hri hr hd
    · right; rw [h.pend]; exact hp
  p6 := by
    intro r hr
    rw [h.pend] at hr
    obtain ⟨ri, hri, hd⟩ := hI.p6 r hr
    have hs' : (s'.getRound r).isSome := (h.some_iff r).mpr (by rw [hri]; rfl)
    obtain ⟨ri', hri'⟩ := Option.isSome_iff_exists.mp hs'
    exact ⟨ri', hri', h.mono r ri ri' hri hri' hd⟩
  b1 := by rw [h.blocks, h.lr]; exact hI.b1
  b2 := by rw [h.blocks, h.pend]; exact hI.b2
  b3 := by rw [h.blocks]; exact hI.b3

/-- updating an event without touching its round -/
theorem Benign.update (s : St) (id : String) (f : Ev → Ev)
    (hf : ∀ e, (f e).round = e.round ∨ ∃ r, (f e).round = some r ∧ 0 ≤ r ∧ r ≤ s.lastRound) :
    Benign s (s.update id f) where
  lb := rfl
  lr := rfl
  pend := rfl
  blocks := rfl
  evr := by
    intro r hr
    simp only [evRounds, St.update, List.map_map, List.mem_map, Function.comp] at hr ⊢
    obtain ⟨e, he, hre⟩ := hr
    by_cases hid : (e.id == id) = true
    · simp only [hid, if_true] at hre
      rcases hf e with h | ⟨r', h, hb⟩
      · left; exact ⟨e, he, by rw [← h]; exact hre⟩
      · right; rw [h] at hre; injection hre with hre; rw [← hre]; exact hb
    · simp only [hid] at hre; left; exact ⟨e, he, hre⟩
  some_iff := fun _ => Iff.rfl
  mono := fun _ ri ri' h1 h2 hd => by
    have : s.getRound _ = some ri' := h2
    rw [h1] at this; injection this with this; rw [← this]; exact hd

/-- overwriting the info of an existing round without clearing its latch -/
theorem Benign.setRound (s : St) (r : Int) (ri0 ri : RoundInfo) (h0 : s.getRound r = some ri0)
    (hr : r ≤ s.lastRound) (hd : ri0.decided = true → ri.decided = true) : Benign s (s.setRound r ri) where
  lb := rfl
  lr := by rw [lastRound_setRound]; have : ¬ r > s.lastRound := by omega
           simp [this]
  pend := rfl
  blocks := rfl
  evr := fun _ h => Or.inl h
  some_iff := by
    intro k; rw [getRound_setRound]
    by_cases hk : k = r
    · subst hk; simp [h0]
    · simp [hk]
  mono := by
    intro k a b ha hb hda
    rw [getRound_setRound] at hb
    by_cases hk : k = r
    · subst hk
      simp only [if_true] at hb; injection hb with hb
      rw [h0] at ha; injection ha with ha
      rw [← hb]; exact hd (by rw [ha]; exact hda)
    · simp only [hk, if_false] at hb
      rw [ha] at hb; injection hb with hb; rw [← hb]; exact hda

theorem foldl_benign {α} (f : St → α → St) (h : ∀ s a, Benign s (f s a)) (l : List α) (s : St) :
    Benign s (l.foldl f s) := by
  induction l generalizing s with
  | nil => exact Benign.refl s
  | cons a l ih => simp only [List.foldl_cons]; exact (h s a).trans (ih _)

theorem foldl_benign_fst {α β} (f : St × β → α → St × β) (h : ∀ p a, Benign p.1 (f p a).1)
    (l : List α) (p : St × β) : Benign p.1 (l.foldl f p).1 := by
  induction l generalizing p with
  | nil => exact Benign.refl _
  | cons a l ih => simp only [List.foldl_cons]; exact (h p a).trans (ih _)

/-- changes to tables the invariant does not mention -/
theorem Benign.of_fields {s s' : St} (h1 : s'.lowerBound = s.lowerBound) (h2 : s'.lastRound = s.lastRound)
    (h3 : s'.pending = s.pending) (h4 : s'.blocks = s.blocks) (h5 : s'.events = s.events)
    (h6 : s'.rounds = s.rounds) : Benign s s' where
  lb := h1
  lr := h2
  pend := h3
  blocks := h4
  evr := fun r h => by left; unfold evRounds at h ⊢; rw [h5] at h; exact h
  some_iff := fun k => by unfold St.getRound; rw [h6]
  mono := fun k ri ri' ha hb hd => by
    unfold St.getRound at ha hb; rw [h6] at hb; rw [ha] at hb; injection hb with hb; rw [← hb]; exact hd

/-! ## InsertEvent -/

theorem fdWalk_benign (s : St) (fuel : Nat) (ah : String) (cr : Nat) (idx : Int) :
    Benign s (s.fdWalk fuel ah cr idx) := by
  induction fuel generalizing s ah with
  | zero => exact Benign.refl s
  | succ fuel ih =>
    unfold St.fdWalk
    split
    · exact Benign.refl s
    · split
      · exact Benign.refl s
      · simp only []
        have hb := Benign.update s ah (fun a => { a with fd := setAt a.fd cr (some idx) }) (fun _ => Or.inl rfl)
        split
        · exact hb
        · exact hb.trans (ih _ _)

theorem walkOne_benign (cr : Nat) (idx : Int) (s : St) (c : Option Coord) : Benign s (walkOne cr idx s c) := by
  unfold walkOne; split
  · exact fdWalk_benign _ _ _ _ _
  · exact Benign.refl s

theorem consEvent_benign (s : St) (e' : Ev) (he : e'.round = none) :
    Benign s { s with events := e' :: s.events } where
  lb := rfl
  lr := rfl
  pend := rfl
  blocks := rfl
  evr := by
    intro r hr
    simp only [evRounds, List.map_cons, List.mem_cons] at hr
    rcases hr with hr | hr
    · rw [he] at hr; cases hr
    · left; exact hr
  some_iff := fun _ => Iff.rfl
  mono := fun _ ri ri' h1 h2 hd => by
    have : s.getRound _ = some ri' := h2
    rw [h1] at this; injection this with this; rw [← this]; exact hd

theorem insert_benign (s : St) (e : Ev) (he : e.round = none) : Benign s (s.insert e) := by
  unfold St.insert St.insertCoords
  simp only []
  have h0 := consEvent_benign s { e with la := s.initLa e, fd := setAt [] e.creator (some e.index) } he
  have h1 := foldl_benign (walkOne e.creator e.index) (walkOne_benign e.creator e.index)
    (s.initLa e) { s with events := { e with la := s.initLa e, fd := setAt [] e.creator (some e.index) } :: s.events }
  exact (h0.trans h1).trans (Benign.of_fields rfl rfl rfl rfl rfl rfl)

/-! ## DivideRounds -/

theorem get_mem {s : St} {x : String} {e : Ev} (h : s.get x = some e) : e ∈ s.events := by
  unfold St.get at h
  split at h
  · cases h
  · exact List.mem_of_find?_eq_some h

theorem roundOf_bound {s : St} (hI : RInv s) (x : String) :
    s.roundOf x = -1 ∨ (0 ≤ s.roundOf x ∧ s.roundOf x ≤ s.lastRound) := by
  unfold St.roundOf
  cases hg : s.get x with
  | none => left; rfl
  | some e =>
    simp only []
    cases hr : e.round with
    | none => left; rfl
    | some r =>
      right
      have : some r ∈ evRounds s := by
        unfold evRounds; exact List.mem_map.mpr ⟨e, get_mem hg, hr⟩
      exact hI.evr r this

theorem parentRound_bound {s : St} (hI : RInv s) (e : Ev) :
    s.parentRound e = -1 ∨ (0 ≤ s.parentRound e ∧ s.parentRound e ≤ s.lastRound) := by
  have hsp : ∀ x : Int, x = (if e.sp == "" then (-1 : Int) else s.roundOf e.sp) → x = -1 ∨ (0 ≤ x ∧ x ≤ s.lastRound) := by
    intro x hx
    by_cases h : (e.sp == "") = true
    · left; rw [hx]; simp [h]
    · rw [hx]; simp only [h]; exact roundOf_bound hI e.sp
  unfold St.parentRound
  simp only []
  by_cases ho : (e.op == "") = true
  · simp only [ho, if_true]; exact hsp _ rfl
  · simp only [ho]
    by_cases hc : Gen.cmpRoundParent.eval (s.roundOf e.op) (if e.sp == "" then (-1 : Int) else s.roundOf e.sp) = true
    · simp only [hc, if_true]; exact roundOf_bound hI e.op
    · simp only [hc]; exact hsp _ rfl

theorem evRounds_update {s : St} {id : String} {f : Ev → Ev} {r' : Int}
    (h : some r' ∈ evRounds (s.update id f)) : ∃ e ∈ s.events, e.round = some r' ∨ (f e).round = some r' := by
  simp only [evRounds, St.update, List.map_map, List.mem_map, Function.comp] at h
  obtain ⟨e, he, hre⟩ := h
  refine ⟨e, he, ?_⟩
  by_cases hid : (e.id == id) = true
  · simp only [hid, if_true] at hre; right; exact hre
  · simp only [hid] at hre; left; exact hre

theorem computeRound_bound {s : St} (hI : RInv s) (e : Ev) :
    0 ≤ s.computeRound e ∧ s.computeRound e ≤ s.lastRound + 1 := by
  have hp := parentRound_bound hI e
  have hl := hI.l0
  unfold St.computeRound
  simp only []
  split
  · omega
  · rename_i hne
    have hne' : s.parentRound e ≠ -1 := by simpa using hne
    rcases hp with hp | hp
    · exact absurd hp hne'
    · split
      · omega
      · split <;> omega

theorem insertSorted_append (l : List (Int × Bool)) (x : Int × Bool) (h : ∀ p ∈ l, p.1 ≤ x.1) :
    insertSorted l x = l ++ [x] := by
  induction l with
  | nil => rfl
  | cons p t ih =>
    have hp : p.1 ≤ x.1 := h p List.mem_cons_self
    simp only [insertSorted, hp, if_true, List.cons_append]
    rw [ih (fun q hq => h q (List.mem_cons_of_mem p hq))]

theorem addCreated_decided (ri : RoundInfo) (id : String) (w : Bool) : (ri.addCreated id w).decided = ri.decided := by
  unfold RoundInfo.addCreated; split <;> rfl

theorem pending_any {l : List (Int × Bool)} {r : Int} {d : Bool} (h : (r, d) ∈ l) :
    l.any (fun p => p.1 == r) = true := by
  rw [List.any_eq_true]; exact ⟨(r, d), h, by simp⟩

theorem assignRound_inv {s : St} (hI : RInv s) (id : String) (ev : Ev) : RInv (s.assignRound id ev) := by
  have hb := computeRound_bound hI ev
  by_cases hle : s.computeRound ev ≤ s.lastRound
  · -- an existing round: nothing is queued
    obtain ⟨ri0, hri0⟩ := Option.isSome_iff_exists.mp ((hI.cont (s.computeRound ev)).mpr ⟨hb.1, hle⟩)
    have hq : s.queueRound (s.computeRound ev) ((s.getRound (s.computeRound ev)).getD {}) = s := by
      unfold St.queueRound
      rw [hri0]
      simp only [Option.getD_some]
      rcases hI.p5 _ ri0 hri0 with hd | ⟨d, hp⟩
      · simp [hd]
      · simp [pending_any hp]
    unfold St.assignRound
    simp only []
    rw [hq, hri0]
    simp only [Option.getD_some]
    have h1 := Benign.update s id (fun e => { e with round := some (s.computeRound ev) })
      (fun _ => Or.inr ⟨_, rfl, hb.1, hle⟩)
    have h2 := Benign.setRound (s.update id (fun e => { e with round := some (s.computeRound ev) })) (s.computeRound ev) ri0
      (ri0.addCreated id ((s.update id (fun e => { e with round := some (s.computeRound ev) })).computeWitness ev (s.computeRound ev)))
      hri0 hle (by rw [addCreated_decided]; exact fun h => h)
    have h3 := Benign.update ((s.update id (fun e => { e with round := some (s.computeRound ev) })).setRound (s.computeRound ev)
        (ri0.addCreated id ((s.update id (fun e => { e with round := some (s.computeRound ev) })).computeWitness ev (s.computeRound ev))))
      id (fun e => { e with wit := some ((s.update id (fun e => { e with round := some (s.computeRound ev) })).computeWitness ev (s.computeRound ev)) })
      (fun _ => Or.inl rfl)
    exact ((h1.trans h2).trans h3).inv hI
  · -- a new round: the successor of the last one; it is queued behind everything pending
    have hr : s.computeRound ev = s.lastRound + 1 := by omega
    have hnone : s.getRound (s.computeRound ev) = none := by
      cases hg : s.getRound (s.computeRound ev) with
      | none => rfl
      | some ri =>
        have := (hI.cont (s.computeRound ev)).mp (by rw [hg]; rfl)
        omega
    have hnp : s.pending.any (fun p => p.1 == s.computeRound ev) = false := by
      rw [Bool.eq_false_iff]; intro h
      rw [List.any_eq_true] at h
      obtain ⟨p, hp, he⟩ := h
      have := hI.p4 p hp
      have : p.1 = s.computeRound ev := by simpa using he
      omega
    have hq : (s.queueRound (s.computeRound ev) ((s.getRound (s.computeRound ev)).getD {})) =
        { s with pending := s.pending ++ [(s.computeRound ev, false)] } := by
      unfold St.queueRound St.aboveLB
      rw [hnone, hI.lb]
      simp only [Option.getD_none, hnp]
      have : insertSorted s.pending (s.computeRound ev, false) = s.pending ++ [(s.computeRound ev, false)] :=
        insertSorted_append _ _ (fun p hp => by have := hI.p4 p hp; show p.1 ≤ s.computeRound ev; omega)
      simp [this]
    unfold St.assignRound
    simp only []
    rw [hq, hnone]
    simp only [Option.getD_none]
    generalize hr' : s.computeRound ev = r at *
    -- the final state, field by field
    refine
      { lb := hI.lb, l0 := ?_, cont := ?_, evr := ?_, p1 := ?_, p4 := ?_, p5 := ?_, p6 := ?_, b1 := ?_, b2 := ?_, b3 := hI.b3 }
    · show -1 ≤ (if r > s.lastRound then r else s.lastRound); split <;> omega
    · intro k
      show ((St.setRound _ r _).getRound k).isSome ↔ 0 ≤ k ∧ k ≤ (if r > s.lastRound then r else s.lastRound)
      rw [getRound_setRound]
      have hlr : (if r > s.lastRound then r else s.lastRound) = r := by split <;> omega
      rw [hlr]
      by_cases hk : k = r
      · subst hk; simp; omega
      · simp only [hk, if_false]
        have := hI.cont k
        show (s.getRound k).isSome ↔ _
        rw [this]; omega
    · intro r' hr'
      show 0 ≤ r' ∧ r' ≤ (if r > s.lastRound then r else s.lastRound)
      have hlr : (if r > s.lastRound then r else s.lastRound) = r := by split <;> omega
      rw [hlr]
      obtain ⟨e1, he1, h1⟩ := evRounds_update hr'
      have h1' : e1.round = some r' := by rcases h1 with h | h <;> exact h
      have hmem : some r' ∈ evRounds (St.update { s with pending := s.pending ++ [(r, false)] } id (fun e => { e with round := some r })) := by
        unfold evRounds; exact List.mem_map.mpr ⟨e1, he1, h1'⟩
      obtain ⟨e0, he0, h0⟩ := evRounds_update hmem
      rcases h0 with h0 | h0
      · have := hI.evr r' (by unfold evRounds; exact List.mem_map.mpr ⟨e0, he0, h0⟩)
        omega
      · injection h0 with h0; omega
    · show (s.pending ++ [(r, false)]).Pairwise (fun a b => a.1 < b.1)
      rw [List.pairwise_append]
      refine ⟨hI.p1, by simp, ?_⟩
      intro a ha b hb'
      simp only [List.mem_singleton] at hb'
      rw [hb']
      have := hI.p4 a ha
      show a.1 < r; omega
    · intro p hp
      show 0 ≤ p.1 ∧ p.1 ≤ (if r > s.lastRound then r else s.lastRound)
      have hlr : (if r > s.lastRound then r else s.lastRound) = r := by split <;> omega
      rw [hlr]
      have hp' : p ∈ s.pending ++ [(r, false)] := hp
      rcases List.mem_append.mp hp' with h | h
      · have := hI.p4 p h; omega
      · simp only [List.mem_singleton] at h; rw [h]; show 0 ≤ r ∧ r ≤ r; omega
    · intro k ri hk
      have hk' : (St.setRound _ r _).getRound k = some ri := hk
      rw [getRound_setRound] at hk'
      by_cases hkr : k = r
      · right; exact ⟨false, by show (k, false) ∈ s.pending ++ [(r, false)]; rw [hkr]; simp⟩
      · simp only [hkr, if_false] at hk'
        have hk'' : s.getRound k = some ri := hk'
        rcases hI.p5 k ri hk'' with hd | ⟨d, hp⟩
        · left; exact hd
        · right; exact ⟨d, by show (k, d) ∈ s.pending ++ [(r, false)]; exact List.mem_append_left _ hp⟩
    · intro k hk
      have hk' : (k, true) ∈ s.pending ++ [(r, false)] := hk
      rcases List.mem_append.mp hk' with h | h
      · obtain ⟨ri, hri, hd⟩ := hI.p6 k h
        have hkr : k ≠ r := by have := hI.p4 _ h; intro he; simp only at this; omega
        refine ⟨ri, ?_, hd⟩
        show (St.setRound _ r _).getRound k = some ri
        rw [getRound_setRound]; simp only [hkr, if_false]; exact hri
      · simp at h
    · intro b hb'
      show 0 ≤ b.rr ∧ b.rr ≤ (if r > s.lastRound then r else s.lastRound)
      have := hI.b1 b hb'
      split <;> omega
    · intro b hb' p hp
      have hp' : p ∈ s.pending ++ [(r, false)] := hp
      rcases List.mem_append.mp hp' with h | h
      · exact hI.b2 b hb' p h
      · simp only [List.mem_singleton] at h; rw [h]
        have := hI.b1 b hb'
        show b.rr < r; omega

theorem foldl_inv {α} (f : St → α → St) (h : ∀ s a, RInv s → RInv (f s a)) (l : List α) (s : St) (hI : RInv s) :
    RInv (l.foldl f s) := by
  induction l generalizing s with
  | nil => exact hI
  | cons a l ih => simp only [List.foldl_cons]; exact ih _ (h s a hI)

theorem assignLamport_benign (s : St) (id : String) : Benign s (s.assignLamport id) := by
  unfold St.assignLamport
  split
  · exact Benign.refl s
  · exact Benign.update s id _ (fun _ => Or.inl rfl)

theorem divideOne_inv (s : St) (id : String) (hI : RInv s) : RInv (divideOne s id) := by
  unfold divideOne
  split
  · exact hI
  · rename_i ev _
    simp only []
    have h1 : RInv (if ev.round.isNone then s.assignRound id ev else s) := by
      split
      · exact assignRound_inv hI id ev
      · exact hI
    split
    · exact (assignLamport_benign _ id).inv h1
    · exact h1

theorem divideRounds_inv {s : St} (hI : RInv s) : RInv s.divideRounds :=
  foldl_inv divideOne divideOne_inv s.undet s hI

/-! ## DecideFame -/

theorem setFame_decided (ri : RoundInfo) (x : String) (f : Bool) : (ri.setFame x f).decided = ri.decided := by
  unfold RoundInfo.setFame; simp only []; split <;> rfl

theorem decideWitness_decided (st : St) (r : Int) (ri : RoundInfo) (x : String) :
    (st.decideWitness r ri x).decided = ri.decided := by
  unfold St.decideWitness
  split
  · rfl
  · split
    · exact setFame_decided _ _ _
    · rfl

theorem foldl_decideWitness_decided (st : St) (r : Int) (l : List String) (ri : RoundInfo) :
    (l.foldl (st.decideWitness r) ri).decided = ri.decided := by
  induction l generalizing ri with
  | nil => rfl
  | cons x l ih => simp only [List.foldl_cons]; rw [ih, decideWitness_decided]

theorem witnessesDecided_mono (ri : RoundInfo) (ps : List Nat) :
    (ri.decided = true → (ri.witnessesDecided ps).2.decided = true) ∧
    ((ri.witnessesDecided ps).1 = true → (ri.witnessesDecided ps).2.decided = true) := by
  unfold RoundInfo.witnessesDecided
  by_cases hd : ri.decided = true
  · simp [hd]
  · simp only [hd, Bool.false_eq_true, if_false]
    split
    · simp
    · simp

/-- rounds listed as decided by the running `DecideFame` pass have their latch set -/
def DecidedList (acc : St × List Int) : Prop :=
  ∀ r ∈ acc.2, ∃ ri, acc.1.getRound r = some ri ∧ ri.decided = true

theorem decideFameRound_inv (acc : St × List Int) (pr : Int × Bool) (hI : RInv acc.1) (hD : DecidedList acc) :
    RInv (decideFameRound acc pr).1 ∧ DecidedList (decideFameRound acc pr) := by
  unfold decideFameRound
  simp only []
  cases hg : acc.1.getRound pr.1 with
  | none => exact ⟨hI, hD⟩
  | some ri =>
    simp only []
    have hle : pr.1 ≤ acc.1.lastRound := ((hI.cont pr.1).mp (by rw [hg]; rfl)).2
    have hfold := foldl_decideWitness_decided acc.1 pr.1 ri.witnesses ri
    have hm := witnessesDecided_mono (ri.witnesses.foldl (acc.1.decideWitness pr.1) ri) (acc.1.peersAt pr.1)
    have hb := Benign.setRound acc.1 pr.1 ri
      ((ri.witnesses.foldl (acc.1.decideWitness pr.1) ri).witnessesDecided (acc.1.peersAt pr.1)).2 hg hle
      (fun hd => hm.1 (by rw [hfold]; exact hd))
    refine ⟨hb.inv hI, ?_⟩
    intro r hr
    show ∃ ri', (acc.1.setRound pr.1 _).getRound r = some ri' ∧ ri'.decided = true
    rw [getRound_setRound]
    by_cases hk : r = pr.1
    · simp only [hk, if_true]
      refine ⟨_, rfl, ?_⟩
      -- either it was already in the list (latch set before, kept), or it has just been decided
      by_cases hd : ((ri.witnesses.foldl (acc.1.decideWitness pr.1) ri).witnessesDecided (acc.1.peersAt pr.1)).1 = true
      · exact hm.2 hd
      · simp only [hd, Bool.false_eq_true, if_false] at hr
        obtain ⟨ri0, h0, hd0⟩ := hD r hr
        rw [hk, hg] at h0; injection h0 with h0
        exact hm.1 (by rw [hfold, h0]; exact hd0)
    · simp only [hk, if_false]
      have hr' : r ∈ acc.2 := by
        by_cases hd : ((ri.witnesses.foldl (acc.1.decideWitness pr.1) ri).witnessesDecided (acc.1.peersAt pr.1)).1 = true
        · simp only [hd, if_true, List.mem_append, List.mem_singleton] at hr
          rcases hr with h | h
          · exact h
          · exact absurd h hk
        · simp only [hd, Bool.false_eq_true, if_false] at hr; exact hr
      exact hD r hr'

theorem foldl_decideFameRound_inv (l : List (Int × Bool)) (acc : St × List Int) (hI : RInv acc.1) (hD : DecidedList acc) :
    RInv (l.foldl decideFameRound acc).1 ∧ DecidedList (l.foldl decideFameRound acc) := by
  induction l generalizing acc with
  | nil => exact ⟨hI, hD⟩
  | cons p l ih =>
    simp only [List.foldl_cons]
    have := decideFameRound_inv acc p hI hD
    exact ih _ this.1 this.2

theorem flag_mem {l : List (Int × Bool)} {dr : List Int} {k : Int} {d : Bool}
    (h : (k, d) ∈ l.map (fun p => if dr.contains p.1 then (p.1, true) else p)) :
    (∃ d', (k, d') ∈ l) ∧ (d = true → (k, true) ∈ l ∨ k ∈ dr) := by
  obtain ⟨p, hp, he⟩ := List.mem_map.mp h
  by_cases hc : dr.contains p.1 = true
  · simp only [hc, if_true] at he
    injection he with h1 h2
    refine ⟨⟨p.2, by rw [← h1]; exact hp⟩, fun _ => Or.inr ?_⟩
    rw [← h1]; exact List.contains_iff_mem.mp hc
  · simp only [hc] at he
    refine ⟨⟨d, by rw [← he]; exact hp⟩, fun hd => Or.inl ?_⟩
    rw [← hd, ← he]; exact hp

theorem mem_flag {l : List (Int × Bool)} {dr : List Int} {k : Int} {d : Bool} (h : (k, d) ∈ l) :
    ∃ d', (k, d') ∈ l.map (fun p => if dr.contains p.1 then (p.1, true) else p) := by
  by_cases hc : dr.contains k = true
  · exact ⟨true, List.mem_map.mpr ⟨(k, d), h, by simp only [hc, if_true]⟩⟩
  · exact ⟨d, List.mem_map.mpr ⟨(k, d), h, by simp only [hc]; rfl⟩⟩

theorem decideFame_inv {s : St} (hI : RInv s) : RInv s.decideFame := by
  unfold St.decideFame
  have h := foldl_decideFameRound_inv s.pending (s, []) hI (by intro r hr; simp at hr)
  generalize s.pending.foldl decideFameRound (s, []) = acc at h
  obtain ⟨s', dr⟩ := acc
  obtain ⟨hI', hD⟩ := h
  simp only [] at hI' hD ⊢
  have hkeys : ∀ p ∈ s'.pending.map (fun p => if dr.contains p.1 then (p.1, true) else p), ∃ q ∈ s'.pending, q.1 = p.1 := by
    intro p hp
    obtain ⟨q, hq, he⟩ := List.mem_map.mp hp
    refine ⟨q, hq, ?_⟩
    by_cases hc : dr.contains q.1 = true
    · simp only [hc, if_true] at he; rw [← he]
    · simp only [hc] at he
      have : q = p := he
      rw [this]
  refine
    { lb := hI'.lb, l0 := hI'.l0, cont := hI'.cont, evr := hI'.evr, p1 := ?_, p4 := ?_, p5 := ?_, p6 := ?_,
      b1 := hI'.b1, b2 := ?_, b3 := hI'.b3 }
  · show (s'.pending.map (fun p => if dr.contains p.1 then (p.1, true) else p)).Pairwise (fun a b => a.1 < b.1)
    rw [List.pairwise_map]
    refine hI'.p1.imp ?_
    intro a b hab
    have ha : (if dr.contains a.1 then (a.1, true) else a).1 = a.1 := by split <;> rfl
    have hb : (if dr.contains b.1 then (b.1, true) else b).1 = b.1 := by split <;> rfl
    rw [ha, hb]; exact hab
  · intro p hp
    obtain ⟨q, hq, he⟩ := hkeys p hp
    rw [← he]; exact hI'.p4 q hq
  · intro r ri hr
    rcases hI'.p5 r ri hr with hd | ⟨d, hp⟩
    · left; exact hd
    · right; exact mem_flag hp
  · intro r hr
    rcases (flag_mem hr).2 rfl with h | h
    · exact hI'.p6 r h
    · exact hD r h
  · intro b hb p hp
    obtain ⟨q, hq, he⟩ := hkeys p hp
    rw [← he]; exact hI'.b2 b hb q hq

/-! ## DecideRoundReceived -/

theorem rrLoop_benign (s : St) (x : String) (fuel : Nat) (i : Int) : Benign s (s.rrLoop x fuel i).1 := by
  induction fuel generalizing s i with
  | zero => exact Benign.refl s
  | succ fuel ih =>
    unfold St.rrLoop
    by_cases hgt : i > s.lastRound
    · simp only [hgt, if_true]; exact Benign.refl s
    · simp only [hgt, if_false]
      cases hg : s.getRound i with
      | none =>
        simp only []
        split
        · exact Benign.refl s
        · split
          · exact Benign.refl s
          · exact ih _ _
      | some tr =>
        simp only []
        have hm := witnessesDecided_mono tr (s.peersAt i)
        have hb1 : Benign s (s.setRound i (tr.witnessesDecided (s.peersAt i)).2) :=
          Benign.setRound s i tr _ hg (by omega) hm.1
        by_cases hd : (tr.witnessesDecided (s.peersAt i)).1 = true
        · simp only [hd, Bool.not_true, Bool.false_eq_true, if_false]
          split
          · -- received: the event gets its round received, the round lists it
            have hb2 := Benign.update (s.setRound i (tr.witnessesDecided (s.peersAt i)).2) x
              (fun e => { e with rr := some i }) (fun _ => Or.inl rfl)
            have hg2 : ((s.setRound i (tr.witnessesDecided (s.peersAt i)).2).update x (fun e => { e with rr := some i })).getRound i =
                some (tr.witnessesDecided (s.peersAt i)).2 := by
              rw [update_getRound, getRound_setRound]; simp
            have hlr2 : i ≤ ((s.setRound i (tr.witnessesDecided (s.peersAt i)).2).update x (fun e => { e with rr := some i })).lastRound := by
              rw [update_lastRound, lastRound_setRound]; split <;> omega
            have hb3 := Benign.setRound _ i _ { (tr.witnessesDecided (s.peersAt i)).2 with
                received := (tr.witnessesDecided (s.peersAt i)).2.received ++ [x] } hg2 hlr2 (fun h => h)
            exact (hb1.trans hb2).trans hb3
          · exact hb1.trans (ih _ _)
        · simp only [hd, Bool.not_false, if_true]
          split
          · exact hb1
          · split
            · exact hb1
            · exact hb1.trans (ih _ _)

theorem receiveOne_benign (p : St × List String) (x : String) : Benign p.1 (receiveOne p x).1 := by
  unfold receiveOne
  simp only []
  exact rrLoop_benign _ _ _ _

theorem decideRoundReceived_benign (s : St) : Benign s s.decideRoundReceived := by
  unfold St.decideRoundReceived
  have := foldl_benign_fst receiveOne receiveOne_benign s.undet (s, [])
  revert this
  generalize s.undet.foldl receiveOne (s, []) = p
  intro h
  exact h.trans (Benign.of_fields rfl rfl rfl rfl rfl rfl)

/-! ## ProcessDecidedRounds -/

/-- the tables the invariant reads, except blocks and queue -/
def St.rin (s : St) := (s.rounds, s.lastRound, s.events, s.lowerBound)

theorem applyReceipts_rin (s : St) (rr : Int) (itxs : List (Bool × Nat)) :
    (s.applyReceipts rr itxs).rin = s.rin ∧ (s.applyReceipts rr itxs).pending = s.pending := by
  unfold St.applyReceipts
  split
  · exact ⟨rfl, rfl⟩
  · simp only []
    split <;> exact ⟨rfl, rfl⟩

theorem processOne_fields (s s' : St) (h : s.processOne = some s') :
    ∃ r rest, s.pending = (r, true) :: rest ∧ (s.getRound r).isSome ∧ s'.pending = rest ∧ s'.rin = s.rin ∧
      (s'.blocks = s.blocks ∨ ∃ b, s'.blocks = s.blocks ++ [b] ∧ b.rr = r) := by
  unfold St.processOne at h
  split at h
  · cases h
  · rename_i r d rest hp
    split at h
    · cases h
    · rename_i hd
      have hd' : d = true := by simpa using hd
      subst hd'
      split at h
      · cases h
      · rename_i ri hg
        simp only [] at h
        refine ⟨r, rest, hp, by rw [hg]; rfl, ?_⟩
        split at h
        · rename_i b hb
          injection h with h
          subst h
          have hbs := blockOf_spec _ _ _ _ _ hb
          have hab := addBlock_blocks (s.addFrame (s.getFrame r ri).1 (s.getFrame r ri).2) b
          have har := applyReceipts_rin { (s.addFrame (s.getFrame r ri).1 (s.getFrame r ri).2) with
            blocks := (s.addFrame (s.getFrame r ri).1 (s.getFrame r ri).2).blocks ++ [b],
            lastBlock := (s.addFrame (s.getFrame r ri).1 (s.getFrame r ri).2).lastBlock + 1 } b.rr b.itx
          refine ⟨rfl, ?_, Or.inr ⟨b, ?_, hbs.2⟩⟩
          · show (St.addBlock _ b).rin = s.rin
            unfold St.addBlock; rw [har.1]; rfl
          · show (St.addBlock _ b).blocks = s.blocks ++ [b]
            rw [hab.1]; rfl
        · injection h with h
          subst h
          exact ⟨rfl, rfl, Or.inl rfl⟩

theorem getRound_of_rin {s s' : St} (h : s'.rin = s.rin) (k : Int) : s'.getRound k = s.getRound k := by
  have : s'.rounds = s.rounds := congrArg (·.1) h
  unfold St.getRound; rw [this]

theorem processOne_rinv (s s' : St) (hI : RInv s) (h : s.processOne = some s') : RInv s' := by
  obtain ⟨r, rest, hp, hsome, hpend, hrin, hblk⟩ := processOne_fields s s' h
  have hlr : s'.lastRound = s.lastRound := congrArg (·.2.1) hrin
  have hev : s'.events = s.events := congrArg (·.2.2.1) hrin
  have hlb : s'.lowerBound = s.lowerBound := congrArg (·.2.2.2) hrin
  have hgr := getRound_of_rin hrin
  have hp1 := hI.p1
  rw [hp, List.pairwise_cons] at hp1
  have hmemrest : ∀ p ∈ rest, p ∈ s.pending := fun p hp' => by rw [hp]; exact List.mem_cons_of_mem _ hp'
  have hhead : (r, true) ∈ s.pending := by rw [hp]; exact List.mem_cons_self
  refine
    { lb := by rw [hlb]; exact hI.lb, l0 := by rw [hlr]; exact hI.l0,
      cont := fun k => by rw [hgr, hlr]; exact hI.cont k,
      evr := fun k hk => by rw [hlr]; unfold evRounds at hk; rw [hev] at hk; exact hI.evr k hk,
      p1 := by rw [hpend]; exact hp1.2,
      p4 := fun p hp' => by rw [hlr]; rw [hpend] at hp'; exact hI.p4 p (hmemrest p hp'),
      p5 := ?_, p6 := ?_, b1 := ?_, b2 := ?_, b3 := ?_ }
  · intro k ri hk
    rw [hgr] at hk
    rcases hI.p5 k ri hk with hd | ⟨d, hpd⟩
    · left; exact hd
    · rw [hp, List.mem_cons] at hpd
      rcases hpd with he | hin
      · -- the round just processed: its latch is set
        injection he with hk1 hk2
        obtain ⟨ri', hri', hd'⟩ := hI.p6 r hhead
        rw [hk1, hri'] at hk; injection hk with hk
        left; rw [← hk]; exact hd'
      · right; rw [hpend]; exact ⟨d, hin⟩
  · intro k hk
    rw [hpend] at hk
    obtain ⟨ri, hri, hd⟩ := hI.p6 k (hmemrest _ hk)
    exact ⟨ri, by rw [hgr]; exact hri, hd⟩
  · intro b hb
    rw [hlr]
    rcases hblk with hbl | ⟨b', hbl, hbr⟩
    · rw [hbl] at hb; exact hI.b1 b hb
    · rw [hbl, List.mem_append, List.mem_singleton] at hb
      rcases hb with hb | hb
      · exact hI.b1 b hb
      · rw [hb, hbr]; exact hI.p4 _ hhead
  · intro b hb p hp'
    rw [hpend] at hp'
    rcases hblk with hbl | ⟨b', hbl, hbr⟩
    · rw [hbl] at hb; exact hI.b2 b hb p (hmemrest p hp')
    · rw [hbl, List.mem_append, List.mem_singleton] at hb
      rcases hb with hb | hb
      · exact hI.b2 b hb p (hmemrest p hp')
      · rw [hb, hbr]; exact hp1.1 p hp'
  · rcases hblk with hbl | ⟨b', hbl, hbr⟩
    · rw [hbl]; exact hI.b3
    · rw [hbl, List.pairwise_append]
      refine ⟨hI.b3, by simp, ?_⟩
      intro a ha b hb
      simp only [List.mem_singleton] at hb
      rw [hb, hbr]
      exact hI.b2 a ha _ hhead

theorem processLoop_inv (fuel : Nat) (s : St) (hI : RInv s) : RInv (s.processLoop fuel) := by
  induction fuel generalizing s with
  | zero => exact hI
  | succ fuel ih =>
    unfold St.processLoop
    split
    · exact hI
    · rename_i s' h
      exact ih s' (processOne_rinv s s' hI h)

theorem runConsensus_inv {s : St} (hI : RInv s) : RInv s.runConsensus := by
  unfold St.runConsensus St.processDecidedRounds
  exact processLoop_inv _ _ ((decideRoundReceived_benign _).inv (decideFame_inv (divideRounds_inv hI)))

theorem insertAndRun_inv {s : St} (hI : RInv s) (e : Ev) (he : e.round = none) : RInv (s.insertAndRun e).1 := by
  unfold St.insertAndRun
  split
  · exact hI
  · exact runConsensus_inv ((insert_benign s e he).inv hI)

theorem runAll_inv (s : St) (es : List Ev) (hI : RInv s) (hes : ∀ e ∈ es, e.round = none) : RInv (runAll s es) := by
  unfold runAll
  induction es generalizing s with
  | nil => exact hI
  | cons e es ih =>
    simp only [List.foldl_cons]
    exact ih _ (insertAndRun_inv hI e (hes e List.mem_cons_self)) (fun e' he' => hes e' (List.mem_cons_of_mem _ he'))

theorem init_rinv (g : List Nat) : RInv (St.init g) where
  lb := rfl
  l0 := by show (-1 : Int) ≤ -1; omega
  cont := fun k => by
    show ((St.init g).getRound k).isSome ↔ 0 ≤ k ∧ k ≤ -1
    constructor
    · intro h; simp [St.getRound, St.init] at h
    · intro h; omega
  evr := fun r h => by simp [evRounds, St.init] at h
  p1 := by simp [St.init]
  p4 := fun p hp => by simp [St.init] at hp
  p5 := fun r ri h => by simp [St.getRound, St.init] at h
  p6 := fun r h => by simp [St.init] at h
  b1 := fun b hb => by simp [St.init] at hb
  b2 := fun b hb => by simp [St.init] at hb
  b3 := by simp [St.init]

/-- **the round received of delivered blocks strictly increases**, for every sequence of insertion
    attempts (admissible or not) of fresh events into a node started from genesis -/
theorem blocks_rr_increasing (g : List Nat) (es : List Ev) (hes : ∀ e ∈ es, e.round = none) :
    (runAll (St.init g) es).blocks.Pairwise (fun a b => a.rr < b.rr) :=
  (runAll_inv _ es (init_rinv g) hes).b3

end Babble.HG
