import Babble.Proofs.HGReceived
/-! # Assigned values are final: once an event has a round, a witness flag, a Lamport timestamp or a
    round received, later insertions and consensus passes never change it.
    For the operational model started from genesis.  Core Lean only. -/
namespace Babble.HG

theorem get_update (s : St) (id : String) (f : Ev → Ev) (hf : ∀ e, (f e).id = e.id) (x : String) :
    (s.update id f).get x = (s.get x).map (fun e => if e.id == id then f e else e) := by
  unfold St.get St.update
  simp only []
  split
  · rfl
  · rw [List.find?_map]
    congr 1
    have : ((fun e : Ev => e.id == x) ∘ fun e => if (e.id == id) = true then f e else e) = (fun e : Ev => e.id == x) := by
      funext e
      simp only [Function.comp]
      split <;> simp [hf]
    rw [this]

theorem get_of_events {s s' : St} (h : s'.events = s.events) (x : String) : s'.get x = s.get x := by
  unfold St.get; rw [h]

theorem queueRound_events (s : St) (r : Int) (ri : RoundInfo) : (s.queueRound r ri).events = s.events := by
  unfold St.queueRound; split <;> rfl

/-! ## round, witness flag, Lamport timestamp -/

/-- how a step may change the record of an event: a round (with its witness flag) and a Lamport
    timestamp that are set stay as they are; the round received is not touched -/
structure Keeps (s s' : St) : Prop where
  ev : ∀ x e, s.get x = some e → ∃ e', s'.get x = some e' ∧
        (e.round.isSome → e'.round = e.round ∧ e'.wit = e.wit) ∧ (e.lamport.isSome → e'.lamport = e.lamport) ∧
        e'.rr = e.rr
  /-- an event that was not there has no round received afterwards -/
  fresh : ∀ x, s.get x = none → ∀ e', s'.get x = some e' → e'.rr = none

theorem Keeps.refl (s : St) : Keeps s s :=
  ⟨fun _ e h => ⟨e, h, fun _ => ⟨rfl, rfl⟩, fun _ => rfl, rfl⟩, fun x h e' h' => by rw [h] at h'; cases h'⟩

theorem Keeps.trans {a b c : St} (h1 : Keeps a b) (h2 : Keeps b c) : Keeps a c := by
  refine ⟨fun x e hx => ?_, fun x hx e'' hc => ?_⟩
  · obtain ⟨e1, hg1, hr1, hl1, hrr1⟩ := h1.ev x e hx
    obtain ⟨e2, hg2, hr2, hl2, hrr2⟩ := h2.ev x e1 hg1
    refine ⟨e2, hg2, fun h => ?_, fun h => ?_, hrr2.trans hrr1⟩
    · have := hr1 h
      have h' : e1.round.isSome := by rw [this.1]; exact h
      exact ⟨(hr2 h').1.trans this.1, (hr2 h').2.trans this.2⟩
    · have := hl1 h
      have h' : e1.lamport.isSome := by rw [this]; exact h
      exact (hl2 h').trans this
  · cases hb : b.get x with
    | none => exact h2.fresh x hb e'' hc
    | some e' =>
      have h1' := h1.fresh x hx e' hb
      obtain ⟨e2, hg2, _, _, hrr2⟩ := h2.ev x e' hb
      rw [hc] at hg2; injection hg2 with hg2; subst hg2
      rw [hrr2]; exact h1'

/-- a step that maps every event record through `g` -/
theorem Keeps.of_map (s s' : St) (g : Ev → Ev) (hget : ∀ x, s'.get x = (s.get x).map g)
    (hg : ∀ x e, s.get x = some e →
      (e.round.isSome → (g e).round = e.round ∧ (g e).wit = e.wit) ∧ (e.lamport.isSome → (g e).lamport = e.lamport) ∧
      (g e).rr = e.rr) :
    Keeps s s' :=
  ⟨fun x e hx => ⟨g e, by rw [hget, hx]; rfl, (hg x e hx).1, (hg x e hx).2.1, (hg x e hx).2.2⟩,
   fun x hx e' he' => by rw [hget, hx] at he'; cases he'⟩

/-- an update of one event that respects what is already set -/
theorem Keeps.update (s : St) (id : String) (f : Ev → Ev) (hid : ∀ e, (f e).id = e.id)
    (hf : ∀ e, s.get id = some e →
      (e.round.isSome → (f e).round = e.round ∧ (f e).wit = e.wit) ∧ (e.lamport.isSome → (f e).lamport = e.lamport) ∧
      (f e).rr = e.rr) :
    Keeps s (s.update id f) := by
  apply Keeps.of_map s _ (fun e => if e.id == id then f e else e) (get_update s id f hid)
  intro x e hx
  have hxid := get_id hx
  by_cases hc : e.id = id
  · have hc' : (e.id == id) = true := by simpa using hc
    simp only [hc', if_true]
    exact hf e (by rw [← hc, hxid]; exact hx)
  · have hc' : (e.id == id) = false := by simpa using hc
    simp [hc']

theorem foldl_keeps {α} (f : St → α → St) (h : ∀ s a, Keeps s (f s a)) (l : List α) (s : St) : Keeps s (l.foldl f s) := by
  induction l generalizing s with
  | nil => exact Keeps.refl s
  | cons a l ih => exact (h s a).trans (ih _)

theorem foldl_keeps_fst {α β} (f : St × β → α → St × β) (h : ∀ p a, Keeps p.1 (f p a).1)
    (l : List α) (p : St × β) : Keeps p.1 (l.foldl f p).1 := by
  induction l generalizing p with
  | nil => exact Keeps.refl _
  | cons a l ih => exact (h p a).trans (ih _)

/-- a step that does not touch the events -/
theorem Keeps.of_events {s s' : St} (h : s'.events = s.events) : Keeps s s' :=
  ⟨fun x e hx => ⟨e, by rw [get_of_events h]; exact hx, fun _ => ⟨rfl, rfl⟩, fun _ => rfl, rfl⟩,
   fun x hx e' he' => by rw [get_of_events h, hx] at he'; cases he'⟩

/-! ### InsertEvent -/

theorem fdWalk_keeps (s : St) (fuel : Nat) (ah : String) (cr : Nat) (idx : Int) : Keeps s (s.fdWalk fuel ah cr idx) := by
  induction fuel generalizing s ah with
  | zero => exact Keeps.refl s
  | succ fuel ih =>
    unfold St.fdWalk
    split
    · exact Keeps.refl s
    · split
      · exact Keeps.refl s
      · simp only []
        have hu := Keeps.update s ah (fun a => { a with fd := setAt a.fd cr (some idx) }) (fun _ => rfl)
          (fun _ _ => ⟨fun _ => ⟨rfl, rfl⟩, fun _ => rfl, rfl⟩)
        split
        · exact hu
        · exact hu.trans (ih _ _)

theorem walkOne_keeps (cr : Nat) (idx : Int) (s : St) (c : Option Coord) : Keeps s (walkOne cr idx s c) := by
  unfold walkOne; split
  · exact fdWalk_keeps _ _ _ _ _
  · exact Keeps.refl s

theorem get_cons_ne (s : St) (e' : Ev) (x : String) (hne : e'.id ≠ x) :
    St.get { s with events := e' :: s.events } x = s.get x := by
  unfold St.get
  simp only []
  split
  · rfl
  · rw [List.find?_cons]
    have : (e'.id == x) = false := by simpa using hne
    rw [this]

theorem get_cons_eq (s : St) (e' : Ev) (hne : e'.id ≠ "") :
    St.get { s with events := e' :: s.events } e'.id = some e' := by
  unfold St.get
  simp only []
  have : (e'.id == "") = false := by simpa using hne
  rw [this]
  simp

theorem cons_keeps (s : St) (e' : Ev) (hf : s.get e'.id = none) (hrr : e'.rr = none) :
    Keeps s { s with events := e' :: s.events } := by
  refine ⟨fun x e hx => ⟨e, ?_, fun _ => ⟨rfl, rfl⟩, fun _ => rfl, rfl⟩, fun x hx e'' he'' => ?_⟩
  · have hne : e'.id ≠ x := fun h => by rw [h, hx] at hf; cases hf
    rw [get_cons_ne s e' x hne]; exact hx
  · by_cases hne : e'.id = x
    · subst hne
      by_cases hemp : e'.id = ""
      · unfold St.get at he''; simp [hemp] at he''
      · rw [get_cons_eq s e' hemp] at he''; injection he'' with he''; rw [← he'']; exact hrr
    · rw [get_cons_ne s e' x hne, hx] at he''; cases he''

theorem insert_keeps (s : St) (e : Ev) (hf : s.get e.id = none) (hrr : e.rr = none) : Keeps s (s.insert e) := by
  unfold St.insert St.insertCoords
  simp only []
  have h0 := cons_keeps s { e with la := s.initLa e, fd := setAt [] e.creator (some e.index) } hf hrr
  have h1 := foldl_keeps (walkOne e.creator e.index) (walkOne_keeps e.creator e.index)
    (s.initLa e) { s with events := { e with la := s.initLa e, fd := setAt [] e.creator (some e.index) } :: s.events }
  exact (h0.trans h1).trans (Keeps.of_events rfl)

/-! ### DivideRounds -/

theorem assignRound_get (s : St) (id : String) (ev : Ev) :
    ∃ r w, ∀ x, (s.assignRound id ev).get x =
      (s.get x).map (fun e => if e.id == id then { e with round := some r, wit := some w } else e) := by
  unfold St.assignRound
  simp only []
  refine ⟨s.computeRound ev, ((s.queueRound (s.computeRound ev) ((s.getRound (s.computeRound ev)).getD {})).update id
    (fun e => { e with round := some (s.computeRound ev) })).computeWitness ev (s.computeRound ev), fun x => ?_⟩
  rw [get_update, get_of_events (setRound_events _ _ _), get_update, get_of_events (queueRound_events _ _ _)]
  · cases s.get x with
    | none => rfl
    | some e =>
      simp only [Option.map_some]
      by_cases hc : e.id = id
      · have hc' : (e.id == id) = true := by simpa using hc
        simp [hc']
      · have hc' : (e.id == id) = false := by simpa using hc
        simp [hc']
  · intro e; rfl
  · intro e; rfl

theorem assignRound_keeps (s : St) (id : String) (ev : Ev) (hg : s.get id = some ev) (hr : ev.round = none) :
    Keeps s (s.assignRound id ev) := by
  obtain ⟨r, w, hget⟩ := assignRound_get s id ev
  apply Keeps.of_map s _ _ hget
  intro x e hx
  by_cases hc : e.id = id
  · have hc' : (e.id == id) = true := by simpa using hc
    have : e = ev := by
      have hxid := get_id hx
      rw [← hxid, hc, hg] at hx; injection hx with hx; exact hx.symm
    subst this
    simp [hc', hr]
  · have hc' : (e.id == id) = false := by simpa using hc
    simp [hc']

theorem assignLamport_keeps (s : St) (id : String) (hl : ∀ e, s.get id = some e → e.lamport = none) :
    Keeps s (s.assignLamport id) := by
  unfold St.assignLamport
  split
  · exact Keeps.refl s
  · rename_i ev1 hg
    refine Keeps.update s id (fun e => { e with lamport := some (s.computeLamport ev1) }) (fun _ => rfl) ?_
    intro e he
    have := hl e he
    simp [this]

theorem divideOne_keeps (s : St) (id : String) : Keeps s (divideOne s id) := by
  unfold divideOne
  split
  · exact Keeps.refl s
  · rename_i ev hg
    simp only []
    by_cases hr : ev.round.isNone = true
    · have hr' : ev.round = none := by simpa using hr
      have h1 := assignRound_keeps s id ev hg hr'
      simp only [hr, if_true]
      by_cases hl : ev.lamport.isNone = true
      · simp only [hl, if_true]
        refine h1.trans (assignLamport_keeps _ id ?_)
        intro e he
        obtain ⟨r, w, hget⟩ := assignRound_get s id ev
        rw [hget, hg] at he
        simp only [Option.map_some] at he
        injection he with he
        have hid : (ev.id == id) = true := by simpa using get_id hg
        rw [hid] at he
        simp only [if_true] at he
        rw [← he]
        simpa using hl
      · simp only [hl, Bool.false_eq_true, if_false]; exact h1
    · simp only [hr, Bool.false_eq_true, if_false]
      by_cases hl : ev.lamport.isNone = true
      · simp only [hl, if_true]
        refine assignLamport_keeps s id ?_
        intro e he
        rw [hg] at he; injection he with he; rw [← he]; simpa using hl
      · simp only [hl, Bool.false_eq_true, if_false]; exact Keeps.refl s

theorem divideRounds_keeps (s : St) : Keeps s s.divideRounds := foldl_keeps _ divideOne_keeps _ _

/-! ### DecideFame, ProcessDecidedRounds: the events are not touched -/

theorem decideFameRound_events (p : St × List Int) (pr : Int × Bool) : (decideFameRound p pr).1.events = p.1.events := by
  unfold decideFameRound
  simp only []
  split <;> rfl

theorem decideFame_keeps (s : St) : Keeps s s.decideFame := by
  unfold St.decideFame
  have := foldl_keeps_fst decideFameRound (fun p pr => Keeps.of_events (decideFameRound_events p pr)) s.pending (s, [])
  revert this
  generalize s.pending.foldl decideFameRound (s, []) = p
  intro h
  exact h.trans (Keeps.of_events rfl)

theorem processOne_keeps (s s' : St) (h : s.processOne = some s') : Keeps s s' := by
  obtain ⟨_, _, _, _, _, hrin, _⟩ := processOne_fields s s' h
  have : s'.events = s.events := congrArg (fun t => t.2.2.1) hrin
  exact Keeps.of_events this

theorem processLoop_keeps (fuel : Nat) (s : St) : Keeps s (s.processLoop fuel) := by
  induction fuel generalizing s with
  | zero => exact Keeps.refl s
  | succ fuel ih =>
    unfold St.processLoop
    cases h : s.processOne with
    | none => exact Keeps.refl s
    | some s' => exact (processOne_keeps s s' h).trans (ih s')

/-! ## the round received -/

/-- what is set stays: the statement of finality for one step -/
structure Final (s s' : St) : Prop where
  ev : ∀ x e, s.get x = some e → ∃ e', s'.get x = some e' ∧
        (e.round.isSome → e'.round = e.round ∧ e'.wit = e.wit) ∧ (e.lamport.isSome → e'.lamport = e.lamport) ∧
        (e.rr.isSome → e'.rr = e.rr)

theorem Keeps.final {s s' : St} (h : Keeps s s') : Final s s' :=
  ⟨fun x e hx => by obtain ⟨e', hg, h1, h2, h3⟩ := h.ev x e hx; exact ⟨e', hg, h1, h2, fun _ => h3⟩⟩

theorem Final.refl (s : St) : Final s s := (Keeps.refl s).final

theorem Final.trans {a b c : St} (h1 : Final a b) (h2 : Final b c) : Final a c := by
  refine ⟨fun x e hx => ?_⟩
  obtain ⟨e1, hg1, hr1, hl1, hrr1⟩ := h1.ev x e hx
  obtain ⟨e2, hg2, hr2, hl2, hrr2⟩ := h2.ev x e1 hg1
  refine ⟨e2, hg2, fun h => ?_, fun h => ?_, fun h => ?_⟩
  · have := hr1 h
    have h' : e1.round.isSome := by rw [this.1]; exact h
    exact ⟨(hr2 h').1.trans this.1, (hr2 h').2.trans this.2⟩
  · have := hl1 h
    have h' : e1.lamport.isSome := by rw [this]; exact h
    exact (hl2 h').trans this
  · have := hrr1 h
    have h' : e1.rr.isSome := by rw [this]; exact h
    exact (hrr2 h').trans this

/-- the search for the round received of `x` touches the record of `x` only, and only when it
    succeeds -/
theorem rrLoop_get (s : St) (x : String) (fuel : Nat) (i : Int) :
    (∀ y, y ≠ x → (s.rrLoop x fuel i).1.get y = s.get y) ∧
    ((s.rrLoop x fuel i).2 = false → ∀ y, (s.rrLoop x fuel i).1.get y = s.get y) ∧
    (∀ e, s.get x = some e → ∃ e', (s.rrLoop x fuel i).1.get x = some e' ∧
        e'.round = e.round ∧ e'.wit = e.wit ∧ e'.lamport = e.lamport) := by
  induction fuel generalizing s i with
  | zero => exact ⟨fun _ _ => rfl, fun _ _ => rfl, fun e he => ⟨e, he, rfl, rfl, rfl⟩⟩
  | succ fuel ih =>
    unfold St.rrLoop
    by_cases hgt : i > s.lastRound
    · rw [if_pos hgt]; exact ⟨fun _ _ => rfl, fun _ _ => rfl, fun e he => ⟨e, he, rfl, rfl, rfl⟩⟩
    · rw [if_neg hgt]
      cases hg : s.getRound i with
      | none =>
        simp only []
        split
        · exact ⟨fun _ _ => rfl, fun _ _ => rfl, fun e he => ⟨e, he, rfl, rfl, rfl⟩⟩
        · split
          · exact ⟨fun _ _ => rfl, fun _ _ => rfl, fun e he => ⟨e, he, rfl, rfl, rfl⟩⟩
          · exact ih _ _
      | some tr =>
        simp only []
        -- the table update does not touch the events
        have hsr : ∀ y, (s.setRound i (tr.witnessesDecided (s.peersAt i)).2).get y = s.get y :=
          fun y => get_of_events (setRound_events _ _ _) y
        have ih' := ih (s.setRound i (tr.witnessesDecided (s.peersAt i)).2) (i + 1)
        have lift : ∀ {q : St × Bool},
            ((∀ y, y ≠ x → q.1.get y = (s.setRound i (tr.witnessesDecided (s.peersAt i)).2).get y) ∧
             (q.2 = false → ∀ y, q.1.get y = (s.setRound i (tr.witnessesDecided (s.peersAt i)).2).get y) ∧
             (∀ e, (s.setRound i (tr.witnessesDecided (s.peersAt i)).2).get x = some e → ∃ e', q.1.get x = some e' ∧
                e'.round = e.round ∧ e'.wit = e.wit ∧ e'.lamport = e.lamport)) →
            ((∀ y, y ≠ x → q.1.get y = s.get y) ∧ (q.2 = false → ∀ y, q.1.get y = s.get y) ∧
             (∀ e, s.get x = some e → ∃ e', q.1.get x = some e' ∧
                e'.round = e.round ∧ e'.wit = e.wit ∧ e'.lamport = e.lamport)) := by
          intro q ⟨h1, h2, h3⟩
          exact ⟨fun y hy => (h1 y hy).trans (hsr y), fun hq y => (h2 hq y).trans (hsr y), fun e he => h3 e (by rw [hsr]; exact he)⟩
        have same : ((∀ y, y ≠ x → (s.setRound i (tr.witnessesDecided (s.peersAt i)).2).get y = s.get y) ∧
             (false = false → ∀ y, (s.setRound i (tr.witnessesDecided (s.peersAt i)).2).get y = s.get y) ∧
             (∀ e, s.get x = some e → ∃ e', (s.setRound i (tr.witnessesDecided (s.peersAt i)).2).get x = some e' ∧
                e'.round = e.round ∧ e'.wit = e.wit ∧ e'.lamport = e.lamport)) :=
          ⟨fun y _ => hsr y, fun _ y => hsr y, fun e he => ⟨e, by rw [hsr]; exact he, rfl, rfl, rfl⟩⟩
        by_cases hd : (tr.witnessesDecided (s.peersAt i)).1 = true
        · simp only [hd, Bool.not_true, Bool.false_eq_true, if_false]
          split
          · -- received: x gets its round received
            refine And.intro (fun y hy => ?_) (And.intro (fun hq => by cases hq) (fun e he => ?_))
            · show (St.setRound _ i _).get y = s.get y
              rw [get_of_events (setRound_events _ _ _), get_update _ x (fun e => { e with rr := some i }) (fun _ => rfl), hsr]
              cases hgy : s.get y with
              | none => rfl
              | some ey =>
                have hc : ¬ ey.id = x := by rw [get_id hgy]; exact hy
                simp [hc]
            · refine ⟨{ e with rr := some i }, ?_, rfl, rfl, rfl⟩
              show (St.setRound _ i _).get x = _
              rw [get_of_events (setRound_events _ _ _), get_update _ x (fun e => { e with rr := some i }) (fun _ => rfl), hsr, he]
              have hc : e.id = x := get_id he
              simp [hc]
          · exact lift ih'
        · simp only [hd, Bool.not_false, if_true]
          split
          · exact same
          · split
            · exact same
            · exact lift ih'

/-! ## undetermined events have no round received -/

def NInv (s : St) : Prop := ∀ x ∈ s.undet, ∀ e, s.get x = some e → e.rr = none

theorem Keeps.rr_none {s s' : St} (h : Keeps s s') (x : String) (hx : ∀ e, s.get x = some e → e.rr = none) :
    ∀ e', s'.get x = some e' → e'.rr = none := by
  intro e' he'
  cases hg : s.get x with
  | none => exact h.fresh x hg e' he'
  | some e =>
    obtain ⟨e2, hg2, _, _, hrr⟩ := h.ev x e hg
    rw [he'] at hg2; injection hg2 with hg2; subst hg2
    rw [hrr]; exact hx e hg

theorem Keeps.ninv {s s' : St} (h : Keeps s s') (hu : s'.undet = s.undet) (hI : NInv s) : NInv s' := by
  intro x hx
  rw [hu] at hx
  exact h.rr_none x (hI x hx)

theorem processOne_undet (s s' : St) (h : s.processOne = some s') : s'.undet = s.undet := by
  unfold St.processOne at h
  split at h
  · cases h
  · split at h
    · cases h
    · split at h
      · cases h
      · simp only [] at h
        split at h
        · injection h with h; subst h
          show (St.addBlock _ _).undet = s.undet
          unfold St.addBlock; rw [applyReceipts_undet]; rfl
        · injection h with h; subst h; rfl

theorem processLoop_undet (fuel : Nat) (s : St) : (s.processLoop fuel).undet = s.undet := by
  induction fuel generalizing s with
  | zero => rfl
  | succ fuel ih =>
    unfold St.processLoop
    cases h : s.processOne with
    | none => rfl
    | some s' => simp only []; rw [ih s', processOne_undet s s' h]

/-- the invariant in the middle of `DecideRoundReceived` -/
structure GInv (s0 st : St) (acc rest : List String) : Prop where
  nd : (acc ++ rest).Nodup
  none : ∀ y ∈ acc ++ rest, ∀ e, st.get y = some e → e.rr = none
  fin : Final s0 st

theorem receiveOne_ginv (s0 : St) (p : St × List String) (x : String) (rest : List String)
    (h : GInv s0 p.1 p.2 (x :: rest)) : GInv s0 (receiveOne p x).1 (receiveOne p x).2 rest := by
  unfold receiveOne
  simp only []
  obtain ⟨hne, hfalse, hx3⟩ := rrLoop_get p.1 x (p.1.lastRound - p.1.roundOf x + 1).toNat (p.1.roundOf x + 1)
  revert hne hfalse hx3
  generalize p.1.rrLoop x (p.1.lastRound - p.1.roundOf x + 1).toNat (p.1.roundOf x + 1) = q
  obtain ⟨q1, got⟩ := q
  intro hne hfalse hx3
  simp only [] at hne hfalse hx3 ⊢
  have hxnone : ∀ e, p.1.get x = some e → e.rr = none := h.none x (by simp)
  have hxnot : x ∉ p.2 ++ rest := by
    have := h.nd
    rw [List.nodup_append] at this
    intro hx
    rcases List.mem_append.mp hx with hx | hx
    · exact this.2.2 x hx x (List.mem_cons_self) rfl
    · exact (List.nodup_cons.mp this.2.1).1 hx
  have hfin : Final p.1 q1 := by
    refine ⟨fun y e hy => ?_⟩
    by_cases hyx : y = x
    · subst hyx
      obtain ⟨e', hg, h1, h2, h3⟩ := hx3 e hy
      exact ⟨e', hg, fun _ => ⟨h1, h2⟩, fun _ => h3, fun hs => by rw [hxnone e hy] at hs; cases hs⟩
    · exact ⟨e, by rw [hne y hyx]; exact hy, fun _ => ⟨rfl, rfl⟩, fun _ => rfl, fun _ => rfl⟩
  cases got with
  | false =>
    simp only [Bool.false_eq_true, if_false]
    refine ⟨by simpa using h.nd, fun y hy e he => ?_, h.fin.trans hfin⟩
    rw [hfalse rfl y] at he
    exact h.none y (by simpa using hy) e he
  | true =>
    simp only [if_true]
    have hnd : (p.2 ++ rest).Nodup := by
      have := h.nd
      rw [List.nodup_append] at this ⊢
      exact ⟨this.1, (List.nodup_cons.mp this.2.1).2, fun a ha b hb => this.2.2 a ha b (List.mem_cons_of_mem _ hb)⟩
    refine ⟨hnd, fun y hy e he => ?_, h.fin.trans hfin⟩
    have hyx : y ≠ x := fun hh => hxnot (hh ▸ hy)
    rw [hne y hyx] at he
    refine h.none y ?_ e he
    rcases List.mem_append.mp hy with hy | hy
    · exact List.mem_append.mpr (Or.inl hy)
    · exact List.mem_append.mpr (Or.inr (List.mem_cons_of_mem _ hy))

theorem foldl_receiveOne_ginv (s0 : St) (l : List String) (p : St × List String)
    (h : GInv s0 p.1 p.2 l) : GInv s0 (l.foldl receiveOne p).1 (l.foldl receiveOne p).2 [] := by
  induction l generalizing p with
  | nil => exact h
  | cons x l ih => exact ih _ (receiveOne_ginv s0 p x l h)

theorem decideRoundReceived_final (s : St) (hu : s.undet.Nodup) (hI : NInv s) :
    Final s s.decideRoundReceived ∧ NInv s.decideRoundReceived := by
  unfold St.decideRoundReceived
  have h0 : GInv s s [] s.undet := ⟨by simpa using hu, fun y hy => hI y (by simpa using hy), Final.refl s⟩
  have := foldl_receiveOne_ginv s s.undet (s, []) h0
  revert this
  generalize s.undet.foldl receiveOne (s, []) = p
  intro h
  refine ⟨⟨fun x e hx => h.fin.ev x e hx⟩, ?_⟩
  intro x hx e he
  exact h.none x (by simpa using hx) e he

/-! ## the ids of the stored events change only by insertion -/

def idsOf (s : St) : List String := s.events.map (·.id)

theorem ids_update (s : St) (id : String) (f : Ev → Ev) (hf : ∀ e, (f e).id = e.id) : idsOf (s.update id f) = idsOf s := by
  unfold idsOf St.update
  simp only [List.map_map]
  apply List.map_congr_left
  intro e _
  simp only [Function.comp]
  split
  · exact hf e
  · rfl

theorem ids_of_events {s s' : St} (h : s'.events = s.events) : idsOf s' = idsOf s := by unfold idsOf; rw [h]

theorem get_none_of_not_mem (s : St) (x : String) (h : x ∉ idsOf s) : s.get x = none := by
  unfold St.get
  split
  · rfl
  · rw [List.find?_eq_none]
    intro e he hc
    exact h (List.mem_map.mpr ⟨e, he, by simpa using hc⟩)

theorem foldl_ids {α} (f : St → α → St) (h : ∀ s a, idsOf (f s a) = idsOf s) (l : List α) (s : St) :
    idsOf (l.foldl f s) = idsOf s := by
  induction l generalizing s with
  | nil => rfl
  | cons a l ih => simp only [List.foldl_cons]; rw [ih, h]

theorem foldl_ids_fst {α β} (f : St × β → α → St × β) (h : ∀ p a, idsOf (f p a).1 = idsOf p.1) (l : List α) (p : St × β) :
    idsOf (l.foldl f p).1 = idsOf p.1 := by
  induction l generalizing p with
  | nil => rfl
  | cons a l ih => simp only [List.foldl_cons]; rw [ih, h]

theorem fdWalk_ids (s : St) (fuel : Nat) (ah : String) (cr : Nat) (idx : Int) : idsOf (s.fdWalk fuel ah cr idx) = idsOf s := by
  induction fuel generalizing s ah with
  | zero => rfl
  | succ fuel ih =>
    unfold St.fdWalk
    split
    · rfl
    · split
      · rfl
      · simp only []
        have hu := ids_update s ah (fun a => { a with fd := setAt a.fd cr (some idx) }) (fun _ => rfl)
        split
        · exact hu
        · rw [ih, hu]

theorem walkOne_ids (cr : Nat) (idx : Int) (s : St) (c : Option Coord) : idsOf (walkOne cr idx s c) = idsOf s := by
  unfold walkOne; split
  · exact fdWalk_ids _ _ _ _ _
  · rfl

theorem insert_ids (s : St) (e : Ev) : idsOf (s.insert e) = e.id :: idsOf s := by
  unfold St.insert St.insertCoords
  simp only []
  have h1 := foldl_ids (walkOne e.creator e.index) (walkOne_ids e.creator e.index)
    (s.initLa e) { s with events := { e with la := s.initLa e, fd := setAt [] e.creator (some e.index) } :: s.events }
  show idsOf (List.foldl (walkOne e.creator e.index) _ (s.initLa e)) = _
  rw [h1]; rfl

theorem assignRound_ids (s : St) (id : String) (ev : Ev) : idsOf (s.assignRound id ev) = idsOf s := by
  unfold St.assignRound
  simp only []
  rw [ids_update, ids_of_events (setRound_events _ _ _), ids_update, ids_of_events (queueRound_events _ _ _)]
  all_goals (intro e; rfl)

theorem assignLamport_ids (s : St) (id : String) : idsOf (s.assignLamport id) = idsOf s := by
  unfold St.assignLamport; split
  · rfl
  · rw [ids_update]; intro e; rfl

theorem divideOne_ids (s : St) (id : String) : idsOf (divideOne s id) = idsOf s := by
  unfold divideOne; split
  · rfl
  · simp only []
    split <;> split <;> simp only [assignLamport_ids, assignRound_ids]

theorem divideRounds_ids (s : St) : idsOf s.divideRounds = idsOf s := foldl_ids _ divideOne_ids _ _

theorem decideFame_ids (s : St) : idsOf s.decideFame = idsOf s := by
  unfold St.decideFame
  have := foldl_ids_fst decideFameRound (fun p pr => ids_of_events (decideFameRound_events p pr)) s.pending (s, [])
  revert this
  generalize s.pending.foldl decideFameRound (s, []) = p
  intro h
  exact h

theorem rrLoop_ids (s : St) (x : String) (fuel : Nat) (i : Int) : idsOf (s.rrLoop x fuel i).1 = idsOf s := by
  induction fuel generalizing s i with
  | zero => rfl
  | succ fuel ih =>
    unfold St.rrLoop
    by_cases hgt : i > s.lastRound
    · rw [if_pos hgt]
    · rw [if_neg hgt]
      cases hg : s.getRound i with
      | none =>
        simp only []
        split
        · rfl
        · split
          · rfl
          · exact ih _ _
      | some tr =>
        simp only []
        have hsr : idsOf (s.setRound i (tr.witnessesDecided (s.peersAt i)).2) = idsOf s := ids_of_events (setRound_events _ _ _)
        by_cases hd : (tr.witnessesDecided (s.peersAt i)).1 = true
        · simp only [hd, Bool.not_true, Bool.false_eq_true, if_false]
          split
          · show idsOf (St.setRound _ i _) = idsOf s
            rw [ids_of_events (setRound_events _ _ _), ids_update _ x (fun e => { e with rr := some i }) (fun _ => rfl), hsr]
          · rw [ih, hsr]
        · simp only [hd, Bool.not_false, if_true]
          split
          · exact hsr
          · split
            · exact hsr
            · rw [ih, hsr]

theorem receiveOne_ids (p : St × List String) (x : String) : idsOf (receiveOne p x).1 = idsOf p.1 := by
  unfold receiveOne
  simp only []
  exact rrLoop_ids _ _ _ _

theorem decideRoundReceived_ids (s : St) : idsOf s.decideRoundReceived = idsOf s := by
  unfold St.decideRoundReceived
  have := foldl_ids_fst receiveOne receiveOne_ids s.undet (s, [])
  revert this
  generalize s.undet.foldl receiveOne (s, []) = p
  intro h
  exact h

theorem processLoop_ids (fuel : Nat) (s : St) : idsOf (s.processLoop fuel) = idsOf s := by
  induction fuel generalizing s with
  | zero => rfl
  | succ fuel ih =>
    unfold St.processLoop
    cases h : s.processOne with
    | none => rfl
    | some s' =>
      simp only []
      rw [ih s']
      obtain ⟨_, _, _, _, _, hrin, _⟩ := processOne_fields s s' h
      exact ids_of_events (congrArg (fun t => t.2.2.1) hrin)

theorem runConsensus_ids (s : St) : idsOf s.runConsensus = idsOf s := by
  unfold St.runConsensus St.processDecidedRounds
  rw [processLoop_ids, decideRoundReceived_ids, decideFame_ids, divideRounds_ids]

/-! ## everything together -/

theorem runConsensus_final (s : St) (seen : List String) (hC : CInv s seen) (hI : NInv s) :
    Final s s.runConsensus ∧ NInv s.runConsensus := by
  unfold St.runConsensus St.processDecidedRounds
  have k1 := divideRounds_keeps s
  have q1 := divideRounds_quiet s
  have k2 := decideFame_keeps s.divideRounds
  have q2 := decideFame_quiet s.divideRounds
  have hI2 : NInv s.divideRounds.decideFame := k2.ninv q2.undet (k1.ninv q1.undet hI)
  have hC2 : CInv s.divideRounds.decideFame seen := q2.cinv (q1.cinv hC)
  obtain ⟨f3, hI3⟩ := decideRoundReceived_final _ hC2.u hI2
  have k4 := processLoop_keeps (s.divideRounds.decideFame.decideRoundReceived.pending.length + 1) s.divideRounds.decideFame.decideRoundReceived
  exact ⟨((k1.trans k2).final.trans f3).trans k4.final, k4.ninv (processLoop_undet _ _) hI3⟩

/-- the invariants carried along an insertion history -/
structure AllInv (s : St) (seen : List String) : Prop where
  c : CInv s seen
  n : NInv s
  ids : ∀ x ∈ idsOf s, x ∈ seen

theorem insertAndRun_all (s : St) (e : Ev) (seen : List String) (hA : AllInv s seen) (hf : e.id ∉ seen) (hrr : e.rr = none) :
    Final s (s.insertAndRun e).1 ∧ AllInv (s.insertAndRun e).1 (seen ++ [e.id]) := by
  unfold St.insertAndRun
  split
  · exact ⟨Final.refl s, ⟨hA.c.mono (fun x hx => List.mem_append.mpr (Or.inl hx)), hA.n,
      fun x hx => List.mem_append.mpr (Or.inl (hA.ids x hx))⟩⟩
  · have hget : s.get e.id = none := get_none_of_not_mem s e.id (fun h => hf (hA.ids _ h))
    have k0 := insert_keeps s e hget hrr
    have hc1 := insert_cinv s e seen hA.c hf
    have hn1 : NInv (s.insert e) := by
      intro x hx
      have hu : (s.insert e).undet = s.undet ++ [e.id] := by
        unfold St.insert; simp only []; rw [(insertCoords_quiet s e).undet]
      rw [hu] at hx
      rcases List.mem_append.mp hx with hx | hx
      · exact k0.rr_none x (hA.n x hx)
      · have : x = e.id := by simpa using hx
        subst this
        exact k0.rr_none _ (fun e' he' => by rw [hget] at he'; cases he')
    obtain ⟨f1, hn2⟩ := runConsensus_final (s.insert e) (seen ++ [e.id]) hc1 hn1
    refine ⟨k0.final.trans f1, ⟨runConsensus_cinv _ _ hc1, hn2, ?_⟩⟩
    intro x hx
    rw [runConsensus_ids, insert_ids] at hx
    rcases List.mem_cons.mp hx with hx | hx
    · exact List.mem_append.mpr (Or.inr (by simp [hx]))
    · exact List.mem_append.mpr (Or.inl (hA.ids x hx))

theorem runAll_all (s : St) (es : List Ev) (seen : List String) (hA : AllInv s seen)
    (hnd : (seen ++ es.map (·.id)).Nodup) (hrr : ∀ e ∈ es, e.rr = none) :
    Final s (runAll s es) ∧ AllInv (runAll s es) (seen ++ es.map (·.id)) := by
  induction es generalizing s seen with
  | nil =>
    have : runAll s [] = s := rfl
    rw [this]
    exact ⟨Final.refl s, by simpa using hA⟩
  | cons e es ih =>
    have hf : e.id ∉ seen := by
      intro hm
      exact (List.nodup_append.mp hnd).2.2 e.id hm e.id (by simp) rfl
    obtain ⟨f1, hA1⟩ := insertAndRun_all s e seen hA hf (hrr e (by simp))
    obtain ⟨f2, hA2⟩ := ih (s.insertAndRun e).1 (seen ++ [e.id]) hA1 (by simpa [List.append_assoc] using hnd)
      (fun e' he' => hrr e' (List.mem_cons_of_mem _ he'))
    have : runAll s (e :: es) = runAll (s.insertAndRun e).1 es := rfl
    rw [this]
    exact ⟨f1.trans f2, by simpa [List.append_assoc] using hA2⟩

theorem init_all (g : List Nat) : AllInv (St.init g) [] where
  c := init_cinv g
  n := fun _ h => by cases h
  ids := fun _ h => by cases h

/-- **assigned values are final**: take any sequence of insertion attempts of fresh events (distinct
    ids, no round received yet) into a node started from genesis, and any continuation of it. Whatever
    round, witness flag, Lamport timestamp or round received an event has after the first part, it has
    after the continuation. -/
theorem values_final (g : List Nat) (es1 es2 : List Ev) (hnd : ((es1 ++ es2).map (·.id)).Nodup)
    (hrr : ∀ e ∈ es1 ++ es2, e.rr = none) (x : String) (e : Ev)
    (hx : (runAll (St.init g) es1).get x = some e) :
    ∃ e', (runAll (St.init g) (es1 ++ es2)).get x = some e' ∧
      (e.round.isSome → e'.round = e.round ∧ e'.wit = e.wit) ∧ (e.lamport.isSome → e'.lamport = e.lamport) ∧
      (e.rr.isSome → e'.rr = e.rr) := by
  rw [runAll_append]
  have hnd1 : (es1.map (·.id)).Nodup := by
    rw [List.map_append] at hnd; exact (List.nodup_append.mp hnd).1
  obtain ⟨_, hA1⟩ := runAll_all (St.init g) es1 [] (init_all g) (by simpa using hnd1)
    (fun e he => hrr e (List.mem_append.mpr (Or.inl he)))
  obtain ⟨f2, _⟩ := runAll_all (runAll (St.init g) es1) es2 ([] ++ es1.map (·.id)) hA1
    (by simpa [List.map_append] using hnd) (fun e he => hrr e (List.mem_append.mpr (Or.inr he)))
  exact f2.ev x e hx

end Babble.HG
