import Babble.Proofs.HGReceived
/-! # Assigned values are final: once an event has a round, a witness flag, a Lamport timestamp or a
    round received, later insertions and consensus passes never change it.
    For the operational model started from genesis.  Core Lean only. -/
namespace Babble.HG

theorem get_update (s : St) (id : String) (f : Ev → Ev) (hf : ∀ e, (f e).id = e.id) (x : String) :
    (s.update id f).get x = (s.get x).map (fun e => if e.id == id then f e else e) := by
  unfold St.get St.update
  simp only []
  split
  · rfl
  · rw [List.find?_map]
    congr 1
    have : ((fun e : Ev => e.id == x) ∘ fun e => if (e.id == id) = true then f e else e) = (fun e : Ev => e.id == x) := by
      funext e
      simp only [Function.comp]
      split <;> simp [hf]
    rw [this]

theorem get_of_events {s s' : St} (h : s'.events = s.events) (x : String) : s'.get x = s.get x := by
  unfold St.get; rw [h]

theorem queueRound_events (s : St) (r : Int) (ri : RoundInfo) : (s.queueRound r ri).events = s.events := by
  unfold St.queueRound; split <;> rfl

/-! ## round, witness flag, Lamport timestamp -/

/-- how a step may change the record of an event: a round (with its witness flag) and a Lamport
    timestamp that are set stay as they are; the round received is not touched -/
structure Keeps (s s' : St) : Prop where
  ev : ∀ x e, s.get x = some e → ∃ e', s'.get x = some e' ∧
        (e.round.isSome → e'.round = e.round ∧ e'.wit = e.wit) ∧ (e.lamport.isSome → e'.lamport = e.lamport) ∧
        e'.rr = e.rr

theorem Keeps.refl (s : St) : Keeps s s := ⟨fun _ e h => ⟨e, h, fun _ => ⟨rfl, rfl⟩, fun _ => rfl, rfl⟩⟩

theorem Keeps.trans {a b c : St} (h1 : Keeps a b) (h2 : Keeps b c) : Keeps a c := by
  refine ⟨fun x e hx => ?_⟩
  obtain ⟨e1, hg1, hr1, hl1, hrr1⟩ := h1.ev x e hx
  obtain ⟨e2, hg2, hr2, hl2, hrr2⟩ := h2.ev x e1 hg1
  refine ⟨e2, hg2, fun h => ?_, fun h => ?_, hrr2.trans hrr1⟩
  · have := hr1 h
    have h' : e1.round.isSome := by rw [this.1]; exact h
    exact ⟨(hr2 h').1.trans this.1, (hr2 h').2.trans this.2⟩
  · have := hl1 h
    have h' : e1.lamport.isSome := by rw [this]; exact h
    exact (hl2 h').trans this

/-- a step that maps every event record through `g` -/
theorem Keeps.of_map (s s' : St) (g : Ev → Ev) (hget : ∀ x, s'.get x = (s.get x).map g)
    (hg : ∀ x e, s.get x = some e →
      (e.round.isSome → (g e).round = e.round ∧ (g e).wit = e.wit) ∧ (e.lamport.isSome → (g e).lamport = e.lamport) ∧
      (g e).rr = e.rr) :
    Keeps s s' :=
  ⟨fun x e hx => ⟨g e, by rw [hget, hx]; rfl, (hg x e hx).1, (hg x e hx).2.1, (hg x e hx).2.2⟩⟩

/-- an update of one event that respects what is already set -/
theorem Keeps.update (s : St) (id : String) (f : Ev → Ev) (hid : ∀ e, (f e).id = e.id)
    (hf : ∀ e, s.get id = some e →
      (e.round.isSome → (f e).round = e.round ∧ (f e).wit = e.wit) ∧ (e.lamport.isSome → (f e).lamport = e.lamport) ∧
      (f e).rr = e.rr) :
    Keeps s (s.update id f) := by
  apply Keeps.of_map s _ (fun e => if e.id == id then f e else e) (get_update s id f hid)
  intro x e hx
  have hxid := get_id hx
  by_cases hc : e.id = id
  · have hc' : (e.id == id) = true := by simpa using hc
    simp only [hc', if_true]
    exact hf e (by rw [← hc, hxid]; exact hx)
  · have hc' : (e.id == id) = false := by simpa using hc
    simp [hc']

theorem foldl_keeps {α} (f : St → α → St) (h : ∀ s a, Keeps s (f s a)) (l : List α) (s : St) : Keeps s (l.foldl f s) := by
  induction l generalizing s with
  | nil => exact Keeps.refl s
  | cons a l ih => exact (h s a).trans (ih _)

theorem foldl_keeps_fst {α β} (f : St × β → α → St × β) (h : ∀ p a, Keeps p.1 (f p a).1)
    (l : List α) (p : St × β) : Keeps p.1 (l.foldl f p).1 := by
  induction l generalizing p with
  | nil => exact Keeps.refl _
  | cons a l ih => exact (h p a).trans (ih _)

/-- a step that does not touch the events -/
theorem Keeps.of_events {s s' : St} (h : s'.events = s.events) : Keeps s s' :=
  ⟨fun x e hx => ⟨e, by rw [get_of_events h]; exact hx, fun _ => ⟨rfl, rfl⟩, fun _ => rfl, rfl⟩⟩

/-! ### InsertEvent -/

theorem fdWalk_keeps (s : St) (fuel : Nat) (ah : String) (cr : Nat) (idx : Int) : Keeps s (s.fdWalk fuel ah cr idx) := by
  induction fuel generalizing s ah with
  | zero => exact Keeps.refl s
  | succ fuel ih =>
    unfold St.fdWalk
    split
    · exact Keeps.refl s
    · split
      · exact Keeps.refl s
      · simp only []
        have hu := Keeps.update s ah (fun a => { a with fd := setAt a.fd cr (some idx) }) (fun _ => rfl)
          (fun _ _ => ⟨fun _ => ⟨rfl, rfl⟩, fun _ => rfl, rfl⟩)
        split
        · exact hu
        · exact hu.trans (ih _ _)

theorem walkOne_keeps (cr : Nat) (idx : Int) (s : St) (c : Option Coord) : Keeps s (walkOne cr idx s c) := by
  unfold walkOne; split
  · exact fdWalk_keeps _ _ _ _ _
  · exact Keeps.refl s

theorem get_cons_ne (s : St) (e' : Ev) (x : String) (hne : e'.id ≠ x) :
    St.get { s with events := e' :: s.events } x = s.get x := by
  unfold St.get
  simp only []
  split
  · rfl
  · rw [List.find?_cons]
    have : (e'.id == x) = false := by simpa using hne
    rw [this]

theorem cons_keeps (s : St) (e' : Ev) (hf : s.get e'.id = none) : Keeps s { s with events := e' :: s.events } := by
  refine ⟨fun x e hx => ⟨e, ?_, fun _ => ⟨rfl, rfl⟩, fun _ => rfl, rfl⟩⟩
  have hne : e'.id ≠ x := fun h => by rw [h, hx] at hf; cases hf
  rw [get_cons_ne s e' x hne]; exact hx

theorem insert_keeps (s : St) (e : Ev) (hf : s.get e.id = none) : Keeps s (s.insert e) := by
  unfold St.insert St.insertCoords
  simp only []
  have h0 := cons_keeps s { e with la := s.initLa e, fd := setAt [] e.creator (some e.index) } hf
  have h1 := foldl_keeps (walkOne e.creator e.index) (walkOne_keeps e.creator e.index)
    (s.initLa e) { s with events := { e with la := s.initLa e, fd := setAt [] e.creator (some e.index) } :: s.events }
  exact (h0.trans h1).trans (Keeps.of_events rfl)

/-! ### DivideRounds -/

theorem assignRound_get (s : St) (id : String) (ev : Ev) :
    ∃ r w, ∀ x, (s.assignRound id ev).get x =
      (s.get x).map (fun e => if e.id == id then { e with round := some r, wit := some w } else e) := by
  unfold St.assignRound
  simp only []
  refine ⟨s.computeRound ev, ((s.queueRound (s.computeRound ev) ((s.getRound (s.computeRound ev)).getD {})).update id
    (fun e => { e with round := some (s.computeRound ev) })).computeWitness ev (s.computeRound ev), fun x => ?_⟩
  rw [get_update, get_of_events (setRound_events _ _ _), get_update, get_of_events (queueRound_events _ _ _)]
  · cases s.get x with
    | none => rfl
    | some e =>
      simp only [Option.map_some]
      by_cases hc : e.id = id
      · have hc' : (e.id == id) = true := by simpa using hc
        simp [hc']
      · have hc' : (e.id == id) = false := by simpa using hc
        simp [hc']
  · intro e; rfl
  · intro e; rfl

theorem assignRound_keeps (s : St) (id : String) (ev : Ev) (hg : s.get id = some ev) (hr : ev.round = none) :
    Keeps s (s.assignRound id ev) := by
  obtain ⟨r, w, hget⟩ := assignRound_get s id ev
  apply Keeps.of_map s _ _ hget
  intro x e hx
  by_cases hc : e.id = id
  · have hc' : (e.id == id) = true := by simpa using hc
    have : e = ev := by
      have hxid := get_id hx
      rw [← hxid, hc, hg] at hx; injection hx with hx; exact hx.symm
    subst this
    simp [hc', hr]
  · have hc' : (e.id == id) = false := by simpa using hc
    simp [hc']

theorem assignLamport_keeps (s : St) (id : String) (hl : ∀ e, s.get id = some e → e.lamport = none) :
    Keeps s (s.assignLamport id) := by
  unfold St.assignLamport
  split
  · exact Keeps.refl s
  · rename_i ev1 hg
    refine Keeps.update s id (fun e => { e with lamport := some (s.computeLamport ev1) }) (fun _ => rfl) ?_
    intro e he
    have := hl e he
    simp [this]

theorem divideOne_keeps (s : St) (id : String) : Keeps s (divideOne s id) := by
  unfold divideOne
  split
  · exact Keeps.refl s
  · rename_i ev hg
    simp only []
    by_cases hr : ev.round.isNone = true
    · have hr' : ev.round = none := by simpa using hr
      have h1 := assignRound_keeps s id ev hg hr'
      simp only [hr, if_true]
      by_cases hl : ev.lamport.isNone = true
      · simp only [hl, if_true]
        refine h1.trans (assignLamport_keeps _ id ?_)
        intro e he
        obtain ⟨r, w, hget⟩ := assignRound_get s id ev
        rw [hget, hg] at he
        simp only [Option.map_some] at he
        injection he with he
        have hid : (ev.id == id) = true := by simpa using get_id hg
        rw [hid] at he
        simp only [if_true] at he
        rw [← he]
        simpa using hl
      · simp only [hl, Bool.false_eq_true, if_false]; exact h1
    · simp only [hr, Bool.false_eq_true, if_false]
      by_cases hl : ev.lamport.isNone = true
      · simp only [hl, if_true]
        refine assignLamport_keeps s id ?_
        intro e he
        rw [hg] at he; injection he with he; rw [← he]; simpa using hl
      · simp only [hl, Bool.false_eq_true, if_false]; exact Keeps.refl s

theorem divideRounds_keeps (s : St) : Keeps s s.divideRounds := foldl_keeps _ divideOne_keeps _ _

end Babble.HG
