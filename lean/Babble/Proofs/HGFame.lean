import Babble.Proofs.HGFinal
/-! # Fame decisions are final: once a witness is recorded famous or not famous in the table of its
    round, no later insertion or consensus pass changes that.  Operational model.  Core Lean only. -/
namespace Babble.HG

/-- `x` is recorded in `ri` as a witness whose fame was decided as `f` -/
def Decd (ri : RoundInfo) (x : String) (f : Fame) : Prop :=
  ∃ re ∈ ri.created, re.id = x ∧ re.witness = true ∧ re.fame = f ∧ f ≠ .undef

def RKeeps (ri ri' : RoundInfo) : Prop := ∀ x f, Decd ri x f → Decd ri' x f

theorem RKeeps.refl (ri : RoundInfo) : RKeeps ri ri := fun _ _ h => h
theorem RKeeps.trans {a b c : RoundInfo} (h1 : RKeeps a b) (h2 : RKeeps b c) : RKeeps a c := fun x f h => h2 x f (h1 x f h)

theorem RKeeps.of_created {ri ri' : RoundInfo} (h : ri'.created = ri.created) : RKeeps ri ri' := by
  intro x f ⟨re, hm, h1⟩; exact ⟨re, by rw [h]; exact hm, h1⟩

theorem addCreated_rkeeps (ri : RoundInfo) (id : String) (w : Bool) : RKeeps ri (ri.addCreated id w) := by
  unfold RoundInfo.addCreated
  split
  · exact RKeeps.refl ri
  · intro x f ⟨re, hm, h1⟩; exact ⟨re, List.mem_append.mpr (Or.inl hm), h1⟩

theorem setFame_rkeeps (ri : RoundInfo) (x : String) (v : Bool) (hnd : ri.isDecided x = false) :
    RKeeps ri (ri.setFame x v) := by
  intro y f ⟨re, hm, hid, hw, hf, hne⟩
  have hyx : re.id ≠ x := by
    intro hx
    have : ri.isDecided x = true := by
      unfold RoundInfo.isDecided
      rw [List.any_eq_true]
      refine ⟨re, hm, ?_⟩
      have hb : (re.fame != Fame.undef) = true := by
        rw [hf]; cases f
        · exact absurd rfl hne
        · rfl
        · rfl
      simp [hx, hw, hb]
    rw [hnd] at this; cases this
  unfold RoundInfo.setFame
  simp only []
  split
  · refine ⟨re, ?_, hid, hw, hf, hne⟩
    simp only []
    apply List.mem_map.mpr
    refine ⟨re, hm, ?_⟩
    have : (re.id == x) = false := by simpa using hyx
    simp [this]
  · exact ⟨re, List.mem_append.mpr (Or.inl hm), hid, hw, hf, hne⟩

theorem witnessesDecided_rkeeps (ri : RoundInfo) (ps : List Nat) : RKeeps ri (ri.witnessesDecided ps).2 := by
  apply RKeeps.of_created
  unfold RoundInfo.witnessesDecided
  split
  · rfl
  · split <;> rfl

theorem decideWitness_rkeeps (st : St) (r : Int) (ri : RoundInfo) (x : String) : RKeeps ri (st.decideWitness r ri x) := by
  unfold St.decideWitness
  by_cases hd : ri.isDecided x = true
  · simp only [hd, if_true]; exact RKeeps.refl ri
  · have hd' : ri.isDecided x = false := by simpa using hd
    simp only [hd', Bool.false_eq_true, if_false]
    split
    · exact setFame_rkeeps ri x _ hd'
    · exact RKeeps.refl ri

theorem foldl_decideWitness_rkeeps (st : St) (r : Int) (l : List String) (ri : RoundInfo) :
    RKeeps ri (l.foldl (st.decideWitness r) ri) := by
  induction l generalizing ri with
  | nil => exact RKeeps.refl ri
  | cons x l ih => exact (decideWitness_rkeeps st r ri x).trans (ih _)

/-! ## states -/

def FKeeps (s s' : St) : Prop :=
  ∀ r ri x f, s.getRound r = some ri → Decd ri x f → ∃ ri', s'.getRound r = some ri' ∧ Decd ri' x f

theorem FKeeps.refl (s : St) : FKeeps s s := fun _ ri _ _ h hd => ⟨ri, h, hd⟩
theorem FKeeps.trans {a b c : St} (h1 : FKeeps a b) (h2 : FKeeps b c) : FKeeps a c := by
  intro r ri x f hg hd
  obtain ⟨ri1, hg1, hd1⟩ := h1 r ri x f hg hd
  exact h2 r ri1 x f hg1 hd1

theorem FKeeps.of_rounds {s s' : St} (h : s'.rounds = s.rounds) : FKeeps s s' := by
  intro r ri x f hg hd
  exact ⟨ri, by unfold St.getRound at hg ⊢; rw [h]; exact hg, hd⟩

theorem FKeeps.setRound (s : St) (r : Int) (ri' : RoundInfo) (h : ∀ ri0, s.getRound r = some ri0 → RKeeps ri0 ri') :
    FKeeps s (s.setRound r ri') := by
  intro k ri x f hg hd
  rw [getRound_setRound]
  by_cases hk : k = r
  · subst hk
    simp only [if_true]
    exact ⟨ri', rfl, h ri hg x f hd⟩
  · simp only [hk, if_false]
    exact ⟨ri, hg, hd⟩

theorem foldl_fkeeps {α} (f : St → α → St) (h : ∀ s a, FKeeps s (f s a)) (l : List α) (s : St) : FKeeps s (l.foldl f s) := by
  induction l generalizing s with
  | nil => exact FKeeps.refl s
  | cons a l ih => exact (h s a).trans (ih _)

theorem foldl_fkeeps_fst {α β} (f : St × β → α → St × β) (h : ∀ p a, FKeeps p.1 (f p a).1) (l : List α) (p : St × β) :
    FKeeps p.1 (l.foldl f p).1 := by
  induction l generalizing p with
  | nil => exact FKeeps.refl _
  | cons a l ih => exact (h p a).trans (ih _)

theorem fdWalk_rounds (s : St) (fuel : Nat) (ah : String) (cr : Nat) (idx : Int) : (s.fdWalk fuel ah cr idx).rounds = s.rounds := by
  induction fuel generalizing s ah with
  | zero => rfl
  | succ fuel ih =>
    unfold St.fdWalk
    split
    · rfl
    · split
      · rfl
      · simp only []
        split
        · rfl
        · rw [ih]; rfl

theorem walkOne_rounds (cr : Nat) (idx : Int) (s : St) (c : Option Coord) : (walkOne cr idx s c).rounds = s.rounds := by
  unfold walkOne; split
  · exact fdWalk_rounds _ _ _ _ _
  · rfl

theorem foldl_rounds {α} (f : St → α → St) (h : ∀ s a, (f s a).rounds = s.rounds) (l : List α) (s : St) :
    (l.foldl f s).rounds = s.rounds := by
  induction l generalizing s with
  | nil => rfl
  | cons a l ih => simp only [List.foldl_cons]; rw [ih, h]

theorem insert_fkeeps (s : St) (e : Ev) : FKeeps s (s.insert e) := by
  apply FKeeps.of_rounds
  unfold St.insert St.insertCoords
  simp only []
  exact foldl_rounds _ (walkOne_rounds e.creator e.index) _ _

theorem queueRound_rounds (s : St) (r : Int) (ri : RoundInfo) : (s.queueRound r ri).rounds = s.rounds := by
  unfold St.queueRound; split <;> rfl

theorem assignRound_fkeeps (s : St) (id : String) (ev : Ev) : FKeeps s (s.assignRound id ev) := by
  unfold St.assignRound
  simp only []
  have h1 : FKeeps s ((s.queueRound (s.computeRound ev) ((s.getRound (s.computeRound ev)).getD {})).update id
      (fun e => { e with round := some (s.computeRound ev) })) :=
    FKeeps.of_rounds (by rw [update_rounds, queueRound_rounds])
  refine (h1.trans (FKeeps.setRound _ _ _ ?_)).trans (FKeeps.of_rounds (update_rounds _ _ _))
  intro ri0 hg
  have hg' : s.getRound (s.computeRound ev) = some ri0 := by
    unfold St.getRound at hg ⊢
    rw [update_rounds, queueRound_rounds] at hg
    exact hg
  rw [hg']
  exact addCreated_rkeeps ri0 id _

theorem assignLamport_fkeeps (s : St) (id : String) : FKeeps s (s.assignLamport id) := by
  unfold St.assignLamport; split
  · exact FKeeps.refl s
  · exact FKeeps.of_rounds (update_rounds _ _ _)

theorem divideOne_fkeeps (s : St) (id : String) : FKeeps s (divideOne s id) := by
  unfold divideOne; split
  · exact FKeeps.refl s
  · simp only []
    split <;> split <;> first
      | exact (assignRound_fkeeps _ _ _).trans (assignLamport_fkeeps _ _)
      | exact assignRound_fkeeps _ _ _
      | exact assignLamport_fkeeps _ _
      | exact FKeeps.refl s

theorem divideRounds_fkeeps (s : St) : FKeeps s s.divideRounds := foldl_fkeeps _ divideOne_fkeeps _ _

theorem decideFameRound_fkeeps (p : St × List Int) (pr : Int × Bool) : FKeeps p.1 (decideFameRound p pr).1 := by
  unfold decideFameRound
  simp only []
  split
  · exact FKeeps.refl _
  · rename_i ri hg
    apply FKeeps.setRound
    intro ri0 hg0
    rw [hg] at hg0; injection hg0 with hg0; subst hg0
    exact (foldl_decideWitness_rkeeps p.1 pr.1 _ ri).trans (witnessesDecided_rkeeps _ _)

theorem decideFame_fkeeps (s : St) : FKeeps s s.decideFame := by
  unfold St.decideFame
  have := foldl_fkeeps_fst decideFameRound decideFameRound_fkeeps s.pending (s, [])
  revert this
  generalize s.pending.foldl decideFameRound (s, []) = p
  intro h
  exact h.trans (FKeeps.of_rounds rfl)

theorem rrLoop_fkeeps (s : St) (x : String) (fuel : Nat) (i : Int) : FKeeps s (s.rrLoop x fuel i).1 := by
  induction fuel generalizing s i with
  | zero => exact FKeeps.refl s
  | succ fuel ih =>
    unfold St.rrLoop
    by_cases hgt : i > s.lastRound
    · rw [if_pos hgt]; exact FKeeps.refl s
    · rw [if_neg hgt]
      cases hg : s.getRound i with
      | none =>
        simp only []
        split
        · exact FKeeps.refl s
        · split
          · exact FKeeps.refl s
          · exact ih _ _
      | some tr =>
        simp only []
        have hq1 : FKeeps s (s.setRound i (tr.witnessesDecided (s.peersAt i)).2) :=
          FKeeps.setRound s i _ (fun ri0 h0 => by rw [hg] at h0; injection h0 with h0; subst h0; exact witnessesDecided_rkeeps _ _)
        by_cases hd : (tr.witnessesDecided (s.peersAt i)).1 = true
        · simp only [hd, Bool.not_true, Bool.false_eq_true, if_false]
          split
          · refine (hq1.trans (FKeeps.of_rounds (update_rounds _ _ _))).trans (FKeeps.setRound _ _ _ ?_)
            intro ri0 h0
            rw [update_getRound, getRound_setRound] at h0
            simp only [if_true] at h0
            injection h0 with h0; subst h0
            exact RKeeps.of_created rfl
          · exact hq1.trans (ih _ _)
        · simp only [hd, Bool.not_false, if_true]
          split
          · exact hq1
          · split
            · exact hq1
            · exact hq1.trans (ih _ _)

theorem decideRoundReceived_fkeeps (s : St) : FKeeps s s.decideRoundReceived := by
  unfold St.decideRoundReceived
  have := foldl_fkeeps_fst receiveOne (fun p x => by unfold receiveOne; simp only []; exact rrLoop_fkeeps _ _ _ _) s.undet (s, [])
  revert this
  generalize s.undet.foldl receiveOne (s, []) = p
  intro h
  exact h.trans (FKeeps.of_rounds rfl)

theorem processLoop_fkeeps (fuel : Nat) (s : St) : FKeeps s (s.processLoop fuel) := by
  induction fuel generalizing s with
  | zero => exact FKeeps.refl s
  | succ fuel ih =>
    unfold St.processLoop
    cases h : s.processOne with
    | none => exact FKeeps.refl s
    | some s' =>
      obtain ⟨_, _, _, _, _, hrin, _⟩ := processOne_fields s s' h
      exact (FKeeps.of_rounds (congrArg (·.1) hrin)).trans (ih s')

theorem runConsensus_fkeeps (s : St) : FKeeps s s.runConsensus := by
  unfold St.runConsensus St.processDecidedRounds
  exact (((divideRounds_fkeeps s).trans (decideFame_fkeeps _)).trans (decideRoundReceived_fkeeps _)).trans (processLoop_fkeeps _ _)

theorem insertAndRun_fkeeps (s : St) (e : Ev) : FKeeps s (s.insertAndRun e).1 := by
  unfold St.insertAndRun
  split
  · exact FKeeps.refl s
  · exact (insert_fkeeps s e).trans (runConsensus_fkeeps _)

theorem runAll_fkeeps (s : St) (es : List Ev) : FKeeps s (runAll s es) := by
  induction es generalizing s with
  | nil => exact FKeeps.refl s
  | cons e es ih => exact (insertAndRun_fkeeps s e).trans (ih _)

/-- **fame decisions are final**: a witness recorded as famous (or not famous) in the table of its
    round at some moment of an insertion history is recorded the same way after every continuation. -/
theorem fame_final (s : St) (es : List Ev) (r : Int) (ri : RoundInfo) (x : String) (f : Fame)
    (hg : s.getRound r = some ri) (hd : Decd ri x f) :
    ∃ ri', (runAll s es).getRound r = some ri' ∧ Decd ri' x f :=
  runAll_fkeeps s es r ri x f hg hd

end Babble.HG
