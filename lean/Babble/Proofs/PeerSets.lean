import Babble.Model.PeerSets
/-! The validator-set table (`PeerSetCache` + `core.processAcceptedInternalTransactions`) is a
    replayable function of the committed blocks.  Core Lean only. -/
namespace Babble.HG

theorem insertPeerSet_append (tbl : List (Int × List Nat)) (e : Int) (v : List Nat)
    (h : ∀ x ∈ tbl, x.1 < e) : insertPeerSet tbl e v = tbl ++ [(e, v)] := by
  induction tbl with
  | nil => rfl
  | cons p t ih =>
    have hp := h p List.mem_cons_self
    unfold insertPeerSet
    have : p.1 ≤ e := by omega
    simp only [this, if_true, List.cons_append]
    rw [ih (fun x hx => h x (List.mem_cons_of_mem _ hx))]

theorem tblExact_append (tbl : List (Int × List Nat)) (e : Int) (v : List Nat) (r : Int)
    (hlt : ∀ x ∈ tbl, x.1 < e) :
    tblExact (tbl ++ [(e, v)]) r = if r = e then some v else tblExact tbl r := by
  unfold tblExact
  rw [List.find?_append]
  by_cases hre : r = e
  · subst hre
    have hnone : tbl.find? (·.1 == r) = none := by
      apply List.find?_eq_none.mpr
      intro x hx; have := hlt x hx; simp; omega
    simp [hnone]
  · simp only [hre, if_false]
    cases h : tbl.find? (·.1 == r) with
    | some y => rfl
    | none =>
      have : (e == r) = false := by simpa using fun h => hre h.symm
      simp [this]

theorem tblLatest_append (tbl : List (Int × List Nat)) (e : Int) (v : List Nat) (r : Int) :
    tblLatest (tbl ++ [(e, v)]) r = if e ≤ r then some v else tblLatest tbl r := by
  unfold tblLatest
  rw [List.filter_append]
  by_cases h : e ≤ r
  · simp [h, List.getLast?_append]
  · simp [h]

/-- lookup in a table extended at the top -/
theorem peersAt_append (tbl : List (Int × List Nat)) (e : Int) (v : List Nat) (r : Int)
    (f : Int × List Nat) (hhead : tbl.head? = some f) (hlt : ∀ x ∈ tbl, x.1 < e) (hfirst : f.1 ≤ r) :
    peersAtTbl (tbl ++ [(e, v)]) r = if e ≤ r then v else peersAtTbl tbl r := by
  have hh : (tbl ++ [(e, v)]).head? = some f := by
    cases tbl with
    | nil => simp at hhead
    | cons a t => simpa using hhead
  unfold peersAtTbl
  rw [tblExact_append _ _ _ _ hlt, tblLatest_append, hh, hhead]
  have hnf : ¬ r < f.1 := by omega
  by_cases her : e ≤ r
  · simp only [her, if_true]
    by_cases hre : r = e
    · simp [hre]
    · simp only [hre, if_false]
      cases hx : tblExact tbl r with
      | some y =>
        -- an older entry with round r ≥ e > every older round: impossible
        exfalso
        unfold tblExact at hx
        cases hf : tbl.find? (·.1 == r) with
        | none => simp [hf] at hx
        | some z =>
          have h1 := hlt z (List.mem_of_find?_eq_some hf)
          have h2 := List.find?_some hf
          simp at h2; omega
      | none => simp [hnf]
  · simp only [her, if_false]
    have hre : ¬ r = e := by omega
    simp only [hre, if_false]

/-- invariant of the table while blocks with strictly increasing round received are committed -/
structure TInv (genesis : List Nat) (bs : List PBlock) (p : List (Int × List Nat) × List Nat) : Prop where
  first : ∃ g, p.1.head? = some (0, g)
  rounds : ∀ x ∈ p.1, x.1 = 0 ∨ ∃ b ∈ bs, x.1 = Gen.effectiveRound b.1
  validators : p.2 = replayAll genesis bs
  lookup : ∀ r, 0 ≤ r → peersAtTbl p.1 r = replay genesis bs r

theorem replay_snoc (genesis : List Nat) (bs : List PBlock) (b : PBlock) (r : Int) :
    replay genesis (bs ++ [b]) r =
      if Gen.effectiveRound b.1 ≤ r then b.2.foldl applyItx (replay genesis bs r) else replay genesis bs r := by
  unfold replay
  rw [List.filter_append]
  by_cases h : Gen.effectiveRound b.1 ≤ r
  · simp [h, List.foldl_append]
  · simp [h]

theorem replay_eq_all (genesis : List Nat) (bs : List PBlock) (r : Int)
    (h : ∀ b ∈ bs, Gen.effectiveRound b.1 ≤ r) : replay genesis bs r = replayAll genesis bs := by
  unfold replay replayAll
  have : bs.filter (fun b => decide (Gen.effectiveRound b.1 ≤ r)) = bs := by
    apply List.filter_eq_self.mpr
    intro b hb; simpa using h b hb
  rw [this]

theorem replayAll_snoc (genesis : List Nat) (bs : List PBlock) (b : PBlock) :
    replayAll genesis (bs ++ [b]) = b.2.foldl applyItx (replayAll genesis bs) := by
  unfold replayAll; simp [List.foldl_append]


theorem tinv_init (genesis : List Nat) : TInv genesis [] ([(0, genesis)], genesis) := by
  refine ⟨⟨genesis, rfl⟩, ?_, rfl, ?_⟩
  · intro x hx; simp at hx; subst hx; exact Or.inl rfl
  · intro r hr
    unfold peersAtTbl tblExact tblLatest replay
    by_cases h0 : r = 0
    · subst h0; simp
    · have : ((0 : Int) == r) = false := by simpa using fun h => h0 h.symm
      have h2 : ¬ r < 0 := by omega
      simp [this, h2, hr]

theorem effectiveRound_lt {a b : Int} (h : a < b) : Gen.effectiveRound a < Gen.effectiveRound b := by
  unfold Gen.effectiveRound; omega

theorem effectiveRound_pos {a : Int} (h : 0 ≤ a) : 0 < Gen.effectiveRound a := by
  unfold Gen.effectiveRound; omega

/-- committing one more block (round received above all earlier ones) keeps the table equal to the replay -/
theorem tinv_step (genesis : List Nat) (bs : List PBlock) (p : List (Int × List Nat) × List Nat) (b : PBlock)
    (hI : TInv genesis bs p) (hnew : ∀ c ∈ bs, c.1 < b.1) (hpos : 0 ≤ b.1) :
    TInv genesis (bs ++ [b]) (tableStep p b) := by
  have heff : ∀ x ∈ p.1, x.1 < Gen.effectiveRound b.1 := by
    intro x hx
    rcases hI.rounds x hx with h | ⟨c, hc, h⟩
    · rw [h]; exact effectiveRound_pos hpos
    · rw [h]; exact effectiveRound_lt (hnew c hc)
  by_cases hemp : b.2.isEmpty = true
  · have hstep : tableStep p b = p := by unfold tableStep; simp [hemp]
    rw [hstep]
    have hb2 : b.2 = [] := by simpa using hemp
    refine ⟨hI.first, ?_, ?_, ?_⟩
    · intro x hx
      rcases hI.rounds x hx with h | ⟨c, hc, h⟩
      · exact Or.inl h
      · exact Or.inr ⟨c, List.mem_append_left _ hc, h⟩
    · rw [replayAll_snoc, hb2]; exact hI.validators
    · intro r hr
      rw [replay_snoc, hb2]
      simp only [List.foldl_nil, ite_self]
      exact hI.lookup r hr
  · have hany : (p.1.any (·.1 == Gen.effectiveRound b.1)) = false := by
      apply Bool.eq_false_iff.mpr
      intro h
      obtain ⟨x, hx, hxe⟩ := List.any_eq_true.mp h
      have := heff x hx
      simp at hxe; omega
    have hstep : tableStep p b =
        (p.1 ++ [(Gen.effectiveRound b.1, b.2.foldl applyItx p.2)], b.2.foldl applyItx p.2) := by
      unfold tableStep
      have hemp' : b.2.isEmpty = false := by simpa using hemp
      simp only [hemp', hany, Bool.false_eq_true, if_false]
      rw [insertPeerSet_append _ _ _ heff]
    rw [hstep]
    obtain ⟨g, hg⟩ := hI.first
    refine ⟨⟨g, ?_⟩, ?_, ?_, ?_⟩
    · cases hp : p.1 with
      | nil => rw [hp] at hg; simp at hg
      | cons a t => rw [hp] at hg; simpa using hg
    · intro x hx
      rcases List.mem_append.mp hx with hx | hx
      · rcases hI.rounds x hx with h | ⟨c, hc, h⟩
        · exact Or.inl h
        · exact Or.inr ⟨c, List.mem_append_left _ hc, h⟩
      · simp at hx; subst hx
        exact Or.inr ⟨b, by simp, rfl⟩
    · simp only []
      rw [replayAll_snoc, hI.validators]
    · intro r hr
      rw [peersAt_append p.1 _ _ r (0, g) hg heff hr, replay_snoc]
      by_cases her : Gen.effectiveRound b.1 ≤ r
      · simp only [her, if_true]
        rw [hI.validators, replay_eq_all]
        intro c hc
        have := effectiveRound_lt (hnew c hc)
        omega
      · simp only [her, if_false]
        exact hI.lookup r hr

/-- blocks in committed order with strictly increasing, non-negative round received (C02) -/
def Increasing : List PBlock → Prop
  | [] => True
  | b :: bs => 0 ≤ b.1 ∧ (∀ c ∈ bs, b.1 < c.1) ∧ Increasing bs

theorem tinv_fold (genesis : List Nat) (pre bs : List PBlock) (p : List (Int × List Nat) × List Nat)
    (hI : TInv genesis pre p) (hinc : Increasing bs) (hsep : ∀ c ∈ pre, ∀ b ∈ bs, c.1 < b.1) :
    TInv genesis (pre ++ bs) (bs.foldl tableStep p) := by
  induction bs generalizing pre p with
  | nil => simpa using hI
  | cons b bs ih =>
    obtain ⟨hpos, hlt, hrest⟩ := hinc
    have h1 := tinv_step genesis pre p b hI (fun c hc => hsep c hc b List.mem_cons_self) hpos
    have := ih (pre ++ [b]) (tableStep p b) h1 hrest (by
      intro c hc d hd
      rcases List.mem_append.mp hc with hc | hc
      · exact hsep c hc d (List.mem_cons_of_mem _ hd)
      · simp at hc; subst hc; exact hlt d hd)
    simpa [List.append_assoc] using this

end Babble.HG
