import Babble.Proofs.HGFinal
import Babble.Proofs.AttrOnly
import Babble.Proofs.HGOrder
/-! # Lamport timestamps increase along the parent edges — on the operational model
    For every sequence of insertion attempts of fresh events into a node started from genesis, in
    the state reached: every stored event has a Lamport timestamp, both parents it names are stored,
    and their timestamps are strictly smaller.  (The frame order sorts by Lamport timestamp first,
    so inside a block no event is committed before one of its ancestors.)  Core Lean only. -/
namespace Babble.HG

/-! ## what the invariant looks at: parent references and Lamport timestamps by id -/

def St.parOf (s : St) (x : String) : Option (String × String) := (s.get x).map (fun e => (e.sp, e.op))

theorem parOf_isSome (s : St) (x : String) : (s.parOf x).isSome = (s.get x).isSome := by
  unfold St.parOf; cases s.get x <;> rfl

theorem get_of_map (s s' : St) (g : Ev → Ev) (hg : ∀ e, (g e).id = e.id) (h : s'.events = s.events.map g) (x : String) :
    s'.get x = (s.get x).map g := by
  unfold St.get
  rw [h]
  split
  · rfl
  · rw [List.find?_map]
    congr 1
    have : ((fun e : Ev => e.id == x) ∘ g) = (fun e : Ev => e.id == x) := by
      funext e; simp [Function.comp, hg]
    rw [this]

theorem evCore_id {a b : Ev} (h : evCore a = evCore b) : a.id = b.id := by
  simp only [evCore, Prod.mk.injEq] at h; exact h.1
theorem evCore_sp {a b : Ev} (h : evCore a = evCore b) : a.sp = b.sp ∧ a.op = b.op := by
  simp only [evCore, Prod.mk.injEq] at h; exact ⟨h.2.2.2.1, h.2.2.2.2.1⟩

theorem AttrOnly.parOf {s s' : St} (h : AttrOnly s s') (x : String) : s'.parOf x = s.parOf x := by
  obtain ⟨g, hg, he⟩ := h
  unfold St.parOf
  rw [get_of_map s s' g (fun e => evCore_id (hg e)) he]
  cases s.get x with
  | none => rfl
  | some e => simp [(evCore_sp (hg e)).1, (evCore_sp (hg e)).2]

/-- every stored event has a Lamport timestamp -/
def LAll (s : St) : Prop := ∀ x, (s.parOf x).isSome → (s.lamportOf x).isSome
/-- the parents an event names are stored -/
def ParIn (s : St) : Prop := ∀ x sp op, s.parOf x = some (sp, op) →
  (sp ≠ "" → (s.parOf sp).isSome) ∧ (op ≠ "" → (s.parOf op).isSome)
/-- a timestamp is strictly above the timestamps of the parents -/
def PSet (s : St) : Prop := ∀ x sp op t, s.parOf x = some (sp, op) → s.lamportOf x = some t →
  (sp ≠ "" → ∀ tp, s.lamportOf sp = some tp → tp < t) ∧ (op ≠ "" → ∀ tp, s.lamportOf op = some tp → tp < t)

structure LInv (s : St) : Prop where
  all : LAll s
  par : ParIn s
  lt : PSet s

theorem LInv.congr {s s' : St} (hp : ∀ x, s'.parOf x = s.parOf x) (hl : ∀ x, s'.lamportOf x = s.lamportOf x)
    (h : LInv s) : LInv s' := by
  refine ⟨fun x hx => ?_, fun x sp op hx => ?_, fun x sp op t hx ht => ?_⟩
  · rw [hl]; rw [hp] at hx; exact h.all x hx
  · rw [hp] at hx; simp only [hp]; exact h.par x sp op hx
  · rw [hp] at hx; rw [hl] at ht; simp only [hl]; exact h.lt x sp op t hx ht

/-- a step that keeps what is set and only touches attributes keeps the Lamport timestamps of a
    state in which all of them are set -/
theorem lamportOf_of_final {s s' : St} (hA : AttrOnly s s') (hF : Final s s') (hall : LAll s) (x : String) :
    s'.lamportOf x = s.lamportOf x := by
  have hp := hA.parOf x
  cases hx : s.get x with
  | none =>
    have : s'.get x = none := by
      have h1 := parOf_isSome s' x
      rw [hp, parOf_isSome, hx] at h1
      cases h' : s'.get x with
      | none => rfl
      | some _ => rw [h'] at h1; cases h1
    unfold St.lamportOf; rw [this, hx]
  | some e =>
    have hs : (s.lamportOf x).isSome := hall x (by rw [parOf_isSome, hx]; rfl)
    obtain ⟨e', hg', _, hl, _⟩ := hF.ev x e hx
    unfold St.lamportOf at hs ⊢
    rw [hx] at hs ⊢
    rw [hg']
    simp only [Option.bind_some] at hs ⊢
    exact hl hs

theorem LInv.of_final {s s' : St} (hA : AttrOnly s s') (hF : Final s s') (h : LInv s) : LInv s' :=
  h.congr hA.parOf (lamportOf_of_final hA hF h.all)

/-! ## DivideRounds: one event -/

/-- the formula of `computeLamport` as a function of the timestamps by id -/
def lamF (L : String → Option Int) (sp op : String) : Int :=
  let a := if sp == "" then -1 else (L sp).getD (-1)
  if op == "" then a + 1 else
  let b := (L op).getD (-2147483648)
  (if Gen.cmpLamport.eval b a then b else a) + 1

theorem computeLamport_eq (s : St) (e : Ev) : s.computeLamport e = lamF s.lamportOf e.sp e.op := rfl

theorem lamF_gt (L : String → Option Int) (sp op : String) :
    (sp ≠ "" → ∀ t, L sp = some t → t < lamF L sp op) ∧ (op ≠ "" → ∀ t, L op = some t → t < lamF L sp op) := by
  unfold lamF
  simp only [Gen.cmpLamport, Cmp.eval]
  constructor
  · intro hsp t ht
    have hsp' : (sp == "") = false := by simpa using hsp
    simp only [hsp', ht, Option.getD_some]
    by_cases hop : op == ""
    · simp [hop]; omega
    · simp only [hop]
      split <;> simp at * <;> omega
  · intro hop t ht
    have hop' : (op == "") = false := by simpa using hop
    simp only [hop', ht, Option.getD_some]
    split <;> simp at * <;> omega

theorem lamportOf_of_get_map (s s' : St) (g : Ev → Ev) (h : ∀ x, s'.get x = (s.get x).map g)
    (hg : ∀ e, (g e).lamport = e.lamport) (x : String) : s'.lamportOf x = s.lamportOf x := by
  unfold St.lamportOf; rw [h]; cases s.get x <;> simp [hg]

theorem assignRound_lamportOf (s : St) (id : String) (ev : Ev) (x : String) :
    (s.assignRound id ev).lamportOf x = s.lamportOf x := by
  obtain ⟨r, w, hget⟩ := assignRound_get s id ev
  apply lamportOf_of_get_map s _ _ hget
  intro e; split <;> rfl

/-- what `divideOne` does to the timestamps: the event it is called for gets one if it has none,
    computed from its parents' timestamps; nothing else changes -/
theorem divideOne_lamportOf (st : St) (y : String) (x : String) :
    (divideOne st y).lamportOf x =
      match st.parOf y with
      | some (sp, op) =>
        if x = y ∧ (st.lamportOf y).isNone then some (lamF st.lamportOf sp op) else st.lamportOf x
      | none => st.lamportOf x := by
  unfold divideOne
  cases hg : st.get y with
  | none => simp [St.parOf, hg]
  | some ev =>
    have hpar : st.parOf y = some (ev.sp, ev.op) := by simp [St.parOf, hg]
    have hly : st.lamportOf y = ev.lamport := by simp [St.lamportOf, hg]
    simp only [hpar, hly]
    -- the state after the optional round assignment: same timestamps, same parent references
    generalize hst1 : (if ev.round.isNone = true then st.assignRound y ev else st) = st1
    have hl1 : ∀ z, st1.lamportOf z = st.lamportOf z := by
      intro z; rw [← hst1]; split
      · exact assignRound_lamportOf st y ev z
      · rfl
    have hp1 : ∀ z, st1.parOf z = st.parOf z := by
      intro z; rw [← hst1]; split
      · exact (assignRound_attr st y ev).parOf z
      · rfl
    by_cases hl : ev.lamport.isNone = true
    · simp only [hl, if_true]
      have hp1y := hp1 y
      rw [hpar] at hp1y
      unfold St.assignLamport
      cases hg1 : st1.get y with
      | none => simp [St.parOf, hg1] at hp1y
      | some ev1 =>
        simp only []
        have hsp : ev1.sp = ev.sp ∧ ev1.op = ev.op := by
          simp only [St.parOf, hg1, Option.map_some, Option.some.injEq, Prod.mk.injEq] at hp1y; exact hp1y
        have hL : st1.lamportOf = st.lamportOf := funext hl1
        have hval : st1.computeLamport ev1 = lamF st.lamportOf ev.sp ev.op := by
          rw [computeLamport_eq, hL, hsp.1, hsp.2]
        unfold St.lamportOf
        rw [get_update st1 y (fun e => { e with lamport := some (st1.computeLamport ev1) }) (fun _ => rfl)]
        by_cases hxy : x = y
        · subst hxy
          simp only [true_and, if_true]
          rw [hg1]
          have hid : ev1.id = x := get_id hg1
          simp only [Option.map_some, Option.bind_some, hid, beq_self_eq_true, if_true, hval]
          rfl
        · have hne : ¬ (x = y ∧ True) := fun h => hxy h.1
          simp only [hxy, false_and, if_false]
          have := hl1 x
          unfold St.lamportOf at this
          rw [← this]
          cases hgx : st1.get x with
          | none => rfl
          | some ex =>
            have hidx : ex.id = x := get_id hgx
            have : (ex.id == y) = false := by simpa [hidx] using hxy
            simp only [Option.map_some, Option.bind_some, this, Bool.false_eq_true, if_false]
    · have hl' : ev.lamport.isNone = false := by cases h : ev.lamport.isNone <;> simp_all
      simp only [hl', Bool.false_eq_true, if_false, and_false]
      exact hl1 x

theorem divideOne_parOf (st : St) (y x : String) : (divideOne st y).parOf x = st.parOf x :=
  (divideOne_attr st y).parOf x

/-- dividing events that already have a timestamp (or are not stored) changes no timestamp -/
theorem foldl_divideOne_set (l : List String) (st : St)
    (h : ∀ y ∈ l, (st.parOf y).isSome → (st.lamportOf y).isSome) :
    (∀ x, (l.foldl divideOne st).lamportOf x = st.lamportOf x) ∧ (∀ x, (l.foldl divideOne st).parOf x = st.parOf x) := by
  induction l generalizing st with
  | nil => exact ⟨fun _ => rfl, fun _ => rfl⟩
  | cons y l ih =>
    have h1 : ∀ x, (divideOne st y).lamportOf x = st.lamportOf x := by
      intro x
      rw [divideOne_lamportOf]
      cases hp : st.parOf y with
      | none => rfl
      | some p =>
        obtain ⟨sp, op⟩ := p
        have hs := h y (by simp) (by rw [hp]; rfl)
        have : (st.lamportOf y).isNone = false := by
          cases hh : st.lamportOf y with
          | none => rw [hh] at hs; cases hs
          | some _ => rfl
        simp [this]
    have h2 : ∀ x, (divideOne st y).parOf x = st.parOf x := divideOne_parOf st y
    have ih' := ih (divideOne st y) (fun z hz hzp => by
      rw [h1]; rw [h2] at hzp; exact h z (List.mem_cons_of_mem _ hz) hzp)
    simp only [List.foldl_cons]
    exact ⟨fun x => (ih'.1 x).trans (h1 x), fun x => (ih'.2 x).trans (h2 x)⟩

/-! ## InsertEvent -/

theorem insert_parOf_ne (s : St) (e : Ev) (x : String) (hne : e.id ≠ x) : (s.insert e).parOf x = s.parOf x := by
  have hA := insertCoords_attr s e
  have h1 : (s.insert e).parOf x = (s.insertCoords e).parOf x := rfl
  rw [h1, hA.parOf x]
  unfold St.parOf
  rw [get_cons_ne s { e with la := s.initLa e, fd := setAt [] e.creator (some e.index) } x hne]

theorem insert_parOf_eq (s : St) (e : Ev) (hid : e.id ≠ "") : (s.insert e).parOf e.id = some (e.sp, e.op) := by
  have hA := insertCoords_attr s e
  have h1 : (s.insert e).parOf e.id = (s.insertCoords e).parOf e.id := rfl
  rw [h1, hA.parOf e.id]
  unfold St.parOf
  have := get_cons_eq s { e with la := s.initLa e, fd := setAt [] e.creator (some e.index) } hid
  simp only [] at this
  rw [this]; rfl

theorem insert_lamportOf_ne (s : St) (e : Ev) (hf : s.get e.id = none) (hrr : e.rr = none) (hall : LAll s)
    (x : String) (hne : e.id ≠ x) : (s.insert e).lamportOf x = s.lamportOf x := by
  have hk := insert_keeps s e hf hrr
  cases hx : s.get x with
  | none =>
    have hp := insert_parOf_ne s e x hne
    have : (s.insert e).get x = none := by
      have h1 := parOf_isSome (s.insert e) x
      rw [hp, parOf_isSome, hx] at h1
      cases h' : (s.insert e).get x with
      | none => rfl
      | some _ => rw [h'] at h1; cases h1
    unfold St.lamportOf; rw [this, hx]
  | some ex =>
    have hs : (s.lamportOf x).isSome := hall x (by rw [parOf_isSome, hx]; rfl)
    obtain ⟨e', hg', _, hl, _⟩ := hk.ev x ex hx
    unfold St.lamportOf at hs ⊢
    rw [hx] at hs ⊢
    rw [hg']
    simp only [Option.bind_some] at hs ⊢
    exact hl hs

theorem update_fd_lamportOf (s : St) (ah : String) (f : Ev → Ev) (hid : ∀ e, (f e).id = e.id)
    (hl : ∀ e, (f e).lamport = e.lamport) (x : String) : (s.update ah f).lamportOf x = s.lamportOf x := by
  apply lamportOf_of_get_map s _ _ (get_update s ah f hid)
  intro e; split
  · exact hl e
  · rfl

theorem fdWalk_lamportOf (s : St) (fuel : Nat) (ah : String) (cr : Nat) (idx : Int) (x : String) :
    (s.fdWalk fuel ah cr idx).lamportOf x = s.lamportOf x := by
  induction fuel generalizing s ah with
  | zero => rfl
  | succ fuel ih =>
    unfold St.fdWalk
    split
    · rfl
    · split
      · rfl
      · simp only []
        have hu := update_fd_lamportOf s ah (fun a => { a with fd := setAt a.fd cr (some idx) }) (fun _ => rfl) (fun _ => rfl) x
        split
        · exact hu
        · exact (ih _ _).trans hu

theorem walkOne_lamportOf (cr : Nat) (idx : Int) (s : St) (c : Option Coord) (x : String) :
    (walkOne cr idx s c).lamportOf x = s.lamportOf x := by
  unfold walkOne; split
  · exact fdWalk_lamportOf _ _ _ _ _ _
  · rfl

theorem foldl_walkOne_lamportOf (cr : Nat) (idx : Int) (l : List (Option Coord)) (s : St) (x : String) :
    (l.foldl (walkOne cr idx) s).lamportOf x = s.lamportOf x := by
  induction l generalizing s with
  | nil => rfl
  | cons c l ih => simp only [List.foldl_cons]; exact (ih _).trans (walkOne_lamportOf cr idx s c x)

theorem insert_lamportOf_eq (s : St) (e : Ev) (hid : e.id ≠ "") (hl : e.lamport = none) :
    (s.insert e).lamportOf e.id = none := by
  have h1 : (s.insert e).lamportOf e.id = (s.insertCoords e).lamportOf e.id := rfl
  rw [h1]
  unfold St.insertCoords
  simp only []
  rw [foldl_walkOne_lamportOf]
  unfold St.lamportOf
  have := get_cons_eq s { e with la := s.initLa e, fd := setAt [] e.creator (some e.index) } hid
  simp only [] at this
  rw [this]
  simpa using hl

/-! ## one insertion followed by the passes -/

theorem get_isSome_of_mem (s : St) (l : Ev) (hl : l ∈ s.events) (hid : l.id ≠ "") : (s.get l.id).isSome := by
  unfold St.get
  have : (l.id == "") = false := by simpa using hid
  rw [this]
  simp only [Bool.false_eq_true, if_false]
  rw [List.find?_isSome]
  exact ⟨l, hl, by simp⟩

/-- an admitted event names parents that are stored -/
theorem admission_parents (s : St) (e : Ev) (hadm : s.admission e = none) :
    (e.sp ≠ "" → (s.parOf e.sp).isSome) ∧ (e.op ≠ "" → (s.parOf e.op).isSome) := by
  unfold St.admission at hadm
  split at hadm
  · cases hadm
  split at hadm
  · cases hadm
  split at hadm
  · -- no earlier event of the creator
    split at hadm
    · cases hadm
    rename_i hsp
    split at hadm
    · cases hadm
    rename_i hop
    constructor
    · intro h; exact absurd (by simpa using h) hsp
    · intro h
      rw [parOf_isSome]
      have h' : (e.op != "") = true := by simpa using h
      simp only [h', Bool.true_and] at hop
      cases hg : s.get e.op with
      | none => simp [hg] at hop
      | some _ => rfl
  · rename_i l hl
    split at hadm
    · cases hadm
    rename_i hsp
    split at hadm
    · cases hadm
    rename_i hop
    constructor
    · intro h
      have hsp' : e.sp = l.id := by simpa using hsp
      rw [parOf_isSome, hsp']
      have hmem : l ∈ s.events := by
        unfold St.lastFrom at hl
        exact List.mem_of_find?_eq_some hl
      exact get_isSome_of_mem s l hmem (by rw [← hsp']; exact h)
    · intro h
      rw [parOf_isSome]
      have h' : (e.op != "") = true := by simpa using h
      simp only [h', Bool.true_and] at hop
      cases hg : s.get e.op with
      | none => simp [hg] at hop
      | some _ => rfl

theorem parOf_none_of_get (s : St) (x : String) (h : s.get x = none) : s.parOf x = none := by
  unfold St.parOf; rw [h]; rfl

theorem insert_divide_linv (s : St) (e : Ev) (hI : LInv s) (hadm : s.admission e = none)
    (hf : s.get e.id = none) (hid : e.id ≠ "") (hl : e.lamport = none) (hrr : e.rr = none)
    (hu : e.id ∉ s.undet) : LInv (s.insert e).divideRounds := by
  have hP1 : ∀ x, e.id ≠ x → (s.insert e).parOf x = s.parOf x := fun x h => insert_parOf_ne s e x h
  have hPz : (s.insert e).parOf e.id = some (e.sp, e.op) := insert_parOf_eq s e hid
  have hL1 : ∀ x, e.id ≠ x → (s.insert e).lamportOf x = s.lamportOf x :=
    fun x h => insert_lamportOf_ne s e hf hrr hI.all x h
  have hLz : (s.insert e).lamportOf e.id = none := insert_lamportOf_eq s e hid hl
  have hund : (s.insert e).undet = s.undet ++ [e.id] := by
    unfold St.insert; simp only []; rw [(insertCoords_quiet s e).undet]
  have hpz0 : s.parOf e.id = none := parOf_none_of_get s e.id hf
  unfold St.divideRounds
  rw [hund, List.foldl_append]
  simp only [List.foldl_cons, List.foldl_nil]
  obtain ⟨hl', hp'⟩ := foldl_divideOne_set s.undet (s.insert e) (by
    intro y hy hyp
    have hne : e.id ≠ y := fun h => hu (h ▸ hy)
    rw [hL1 y hne]; rw [hP1 y hne] at hyp; exact hI.all y hyp)
  generalize s.undet.foldl divideOne (s.insert e) = st' at hl' hp'
  have hP2 : ∀ x, (divideOne st' e.id).parOf x = (s.insert e).parOf x :=
    fun x => (divideOne_parOf st' e.id x).trans (hp' x)
  have hLfun : st'.lamportOf = (s.insert e).lamportOf := funext hl'
  have hL2z : (divideOne st' e.id).lamportOf e.id = some (lamF (s.insert e).lamportOf e.sp e.op) := by
    rw [divideOne_lamportOf, hp', hPz]
    simp only [true_and, hl', hLz, Option.isNone_none, if_true, hLfun]
  have hL2 : ∀ x, e.id ≠ x → (divideOne st' e.id).lamportOf x = s.lamportOf x := by
    intro x hne
    rw [divideOne_lamportOf, hp', hPz]
    have hxe : ¬ x = e.id := fun h => hne h.symm
    simp only [hxe, false_and, if_false, hl', hL1 x hne]
  have hpar := admission_parents s e hadm
  have hspz : e.sp ≠ "" → e.id ≠ e.sp := by
    intro h heq
    have := hpar.1 h
    rw [← heq, hpz0] at this; cases this
  have hopz : e.op ≠ "" → e.id ≠ e.op := by
    intro h heq
    have := hpar.2 h
    rw [← heq, hpz0] at this; cases this
  refine ⟨fun x hx => ?_, fun x sp op hx => ?_, fun x sp op t hx ht => ?_⟩
  · by_cases hxz : e.id = x
    · subst hxz; rw [hL2z]; rfl
    · rw [hL2 x hxz]; rw [hP2, hP1 x hxz] at hx; exact hI.all x hx
  · have key : ∀ p, (s.parOf p).isSome → ((divideOne st' e.id).parOf p).isSome := by
      intro p hp
      rw [hP2]
      by_cases hpz : e.id = p
      · subst hpz; rw [hPz]; rfl
      · rw [hP1 p hpz]; exact hp
    rw [hP2] at hx
    by_cases hxz : e.id = x
    · subst hxz
      rw [hPz] at hx
      simp only [Option.some.injEq, Prod.mk.injEq] at hx
      obtain ⟨h1, h2⟩ := hx
      subst h1; subst h2
      exact ⟨fun h => key _ (hpar.1 h), fun h => key _ (hpar.2 h)⟩
    · rw [hP1 x hxz] at hx
      have := hI.par x sp op hx
      exact ⟨fun h => key _ (this.1 h), fun h => key _ (this.2 h)⟩
  · rw [hP2] at hx
    by_cases hxz : e.id = x
    · subst hxz
      rw [hPz] at hx
      simp only [Option.some.injEq, Prod.mk.injEq] at hx
      obtain ⟨h1, h2⟩ := hx
      subst h1; subst h2
      rw [hL2z] at ht
      injection ht with ht
      subst ht
      have hgt := lamF_gt (s.insert e).lamportOf e.sp e.op
      constructor
      · intro h tp htp
        rw [hL2 _ (hspz h)] at htp
        exact hgt.1 h tp (by rw [hL1 _ (hspz h)]; exact htp)
      · intro h tp htp
        rw [hL2 _ (hopz h)] at htp
        exact hgt.2 h tp (by rw [hL1 _ (hopz h)]; exact htp)
    · rw [hP1 x hxz] at hx
      rw [hL2 x hxz] at ht
      have hin := hI.par x sp op hx
      have hlt := hI.lt x sp op t hx ht
      constructor
      · intro h tp htp
        have hne : e.id ≠ sp := by
          intro heq; have := hin.1 h; rw [← heq, hpz0] at this; cases this
        rw [hL2 sp hne] at htp
        exact hlt.1 h tp htp
      · intro h tp htp
        have hne : e.id ≠ op := by
          intro heq; have := hin.2 h; rw [← heq, hpz0] at this; cases this
        rw [hL2 op hne] at htp
        exact hlt.2 h tp htp

/-- the passes after DivideRounds keep what is set and touch attributes only -/
theorem tail_final (s : St) (seen : List String) (hC : CInv s seen) (hI : NInv s) :
    Final s.divideRounds s.runConsensus ∧ AttrOnly s.divideRounds s.runConsensus := by
  unfold St.runConsensus St.processDecidedRounds
  have k1 := divideRounds_keeps s
  have q1 := divideRounds_quiet s
  have k2 := decideFame_keeps s.divideRounds
  have q2 := decideFame_quiet s.divideRounds
  have hI2 : NInv s.divideRounds.decideFame := k2.ninv q2.undet (k1.ninv q1.undet hI)
  have hC2 : CInv s.divideRounds.decideFame seen := q2.cinv (q1.cinv hC)
  obtain ⟨f3, _⟩ := decideRoundReceived_final _ hC2.u hI2
  have k4 := processLoop_keeps (s.divideRounds.decideFame.decideRoundReceived.pending.length + 1) s.divideRounds.decideFame.decideRoundReceived
  exact ⟨(k2.final.trans f3).trans k4.final,
    ((decideFame_attr _).trans (decideRoundReceived_attr _)).trans (AttrOnly.of_eq (processLoop_events _ _))⟩

theorem insertAndRun_linv (s : St) (e : Ev) (seen : List String) (hA : AllInv s seen) (hI : LInv s)
    (hf : e.id ∉ seen) (hid : e.id ≠ "") (hl : e.lamport = none) (hrr : e.rr = none) :
    LInv (s.insertAndRun e).1 := by
  unfold St.insertAndRun
  split
  · exact hI
  · rename_i hadm
    have hget : s.get e.id = none := get_none_of_not_mem s e.id (fun h => hf (hA.ids _ h))
    have hu : e.id ∉ s.undet := fun h => hf (hA.c.us _ h)
    have k0 := insert_keeps s e hget hrr
    have hc1 := insert_cinv s e seen hA.c hf
    have hn1 : NInv (s.insert e) := by
      intro x hx
      have hund : (s.insert e).undet = s.undet ++ [e.id] := by
        unfold St.insert; simp only []; rw [(insertCoords_quiet s e).undet]
      rw [hund] at hx
      rcases List.mem_append.mp hx with hx | hx
      · exact k0.rr_none x (hA.n x hx)
      · have : x = e.id := by simpa using hx
        subst this
        exact k0.rr_none _ (fun e' he' => by rw [hget] at he'; cases he')
    have h2 := insert_divide_linv s e hI hadm hget hid hl hrr hu
    obtain ⟨f, a⟩ := tail_final (s.insert e) (seen ++ [e.id]) hc1 hn1
    exact h2.of_final a f

theorem runAll_linv (s : St) (es : List Ev) (seen : List String) (hA : AllInv s seen) (hI : LInv s)
    (hnd : (seen ++ es.map (·.id)).Nodup) (hfresh : ∀ e ∈ es, e.id ≠ "" ∧ e.lamport = none ∧ e.rr = none) :
    LInv (runAll s es) := by
  induction es generalizing s seen with
  | nil => exact hI
  | cons e es ih =>
    have hf : e.id ∉ seen := by
      intro hm
      exact (List.nodup_append.mp hnd).2.2 e.id hm e.id (by simp) rfl
    have hfe := hfresh e (by simp)
    have h1 := insertAndRun_linv s e seen hA hI hf hfe.1 hfe.2.1 hfe.2.2
    obtain ⟨_, hA1⟩ := insertAndRun_all s e seen hA hf hfe.2.2
    have : runAll s (e :: es) = runAll (s.insertAndRun e).1 es := rfl
    rw [this]
    exact ih (s.insertAndRun e).1 (seen ++ [e.id]) hA1 h1 (by simpa [List.append_assoc] using hnd)
      (fun e' he' => hfresh e' (List.mem_cons_of_mem _ he'))

theorem init_linv (g : List Nat) : LInv (St.init g) := by
  have hget : ∀ x, (St.init g).get x = none := by
    intro x; unfold St.get St.init; simp
  refine ⟨fun x hx => ?_, fun x sp op hx => ?_, fun x sp op t hx => ?_⟩
  · rw [parOf_none_of_get _ _ (hget x)] at hx; cases hx
  · rw [parOf_none_of_get _ _ (hget x)] at hx; cases hx
  · rw [parOf_none_of_get _ _ (hget x)] at hx; cases hx

/-- **Lamport timestamps increase along the parent edges**, in every state a node started from
    genesis reaches by insertion attempts of fresh events (distinct non-empty ids, no timestamp yet):
    every stored event has a timestamp, the parents it names are stored and have strictly smaller ones -/
theorem lamport_parents (g : List Nat) (es : List Ev) (hnd : (es.map (·.id)).Nodup)
    (hfresh : ∀ e ∈ es, e.id ≠ "" ∧ e.lamport = none ∧ e.rr = none) (x : String) (e : Ev)
    (hx : (runAll (St.init g) es).get x = some e) :
    ∃ t, e.lamport = some t ∧
      (e.sp ≠ "" → ∃ p tp, (runAll (St.init g) es).get e.sp = some p ∧ p.lamport = some tp ∧ tp < t) ∧
      (e.op ≠ "" → ∃ p tp, (runAll (St.init g) es).get e.op = some p ∧ p.lamport = some tp ∧ tp < t) := by
  have hI := runAll_linv (St.init g) es [] (init_all g) (init_linv g) (by simpa using hnd) hfresh
  generalize runAll (St.init g) es = s at hI hx
  have hpx : s.parOf x = some (e.sp, e.op) := by unfold St.parOf; rw [hx]; rfl
  have hsome := hI.all x (by rw [hpx]; rfl)
  have hlx : s.lamportOf x = e.lamport := by unfold St.lamportOf; rw [hx]; rfl
  rw [hlx] at hsome
  obtain ⟨t, ht⟩ := Option.isSome_iff_exists.mp hsome
  have hin := hI.par x e.sp e.op hpx
  have hlt := hI.lt x e.sp e.op t hpx (by rw [hlx]; exact ht)
  have aux : ∀ p : String, (s.parOf p).isSome → (∀ tp, s.lamportOf p = some tp → tp < t) →
      ∃ q tp, s.get p = some q ∧ q.lamport = some tp ∧ tp < t := by
    intro p hp hlt'
    rw [parOf_isSome] at hp
    obtain ⟨q, hq⟩ := Option.isSome_iff_exists.mp hp
    have hsq := hI.all p (by rw [parOf_isSome, hq]; rfl)
    have hlq : s.lamportOf p = q.lamport := by unfold St.lamportOf; rw [hq]; rfl
    rw [hlq] at hsq
    obtain ⟨tp, htp⟩ := Option.isSome_iff_exists.mp hsq
    exact ⟨q, tp, hq, htp, hlt' tp (by rw [hlq]; exact htp)⟩
  exact ⟨t, ht, fun h => aux e.sp (hin.1 h) (hlt.1 h), fun h => aux e.op (hin.2 h) (hlt.2 h)⟩

/-! ## ancestry and the committed order of a frame -/

/-- `a` is a proper ancestor of `b` in the stored history: a non-empty path of parent references -/
inductive ProperAncestor (s : St) : String → String → Prop
  | parent {a b : String} {eb : Ev} : s.get b = some eb → a ≠ "" → (eb.sp = a ∨ eb.op = a) → ProperAncestor s a b
  | trans {a b c : String} : ProperAncestor s a b → ProperAncestor s b c → ProperAncestor s a c

/-- in any state satisfying the invariant, a proper ancestor has a strictly smaller timestamp -/
theorem LInv.anc_lt {s : St} (hI : LInv s) {a b : String} (h : ProperAncestor s a b) :
    ∃ ta tb, s.lamportOf a = some ta ∧ s.lamportOf b = some tb ∧ ta < tb := by
  induction h with
  | @parent a b eb hb hne hpar =>
    have hpb : s.parOf b = some (eb.sp, eb.op) := by unfold St.parOf; rw [hb]; rfl
    have hsb := hI.all b (by rw [hpb]; rfl)
    obtain ⟨tb, htb⟩ := Option.isSome_iff_exists.mp hsb
    have hin := hI.par b eb.sp eb.op hpb
    have hlt := hI.lt b eb.sp eb.op tb hpb htb
    rcases hpar with hp | hp
    · subst hp
      have hsa := hI.all eb.sp (hin.1 hne)
      obtain ⟨ta, hta⟩ := Option.isSome_iff_exists.mp hsa
      exact ⟨ta, tb, hta, htb, hlt.1 hne ta hta⟩
    · subst hp
      have hsa := hI.all eb.op (hin.2 hne)
      obtain ⟨ta, hta⟩ := Option.isSome_iff_exists.mp hsa
      exact ⟨ta, tb, hta, htb, hlt.2 hne ta hta⟩
  | trans _ _ ih1 ih2 =>
    obtain ⟨ta, tb, hta, htb, h1⟩ := ih1
    obtain ⟨tb', tc, htb', htc, h2⟩ := ih2
    rw [htb] at htb'; injection htb' with htb'; subst htb'
    exact ⟨ta, tc, hta, htc, by omega⟩

/-- **the committed order of a frame extends ancestry**: in any state satisfying the invariant, if
    one event of the sorted frame is a proper ancestor of another, it comes first -/
theorem frame_order_extends_ancestry (s : St) (hI : LInv s) (r : Int) (ri : RoundInfo) (i j : Nat)
    (hi : i < (s.getFrame r ri).2.length) (hj : j < (s.getFrame r ri).2.length)
    (h : ProperAncestor s ((s.getFrame r ri).2[i]).id ((s.getFrame r ri).2[j]).id) : i < j := by
  obtain ⟨hsort, hperm⟩ := getFrame_sorted s r ri
  have hget : ∀ e ∈ (s.getFrame r ri).2, s.get e.id = some e := by
    intro e he
    have := hperm.subset he
    simp only [List.mem_filterMap] at this
    obtain ⟨id, _, hid⟩ := this
    rw [get_id hid]; exact hid
  obtain ⟨ta, tb, hta, htb, hlt⟩ := hI.anc_lt h
  have hla : ((s.getFrame r ri).2[i]).lamport = some ta := by
    have := hget _ (List.getElem_mem hi)
    unfold St.lamportOf at hta; rw [this] at hta; simpa using hta
  have hlb : ((s.getFrame r ri).2[j]).lamport = some tb := by
    have := hget _ (List.getElem_mem hj)
    unfold St.lamportOf at htb; rw [this] at htb; simpa using htb
  exact sorted_lamport_order _ hsort i j hi hj (by rw [hla, hlb]; simpa using hlt)

end Babble.HG
