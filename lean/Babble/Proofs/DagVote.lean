import Babble.Proofs.Dag
import Babble.Proofs.Vote
import Mathlib.Data.Finset.Image
import Mathlib.Data.Finset.Card
/-! # The vote system of a fork-free history

For a history `U` (closed under ancestors, ids injective, no creator forked) and a candidate
witness `x`, the witnesses of later rounds form a `Babble.Vote.VoteSys`: the level of a witness is
its distance to the candidate's round, `S y` are the witnesses of the previous round that `y`
strongly sees (a supermajority by `sswE_card`, one per creator by `wit_unique`).  The votes and
decisions of the declarative model (`Babble.Dag.vote`, `Babble.Dag.decision`: the records `info`
computes, which the correspondence run compares with the Go code) are the votes and decisions of
that vote system (`vote_eq_voteAtG`, `decision_eq_decidesAtG`), so the agreement theorems of
`Babble.Vote` apply to them. -/
namespace Babble.Dag
open Babble Babble.Vote
open Classical

/-- a history: closed under ancestors, ids injective, fork-free, creators of witnesses are validators -/
structure Hist (ps : List Nat) (U : E → Prop) : Prop where
  idInj : IdInjOn U
  dc : DC U
  forkFree : ForkFree U

variable (ps : List Nat) (U : E → Prop) (x : E)

/-- witnesses of `U` in rounds after the candidate's -/
def WP (e : E) : Prop := U e ∧ wit ps e = true ∧ round ps x < round ps e
abbrev W := {e : E // WP ps U x e}

theorem wp_ne_nil {e : E} (h : WP ps U x e) : e ≠ .nil := by
  intro hn; have h1 := h.2.1; rw [hn, wit_nil] at h1; simp at h1

theorem W_creator_mem (w : W ps U x) : w.1.creator ∈ ps := by
  have := (wit_round_gt ps w.2.2.1).2
  exact List.contains_iff_mem.mp this

/-- the strongly seen witnesses of `y` as a finite set of events -/
noncomputable def sswSet (y : E) : Finset E := ((sswE ps y).map (fun r => r.e)).toFinset

theorem mem_sswSet {y w : E} : w ∈ sswSet ps y ↔ ∃ r ∈ sswE ps y, r.e = w := by
  simp [sswSet]

theorem ssw_rec_canonical {y : E} {r : Rec} (h : r ∈ sswE ps y) : r = recOf ps r.e ∧ Anc r.e y ∧ r.e ≠ y :=
  let hts := tail_sound ps ((mem_sswE ps).mp h).1
  ⟨hts.2.2, hts.1, hts.2.1⟩

theorem ssw_map_nodup (H : Hist ps U) {y : E} (hy : U y) : ((sswE ps y).map (fun r => r.e)).Nodup := by
  refine (List.nodup_map_iff_inj_on (sswE_nodup ps H.idInj H.dc hy)).mpr ?_
  intro a ha b hb hab
  rw [(ssw_rec_canonical ps ha).1, (ssw_rec_canonical ps hb).1, hab]

theorem sswSet_card (H : Hist ps U) {y : E} (hy : U y) : (sswSet ps y).card = (sswE ps y).length := by
  unfold sswSet
  rw [List.toFinset_card_of_nodup (ssw_map_nodup ps U H hy), List.length_map]

/-- facts about a strongly seen witness -/
theorem ssw_facts (H : Hist ps U) {y w : E} (hy : U y) (h : w ∈ sswSet ps y) :
    U w ∧ wit ps w = true ∧ round ps w = round ps y - 1 ∧ Anc w y ∧ recOf ps w ∈ sswE ps y := by
  obtain ⟨r, hr, rfl⟩ := (mem_sswSet ps).mp h
  have hc := ssw_rec_canonical ps hr
  obtain ⟨_, hw, hrd, _⟩ := (mem_sswE ps).mp hr
  have hne := anc_ne_nil hc.2.1
  refine ⟨H.dc _ _ hy hc.2.1, ?_, ?_, hc.2.1, by rw [← hc.1]; exact hr⟩
  · rw [hc.1] at hw; exact hw
  · rw [hc.1, recOf_round ps hne] at hrd; exact hrd

variable {ps U x}

/-- the vote system of candidate `x` in history `U` -/
noncomputable def voteSys (H : Hist ps U) : VoteSys (W ps U x) where
  n := ps.length
  lvl := fun w => (round ps w.1 - round ps x - 1).toNat
  creator := fun w => ⟨ps.idxOf w.1.creator, List.idxOf_lt_length_of_mem (W_creator_mem ps U x w)⟩
  creator_inj := by
    intro a b hl hc
    have ha := a.2.2.2
    have hb := b.2.2.2
    have hr : round ps a.1 = round ps b.1 := by
      have : (round ps a.1 - round ps x - 1).toNat = (round ps b.1 - round ps x - 1).toNat := hl
      omega
    have hcr : a.1.creator = b.1.creator := by
      have h1 : ps.idxOf a.1.creator = ps.idxOf b.1.creator := by
        simpa using congrArg Fin.val hc
      exact (List.idxOf_inj (W_creator_mem ps U x a)).mp h1
    exact Subtype.ext (wit_unique ps H.forkFree a.2.1 b.2.1 a.2.2.1 b.2.2.1 hcr hr)
  S := fun y => (sswSet ps y.1).subtype (WP ps U x)
  S_lvl := by
    intro y w hw
    have hmem : w.1 ∈ sswSet ps y.1 := Finset.mem_subtype.mp hw
    have hf := ssw_facts ps U H y.2.1 hmem
    have hwr := w.2.2.2
    have : round ps w.1 = round ps y.1 - 1 := hf.2.2.1
    show (round ps w.1 - round ps x - 1).toNat + 1 = (round ps y.1 - round ps x - 1).toNat
    omega
  S_cardG := by
    intro y hy
    have hlv : 0 < (round ps y.1 - round ps x - 1).toNat := hy
    have hx0 : -1 ≤ round ps x := round_ge ps x
    have hcard := sswE_card ps H.idInj H.dc y.1 y.2.1 (by omega)
    rw [Finset.card_subtype]
    have hall : (sswSet ps y.1).filter (WP ps U x) = sswSet ps y.1 := by
      apply Finset.filter_true_of_mem
      intro w hw
      have hf := ssw_facts ps U H y.2.1 hw
      exact ⟨hf.1, hf.2.1, by rw [hf.2.2.1]; omega⟩
    rw [hall, sswSet_card ps U H y.2.1]
    exact hcard
  sees := fun w => vote ps w.1 x
  coin := fun w => w.1.mid

/-! ## the recorded votes are the votes of the vote system -/

section
variable (H : Hist ps U)

theorem voteSys_S_mem {y w : W ps U x} : w ∈ (voteSys H (x := x)).S y ↔ w.1 ∈ sswSet ps y.1 := Finset.mem_subtype

theorem lvl_def (y : W ps U x) : (voteSys H (x := x)).lvl y = (round ps y.1 - round ps x - 1).toNat := rfl

/-- when `y` is above the first voting round, all its strongly seen witnesses are voters -/
theorem ssw_all_WP {y : W ps U x} (hl : 0 < (voteSys H (x := x)).lvl y) {w : E} (hw : w ∈ sswSet ps y.1) : WP ps U x w := by
  have hf := ssw_facts ps U H y.2.1 hw
  have hlv : 0 < (round ps y.1 - round ps x - 1).toNat := hl
  exact ⟨hf.1, hf.2.1, by rw [hf.2.2.1]; omega⟩

/-- counting over `S y` is counting over the list of strongly seen witnesses -/
theorem card_filter_S {y : W ps U x} (hl : 0 < (voteSys H (x := x)).lvl y) (g : E → Bool) :
    (((voteSys H (x := x)).S y).filter (fun w => g w.1 = true)).card = ((sswE ps y.1).filter (fun r => g r.e)).length := by
  have h1 : (((voteSys H (x := x)).S y).filter (fun w => g w.1 = true)).card = ((sswSet ps y.1).filter (fun e => g e = true)).card := by
    apply Finset.card_bij (fun w _ => w.1)
    · intro w hw
      rw [Finset.mem_filter] at hw ⊢
      exact ⟨(voteSys_S_mem H).mp hw.1, hw.2⟩
    · intro a _ b _ hab; exact Subtype.ext hab
    · intro e he
      rw [Finset.mem_filter] at he
      refine ⟨⟨e, ssw_all_WP H hl he.1⟩, ?_, rfl⟩
      rw [Finset.mem_filter]
      exact ⟨(voteSys_S_mem H).mpr he.1, he.2⟩
  rw [h1]
  unfold sswSet
  rw [← List.toFinset_filter, List.toFinset_card_of_nodup, List.filter_map, List.length_map]
  · rfl
  · exact (ssw_map_nodup ps U H y.2.1).filter _

theorem card_S {y : W ps U x} (hl : 0 < (voteSys H (x := x)).lvl y) :
    ((voteSys H (x := x)).S y).card = (sswE ps y.1).length := by
  have := card_filter_S H hl (fun _ => true)
  simpa using this

theorem tally_fst (diff : Int) (mid : Bool) (ya na : Nat) :
    (tally ps diff mid ya na).1 =
      (if Gen.cmpCoinTest.evalN (diff.toNat % Gen.coinRoundFreq) 0 = true then Gen.cmpFameTie.evalN ya na
       else if Gen.cmpFameCoin.evalN (if Gen.cmpFameTie.evalN ya na = true then ya else na) (sm ps) = true
         then Gen.cmpFameTie.evalN ya na else mid) := by
  unfold tally
  simp only [apply_ite Prod.fst]
  split_ifs <;> simp_all

theorem tally_snd (diff : Int) (mid : Bool) (ya na : Nat) :
    (tally ps diff mid ya na).2 =
      (if Gen.cmpCoinTest.evalN (diff.toNat % Gen.coinRoundFreq) 0 = true ∧
          Gen.cmpFameNormal.evalN (if Gen.cmpFameTie.evalN ya na = true then ya else na) (sm ps) = true
       then some (Gen.cmpFameTie.evalN ya na) else none) := by
  unfold tally
  simp only [apply_ite Prod.snd]
  split_ifs <;> simp_all

/-- the tally of `y` over the votes its strongly seen witnesses cast on `x` -/
def yaysL (y : E) : Nat := ((sswE ps y).filter (fun r => vote ps r.e x)).length

theorem voteSpec_eq {y : E} (hd : round ps y - round ps x ≠ 1) (hxn : x ≠ .nil) :
    voteSpec ps y (recOf ps x) =
      tally ps (round ps y - round ps x) y.mid (yaysL (ps := ps) (x := x) y) ((sswE ps y).length - yaysL (ps := ps) (x := x) y) := by
  unfold voteSpec voteOn
  rw [recOf_round ps hxn, recOf_e ps hxn]
  have hf : Gen.cmpFirstVoteRound.eval (round ps y - round ps x) 1 = false := by
    simp [Gen.cmpFirstVoteRound, Cmp.eval, hd]
  simp only [hf, Bool.false_eq_true, if_false]
  have hfl : (sswE ps y).filter (fun w => voteGet w.votes x.id) = (sswE ps y).filter (fun r => vote ps r.e x) := by
    apply List.filter_congr
    intro r hr
    have hc := (ssw_rec_canonical ps hr).1
    show voteGet r.votes x.id = voteGet (recOf ps r.e).votes x.id
    rw [← hc]
  rw [hfl]
  rfl

end

section
variable (H : Hist ps U) (hx : U x) (hwx : wit ps x = true)

theorem W_round (y : W ps U x) (d : Nat) (hl : (voteSys H (x := x)).lvl y = d) :
    round ps y.1 = round ps x + d + 1 := by
  have h1 := y.2.2.2
  have h2 : (round ps y.1 - round ps x - 1).toNat = d := hl
  omega

theorem yaysL_zero_of_nonanc (H : Hist ps U) (hx : U x) {y : E} (hy : U y) (hn : ¬ Anc x y) : yaysL (ps := ps) (x := x) y = 0 := by
  unfold yaysL
  rw [List.length_eq_zero_iff, List.filter_eq_nil_iff]
  intro r hr
  have hc := ssw_rec_canonical ps hr
  have : vote ps r.e x = false :=
    vote_nonanc ps H.idInj H.dc (H.dc _ _ hy hc.2.1) hx (fun h => hn (anc_trans h hc.2.1))
  simp [this]

include hx hwx in
/-- **the votes recorded by the declarative model are the votes of the vote system** -/
theorem vote_eq_voteAtG : ∀ (d : Nat) (y : W ps U x), (voteSys H (x := x)).lvl y = d →
    (voteSys H (x := x)).voteAtG d y = vote ps y.1 x := by
  have hxn : x ≠ .nil := by intro h; rw [h, wit_nil] at hwx; simp at hwx
  intro d
  induction d with
  | zero => intro y _; rfl
  | succ d ih =>
    intro y hl
    have hpos : 0 < (voteSys H (x := x)).lvl y := by omega
    have hry := W_round H y (d + 1) hl
    have hS : ∀ w ∈ (voteSys H (x := x)).S y, (voteSys H (x := x)).voteAtG d w = vote ps w.1 x := by
      intro w hw
      have := (voteSys H (x := x)).S_lvl y w hw
      exact ih w (by omega)
    have hya : (voteSys H (x := x)).yays ((voteSys H (x := x)).voteAtG d) y = yaysL (ps := ps) (x := x) y.1 := by
      unfold VoteSys.yays
      rw [Finset.filter_congr (fun w hw => by rw [hS w hw])]
      exact card_filter_S H hpos (fun e => vote ps e x)
    have hsum := (voteSys H (x := x)).yays_add_nays ((voteSys H (x := x)).voteAtG d) y
    have hc := card_S H hpos
    have hna : (voteSys H (x := x)).nays ((voteSys H (x := x)).voteAtG d) y = (sswE ps y.1).length - yaysL (ps := ps) (x := x) y.1 := by omega
    have hdiff : (round ps y.1 - round ps x).toNat = d + 1 + 1 := by omega
    have hnorm : normalLvl (d + 1) = Gen.cmpCoinTest.evalN ((round ps y.1 - round ps x).toNat % Gen.coinRoundFreq) 0 := by
      unfold normalLvl; rw [hdiff]
    show (let ya := (voteSys H (x := x)).yays ((voteSys H (x := x)).voteAtG d) y
          let na := (voteSys H (x := x)).nays ((voteSys H (x := x)).voteAtG d) y
          let v := Gen.cmpFameTie.evalN ya na
          let t := if v then ya else na
          if normalLvl (d + 1) then v else (if Gen.cmpFameCoin.evalN t (Gen.superMajority (voteSys H (x := x)).n) then v else (voteSys H (x := x)).coin y)) = vote ps y.1 x
    simp only [hya, hna, hnorm]
    by_cases hanc : Anc x y.1
    · rw [vote_cand ps H.idInj H.dc y.2.1 y.2.2.1 hanc hwx (by omega), voteSpec_eq (by omega) hxn, tally_fst]
      rfl
    · rw [vote_nonanc ps H.idInj H.dc y.2.1 hx hanc, yaysL_zero_of_nonanc H hx y.2.1 hanc]
      have hlen : sm ps ≤ (sswE ps y.1).length := sswE_card ps H.idInj H.dc y.1 y.2.1 (by have := round_ge ps x; omega)
      have hsm := sm_pos ps
      have hn0 : ¬ (0 ≥ (sswE ps y.1).length) := by omega
      have hsm' : Gen.superMajority (voteSys H (x := x)).n = sm ps := rfl
      simp [Gen.cmpFameTie, Gen.cmpFameCoin, Cmp.evalN, hn0, hsm', hlen]

include hx hwx in
/-- the tallies of the vote system at a voter of level `d+1` are the list counts of the model -/
theorem tallies_eq (d : Nat) (y : W ps U x) (hl : (voteSys H (x := x)).lvl y = d + 1) :
    (voteSys H (x := x)).yays ((voteSys H (x := x)).voteAtG d) y = yaysL (ps := ps) (x := x) y.1 ∧
    (voteSys H (x := x)).nays ((voteSys H (x := x)).voteAtG d) y = (sswE ps y.1).length - yaysL (ps := ps) (x := x) y.1 := by
  have hpos : 0 < (voteSys H (x := x)).lvl y := by omega
  have hS : ∀ w ∈ (voteSys H (x := x)).S y, (voteSys H (x := x)).voteAtG d w = vote ps w.1 x := by
    intro w hw
    have := (voteSys H (x := x)).S_lvl y w hw
    exact vote_eq_voteAtG H hx hwx d w (by omega)
  have hya : (voteSys H (x := x)).yays ((voteSys H (x := x)).voteAtG d) y = yaysL (ps := ps) (x := x) y.1 := by
    unfold VoteSys.yays
    rw [Finset.filter_congr (fun w hw => by rw [hS w hw])]
    exact card_filter_S H hpos (fun e => vote ps e x)
  have hsum := (voteSys H (x := x)).yays_add_nays ((voteSys H (x := x)).voteAtG d) y
  have hc := card_S H hpos
  exact ⟨hya, by omega⟩

include hx hwx in
/-- **the decisions recorded by the declarative model are the decisions of the vote system** -/
theorem decision_eq_decidesAtG (d : Nat) (y : W ps U x) (hl : (voteSys H (x := x)).lvl y = d + 1) :
    (voteSys H (x := x)).decidesAtG d y = decision ps y.1 x := by
  have hxn : x ≠ .nil := by intro h; rw [h, wit_nil] at hwx; simp at hwx
  have hry := W_round H y (d + 1) hl
  obtain ⟨hya, hna⟩ := tallies_eq H hx hwx d y hl
  have hdiff : (round ps y.1 - round ps x).toNat = d + 1 + 1 := by omega
  have hnorm : normalLvl (d + 1) = Gen.cmpCoinTest.evalN ((round ps y.1 - round ps x).toNat % Gen.coinRoundFreq) 0 := by
    unfold normalLvl; rw [hdiff]
  have hsm' : Gen.superMajority (voteSys H (x := x)).n = sm ps := rfl
  show (let ya := (voteSys H (x := x)).yays ((voteSys H (x := x)).voteAtG d) y
        let na := (voteSys H (x := x)).nays ((voteSys H (x := x)).voteAtG d) y
        let v := Gen.cmpFameTie.evalN ya na
        let t := if v then ya else na
        if normalLvl (d + 1) ∧ Gen.cmpFameNormal.evalN t (Gen.superMajority (voteSys H (x := x)).n) then some v else none) = decision ps y.1 x
  simp only [hya, hna, hnorm, hsm']
  by_cases hanc : Anc x y.1
  · rw [decision_cand ps H.idInj H.dc y.2.1 hx y.2.2.1 hanc hwx (by omega), voteSpec_eq (by omega) hxn, tally_snd]
  · rw [decision_nonanc ps H.idInj H.dc y.2.1 hx hxn y.2.2.1 hwx (by omega) hanc, yaysL_zero_of_nonanc H hx y.2.1 hanc]
    have hf : Gen.cmpFirstVoteRound.eval (round ps y.1 - round ps x) 1 = false := by
      simp [Gen.cmpFirstVoteRound, Cmp.eval]; omega
    rw [hf, tally_snd]
    simp

include H hx in
/-- a witness in the first voting round decides nothing -/
theorem decision_first_round {y : E} (hy : U y) (hd : round ps y - round ps x = 1) :
    decision ps y x = none := by
  by_cases hn : decision ps y x = none
  · exact hn
  · obtain ⟨b, hb⟩ := Option.ne_none_iff_exists'.mp hn
    obtain ⟨hwy, hwx', _⟩ := decision_some ps hb
    have hxn : x ≠ .nil := by intro h; rw [h, wit_nil] at hwx'; simp at hwx'
    have hf : Gen.cmpFirstVoteRound.eval (round ps y - round ps x) 1 = true := by
      simp [Gen.cmpFirstVoteRound, Cmp.eval, hd]
    by_cases hanc : Anc x y
    · rw [decision_cand ps H.idInj H.dc hy hx hwy hanc hwx' (by omega)]
      unfold voteSpec voteOn
      rw [recOf_round ps hxn]
      simp only [hf, if_true]
    · rw [decision_nonanc ps H.idInj H.dc hy hx hxn hwy hwx' (by omega) hanc, hf]
      rfl

include H hx in
/-- **agreement_static (fame)**: in a fork-free history, any two witnesses that decide the fame of
    a witness `x` decide the same value — whichever nodes hold them, in whichever order they were
    received, whatever else those nodes hold -/
theorem dag_fame_agreement {y y' : E} (hy : U y) (hy' : U y') {b b' : Bool}
    (h : decision ps y x = some b) (h' : decision ps y' x = some b') : b = b' := by
  obtain ⟨hwy, hwx, hr⟩ := decision_some ps h
  obtain ⟨hwy', _, hr'⟩ := decision_some ps h'
  have hxn : x ≠ .nil := by intro hn; rw [hn, wit_nil] at hwx; simp at hwx
  have hyn : y ≠ .nil := by intro hn; rw [hn, wit_nil] at hwy; simp at hwy
  have hyn' : y' ≠ .nil := by intro hn; rw [hn, wit_nil] at hwy'; simp at hwy'
  rw [recOf_round ps hxn, recOf_round ps hyn] at hr
  rw [recOf_round ps hxn, recOf_round ps hyn'] at hr'
  have hd : round ps y - round ps x ≠ 1 := by
    intro hd; rw [decision_first_round H hx hy hd] at h; simp at h
  have hd' : round ps y' - round ps x ≠ 1 := by
    intro hd; rw [decision_first_round H hx hy' hd] at h'; simp at h'
  let Y : W ps U x := ⟨y, hy, hwy, hr⟩
  let Y' : W ps U x := ⟨y', hy', hwy', hr'⟩
  obtain ⟨d, hdl⟩ : ∃ d, (voteSys H (x := x)).lvl Y = d + 1 :=
    ⟨(round ps y - round ps x - 1).toNat - 1, by show (round ps y - round ps x - 1).toNat = _; omega⟩
  obtain ⟨d', hdl'⟩ : ∃ d', (voteSys H (x := x)).lvl Y' = d' + 1 :=
    ⟨(round ps y' - round ps x - 1).toNat - 1, by show (round ps y' - round ps x - 1).toNat = _; omega⟩
  have e1 := decision_eq_decidesAtG H hx hwx d Y hdl
  have e2 := decision_eq_decidesAtG H hx hwx d' Y' hdl'
  rw [show decision ps Y.1 x = some b from h] at e1
  rw [show decision ps Y'.1 x = some b' from h'] at e2
  rw [(voteSys H (x := x)).decidesAtG_eq] at e1 e2
  exact (voteSys H (x := x)).decisions_agree d d' Y Y' hdl hdl' b b' e1 e2

end


/-! ## the latch: a witness that a node did not know when it declared the round decided is never famous -/

section
variable (ps)

/-- witness `x` is decided `b` inside the view `V` (by some witness the view holds) -/
def DecidedIn (V : E → Prop) (x : E) (b : Bool) : Prop := ∃ y, V y ∧ decision ps y x = some b

/-- the view declares round `r` decided: every witness of `r` it holds is decided, and there is one
    (`WitnessesDecided` asks for a supermajority of them; one is all the argument needs) -/
def RoundDecided (V : E → Prop) (r : Int) : Prop :=
  (∀ x, V x → wit ps x = true → round ps x = r → ∃ b, DecidedIn ps V x b) ∧
  (∃ x b, V x ∧ wit ps x = true ∧ round ps x = r ∧ DecidedIn ps V x b)

/-- the famous witnesses of round `r` according to the view -/
def FamousIn (V : E → Prop) (r : Int) (x : E) : Prop :=
  V x ∧ wit ps x = true ∧ round ps x = r ∧ DecidedIn ps V x true

/-- a view of the history: a subset closed under ancestors -/
structure View (V U : E → Prop) : Prop where
  sub : ∀ e, V e → U e
  dc : DC V
end

section
variable (H : Hist ps U)

include H in
/-- a view that holds a witness of round ≥ r+2 holds a witness of round exactly r+2 -/
theorem exists_witness_two_above {V : E → Prop} (hV : View V U) (r : Int) (hr0 : -1 ≤ r) :
    ∀ (k : Nat) (y : E), V y → wit ps y = true → round ps y = r + 2 + k →
      ∃ z, V z ∧ wit ps z = true ∧ round ps z = r + 2 := by
  intro k
  induction k with
  | zero => intro y hy hw hr; exact ⟨y, hy, hw, by omega⟩
  | succ k ih =>
    intro y hy hw hr
    have hUy := hV.sub y hy
    have hcard := sswE_card ps H.idInj H.dc y hUy (by omega)
    have hpos := sm_pos ps
    have hne : sswE ps y ≠ [] := by intro h; rw [h] at hcard; simp at hcard; omega
    obtain ⟨rw', hrw'⟩ := List.exists_mem_of_ne_nil _ hne
    have hmem : rw'.e ∈ sswSet ps y := (mem_sswSet ps).mpr ⟨rw', hrw', rfl⟩
    have hf := ssw_facts ps U H hUy hmem
    exact ih rw'.e (hV.dc _ _ hy hf.2.2.2.1) hf.2.1 (by rw [hf.2.2.1]; omega)

include H in
/-- a decision about `x` seen as a decision of the vote system of `x` -/
theorem decision_as_decidesAt {x y : E} (hx : U x) (hy : U y) {b : Bool} (h : decision ps y x = some b) :
    ∃ (hY : WP ps U x y) (d : Nat), (voteSys H (x := x)).lvl ⟨y, hY⟩ = d + 1 ∧
      (voteSys H (x := x)).decidesAt d ⟨y, hY⟩ = some b := by
  obtain ⟨hwy, hwx, hr⟩ := decision_some ps h
  have hxn : x ≠ .nil := by intro hn; rw [hn, wit_nil] at hwx; simp at hwx
  have hyn : y ≠ .nil := by intro hn; rw [hn, wit_nil] at hwy; simp at hwy
  rw [recOf_round ps hxn, recOf_round ps hyn] at hr
  have hd : round ps y - round ps x ≠ 1 := by
    intro hd; rw [decision_first_round H hx hy hd] at h; simp at h
  refine ⟨⟨hy, hwy, hr⟩, (round ps y - round ps x - 1).toNat - 1, ?_, ?_⟩
  · show (round ps y - round ps x - 1).toNat = _; omega
  · have hl : (voteSys H (x := x)).lvl ⟨y, hy, hwy, hr⟩ = ((round ps y - round ps x - 1).toNat - 1) + 1 := by
      show (round ps y - round ps x - 1).toNat = _; omega
    have e1 := decision_eq_decidesAtG H hx hwx _ ⟨y, hy, hwy, hr⟩ hl
    rw [show decision ps y x = some b from h] at e1
    rw [(voteSys H (x := x)).decidesAtG_eq] at e1
    exact e1

include H in
/-- **the latch is sound**: once a view has declared round `r` decided, a witness of round `r` that
    the view does not hold can never be decided famous, by anybody, ever -/
theorem dag_late_witness_not_famous {V : E → Prop} (hV : View V U) {r : Int}
    (hdec : RoundDecided ps V r) {x' : E} (hx' : U x') (hr' : round ps x' = r)
    (hnot : ¬ V x') : ∀ y, U y → decision ps y x' ≠ some true := by
  intro y hy hdy
  obtain ⟨x0, b0, hVx0, hwx0, hrx0, y0, hVy0, hd0⟩ := hdec.2
  have hUx0 := hV.sub x0 hVx0
  have hUy0 := hV.sub y0 hVy0
  obtain ⟨hwy0, _, hr0⟩ := decision_some ps hd0
  have hx0n : x0 ≠ .nil := by intro hn; rw [hn, wit_nil] at hwx0; simp at hwx0
  have hy0n : y0 ≠ .nil := by intro hn; rw [hn, wit_nil] at hwy0; simp at hwy0
  rw [recOf_round ps hx0n, recOf_round ps hy0n] at hr0
  have hd1 : round ps y0 - round ps x0 ≠ 1 := by
    intro hd; rw [decision_first_round H hUx0 hUy0 hd] at hd0; simp at hd0
  have hrnn : 0 ≤ r := by rw [← hrx0]; exact round_nonneg ps hx0n
  obtain ⟨z, hVz, hwz, hrz⟩ := exists_witness_two_above H hV r (by omega) (round ps y0 - r - 2).toNat y0 hVy0 hwy0 (by omega)
  have hUz := hV.sub z hVz
  -- the vote system of the late witness
  obtain ⟨Z, hZ⟩ : ∃ Z : W ps U x', Z.1 = z := ⟨⟨z, hUz, hwz, by omega⟩, rfl⟩
  have hlZ : (voteSys H (x := x')).lvl Z = 1 := by
    rw [lvl_def, hZ]; omega
  have hTl : ∀ w ∈ (voteSys H (x := x')).S Z, (voteSys H (x := x')).lvl w = 0 := by
    intro w hw; have := (voteSys H (x := x')).S_lvl Z w hw; omega
  have hTv : ∀ w ∈ (voteSys H (x := x')).S Z, (voteSys H (x := x')).sees w = false := by
    intro w hw
    have hmem : w.1 ∈ sswSet ps Z.1 := (voteSys_S_mem H).mp hw
    rw [hZ] at hmem
    have hf := ssw_facts ps U H hUz hmem
    have hVw : V w.1 := hV.dc _ _ hVz hf.2.2.2.1
    exact vote_nonanc ps H.idInj H.dc hf.1 hx' (fun ha => hnot (hV.dc _ _ hVw ha))
  have hTc : (voteSys H (x := x')).sm ≤ ((voteSys H (x := x')).S Z).card := by
    have := (voteSys H (x := x')).S_cardG Z (by omega)
    rw [(voteSys H (x := x')).gen_sm] at this; exact this
  obtain ⟨hY, d, hl, hdd⟩ := decision_as_decidesAt H hx' hy hdy
  have := (voteSys H (x := x')).late_witness_never_famous ((voteSys H (x := x')).S Z) hTl hTv hTc d ⟨y, hY⟩ hl true hdd
  simp at this

include H in
theorem famous_transfer {A B : E → Prop} (hA : View A U) (hB : View B U) {r : Int}
    (dB : RoundDecided ps B r) {x : E} (h : FamousIn ps A r x) : FamousIn ps B r x := by
  obtain ⟨hAx, hw, hr, y, hAy, hd⟩ := h
  have hUx := hA.sub x hAx
  have hUy := hA.sub y hAy
  by_cases hBx : B x
  · obtain ⟨b, y', hBy', hd'⟩ := dB.1 x hBx hw hr
    have : true = b := dag_fame_agreement H hUx hUy (hB.sub y' hBy') hd hd'
    exact ⟨hBx, hw, hr, y', hBy', by rw [this]; exact hd'⟩
  · exact absurd hd (dag_late_witness_not_famous H hB dB hUx hr hBx y hUy)

include H in
/-- **the set of famous witnesses of a decided round is the same on every node** -/
theorem famous_agree {A B : E → Prop} (hA : View A U) (hB : View B U) {r : Int}
    (dA : RoundDecided ps A r) (dB : RoundDecided ps B r) (x : E) :
    FamousIn ps A r x ↔ FamousIn ps B r x :=
  ⟨famous_transfer H hA hB dB, famous_transfer H hB hA dA⟩

include H in
/-- **the famous set of a decided round is final**: once a view `A` has declared round `r` decided,
    in every larger view `B` of the same history (the same node later, or any node holding more) the
    witnesses of round `r` decided famous are exactly `A`'s famous witnesses — this is what allows
    `RoundInfo` to latch `decided` and `DecideFame` to stop looking at the round -/
theorem famous_set_final {A B : E → Prop} (hA : View A U) (hB : View B U) (hAB : ∀ e, A e → B e) {r : Int}
    (dA : RoundDecided ps A r) (x : E) (hBx : B x) (hw : wit ps x = true) (hr : round ps x = r) :
    DecidedIn ps B x true ↔ FamousIn ps A r x := by
  constructor
  · rintro ⟨y, hBy, hd⟩
    have hUx := hB.sub x hBx
    have hUy := hB.sub y hBy
    by_cases hAx : A x
    · obtain ⟨b, y', hAy', hd'⟩ := dA.1 x hAx hw hr
      have : true = b := dag_fame_agreement H hUx hUy (hA.sub y' hAy') hd hd'
      exact ⟨hAx, hw, hr, y', hAy', by rw [this]; exact hd'⟩
    · exact absurd hd (dag_late_witness_not_famous H hA dA hUx hr hAx y hUy)
  · rintro ⟨_, _, _, y, hAy, hd⟩
    exact ⟨y, hAB y hAy, hd⟩

/-! ## round received -/

section
variable (ps)

/-- the condition of `DecideRoundReceived` for event `e` and round `i` in view `V`: every famous
    witness of `i` has `e` among its ancestors, and they number at least `k` (Babble: a supermajority) -/
def ReceivedAt (V : E → Prop) (k : Nat) (e : E) (i : Int) : Prop :=
  (∀ x, FamousIn ps V i x → Anc e x) ∧
  ∃ L : List E, L.Nodup ∧ (∀ x, x ∈ L ↔ FamousIn ps V i x) ∧ k ≤ L.length

/-- `i` is the round received of `e` in view `V`: all rounds above `e`'s up to `i` are decided, `i`
    satisfies the condition and no earlier round does -/
def RoundReceived (V : E → Prop) (k : Nat) (e : E) (i : Int) : Prop :=
  round ps e < i ∧ (∀ j, round ps e < j → j ≤ i → RoundDecided ps V j) ∧
  ReceivedAt ps V k e i ∧ ∀ j, round ps e < j → j < i → ¬ ReceivedAt ps V k e j
end

include H in
theorem receivedAt_transfer {A B : E → Prop} (hA : View A U) (hB : View B U) {i : Int}
    (dA : RoundDecided ps A i) (dB : RoundDecided ps B i) {k : Nat} {e : E}
    (h : ReceivedAt ps A k e i) : ReceivedAt ps B k e i := by
  obtain ⟨hall, L, hnd, hL, hk⟩ := h
  refine ⟨fun x hx => hall x ((famous_agree H hA hB dA dB x).mpr hx), L, hnd, ?_, hk⟩
  intro x; rw [hL x]; exact famous_agree H hA hB dA dB x

include H in
/-- **round received is the same on every node**: if two views of one fork-free history both
    assign a round received to an event, it is the same round -/
theorem round_received_agree {A B : E → Prop} (hA : View A U) (hB : View B U) {k : Nat} {e : E} {i j : Int}
    (hi : RoundReceived ps A k e i) (hj : RoundReceived ps B k e j) : i = j := by
  obtain ⟨hri, hdi, hci, hmi⟩ := hi
  obtain ⟨hrj, hdj, hcj, hmj⟩ := hj
  rcases Int.lt_trichotomy i j with hlt | heq | hgt
  · -- B would have received e at i already
    exfalso
    have dA := hdi i hri (Int.le_refl _)
    have dB := hdj i hri (Int.le_of_lt hlt)
    exact hmj i hri hlt (receivedAt_transfer H hA hB dA dB hci)
  · exact heq
  · exfalso
    have dB := hdj j hrj (Int.le_refl _)
    have dA := hdi j hrj (Int.le_of_lt hgt)
    exact hmi j hrj hgt (receivedAt_transfer H hB hA dB dA hcj)

include H in
/-- **the events received in a round are the same on every node**: if node A gives `e` round
    received `i`, any node B that has decided the rounds between holds `e` and gives it `i` too -/
theorem round_received_transfer {A B : E → Prop} (hA : View A U) (hB : View B U) {k : Nat} (hk : 1 ≤ k)
    {e : E} {i : Int} (hi : RoundReceived ps A k e i)
    (dB : ∀ j, round ps e < j → j ≤ i → RoundDecided ps B j) : B e ∧ RoundReceived ps B k e i := by
  obtain ⟨hri, hdi, hci, hmi⟩ := hi
  have hBi := receivedAt_transfer H hA hB (hdi i hri (Int.le_refl _)) (dB i hri (Int.le_refl _)) hci
  refine ⟨?_, hri, dB, hBi, ?_⟩
  · obtain ⟨hall, L, _, hL, hlen⟩ := hBi
    have hne : L ≠ [] := by intro h; rw [h] at hlen; simp at hlen; omega
    obtain ⟨x, hx⟩ := List.exists_mem_of_ne_nil _ hne
    have hf := (hL x).mp hx
    exact hB.dc _ _ hf.1 (hall x hf)
  · intro j hj1 hj2 hc
    exact hmi j hj1 hj2 (receivedAt_transfer H hB hA (dB j hj1 (Int.le_of_lt hj2)) (hdi j hj1 (Int.le_of_lt hj2)) hc)

/-- **an ancestor is received no later than its descendant** (in any one view): blocks never put a
    descendant's transactions in an earlier block than an ancestor's -/
theorem round_received_mono {V : E → Prop} {k : Nat} {a e : E} {i j : Int} (h : Anc a e)
    (hi : RoundReceived ps V k e i) (hj : RoundReceived ps V k a j) : j ≤ i := by
  obtain ⟨hri, _, ⟨hall, L, hnd, hL, hk⟩, _⟩ := hi
  obtain ⟨_, _, _, hmj⟩ := hj
  have hra := round_mono ps h
  have hca : ReceivedAt ps V k a i := ⟨fun x hx => anc_trans h (hall x hx), L, hnd, hL, hk⟩
  apply Decidable.byContradiction
  intro hlt
  exact hmj i (by omega) (by omega) hca

end
end Babble.Dag
