import Babble.Proofs.HGRoundMono
/-! # The round received is strictly above the round — on the operational model
    For every sequence of insertion attempts of fresh events into a node started from genesis: an
    event that has a round received has a round, and the round received is strictly larger (the
    search of `DecideRoundReceived` starts at round + 1 and only moves upwards).  Core Lean only. -/
namespace Babble.HG

def RRI (s : St) : Prop := ∀ x e, s.get x = some e → ∀ k, e.rr = some k → ∃ r, e.round = some r ∧ r < k
def RoundsSet (s : St) : Prop := ∀ x e, s.get x = some e → e.round.isSome

theorem RMInv.roundsSet {s : St} (h : RMInv s) : RoundsSet s := by
  intro x e hx
  have := h.all x (by rw [parOf_isSome, hx]; rfl)
  unfold St.roundOpt at this
  rw [hx] at this
  simpa using this

theorem Keeps.rri {s s' : St} (h : Keeps s s') (hI : RRI s) : RRI s' := by
  intro x e' hx' k hk
  cases hx : s.get x with
  | none =>
    have := h.fresh x hx e' hx'
    rw [this] at hk; cases hk
  | some e =>
    obtain ⟨e'', hg, hr, _, hrr⟩ := h.ev x e hx
    rw [hx'] at hg; injection hg with hg; subst hg
    rw [hrr] at hk
    obtain ⟨r, hr0, hlt⟩ := hI x e hx k hk
    exact ⟨r, by rw [(hr (by rw [hr0]; rfl)).1]; exact hr0, hlt⟩

/-- the search assigns a round received at or above its starting round, and nothing else -/
theorem rrLoop_rr (s : St) (x : String) (fuel : Nat) (i : Int) :
    ∀ e, s.get x = some e → ∃ e', (s.rrLoop x fuel i).1.get x = some e' ∧ e'.round = e.round ∧
      (e'.rr = e.rr ∨ ∃ j, i ≤ j ∧ e'.rr = some j) := by
  induction fuel generalizing s i with
  | zero => exact fun e he => ⟨e, he, rfl, Or.inl rfl⟩
  | succ fuel ih =>
    unfold St.rrLoop
    by_cases hgt : i > s.lastRound
    · rw [if_pos hgt]; exact fun e he => ⟨e, he, rfl, Or.inl rfl⟩
    · rw [if_neg hgt]
      have up : ∀ (s' : St), (∀ y, s'.get y = s.get y) → ∀ e, s.get x = some e →
          ∃ e', (s'.rrLoop x fuel (i + 1)).1.get x = some e' ∧ e'.round = e.round ∧
            (e'.rr = e.rr ∨ ∃ j, i ≤ j ∧ e'.rr = some j) := by
        intro s' hs' e he
        obtain ⟨e', h1, h2, h3⟩ := ih s' (i + 1) e (by rw [hs']; exact he)
        refine ⟨e', h1, h2, ?_⟩
        rcases h3 with h3 | ⟨j, hj, hr⟩
        · exact Or.inl h3
        · exact Or.inr ⟨j, by omega, hr⟩
      cases hg : s.getRound i with
      | none =>
        simp only []
        split
        · exact fun e he => ⟨e, he, rfl, Or.inl rfl⟩
        · split
          · exact fun e he => ⟨e, he, rfl, Or.inl rfl⟩
          · exact up s (fun _ => rfl)
      | some tr =>
        simp only []
        have hsr : ∀ y, (s.setRound i (tr.witnessesDecided (s.peersAt i)).2).get y = s.get y :=
          fun y => get_of_events (setRound_events _ _ _) y
        have same : ∀ e, s.get x = some e →
            ∃ e', (s.setRound i (tr.witnessesDecided (s.peersAt i)).2).get x = some e' ∧ e'.round = e.round ∧
              (e'.rr = e.rr ∨ ∃ j, i ≤ j ∧ e'.rr = some j) :=
          fun e he => ⟨e, by rw [hsr]; exact he, rfl, Or.inl rfl⟩
        by_cases hd : (tr.witnessesDecided (s.peersAt i)).1 = true
        · simp only [hd, Bool.not_true, Bool.false_eq_true, if_false]
          split
          · intro e he
            refine ⟨{ e with rr := some i }, ?_, rfl, Or.inr ⟨i, Int.le_refl _, rfl⟩⟩
            show (St.setRound _ i _).get x = _
            rw [get_of_events (setRound_events _ _ _), get_update _ x (fun e => { e with rr := some i }) (fun _ => rfl), hsr, he]
            have hc : e.id = x := get_id he
            simp [hc]
          · exact up _ hsr
        · simp only [hd, Bool.not_false, if_true]
          split
          · exact same
          · split
            · exact same
            · exact up _ hsr

theorem receiveOne_rri (p : St × List String) (x : String) (hI : RRI p.1) (hR : RoundsSet p.1) :
    RRI (receiveOne p x).1 ∧ RoundsSet (receiveOne p x).1 := by
  unfold receiveOne
  simp only []
  have hget := rrLoop_get p.1 x (p.1.lastRound - p.1.roundOf x + 1).toNat (p.1.roundOf x + 1)
  have hrr := rrLoop_rr p.1 x (p.1.lastRound - p.1.roundOf x + 1).toNat (p.1.roundOf x + 1)
  have hattr := rrLoop_attr p.1 x (p.1.lastRound - p.1.roundOf x + 1).toNat (p.1.roundOf x + 1)
  generalize p.1.rrLoop x (p.1.lastRound - p.1.roundOf x + 1).toNat (p.1.roundOf x + 1) = q at hget hrr hattr
  have key : ∀ y e', q.1.get y = some e' → ∃ e, p.1.get y = some e ∧ e'.round = e.round ∧
      (e'.rr = e.rr ∨ (y = x ∧ ∃ j, p.1.roundOf x + 1 ≤ j ∧ e'.rr = some j)) := by
    intro y e' hy
    by_cases hyx : y = x
    · subst hyx
      cases hx : p.1.get y with
      | none =>
        obtain ⟨g, hg, he⟩ := hattr
        rw [get_of_map p.1 q.1 g (fun e => evCore_id (hg e)) he, hx] at hy
        cases hy
      | some e =>
        obtain ⟨e'', h1, h2, h3⟩ := hrr e hx
        rw [hy] at h1; injection h1 with h1; subst h1
        exact ⟨e, rfl, h2, h3.imp id (fun h => ⟨rfl, h⟩)⟩
    · have := hget.1 y hyx
      rw [this] at hy
      exact ⟨e', hy, rfl, Or.inl rfl⟩
  constructor
  · intro y e' hy k hk
    obtain ⟨e, he, hr, hcase⟩ := key y e' hy
    rcases hcase with hsame | ⟨hyx, j, hj, hrj⟩
    · rw [hsame] at hk
      obtain ⟨r, hr0, hlt⟩ := hI y e he k hk
      exact ⟨r, by rw [hr]; exact hr0, hlt⟩
    · subst hyx
      rw [hrj] at hk; injection hk with hk; subst hk
      have hs := hR y e he
      obtain ⟨r0, hr0⟩ := Option.isSome_iff_exists.mp hs
      refine ⟨r0, by rw [hr]; exact hr0, ?_⟩
      have : p.1.roundOf y = r0 := by
        rw [roundOf_eq]; unfold St.roundOpt; rw [he]; simp [hr0]
      omega
  · intro y e' hy
    obtain ⟨e, he, hr, _⟩ := key y e' hy
    rw [hr]; exact hR y e he

theorem foldl_receiveOne_rri (l : List String) (p : St × List String) (hI : RRI p.1) (hR : RoundsSet p.1) :
    RRI (l.foldl receiveOne p).1 ∧ RoundsSet (l.foldl receiveOne p).1 := by
  induction l generalizing p with
  | nil => exact ⟨hI, hR⟩
  | cons x l ih =>
    obtain ⟨h1, h2⟩ := receiveOne_rri p x hI hR
    exact ih _ h1 h2

theorem decideRoundReceived_rri (s : St) (hI : RRI s) (hR : RoundsSet s) : RRI s.decideRoundReceived := by
  unfold St.decideRoundReceived
  have := (foldl_receiveOne_rri s.undet (s, []) hI hR).1
  revert this
  generalize s.undet.foldl receiveOne (s, []) = p
  intro h
  exact fun x e hx => h x e hx

theorem insertAndRun_rri (s : St) (e : Ev) (seen : List String) (hA : AllInv s seen) (hM : RMInv s) (hI : RRI s)
    (hf : e.id ∉ seen) (hid : e.id ≠ "") (hl : e.round = none) (hrr : e.rr = none) :
    RRI (s.insertAndRun e).1 := by
  unfold St.insertAndRun
  split
  · exact hI
  · rename_i hadm
    have hget : s.get e.id = none := get_none_of_not_mem s e.id (fun h => hf (hA.ids _ h))
    have hu : e.id ∉ s.undet := fun h => hf (hA.c.us _ h)
    have k0 := insert_keeps s e hget hrr
    have k1 := divideRounds_keeps (s.insert e)
    have k2 := decideFame_keeps (s.insert e).divideRounds
    have hM2 := insert_divide_rminv s e hM hadm hget hid hl hu
    have hM3 : RMInv (s.insert e).divideRounds.decideFame := hM2.of_final (decideFame_attr _) k2.final
    have hI3 : RRI (s.insert e).divideRounds.decideFame := k2.rri (k1.rri (k0.rri hI))
    have hI4 := decideRoundReceived_rri _ hI3 hM3.roundsSet
    unfold St.runConsensus St.processDecidedRounds
    exact (processLoop_keeps _ _).rri hI4

theorem runAll_rri (s : St) (es : List Ev) (seen : List String) (hA : AllInv s seen) (hM : RMInv s) (hI : RRI s)
    (hnd : (seen ++ es.map (·.id)).Nodup) (hfresh : ∀ e ∈ es, e.id ≠ "" ∧ e.round = none ∧ e.rr = none) :
    RRI (runAll s es) := by
  induction es generalizing s seen with
  | nil => exact hI
  | cons e es ih =>
    have hf : e.id ∉ seen := by
      intro hm
      exact (List.nodup_append.mp hnd).2.2 e.id hm e.id (by simp) rfl
    have hfe := hfresh e (by simp)
    have h1 := insertAndRun_rri s e seen hA hM hI hf hfe.1 hfe.2.1 hfe.2.2
    have hM1 := insertAndRun_rminv s e seen hA hM hf hfe.1 hfe.2.1 hfe.2.2
    obtain ⟨_, hA1⟩ := insertAndRun_all s e seen hA hf hfe.2.2
    have : runAll s (e :: es) = runAll (s.insertAndRun e).1 es := rfl
    rw [this]
    exact ih (s.insertAndRun e).1 (seen ++ [e.id]) hA1 hM1 h1 (by simpa [List.append_assoc] using hnd)
      (fun e' he' => hfresh e' (List.mem_cons_of_mem _ he'))

/-- **the round received is strictly above the round**: in every state a node started from genesis
    reaches by insertion attempts of fresh events, an event that has been received has a round, and
    its round received is strictly larger -/
theorem round_received_above_round (g : List Nat) (es : List Ev) (hnd : (es.map (·.id)).Nodup)
    (hfresh : ∀ e ∈ es, e.id ≠ "" ∧ e.round = none ∧ e.rr = none) (x : String) (e : Ev) (k : Int)
    (hx : (runAll (St.init g) es).get x = some e) (hk : e.rr = some k) : ∃ r, e.round = some r ∧ r < k := by
  have h := runAll_rri (St.init g) es [] (init_all g) (init_rminv g)
    (by intro x e hx; have : (St.init g).get x = none := by unfold St.get St.init; simp
        rw [this] at hx; cases hx)
    (by simpa using hnd) hfresh
  exact h x e hx k hk

end Babble.HG
