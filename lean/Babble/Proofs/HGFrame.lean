import Babble.Model.Hashgraph
/-! Frame lemmas for the operational hashgraph model: which tables each pass leaves untouched.
    Core Lean only. -/
namespace Babble.HG

/-- the tables that only `ProcessDecidedRounds` (and `Reset`) may change -/
def St.out (s : St) :=
  (s.blocks, s.lastBlock, s.peerSets, s.validators, s.repertoire, s.frames, s.lastCons, s.lcr, s.lowerBound)

theorem foldl_out {α} (f : St → α → St) (h : ∀ s a, (f s a).out = s.out) (l : List α) (s : St) :
    (l.foldl f s).out = s.out := by
  induction l generalizing s with
  | nil => rfl
  | cons a l ih => simp only [List.foldl_cons]; rw [ih, h]

theorem foldl_out_fst {α β} (f : St × β → α → St × β) (h : ∀ p a, (f p a).1.out = p.1.out)
    (l : List α) (p : St × β) : (l.foldl f p).1.out = p.1.out := by
  induction l generalizing p with
  | nil => rfl
  | cons a l ih => simp only [List.foldl_cons]; rw [ih, h]

@[simp] theorem update_out (s : St) (id : String) (f : Ev → Ev) : (s.update id f).out = s.out := rfl
@[simp] theorem setRound_out (s : St) (r : Int) (ri : RoundInfo) : (s.setRound r ri).out = s.out := rfl

theorem fdWalk_out (s : St) (fuel : Nat) (ah : String) (cr : Nat) (idx : Int) :
    (s.fdWalk fuel ah cr idx).out = s.out := by
  induction fuel generalizing s ah with
  | zero => rfl
  | succ fuel ih =>
    unfold St.fdWalk
    split
    · rfl
    · split
      · rfl
      · simp only []
        split
        · rfl
        · rw [ih]; rfl

theorem walkOne_out (cr : Nat) (idx : Int) (s : St) (c : Option Coord) : (walkOne cr idx s c).out = s.out := by
  unfold walkOne; split
  · exact fdWalk_out _ _ _ _ _
  · rfl

theorem insertCoords_out (s : St) (e : Ev) : (s.insertCoords e).out = s.out := by
  unfold St.insertCoords
  simp only []
  rw [foldl_out _ (walkOne_out e.creator e.index)]
  rfl

theorem insert_out (s : St) (e : Ev) : (s.insert e).out = s.out := by
  unfold St.insert
  simp only []
  exact insertCoords_out s e

theorem queueRound_out (s : St) (r : Int) (ri : RoundInfo) : (s.queueRound r ri).out = s.out := by
  unfold St.queueRound; split <;> rfl

theorem assignRound_out (s : St) (id : String) (ev : Ev) : (s.assignRound id ev).out = s.out := by
  unfold St.assignRound
  simp only [update_out, setRound_out, queueRound_out]

theorem assignLamport_out (s : St) (id : String) : (s.assignLamport id).out = s.out := by
  unfold St.assignLamport; split <;> rfl

theorem divideOne_out (s : St) (id : String) : (divideOne s id).out = s.out := by
  unfold divideOne
  split
  · rfl
  · simp only []
    split <;> split <;> simp only [assignLamport_out, assignRound_out]

theorem divideRounds_out (s : St) : s.divideRounds.out = s.out := foldl_out _ divideOne_out _ _

theorem decideFameRound_out (p : St × List Int) (pr : Int × Bool) : (decideFameRound p pr).1.out = p.1.out := by
  unfold decideFameRound
  simp only []
  split <;> rfl

theorem decideFame_out (s : St) : s.decideFame.out = s.out := by
  unfold St.decideFame
  have := foldl_out_fst decideFameRound decideFameRound_out s.pending (s, [])
  revert this
  generalize s.pending.foldl decideFameRound (s, []) = p
  intro h
  exact h

theorem rrLoop_out (s : St) (x : String) (fuel : Nat) (i : Int) : (s.rrLoop x fuel i).1.out = s.out := by
  induction fuel generalizing s i with
  | zero => rfl
  | succ fuel ih =>
    unfold St.rrLoop
    split
    · rfl
    · split
      · split
        · rfl
        · split
          · rfl
          · rw [ih]
      · simp only []
        split
        · split
          · rfl
          · split
            · rfl
            · rw [ih]; rfl
        · split
          · rfl
          · rw [ih]; rfl

theorem receiveOne_out (p : St × List String) (x : String) : (receiveOne p x).1.out = p.1.out := by
  unfold receiveOne
  simp only []
  exact rrLoop_out _ _ _ _

theorem decideRoundReceived_out (s : St) : s.decideRoundReceived.out = s.out := by
  unfold St.decideRoundReceived
  have := foldl_out_fst receiveOne receiveOne_out s.undet (s, [])
  revert this
  generalize s.undet.foldl receiveOne (s, []) = p
  intro h
  exact h

end Babble.HG
