import Babble.Proofs.HGFrame
/-! Blocks are appended one at a time with consecutive indexes. Core Lean only. -/
namespace Babble.HG

def consec : Int → List Block → Prop
  | _, [] => True
  | k, b :: bs => b.index = k ∧ consec (k+1) bs

theorem consec_append (k : Int) (bs : List Block) (b : Block) :
    consec k (bs ++ [b]) ↔ consec k bs ∧ b.index = k + bs.length := by
  induction bs generalizing k with
  | nil => simp [consec]
  | cons a bs ih =>
    simp only [List.cons_append, consec, ih, List.length_cons]
    constructor
    · rintro ⟨h1, h2, h3⟩; exact ⟨⟨h1, h2⟩, by push_cast; omega⟩
    · rintro ⟨⟨h1, h2⟩, h3⟩; exact ⟨h1, h2, by push_cast at h3; omega⟩

/-- delivered blocks have consecutive indexes `first, first+1, …` and `lastBlock` is the last one -/
def BlkInv (first : Int) (s : St) : Prop :=
  consec first s.blocks ∧ s.lastBlock = first + s.blocks.length - 1

theorem applyReceipts_blocks (s : St) (rr : Int) (itxs : List (Bool × Nat)) :
    (s.applyReceipts rr itxs).blocks = s.blocks ∧ (s.applyReceipts rr itxs).lastBlock = s.lastBlock := by
  unfold St.applyReceipts
  split
  · exact ⟨rfl, rfl⟩
  · simp only []
    split <;> exact ⟨rfl, rfl⟩

theorem blockOf_spec (index r : Int) (frame : Frame) (sorted : List Ev) (b : Block)
    (h : blockOf index r frame sorted = some b) : b.index = index ∧ b.rr = r := by
  unfold blockOf at h
  simp only [] at h
  split at h
  · injection h with h; subst h; exact ⟨rfl, rfl⟩
  · cases h

theorem addBlock_blocks (s : St) (b : Block) :
    (s.addBlock b).blocks = s.blocks ++ [b] ∧ (s.addBlock b).lastBlock = s.lastBlock + 1 := by
  unfold St.addBlock
  have := applyReceipts_blocks { s with blocks := s.blocks ++ [b], lastBlock := s.lastBlock + 1 } b.rr b.itx
  exact this

/-- one step of `ProcessDecidedRounds` appends at most one block, numbered `lastBlock + 1`, whose
    round received is the first pending round -/
theorem processOne_blocks (s s' : St) (h : s.processOne = some s') :
    (s'.blocks = s.blocks ∧ s'.lastBlock = s.lastBlock) ∨
    (∃ b, s'.blocks = s.blocks ++ [b] ∧ b.index = s.lastBlock + 1 ∧ s'.lastBlock = s.lastBlock + 1 ∧
          s.pending.head?.map (·.1) = some b.rr) := by
  unfold St.processOne at h
  split at h
  · cases h
  · rename_i r d rest hp
    split at h
    · cases h
    · split at h
      · cases h
      · simp only [] at h
        split at h
        · rename_i b hb
          injection h with h
          subst h
          right
          obtain ⟨hi, hr⟩ := blockOf_spec _ _ _ _ _ hb
          rename_i ri _ _
          have hab := addBlock_blocks (s.addFrame (s.getFrame r ri).1 (s.getFrame r ri).2) b
          exact ⟨b, hab.1, hi, hab.2, by simp [hp, hr]⟩
        · injection h with h
          subst h
          left; exact ⟨rfl, rfl⟩

theorem processOne_inv (first : Int) (s s' : St) (hI : BlkInv first s) (h : s.processOne = some s') :
    BlkInv first s' := by
  rcases processOne_blocks s s' h with ⟨hb, hl⟩ | ⟨b, hb, hi, hl, _⟩
  · unfold BlkInv; rw [hb, hl]; exact hI
  · unfold BlkInv at *
    rw [hb, hl, consec_append]
    refine ⟨⟨hI.1, ?_⟩, ?_⟩
    · rw [hi, hI.2]; omega
    · simp only [List.length_append, List.length_singleton]; push_cast; omega

/-- the delivered sequence only ever grows at the end -/
def Extends (s s' : St) : Prop := ∃ new, s'.blocks = s.blocks ++ new

theorem Extends.refl (s : St) : Extends s s := ⟨[], by simp⟩
theorem Extends.trans {a b c : St} (h1 : Extends a b) (h2 : Extends b c) : Extends a c := by
  obtain ⟨n1, h1⟩ := h1; obtain ⟨n2, h2⟩ := h2
  exact ⟨n1 ++ n2, by rw [h2, h1, List.append_assoc]⟩

theorem processOne_extends (s s' : St) (h : s.processOne = some s') : Extends s s' := by
  rcases processOne_blocks s s' h with ⟨hb, _⟩ | ⟨b, hb, _⟩
  · exact ⟨[], by simp [hb]⟩
  · exact ⟨[b], hb⟩

theorem processLoop_spec (first : Int) (fuel : Nat) (s : St) (hI : BlkInv first s) :
    BlkInv first (s.processLoop fuel) ∧ Extends s (s.processLoop fuel) := by
  induction fuel generalizing s with
  | zero => exact ⟨hI, Extends.refl s⟩
  | succ fuel ih =>
    unfold St.processLoop
    split
    · exact ⟨hI, Extends.refl s⟩
    · rename_i s' h
      have := ih s' (processOne_inv first s s' hI h)
      exact ⟨this.1, (processOne_extends s s' h).trans this.2⟩

theorem out_blocks {a b : St} (h : a.out = b.out) : a.blocks = b.blocks ∧ a.lastBlock = b.lastBlock := by
  unfold St.out at h
  injection h with h1 h
  injection h with h2 h
  exact ⟨h1, h2⟩

theorem runConsensus_spec (first : Int) (s : St) (hI : BlkInv first s) :
    BlkInv first s.runConsensus ∧ Extends s s.runConsensus := by
  unfold St.runConsensus St.processDecidedRounds
  have hout : (s.divideRounds.decideFame.decideRoundReceived).out = s.out := by
    rw [decideRoundReceived_out, decideFame_out, divideRounds_out]
  obtain ⟨hb, hl⟩ := out_blocks hout
  have hI' : BlkInv first (s.divideRounds.decideFame.decideRoundReceived) := by
    unfold BlkInv; rw [hb, hl]; exact hI
  have := processLoop_spec first (s.divideRounds.decideFame.decideRoundReceived.pending.length + 1) _ hI'
  refine ⟨this.1, ?_⟩
  obtain ⟨new, hn⟩ := this.2
  exact ⟨new, by rw [hn, hb]⟩

theorem insertAndRun_spec (first : Int) (s : St) (e : Ev) (hI : BlkInv first s) :
    BlkInv first (s.insertAndRun e).1 ∧ Extends s (s.insertAndRun e).1 := by
  unfold St.insertAndRun
  split
  · exact ⟨hI, Extends.refl s⟩
  · simp only []
    obtain ⟨hb, hl⟩ := out_blocks (insert_out s e)
    have hI' : BlkInv first (s.insert e) := by unfold BlkInv; rw [hb, hl]; exact hI
    have := runConsensus_spec first _ hI'
    refine ⟨this.1, ?_⟩
    obtain ⟨new, hn⟩ := this.2
    exact ⟨new, by rw [hn, hb]⟩

/-- a node's life: insertion attempts (each followed by the consensus passes) -/
def runAll (s : St) (es : List Ev) : St := es.foldl (fun st e => (st.insertAndRun e).1) s

theorem runAll_spec (first : Int) (s : St) (es : List Ev) (hI : BlkInv first s) :
    BlkInv first (runAll s es) ∧ Extends s (runAll s es) := by
  induction es generalizing s with
  | nil => exact ⟨hI, Extends.refl s⟩
  | cons e es ih =>
    have h1 := insertAndRun_spec first s e hI
    have h2 := ih _ h1.1
    exact ⟨h2.1, h1.2.trans h2.2⟩

theorem processLoop_extends (fuel : Nat) (s : St) : Extends s (s.processLoop fuel) := by
  induction fuel generalizing s with
  | zero => exact Extends.refl s
  | succ fuel ih =>
    unfold St.processLoop
    split
    · exact Extends.refl s
    · rename_i s' h
      exact (processOne_extends s s' h).trans (ih s')

theorem runConsensus_extends (s : St) : Extends s s.runConsensus := by
  unfold St.runConsensus St.processDecidedRounds
  have hout : (s.divideRounds.decideFame.decideRoundReceived).out = s.out := by
    rw [decideRoundReceived_out, decideFame_out, divideRounds_out]
  obtain ⟨hb, _⟩ := out_blocks hout
  obtain ⟨new, hn⟩ := processLoop_extends (s.divideRounds.decideFame.decideRoundReceived.pending.length + 1)
    (s.divideRounds.decideFame.decideRoundReceived)
  exact ⟨new, by rw [hn, hb]⟩

theorem insertAndRun_extends (s : St) (e : Ev) : Extends s (s.insertAndRun e).1 := by
  unfold St.insertAndRun
  split
  · exact Extends.refl s
  · simp only []
    obtain ⟨hb, _⟩ := out_blocks (insert_out s e)
    obtain ⟨new, hn⟩ := runConsensus_extends (s.insert e)
    exact ⟨new, by rw [hn, hb]⟩

theorem runAll_extends (s : St) (es : List Ev) : Extends s (runAll s es) := by
  induction es generalizing s with
  | nil => exact Extends.refl s
  | cons e es ih => exact (insertAndRun_extends s e).trans (ih _)

theorem runAll_append (s : St) (es es' : List Ev) : runAll s (es ++ es') = runAll (runAll s es) es' := by
  unfold runAll; rw [List.foldl_append]

theorem init_inv (g : List Nat) : BlkInv 0 (St.init g) := by
  unfold BlkInv St.init; simp [consec]

theorem consec_getElem (k : Int) (bs : List Block) (h : consec k bs) (i : Nat) (hi : i < bs.length) :
    (bs[i]).index = k + i := by
  induction bs generalizing k i with
  | nil => cases hi
  | cons b bs ih =>
    cases i with
    | zero => simpa using h.1
    | succ i =>
      have := ih (k+1) h.2 i (by simpa using hi)
      simp only [List.getElem_cons_succ, this]; push_cast; omega

end Babble.HG
