import Babble.Model.Median
/-! Lemmas about sorted lists and counting, used by C18. Core Lean only. -/
namespace Babble.Median

theorem le_total' (a b : Int) : (decide (a ≤ b) || decide (b ≤ a)) = true := by
  by_cases h : a ≤ b
  · simp [h]
  · have : b ≤ a := by omega
    simp [this]

theorem sorted_pairwise (l : List Int) : (sorted l).Pairwise (· ≤ ·) := by
  have := List.pairwise_mergeSort (le := fun a b => decide (a ≤ b))
    (by intro a b c h1 h2; simp at *; omega) (by intro a b; exact le_total' a b) l
  simpa [sorted] using this

theorem sorted_perm (l : List Int) : (sorted l).Perm l := List.mergeSort_perm _ _

theorem sorted_length (l : List Int) : (sorted l).length = l.length := by simp [sorted]

theorem sorted_mono {s : List Int} (hs : s.Pairwise (· ≤ ·)) {i j : Nat} (hij : i ≤ j) (hj : j < s.length) :
    s[i]'(by omega) ≤ s[j] := by
  by_cases h : i = j
  · subst h; exact Int.le_refl _
  · exact (List.pairwise_iff_getElem.mp hs) i j (by omega) hj (by omega)

/-- in a sorted list, if the element at position k is below `lo`, at least k+1 elements are -/
theorem count_below {s : List Int} (hs : s.Pairwise (· ≤ ·)) (k : Nat) (hk : k < s.length) (lo : Int)
    (h : s[k] < lo) : k + 1 ≤ s.countP (fun x => decide (x < lo)) := by
  have hsplit : s = s.take (k+1) ++ s.drop (k+1) := (List.take_append_drop _ _).symm
  have hall : ∀ a ∈ s.take (k+1), (fun x => decide (x < lo)) a = true := by
    intro a ha
    obtain ⟨i, hi, rfl⟩ := List.mem_take_iff_getElem.mp ha
    have hi' : i ≤ k := by omega
    have := sorted_mono hs hi' hk
    simp; omega
  have hc : (s.take (k+1)).countP (fun x => decide (x < lo)) = (s.take (k+1)).length :=
    List.countP_eq_length.mpr hall
  have hl : (s.take (k+1)).length = k + 1 := by simp; omega
  rw [hsplit, List.countP_append, hc, hl]; omega

/-- in a sorted list, if the element at position k is above `hi`, at least len-k elements are -/
theorem count_above {s : List Int} (hs : s.Pairwise (· ≤ ·)) (k : Nat) (hk : k < s.length) (hi : Int)
    (h : hi < s[k]) : s.length - k ≤ s.countP (fun x => decide (hi < x)) := by
  have hsplit : s = s.take k ++ s.drop k := (List.take_append_drop _ _).symm
  have hall : ∀ a ∈ s.drop k, (fun x => decide (hi < x)) a = true := by
    intro a ha
    obtain ⟨i, hi', rfl⟩ := List.mem_drop_iff_getElem.mp ha
    have := sorted_mono hs (Nat.le_add_right k i) (by omega)
    simp; omega
  have hc : (s.drop k).countP (fun x => decide (hi < x)) = (s.drop k).length :=
    List.countP_eq_length.mpr hall
  have hl : (s.drop k).length = s.length - k := by simp
  rw [hsplit, List.countP_append, hc, hl]; simp

theorem countP_or_ge_left (s : List Int) (p q : Int → Bool) :
    s.countP p ≤ s.countP (fun x => p x || q x) :=
  List.countP_mono_left (by intro x _ h; simp [h])

theorem countP_or_ge_right (s : List Int) (p q : Int → Bool) :
    s.countP q ≤ s.countP (fun x => p x || q x) :=
  List.countP_mono_left (by intro x _ h; simp [h])

/-- the outside-count, as a Bool predicate -/
def outside (lo hi : Int) (x : Int) : Bool := decide (x < lo) || decide (hi < x)

/-- if fewer than half the elements of a sorted list lie outside [lo,hi], the element at any
    position k with `out ≤ k` and `k + out < len` lies inside -/
theorem middle_inside {s : List Int} (hs : s.Pairwise (· ≤ ·)) (lo hi : Int) (k : Nat)
    (hk1 : s.countP (outside lo hi) ≤ k) (hk2 : k + s.countP (outside lo hi) < s.length) :
    lo ≤ s[k]'(by omega) ∧ s[k]'(by omega) ≤ hi := by
  have hk : k < s.length := by omega
  constructor
  · apply Decidable.byContradiction; intro hc
    have h1 := count_below hs k hk lo (by omega)
    have h2 := countP_or_ge_left s (fun x => decide (x < lo)) (fun x => decide (hi < x))
    unfold outside at hk1; omega
  · apply Decidable.byContradiction; intro hc
    have h1 := count_above hs k hk hi (by omega)
    have h2 := countP_or_ge_right s (fun x => decide (x < lo)) (fun x => decide (hi < x))
    unfold outside at hk2; omega

theorem wrap64_id (x : Int) (h : inInt64 x) : wrap64 x = x := by
  unfold wrap64 inInt64 two63 two64 at *
  omega

theorem tdiv2_between (a b lo hi : Int) (ha : lo ≤ a ∧ a ≤ hi) (hb : lo ≤ b ∧ b ≤ hi) :
    lo ≤ (a + b).tdiv 2 ∧ (a + b).tdiv 2 ≤ hi := by
  by_cases h : 0 ≤ a + b
  · rw [Int.tdiv_eq_ediv_of_nonneg h]; omega
  · have hneg : a + b = -(-(a + b)) := by omega
    rw [hneg, Int.neg_tdiv, Int.tdiv_eq_ediv_of_nonneg (by omega)]; omega

end Babble.Median
