import Babble.Proofs.Ancestry
/-! # The admission invariant is an invariant of the operational model

`AdmInv s.events` holds in every state reachable from an initial state by insertion attempts and
consensus passes: `InsertEvent` only admits events that extend the history as `AdmInv` demands, and
the passes only touch the mutable attributes (first descendants, round, witness flag, Lamport
timestamp, round received).  Core Lean only. -/
namespace Babble.HG

/-- the immutable part of an event -/
def evCore (e : Ev) := (e.id, e.creator, e.index, e.sp, e.op, e.la, e.sigok, e.txs, e.itx, e.ts, e.key, e.mid)

theorem getL_map (g : Ev → Ev) (hg : ∀ e, evCore (g e) = evCore e) (es : List Ev) (id : String) :
    getL (es.map g) id = (getL es id).map g := by
  unfold getL
  have hp : ((fun e : Ev => e.id == id) ∘ g) = (fun e : Ev => e.id == id) := by
    funext e
    have := hg e
    simp only [evCore, Prod.mk.injEq] at this
    simp [Function.comp, this.1]
  rw [List.find?_map, hp]

theorem lastFromL_map (g : Ev → Ev) (hg : ∀ e, evCore (g e) = evCore e) (es : List Ev) (c : Nat) :
    lastFromL (es.map g) c = (lastFromL es c).map g := by
  unfold lastFromL
  have hp : ((fun e : Ev => e.creator == c) ∘ g) = (fun e : Ev => e.creator == c) := by
    funext e
    have := hg e
    simp only [evCore, Prod.mk.injEq] at this
    simp [Function.comp, this.2.1]
  rw [List.find?_map, hp]

theorem laOf_map (g : Ev → Ev) (hg : ∀ e, evCore (g e) = evCore e) (es : List Ev) (id : String) :
    laOf (es.map g) id = laOf es id := by
  unfold laOf
  rw [getL_map g hg]
  cases h : getL es id with
  | none => rfl
  | some e =>
    have := hg e
    simp only [evCore, Prod.mk.injEq] at this
    simp [this.2.2.2.2.2.1]

/-- attribute-only updates keep the admission invariant -/
theorem AdmInv_map (g : Ev → Ev) (hg : ∀ e, evCore (g e) = evCore e) :
    ∀ {es : List Ev}, AdmInv es → AdmInv (es.map g)
  | [], _ => trivial
  | e :: es, hI => by
    obtain ⟨hI', hne, hfresh, hchain, hop, hla⟩ := hI
    have hc := hg e
    simp only [evCore, Prod.mk.injEq] at hc
    obtain ⟨hid, hcr, hidx, hsp, hopp, hlaa, _⟩ := hc
    simp only [List.map_cons, AdmInv]
    refine ⟨AdmInv_map g hg hI', by rw [hid]; exact hne, ?_, ?_, ?_, ?_⟩
    · rw [getL_map g hg, hid, hfresh]; rfl
    · rw [lastFromL_map g hg, hcr]
      cases hl : lastFromL es e.creator with
      | none => rw [hl] at hchain; simpa [hsp, hidx] using hchain
      | some l =>
        rw [hl] at hchain
        have hcl := hg l
        simp only [evCore, Prod.mk.injEq] at hcl
        simp only [Option.map_some, hsp, hidx, hcl.1, hcl.2.2.1]
        exact hchain
    · rw [hopp, getL_map g hg]
      rcases hop with h | h
      · exact Or.inl h
      · right; cases hgo : getL es e.op with
        | none => rw [hgo] at h; cases h
        | some o => rfl
    · rw [hlaa, hla, laOf_map g hg, laOf_map g hg, hsp, hopp, hcr, hidx, hid]

theorem update_events (s : St) (id : String) (f : Ev → Ev) :
    (s.update id f).events = s.events.map (fun e => if e.id == id then f e else e) := rfl

theorem update_AdmInv (s : St) (id : String) (f : Ev → Ev) (hf : ∀ e, evCore (f e) = evCore e)
    (hI : AdmInv s.events) : AdmInv (s.update id f).events := by
  rw [update_events]
  apply AdmInv_map _ _ hI
  intro e
  split
  · exact hf e
  · rfl

end Babble.HG

namespace Babble.HG

theorem St.get_eq (s : St) (hI : AdmInv s.events) (id : String) : s.get id = getL s.events id := by
  unfold St.get
  by_cases h : id = ""
  · subst h; simp [getL_empty hI]
  · have : (id == "") = false := by simpa using h
    simp [this, getL]

theorem St.lastFrom_eq (s : St) (c : Nat) : s.lastFrom c = lastFromL s.events c := rfl

theorem mergeLa_nil_right (a : List (Option Coord)) : mergeLa a [] = a := by
  cases a <;> rfl

theorem initLa_eq (s : St) (hI : AdmInv s.events) (e : Ev) :
    s.initLa e = setAt (mergeLa (laOf s.events e.sp) (laOf s.events e.op)) e.creator
      (some { idx := e.index, id := e.id }) := by
  unfold St.initLa St.laOf laOf
  rw [s.get_eq hI, s.get_eq hI]
  cases getL s.events e.sp <;> cases getL s.events e.op <;> simp [mergeLa, mergeLa_nil_right]

/-- What `InsertEvent`'s checks guarantee: an admitted event extends the history as `AdmInv` demands.
    `hid`/`hfresh` are the hash assumptions (an event's id is the hash of its body: non-empty, and
    not the id of a different stored event — see `fresh_of_hash`). -/
theorem admitted_AdmInv (s : St) (e : Ev) (hI : AdmInv s.events) (hadm : s.admission e = none)
    (hid : e.id ≠ "") (hfresh : getL s.events e.id = none) :
    AdmInv ({ e with la := s.initLa e, fd := setAt [] e.creator (some e.index) } :: s.events) := by
  unfold St.admission at hadm
  simp only [AdmInv]
  refine ⟨hI, hid, hfresh, ?_, ?_, initLa_eq s hI e⟩
  · -- chain condition
    rw [← s.lastFrom_eq]
    split at hadm
    · cases hadm
    · split at hadm
      · cases hadm
      · split at hadm
        · rename_i hl
          rw [hl]
          simp only []
          split at hadm
          · cases hadm
          · rename_i hsp
            split at hadm
            · cases hadm
            · split at hadm
              · cases hadm
              · rename_i hidx
                exact ⟨by simpa using hsp, by simpa using hidx⟩
        · rename_i l hl
          rw [hl]
          simp only []
          split at hadm
          · cases hadm
          · rename_i hsp
            split at hadm
            · cases hadm
            · split at hadm
              · cases hadm
              · rename_i hidx
                exact ⟨by simpa using hsp, by simpa using hidx⟩
  · -- other parent present
    by_cases hop : e.op = ""
    · exact Or.inl hop
    · right
      have hne : (e.op != "") = true := by simpa using hop
      split at hadm
      · cases hadm
      · split at hadm
        · cases hadm
        · split at hadm <;> (
            split at hadm
            · cases hadm
            · split at hadm
              · cases hadm
              · rename_i hopp
                rw [hne, s.get_eq hI] at hopp
                cases hg : getL s.events e.op with
                | none => simp [hg] at hopp
                | some _ => rfl)

end Babble.HG
