import Babble.Proofs.HGWitness
import Babble.Proofs.Ancestry
import Babble.Props.C07
/-! # One witness per creator and round — on the operational model
    Rounds never decrease along ancestry (`round_parents` lifted to `Anc`), a creator's events form a
    chain (`chain`, C07), and a witness's round is strictly above its self-parent's
    (`witness_above_self_parent`): two stored witnesses of one creator in one round are the same event.
    Core Lean only. -/
namespace Babble.HG

/-- rounds never decrease along ancestry -/
theorem anc_round_le (g : List Nat) (es : List Ev) (hnd : (es.map (·.id)).Nodup)
    (hfresh : ∀ e ∈ es, e.id ≠ "" ∧ e.round = none ∧ e.rr = none)
    (hI : AdmInv (runAll (St.init g) es).events) (a b : String)
    (h : Anc (runAll (St.init g) es).events a b) :
    ∀ ea eb ra rb, (runAll (St.init g) es).get a = some ea → (runAll (St.init g) es).get b = some eb →
      ea.round = some ra → eb.round = some rb → ra ≤ rb := by
  induction h with
  | refl _ =>
    intro ea eb ra rb ha hb hra hrb
    rw [ha] at hb; injection hb with hb; subst hb
    rw [hra] at hrb; injection hrb with hrb; omega
  | sp hgb hne _ ih =>
    intro ea eb ra rb ha hb hra hrb
    have hb' := (St.get_eq _ hI _).trans hgb
    rw [hb'] at hb; injection hb with hb; subst hb
    obtain ⟨r, hr, h1, _⟩ := round_parents g es hnd hfresh _ _ hb'
    obtain ⟨p, rp, hp, hrp, hle⟩ := h1 hne
    rw [hr] at hrb; injection hrb with hrb; subst hrb
    have := ih ea p ra rp ha hp hra hrp
    omega
  | op hgb hne _ ih =>
    intro ea eb ra rb ha hb hra hrb
    have hb' := (St.get_eq _ hI _).trans hgb
    rw [hb'] at hb; injection hb with hb; subst hb
    obtain ⟨r, hr, _, h2⟩ := round_parents g es hnd hfresh _ _ hb'
    obtain ⟨p, rp, hp, hrp, hle⟩ := h2 hne
    rw [hr] at hrb; injection hrb with hrb; subst hrb
    have := ih ea p ra rp ha hp hra hrp
    omega

theorem nodup_inj : ∀ es : List Ev, (es.map (·.id)).Nodup → ∀ a ∈ es, ∀ b ∈ es, a.id = b.id → a = b
  | [], _, a, ha, _, _, _ => by cases ha
  | e :: es, hnd, a, ha, b, hb, hid => by
    simp only [List.map_cons, List.nodup_cons, List.mem_map, not_exists, not_and] at hnd
    rcases List.mem_cons.mp ha with rfl | ha' <;> rcases List.mem_cons.mp hb with rfl | hb'
    · rfl
    · exact absurd hid.symm (hnd.1 b hb')
    · exact absurd hid (hnd.1 a ha')
    · exact nodup_inj es hnd.2 a ha' b hb' hid

theorem nodup_hash {es : List Ev} (hnd : (es.map (·.id)).Nodup) :
    ∀ a ∈ es, ∀ b ∈ es, a.id = b.id → a.creator = b.creator ∧ a.index = b.index := by
  intro a ha b hb hid
  have : a = b := nodup_inj es hnd a ha b hb hid
  subst this; exact ⟨rfl, rfl⟩

/-- **one witness per creator and round**: in every state a node started from genesis reaches by
    insertion attempts of fresh events, two stored witnesses of the same creator with the same round
    are the same event -/
theorem witness_unique (g : List Nat) (es : List Ev) (hnd : (es.map (·.id)).Nodup)
    (hfresh : ∀ e ∈ es, e.id ≠ "" ∧ e.round = none ∧ e.rr = none) (y z : Ev) (r : Int)
    (hy : y ∈ (runAll (St.init g) es).events) (hz : z ∈ (runAll (St.init g) es).events)
    (hc : y.creator = z.creator) (hwy : y.wit = some true) (hwz : z.wit = some true)
    (hry : y.round = some r) (hrz : z.round = some r) : y = z := by
  have hI : AdmInv (runAll (St.init g) es).events :=
    Babble.Props.C07.admission_invariant g es (fun a ha => (hfresh a ha).1) (nodup_hash hnd)
  -- without loss of generality y is not later than z on the creator's chain
  have main : ∀ y z : Ev, y ∈ (runAll (St.init g) es).events → z ∈ (runAll (St.init g) es).events →
      y.creator = z.creator → y.wit = some true → z.wit = some true → y.round = some r → z.round = some r →
      y.index ≤ z.index → y = z := by
    intro y z hy hz hc hwy hwz hry hrz hle
    by_cases heq : y.index = z.index
    · exact unique_index hI hy hz hc heq
    · exfalso
      have hlt : y.index < z.index := by omega
      have hgy : (runAll (St.init g) es).get y.id = some y := by rw [St.get_eq _ hI]; exact getL_of_mem hI hy
      have hgz : (runAll (St.init g) es).get z.id = some z := by rw [St.get_eq _ hI]; exact getL_of_mem hI hz
      rcases sp_spec hI hz with ⟨_, h0⟩ | ⟨l, hl, hlc, hli⟩
      · obtain ⟨_, _, _, hy0⟩ := index_le_last hI hy
        omega
      · have hlm : l ∈ (runAll (St.init g) es).events := getL_mem hl
        have hlid : l.id = z.sp := by
          unfold getL at hl
          have := List.find?_some hl
          simpa using this
        have hspne : z.sp ≠ "" := by
          intro h
          have hne : l.id ≠ "" := by
            have hgl := getL_of_mem hI hlm
            intro h0
            have hget : (runAll (St.init g) es).get l.id = some l := by rw [St.get_eq _ hI]; exact hgl
            rw [h0] at hget
            unfold St.get at hget
            simp at hget
          exact hne (hlid.trans h)
        have hgl : (runAll (St.init g) es).get z.sp = some l := by rw [St.get_eq _ hI]; exact hl
        obtain ⟨rl, hrl, _, _⟩ := round_parents g es hnd hfresh z.sp l hgl
        have hanc : Anc (runAll (St.init g) es).events y.id l.id :=
          chain hI (l.index - y.index).toNat hy hlm (hc.trans hlc.symm) (by omega) rfl
        have hgl' : (runAll (St.init g) es).get l.id = some l := by rw [hlid]; exact hgl
        have h1 := anc_round_le g es hnd hfresh hI y.id l.id hanc y l r rl hgy hgl' hry hrl
        have h2 := witness_above_self_parent g es hnd hfresh z.id z l r rl hgz hwz hrz hspne hgl hrl
        omega
  by_cases hle : y.index ≤ z.index
  · exact main y z hy hz hc hwy hwz hry hrz hle
  · exact (main z y hz hy hc.symm hwz hwy hrz hry (by omega)).symm

end Babble.HG
