import Babble.Proofs.HGFrame
import Babble.Proofs.AttrOnly
/-! The topological counter is touched by `InsertEvent` only (generated from HGFrame.lean's frame
    lemmas by renaming the projection). Core Lean only. -/
namespace Babble.HG

theorem foldl_topo {α} (f : St → α → St) (h : ∀ s a, (f s a).topo = s.topo) (l : List α) (s : St) :
    (l.foldl f s).topo = s.topo := by
  induction l generalizing s with
  | nil => rfl
  | cons a l ih => simp only [List.foldl_cons]; rw [ih, h]

theorem foldl_topo_fst {α β} (f : St × β → α → St × β) (h : ∀ p a, (f p a).1.topo = p.1.topo)
    (l : List α) (p : St × β) : (l.foldl f p).1.topo = p.1.topo := by
  induction l generalizing p with
  | nil => rfl
  | cons a l ih => simp only [List.foldl_cons]; rw [ih, h]

@[simp] theorem update_topo (s : St) (id : String) (f : Ev → Ev) : (s.update id f).topo = s.topo := rfl
@[simp] theorem setRound_topo (s : St) (r : Int) (ri : RoundInfo) : (s.setRound r ri).topo = s.topo := rfl

theorem fdWalk_topo (s : St) (fuel : Nat) (ah : String) (cr : Nat) (idx : Int) :
    (s.fdWalk fuel ah cr idx).topo = s.topo := by
  induction fuel generalizing s ah with
  | zero => rfl
  | succ fuel ih =>
    unfold St.fdWalk
    split
    · rfl
    · split
      · rfl
      · simp only []
        split
        · rfl
        · rw [ih]; rfl

theorem walkOne_topo (cr : Nat) (idx : Int) (s : St) (c : Option Coord) : (walkOne cr idx s c).topo = s.topo := by
  unfold walkOne; split
  · exact fdWalk_topo _ _ _ _ _
  · rfl

theorem insertCoords_topo (s : St) (e : Ev) : (s.insertCoords e).topo = s.topo := by
  unfold St.insertCoords
  simp only []
  rw [foldl_topo _ (walkOne_topo e.creator e.index)]

theorem queueRound_topo (s : St) (r : Int) (ri : RoundInfo) : (s.queueRound r ri).topo = s.topo := by
  unfold St.queueRound; split <;> rfl

theorem assignRound_topo (s : St) (id : String) (ev : Ev) : (s.assignRound id ev).topo = s.topo := by
  unfold St.assignRound
  simp only [update_topo, setRound_topo, queueRound_topo]

theorem assignLamport_topo (s : St) (id : String) : (s.assignLamport id).topo = s.topo := by
  unfold St.assignLamport; split <;> rfl

theorem divideOne_topo (s : St) (id : String) : (divideOne s id).topo = s.topo := by
  unfold divideOne
  split
  · rfl
  · simp only []
    split <;> split <;> simp only [assignLamport_topo, assignRound_topo]

theorem divideRounds_topo (s : St) : s.divideRounds.topo = s.topo := foldl_topo _ divideOne_topo _ _

theorem decideFameRound_topo (p : St × List Int) (pr : Int × Bool) : (decideFameRound p pr).1.topo = p.1.topo := by
  unfold decideFameRound
  simp only []
  split <;> rfl

theorem decideFame_topo (s : St) : s.decideFame.topo = s.topo := by
  unfold St.decideFame
  have := foldl_topo_fst decideFameRound decideFameRound_topo s.pending (s, [])
  revert this
  generalize s.pending.foldl decideFameRound (s, []) = p
  intro h
  exact h

theorem rrLoop_topo (s : St) (x : String) (fuel : Nat) (i : Int) : (s.rrLoop x fuel i).1.topo = s.topo := by
  induction fuel generalizing s i with
  | zero => rfl
  | succ fuel ih =>
    unfold St.rrLoop
    split
    · rfl
    · split
      · split
        · rfl
        · split
          · rfl
          · rw [ih]
      · simp only []
        split
        · split
          · rfl
          · split
            · rfl
            · rw [ih]; rfl
        · split
          · rfl
          · rw [ih]; rfl

theorem receiveOne_topo (p : St × List String) (x : String) : (receiveOne p x).1.topo = p.1.topo := by
  unfold receiveOne
  simp only []
  exact rrLoop_topo _ _ _ _

theorem decideRoundReceived_topo (s : St) : s.decideRoundReceived.topo = s.topo := by
  unfold St.decideRoundReceived
  have := foldl_topo_fst receiveOne receiveOne_topo s.undet (s, [])
  revert this
  generalize s.undet.foldl receiveOne (s, []) = p
  intro h
  exact h



theorem applyReceipts_topo (s : St) (rr : Int) (itxs : List (Bool × Nat)) : (s.applyReceipts rr itxs).topo = s.topo := by
  unfold St.applyReceipts
  split
  · rfl
  · simp only []
    split <;> rfl

theorem processOne_topo (s s' : St) (h : s.processOne = some s') : s'.topo = s.topo := by
  unfold St.processOne at h
  split at h
  · cases h
  · split at h
    · cases h
    · split at h
      · cases h
      · simp only [] at h
        split at h
        · injection h with h; subst h
          simp only [St.popPending, St.addBlock]
          rw [applyReceipts_topo]
          rfl
        · injection h with h; subst h; rfl

theorem processLoop_topo (fuel : Nat) (s : St) : (s.processLoop fuel).topo = s.topo := by
  induction fuel generalizing s with
  | zero => rfl
  | succ fuel ih =>
    unfold St.processLoop
    split
    · rfl
    · rename_i s' h
      rw [ih, processOne_topo s s' h]

theorem runConsensus_topo (s : St) : s.runConsensus.topo = s.topo := by
  unfold St.runConsensus St.processDecidedRounds
  rw [processLoop_topo, decideRoundReceived_topo, decideFame_topo, divideRounds_topo]

theorem runConsensus_length (s : St) : s.runConsensus.events.length = s.events.length := by
  obtain ⟨g, _, h⟩ := runConsensus_attr s
  rw [h]; simp

end Babble.HG
