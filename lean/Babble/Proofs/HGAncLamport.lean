import Babble.Proofs.HGLamport
import Babble.Proofs.Ancestry
import Babble.Proofs.Admission
/-! The reachability relation of C07 (`Anc`, proved equal to the Go `ancestor` predicate) is, away from
    the diagonal, the proper-ancestor relation the Lamport theorems speak about.  Core Lean only. -/
namespace Babble.HG

theorem anc_proper (s : St) (hI : AdmInv s.events) (a b : String) (h : Anc s.events a b) :
    a = b ∨ ProperAncestor s a b := by
  induction h with
  | refl _ => exact Or.inl rfl
  | sp hgb hne _ ih =>
    have hb := (St.get_eq s hI _).trans hgb
    rcases ih with heq | hpa
    · exact Or.inr (ProperAncestor.parent hb (by rw [heq]; exact hne) (Or.inl heq.symm))
    · exact Or.inr (ProperAncestor.trans hpa (ProperAncestor.parent hb hne (Or.inl rfl)))
  | op hgb hne _ ih =>
    have hb := (St.get_eq s hI _).trans hgb
    rcases ih with heq | hpa
    · exact Or.inr (ProperAncestor.parent hb (by rw [heq]; exact hne) (Or.inr heq.symm))
    · exact Or.inr (ProperAncestor.trans hpa (ProperAncestor.parent hb hne (Or.inr rfl)))

end Babble.HG
