import Babble.Model.Dag
import Mathlib.Data.List.Perm.Subperm
import Mathlib.Data.List.Nodup
/-! # Structure of `Babble.Dag.info`: ancestry, canonical records, rounds, witnesses, strongly-see

Everything here is about one history `U` of events: a set of event trees that is closed under
taking parents (`DC`) and on which event ids are injective (`IdInjOn`: ids stand for hashes). -/
namespace Babble.Dag
open Babble

/-! ## ancestry -/

def ancL : E → List E
  | .nil => []
  | .mk i c s o m => .mk i c s o m :: (ancL s ++ ancL o)

/-- `Anc a e`: `a` is `e` or an ancestor of `e` -/
def Anc (a e : E) : Prop := a ∈ ancL e

def E.size : E → Nat
  | .nil => 0
  | .mk _ _ s o _ => s.size + o.size + 1

theorem anc_nil_right (a : E) : ¬ Anc a .nil := by simp [Anc, ancL]

theorem anc_mk {a : E} {i c : Nat} {s o : E} {m : Bool} :
    Anc a (.mk i c s o m) ↔ a = .mk i c s o m ∨ Anc a s ∨ Anc a o := by
  simp [Anc, ancL]

theorem anc_ne_nil {a e : E} (h : Anc a e) : a ≠ .nil := by
  induction e with
  | nil => exact absurd h (anc_nil_right a)
  | mk i c s o m ihs iho =>
    rcases anc_mk.mp h with h | h | h
    · rw [h]; simp
    · exact ihs h
    · exact iho h

theorem anc_refl {e : E} (h : e ≠ .nil) : Anc e e := by
  cases e with
  | nil => exact absurd rfl h
  | mk i c s o m => exact anc_mk.mpr (Or.inl rfl)

theorem anc_trans {a b c : E} (h1 : Anc a b) (h2 : Anc b c) : Anc a c := by
  induction c with
  | nil => exact absurd h2 (anc_nil_right b)
  | mk i cr s o m ihs iho =>
    rcases anc_mk.mp h2 with h | h | h
    · rw [h] at h1; exact h1
    · exact anc_mk.mpr (Or.inr (Or.inl (ihs h)))
    · exact anc_mk.mpr (Or.inr (Or.inr (iho h)))

theorem anc_size {a e : E} (h : Anc a e) : a.size ≤ e.size := by
  induction e with
  | nil => exact absurd h (anc_nil_right a)
  | mk i c s o m ihs iho =>
    rcases anc_mk.mp h with h | h | h
    · rw [h]; exact Nat.le_refl _
    · have := ihs h; simp only [E.size]; omega
    · have := iho h; simp only [E.size]; omega

theorem not_anc_sp {i c : Nat} {s o : E} {m : Bool} : ¬ Anc (.mk i c s o m) s := by
  intro h; have := anc_size h; simp only [E.size] at this; omega
theorem not_anc_op {i c : Nat} {s o : E} {m : Bool} : ¬ Anc (.mk i c s o m) o := by
  intro h; have := anc_size h; simp only [E.size] at this; omega

theorem sp_ne_mk {i c : Nat} {s o : E} {m : Bool} : s ≠ .mk i c s o m := by
  intro h; have := congrArg E.size h; simp only [E.size] at this; omega
theorem op_ne_mk {i c : Nat} {s o : E} {m : Bool} : o ≠ .mk i c s o m := by
  intro h; have := congrArg E.size h; simp only [E.size] at this; omega

theorem anc_sp {i c : Nat} {s o : E} {m : Bool} (h : s ≠ .nil) : Anc s (.mk i c s o m) :=
  anc_mk.mpr (Or.inr (Or.inl (anc_refl h)))
theorem anc_op {i c : Nat} {s o : E} {m : Bool} (h : o ≠ .nil) : Anc o (.mk i c s o m) :=
  anc_mk.mpr (Or.inr (Or.inr (anc_refl h)))

/-- self-parent chain, the event first -/
def selfL : E → List E
  | .nil => []
  | .mk i c s o m => .mk i c s o m :: selfL s
def SelfAnc (a e : E) : Prop := a ∈ selfL e

theorem selfAnc_anc {a e : E} (h : SelfAnc a e) : Anc a e := by
  induction e with
  | nil => simp [SelfAnc, selfL] at h
  | mk i c s o m ihs _ =>
    simp only [SelfAnc, selfL, List.mem_cons] at h
    rcases h with h | h
    · rw [h]; exact anc_refl (by simp)
    · exact anc_mk.mpr (Or.inr (Or.inl (ihs h)))

/-! ## histories -/

/-- ids are injective on `U` (ids stand for hashes) -/
def IdInjOn (U : E → Prop) : Prop := ∀ a b, U a → U b → a.id = b.id → a = b
/-- `U` is closed under taking ancestors -/
def DC (U : E → Prop) : Prop := ∀ e a, U e → Anc a e → U a

/-! ## `unionRecs` -/

theorem hasId_iff {l : List Rec} {i : Nat} : hasId l i = true ↔ ∃ r ∈ l, r.e.id = i := by
  simp [hasId]

theorem mem_unionRecs {a b : List Rec} {r : Rec} :
    r ∈ unionRecs a b ↔ r ∈ a ∨ (r ∈ b ∧ hasId a r.e.id = false) := by
  simp [unionRecs, List.mem_append, List.mem_filter]

variable (ps : List Nat)

theorem info_mk (i c : Nat) (s o : E) (m : Bool) :
    info ps (.mk i c s o m) = headRec ps (.mk i c s o m) (info ps s) (info ps o) :: unionRecs (info ps s) (info ps o) := rfl

theorem headRec_e (e : E) (isp iop : List Rec) : (headRec ps e isp iop).e = e := rfl

theorem recOf_mk (i c : Nat) (s o : E) (m : Bool) :
    recOf ps (.mk i c s o m) = headRec ps (.mk i c s o m) (info ps s) (info ps o) := rfl

theorem recOf_e {e : E} (h : e ≠ .nil) : (recOf ps e).e = e := by
  cases e with
  | nil => exact absurd rfl h
  | mk i c s o m => rfl

theorem recOf_mem {e : E} (h : e ≠ .nil) : recOf ps e ∈ info ps e := by
  cases e with
  | nil => exact absurd rfl h
  | mk i c s o m => rw [info_mk, recOf_mk]; exact List.mem_cons_self

/-- the proper ancestors' records of `e` (the tail of `info e`) -/
def tailOf (e : E) : List Rec := unionRecs (info ps e.sp) (info ps e.op)

theorem info_eq {e : E} (h : e ≠ .nil) : info ps e = recOf ps e :: tailOf ps e := by
  cases e with
  | nil => exact absurd rfl h
  | mk i c s o m => rfl

/-- every record of `info e` is the canonical record of an ancestor-or-self of `e` -/
theorem info_sound (e : E) : ∀ r ∈ info ps e, Anc r.e e ∧ r = recOf ps r.e := by
  induction e with
  | nil => intro r hr; simp [info] at hr
  | mk i c s o m ihs iho =>
    intro r hr
    rw [info_mk, List.mem_cons] at hr
    rcases hr with hr | hr
    · subst hr
      exact ⟨by rw [headRec_e]; exact anc_refl (by simp), by rw [headRec_e]; rfl⟩
    · rcases mem_unionRecs.mp hr with h | ⟨h, _⟩
      · exact ⟨anc_mk.mpr (Or.inr (Or.inl (ihs r h).1)), (ihs r h).2⟩
      · exact ⟨anc_mk.mpr (Or.inr (Or.inr (iho r h).1)), (iho r h).2⟩

/-- … and every ancestor-or-self of `e` has its canonical record in `info e` -/
theorem info_complete {U : E → Prop} (hI : IdInjOn U) (hD : DC U) (e : E) (he : U e) :
    ∀ a, Anc a e → recOf ps a ∈ info ps e := by
  induction e with
  | nil => intro a ha; exact absurd ha (anc_nil_right a)
  | mk i c s o m ihs iho =>
    intro a ha
    rw [info_mk, List.mem_cons]
    rcases anc_mk.mp ha with h | h | h
    · left; rw [h]; rfl
    · right
      have hs : U s := hD _ _ he (anc_sp (by intro hn; rw [hn] at h; exact anc_nil_right a h))
      exact mem_unionRecs.mpr (Or.inl (ihs hs a h))
    · right
      have ho : U o := hD _ _ he (anc_op (by intro hn; rw [hn] at h; exact anc_nil_right a h))
      have hmem := iho ho a h
      by_cases hid : hasId (info ps s) (recOf ps a).e.id = true
      · -- the same event is already listed on the self-parent side
        obtain ⟨r', hr', hid'⟩ := hasId_iff.mp hid
        have hsnd := info_sound ps s r' hr'
        have hane : a ≠ .nil := anc_ne_nil h
        rw [recOf_e ps hane] at hid'
        have hUr : U r'.e := hD _ _ he (anc_mk.mpr (Or.inr (Or.inl hsnd.1)))
        have hUa : U a := hD _ _ he ha
        have : r'.e = a := hI _ _ hUr hUa hid'
        refine mem_unionRecs.mpr (Or.inl ?_)
        rw [← this, ← hsnd.2]; exact hr'
      · exact mem_unionRecs.mpr (Or.inr ⟨hmem, by simpa using hid⟩)

/-- the proper ancestors of `e` have their records in the tail -/
theorem tail_complete {U : E → Prop} (hI : IdInjOn U) (hD : DC U) {e : E} (he : U e) {a : E}
    (ha : Anc a e) (hne : a ≠ e) : recOf ps a ∈ tailOf ps e := by
  have hen : e ≠ .nil := by intro h; rw [h] at ha; exact anc_nil_right a ha
  have := info_complete ps hI hD e he a ha
  rw [info_eq ps hen, List.mem_cons] at this
  rcases this with h | h
  · exfalso
    have h1 := congrArg Rec.e h
    rw [recOf_e ps (anc_ne_nil ha), recOf_e ps hen] at h1
    exact hne h1
  · exact h

theorem tail_sound {e : E} {r : Rec} (hr : r ∈ tailOf ps e) : Anc r.e e ∧ r.e ≠ e ∧ r = recOf ps r.e := by
  cases e with
  | nil => simp [tailOf, E.sp, E.op, info, unionRecs] at hr
  | mk i c s o m =>
    simp only [tailOf, E.sp, E.op] at hr
    rcases mem_unionRecs.mp hr with h | ⟨h, _⟩
    · have := info_sound ps s r h
      refine ⟨anc_mk.mpr (Or.inr (Or.inl this.1)), ?_, this.2⟩
      intro heq; rw [heq] at this; exact not_anc_sp this.1
    · have := info_sound ps o r h
      refine ⟨anc_mk.mpr (Or.inr (Or.inr this.1)), ?_, this.2⟩
      intro heq; rw [heq] at this; exact not_anc_op this.1

/-- no id is listed twice in `info e` -/
theorem info_ids_nodup {U : E → Prop} (hI : IdInjOn U) (hD : DC U) (e : E) (he : U e) :
    ((info ps e).map (fun r => r.e.id)).Nodup := by
  induction e with
  | nil => simp [info]
  | mk i c s o m ihs iho =>
    rw [info_mk, List.map_cons, List.nodup_cons]
    constructor
    · intro hmem
      obtain ⟨r, hr, hid⟩ := List.mem_map.mp hmem
      have hts := tail_sound ps (e := .mk i c s o m) (r := r) (by simpa [tailOf, E.sp, E.op] using hr)
      have hUr : U r.e := hD _ _ he hts.1
      rw [headRec_e] at hid
      exact hts.2.1 (hI _ _ hUr he hid)
    · by_cases hs : s = .nil
      · by_cases ho : o = .nil
        · subst hs; subst ho; simp [info, unionRecs]
        · have hUo : U o := hD _ _ he (anc_op ho)
          subst hs
          have : unionRecs (info ps .nil) (info ps o) = info ps o := by simp [unionRecs, info, hasId]
          rw [this]; exact iho hUo
      · have hUs : U s := hD _ _ he (anc_sp hs)
        have hns := ihs hUs
        by_cases ho : o = .nil
        · subst ho
          have : unionRecs (info ps s) (info ps .nil) = info ps s := by simp [unionRecs, info]
          rw [this]; exact hns
        · have hUo : U o := hD _ _ he (anc_op ho)
          have hno := iho hUo
          simp only [unionRecs, List.map_append]
          rw [List.nodup_append]
          refine ⟨hns, ?_, ?_⟩
          · exact (List.Nodup.sublist (List.Sublist.map _ List.filter_sublist) hno)
          · intro x hx y hy hxy
            obtain ⟨rx, hrx, hidx⟩ := List.mem_map.mp hx
            obtain ⟨ry, hry, hidy⟩ := List.mem_map.mp hy
            have hf := (List.mem_filter.mp hry).2
            have : hasId (info ps s) ry.e.id = true := hasId_iff.mpr ⟨rx, hrx, by rw [hidx, hxy, hidy]⟩
            rw [this] at hf; simp at hf

/-! ## rounds -/

theorem round_nil : round ps .nil = -1 := rfl

theorem round_eq_rec {e : E} (h : e ≠ .nil) : round ps e = (recOf ps e).round := by
  cases e with
  | nil => exact absurd rfl h
  | mk i c s o m => rfl

/-- merged coordinates of the parents, and the entries `e` uses for strongly-see -/
def laPOf (e : E) : List LaEnt := laMerge (laOf (info ps e.sp)) (laOf (info ps e.op))
def entsE (e : E) : List (Nat × List LaEnt) := entsOf e (laPOf ps e) (tailOf ps e)

theorem rOf_info (e : E) : rOf (info ps e) = round ps e := rfl

theorem parentRound_eq (s o : E) :
    parentRound (info ps s) (info ps o) =
      if o = .nil then round ps s else if round ps o > round ps s then round ps o else round ps s := by
  cases o with
  | nil => simp [parentRound, info, rOf_info]
  | mk i c s' o' m =>
    simp only [parentRound, info_mk, rOf_info, Gen.cmpRoundParent, Cmp.eval, reduceCtorEq, if_false]
    have : (headRec ps (.mk i c s' o' m) (info ps s') (info ps o')).round = round ps (.mk i c s' o' m) := rfl
    rw [this]
    by_cases h : round ps (.mk i c s' o' m) > round ps s <;> simp [h]

theorem round_mk (i c : Nat) (s o : E) (m : Bool) :
    round ps (.mk i c s o m) =
      roundFrom ps (entsE ps (.mk i c s o m)) (tailOf ps (.mk i c s o m)) (parentRound (info ps s) (info ps o)) := rfl

theorem roundFrom_cases (ents : List (Nat × List LaEnt)) (t : List Rec) (pr : Int) :
    (pr = -1 ∧ roundFrom ps ents t pr = 0) ∨
    (pr ≠ -1 ∧ sm ps ≤ (strongSeen ps ents t pr).length ∧ roundFrom ps ents t pr = pr + 1) ∨
    (pr ≠ -1 ∧ (strongSeen ps ents t pr).length < sm ps ∧ roundFrom ps ents t pr = pr) := by
  unfold roundFrom
  by_cases h : pr = -1
  · left; simp [h]
  · right
    have h' : (pr == -1) = false := by simpa using h
    simp only [h', Bool.false_eq_true, if_false, Gen.cmpRound, Cmp.evalN]
    by_cases hc : (strongSeen ps ents t pr).length ≥ sm ps
    · left; simp [h, hc]
    · right; simp [h, hc]; omega

theorem round_ge (e : E) : -1 ≤ round ps e := by
  induction e with
  | nil => simp [round_nil]
  | mk i c s o m ihs iho =>
    rw [round_mk]
    have hp := parentRound_eq ps s o
    rcases roundFrom_cases ps (entsE ps (.mk i c s o m)) (tailOf ps (.mk i c s o m)) (parentRound (info ps s) (info ps o)) with h | h | h
    · omega
    · rw [h.2.2, hp]; split <;> [omega; (split <;> omega)]
    · rw [h.2.2, hp]; split <;> [omega; (split <;> omega)]

theorem round_nonneg {e : E} (h : e ≠ .nil) : 0 ≤ round ps e := by
  cases e with
  | nil => exact absurd rfl h
  | mk i c s o m =>
    rw [round_mk]
    have hp := parentRound_eq ps s o
    have hs := round_ge ps s
    have ho := round_ge ps o
    rcases roundFrom_cases ps (entsE ps (.mk i c s o m)) (tailOf ps (.mk i c s o m)) (parentRound (info ps s) (info ps o)) with h | h | h
    · omega
    · rw [h.2.2]; have := h.1; rw [hp] at this ⊢; split at this <;> [omega; (split at this <;> omega)]
    · rw [h.2.2]; have := h.1; rw [hp] at this ⊢; split at this <;> [omega; (split at this <;> omega)]

theorem parentRound_ge (s o : E) :
    round ps s ≤ parentRound (info ps s) (info ps o) ∧ round ps o ≤ parentRound (info ps s) (info ps o) := by
  rw [parentRound_eq]
  have hs := round_ge ps s
  by_cases ho : o = .nil
  · subst ho; simp [round_nil]; exact hs
  · simp only [ho, if_false]; split <;> omega

/-- rounds never decrease from parent to child -/
theorem round_parents_le (i c : Nat) (s o : E) (m : Bool) :
    round ps s ≤ round ps (.mk i c s o m) ∧ round ps o ≤ round ps (.mk i c s o m) := by
  have hp := parentRound_ge ps s o
  have hs := round_ge ps s
  rw [round_mk]
  rcases roundFrom_cases ps (entsE ps (.mk i c s o m)) (tailOf ps (.mk i c s o m)) (parentRound (info ps s) (info ps o)) with h | h | h
  · rw [h.2]; omega
  · rw [h.2.2]; omega
  · rw [h.2.2]; omega

theorem round_mono {a e : E} (h : Anc a e) : round ps a ≤ round ps e := by
  induction e with
  | nil => exact absurd h (anc_nil_right a)
  | mk i c s o m ihs iho =>
    have hp := round_parents_le ps i c s o m
    rcases anc_mk.mp h with h | h | h
    · rw [h]; exact Int.le_refl _
    · have := ihs h; omega
    · have := iho h; omega

/-! ## witnesses -/

theorem wit_mk (i c : Nat) (s o : E) (m : Bool) :
    wit ps (.mk i c s o m) = (ps.contains c && decide (round ps (.mk i c s o m) > round ps s)) := by
  simp only [wit, recOf_mk, headRec, Gen.cmpWitness, Cmp.eval, rOf_info, E.creator]
  rfl

theorem wit_nil : wit ps .nil = false := rfl

theorem wit_round_gt {e : E} (h : wit ps e = true) : round ps e.sp < round ps e ∧ ps.contains e.creator = true := by
  cases e with
  | nil => simp [wit_nil] at h
  | mk i c s o m =>
    rw [wit_mk] at h
    simp only [Bool.and_eq_true, decide_eq_true_eq] at h
    exact ⟨h.2, h.1⟩

theorem selfAnc_sp {a e : E} (h : SelfAnc a e) (hne : a ≠ e) : SelfAnc a e.sp := by
  cases e with
  | nil => simp [SelfAnc, selfL] at h
  | mk i c s o m =>
    simp only [SelfAnc, selfL, List.mem_cons] at h
    rcases h with h | h
    · exact absurd h hne
    · exact h

/-- no creator has forked inside `U`: two events of one creator are on one self-parent chain -/
def ForkFree (U : E → Prop) : Prop :=
  ∀ a b, U a → U b → a.creator = b.creator → SelfAnc a b ∨ SelfAnc b a

/-- **one witness per creator and round** -/
theorem wit_unique {U : E → Prop} (hF : ForkFree U) {a b : E} (ha : U a) (hb : U b)
    (hwa : wit ps a = true) (hwb : wit ps b = true) (hc : a.creator = b.creator)
    (hr : round ps a = round ps b) : a = b := by
  apply Decidable.byContradiction
  intro hne
  rcases hF a b ha hb hc with h | h
  · have h1 := round_mono ps (selfAnc_anc (selfAnc_sp h hne))
    have h2 := (wit_round_gt ps hwb).1
    omega
  · have h1 := round_mono ps (selfAnc_anc (selfAnc_sp h (Ne.symm hne)))
    have h2 := (wit_round_gt ps hwa).1
    omega

/-! ## coordinates -/

theorem anc_size_lt {a e : E} (h : Anc a e) (hne : a ≠ e) : a.size < e.size := by
  cases e with
  | nil => exact absurd h (anc_nil_right a)
  | mk i c s o m =>
    rcases anc_mk.mp h with h | h | h
    · exact absurd h hne
    · have := anc_size h; simp only [E.size]; omega
    · have := anc_size h; simp only [E.size]; omega

theorem anc_antisymm {a b : E} (h1 : Anc a b) (h2 : Anc b a) : a = b := by
  apply Decidable.byContradiction
  intro hne
  have := anc_size_lt h1 hne
  have := anc_size_lt h2 (Ne.symm hne)
  omega

theorem laOf_info {e : E} (h : e ≠ .nil) : laOf (info ps e) = (recOf ps e).la := by
  rw [info_eq ps h]; rfl
theorem laOf_info_nil : laOf (info ps .nil) = [] := rfl

theorem mem_laMerge {a b : List LaEnt} {x : LaEnt} (h : x ∈ laMerge a b) : x ∈ a ∨ x ∈ b := by
  simp only [laMerge, List.mem_append, List.mem_map, List.mem_filter] at h
  rcases h with ⟨y, hy, hx⟩ | ⟨hx, _⟩
  · cases hg : laGet b y.creator with
    | none => rw [hg] at hx; left; rw [← hx]; exact hy
    | some z =>
      rw [hg] at hx
      by_cases hlt : y.ev.idx < z.ev.idx
      · simp only [hlt, if_true] at hx
        right; rw [← hx]; exact List.mem_of_find?_eq_some hg
      · simp only [hlt, if_false] at hx
        left; rw [← hx]; exact hy
  · right; exact hx

theorem recOf_la (i c : Nat) (s o : E) (m : Bool) :
    (recOf ps (.mk i c s o m)).la =
      laSet (laPOf ps (.mk i c s o m)) ⟨c, .mk i c s o m, round ps (.mk i c s o m)⟩ := rfl

/-- every coordinate of an event points to one of its ancestors-or-self -/
theorem la_sound (e : E) : ∀ x ∈ (recOf ps e).la, Anc x.ev e := by
  induction e with
  | nil => intro x hx; simp [recOf, info] at hx; exact absurd hx (by simp [default]; intro h; cases h)
  | mk i c s o m ihs iho =>
    intro x hx
    rw [recOf_la] at hx
    simp only [laSet, List.mem_cons, List.mem_filter] at hx
    rcases hx with hx | ⟨hx, _⟩
    · rw [hx]; exact anc_refl (by simp)
    · simp only [laPOf, E.sp, E.op] at hx
      rcases mem_laMerge hx with h | h
      · by_cases hs : s = .nil
        · subst hs; simp [laOf_info_nil] at h
        · rw [laOf_info ps hs] at h
          exact anc_mk.mpr (Or.inr (Or.inl (ihs x h)))
      · by_cases ho : o = .nil
        · subst ho; simp [laOf_info_nil] at h
        · rw [laOf_info ps ho] at h
          exact anc_mk.mpr (Or.inr (Or.inr (iho x h)))

theorem laP_sound {e : E} {x : LaEnt} (hx : x ∈ laPOf ps e) : Anc x.ev e ∧ x.ev ≠ e := by
  cases e with
  | nil => simp [laPOf, E.sp, E.op, laOf_info_nil, laMerge] at hx
  | mk i c s o m =>
    simp only [laPOf, E.sp, E.op] at hx
    rcases mem_laMerge hx with h | h
    · by_cases hs : s = .nil
      · subst hs; simp [laOf_info_nil] at h
      · rw [laOf_info ps hs] at h
        have := la_sound ps s x h
        exact ⟨anc_mk.mpr (Or.inr (Or.inl this)), by intro heq; rw [heq] at this; exact not_anc_sp this⟩
    · by_cases ho : o = .nil
      · subst ho; simp [laOf_info_nil] at h
      · rw [laOf_info ps ho] at h
        have := la_sound ps o x h
        exact ⟨anc_mk.mpr (Or.inr (Or.inr this)), by intro heq; rw [heq] at this; exact not_anc_op this⟩

theorem laGet_filter_ne (la : List LaEnt) (c p : Nat) (h : p ≠ c) :
    laGet (la.filter (fun x => x.creator != c)) p = laGet la p := by
  induction la with
  | nil => rfl
  | cons x l ih =>
    by_cases hx : x.creator = c
    · have : (x.creator != c) = false := by simp [hx]
      simp only [List.filter_cons, this, Bool.false_eq_true, if_false]
      rw [ih]
      simp only [laGet, List.find?_cons]
      have : (x.creator == p) = false := by simp [hx]; exact Ne.symm h
      rw [this]
    · have : (x.creator != c) = true := by simp [hx]
      simp only [List.filter_cons, this, if_true]
      simp only [laGet, List.find?_cons] at ih ⊢
      rw [ih]

theorem laGet_filter_eq (la : List LaEnt) (c : Nat) :
    laGet (la.filter (fun x => x.creator != c)) c = none := by
  simp only [laGet, List.find?_eq_none, List.mem_filter]
  intro x ⟨_, hx⟩; simpa using hx

theorem laGet_laSet_ne (la : List LaEnt) (ent : LaEnt) (p : Nat) (h : p ≠ ent.creator) :
    laGet (laSet la ent) p = laGet la p := by
  simp only [laSet, laGet, List.find?_cons]
  have : (ent.creator == p) = false := by simp; exact Ne.symm h
  rw [this]
  exact laGet_filter_ne la ent.creator p h

theorem selfAncB_iff {wid : Nat} {e : E} : selfAncB wid e = true ↔ ∃ b, SelfAnc b e ∧ b.id = wid := by
  induction e with
  | nil => simp [selfAncB, SelfAnc, selfL]
  | mk i c s o m ihs _ =>
    simp only [selfAncB, Bool.or_eq_true, beq_iff_eq, SelfAnc, selfL, List.mem_cons]
    constructor
    · rintro (h | h)
      · exact ⟨_, Or.inl rfl, h⟩
      · obtain ⟨b, hb, hid⟩ := ihs.mp h
        exact ⟨b, Or.inr hb, hid⟩
    · rintro ⟨b, hb | hb, hid⟩
      · left; rw [hb] at hid; exact hid
      · right; exact ihs.mpr ⟨b, hb, hid⟩

/-! ## strongly-see -/

/-- `y` strongly sees `w` -/
def sseeE (y w : E) : Bool := sseeB ps (entsE ps y) (recOf ps w)
/-- the witnesses of the previous round that `y` strongly sees -/
def sswE (y : E) : List Rec := strongSeen ps (entsE ps y) (tailOf ps y) (round ps y - 1)

theorem filter_length_mono {α} (l : List α) (p q : α → Bool) (h : ∀ a ∈ l, p a = true → q a = true) :
    (l.filter p).length ≤ (l.filter q).length := by
  induction l with
  | nil => simp
  | cons a l ih =>
    have ih' := ih (fun b hb => h b (List.mem_cons_of_mem a hb))
    simp only [List.filter_cons]
    by_cases hp : p a = true
    · have hq := h a List.mem_cons_self hp
      simp only [hp, hq, if_true, List.length_cons]; omega
    · simp only [hp, Bool.false_eq_true, if_false]
      by_cases hq : q a = true
      · simp only [hq, if_true, List.length_cons]; omega
      · simp only [hq, Bool.false_eq_true, if_false]; exact ih'

theorem reach_self_entry (y : E) (wid p : Nat) (rw : Int)
    (h : reach ((laPOf ps y).filter (fun x => x.creator != y.creator)) wid p rw = true) :
    reach (recOf ps y).la wid p rw = true := by
  cases y with
  | nil => simp [laPOf, E.sp, E.op, laOf_info_nil, laMerge, reach, laGet] at h
  | mk i c s o m =>
    by_cases hp : p = c
    · subst hp
      simp only [reach, E.creator, laGet_filter_eq] at h
      exact absurd h (by simp)
    · rw [recOf_la]
      simp only [reach] at h ⊢
      rw [laGet_laSet_ne _ _ _ (by simpa using hp)]
      rw [E.creator, laGet_filter_ne _ _ _ hp] at h
      exact h

/-- what an event strongly sees, its descendants strongly see -/
theorem ents_mono {U : E → Prop} (hI : IdInjOn U) (hD : DC U) {y y' : E} (hy' : U y')
    (h : Anc y y') (w : Rec) (cr : Nat)
    (hc : (entsE ps y).any (fun z => z.1 == cr && reach z.2 w.e.id w.e.creator w.round) = true) :
    (entsE ps y').any (fun z => z.1 == cr && reach z.2 w.e.id w.e.creator w.round) = true := by
  by_cases heq : y = y'
  · rw [← heq]; exact hc
  · have hyn : y ≠ .nil := anc_ne_nil h
    rw [List.any_eq_true] at hc ⊢
    obtain ⟨z, hz, hP⟩ := hc
    simp only [entsE, entsOf, List.mem_cons, List.mem_map] at hz
    simp only [Bool.and_eq_true, beq_iff_eq] at hP
    have hry : recOf ps y ∈ tailOf ps y' := tail_complete ps hI hD hy' h heq
    rcases hz with hz | ⟨r, hr, hz⟩
    · refine ⟨(y.creator, (recOf ps y).la), ?_, ?_⟩
      · simp only [entsE, entsOf, List.mem_cons, List.mem_map]
        right; exact ⟨recOf ps y, hry, by rw [recOf_e ps hyn]⟩
      · rw [hz] at hP
        simp only [Bool.and_eq_true, beq_iff_eq]
        exact ⟨hP.1, reach_self_entry ps y _ _ _ hP.2⟩
    · have hts := tail_sound ps hr
      have hanc : Anc r.e y' := anc_trans hts.1 h
      have hne : r.e ≠ y' := by
        intro he; rw [he] at hts
        exact heq (anc_antisymm h hts.1)
      have hmem := tail_complete ps hI hD hy' hanc hne
      rw [← hts.2.2] at hmem
      refine ⟨z, ?_, by simpa using hP⟩
      simp only [entsE, entsOf, List.mem_cons, List.mem_map]
      right; exact ⟨r, hmem, hz⟩

theorem sseeB_iff (ents : List (Nat × List LaEnt)) (w : Rec) :
    sseeB ps ents w = true ↔ sm ps ≤ sseeCount ps ents w := by
  simp [sseeB, Gen.cmpStronglySee, Cmp.evalN]

theorem sseeB_mono {U : E → Prop} (hI : IdInjOn U) (hD : DC U) {y y' : E} (hy' : U y')
    (h : Anc y y') (w : Rec) (hs : sseeB ps (entsE ps y) w = true) : sseeB ps (entsE ps y') w = true := by
  rw [sseeB_iff] at hs ⊢
  unfold sseeCount at hs ⊢
  have := filter_length_mono ps
    (fun cr => (entsE ps y).any (fun z => z.1 == cr && reach z.2 w.e.id w.e.creator w.round))
    (fun cr => (entsE ps y').any (fun z => z.1 == cr && reach z.2 w.e.id w.e.creator w.round))
    (fun cr _ hc => ents_mono ps hI hD hy' h w cr hc)
  omega

theorem sm_pos : 0 < sm ps := by unfold sm Gen.superMajority; omega

/-- a strongly seen event is an ancestor -/
theorem ssee_anc {U : E → Prop} (hI : IdInjOn U) (hD : DC U) {y w : E} (hy : U y) (hw : U w)
    (hwn : w ≠ .nil) (hs : sseeE ps y w = true) : Anc w y := by
  rw [sseeE, sseeB_iff] at hs
  unfold sseeCount at hs
  have hpos := sm_pos ps
  have hne : ps.filter (fun cr => (entsE ps y).any (fun z => z.1 == cr &&
      reach z.2 (recOf ps w).e.id (recOf ps w).e.creator (recOf ps w).round)) ≠ [] := by
    intro h; rw [h] at hs; simp at hs; omega
  obtain ⟨cr, hcr⟩ := List.exists_mem_of_ne_nil _ hne
  have hany := (List.mem_filter.mp hcr).2
  rw [List.any_eq_true] at hany
  obtain ⟨z, hz, hP⟩ := hany
  simp only [Bool.and_eq_true, beq_iff_eq] at hP
  have hreach := hP.2
  rw [recOf_e ps hwn] at hreach
  -- the coordinate reached is an ancestor of y
  have key : ∀ la : List LaEnt, (∀ x ∈ la, Anc x.ev y) → reach la w.id w.creator (recOf ps w).round = true → Anc w y := by
    intro la hla hr
    simp only [reach] at hr
    cases hg : laGet la w.creator with
    | none => rw [hg] at hr; simp at hr
    | some a =>
      rw [hg] at hr
      simp only [Bool.and_eq_true] at hr
      obtain ⟨b, hb, hid⟩ := selfAncB_iff.mp hr.1
      have ha : Anc a.ev y := hla a (List.mem_of_find?_eq_some hg)
      have hby : Anc b y := anc_trans (selfAnc_anc hb) ha
      have : b = w := hI _ _ (hD _ _ hy hby) hw hid
      rw [← this]; exact hby
  simp only [entsE, entsOf, List.mem_cons, List.mem_map] at hz
  rcases hz with hz | ⟨r, hr, hz⟩
  · rw [hz] at hreach
    exact key _ (fun x hx => (laP_sound ps (List.mem_filter.mp hx).1).1) hreach
  · have hts := tail_sound ps hr
    rw [← hz] at hreach
    refine key r.la (fun x hx => ?_) hreach
    have : x ∈ (recOf ps r.e).la := by rw [← hts.2.2]; exact hx
    exact anc_trans (la_sound ps r.e x this) hts.1

theorem mem_strongSeen {ents : List (Nat × List LaEnt)} {t : List Rec} {ρ : Int} {r : Rec} :
    r ∈ strongSeen ps ents t ρ ↔ r ∈ t ∧ r.wit = true ∧ r.round = ρ ∧ sseeB ps ents r = true := by
  simp [strongSeen, List.mem_filter, and_assoc]

theorem tail_nodup {U : E → Prop} (hI : IdInjOn U) (hD : DC U) {e : E} (he : U e) : (tailOf ps e).Nodup := by
  by_cases hn : e = .nil
  · subst hn; simp [tailOf, E.sp, E.op, info, unionRecs]
  · have := info_ids_nodup ps hI hD e he
    rw [info_eq ps hn, List.map_cons, List.nodup_cons] at this
    exact List.Nodup.of_map _ this.2

theorem mem_sswE {y : E} {r : Rec} :
    r ∈ sswE ps y ↔ r ∈ tailOf ps y ∧ r.wit = true ∧ r.round = round ps y - 1 ∧ sseeB ps (entsE ps y) r = true :=
  mem_strongSeen ps

theorem sswE_nodup {U : E → Prop} (hI : IdInjOn U) (hD : DC U) {y : E} (hy : U y) : (sswE ps y).Nodup :=
  List.Nodup.sublist List.filter_sublist (tail_nodup ps hI hD hy)

/-- the strongly seen witnesses of a parent with the same round are strongly seen by the child -/
theorem sswE_parent_subset {U : E → Prop} (hI : IdInjOn U) (hD : DC U) {y q : E} (hy : U y)
    (hq : Anc q y) (hne : q ≠ y) (hr : round ps q = round ps y) : sswE ps q ⊆ sswE ps y := by
  intro r hr'
  obtain ⟨ht, hw, hrd, hs⟩ := (mem_sswE ps).mp hr'
  have hts := tail_sound ps ht
  refine (mem_sswE ps).mpr ⟨?_, hw, by rw [hrd, hr], sseeB_mono ps hI hD hy hq r hs⟩
  have hanc : Anc r.e y := anc_trans hts.1 hq
  have hney : r.e ≠ y := by
    intro he; rw [he] at hts; exact hne (anc_antisymm hq hts.1)
  have := tail_complete ps hI hD hy hanc hney
  rw [← hts.2.2] at this; exact this

/-- **every event of round ρ ≥ 1 strongly sees a supermajority of the witnesses of round ρ - 1**
    (either it advanced the round itself, or it inherits what a parent of the same round sees) -/
theorem sswE_card {U : E → Prop} (hI : IdInjOn U) (hD : DC U) (y : E) (hy : U y)
    (hr : 1 ≤ round ps y) : sm ps ≤ (sswE ps y).length := by
  induction y with
  | nil => simp [round_nil] at hr
  | mk i c s o m ihs iho =>
    have hrm := round_mk ps i c s o m
    have hp := parentRound_eq ps s o
    rcases roundFrom_cases ps (entsE ps (.mk i c s o m)) (tailOf ps (.mk i c s o m)) (parentRound (info ps s) (info ps o)) with h | h | h
    · rw [hrm, h.2] at hr; omega
    · -- the event advanced the round itself
      have : round ps (.mk i c s o m) - 1 = parentRound (info ps s) (info ps o) := by rw [hrm, h.2.2]; omega
      unfold sswE; rw [this]; exact h.2.1
    · -- same round as a parent
      have hreq : round ps (.mk i c s o m) = parentRound (info ps s) (info ps o) := by rw [hrm, h.2.2]
      have hsub : ∀ q, Anc q (.mk i c s o m) → q ≠ .mk i c s o m → U q → round ps q = round ps (.mk i c s o m) →
          sm ps ≤ (sswE ps q).length → sm ps ≤ (sswE ps (.mk i c s o m)).length := by
        intro q hq hne _ hrq hle
        have hsp := (sswE_nodup ps hI hD (hD _ _ hy hq)).subperm (sswE_parent_subset ps hI hD hy hq hne hrq)
        exact Nat.le_trans hle hsp.length_le
      by_cases ho : o = .nil
      · have hrs : round ps s = round ps (.mk i c s o m) := by rw [hreq, hp]; simp [ho]
        have hsn : s ≠ .nil := by
          intro hn; have h1 : round ps s = -1 := by rw [hn]; rfl
          omega
        have hUs : U s := hD _ _ hy (anc_sp hsn)
        exact hsub s (anc_sp hsn) sp_ne_mk hUs hrs
          (ihs hUs (by omega))
      · by_cases hgt : round ps o > round ps s
        · have hro : round ps o = round ps (.mk i c s o m) := by rw [hreq, hp]; simp [ho, hgt]
          have hUo : U o := hD _ _ hy (anc_op ho)
          exact hsub o (anc_op ho) op_ne_mk hUo hro
            (iho hUo (by omega))
        · have hrs : round ps s = round ps (.mk i c s o m) := by rw [hreq, hp]; simp [ho, hgt]
          have hsn : s ≠ .nil := by
            intro hn; have h1 : round ps s = -1 := by rw [hn]; rfl
            omega
          have hUs : U s := hD _ _ hy (anc_sp hsn)
          exact hsub s (anc_sp hsn) sp_ne_mk hUs hrs
            (ihs hUs (by omega))

/-! ## votes and decisions -/

theorem find_keyed_map {β} (l : List Rec) (g : Rec → β) (hnd : (l.map (fun r => r.e.id)).Nodup)
    {r : Rec} (hr : r ∈ l) :
    (l.map (fun x => (x.e.id, g x))).find? (fun p => p.1 == r.e.id) = some (r.e.id, g r) := by
  induction l with
  | nil => simp at hr
  | cons a l ih =>
    rw [List.map_cons, List.nodup_cons] at hnd
    rw [List.map_cons, List.find?_cons]
    rcases List.mem_cons.mp hr with h | h
    · subst h; simp
    · have hne : a.e.id ≠ r.e.id := by
        intro he; exact hnd.1 (List.mem_map.mpr ⟨r, h, he.symm⟩)
      have : ((a.e.id, g a).1 == r.e.id) = false := by simpa using hne
      rw [this]; exact ih hnd.2 h

theorem find_keyed_none {β} (l : List Rec) (g : Rec → β) (i : Nat) (h : ∀ r ∈ l, r.e.id ≠ i) :
    (l.map (fun x => (x.e.id, g x))).find? (fun p => p.1 == i) = none := by
  simp only [List.find?_eq_none, List.mem_map]
  rintro p ⟨r, hr, rfl⟩
  simpa using h r hr

theorem find_keyed_filterMap (l : List Rec) (g : Rec → Option Bool) (hnd : (l.map (fun r => r.e.id)).Nodup)
    {r : Rec} (hr : r ∈ l) :
    ((l.filterMap (fun x => (g x).map (fun b => (x.e.id, b)))).find? (fun p => p.1 == r.e.id)).map (·.2) = g r := by
  induction l with
  | nil => simp at hr
  | cons a l ih =>
    rw [List.map_cons, List.nodup_cons] at hnd
    rcases List.mem_cons.mp hr with h | h
    · subst h
      rw [List.filterMap_cons]
      cases hg : g r with
      | some b => simp
      | none =>
        simp only [Option.map_none]
        have : (l.filterMap (fun x => (g x).map (fun b => (x.e.id, b)))).find? (fun p => p.1 == r.e.id) = none := by
          simp only [List.find?_eq_none, List.mem_filterMap]
          rintro p ⟨r', hr', hp⟩
          cases hg' : g r' with
          | none => rw [hg'] at hp; simp at hp
          | some b' =>
            rw [hg'] at hp; simp at hp; rw [← hp]
            simp only [beq_iff_eq]
            intro he; exact hnd.1 (List.mem_map.mpr ⟨r', hr', he⟩)
        rw [this]; rfl
    · have hne : a.e.id ≠ r.e.id := by
        intro he; exact hnd.1 (List.mem_map.mpr ⟨r, h, he.symm⟩)
      rw [List.filterMap_cons]
      cases hg : g a with
      | none => simp only [Option.map_none]; exact ih hnd.2 h
      | some b =>
        simp only [Option.map_some, List.find?_cons]
        have : (a.e.id == r.e.id) = false := by simpa using hne
        rw [this]; exact ih hnd.2 h

/-- the candidates `y` votes on: the witnesses of earlier rounds among its proper ancestors -/
def candsE (y : E) : List Rec := (tailOf ps y).filter (fun x => x.wit && decide (x.round < round ps y))

/-- vote and decision of `y` on a candidate record -/
def voteSpec (y : E) (x : Rec) : Bool × Option Bool :=
  voteOn ps (round ps y) y.mid (recOf ps y).ancs (sswE ps y) x

theorem recOf_wit {e : E} : (recOf ps e).wit = wit ps e := rfl
theorem recOf_round {e : E} (h : e ≠ .nil) : (recOf ps e).round = round ps e := (round_eq_rec ps h).symm

theorem recOf_votes (i c : Nat) (s o : E) (m : Bool) :
    (recOf ps (.mk i c s o m)).votes =
      if wit ps (.mk i c s o m) = true then
        (candsE ps (.mk i c s o m)).map (fun x => (x.e.id, (voteSpec ps (.mk i c s o m) x).1))
      else [] := by
  have hw : wit ps (.mk i c s o m) = (headRec ps (.mk i c s o m) (info ps s) (info ps o)).wit := rfl
  by_cases h : (headRec ps (.mk i c s o m) (info ps s) (info ps o)).wit = true
  · rw [hw, if_pos h, recOf_mk]
    simp only [headRec] at h ⊢
    rw [if_pos h, List.map_map]
    rfl
  · rw [hw, if_neg h, recOf_mk]
    simp only [headRec] at h ⊢
    rw [if_neg h]; rfl

theorem recOf_decs (i c : Nat) (s o : E) (m : Bool) :
    (recOf ps (.mk i c s o m)).decs =
      if wit ps (.mk i c s o m) = true then
        (candsE ps (.mk i c s o m)).filterMap (fun x => (voteSpec ps (.mk i c s o m) x).2.map (fun b => (x.e.id, b)))
      else [] := by
  have hw : wit ps (.mk i c s o m) = (headRec ps (.mk i c s o m) (info ps s) (info ps o)).wit := rfl
  by_cases h : (headRec ps (.mk i c s o m) (info ps s) (info ps o)).wit = true
  · rw [hw, if_pos h, recOf_mk]
    simp only [headRec] at h ⊢
    rw [if_pos h, List.filterMap_map]
    rfl
  · rw [hw, if_neg h, recOf_mk]
    simp only [headRec] at h ⊢
    rw [if_neg h]; rfl

theorem recOf_nssw (i c : Nat) (s o : E) (m : Bool) :
    (recOf ps (.mk i c s o m)).nssw = (sswE ps (.mk i c s o m)).length := rfl

theorem recOf_ancs (i c : Nat) (s o : E) (m : Bool) :
    (recOf ps (.mk i c s o m)).ancs = i :: (tailOf ps (.mk i c s o m)).map (fun r => r.e.id) := rfl

theorem tail_ids_nodup {U : E → Prop} (hI : IdInjOn U) (hD : DC U) {e : E} (he : U e) :
    ((tailOf ps e).map (fun r => r.e.id)).Nodup := by
  by_cases hn : e = .nil
  · subst hn; simp [tailOf, E.sp, E.op, info, unionRecs]
  · have := info_ids_nodup ps hI hD e he
    rw [info_eq ps hn, List.map_cons, List.nodup_cons] at this
    exact this.2

theorem cands_ids_nodup {U : E → Prop} (hI : IdInjOn U) (hD : DC U) {e : E} (he : U e) :
    ((candsE ps e).map (fun r => r.e.id)).Nodup :=
  List.Nodup.sublist (List.Sublist.map _ List.filter_sublist) (tail_ids_nodup ps hI hD he)

/-- `ancs` is the set of ids of the ancestors-or-self -/
theorem ancs_contains {U : E → Prop} (hI : IdInjOn U) (hD : DC U) {y x : E} (hy : U y) (hx : U x)
    (hyn : y ≠ .nil) (hxn : x ≠ .nil) : (recOf ps y).ancs.contains x.id = true ↔ Anc x y := by
  cases y with
  | nil => exact absurd rfl hyn
  | mk i c s o m =>
    rw [recOf_ancs, List.contains_iff_mem, List.mem_cons, List.mem_map]
    constructor
    · rintro (h | ⟨r, hr, hid⟩)
      · have : x = .mk i c s o m := hI _ _ hx hy (by simpa [E.id] using h)
        rw [this]; exact anc_refl (by simp)
      · have hts := tail_sound ps hr
        have : r.e = x := hI _ _ (hD _ _ hy hts.1) hx hid
        rw [← this]; exact hts.1
    · intro h
      by_cases he : x = .mk i c s o m
      · left; rw [he]; rfl
      · right
        exact ⟨recOf ps x, tail_complete ps hI hD hy h he, by rw [recOf_e ps hxn]⟩

theorem mem_candsE {U : E → Prop} (hI : IdInjOn U) (hD : DC U) {y x : E} (hy : U y)
    (hanc : Anc x y) (hne : x ≠ y) (hw : wit ps x = true) (hr : round ps x < round ps y) :
    recOf ps x ∈ candsE ps y := by
  have hxn := anc_ne_nil hanc
  simp only [candsE, List.mem_filter, Bool.and_eq_true, decide_eq_true_eq]
  exact ⟨tail_complete ps hI hD hy hanc hne, hw, by rw [recOf_round ps hxn]; exact hr⟩

/-- the vote of a witness on a candidate among its ancestors is the recorded tally -/
theorem vote_cand {U : E → Prop} (hI : IdInjOn U) (hD : DC U) {y x : E} (hy : U y)
    (hwy : wit ps y = true) (hanc : Anc x y) (hw : wit ps x = true) (hr : round ps x < round ps y) :
    vote ps y x = (voteSpec ps y (recOf ps x)).1 := by
  have hne : x ≠ y := by intro h; rw [h] at hr; omega
  have hxn := anc_ne_nil hanc
  have hm := mem_candsE ps hI hD hy hanc hne hw hr
  cases y with
  | nil => simp [wit_nil] at hwy
  | mk i c s o m =>
    unfold vote voteGet
    rw [recOf_votes, if_pos hwy]
    have := find_keyed_map (candsE ps (.mk i c s o m)) (fun x => (voteSpec ps (.mk i c s o m) x).1)
      (cands_ids_nodup ps hI hD hy) hm
    rw [recOf_e ps hxn] at this
    rw [this]; rfl

theorem decision_cand {U : E → Prop} (hI : IdInjOn U) (hD : DC U) {y x : E} (hy : U y) (hx : U x)
    (hwy : wit ps y = true) (hanc : Anc x y) (hw : wit ps x = true) (hr : round ps x < round ps y) :
    decision ps y x = (voteSpec ps y (recOf ps x)).2 := by
  have hne : x ≠ y := by intro h; rw [h] at hr; omega
  have hxn := anc_ne_nil hanc
  have hyn : y ≠ .nil := by intro h; rw [h] at hanc; exact anc_nil_right x hanc
  have hm := mem_candsE ps hI hD hy hanc hne hw hr
  have hc := (ancs_contains ps hI hD hy hx hyn hxn).mpr hanc
  unfold decision decideRec
  rw [recOf_wit, recOf_wit, hwy, hw, recOf_round ps hxn, recOf_round ps hyn, recOf_e ps hxn]
  simp only [Bool.and_self, Bool.true_and, decide_eq_true_eq, hr, decide_true, Bool.not_true,
    Bool.false_eq_true, if_false, hc, if_true]
  cases y with
  | nil => exact absurd rfl hyn
  | mk i c s o m =>
    rw [recOf_decs, if_pos hwy]
    have := find_keyed_filterMap (candsE ps (.mk i c s o m)) (fun x => (voteSpec ps (.mk i c s o m) x).2)
      (cands_ids_nodup ps hI hD hy) hm
    rw [recOf_e ps hxn] at this
    exact this

/-- a witness casts no vote on an event that is not among its ancestors: `false` -/
theorem vote_nonanc {U : E → Prop} (hI : IdInjOn U) (hD : DC U) {y x : E} (hy : U y) (hx : U x)
    (hn : ¬ Anc x y) : vote ps y x = false := by
  cases y with
  | nil => rfl
  | mk i c s o m =>
    unfold vote voteGet
    rw [recOf_votes]
    by_cases hwy : wit ps (.mk i c s o m) = true
    · rw [if_pos hwy]
      rw [find_keyed_none]
      · rfl
      · intro r hr hid
        have hts := tail_sound ps (List.mem_filter.mp hr).1
        have : r.e = x := hI _ _ (hD _ _ hy hts.1) hx hid
        rw [this] at hts; exact hn hts.1
    · rw [if_neg hwy]; rfl

theorem decision_nonanc {U : E → Prop} (hI : IdInjOn U) (hD : DC U) {y x : E} (hy : U y) (hx : U x)
    (hxn : x ≠ .nil) (hwy : wit ps y = true) (hw : wit ps x = true) (hr : round ps x < round ps y)
    (hn : ¬ Anc x y) :
    decision ps y x =
      if Gen.cmpFirstVoteRound.eval (round ps y - round ps x) 1 then none
      else (tally ps (round ps y - round ps x) y.mid 0 (sswE ps y).length).2 := by
  have hyn : y ≠ .nil := by intro h; rw [h, wit_nil] at hwy; simp at hwy
  have hc : (recOf ps y).ancs.contains x.id = false := by
    rw [Bool.eq_false_iff]; intro h; exact hn ((ancs_contains ps hI hD hy hx hyn hxn).mp h)
  unfold decision decideRec
  rw [recOf_wit, recOf_wit, hwy, hw, recOf_round ps hxn, recOf_round ps hyn, recOf_e ps hxn, recOf_e ps hyn]
  simp only [Bool.and_self, Bool.true_and, decide_eq_true_eq, hr, decide_true, Bool.not_true,
    Bool.false_eq_true, if_false, hc]
  cases y with
  | nil => exact absurd rfl hyn
  | mk i c s o m => rw [recOf_nssw]

/-- a decision is only ever taken by a witness, on a witness of an earlier round -/
theorem decision_some {y x : E} {b : Bool} (h : decision ps y x = some b) :
    wit ps y = true ∧ wit ps x = true ∧ (recOf ps x).round < (recOf ps y).round := by
  unfold decision decideRec at h
  by_cases hc : ((recOf ps y).wit && (recOf ps x).wit && decide ((recOf ps x).round < (recOf ps y).round)) = true
  · simp only [Bool.and_eq_true, decide_eq_true_eq] at hc
    exact ⟨hc.1.1, hc.1.2, hc.2⟩
  · simp only [Bool.not_eq_true] at hc
    rw [hc] at h; simp at h


/-! ## the evaluation with sharing computes `info` -/

theorem headE_info {e : E} : headE (info ps e) = e := by
  cases e with
  | nil => rfl
  | mk i c s o m => rfl

/-- every table entry is `info` of the event tree it stands for -/
def TblOK (tbl : List (Nat × List Rec)) : Prop :=
  ∀ p ∈ tbl, p.2 = info ps (headE p.2) ∧ (headE p.2).id = p.1

theorem lookupInfo_ok {tbl : List (Nat × List Rec)} (h : TblOK ps tbl) (i : Nat) :
    lookupInfo tbl i = info ps (headE (lookupInfo tbl i)) := by
  unfold lookupInfo
  cases hf : tbl.find? (fun p => p.1 == i) with
  | none => rfl
  | some p => exact (h p (List.mem_of_find?_eq_some hf)).1

theorem buildStep_ok {tbl : List (Nat × List Rec)} (h : TblOK ps tbl) (nd : Node) : TblOK ps (buildStep ps tbl nd) := by
  intro p hp
  simp only [buildStep, List.mem_cons] at hp
  rcases hp with hp | hp
  · subst hp
    simp only []
    have e1 := lookupInfo_ok ps h nd.sp
    have e2 := lookupInfo_ok ps h nd.op
    have : infoStep ps (.mk nd.id nd.creator (headE (lookupInfo tbl nd.sp)) (headE (lookupInfo tbl nd.op)) nd.mid)
        (lookupInfo tbl nd.sp) (lookupInfo tbl nd.op) =
        info ps (.mk nd.id nd.creator (headE (lookupInfo tbl nd.sp)) (headE (lookupInfo tbl nd.op)) nd.mid) := by
      show _ = infoStep ps _ (info ps (headE (lookupInfo tbl nd.sp))) (info ps (headE (lookupInfo tbl nd.op)))
      rw [← e1, ← e2]
    rw [this, headE_info]
    exact ⟨rfl, rfl⟩
  · exact h p hp

/-- **`build` evaluates `info`**: whatever the order of the node list, every entry of the table is
    exactly `info` of the event tree assembled for it (the executable compared with the Go code is
    the function the theorems are about) -/
theorem build_ok (nodes : List Node) : TblOK ps (build ps nodes) := by
  unfold build
  suffices h : ∀ tbl, TblOK ps tbl → TblOK ps (nodes.foldl (buildStep ps) tbl) from h [] (by intro p hp; simp at hp)
  induction nodes with
  | nil => intro tbl h; exact h
  | cons nd l ih => intro tbl h; exact ih _ (buildStep_ok ps h nd)


/-! ## Lamport timestamps -/

def lamport (e : E) : Int := lOf (info ps e)

theorem lamport_nil : lamport ps .nil = -1 := rfl

theorem lamport_mk (i c : Nat) (s o : E) (m : Bool) :
    lamport ps (.mk i c s o m) =
      (if o = .nil then lamport ps s else if lamport ps o > lamport ps s then lamport ps o else lamport ps s) + 1 := by
  show (headRec ps (.mk i c s o m) (info ps s) (info ps o)).lamport = _
  simp only [headRec, lamportFrom]
  cases o with
  | nil => simp [info, lamport]
  | mk i' c' s' o' m' =>
    simp only [info_mk, Gen.cmpLamport, Cmp.eval, reduceCtorEq, if_false]
    show (if decide ((headRec ps (.mk i' c' s' o' m') (info ps s') (info ps o')).lamport > lOf (info ps s)) = true then _ else _) + 1 = _
    by_cases h : (headRec ps (.mk i' c' s' o' m') (info ps s') (info ps o')).lamport > lOf (info ps s)
    · simp only [h, decide_true, if_true]
      have : lamport ps (.mk i' c' s' o' m') > lamport ps s := h
      simp only [this, if_true]; rfl
    · simp only [h, decide_false, Bool.false_eq_true, if_false]
      have : ¬ lamport ps (.mk i' c' s' o' m') > lamport ps s := h
      simp only [this, if_false]; rfl

theorem lamport_ge (e : E) : -1 ≤ lamport ps e := by
  induction e with
  | nil => simp [lamport_nil]
  | mk i c s o m ihs iho => rw [lamport_mk]; split <;> [omega; (split <;> omega)]

theorem lamport_parents_lt (i c : Nat) (s o : E) (m : Bool) :
    lamport ps s < lamport ps (.mk i c s o m) ∧ lamport ps o < lamport ps (.mk i c s o m) := by
  have hs := lamport_ge ps s
  rw [lamport_mk]
  by_cases ho : o = .nil
  · subst ho; simp [lamport_nil]; omega
  · simp only [ho, if_false]; split <;> omega

/-- **Lamport timestamps strictly increase along ancestry** (the frame order, sorted by Lamport
    timestamp, therefore never puts a descendant before one of its ancestors) -/
theorem lamport_anc {a e : E} (h : Anc a e) (hne : a ≠ e) : lamport ps a < lamport ps e := by
  induction e with
  | nil => exact absurd h (anc_nil_right a)
  | mk i c s o m ihs iho =>
    have hp := lamport_parents_lt ps i c s o m
    rcases anc_mk.mp h with h | h | h
    · exact absurd h hne
    · by_cases he : a = s
      · rw [he]; exact hp.1
      · have := ihs h he; omega
    · by_cases he : a = o
      · rw [he]; exact hp.2
      · have := iho h he; omega


/-! ## the per-round version with a constant validator set is the static model -/

theorem headRecD_const (e : E) (isp iop : List Rec) : headRecD (fun _ => ps) e isp iop = headRec ps e isp iop := rfl

theorem infoD_const (e : E) : infoD (fun _ => ps) e = info ps e := by
  induction e with
  | nil => rfl
  | mk i c s o m ihs iho =>
    show infoStepD (fun _ => ps) _ (infoD (fun _ => ps) s) (infoD (fun _ => ps) o) = infoStep ps _ (info ps s) (info ps o)
    rw [ihs, iho]; rfl

theorem decideRecD_const (y x : Rec) : decideRecD (fun _ => ps) y x = decideRec ps y x := rfl

theorem buildD_const (nodes : List Node) : buildD (fun _ => ps) nodes = build ps nodes := rfl

end Babble.Dag
