import Babble.Proofs.HGFame
/-! # The counter behind `core.busy()` (`PendingLoadedEvents`): it goes up by one when a loaded
    event is inserted and comes down only when the frame of a decided round is processed — by the
    number of loaded events of that frame.  Assigning rounds, deciding fame and assigning a round
    received leave it alone (the seeded change C06c moved the decrement to DecideRoundReceived: the
    nodes then report idle while an earlier round is still undecided).  Core Lean only. -/
namespace Babble.HG

theorem foldl_pl {α} (f : St → α → St) (h : ∀ s a, (f s a).pendingLoaded = s.pendingLoaded) (l : List α) (s : St) :
    (l.foldl f s).pendingLoaded = s.pendingLoaded := by
  induction l generalizing s with
  | nil => rfl
  | cons a l ih => simp only [List.foldl_cons]; rw [ih, h]

theorem foldl_pl_fst {α β} (f : St × β → α → St × β) (h : ∀ p a, (f p a).1.pendingLoaded = p.1.pendingLoaded)
    (l : List α) (p : St × β) : (l.foldl f p).1.pendingLoaded = p.1.pendingLoaded := by
  induction l generalizing p with
  | nil => rfl
  | cons a l ih => simp only [List.foldl_cons]; rw [ih, h]

theorem fdWalk_pl (s : St) (fuel : Nat) (ah : String) (cr : Nat) (idx : Int) : (s.fdWalk fuel ah cr idx).pendingLoaded = s.pendingLoaded := by
  induction fuel generalizing s ah with
  | zero => rfl
  | succ fuel ih =>
    unfold St.fdWalk
    split
    · rfl
    · split
      · rfl
      · simp only []
        split
        · rfl
        · rw [ih]; rfl

theorem walkOne_pl (cr : Nat) (idx : Int) (s : St) (c : Option Coord) : (walkOne cr idx s c).pendingLoaded = s.pendingLoaded := by
  unfold walkOne; split
  · exact fdWalk_pl _ _ _ _ _
  · rfl

/-- InsertEvent: plus one for a loaded event -/
theorem insert_pl (s : St) (e : Ev) : (s.insert e).pendingLoaded = s.pendingLoaded + (if e.isLoaded then 1 else 0) := by
  unfold St.insert St.insertCoords
  simp only []
  rw [foldl_pl _ (walkOne_pl e.creator e.index)]

theorem queueRound_pl (s : St) (r : Int) (ri : RoundInfo) : (s.queueRound r ri).pendingLoaded = s.pendingLoaded := by
  unfold St.queueRound; split <;> rfl

theorem assignRound_pl (s : St) (id : String) (ev : Ev) : (s.assignRound id ev).pendingLoaded = s.pendingLoaded := by
  unfold St.assignRound
  simp only []
  exact queueRound_pl _ _ _

theorem assignLamport_pl (s : St) (id : String) : (s.assignLamport id).pendingLoaded = s.pendingLoaded := by
  unfold St.assignLamport; split <;> rfl

theorem divideOne_pl (s : St) (id : String) : (divideOne s id).pendingLoaded = s.pendingLoaded := by
  unfold divideOne; split
  · rfl
  · simp only []
    split <;> split <;> simp only [assignLamport_pl, assignRound_pl]

/-- DivideRounds leaves the counter alone -/
theorem divideRounds_pl (s : St) : s.divideRounds.pendingLoaded = s.pendingLoaded := foldl_pl _ divideOne_pl _ _

theorem decideFameRound_pl (p : St × List Int) (pr : Int × Bool) : (decideFameRound p pr).1.pendingLoaded = p.1.pendingLoaded := by
  unfold decideFameRound
  simp only []
  split <;> rfl

/-- DecideFame leaves the counter alone -/
theorem decideFame_pl (s : St) : s.decideFame.pendingLoaded = s.pendingLoaded := by
  unfold St.decideFame
  have := foldl_pl_fst decideFameRound decideFameRound_pl s.pending (s, [])
  revert this
  generalize s.pending.foldl decideFameRound (s, []) = p
  intro h
  exact h

theorem rrLoop_pl (s : St) (x : String) (fuel : Nat) (i : Int) : (s.rrLoop x fuel i).1.pendingLoaded = s.pendingLoaded := by
  induction fuel generalizing s i with
  | zero => rfl
  | succ fuel ih =>
    unfold St.rrLoop
    by_cases hgt : i > s.lastRound
    · rw [if_pos hgt]
    · rw [if_neg hgt]
      cases hg : s.getRound i with
      | none =>
        simp only []
        split
        · rfl
        · split
          · rfl
          · exact ih _ _
      | some tr =>
        simp only []
        by_cases hd : (tr.witnessesDecided (s.peersAt i)).1 = true
        · simp only [hd, Bool.not_true, Bool.false_eq_true, if_false]
          split
          · rfl
          · rw [ih]; rfl
        · simp only [hd, Bool.not_false, if_true]
          split
          · rfl
          · split
            · rfl
            · rw [ih]; rfl

/-- **DecideRoundReceived leaves the counter alone**: an event that got its round received is still
    pending until its round is processed -/
theorem decideRoundReceived_pl (s : St) : s.decideRoundReceived.pendingLoaded = s.pendingLoaded := by
  unfold St.decideRoundReceived
  have := foldl_pl_fst receiveOne (fun p x => by unfold receiveOne; simp only []; exact rrLoop_pl _ _ _ _) s.undet (s, [])
  revert this
  generalize s.undet.foldl receiveOne (s, []) = p
  intro h
  exact h

theorem applyReceipts_pl (s : St) (rr : Int) (itxs : List (Bool × Nat)) : (s.applyReceipts rr itxs).pendingLoaded = s.pendingLoaded := by
  unfold St.applyReceipts
  split
  · rfl
  · simp only []; split <;> rfl

/-- **ProcessDecidedRounds, one round**: the counter comes down by the number of loaded events of
    the processed frame (nothing for an empty frame) -/
theorem processOne_pl (s s' : St) (h : s.processOne = some s') :
    ∃ r ri, s.getRound r = some ri ∧ s.pending.head?.map (·.1) = some r ∧
      s'.pendingLoaded = s.pendingLoaded - (((s.getFrame r ri).2.filter Ev.isLoaded).length : Int) := by
  unfold St.processOne at h
  split at h
  · cases h
  · rename_i r d rest hp
    split at h
    · cases h
    · split at h
      · cases h
      · rename_i ri hg
        simp only [] at h
        refine ⟨r, ri, hg, by simp [hp], ?_⟩
        have hframe : (s.addFrame (s.getFrame r ri).1 (s.getFrame r ri).2).pendingLoaded =
            s.pendingLoaded - (((s.getFrame r ri).2.filter Ev.isLoaded).length : Int) := by
          unfold St.addFrame
          simp only []
          split
          · rfl
          · rename_i hne
            have : (s.getFrame r ri).2.length = 0 := by
              simpa [Gen.cmpFrameNonEmpty, Cmp.evalN] using hne
            have hnil : (s.getFrame r ri).2 = [] := List.eq_nil_of_length_eq_zero this
            rw [hnil]; simp
        split at h
        · injection h with h; subst h
          show (St.popPending (St.addBlock _ _) r rest).pendingLoaded = _
          unfold St.popPending St.addBlock
          simp only []
          rw [applyReceipts_pl]
          exact hframe
        · injection h with h; subst h
          exact hframe

end Babble.HG
