import Babble.Model.Decode
import Babble.Proofs.ByteCodec
/-! # C08 — no network input can crash a node (the validation layer is total)
    `Babble.Decode` models, with Go's partial operations explicit, what every hostile string goes
    through first: hex decoding, signature decoding, public-key decoding, signature verification of
    internal transactions, events and blocks, and the limit arithmetic of the sync handler.  The
    theorems say no input whatsoever — any byte strings, any combination of input bits — reaches a
    `panic` outcome.  The model is tied to the code by the C08 correspondence run (outcome class
    ok | err | panic on the hostile value grammar must agree).

    PARTIAL: `encoding/json`, the transport framing, goroutines and locks are not modelled; they are
    covered by the harness (hostile requests through `Node.processRPC` in every state, hostile sync
    and fast-forward responses through `core`, a valid exchange after every hostile input). -/
namespace Babble.Props.C08
open Babble.Decode

theorem decode_total (s : Bytes) : decodeFromString s ≠ .panic := by
  unfold decodeFromString sliceFrom2
  by_cases h : s.length < 2
  · simp [h]
  · simp only [h, if_false]
    unfold hexDecode
    split <;> simp

theorem signature_total (s : Bytes) : decodeSignature s ≠ .panic := by
  unfold decodeSignature
  split
  · split <;> simp
  · simp

theorem keys_verify_total (k : Option Unit) (v : Bool) : keysVerify k v ≠ .panic := by
  unfold keysVerify; cases k <;> simp

theorem pubkey_total (s : Bytes) : pubKeyBytes s ≠ .panic := by
  unfold pubKeyBytes
  have := decode_total s
  cases h : decodeFromString s <;> simp_all

/-- `InternalTransaction.Verify` never panics, whatever key string, signature string and curve /
    validity bits -/
theorem itx_verify_total (i : SigIn) : verifyItx i ≠ .panic := by
  unfold verifyItx
  have h1 := pubkey_total i.keyHex
  cases hp : pubKeyBytes i.keyHex with
  | panic => exact absurd hp h1
  | err => simp
  | ok n =>
    simp only []
    have h2 := signature_total i.sig
    cases hs : decodeSignature i.sig with
    | panic => exact absurd hs h2
    | err => simp
    | ok u => exact keys_verify_total _ _

theorem verifyEvent_go_total (l : List SigIn) : verifyEvent.go l ≠ .panic := by
  induction l with
  | nil => simp [verifyEvent.go]
  | cons i r ih =>
    unfold verifyEvent.go
    have := itx_verify_total i
    cases h : verifyItx i with
    | panic => exact absurd h this
    | err => simp
    | ok b => cases b <;> simp [ih]

/-- `Event.Verify` (event signature and every internal-transaction signature) never panics -/
theorem verify_total (itxs : List SigIn) (cb : Nat) (oc : Bool) (sig : Bytes) (v : Bool) :
    verifyEvent itxs cb oc sig v ≠ .panic := by
  unfold verifyEvent
  have h1 := verifyEvent_go_total itxs
  cases hg : verifyEvent.go itxs with
  | panic => exact absurd hg h1
  | err => simp
  | ok u =>
    simp only []
    have h2 := signature_total sig
    cases hs : decodeSignature sig with
    | panic => exact absurd hs h2
    | err => simp
    | ok u => exact keys_verify_total _ _

theorem clamp_spec (req conf : Int) :
    0 ≤ clampLimit req conf ∧ (0 ≤ req → 0 ≤ conf → clampLimit req conf ≤ req ∧ clampLimit req conf ≤ conf) := by
  unfold clampLimit
  simp only []
  split <;> split <;> constructor <;> intros <;> omega

/-- the sync handler's slice bound is always within range: any requested limit (negative, MinInt64,
    MaxInt64), any configured limit, any diff length -/
theorem sync_limit_total (diffLen : Nat) (req conf : Int) : syncSlice diffLen req conf ≠ .panic := by
  unfold syncSlice
  simp only []
  have := (clamp_spec req conf).1
  split
  · simp [this]
  · simp

/-- … and never returns more events than exist or than either limit allows -/
theorem sync_limit_bound (diffLen : Nat) (req conf : Int) (n : Nat) (h : syncSlice diffLen req conf = .ok n) :
    n ≤ diffLen ∧ (0 ≤ req → 0 ≤ conf → (n : Int) ≤ req ∧ (n : Int) ≤ conf) := by
  unfold syncSlice at h
  simp only [] at h
  have hc := clamp_spec req conf
  generalize clampLimit req conf = L at *
  split at h
  · rename_i hlt
    simp only [hc.1, if_true] at h
    injection h with h; subst h
    constructor
    · omega
    · intro hr hcf
      have := hc.2 hr hcf
      omega
  · rename_i hge
    injection h with h; subst h
    constructor
    · omega
    · intro hr hcf
      have := hc.2 hr hcf
      omega

/-- non-vacuity / regression witnesses: the inputs that crashed the unrepaired code are errors now -/
example : decodeFromString [] = .err := by decide
example : decodeFromString [48] = .err := by decide
example : decodeSignature [33, 124, 33] = .err := by decide        -- "!|!"
example : decodeSignature [110, 111] = .err := by decide           -- "no"
example : verifyItx { keyHex := [], onCurve := false, sig := [49, 124, 50], valid := false } = .ok false := by decide
example : syncSlice 5 (-1) 1000 = .ok 0 := by decide

/-! ## the success model is the shadow of the value model
    `Babble.ByteCodec` computes what the two decoders *return* and is compared with the Go functions
    value for value; the outcome classes used above are exactly its successes and failures. -/

/-- `DecodeFromString`: `ok n` iff the value model decodes to `n` bytes, `err` iff it fails -/
theorem hex_outcome_is_value_model (s : Bytes) :
    decodeFromString s = match Babble.ByteCodec.decodeFromString s with
      | some bs => .ok bs.length
      | none => .err := Babble.ByteCodec.decode_class s

/-- `DecodeSignature`: `ok` iff the value model produces a pair of integers -/
theorem signature_outcome_is_value_model (s : Bytes) :
    decodeSignature s = (if (Babble.ByteCodec.decodeSignature s).isSome then .ok () else .err) :=
  Babble.ByteCodec.decodeSignature_class s

end Babble.Props.C08
