import Babble.Proofs.HGBlocks
import Babble.Proofs.HGRounds
/-! # C02 — finality: blocks are delivered once, in order, and never change
    Statements about the operational model `Babble.HG` (tied to `hashgraph.go` by the correspondence
    run of the C02 check): `runAll s es` is a node's life — any sequence of insertion attempts, each
    followed by the consensus passes (`InsertEventAndRunConsensus`), with any validator-set behaviour
    and any (also inadmissible) events.  No BFT argument is needed: plain invariants of the passes. -/
namespace Babble.Props.C02
open Babble Babble.HG

/-- every insertion attempt (accepted or not) only appends to the delivered block sequence:
    a delivered block is never changed, removed or reordered -/
theorem blocks_append_only (s : St) (e : Ev) :
    ∃ new, (s.insertAndRun e).1.blocks = s.blocks ++ new := insertAndRun_extends s e

/-- over a whole history: what was delivered after a prefix of the history is a prefix of what is
    delivered after the whole history -/
theorem delivered_prefix_stable (s : St) (es es' : List Ev) :
    ∃ new, (runAll s (es ++ es')).blocks = (runAll s es).blocks ++ new := by
  rw [runAll_append]; exact runAll_extends _ _

/-- the four passes before `ProcessDecidedRounds`, and `InsertEvent`, never touch delivered blocks,
    the validator-set table or the frames -/
theorem only_process_delivers (s : St) (e : Ev) :
    (s.insert e).out = s.out ∧ s.divideRounds.out = s.out ∧ s.decideFame.out = s.out ∧
    s.decideRoundReceived.out = s.out :=
  ⟨insert_out s e, divideRounds_out s, decideFame_out s, decideRoundReceived_out s⟩

/-- one step of `ProcessDecidedRounds` delivers at most one block; its index is the successor of the
    last delivered index and its round received is the first pending round -/
theorem one_block_per_round (s s' : St) (h : s.processOne = some s') :
    (s'.blocks = s.blocks ∧ s'.lastBlock = s.lastBlock) ∨
    (∃ b, s'.blocks = s.blocks ++ [b] ∧ b.index = s.lastBlock + 1 ∧ s'.lastBlock = s.lastBlock + 1 ∧
          s.pending.head?.map (·.1) = some b.rr) := processOne_blocks s s' h

/-- block indexes are strictly consecutive, starting at 0 for a node started from genesis:
    the i-th delivered block has index i, whatever the history -/
theorem block_indexes_consecutive (genesis : List Nat) (es : List Ev) (i : Nat)
    (hi : i < (runAll (St.init genesis) es).blocks.length) :
    ((runAll (St.init genesis) es).blocks[i]).index = i := by
  have h := (runAll_spec 0 (St.init genesis) es (init_inv genesis)).1
  have := consec_getElem 0 _ h.1 i hi
  simpa using this

/-- … and starting at the anchor's index for a node that was reset from a fast-sync frame:
    the anchor block is position 0, the next delivered block has index anchor + 1, and so on -/
theorem block_indexes_consecutive_after_reset (blk : Block) (fr : Frame) (lookup : String → Option Ev)
    (es : List Ev) (i : Nat) (hi : i < (runAll (resetFrom blk fr lookup) es).blocks.length) :
    ((runAll (resetFrom blk fr lookup) es).blocks[i]).index = blk.index + i := by
  have h0 : BlkInv blk.index (resetFrom blk fr lookup) := by
    unfold resetFrom
    simp only []
    have := applyReceipts_blocks
    unfold BlkInv
    rw [(applyReceipts_blocks _ _ _).1, (applyReceipts_blocks _ _ _).2]
    simp [consec]
  have h := (runAll_spec blk.index _ es h0).1
  exact consec_getElem blk.index _ h.1 i hi

/-- `lastBlock` (what `Store.LastBlockIndex` reports) is always the index of the last delivered block -/
theorem last_block_index (genesis : List Nat) (es : List Ev) :
    (runAll (St.init genesis) es).lastBlock = ((runAll (St.init genesis) es).blocks.length : Int) - 1 := by
  have h := (runAll_spec 0 (St.init genesis) es (init_inv genesis)).1
  have := h.2; omega

/-- **a block's round received is strictly greater than that of the previous block**: for a node
    started from genesis and every sequence of insertion attempts of fresh events (admissible or
    not, any validator-set behaviour).  The invariant behind it (`HG.RInv`): rounds are created
    contiguously, each is queued exactly once — when its first event is divided — behind everything
    pending, the `decided` latch is never cleared, and `ProcessDecidedRounds` consumes the queue
    from its head; a late witness therefore never re-opens or re-orders a processed round -/
theorem round_received_strictly_increasing (genesis : List Nat) (es : List Ev)
    (hes : ∀ e ∈ es, e.round = none) :
    (runAll (St.init genesis) es).blocks.Pairwise (fun a b => a.rr < b.rr) :=
  blocks_rr_increasing genesis es hes

/-- … in particular two delivered blocks never have the same round received -/
theorem one_block_per_round_received (genesis : List Nat) (es : List Ev) (hes : ∀ e ∈ es, e.round = none)
    (i j : Nat) (hi : i < (runAll (St.init genesis) es).blocks.length) (hj : j < (runAll (St.init genesis) es).blocks.length)
    (h : ((runAll (St.init genesis) es).blocks[i]).rr = ((runAll (St.init genesis) es).blocks[j]).rr) : i = j := by
  have hp := round_received_strictly_increasing genesis es hes
  rcases Nat.lt_trichotomy i j with hlt | heq | hgt
  · have := List.pairwise_iff_getElem.mp hp i j hi hj hlt; omega
  · exact heq
  · have := List.pairwise_iff_getElem.mp hp j i hj hi hgt; omega

/-- non-vacuity: a reachable state with a delivered block exists (a single validator whose two
    events carry a transaction; the second event decides round 0 … checked by evaluation in the
    correspondence run; here: the invariant's premises hold for the initial state) -/
example : BlkInv 0 (St.init [0, 1, 2, 3]) := init_inv _

end Babble.Props.C02
