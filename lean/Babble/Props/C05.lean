import Babble.Model.Core
import Babble.Proofs.HGOrder
import Babble.Proofs.HGReceived
/-! # C05 — transaction integrity (PARTIAL)
    About `Babble.Core`, the model of a node's transaction pool.  The strongest form holds: what a node
    accepted is, as a *list*, exactly the concatenation of the payloads of its own events followed by
    what is still pending — nothing dropped, duplicated or reordered, whatever the interleaving of
    submissions, successful and failed self-events, and refills during insertion.

    Excluded by hypothesis (`selfEventFail` = the event did not enter the DAG): the case where
    `InsertEvent` succeeded but a later consensus pass of the same call returned an error; the Go code
    then keeps the pool although the event is in the DAG.  Such errors only arise from store failures
    below the supported cache range (C03).  Concurrency of the refill path is runtime. -/
namespace Babble.Props.C05
open Babble.Core

/-- **pool_conservation** (with **placed_once**): accepted = placed ++ pending, as lists -/
theorem pool_conservation (ops : List Op) :
    (run ops).submitted = (run ops).placed.flatten ++ (run ops).pool := by
  unfold run
  suffices h : ∀ s : CoreSt, s.submitted = s.placed.flatten ++ s.pool →
      (ops.foldl step s).submitted = (ops.foldl step s).placed.flatten ++ (ops.foldl step s).pool from
    h {} (by simp)
  induction ops with
  | nil => intro s h; exact h
  | cons op ops ih =>
    intro s h
    apply ih
    cases op with
    | submit tx => simp [step, h]
    | selfEventOk refill =>
      simp only [step, List.flatten_append, List.flatten_cons, List.flatten_nil, List.append_nil]
      rw [h]
      simp [List.drop_append]
    | selfEventFail => exact h

/-- **failed_insert_keeps_pool** -/
theorem failed_insert_keeps_pool (s : CoreSt) : (step s .selfEventFail).pool = s.pool ∧ (step s .selfEventFail).placed = s.placed := ⟨rfl, rfl⟩

/-- a transaction accepted by a node is pending or in exactly one of its events: the number of
    occurrences is preserved -/
theorem occurrences_preserved (ops : List Op) (tx : Nat) :
    (run ops).submitted.count tx = (run ops).placed.flatten.count tx + (run ops).pool.count tx := by
  rw [pool_conservation, List.count_append]

/-- a self-event carries the pending transactions in submission order (contiguously, C04 then keeps
    them contiguous in the block) -/
theorem self_event_payload (s : CoreSt) (refill : List Nat) :
    (step s (.selfEventOk refill)).placed = s.placed ++ [s.pool] ∧ (step s (.selfEventOk refill)).pool = refill := by
  simp [step, List.drop_append]

/-- committed payload comes from events: a block's transactions are the concatenation of its events'
    transactions (C04), so every committed transaction was placed by its creator -/
theorem committed_from_events (index r : Int) (frame : Babble.HG.Frame) (sorted : List Babble.HG.Ev) (b : Babble.HG.Block)
    (h : Babble.HG.blockOf index r frame sorted = some b) (tx : Nat) (htx : tx ∈ b.txs) :
    ∃ e ∈ sorted, tx ∈ e.txs := by
  have := (Babble.HG.blockOf_payload index r frame sorted b h).1
  rw [this] at htx
  obtain ⟨l, hl, hm⟩ := List.mem_flatten.mp htx
  obtain ⟨e, he, rfl⟩ := List.mem_map.mp hl
  exact ⟨e, he, hm⟩

/-- **no payload is committed twice on a node**: the events of the delivered blocks are pairwise
    distinct (operational model, every insertion history from genesis), so — a block's transactions
    being the concatenation of its events' payloads (`committed_from_events`) and a submitted
    transaction being placed in exactly one event of the node that accepted it (`pool_conservation`) —
    an occurrence of a transaction reaches the application at most once. -/
theorem no_event_payload_committed_twice (g : List Nat) (es : List Babble.HG.Ev) (hes : ∀ e ∈ es, e.round = none)
    (hnd : (es.map (·.id)).Nodup) :
    (∀ b ∈ (Babble.HG.runAll (Babble.HG.St.init g) es).blocks, b.events.Nodup) ∧
    (Babble.HG.runAll (Babble.HG.St.init g) es).blocks.Pairwise (fun a b => ∀ x ∈ a.events, x ∉ b.events) :=
  Babble.HG.committed_once g es hes hnd

example : (run [.submit 1, .submit 2, .selfEventFail, .submit 2, .selfEventOk [9], .submit 3]).placed = [[1, 2, 2]] := by decide
example : (run [.submit 1, .submit 2, .selfEventFail, .submit 2, .selfEventOk [9], .submit 3]).pool = [9, 3] := by decide

end Babble.Props.C05
