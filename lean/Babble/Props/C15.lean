import Babble.Model.Codec
import Babble.Proofs.Admission
import Babble.Proofs.ByteCodec
/-! # C15 — encoding identity (PARTIAL)
    Proved: the compact wire form is lossless between nodes whose histories satisfy the admission
    invariant (C07): the receiver resolves the (creator, index) pairs to exactly the parents' hashes,
    and every other body field travels verbatim, so the reconstructed body — hence hash and signature
    validity — is the sender's.  The hash assumption (same id ⇒ same creator and index) connects the
    two stores.

    Regenerated from `event.go` on every run and checked here: the database form writes every field
    of its wrapper structure and reads every one of them back into the place it was taken from
    (`db_form_symmetric`, `db_form_complete`), and the wire body carries every field of `WireBody`,
    each taken from the corresponding field of the event body (`wire_form_complete`,
    `wire_form_sources`) — a field dropped, swapped or taken from elsewhere in `MarshalDB`,
    `UnmarshalDB` or `ToWire` breaks these obligations.

    Byte level (`Babble.ByteCodec`, compared with the Go functions value for value): the two string
    encodings every key, hash and signature travels in are lossless — `DecodeFromString ∘
    EncodeToString` and `DecodeSignature ∘ EncodeSignature` are the identity for *every* byte string
    and *every* pair of non-negative integers (`hex_roundtrip`, `signature_roundtrip`), and the
    canonical spellings are injective (`hex_spelling_injective`, `signature_spelling_injective`):
    equal strings ⇔ equal values, which is what lets hashes and signatures be compared as strings.

    Not modelled: `encoding/json`, the `ugorji` codec, base64, SHA-256.  The JSON transport of
    blocks, frames and events, the database form, and the independence of the frame hash from map
    order are decided by the correspondence run on the real encoders (DESIGN.md §3 C15). -/
namespace Babble.Props.C15
open Babble Babble.HG

/-- `UnmarshalDB` puts every field of the wrapper back where `MarshalDB` took it from -/
theorem db_form_symmetric : Gen.eventDBWritten = Gen.eventDBRead := by decide

/-- … and both handle every field of the wrapper structure -/
theorem db_form_complete : Gen.eventDBWritten.map (·.1) = Gen.eventDBStruct := by decide

/-- `ToWire` fills every field of `WireBody` -/
theorem wire_form_complete : Gen.wireBodyWritten.map (·.1) = Gen.wireBodyStruct := by decide

/-- … each from the corresponding field of the event (parents travel as the creator id and index
    coordinates set by `SetWireInfo`; block signatures in their wire form) -/
theorem wire_form_sources :
    Gen.wireBodyWritten =
      [("BlockSignatures", "e.WireBlockSignatures()"), ("CreatorID", "e.Body.creatorID"), ("Index", "e.Body.Index"),
       ("InternalTransactions", "e.Body.InternalTransactions"), ("OtherParentCreatorID", "e.Body.otherParentCreatorID"),
       ("OtherParentIndex", "e.Body.otherParentIndex"), ("SelfParentIndex", "e.Body.selfParentIndex"),
       ("Timestamp", "e.Body.Timestamp"), ("Transactions", "e.Body.Transactions")] := by decide

theorem byIndex_of_mem (s : St) (hI : AdmInv s.events) (p : Ev) (hp : p ∈ s.events) :
    s.byIndex p.creator p.index = some p := by
  unfold St.byIndex
  cases hf : s.events.find? (fun e => e.creator == p.creator && e.index == p.index) with
  | none =>
    have := List.find?_eq_none.mp hf p hp
    simp at this
  | some q =>
    have hq := List.mem_of_find?_eq_some hf
    have hc := List.find?_some hf
    simp only [Bool.and_eq_true, beq_iff_eq] at hc
    rw [unique_index hI hq hp hc.1 hc.2]

/-- the receiver resolves a parent reference (creator, index) to the hash the sender meant, provided
    it holds an event with that hash (and hashes determine creator and index) -/
theorem resolve_parent (s' : St) (hI' : AdmInv s'.events) (p : Ev) (q : Ev) (hq : q ∈ s'.events)
    (hid : q.id = p.id) (hc : q.creator = p.creator) (hi : q.index = p.index) :
    (s'.byIndex p.creator p.index).map (·.id) = some p.id := by
  rw [← hc, ← hi, byIndex_of_mem s' hI' q hq]
  simp [hid]

/-- **wire_roundtrip**: an event stored on the sender (history satisfying C07) converted to its wire
    form is read back, on any receiver that holds its parents, with the same parent hashes; all other
    fields are copied verbatim (`toWire` definition), so the body, the hash and the validity of the
    signature are unchanged -/
theorem wire_roundtrip (s s' : St) (hI : AdmInv s.events) (hI' : AdmInv s'.events) (e : Ev) (he : e ∈ s.events)
    (hhash : ∀ p ∈ s.events, ∀ q ∈ s'.events, q.id = p.id → q.creator = p.creator ∧ q.index = p.index)
    (hsp : e.sp ≠ "" → ∃ q ∈ s'.events, q.id = e.sp) (hop : e.op ≠ "" → ∃ q ∈ s'.events, q.id = e.op) :
    ∃ w, s.toWire e = some w ∧ s'.readWireParents w = some (e.sp, e.op) ∧
      w.creator = e.creator ∧ w.index = e.index ∧ w.txs = e.txs ∧ w.itx = e.itx ∧ w.ts = e.ts ∧ w.key = e.key := by
  -- the sender finds both parents
  have hspS : e.sp = "" ∨ ∃ l, getL s.events e.sp = some l ∧ l.creator = e.creator ∧ e.index = l.index + 1 := by
    rcases sp_spec hI he with h | h
    · exact Or.inl h.1
    · exact Or.inr h
  have hopS := op_present hI he
  -- self parent
  have hs1 : ∃ si, (if e.sp == "" then some (-1) else (s.get e.sp).map (·.index)) = some si ∧
      (if si ≥ 0 then (s'.byIndex e.creator si).map (·.id) else some "") = some e.sp := by
    rcases hspS with h | ⟨l, hl, hlc, hli⟩
    · refine ⟨-1, by simp [h], by simp [h]⟩
    · have hne : e.sp ≠ "" := by
        intro h0; rw [h0, getL_empty hI] at hl; cases hl
      have hb : (e.sp == "") = false := by simpa using hne
      refine ⟨l.index, by simp [hb, s.get_eq hI, hl], ?_⟩
      obtain ⟨q, hq, hqid⟩ := hsp hne
      have hlm := getL_mem hl
      have hlid := getL_id hl
      obtain ⟨hc, hi⟩ := hhash l hlm q hq (by rw [hqid, hlid])
      have h0 : 0 ≤ l.index := (index_le_last hI hlm).choose_spec.2.2
      have := resolve_parent s' hI' l q hq (by rw [hqid, hlid]) hc hi
      rw [hlc, hlid] at this
      simp [h0, this]
  -- other parent
  have hs2 : ∃ oc oi, (if e.op == "" then some ((0 : Nat), (-1 : Int)) else (s.get e.op).map (fun o => (o.creator, o.index))) = some (oc, oi) ∧
      (if oi ≥ 0 then (s'.byIndex oc oi).map (·.id) else some "") = some e.op := by
    rcases hopS with h | h
    · exact ⟨0, -1, by simp [h], by simp [h]⟩
    · cases hg : getL s.events e.op with
      | none => rw [hg] at h; cases h
      | some o =>
        have hne : e.op ≠ "" := by
          intro h0; rw [h0, getL_empty hI] at hg; cases hg
        have hb : (e.op == "") = false := by simpa using hne
        refine ⟨o.creator, o.index, by simp [hb, s.get_eq hI, hg], ?_⟩
        obtain ⟨q, hq, hqid⟩ := hop hne
        have hom := getL_mem hg
        have hoid := getL_id hg
        obtain ⟨hc, hi⟩ := hhash o hom q hq (by rw [hqid, hoid])
        have h0 : 0 ≤ o.index := (index_le_last hI hom).choose_spec.2.2
        have := resolve_parent s' hI' o q hq (by rw [hqid, hoid]) hc hi
        rw [hoid] at this
        simp [h0, this]
  obtain ⟨si, h1, h1'⟩ := hs1
  obtain ⟨oc, oi, h2, h2'⟩ := hs2
  refine ⟨{ creator := e.creator, index := e.index, spIndex := si, opCreator := oc, opIndex := oi,
            ts := e.ts, key := e.key, mid := e.mid, txs := e.txs, itx := e.itx, sigok := e.sigok }, ?_, ?_, rfl, rfl, rfl, rfl, rfl, rfl⟩
  · unfold St.toWire
    simp only [h1, h2]
  · unfold St.readWireParents
    simp only [h1', h2']

/-! ## byte level: the hexadecimal and base-36 string forms -/

/-- **hex_roundtrip**: `DecodeFromString (EncodeToString b) = b` for every byte string -/
theorem hex_roundtrip (bs : List Nat) (h : ∀ b ∈ bs, b < 256) :
    ByteCodec.decodeFromString (ByteCodec.encodeToString bs) = some bs := ByteCodec.decode_encode bs h

/-- equal canonical spellings ⇔ equal bytes (hashes and keys may be compared as strings) -/
theorem hex_spelling_injective (a b : List Nat) (ha : ∀ x ∈ a, x < 256) (hb : ∀ x ∈ b, x < 256) :
    ByteCodec.encodeToString a = ByteCodec.encodeToString b ↔ a = b :=
  ⟨ByteCodec.encode_injective a b ha hb, fun h => by rw [h]⟩

/-- **signature_roundtrip**: `DecodeSignature (EncodeSignature r s) = (r, s)` for all r, s ≥ 0 -/
theorem signature_roundtrip (r s : Nat) :
    ByteCodec.decodeSignature (ByteCodec.encodeSignature r s) = some (Int.ofNat r, Int.ofNat s) :=
  ByteCodec.decode_encode_signature r s

/-- equal canonical signature strings ⇔ equal (r, s) -/
theorem signature_spelling_injective (r s r' s' : Nat) :
    ByteCodec.encodeSignature r s = ByteCodec.encodeSignature r' s' ↔ r = r' ∧ s = s' :=
  ⟨ByteCodec.encodeSignature_injective r s r' s', fun h => by rw [h.1, h.2]⟩

/-- non-vacuity: the bytes 00 ff 0a and the pair (35, 36) -/
example : ByteCodec.encodeToString [0, 255, 10] = [48, 88, 48, 48, 70, 70, 48, 65] := by decide
example : ByteCodec.decodeFromString [48, 88, 48, 48, 70, 70, 48, 65] = some [0, 255, 10] := by decide
example : ByteCodec.encodeSignature 35 36 = [122, 124, 49, 48] := by
  simp [ByteCodec.encodeSignature, ByteCodec.text36, ByteCodec.digitsLE, ByteCodec.digit36]

end Babble.Props.C15
