import Babble.Model.Rpc
/-! # C17 — a node that is not babbling changes nothing; a suspended node still serves syncs
    About the gate expression and the suspension rule regenerated from `node_rpc.go:processRPC` and
    `node.go:checkSuspend`.  PARTIAL only in that the overshoot of the suspension threshold by
    concurrently running gossip routines is a runtime matter; the correspondence run drives real Node
    objects in every state. -/
namespace Babble.Props.C17
open Babble Babble.Rpc

/-- **gated**: a command is handled iff the node is Babbling, or it is Suspended and the command is a
    SyncRequest; everything else is answered with an error before any handler runs -/
theorem gated (st : NodeState) (cmd : Cmd) :
    processRPC st cmd = .handled ↔ (st = .babbling ∨ (st = .suspended ∧ cmd = .sync)) := by
  cases st <;> cases cmd <;> decide

/-- no mutating request (eager sync, join) is ever handled outside the Babbling state -/
theorem mutating_refused_unless_babbling (st : NodeState) (cmd : Cmd) (hm : cmd.mutating = true)
    (hs : st ≠ .babbling) : processRPC st cmd = .refused := by
  cases st <;> cases cmd <;> simp_all [Cmd.mutating] <;> decide

/-- in every non-babbling state other than Suspended every request is refused, including syncs -/
theorem non_babbling_refuses_all (st : NodeState) (cmd : Cmd) (h1 : st ≠ .babbling) (h2 : st ≠ .suspended) :
    processRPC st cmd = .refused := by
  cases st <;> cases cmd <;> simp_all <;> decide

/-- a suspended node still answers sync requests (and only those) -/
theorem suspended_serves_sync (cmd : Cmd) : processRPC .suspended cmd = .handled ↔ cmd = .sync := by
  cases cmd <;> decide

/-- **suspend_rule**: the node suspends itself iff the undetermined events created since it started
    exceed limit × |validators|, or it has been removed from the validator set and the last consensus
    round has reached the removal round -/
theorem suspend_rule (u i l v : Int) (lcr : Option Int) (rem acc : Int) :
    suspends u i l v lcr rem acc = true ↔
      (u - i > l * v ∨ ∃ r, lcr = some r ∧ rem > 0 ∧ rem > acc ∧ r ≥ rem) := by
  unfold suspends
  simp only [Gen.suspendShape, Gen.cmpSuspendUndetermined, Gen.cmpEvictedRemovedPositive, Gen.cmpEvictedAfterAccepted,
    Gen.cmpEvictedReached, Cmp.eval, Bool.true_and, Bool.or_eq_true, decide_eq_true_eq]
  cases lcr with
  | none => simp
  | some r => simp [and_assoc]

example : suspends 61 0 20 3 none (-1) (-1) = true := by decide
example : suspends 60 0 20 3 none (-1) (-1) = false := by decide
example : suspends 0 0 20 3 (some 14) 14 (-1) = true := by decide

end Babble.Props.C17
