import Babble.Props.C12
import Babble.Model.Trust
/-! # C14 — fast-sync trust
    A response is adopted only if some valid signature comes from a validator of a peer-set the node
    knows independently of the response: its configured peers, its genesis peers, its latest
    validator set (`Gen.ffTrustedSets`, regenerated from `checkTrustedSigner`). -/
namespace Babble.Props.C14
open Babble Babble.FF

/-- **ff_needs_trusted_signer** -/
theorem ff_needs_trusted_signer (i : In) (h : accept i = true) : 0 < i.trusted :=
  ((Props.C12.ff_accept_iff i).mp h).2.2.2.2

/-- **forged_set_refused**: a response whose signers are all strangers is refused, however
    consistent it is internally (hashes match, the whole self-made set signed) -/
theorem forged_set_refused (i : In) (h : i.trusted = 0) : accept i = false := by
  cases hacc : accept i with
  | false => rfl
  | true => have := ff_needs_trusted_signer i hacc; omega

/-- the trust check is part of the acceptance decision and consults exactly the node's own
    peer-sets (regenerated from the source) -/
theorem trust_check_present :
    FFStep.trustedSigner ∈ Gen.coreCheckSteps ∧ Gen.ffTrustedSets = [TrustSrc.peers, TrustSrc.genesis, TrustSrc.validators] := by
  decide

/-! ## Nodes in any state
    The three sets a node checks signers against, over its whole life (`Babble.Trust`): whatever it
    received before — join responses with any claimed peer list, refused fast-forward responses,
    anything else — they only ever contain keys it has a reason to trust: configured keys, keys put
    into a validator set by consensus, members of the frame of a response it accepted (which in
    turn needed a signer it already knew). -/
section anyState
open Babble.Trust

/-- the sets only contain keys the node has a reason to trust -/
def Inv (s : St) : Prop :=
  (∀ k ∈ s.peers, k ∈ s.reason) ∧ (∀ k ∈ s.genesis, k ∈ s.reason) ∧ (∀ k ∈ s.validators, k ∈ s.reason)

theorem init_inv (c g : List Nat) : Inv (init c g) :=
  ⟨fun _ hk => List.mem_append.mpr (Or.inl hk), fun _ hk => List.mem_append.mpr (Or.inr hk),
   fun _ hk => List.mem_append.mpr (Or.inr hk)⟩

/-- both sets replaced by `ns`, the reasons extended by `ns` -/
theorem replaced_inv (s : St) (ns : List Nat) (h : Inv s) :
    Inv { s with peers := ns, validators := ns, reason := s.reason ++ ns } :=
  ⟨fun _ hk => List.mem_append.mpr (Or.inr hk), fun k hk => List.mem_append.mpr (Or.inl (h.2.1 k hk)),
   fun _ hk => List.mem_append.mpr (Or.inr hk)⟩

theorem step_inv (s : St) (op : Op) (h : Inv s) : Inv (step s op) := by
  cases op with
  | joinResponse a r c => exact h
  | other => exact h
  | receipt ns => exact replaced_inv s ns h
  | fastForward r =>
      simp only [step]
      split
      · exact replaced_inv s r.framePeers h
      · exact h

theorem run_inv (s : St) (ops : List Op) (h : Inv s) : Inv (run s ops) := by
  induction ops generalizing s with
  | nil => exact h
  | cons o os ih => exact ih _ (step_inv s o h)

/-- the reasons only grow through consensus receipts and accepted responses: a join response, a
    refused response or any other message adds none -/
theorem reason_unchanged (s : St) (op : Op)
    (h : match op with | .receipt _ => False | .fastForward r => accept (ffIn s r) = false | _ => True) :
    (step s op).reason = s.reason ∧ (step s op).peers = s.peers ∧ (step s op).validators = s.validators ∧
      (step s op).genesis = s.genesis := by
  cases op with
  | joinResponse a r c => simp [step]
  | other => simp [step]
  | receipt ns => exact absurd h id
  | fastForward r => simp only at h; simp [step, h]

/-- **strangers_never_adopted**: in every state a node can reach from its configuration through any
    sequence of join responses (accepted or not, with any claimed peer list), consensus receipts,
    fast-forward responses and other messages, a fast-forward response whose valid signers are all
    outside the keys the node has a reason to trust is refused and changes nothing — however
    consistent it is internally, and whatever the join responses claimed. -/
theorem strangers_never_adopted (c g : List Nat) (ops : List Op) (r : Resp)
    (hstr : ∀ k ∈ r.validSigners, k ∉ (run (init c g) ops).reason) :
    accept (ffIn (run (init c g) ops) r) = false ∧ step (run (init c g) ops) (.fastForward r) = run (init c g) ops := by
  have hinv := run_inv (init c g) ops (init_inv c g)
  generalize run (init c g) ops = s at hstr hinv ⊢
  have h0 : (ffIn s r).trusted = 0 := by
    simp only [ffIn, List.length_eq_zero_iff, List.filter_eq_nil_iff]
    intro k hk hkn
    have : k ∈ s.reason := by
      simp only [knows, Bool.or_eq_true, List.contains_iff_mem] at hkn
      rcases hkn with (h | h) | h
      · exact hinv.1 k h
      · exact hinv.2.1 k h
      · exact hinv.2.2 k h
    exact hstr k hk this
  have hacc := forged_set_refused _ h0
  exact ⟨hacc, by simp [step, hacc]⟩

/-- non-vacuity (the seeded change C14b as a history): configured peers 1,2,3; the join request is
    answered "accepted" with the strangers 7,8 and the joiner 9; then a consistent response signed by
    7 and 8 arrives: refused. -/
example : accept (ffIn (run (init [1, 2, 3] [1, 2, 3]) [.joinResponse true 0 [7, 8, 9]])
    { framePeers := [7, 8, 9], validSigners := [7, 8], structOk := true, peersHashOk := true, frameHashOk := true }) = false := by
  decide
/-- ... while a response endorsed by a configured validator is accepted and extends the reasons -/
example : (run (init [1, 2, 3] [1, 2, 3]) [.fastForward
    { framePeers := [1, 2, 3, 4], validSigners := [1, 2, 4], structOk := true, peersHashOk := true, frameHashOk := true }]).validators
    = [1, 2, 3, 4] := by decide
end anyState

/-- non-vacuity: the forged response of the defect report (one fresh key, one-member set, signed by
    itself) is refused; an honest one endorsed by a known validator is accepted -/
example : accept { structOk := true, peersHashOk := true, frameHashOk := true, lenPeers := 1, members := 1, trusted := 0,
                   entries := [⟨some 0, true⟩] } = false := by decide
example : accept { structOk := true, peersHashOk := true, frameHashOk := true, lenPeers := 4, members := 4, trusted := 2,
                   entries := [⟨some 0, true⟩, ⟨some 2, true⟩, ⟨some 1, true⟩] } = true := by decide

end Babble.Props.C14
