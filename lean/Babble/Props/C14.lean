import Babble.Props.C12
/-! # C14 — fast-sync trust
    A response is adopted only if some valid signature comes from a validator of a peer-set the node
    knows independently of the response: its configured peers, its genesis peers, its latest
    validator set (`Gen.ffTrustedSets`, regenerated from `checkTrustedSigner`). -/
namespace Babble.Props.C14
open Babble Babble.FF

/-- **ff_needs_trusted_signer** -/
theorem ff_needs_trusted_signer (i : In) (h : accept i = true) : 0 < i.trusted :=
  ((Props.C12.ff_accept_iff i).mp h).2.2.2.2

/-- **forged_set_refused**: a response whose signers are all strangers is refused, however
    consistent it is internally (hashes match, the whole self-made set signed) -/
theorem forged_set_refused (i : In) (h : i.trusted = 0) : accept i = false := by
  cases hacc : accept i with
  | false => rfl
  | true => have := ff_needs_trusted_signer i hacc; omega

/-- the trust check is part of the acceptance decision and consults exactly the node's own
    peer-sets (regenerated from the source) -/
theorem trust_check_present :
    FFStep.trustedSigner ∈ Gen.coreCheckSteps ∧ Gen.ffTrustedSets = [TrustSrc.peers, TrustSrc.genesis, TrustSrc.validators] := by
  decide

/-- non-vacuity: the forged response of the defect report (one fresh key, one-member set, signed by
    itself) is refused; an honest one endorsed by a known validator is accepted -/
example : accept { structOk := true, peersHashOk := true, frameHashOk := true, lenPeers := 1, members := 1, trusted := 0,
                   entries := [⟨some 0, true⟩] } = false := by decide
example : accept { structOk := true, peersHashOk := true, frameHashOk := true, lenPeers := 4, members := 4, trusted := 2,
                   entries := [⟨some 0, true⟩, ⟨some 2, true⟩, ⟨some 1, true⟩] } = true := by decide

end Babble.Props.C14
