import Babble.Model.Quorum
import Mathlib.Data.Finset.Card
import Mathlib.Data.Fintype.Card
/-! # C19 — quorum thresholds
    All statements are about the definitions regenerated from `src/peers/peer_set.go`
    (`Babble.Gen.superMajority`, `Babble.Gen.trustCount`) and the hand model of
    `WithNewPeer`/`WithRemovedPeer` (`Babble.Quorum`). -/
namespace Babble.Props.C19
open Babble Babble.Quorum

/-- the supermajority threshold is the least integer strictly greater than 2n/3 -/
theorem sm_least (n : Nat) :
    3 * Gen.superMajority n > 2 * n ∧ 3 * (Gen.superMajority n - 1) ≤ 2 * n := by
  unfold Gen.superMajority; omega

/-- `s > TrustCount` forces strictly more than n/3 signatures (duplicate-free sets: both
    arguments of the generated function are `n`) -/
theorem trusted_needs_more_than_third (n s : Nat) (hn : 1 ≤ n) (h : s > Gen.trustCount n n) :
    3 * s > n := by
  unfold Gen.trustCount Cmp.evalN ceilDiv at h
  by_cases h1 : n > 1
  · simp [h1] at h; omega
  · have : n = 1 := by omega
    subst this; simp at h; omega

/-- a single signature suffices only for n = 1 -/
theorem trust_single : Gen.trustCount 1 1 = 0 := by decide

theorem trust_ge_one (n : Nat) (hn : 2 ≤ n) : Gen.trustCount n n ≥ 1 := by
  unfold Gen.trustCount Cmp.evalN ceilDiv
  have : n > 1 := by omega
  simp [this]; omega

/-- for n ≥ 2 the trust count is exactly ⌈n/3⌉ -/
theorem trust_is_ceil (n : Nat) (hn : 2 ≤ n) :
    3 * Gen.trustCount n n ≥ n ∧ 3 * (Gen.trustCount n n - 1) < n := by
  unfold Gen.trustCount Cmp.evalN ceilDiv
  have : n > 1 := by omega
  simp [this]; omega

/-- every place where the consensus code compares a count with the supermajority (strongly
    seeing, advancing a round, deciding in a normal round, copying the observed vote in a coin
    round, a round being decided, receiving an event) accepts exactly the counts strictly above two
    thirds of the validators: none demands more than the least such integer, none is content with
    less. The comparison operators are regenerated from the source of each site. -/
theorem supermajority_sites_accept_iff (n c : Nat) :
    ∀ s ∈ [Gen.cmpStronglySee, Gen.cmpRound, Gen.cmpFameNormal, Gen.cmpFameCoin,
           Gen.cmpWitnessesDecided, Gen.cmpRoundReceived],
      (s.evalN c (Gen.superMajority n) = true ↔ 2 * n < 3 * c) := by
  intro s hs
  simp only [List.mem_cons, List.not_mem_nil, or_false] at hs
  rcases hs with h | h | h | h | h | h <;> subst h <;>
    simp [Gen.cmpStronglySee, Gen.cmpRound, Gen.cmpFameNormal, Gen.cmpFameCoin,
      Gen.cmpWitnessesDecided, Gen.cmpRoundReceived, Cmp.evalN, Gen.superMajority] <;> omega

/-- the two places where block signatures are counted let a block through only with strictly more
    than one third of the validators (counts of distinct validators): `SetAnchorBlock` accepts,
    `CheckBlock` does not reject -/
theorem trust_sites_need_more_than_third (n s : Nat) (hn : 1 ≤ n) :
    (Gen.cmpAnchor.evalN s (Gen.trustCount n n) = true → n < 3 * s) ∧
    (Gen.cmpCheckBlockReject.evalN s (Gen.trustCount n n) = false → n < 3 * s) := by
  constructor
  · intro h
    exact trusted_needs_more_than_third n s hn (by simpa [Gen.cmpAnchor, Cmp.evalN] using h)
  · intro h
    exact trusted_needs_more_than_third n s hn (by simpa [Gen.cmpCheckBlockReject, Cmp.evalN] using h)

section sets
variable {V : Type} [DecidableEq V] [Fintype V]

/-- any two supermajorities share more than n/3 validators -/
theorem two_supermajorities_intersect (A B : Finset V)
    (hA : Gen.superMajority (Fintype.card V) ≤ A.card)
    (hB : Gen.superMajority (Fintype.card V) ≤ B.card) :
    3 * (A ∩ B).card > Fintype.card V := by
  have h1 := Finset.card_union_add_card_inter A B
  have h2 : (A ∪ B).card ≤ Fintype.card V := Finset.card_le_univ _
  have h3 := sm_least (Fintype.card V)
  omega

/-- a supermajority contains more honest than faulty validators (and more than n/3 honest ones)
    when fewer than n/3 are faulty -/
theorem supermajority_has_honest_majority (A F : Finset V)
    (hA : Gen.superMajority (Fintype.card V) ≤ A.card) (hF : 3 * F.card < Fintype.card V) :
    (A \ F).card > (A ∩ F).card ∧ 3 * (A \ F).card > Fintype.card V := by
  have h1 : (A \ F).card + (A ∩ F).card = A.card := Finset.card_sdiff_add_card_inter A F
  have h2 : (A ∩ F).card ≤ F.card := Finset.card_le_card Finset.inter_subset_right
  have h3 := sm_least (Fintype.card V)
  omega

/-- a trusted block (more than TrustCount distinct signers) has at least one honest signer -/
theorem trusted_has_honest_signer (S F : Finset V) (hn : 1 ≤ Fintype.card V)
    (hS : S.card > Gen.trustCount (Fintype.card V) (Fintype.card V))
    (hF : 3 * F.card < Fintype.card V) : ∃ v ∈ S, v ∉ F := by
  have h := trusted_needs_more_than_third _ _ hn hS
  by_contra hc
  have hsub : S ⊆ F := by
    intro v hv
    by_contra hvf
    exact hc ⟨v, hv, hvf⟩
  have := Finset.card_le_card hsub
  omega
end sets

/-- every peer list built by additions and removals is duplicate free -/
theorem nodup_after_ops (ops : List Op) : (ops.foldl applyOp []).Nodup := by
  suffices h : ∀ (ps : PeerList), ps.Nodup → (ops.foldl applyOp ps).Nodup from h [] List.nodup_nil
  induction ops with
  | nil => intro ps h; simpa using h
  | cons op ops ih =>
    intro ps h
    apply ih
    cases op with
    | add p =>
      simp only [applyOp, withNewPeer]
      split
      · exact h
      · rename_i hc
        have : p ∉ ps := by simpa using hc
        exact List.nodup_append.mpr ⟨h, List.nodup_singleton p, by
          intro a ha b hb; simp at hb; subst hb; intro hab; subst hab; exact this ha⟩
    | rm p =>
      simp only [applyOp, withRemovedPeer]
      exact h.filter _

theorem len_eq_length_of_nodup (ps : PeerList) (h : ps.Nodup) : len ps = ps.length := by
  unfold len
  induction ps with
  | nil => rfl
  | cons a as ih =>
    have hn := List.nodup_cons.mp h
    simp [dedup, hn.1, ih hn.2]

/-- `Len()` of a set built by any sequence of additions and removals is the number of its members,
    so the two arguments of the generated `trustCount` coincide -/
theorem len_after_ops (ops : List Op) :
    len (ops.foldl applyOp []) = (ops.foldl applyOp []).length :=
  len_eq_length_of_nodup _ (nodup_after_ops ops)

/-- membership after a sequence of operations: p is a member iff its last operation was an addition -/
theorem mem_after_add (ps : PeerList) (p : Nat) : p ∈ applyOp ps (.add p) := by
  simp only [applyOp, withNewPeer]; split
  · rename_i h; simpa using h
  · simp

theorem not_mem_after_rm (ps : PeerList) (p : Nat) : p ∉ applyOp ps (.rm p) := by
  simp [applyOp, withRemovedPeer]

/-- non-vacuity: a concrete four-validator set built by operations; thresholds 3 and 2 -/
example : len ([Op.add 1, .add 2, .add 3, .rm 2, .add 4, .add 2].foldl applyOp []) = 4
    ∧ superMajority [1, 3, 4, 2] = 3 ∧ trustCount [1, 3, 4, 2] = 2 := by decide

end Babble.Props.C19
