import Babble.Proofs.Median
import Babble.Generated
/-! # C18 — block timestamps are Byzantine-tolerant medians
    `median64` is the model of `common.Median` with Go's int64 semantics (wrap-around of the sum,
    truncating division).  The block timestamp is `median64` of the famous witnesses' claimed
    timestamps (tied to the code by the C18 correspondence run and by `Model/Hashgraph`). -/
namespace Babble.Props.C18
open Babble Babble.Median

/-- Main statement.  If strictly fewer than half of the values lie outside `[lo, hi]` (the range of
    the honest famous witnesses' timestamps) and that range avoids int64 overflow of a sum of two
    of its members, the Go median lies inside the range — whatever the other values are (any int64,
    including `MinInt64`/`MaxInt64`). -/
theorem median_between (l : List Int) (lo hi : Int)
    (hlo : -(two63 / 2) ≤ lo) (hhi : hi < two63 / 2)
    (h : 2 * l.countP (outside lo hi) < l.length) :
    lo ≤ median64 l ∧ median64 l ≤ hi := by
  have hs := sorted_pairwise l
  have hlen := sorted_length l
  have hcnt : (sorted l).countP (outside lo hi) = l.countP (outside lo hi) :=
    (sorted_perm l).countP_eq _
  unfold median64
  simp only []
  rw [hlen]
  have hn : l.length ≠ 0 := by omega
  rw [if_neg hn]
  by_cases hpar : l.length % 2 = 0
  · rw [if_pos hpar]
    have hk1 : l.length / 2 - 1 < (sorted l).length := by omega
    have hk2 : l.length / 2 < (sorted l).length := by omega
    rw [(List.getElem_eq_getD (h := hk1) 0).symm, (List.getElem_eq_getD (h := hk2) 0).symm]
    have m1 := middle_inside hs lo hi (l.length / 2 - 1) (by omega) (by omega)
    have m2 := middle_inside hs lo hi (l.length / 2) (by omega) (by omega)
    have hw : wrap64 ((sorted l)[l.length / 2 - 1] + (sorted l)[l.length / 2])
        = (sorted l)[l.length / 2 - 1] + (sorted l)[l.length / 2] := by
      apply wrap64_id
      unfold inInt64 two63 at *
      omega
    rw [hw]
    exact tdiv2_between _ _ lo hi m1 m2
  · rw [if_neg hpar]
    have hk2 : l.length / 2 < (sorted l).length := by omega
    rw [(List.getElem_eq_getD (h := hk2) 0).symm]
    exact middle_inside hs lo hi (l.length / 2) (by omega) (by omega)

/-- fewer than n/3 lying validators are a strict minority among any ≥ supermajority set of famous
    witnesses (a block exists only if its round has at least a supermajority of famous witnesses) -/
theorem byzantine_minority_among_famous (n b famous : Nat) (hb : 3 * b < n)
    (hf : Gen.superMajority n ≤ famous) : 2 * b < famous := by
  unfold Gen.superMajority at hf; omega

/-- The property as stated: `ts` are the famous witnesses' claimed timestamps, `byz` marks the ones
    created by misreporting validators; the honest ones lie in `[lo,hi]`.  If the liars are fewer
    than a third of the round's `n` validators and there are at least a supermajority of famous
    witnesses, the block timestamp lies in the honest range. -/
theorem block_timestamp_bounded (n : Nat) (ts : List (Int × Bool)) (lo hi : Int)
    (hlo : -(two63 / 2) ≤ lo) (hhi : hi < two63 / 2)
    (hhonest : ∀ p ∈ ts, p.2 = false → lo ≤ p.1 ∧ p.1 ≤ hi)
    (hbyz : 3 * ts.countP (·.2) < n)
    (hfam : Gen.superMajority n ≤ ts.length) :
    lo ≤ median64 (ts.map (·.1)) ∧ median64 (ts.map (·.1)) ≤ hi := by
  apply median_between _ lo hi hlo hhi
  have h1 : (ts.map (·.1)).countP (outside lo hi) ≤ ts.countP (·.2) := by
    rw [List.countP_map]
    apply List.countP_mono_left
    intro p hp hout
    cases hb : p.2 with
    | true => rfl
    | false =>
      have := hhonest p hp hb
      simp [outside] at hout
      omega
  have h2 := byzantine_minority_among_famous n _ _ hbyz hfam
  simp only [List.length_map]
  omega

/-- non-vacuity: three honest clocks in [1000,1002] and one liar at MaxInt64 satisfy the hypotheses -/
example : 1000 ≤ median64 [1000, 9223372036854775807, 1002, 1001]
    ∧ median64 [1000, 9223372036854775807, 1002, 1001] ≤ 1002 :=
  median_between _ 1000 1002 (by decide) (by decide) (by decide)

example : 1000 ≤ median64 ([(1000, false), (-9223372036854775808, true), (1002, false), (1001, false)].map (·.1))
    ∧ median64 ([(1000, false), (-9223372036854775808, true), (1002, false), (1001, false)].map (·.1)) ≤ 1002 :=
  block_timestamp_bounded 4 _ 1000 1002 (by decide) (by decide) (by decide) (by decide) (by decide)

end Babble.Props.C18
