import Babble.Model.Proxy
/-! # C20 — the application proxy is transparent (PARTIAL)
    Proved: the retry loop of the socket proxies (retry counts regenerated from the source) reports an
    error iff every attempt it made failed, and a success carries the reply of the attempt that
    succeeded — never an empty success; at most `retries` attempts are made.
    Not modelled: `net/rpc`, `jsonrpc`, TCP, timing.  Byte-exact transport of blocks, commit responses
    and transactions, submission order, and behaviour under dropped connections are decided by the
    harness running both real proxies against a fault-injecting application endpoint (DESIGN.md §3 C20). -/
namespace Babble.Props.C20
open Babble Babble.Proxy

variable {ρ : Type}

def isOk : Attempt ρ → Bool
  | .ok _ => true
  | _ => false

/-- **call_error_iff_all_attempts_fail** -/
theorem call_error_iff_all_attempts_fail (n : Nat) (atts : List (Attempt ρ)) (hlen : n ≤ atts.length) (hn : 0 < n) :
    call n atts = .error ↔ ∀ a ∈ atts.take n, isOk a = false := by
  induction n generalizing atts with
  | zero => omega
  | succ n ih =>
    cases atts with
    | nil => simp at hlen
    | cons a rest =>
      cases a with
      | ok r => simp [call, isOk]
      | connFail =>
        simp only [call, List.take_succ_cons, List.mem_cons, forall_eq_or_imp, isOk, true_and]
        by_cases h0 : n = 0
        · subst h0; simp [call]
        · exact ih rest (by simpa using hlen) (by omega)
      | callFail =>
        simp only [call, List.take_succ_cons, List.mem_cons, forall_eq_or_imp, isOk, true_and]
        by_cases h0 : n = 0
        · subst h0; simp [call]
        · exact ih rest (by simpa using hlen) (by omega)

/-- **call_ok_returns_an_attempt's_reply**: a success is the reply of one of the attempts made, and
    every earlier attempt failed -/
theorem call_ok_returns_an_attempts_reply (n : Nat) (atts : List (Attempt ρ)) (r : ρ) (h : call n atts = .success r) :
    ∃ k, k < n ∧ atts[k]? = some (.ok r) ∧ ∀ j, j < k → ∃ a, atts[j]? = some a ∧ isOk a = false := by
  induction n generalizing atts with
  | zero => simp [call] at h
  | succ n ih =>
    cases atts with
    | nil => simp [call] at h
    | cons a rest =>
      cases a with
      | ok r' =>
        simp only [call] at h
        injection h with h
        subst h
        exact ⟨0, by omega, by simp, by intro j hj; omega⟩
      | connFail =>
        simp only [call] at h
        obtain ⟨k, hk, hr, hf⟩ := ih rest h
        refine ⟨k+1, by omega, by simpa using hr, ?_⟩
        intro j hj
        cases j with
        | zero => exact ⟨.connFail, by simp, rfl⟩
        | succ j => simpa using hf j (by omega)
      | callFail =>
        simp only [call] at h
        obtain ⟨k, hk, hr, hf⟩ := ih rest h
        refine ⟨k+1, by omega, by simpa using hr, ?_⟩
        intro j hj
        cases j with
        | zero => exact ⟨.callFail, by simp, rfl⟩
        | succ j => simpa using hf j (by omega)

/-- at most `retries` attempts are made -/
theorem attempts_bounded (n : Nat) (atts : List (Attempt ρ)) : attemptsMade n atts ≤ n := by
  induction n generalizing atts with
  | zero => simp [attemptsMade]
  | succ n ih =>
    cases atts with
    | nil => simp [attemptsMade]
    | cons a rest =>
      cases a with
      | ok r => simp [attemptsMade]
      | connFail => simp only [attemptsMade]; have := ih rest; omega
      | callFail => simp only [attemptsMade]; have := ih rest; omega

/-- the shipped retry counts are positive: the loop body runs at least once, so a call can never
    "succeed" without having obtained a reply -/
theorem retries_positive : 0 < Gen.appProxyRetries ∧ 0 < Gen.babbleProxyRetries := by decide

/-- with the shipped constants: never an empty success -/
theorem never_empty_success (atts : List (Attempt ρ)) (r : ρ) (h : call Gen.appProxyRetries atts = .success r) :
    ∃ k, k < Gen.appProxyRetries ∧ atts[k]? = some (.ok r) :=
  let ⟨k, hk, hr, _⟩ := call_ok_returns_an_attempts_reply _ atts r h
  ⟨k, hk, hr⟩

example : call 3 [Attempt.connFail, .callFail, .ok 7] = Outcome.success 7 := by decide
example : call 3 [Attempt.connFail, .callFail, .callFail, .ok 7] = (Outcome.error : Outcome Nat) := by decide

end Babble.Props.C20
