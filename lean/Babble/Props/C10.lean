import Babble.Proofs.PeerSets
import Babble.Proofs.HGBlocks
import Babble.Proofs.HGTable
/-! # C10 — the validator-set history is a replayable function of the committed blocks
    `buildTable` is what the commit callback (`core.processAcceptedInternalTransactions` +
    `PeerSetCache.Set`) does block after block; `peersAtTbl` is `PeerSetCache.Get`; `replay` is the
    specification.  The activation delay is the regenerated `Gen.effectiveRound` (round received + 6).
    `Increasing` (strictly increasing, non-negative round received) is what C02 gives for delivered
    blocks — since `HG.blocks_rr_increasing` this is a theorem about the operational model, and
    `node_history_is_replay` / `node_validators_are_replay` state the property for every reachable
    state of a node started from genesis, without that hypothesis.

    PARTIAL: "the set a node *uses* for round r" also includes values memoised before an entry
    existed (round / witness of an event divided before the block carrying the change was committed).
    That coincides with the table only if no event of a round ≥ rr + 6 is divided before block rr is
    committed (the R+6 assumption of docs/dynamic_membership.rst); it is checked by the harness on every
    trace (the C01 oracle across nodes), not proved. -/
namespace Babble.Props.C10
open Babble Babble.HG

/-- **table_is_replay**: the validator set a node looks up for round r is the genesis set modified,
    in block order, by exactly the accepted receipts of the blocks with round received + 6 ≤ r -/
theorem table_is_replay (genesis : List Nat) (bs : List PBlock) (hinc : Increasing bs) (r : Int) (hr : 0 ≤ r) :
    peersAtTbl (buildTable genesis bs).1 r = replay genesis bs r := by
  have := tinv_fold genesis [] bs _ (tinv_init genesis) hinc (by intro c hc; cases hc)
  simpa [buildTable] using this.lookup r hr

/-- the node's latest validator set is the genesis set with every accepted change applied -/
theorem validators_are_replay (genesis : List Nat) (bs : List PBlock) (hinc : Increasing bs) :
    (buildTable genesis bs).2 = replayAll genesis bs := by
  have := tinv_fold genesis [] bs _ (tinv_init genesis) hinc (by intro c hc; cases hc)
  simpa [buildTable] using this.validators

theorem increasing_snoc (bs : List PBlock) (b : PBlock) (h : Increasing (bs ++ [b])) :
    Increasing bs ∧ (∀ c ∈ bs, c.1 < b.1) ∧ 0 ≤ b.1 := by
  induction bs with
  | nil => simp [Increasing] at h ⊢; exact h
  | cons a t ih =>
    obtain ⟨h0, h1, h2⟩ := h
    obtain ⟨i1, i2, i3⟩ := ih h2
    refine ⟨⟨h0, fun c hc => h1 c (List.mem_append_left _ hc), i1⟩, ?_, i3⟩
    intro c hc
    rcases List.mem_cons.mp hc with rfl | hc
    · exact h1 b (by simp)
    · exact i2 c hc

/-- **change_never_retroactive**: committing a block never changes the set of any round below its
    round received + 6 — in particular of no round already processed -/
theorem change_never_retroactive (genesis : List Nat) (bs : List PBlock) (b : PBlock)
    (hinc : Increasing (bs ++ [b])) (r : Int) (hr : 0 ≤ r) (hlt : r < Gen.effectiveRound b.1) :
    peersAtTbl (buildTable genesis (bs ++ [b])).1 r = peersAtTbl (buildTable genesis bs).1 r := by
  rw [table_is_replay genesis _ hinc r hr, table_is_replay genesis bs (increasing_snoc bs b hinc).1 r hr, replay_snoc]
  have : ¬ Gen.effectiveRound b.1 ≤ r := by omega
  simp [this]

/-- the activation delay regenerated from the source is six rounds after the round received -/
theorem activation_delay (rr : Int) : Gen.effectiveRound rr = rr + 6 := by
  unfold Gen.effectiveRound; omega

/-- the operational model's commit callback is one `tableStep` -/
theorem applyReceipts_is_tableStep (s : St) (rr : Int) (itxs : List (Bool × Nat)) :
    ((s.applyReceipts rr itxs).peerSets, (s.applyReceipts rr itxs).validators) =
      tableStep (s.peerSets, s.validators) (rr, itxs) := by
  unfold St.applyReceipts tableStep
  by_cases h : itxs.isEmpty = true
  · simp [h]
  · simp only [h]
    by_cases h2 : (s.peerSets.any (·.1 == Gen.effectiveRound rr)) = true
    · simp [h2]
    · simp [h2]

/-- **block_peers**: a block's peer list is the set effective at its round received -/
theorem block_peers (s : St) (r : Int) (ri : RoundInfo) : (s.getFrame r ri).1.peers = s.peersAt r := rfl

/-- two nodes that delivered the same blocks hold the same validator-set history -/
theorem same_blocks_same_history (genesis : List Nat) (bs : List PBlock) (hinc : Increasing bs) (r : Int) (hr : 0 ≤ r)
    (t₁ t₂ : List (Int × List Nat)) (h₁ : t₁ = (buildTable genesis bs).1) (h₂ : t₂ = (buildTable genesis bs).1) :
    peersAtTbl t₁ r = peersAtTbl t₂ r := by rw [h₁, h₂]

/-- **node_history_is_replay**: in every reachable state of a node started from genesis (any sequence
    of insertion attempts of fresh events), the validator set it looks up for round r is the genesis
    set modified, in block order, by exactly the accepted receipts of its delivered blocks with round
    received + 6 ≤ r -/
theorem node_history_is_replay (genesis : List Nat) (es : List Ev) (hes : ∀ e ∈ es, e.round = none)
    (r : Int) (hr : 0 ≤ r) :
    (runAll (St.init genesis) es).peersAt r = replay genesis ((runAll (St.init genesis) es).blocks.map pb) r := by
  have ht := runAll_tbl genesis _ es (init_tbl genesis)
  have hinc := runAll_increasing genesis es hes
  have := table_is_replay genesis _ hinc r hr
  unfold St.peersAt
  rw [← this]
  have : (runAll (St.init genesis) es).peerSets = (buildTable genesis ((runAll (St.init genesis) es).blocks.map pb)).1 :=
    congrArg (·.1) ht
  rw [this]

/-- … and its latest validator set (`core.validators`) is the genesis set with every accepted
    change of its delivered blocks applied -/
theorem node_validators_are_replay (genesis : List Nat) (es : List Ev) (hes : ∀ e ∈ es, e.round = none) :
    (runAll (St.init genesis) es).validators = replayAll genesis ((runAll (St.init genesis) es).blocks.map pb) := by
  have ht := runAll_tbl genesis _ es (init_tbl genesis)
  have hinc := runAll_increasing genesis es hes
  have := validators_are_replay genesis _ hinc
  rw [← this]
  exact congrArg (·.2) ht

/-- non-vacuity: genesis {0,1,2}; block at round 4 adds 3, block at round 9 removes 1 -/
example : (buildTable [0, 1, 2] [(4, [(true, 3)]), (9, [(false, 1)])]).1 = [(0, [0, 1, 2]), (10, [0, 1, 2, 3]), (15, [0, 2, 3])] := by
  decide
example : Increasing [(4, [(true, 3)]), (9, [(false, 1)])] := by simp [Increasing]

end Babble.Props.C10
