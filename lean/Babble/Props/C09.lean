import Babble.Model.SigPool
import Babble.Props.C19
/-! # C09 — block signatures and anchor
    About `Babble.SigPool` (model of `ProcessSigPool`, `SetAnchorBlock`, signing in `core.commit`),
    with the anchor threshold / comparison operators regenerated from the source.  A signature's
    validity against the node's own block body, its well-formedness and validator-set membership are
    input facts computed by the real code in the correspondence run.  `peersAt` is the validator set
    of a block's round, which never changes once the block exists (C10). -/
namespace Babble.Props.C09
open Babble Babble.SigPool

theorem find_replace (l : List SBlock) (b' : SBlock) (i : Int) :
    (l.map (fun x => if x.index == b'.index then b' else x)).find? (·.index == i) =
      if i = b'.index then (match l.find? (·.index == i) with | some _ => some b' | none => none)
      else l.find? (·.index == i) := by
  induction l with
  | nil => simp
  | cons x l ih =>
    rw [List.map_cons, List.find?_cons, List.find?_cons]
    by_cases hx : x.index = b'.index
    · have hxb : (x.index == b'.index) = true := by simpa using hx
      rw [if_pos hxb]
      by_cases hi : i = b'.index
      · have h1 : (b'.index == i) = true := by simpa using hi.symm
        have h2 : (x.index == i) = true := by simpa using hx.trans hi.symm
        subst hi
        simp [hxb]
      · have h1 : (b'.index == i) = false := by simpa using fun e => hi e.symm
        have h2 : (x.index == i) = false := by simpa using fun e => hi (e.symm.trans hx)
        simp only [h1, h2]
        rw [ih]
    · have hxb : (x.index == b'.index) = false := by simpa using hx
      rw [if_neg (by simp [hxb])]
      by_cases hxi : x.index = i
      · have h2 : (x.index == i) = true := by simpa using hxi
        have hi : ¬ i = b'.index := fun e => hx (hxi.trans e)
        simp [h2, hi]
      · have h2 : (x.index == i) = false := by simpa using hxi
        simp only [h2]
        rw [ih]

theorem getBlock_setBlock (s : SP) (b' : SBlock) (i : Int) :
    (s.setBlock b').getBlock i =
      if i = b'.index then (match s.getBlock i with | some _ => some b' | none => none) else s.getBlock i := by
  unfold SP.setBlock SP.getBlock
  exact find_replace s.blocks b' i

theorem getBlock_index (s : SP) (i : Int) (b : SBlock) (h : s.getBlock i = some b) : b.index = i := by
  unfold SP.getBlock at h
  have := List.find?_some h
  simpa using this

theorem addSig_spec (b : SBlock) (v : Nat) :
    (addSig b v).index = b.index ∧ (addSig b v).rr = b.rr ∧ b.sigs.length ≤ (addSig b v).sigs.length ∧
    (∀ w, w ∈ (addSig b v).sigs ↔ w ∈ b.sigs ∨ w = v) := by
  unfold addSig
  split
  · rename_i h
    have : v ∈ b.sigs := by simpa using h
    refine ⟨rfl, rfl, Nat.le_refl _, fun w => ⟨Or.inl, ?_⟩⟩
    rintro (h | h)
    · exact h
    · subst h; exact this
  · refine ⟨rfl, rfl, by simp, fun w => by simp⟩

/-- **recorded_sigs_valid** (step form): the only way a validator's signature gets recorded on a
    block by `ProcessSigPool` is a pooled signature for that block's index, by that validator, who
    belongs to the validator set of the block's round, and which verifies against the node's own body -/
theorem recorded_only_valid (s : SP) (g : Sig) (i : Int) (b b0 : SBlock) (v : Nat)
    (h0 : s.getBlock i = some b0) (h1 : (s.processSig g).1.getBlock i = some b)
    (hv : v ∈ b.sigs) (hn : v ∉ b0.sigs) :
    g.validator = v ∧ g.index = i ∧ g.valid = true ∧ g.wellFormed = true ∧ v ∈ s.peersAt b0.rr := by
  unfold SP.processSig at h1
  split at h1
  · rw [h0] at h1; injection h1 with h1; subst h1; exact absurd hv hn
  · rename_i bb hbb
    split at h1
    · rw [h0] at h1; injection h1 with h1; subst h1; exact absurd hv hn
    · split at h1
      · rw [h0] at h1; injection h1 with h1; subst h1; exact absurd hv hn
      · rename_i hmem
        split at h1
        · rw [h0] at h1; injection h1 with h1; subst h1; exact absurd hv hn
        · rename_i hwf
          split at h1
          · rw [h0] at h1; injection h1 with h1; subst h1; exact absurd hv hn
          · rename_i hval
            simp only [] at h1
            -- the anchor update does not touch blocks
            have hb : ((s.setBlock (addSig bb g.validator)).setAnchor (addSig bb g.validator)).getBlock i =
                (s.setBlock (addSig bb g.validator)).getBlock i := by
              unfold SP.setAnchor; split <;> rfl
            rw [hb, getBlock_setBlock] at h1
            have hbi := getBlock_index s g.index bb hbb
            by_cases hi : i = (addSig bb g.validator).index
            · rw [if_pos hi, h0] at h1
              simp only [] at h1
              injection h1 with h1
              subst h1
              have hidx : i = g.index := by rw [hi, (addSig_spec bb g.validator).1, hbi]
              subst hidx
              rw [hbb] at h0; injection h0 with h0; subst h0
              rcases ((addSig_spec bb g.validator).2.2.2 v).mp hv with h | h
              · exact absurd h hn
              · exact ⟨h.symm, rfl, by simpa using hval, by simpa using hwf, by subst h; simpa using hmem⟩
            · rw [if_neg hi, h0] at h1; injection h1 with h1; subst h1; exact absurd hv hn

/-- the anchor always designates a stored block carrying more recorded signatures than TrustCount
    of its round's validator set -/
def AnchorInv (s : SP) : Prop :=
  ∀ a, s.anchor = some a → ∃ b, s.getBlock a = some b ∧
    Gen.cmpAnchor.evalN b.sigs.length (trust (s.peersAt b.rr)) = true

theorem setAnchor_inv (s : SP) (b : SBlock) (hI : AnchorInv s) (hb : s.getBlock b.index = some b) :
    AnchorInv (s.setAnchor b) := by
  unfold SP.setAnchor
  split
  · rename_i hc
    intro a ha
    simp only [] at ha
    injection ha with ha
    subst ha
    simp only [Bool.and_eq_true] at hc
    exact ⟨b, hb, hc.1⟩
  · exact hI

theorem processSig_inv (s : SP) (g : Sig) (hI : AnchorInv s) : AnchorInv (s.processSig g).1 := by
  unfold SP.processSig
  split
  · exact hI
  · rename_i bb hbb
    split
    · exact hI
    · split
      · exact hI
      · split
        · exact hI
        · split
          · exact hI
          · simp only []
            have hbi := getBlock_index s g.index bb hbb
            have hsp := addSig_spec bb g.validator
            have hI1 : AnchorInv (s.setBlock (addSig bb g.validator)) := by
              intro a ha
              obtain ⟨b, hb, hc⟩ := hI a ha
              rw [getBlock_setBlock]
              by_cases hi : a = (addSig bb g.validator).index
              · rw [if_pos hi, hb]
                simp only []
                refine ⟨_, rfl, ?_⟩
                have : b = bb := by
                  have : a = g.index := by rw [hi, hsp.1, hbi]
                  subst this; rw [hbb] at hb; injection hb with hb; exact hb.symm
                subst this
                show Gen.cmpAnchor.evalN (addSig b g.validator).sigs.length (trust (s.peersAt (addSig b g.validator).rr)) = true
                rw [hsp.2.1]
                simp only [Gen.cmpAnchor, Cmp.evalN, decide_eq_true_eq] at hc ⊢
                have := hsp.2.2.1
                omega
              · rw [if_neg hi]; exact ⟨b, hb, hc⟩
            apply setAnchor_inv _ _ hI1
            rw [getBlock_setBlock, if_pos rfl, hsp.1, hbi, hbb]

/-- **anchor_well_signed** for every reachable state: after any sequence of `ProcessSigPool` steps -/
theorem processPool_inv (s : SP) (hI : AnchorInv s) : AnchorInv s.processPool := by
  unfold SP.processPool
  have key : ∀ (l : List Sig) (acc : SP × List Sig), AnchorInv acc.1 → AnchorInv (l.foldl processStep acc).1 := by
    intro l
    induction l with
    | nil => intro acc h; exact h
    | cons g l ih =>
      intro acc h
      simp only [List.foldl_cons]
      apply ih
      unfold processStep
      exact processSig_inv acc.1 g h
  have h0 : AnchorInv ({ s with pool := [] } : SP) := hI
  have := key s.pool ({ s with pool := [] }, []) h0
  revert this
  generalize s.pool.foldl processStep ({ s with pool := [] }, []) = p
  intro h
  exact h

/-- a trusted anchor carries strictly more than a third of its round's validators as distinct
    signers (any signature for a single validator) -/
theorem anchor_more_than_third (s : SP) (hI : AnchorInv s) (a : Int) (ha : s.anchor = some a) :
    ∃ b, s.getBlock a = some b ∧ (1 ≤ (s.peersAt b.rr).length → 3 * b.sigs.length > (s.peersAt b.rr).length) := by
  obtain ⟨b, hb, hc⟩ := hI a ha
  refine ⟨b, hb, fun hn => ?_⟩
  simp only [Gen.cmpAnchor, Cmp.evalN, trust] at hc
  exact Props.C19.trusted_needs_more_than_third _ _ hn (by simpa using hc)

/-- **anchor_monotone**: between resets the anchor index never moves backwards -/
theorem anchor_monotone_step (s : SP) (g : Sig) (a a' : Int) (h : s.anchor = some a)
    (h' : (s.processSig g).1.anchor = some a') : a ≤ a' := by
  unfold SP.processSig at h'
  split at h'
  · rw [h] at h'; injection h' with h'; omega
  · split at h'
    · rw [h] at h'; injection h' with h'; omega
    · split at h'
      · rw [h] at h'; injection h' with h'; omega
      · split at h'
        · rw [h] at h'; injection h' with h'; omega
        · split at h'
          · rw [h] at h'; injection h' with h'; omega
          · simp only [] at h'
            unfold SP.setAnchor at h'
            split at h'
            · rename_i hc
              simp only [] at h'
              injection h' with h'
              simp only [Bool.and_eq_true] at hc
              have := hc.2
              unfold SP.aboveAnchor SP.setBlock at this
              simp only [h] at this
              simp only [Gen.cmpAnchorIndex, Cmp.eval, decide_eq_true_eq] at this
              omega
            · unfold SP.setBlock at h'
              simp only [h] at h'
              injection h' with h'; omega

/-- **signs_only_delivered**: the node's own signature is put on a block only in `core.commit`, i.e.
    on a block it has just delivered, and only if it belongs to that round's validator set -/
theorem own_signature_on_commit (s : SP) (index rr : Int) (self : Nat) (b : SBlock)
    (hb : b ∈ (s.commitBlock index rr self).blocks) (hnew : b ∉ s.blocks) :
    b.index = index ∧ b.rr = rr ∧ (self ∈ b.sigs ↔ self ∈ s.peersAt rr) ∧ ∀ w ∈ b.sigs, w = self := by
  unfold SP.commitBlock at hb
  simp only [] at hb
  have hbl : ∀ (t : SP) (x : SBlock), (t.setAnchor x).blocks = t.blocks := by
    intro t x; unfold SP.setAnchor; split <;> rfl
  rw [hbl] at hb
  simp only [List.mem_append, List.mem_singleton] at hb
  rcases hb with hb | hb
  · exact absurd hb hnew
  · subst hb
    by_cases hm : (s.peersAt rr).contains self = true
    · simp only [hm, if_true]
      have := addSig_spec ({ index := index, rr := rr } : SBlock) self
      refine ⟨this.1, this.2.1, ?_, ?_⟩
      · constructor
        · intro _; simpa using hm
        · intro _; exact (this.2.2.2 self).mpr (Or.inr rfl)
      · intro w hw
        rcases (this.2.2.2 w).mp hw with h | h
        · cases h
        · exact h
    · simp only [hm]
      refine ⟨rfl, rfl, ?_, by intro w hw; cases hw⟩
      constructor
      · intro h; cases h
      · intro h; exact absurd (by simpa using h) hm

/-- non-vacuity: four validators, block 0 of round 3; two valid pooled signatures make it the anchor,
    a signature by a non-member and a non-verifying one do not count -/
example :
    (({ blocks := [{ index := 0, rr := 3, sigs := [0] }],
        pool := [⟨1, 0, true, true⟩, ⟨7, 0, true, true⟩, ⟨2, 0, true, false⟩, ⟨3, 0, true, true⟩],
        peersAt := fun _ => [0, 1, 2, 3] } : SP).processPool).anchor = some 0 := by decide

end Babble.Props.C09
