import Babble.Proofs.Vote
import Babble.Proofs.HGLoaded
import Babble.Model.Hashgraph
/-! # C06 — liveness under fair gossip (PARTIAL)
    What a theorem can carry: the deterministic ingredients.
    * elections terminate quickly once votes are unanimous: if every witness of a voting round votes
      `v`, every witness of the next normal round decides `v`; a coin round is always followed by a
      normal round (period regenerated from the source), so a unanimous vote is decided within two
      rounds (`unanimous_decides`, `coin_then_normal`, `unanimous_decides_within_two`);
    * a node keeps gossiping exactly while it has something unfinished (`busy_iff`, shape of
      `core.busy` checked by the extractor);
    * the consensus passes are total functions of the state (no failure path in the model), and
      `ProcessDecidedRounds` consumes every decided round at the head of the queue (`process_makes_progress`).

    What it cannot: a bound on the number of exchanges for the real voting rule.  A split election
    ends through coin rounds (the middle byte of a hash); there is no deterministic bound to prove.
    That clause is decided by exploration only — adversarial prefix + fair all-pairs suffix on real
    cores, "all live validators idle and everything accepted committed within 40 cycles" — and is
    reported as exploration evidence next to these lemmas (DESIGN.md §3 C06). -/
namespace Babble.Props.C06
open Babble Babble.Vote

variable {W : Type} [DecidableEq W]

/-- if every witness of level d votes b, a witness of the next level decides b provided that level is
    a normal round -/
theorem unanimous_decides (V : VoteSys W) (d : Nat) (b : Bool) (y : W) (hy : V.lvl y = d + 1)
    (hu : V.allVote d b) (hn : normalLvl (d+1) = true) : V.decidesAtG d y = some b := by
  rw [V.decidesAtG_eq]
  have hS := V.S_sub_level y d hy
  have hall : ∀ w ∈ V.S y, V.voteAt d w = b := fun w hw => hu w (hS w hw)
  have hcard := V.S_card y (by omega)
  have hsum := V.yays_add_nays (V.voteAt d) y
  unfold VoteSys.decidesAt
  cases b with
  | true =>
    have hn0 : V.nays (V.voteAt d) y = 0 := by
      unfold VoteSys.nays; rw [Finset.card_eq_zero, Finset.filter_eq_empty_iff]
      intro w hw; simp [hall w hw]
    have hy' : V.yays (V.voteAt d) y = (V.S y).card := by omega
    simp only [hn0, hy', hn]
    have : V.sm ≤ (V.S y).card := hcard
    simp [this]
  | false =>
    have hy0 : V.yays (V.voteAt d) y = 0 := by
      unfold VoteSys.yays; rw [Finset.card_eq_zero, Finset.filter_eq_empty_iff]
      intro w hw; simp [hall w hw]
    have hnn : V.nays (V.voteAt d) y = (V.S y).card := by omega
    have hpos : 0 < (V.S y).card := lt_of_lt_of_le V.sm_pos hcard
    have h1 : ¬ (0 ≥ (V.S y).card) := by omega
    have : V.sm ≤ (V.S y).card := hcard
    simp only [hnn, hy0, hn]
    simp [h1, this]

/-- a coin round is immediately followed by a normal round (coin period regenerated: 4) -/
theorem coin_then_normal (d : Nat) (h : normalLvl d = false) : normalLvl (d+1) = true := by
  unfold normalLvl Gen.cmpCoinTest Gen.coinRoundFreq Cmp.evalN at *
  simp only [decide_eq_false_iff_not, decide_eq_true_eq] at *
  omega

/-- a unanimous vote is decided within two rounds: at the next round if it is normal, else at the
    one after (unanimity survives the coin round) -/
theorem unanimous_decides_within_two (V : VoteSys W) (d : Nat) (b : Bool) (hu : V.allVote d b)
    (y1 y2 : W) (h1 : V.lvl y1 = d + 1) (h2 : V.lvl y2 = d + 2) :
    V.decidesAtG d y1 = some b ∨ V.decidesAtG (d+1) y2 = some b := by
  by_cases hn : normalLvl (d+1) = true
  · exact Or.inl (unanimous_decides V d b y1 h1 hu hn)
  · right
    have hn' : normalLvl (d+1) = false := by simpa using hn
    exact unanimous_decides V (d+1) b y2 h2 (V.unanimity_step d b hu) (coin_then_normal (d+1) hn')

/-- `core.busy` (shape checked by the extractor) -/
def busy (pendingLoaded txPool itxPool sigPool : Nat) (lcr : Option Int) (target : Int) : Bool :=
  Gen.busyShape && (decide (pendingLoaded > 0) || decide (txPool > 0) || decide (itxPool > 0) || decide (sigPool > 0) ||
    (match lcr with | some l => decide (l < target) | none => false))

/-- **busy_iff**: a node is idle iff it holds no loaded undetermined event, its three pools are empty
    and it has reached its target round -/
theorem busy_iff (pl tx itx sg : Nat) (lcr : Option Int) (target : Int) :
    busy pl tx itx sg lcr target = false ↔
      pl = 0 ∧ tx = 0 ∧ itx = 0 ∧ sg = 0 ∧ (∀ l, lcr = some l → target ≤ l) := by
  unfold busy
  simp only [Gen.busyShape, Bool.true_and]
  cases lcr with
  | none => simp; omega
  | some l => simp; omega

/-- `ProcessDecidedRounds` makes progress: a decided round at the head of the pending queue whose
    RoundInfo exists is consumed -/
theorem process_makes_progress (s : HG.St) (r : Int) (rest : List (Int × Bool)) (ri : HG.RoundInfo)
    (hp : s.pending = (r, true) :: rest) (hr : s.getRound r = some ri) :
    ∃ s', s.processOne = some s' ∧ s'.pending = rest := by
  unfold HG.St.processOne
  rw [hp]
  simp only [Bool.not_true, Bool.false_eq_true, if_false, hr]
  split
  · exact ⟨_, rfl, rfl⟩
  · exact ⟨_, rfl, rfl⟩

/-- **the counter behind `busy()` follows the events**: inserting an event adds one exactly when it
    is loaded; assigning rounds, deciding fame and assigning a round received leave it unchanged; it
    comes down only when a decided round is processed, by the number of loaded events of that frame.
    So an event that is loaded keeps its node busy until its round has been processed — also while a
    later round is decided before an earlier one. (The Go counter is compared with this model after
    every insertion.) -/
theorem busy_counter_follows_the_events (s : Babble.HG.St) (e : Babble.HG.Ev) :
    (s.insert e).pendingLoaded = s.pendingLoaded + (if e.isLoaded then 1 else 0) ∧
    s.divideRounds.pendingLoaded = s.pendingLoaded ∧
    s.decideFame.pendingLoaded = s.pendingLoaded ∧
    s.decideRoundReceived.pendingLoaded = s.pendingLoaded ∧
    (∀ s', s.processOne = some s' → ∃ r ri, s.getRound r = some ri ∧ s.pending.head?.map (·.1) = some r ∧
      s'.pendingLoaded = s.pendingLoaded - (((s.getFrame r ri).2.filter Babble.HG.Ev.isLoaded).length : Int)) :=
  ⟨Babble.HG.insert_pl s e, Babble.HG.divideRounds_pl s, Babble.HG.decideFame_pl s, Babble.HG.decideRoundReceived_pl s,
   fun s' h => Babble.HG.processOne_pl s s' h⟩

end Babble.Props.C06
