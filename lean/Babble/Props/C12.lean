import Babble.Model.FastForward
import Babble.Proofs.ByteCodec
/-! # C12 — fast-sync acceptance
    About `Babble.FF.accept`, the model of `core.checkFastForward` assembled from the check order,
    threshold formula and comparison operator regenerated from the Go sources. -/
namespace Babble.Props.C12
open Babble Babble.FF

/-- **ff_accept_iff**: a response is accepted iff it is structurally sound, the frame's validator
    set hashes to the block's peer-set hash, the frame hashes to the block's frame hash, strictly
    more than TrustCount *distinct* members of that set have a verifying signature, and one of them
    is a validator the node already knows -/
theorem ff_accept_iff (i : In) :
    accept i = true ↔
      i.structOk = true ∧ i.peersHashOk = true ∧ i.frameHashOk = true ∧
      (validSigners i.entries).length > Gen.trustCount i.lenPeers i.members ∧ 0 < i.trusted := by
  unfold accept Gen.coreCheckSteps
  simp only [List.all_cons, List.all_nil, Bool.and_true, stepOk, checkBlock, Gen.cmpCheckBlockReject, Cmp.evalN,
    Bool.and_eq_true, Bool.not_eq_true', decide_eq_false_iff_not, decide_eq_true_eq]
  constructor
  · rintro ⟨h1, ⟨h2, h3⟩, h4, h5⟩; exact ⟨h1, h2, h4, by omega, h5⟩
  · rintro ⟨h1, h2, h3, h4, h5⟩; exact ⟨h1, ⟨h2, by omega⟩, h3, h5⟩

/-- with a duplicate-free peer list, acceptance needs strictly more than a third of the members as
    distinct valid signers (any signature for a single-member set) -/
theorem accepted_has_more_than_third (i : In) (h : accept i = true) (hm : i.lenPeers = i.members) (hn : 1 ≤ i.members) :
    3 * (validSigners i.entries).length > i.members := by
  have := ((ff_accept_iff i).mp h).2.2.2.1
  rw [hm] at this
  unfold Gen.trustCount Cmp.evalN ceilDiv at this
  by_cases h1 : i.members > 1
  · simp [h1] at this; omega
  · have h2 : i.members = 1 := by omega
    have h3 : ¬ (i.members > 1) := h1
    simp [h3] at this
    omega

theorem insertNew_nodup (acc : List Nat) (x : Nat) (h : acc.Nodup) : (insertNew acc x).Nodup := by
  unfold insertNew
  split
  · exact h
  · rename_i hc
    have : x ∉ acc := by simpa using hc
    exact List.nodup_append.mpr ⟨h, by simp, by
      intro a ha b hb; simp at hb; subst hb; intro hab; subst hab; exact this ha⟩

/-- the same signer presented under any number of map keys is counted once: the counted signers
    are pairwise distinct members -/
theorem valid_signers_distinct (es : List Entry) : (validSigners es).Nodup := by
  unfold validSigners
  suffices h : ∀ acc : List Nat, acc.Nodup → (es.foldl (fun acc e => match e.signer, e.verifies with
      | some m, true => insertNew acc m
      | _, _ => acc) acc).Nodup from h [] List.nodup_nil
  induction es with
  | nil => intro acc h; exact h
  | cons e es ih =>
    intro acc h
    simp only [List.foldl_cons]
    apply ih
    split
    · exact insertNew_nodup _ _ h
    · exact h

theorem insertNew_mem (acc : List Nat) (x y : Nat) : y ∈ insertNew acc x ↔ y ∈ acc ∨ y = x := by
  unfold insertNew
  split
  · rename_i hc
    have : x ∈ acc := by simpa using hc
    constructor
    · intro h; exact Or.inl h
    · rintro (h | h)
      · exact h
      · subst h; exact this
  · simp

theorem fold_mem (es : List Entry) (m : Nat) : ∀ acc : List Nat, m ∈ (es.foldl (fun acc e => match e.signer, e.verifies with
      | some m, true => insertNew acc m
      | _, _ => acc) acc) → m ∈ acc ∨ ∃ e ∈ es, e.signer = some m ∧ e.verifies = true := by
  induction es with
  | nil => intro acc h; exact Or.inl h
  | cons e es ih =>
    intro acc h
    simp only [List.foldl_cons] at h
    rcases ih _ h with h1 | ⟨e', he', h2⟩
    · split at h1
      · rename_i m' hs hv
        rcases (insertNew_mem _ _ _).mp h1 with h3 | h3
        · exact Or.inl h3
        · subst h3; exact Or.inr ⟨e, List.mem_cons_self, hs, hv⟩
      · exact Or.inl h1
    · exact Or.inr ⟨e', List.mem_cons_of_mem _ he', h2⟩

/-- every counted signer is named by an entry that verifies: signatures over other bodies, by
    non-members or malformed ones never count -/
theorem valid_signers_verify (es : List Entry) (m : Nat) (h : m ∈ validSigners es) :
    ∃ e ∈ es, e.signer = some m ∧ e.verifies = true := by
  unfold validSigners at h
  rcases fold_mem es m [] h with h | h
  · cases h
  · exact h

/-- every single-field tampering of a valid response that breaks one of the hashed relations is
    refused: a changed frame (any field of events, roots, peer sets, round, timestamp) breaks the frame
    hash; a changed peer list breaks the peer-set hash; a changed block body invalidates every
    signature (hash injectivity and signatures covering the body are the trusted base) -/
theorem ff_tamper_refused (i : In)
    (h : i.frameHashOk = false ∨ i.peersHashOk = false ∨ i.structOk = false ∨ validSigners i.entries = []) :
    accept i = false := by
  cases hacc : accept i with
  | false => rfl
  | true =>
    obtain ⟨h1, h2, h3, h4, _⟩ := (ff_accept_iff i).mp hacc
    rcases h with h | h | h | h
    · rw [h] at h3; cases h3
    · rw [h] at h2; cases h2
    · rw [h] at h1; cases h1
    · rw [h] at h4; simp at h4

/-- a refused response leaves everything untouched: in `core.fastForward` nothing precedes the
    checks, and in `Node.fastForward` the application is restored only after them (orders
    regenerated from the sources) -/
theorem ff_refused_is_noop :
    Gen.coreFFSteps.head? = some FFStep.check ∧
    Gen.nodeFFSteps.takeWhile (· ≠ FFStep.restore) = [FFStep.check] ∧
    FFStep.reset ∉ Gen.coreCheckSteps ∧ FFStep.restore ∉ Gen.coreCheckSteps ∧ FFStep.setPeers ∉ Gen.coreCheckSteps := by
  decide

/-- non-vacuity: three of five members sign (one of them twice under another spelling) -/
example : accept { structOk := true, peersHashOk := true, frameHashOk := true, lenPeers := 5, members := 5, trusted := 3,
                   entries := [⟨some 0, true⟩, ⟨some 0, true⟩, ⟨some 3, true⟩, ⟨some 4, true⟩, ⟨none, true⟩] } = true := by decide
/-- the pre-repair witness: one signer under five spellings is refused -/
example : accept { structOk := true, peersHashOk := true, frameHashOk := true, lenPeers := 5, members := 5, trusted := 1,
                   entries := [⟨some 3, true⟩, ⟨some 3, true⟩, ⟨some 3, true⟩, ⟨some 3, true⟩, ⟨some 3, true⟩] } = false := by decide

/-! ## one key, many spellings
    The signature map of a block is keyed by *strings*.  `DecodeFromString` never looks at the first
    two bytes and accepts both cases, so one public key has at least 2·256² spellings that decode to
    the same bytes; counting map entries therefore counts nothing (defect D8).  The acceptance model
    counts `validSigners` by the member the decoded key *denotes* (`Entry.member : Option Nat`), and
    these theorems are why it has to. -/

/-- the case of the hexadecimal digits does not change what a key string decodes to -/
theorem key_spelling_case_irrelevant (s : Babble.Decode.Bytes) :
    ByteCodec.decodeFromString (s.map ByteCodec.lowerByte) = ByteCodec.decodeFromString s ∧
    ByteCodec.decodeFromString (s.map ByteCodec.upperByte) = ByteCodec.decodeFromString s :=
  ⟨ByteCodec.decode_lower s, ByteCodec.decode_upper s⟩

/-- nor do the first two bytes (nominally `0X`) -/
theorem key_spelling_prefix_irrelevant (a b a' b' : Nat) (r : Babble.Decode.Bytes) :
    ByteCodec.decodeFromString (a :: b :: r) = ByteCodec.decodeFromString (a' :: b' :: r) :=
  ByteCodec.prefix_ignored a b a' b' r

/-- a signature string can be re-spelled too (upper case, leading zeros): the same (r, s) has many
    strings, so a memo keyed by the string is not a memo keyed by the signature -/
theorem signature_respelled (n : Nat) :
    ByteCodec.setString36 ((ByteCodec.text36 n).map ByteCodec.upperByte) = some (Int.ofNat n) ∧
    ByteCodec.parseAux 0 (48 :: ByteCodec.text36 n) = some n :=
  ⟨ByteCodec.setString36_upper n, by rw [ByteCodec.parseAux_leading_zero]; exact ByteCodec.parse_text36 n⟩

/-- two different strings, one key: "0Xab" and "zzAB" -/
example : ByteCodec.decodeFromString [48, 88, 97, 98] = ByteCodec.decodeFromString [122, 122, 65, 66] := by decide

end Babble.Props.C12
