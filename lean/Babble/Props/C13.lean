import Babble.Props.C02
import Babble.Props.C10
import Babble.Props.C01
import Babble.Proofs.HGFrame
import Babble.Proofs.HGResetFinal
/-! # C13 — fast-sync continuity (PARTIAL)
    What is a theorem: a node reset from (block, frame) continues the index sequence from the anchor,
    only appends, and builds its validator-set table from the history shipped with the frame by the
    same `tableStep` as a full-history node (so the two tables agree from the anchor on whenever the
    same blocks are committed afterwards).  The unconditional statement "delivers exactly the blocks
    of full-history nodes" is not proved — it is false for the recorded history shape
    (`continuity:old-round-after-reset`) — and is decided by correspondence + oracle (DESIGN.md §3 C13). -/
namespace Babble.Props.C13
open Babble Babble.HG

/-- the reset node's delivered sequence starts with the anchor block and continues with consecutive
    indexes -/
theorem indexes_continue_from_anchor (blk : Block) (fr : Frame) (lookup : String → Option Ev)
    (es : List Ev) (i : Nat) (hi : i < (runAll (resetFrom blk fr lookup) es).blocks.length) :
    ((runAll (resetFrom blk fr lookup) es).blocks[i]).index = blk.index + i :=
  Props.C02.block_indexes_consecutive_after_reset blk fr lookup es i hi

/-- … and is only ever extended -/
theorem reset_node_append_only (blk : Block) (fr : Frame) (lookup : String → Option Ev) (es es' : List Ev) :
    ∃ new, (runAll (resetFrom blk fr lookup) (es ++ es')).blocks = (runAll (resetFrom blk fr lookup) es).blocks ++ new :=
  Props.C02.delivered_prefix_stable _ es es'

theorem insertFrameEvent_validators (s : St) (p : FrameEv × Ev) :
    (s.insertFrameEvent p).validators = s.validators ∧ (s.insertFrameEvent p).peerSets = s.peerSets := by
  unfold St.insertFrameEvent
  simp only []
  have h := insertCoords_out (s.setRound p.1.round (((s.getRound p.1.round).getD {}).addCreated p.1.id p.1.witness))
    { p.2 with la := [], fd := [], round := some p.1.round, lamport := some p.1.lamport, wit := some p.1.witness, rr := none }
  unfold St.out at h
  injection h with _ h
  injection h with _ h
  injection h with h3 h
  injection h with h4 _
  exact ⟨h4, h3⟩

theorem foldl_insertFrameEvent_validators (l : List (FrameEv × Ev)) (s : St) :
    (l.foldl St.insertFrameEvent s).validators = s.validators ∧ (l.foldl St.insertFrameEvent s).peerSets = s.peerSets := by
  induction l generalizing s with
  | nil => exact ⟨rfl, rfl⟩
  | cons p l ih =>
    simp only [List.foldl_cons]
    have h1 := ih (s.insertFrameEvent p)
    have h2 := insertFrameEvent_validators s p
    exact ⟨h1.1.trans h2.1, h1.2.trans h2.2⟩

/-- the validator set a reset node starts from is the most recent entry of the shipped history above
    the frame's round (the repaired `core.fastForward`), or the frame's peers if there is none; its
    validator-set table is the one shipped with the frame -/
theorem reset_validators (blk : Block) (fr : Frame) (lookup : String → Option Ev) (h : blk.itx = []) :
    (resetFrom blk fr lookup).validators =
      (((fr.peerSets.filter (fun p => decide (p.1 > fr.round))).getLast?).map (·.2)).getD fr.peers ∧
    (resetFrom blk fr lookup).peerSets = fr.peerSets := by
  unfold resetFrom
  simp only []
  unfold St.applyReceipts
  simp only [h, List.isEmpty_nil, if_true]
  exact foldl_insertFrameEvent_validators _ _

/-- after the reset, membership changes are applied by the same table step as on a full node -/
theorem reset_uses_same_table_step (s : St) (rr : Int) (itxs : List (Bool × Nat)) :
    ((s.applyReceipts rr itxs).peerSets, (s.applyReceipts rr itxs).validators) =
      tableStep (s.peerSets, s.validators) (rr, itxs) := Props.C10.applyReceipts_is_tableStep s rr itxs

/-- **any honest node can serve any other** (declarative model, static validator set): two nodes
    (views `A`, `B` of one fork-free history, in whatever order they received it) that have both
    decided every round up to `i` put exactly the same events into the frame of round `i` -- each
    holds every event the other received in that round, and received it in that round too -/
theorem independent_frames_have_the_same_events {ps : List Nat} {U A B : Dag.E → Prop} (H : Dag.Hist ps U)
    (hA : Dag.View A U) (hB : Dag.View B U) {k : Nat} (hk : 1 ≤ k) {i : Int}
    (dA : ∀ j, j ≤ i → Dag.RoundDecided ps A j) (dB : ∀ j, j ≤ i → Dag.RoundDecided ps B j) (e : Dag.E) :
    (A e ∧ Dag.RoundReceived ps A k e i) ↔ (B e ∧ Dag.RoundReceived ps B k e i) :=
  ⟨fun h => Props.C01.frames_agree H hA hB hk h.2 (fun j _ hj => dB j hj),
   fun h => Props.C01.frames_agree H hB hA hk h.2 (fun j _ hj => dA j hj)⟩

/-- **a reset node never revises what it took from the frame**: on a node reset from an anchor block
    and frame, through any sequence of insertion attempts of fresh events and any continuation, the
    round, witness flag, Lamport timestamp and round received of a stored event — the values preset
    from the frame (`InsertFrameEvent`) as well as those computed afterwards — never change once set.
    (The queue of undetermined events is empty after `Reset`: `resetFrom_undet`.) -/
theorem reset_node_values_are_final (blk : Block) (fr : Frame) (lookup : String → Option Ev) (es1 es2 : List Ev)
    (hnd : (idsOf (resetFrom blk fr lookup) ++ (es1 ++ es2).map (·.id)).Nodup)
    (hrr : ∀ e ∈ es1 ++ es2, e.rr = none) (x : String) (e : Ev)
    (hx : (runAll (resetFrom blk fr lookup) es1).get x = some e) :
    ∃ e', (runAll (resetFrom blk fr lookup) (es1 ++ es2)).get x = some e' ∧
      (e.round.isSome → e'.round = e.round ∧ e'.wit = e.wit) ∧ (e.lamport.isSome → e'.lamport = e.lamport) ∧
      (e.rr.isSome → e'.rr = e.rr) :=
  values_final_after_reset blk fr lookup es1 es2 hnd hrr x e hx

theorem reset_node_starts_with_empty_queue (blk : Block) (fr : Frame) (lookup : String → Option Ev) :
    (resetFrom blk fr lookup).undet = [] := resetFrom_undet blk fr lookup

/-- **`Reset` installs the frame's values and keeps them**: if the events a frame ships have pairwise
    distinct, non-empty ids, then after the reset and after any sequence of insertion attempts of fresh
    events the node still holds every frame event with exactly the round, witness flag and Lamport
    timestamp the serving node wrote into the frame — it never recomputes them from its own (shorter)
    history -/
theorem frame_values_installed_and_kept (blk : Block) (fr : Frame) (lookup : String → Option Ev) (es : List Ev)
    (hsrc : ((frameSources fr lookup).map (·.2.id)).Nodup) (hne : ∀ p ∈ frameSources fr lookup, p.2.id ≠ "")
    (hnd : (idsOf (resetFrom blk fr lookup) ++ es.map (·.id)).Nodup) (hrr : ∀ e ∈ es, e.rr = none) :
    ∀ p ∈ frameSources fr lookup, ∃ e', (runAll (resetFrom blk fr lookup) es).get p.2.id = some e' ∧
      e'.round = some p.1.round ∧ e'.wit = some p.1.witness ∧ e'.lamport = some p.1.lamport := by
  intro p hp
  obtain ⟨e0, hg, hr, hw, hl, _⟩ := resetFrom_installed blk fr lookup hsrc hne p hp
  obtain ⟨e', hg', hr', hl', _⟩ := values_final_after_reset blk fr lookup [] es (by simpa using hnd)
    (by simpa using hrr) p.2.id e0 hg
  have h1 := hr' (by rw [hr]; rfl)
  have h2 := hl' (by rw [hl]; rfl)
  exact ⟨e', by simpa using hg', h1.1.trans hr, h1.2.trans hw, h2.trans hl⟩

/-- non-vacuity: a frame with a root event and a frame event of another creator meets the hypotheses -/
example :
    let fr : Frame := { round := 3, ts := 0, peers := [1, 2],
                        events := [{ id := "b", round := 3, lamport := 7, witness := true }],
                        roots := [(1, [{ id := "a", round := 2, lamport := 5, witness := false }])],
                        peerSets := [(0, [1, 2])] }
    let lookup : String → Option Ev := fun x =>
      if x = "a" then some { id := "a", creator := 1, index := 4, sp := "", op := "", ts := 0, key := 1, mid := false }
      else if x = "b" then some { id := "b", creator := 2, index := 6, sp := "", op := "", ts := 0, key := 2, mid := true }
      else none
    ((frameSources fr lookup).map (·.2.id)).Nodup ∧ (∀ p ∈ frameSources fr lookup, p.2.id ≠ "") ∧
      (frameSources fr lookup).length = 2 := by
  decide

end Babble.Props.C13
