import Babble.Props.C02
import Babble.Props.C10
import Babble.Proofs.HGFrame
/-! # C13 — fast-sync continuity (PARTIAL)
    What is a theorem: a node reset from (block, frame) continues the index sequence from the anchor,
    only appends, and builds its validator-set table from the history shipped with the frame by the
    same `tableStep` as a full-history node (so the two tables agree from the anchor on whenever the
    same blocks are committed afterwards).  The unconditional statement "delivers exactly the blocks
    of full-history nodes" is not proved — it is false for the recorded history shape
    (`continuity:old-round-after-reset`) — and is decided by correspondence + oracle (DESIGN.md §3 C13). -/
namespace Babble.Props.C13
open Babble Babble.HG

/-- the reset node's delivered sequence starts with the anchor block and continues with consecutive
    indexes -/
theorem indexes_continue_from_anchor (blk : Block) (fr : Frame) (lookup : String → Option Ev)
    (es : List Ev) (i : Nat) (hi : i < (runAll (resetFrom blk fr lookup) es).blocks.length) :
    ((runAll (resetFrom blk fr lookup) es).blocks[i]).index = blk.index + i :=
  Props.C02.block_indexes_consecutive_after_reset blk fr lookup es i hi

/-- … and is only ever extended -/
theorem reset_node_append_only (blk : Block) (fr : Frame) (lookup : String → Option Ev) (es es' : List Ev) :
    ∃ new, (runAll (resetFrom blk fr lookup) (es ++ es')).blocks = (runAll (resetFrom blk fr lookup) es).blocks ++ new :=
  Props.C02.delivered_prefix_stable _ es es'

theorem insertFrameEvent_validators (s : St) (p : FrameEv × Ev) :
    (s.insertFrameEvent p).validators = s.validators ∧ (s.insertFrameEvent p).peerSets = s.peerSets := by
  unfold St.insertFrameEvent
  simp only []
  have h := insertCoords_out (s.setRound p.1.round (((s.getRound p.1.round).getD {}).addCreated p.1.id p.1.witness))
    { p.2 with la := [], fd := [], round := some p.1.round, lamport := some p.1.lamport, wit := some p.1.witness, rr := none }
  unfold St.out at h
  injection h with _ h
  injection h with _ h
  injection h with h3 h
  injection h with h4 _
  exact ⟨h4, h3⟩

theorem foldl_insertFrameEvent_validators (l : List (FrameEv × Ev)) (s : St) :
    (l.foldl St.insertFrameEvent s).validators = s.validators ∧ (l.foldl St.insertFrameEvent s).peerSets = s.peerSets := by
  induction l generalizing s with
  | nil => exact ⟨rfl, rfl⟩
  | cons p l ih =>
    simp only [List.foldl_cons]
    have h1 := ih (s.insertFrameEvent p)
    have h2 := insertFrameEvent_validators s p
    exact ⟨h1.1.trans h2.1, h1.2.trans h2.2⟩

/-- the validator set a reset node starts from is the most recent entry of the shipped history above
    the frame's round (the repaired `core.fastForward`), or the frame's peers if there is none; its
    validator-set table is the one shipped with the frame -/
theorem reset_validators (blk : Block) (fr : Frame) (lookup : String → Option Ev) (h : blk.itx = []) :
    (resetFrom blk fr lookup).validators =
      (((fr.peerSets.filter (fun p => decide (p.1 > fr.round))).getLast?).map (·.2)).getD fr.peers ∧
    (resetFrom blk fr lookup).peerSets = fr.peerSets := by
  unfold resetFrom
  simp only []
  unfold St.applyReceipts
  simp only [h, List.isEmpty_nil, if_true]
  exact foldl_insertFrameEvent_validators _ _

/-- after the reset, membership changes are applied by the same table step as on a full node -/
theorem reset_uses_same_table_step (s : St) (rr : Int) (itxs : List (Bool × Nat)) :
    ((s.applyReceipts rr itxs).peerSets, (s.applyReceipts rr itxs).validators) =
      tableStep (s.peerSets, s.validators) (rr, itxs) := Props.C10.applyReceipts_is_tableStep s rr itxs

end Babble.Props.C13
