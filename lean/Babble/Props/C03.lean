import Babble.Proofs.HGOrder
import Babble.Proofs.HGFame
import Babble.Proofs.HGBlocks
import Babble.Proofs.DagVote
import Babble.Proofs.HGWitnessUnique
/-! # C03 — consensus output is a function of the event DAG only
    Proved here: the deterministic ingredients that make the output independent of process-local
    state, and — for a static validator set, on the declarative model `Babble.Dag` that the
    correspondence run compares with the Go code on every static view — order independence itself:
    round, witness flag, strongly-see, the votes cast and the fame decisions triggered by an event
    are functions of the event (its hash-linked ancestry) alone (`values_depend_on_the_event_only`:
    two nodes that evaluate them over different event sets, in different orders, obtain the same
    record), the fame of a witness does not depend on who decides it, and the famous witnesses of a
    decided round are the same on every node (C01), so a node with a downward-closed subset computes
    a prefix.  NOT proved: the same statement for the operational model `Babble.HG` (stored
    coordinates and tables; decided by the correspondence run: same DAG, many topological orders,
    sub-DAGs, stores, cache sizes, batchings, Go vs both Lean models), Lamport timestamps and
    round-received as Lean theorems.  See DESIGN.md §3 C03. -/
namespace Babble.Props.C03
open Babble Babble.HG

/-- **values_depend_on_the_event_only**: two evaluations (`Dag.build`, the executable the Go code is
    compared with) over any two event lists, in any orders, give the same record — round, witness
    flag, coordinates, votes, decisions — to the same event tree -/
theorem values_depend_on_the_event_only (ps : List Nat) (nodes₁ nodes₂ : List Dag.Node)
    (p₁ p₂ : Nat × List Dag.Rec) (h₁ : p₁ ∈ Dag.build ps nodes₁) (h₂ : p₂ ∈ Dag.build ps nodes₂)
    (he : Dag.headE p₁.2 = Dag.headE p₂.2) : p₁.2 = p₂.2 := by
  rw [(Dag.build_ok ps nodes₁ p₁ h₁).1, (Dag.build_ok ps nodes₂ p₂ h₂).1, he]

/-- fame does not depend on the decider, hence not on the order in which deciders were received -/
theorem fame_independent_of_decider {ps : List Nat} {U : Dag.E → Prop} (H : Dag.Hist ps U) {x y y' : Dag.E}
    (hx : U x) (hy : U y) (hy' : U y') {b b' : Bool}
    (h : Dag.decision ps y x = some b) (h' : Dag.decision ps y' x = some b') : b = b' :=
  Dag.dag_fame_agreement H hx hy hy' h h'

/-- **subdag_prefix (fame)**: a node that holds a downward-closed subset `A` of what another view `B`
    holds, and has declared round `r` decided, already knows the final famous witnesses of `r`: no
    event `B` has in addition changes that set -/
theorem famous_set_of_decided_round_is_final {ps : List Nat} {U A B : Dag.E → Prop} (H : Dag.Hist ps U)
    (hA : Dag.View A U) (hB : Dag.View B U) (hAB : ∀ e, A e → B e) {r : Int}
    (dA : Dag.RoundDecided ps A r) (x : Dag.E) (hBx : B x) (hw : Dag.wit ps x = true) (hr : Dag.round ps x = r) :
    Dag.DecidedIn ps B x true ↔ Dag.FamousIn ps A r x :=
  Dag.famous_set_final H hA hB hAB dA x hBx hw hr

/-- frames are ordered by a key that is independent of the insertion order: whatever order the
    round's events were received in, the committed order is the same -/
theorem frame_order_independent_of_reception (l₁ l₂ : List Ev) (hp : l₁.Perm l₂)
    (hkey : ∀ a b, a ∈ l₁ → b ∈ l₁ → a.lamport.getD 0 = b.lamport.getD 0 → a.key = b.key → a = b) :
    l₁.mergeSort frameLe = l₂.mergeSort frameLe := HG.frame_order_canonical l₁ l₂ hp hkey

/-- the block timestamp does not depend on the order in which the famous witnesses are enumerated
    (Go iterates a map): the median sorts first -/
theorem median_order_independent (l₁ l₂ : List Int) (hp : l₁.Perm l₂) :
    Median.median64 l₁ = Median.median64 l₂ := by
  have hs : Median.sorted l₁ = Median.sorted l₂ := by
    apply List.Perm.eq_of_pairwise (le := fun a b => decide (a ≤ b) = true)
    · intro a b _ _ h1 h2; simp at h1 h2; omega
    · exact List.pairwise_mergeSort (le := fun a b => decide (a ≤ b)) (by intro a b c h1 h2; simp at *; omega)
        (by intro a b; simp; omega) _
    · exact List.pairwise_mergeSort (le := fun a b => decide (a ≤ b)) (by intro a b c h1 h2; simp at *; omega)
        (by intro a b; simp; omega) _
    · exact (List.mergeSort_perm _ _).trans (hp.trans (List.mergeSort_perm _ _).symm)
  unfold Median.median64
  simp only [hs]

/-- the consensus passes other than `ProcessDecidedRounds` are pure table computations: they never
    touch delivered blocks, frames or validator sets, so batching them differently cannot reorder or
    alter what was already delivered -/
theorem passes_do_not_touch_output (s : St) :
    s.divideRounds.out = s.out ∧ s.decideFame.out = s.out ∧ s.decideRoundReceived.out = s.out :=
  ⟨divideRounds_out s, decideFame_out s, decideRoundReceived_out s⟩

example : Median.median64 [3, 1, 2] = Median.median64 [1, 2, 3] :=
  median_order_independent _ _ (by decide)

/-- **assigned values are final** (operational model, any validator-set behaviour): whatever round,
    witness flag, Lamport timestamp or round received an event has at some moment of an insertion
    history (fresh events with distinct ids, into a node started from genesis), it has after every
    continuation of that history — later events and later consensus passes never revise it. -/
theorem assigned_values_are_final (g : List Nat) (es1 es2 : List Babble.HG.Ev)
    (hnd : ((es1 ++ es2).map (·.id)).Nodup) (hrr : ∀ e ∈ es1 ++ es2, e.rr = none) (x : String) (e : Babble.HG.Ev)
    (hx : (Babble.HG.runAll (Babble.HG.St.init g) es1).get x = some e) :
    ∃ e', (Babble.HG.runAll (Babble.HG.St.init g) (es1 ++ es2)).get x = some e' ∧
      (e.round.isSome → e'.round = e.round ∧ e'.wit = e.wit) ∧ (e.lamport.isSome → e'.lamport = e.lamport) ∧
      (e.rr.isSome → e'.rr = e.rr) :=
  Babble.HG.values_final g es1 es2 hnd hrr x e hx

/-- **fame decisions are final** (operational model, any validator-set behaviour, any insertion
    attempts): a witness recorded as famous or as not famous in the table of its round stays recorded
    that way after every further insertion and consensus pass. -/
theorem fame_decisions_are_final (s : Babble.HG.St) (es : List Babble.HG.Ev) (r : Int) (ri : Babble.HG.RoundInfo)
    (x : String) (f : Babble.HG.Fame) (hg : s.getRound r = some ri) (hd : Babble.HG.Decd ri x f) :
    ∃ ri', (Babble.HG.runAll s es).getRound r = some ri' ∧ Babble.HG.Decd ri' x f :=
  Babble.HG.fame_final s es r ri x f hg hd

/-- **rounds never decrease along the parent edges** (operational model, any validator-set
    behaviour): in every state a node started from genesis reaches through insertion attempts of
    fresh events, every stored event has a round, the parents it names are stored, and their rounds
    are at most its own — the shape the declarative model's `round` has by construction -/
theorem rounds_never_decrease_along_parents (g : List Nat) (es : List HG.Ev) (hnd : (es.map (·.id)).Nodup)
    (hfresh : ∀ e ∈ es, e.id ≠ "" ∧ e.round = none ∧ e.rr = none) (x : String) (e : HG.Ev)
    (hx : (HG.runAll (HG.St.init g) es).get x = some e) :
    ∃ r, e.round = some r ∧
      (e.sp ≠ "" → ∃ p rp, (HG.runAll (HG.St.init g) es).get e.sp = some p ∧ p.round = some rp ∧ rp ≤ r) ∧
      (e.op ≠ "" → ∃ p rp, (HG.runAll (HG.St.init g) es).get e.op = some p ∧ p.round = some rp ∧ rp ≤ r) :=
  HG.round_parents g es hnd hfresh x e hx

/-- **a witness is the first event of its creator in its round** (operational model): a stored event
    whose witness flag is `true` has a round strictly above the round of its self-parent — with
    `rounds_never_decrease_along_parents` along the creator's chain (C07), no creator has two witnesses
    in one round; again the shape `Babble.Dag` has by construction -/
theorem witness_round_above_self_parent (g : List Nat) (es : List HG.Ev) (hnd : (es.map (·.id)).Nodup)
    (hfresh : ∀ e ∈ es, e.id ≠ "" ∧ e.round = none ∧ e.rr = none) (x : String) (e p : HG.Ev) (r rp : Int)
    (hx : (HG.runAll (HG.St.init g) es).get x = some e) (hw : e.wit = some true) (hr : e.round = some r)
    (hsp : e.sp ≠ "") (hp : (HG.runAll (HG.St.init g) es).get e.sp = some p) (hrp : p.round = some rp) : rp < r :=
  HG.witness_above_self_parent g es hnd hfresh x e p r rp hx hw hr hsp hp hrp

/-- **rounds never decrease along ancestry** (operational model): if `a` is an ancestor-or-self of `b`
    in the stored history (the reachability relation of C07's `ancestor_eq_reachability`), the round
    of `a` is at most the round of `b` -/
theorem rounds_never_decrease_along_ancestry (g : List Nat) (es : List HG.Ev) (hnd : (es.map (·.id)).Nodup)
    (hfresh : ∀ e ∈ es, e.id ≠ "" ∧ e.round = none ∧ e.rr = none) (a b : String)
    (h : HG.Anc (HG.runAll (HG.St.init g) es).events a b) (ea eb : HG.Ev) (ra rb : Int)
    (ha : (HG.runAll (HG.St.init g) es).get a = some ea) (hb : (HG.runAll (HG.St.init g) es).get b = some eb)
    (hra : ea.round = some ra) (hrb : eb.round = some rb) : ra ≤ rb :=
  HG.anc_round_le g es hnd hfresh
    (Babble.Props.C07.admission_invariant g es (fun x hx => (hfresh x hx).1) (HG.nodup_hash hnd))
    a b h ea eb ra rb ha hb hra hrb

/-- **one witness per creator and round** (operational model): two stored witnesses of the same
    creator with the same round are the same event — rounds never decrease along ancestry, a creator's
    events form one chain (C07), and a witness's round is strictly above its self-parent's.  On the
    declarative model this is `wit_unique`; the vote counting of `DecideFame` relies on it. -/
theorem one_witness_per_creator_and_round (g : List Nat) (es : List HG.Ev) (hnd : (es.map (·.id)).Nodup)
    (hfresh : ∀ e ∈ es, e.id ≠ "" ∧ e.round = none ∧ e.rr = none) (y z : HG.Ev) (r : Int)
    (hy : y ∈ (HG.runAll (HG.St.init g) es).events) (hz : z ∈ (HG.runAll (HG.St.init g) es).events)
    (hc : y.creator = z.creator) (hwy : y.wit = some true) (hwz : z.wit = some true)
    (hry : y.round = some r) (hrz : z.round = some r) : y = z :=
  HG.witness_unique g es hnd hfresh y z r hy hz hc hwy hwz hry hrz

/-- non-vacuity of the three theorems above: two validators; `d` is the witness of round 1 on
    validator 1's chain (its self-parent `b` is a witness of round 0), `c` is not a witness -/
example :
    let es : List HG.Ev := [
      { id := "a", creator := 0, index := 0, sp := "", op := "", ts := 1, key := 1, mid := true },
      { id := "b", creator := 1, index := 0, sp := "", op := "", ts := 2, key := 2, mid := true },
      { id := "c", creator := 0, index := 1, sp := "a", op := "b", ts := 3, key := 3, mid := true },
      { id := "d", creator := 1, index := 1, sp := "b", op := "c", ts := 4, key := 4, mid := true }]
    ((HG.runAll (HG.St.init [0, 1]) es).events.map (fun e => (e.id, e.round, e.wit))) =
      [("d", some 1, some true), ("c", some 0, some false), ("b", some 0, some true), ("a", some 0, some true)] := by
  decide

end Babble.Props.C03
