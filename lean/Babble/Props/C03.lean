import Babble.Proofs.HGOrder
import Babble.Proofs.HGBlocks
/-! # C03 — consensus output is a function of the event DAG only
    Proved here: the deterministic ingredients that make the output independent of process-local
    state.  The full statement (`round_witness_lamport_order_independent`,
    `fame_rr_order_independent_static`, `subdag_prefix`) is NOT yet proved; it is decided by the
    correspondence run (same DAG, many topological orders, sub-DAGs, stores, cache sizes, batchings,
    Go vs the Lean model vs each other).  See DESIGN.md §3 C03. -/
namespace Babble.Props.C03
open Babble Babble.HG

/-- frames are ordered by a key that is independent of the insertion order: whatever order the
    round's events were received in, the committed order is the same -/
theorem frame_order_independent_of_reception (l₁ l₂ : List Ev) (hp : l₁.Perm l₂)
    (hkey : ∀ a b, a ∈ l₁ → b ∈ l₁ → a.lamport.getD 0 = b.lamport.getD 0 → a.key = b.key → a = b) :
    l₁.mergeSort frameLe = l₂.mergeSort frameLe := HG.frame_order_canonical l₁ l₂ hp hkey

/-- the block timestamp does not depend on the order in which the famous witnesses are enumerated
    (Go iterates a map): the median sorts first -/
theorem median_order_independent (l₁ l₂ : List Int) (hp : l₁.Perm l₂) :
    Median.median64 l₁ = Median.median64 l₂ := by
  have hs : Median.sorted l₁ = Median.sorted l₂ := by
    apply List.Perm.eq_of_pairwise (le := fun a b => decide (a ≤ b) = true)
    · intro a b _ _ h1 h2; simp at h1 h2; omega
    · exact List.pairwise_mergeSort (le := fun a b => decide (a ≤ b)) (by intro a b c h1 h2; simp at *; omega)
        (by intro a b; simp; omega) _
    · exact List.pairwise_mergeSort (le := fun a b => decide (a ≤ b)) (by intro a b c h1 h2; simp at *; omega)
        (by intro a b; simp; omega) _
    · exact (List.mergeSort_perm _ _).trans (hp.trans (List.mergeSort_perm _ _).symm)
  unfold Median.median64
  simp only [hs]

/-- the consensus passes other than `ProcessDecidedRounds` are pure table computations: they never
    touch delivered blocks, frames or validator sets, so batching them differently cannot reorder or
    alter what was already delivered -/
theorem passes_do_not_touch_output (s : St) :
    s.divideRounds.out = s.out ∧ s.decideFame.out = s.out ∧ s.decideRoundReceived.out = s.out :=
  ⟨divideRounds_out s, decideFame_out s, decideRoundReceived_out s⟩

example : Median.median64 [3, 1, 2] = Median.median64 [1, 2, 3] :=
  median_order_independent _ _ (by decide)

end Babble.Props.C03
