import Babble.Props.C02
import Babble.Props.C07
import Babble.Proofs.HGTopo
/-! # C11 — crash recovery (PARTIAL)
    Model: the durable store keeps, per committed `SetEvent` transaction, the event under its
    topological index; `Bootstrap` re-inserts the events of the topological listing in order into a
    fresh hashgraph (`runAll (St.init genesis) log`), the application having been reset.

    Proved (for the model, every history and every crash point between two insertions or between two
    processed rounds): what was delivered before the crash is a prefix of what bootstrap re-delivers;
    topological indexes are gap free (one per accepted event, none consumed by a refused one); the
    restored head lets the node's next self-event pass admission (no self-fork).

    Assumed, exercised by the child-process harness and not proved: a committed Badger transaction
    survives SIGKILL, reopening replays the value log, the JSON database form of an event keeps what
    `InsertEvent` reads (DESIGN.md §3 C11). -/
namespace Babble.Props.C11
open Babble Babble.HG

/-- crash between two insertions: everything delivered after a prefix of the log is re-delivered,
    identically and in the same positions, by a bootstrap from any longer log -/
theorem redelivered_prefix (genesis : List Nat) (log rest : List Ev) :
    ∃ new, (runAll (St.init genesis) (log ++ rest)).blocks = (runAll (St.init genesis) log).blocks ++ new :=
  Props.C02.delivered_prefix_stable _ log rest

theorem processLoop_add (m k : Nat) (s : St) : (s.processLoop m).processLoop k = s.processLoop (m + k) := by
  induction m generalizing s with
  | zero => simp [St.processLoop]
  | succ m ih =>
    have : m + 1 + k = (m + k) + 1 := by omega
    rw [this]
    cases hp : s.processOne with
    | none =>
      have h1 : s.processLoop (m+1) = s := by unfold St.processLoop; rw [hp]
      have h2 : s.processLoop (m + k + 1) = s := by unfold St.processLoop; rw [hp]
      rw [h1, h2]
      cases k with
      | zero => rfl
      | succ k => unfold St.processLoop; rw [hp]
    | some s' =>
      have h1 : s.processLoop (m+1) = s'.processLoop m := by
        conv => lhs; unfold St.processLoop
        rw [hp]
      have h2 : s.processLoop (m + k + 1) = s'.processLoop (m + k) := by
        conv => lhs; unfold St.processLoop
        rw [hp]
      rw [h1, h2, ih]

/-- crash between two processed rounds of one `ProcessDecidedRounds` pass: the blocks delivered so far
    are a prefix of what the complete pass delivers -/
theorem crash_inside_pass (s : St) (m n : Nat) (h : m ≤ n) :
    ∃ new, (s.processLoop n).blocks = (s.processLoop m).blocks ++ new := by
  obtain ⟨k, rfl⟩ : ∃ k, n = m + k := ⟨n - m, by omega⟩
  rw [← processLoop_add]
  exact processLoop_extends k _

theorem insert_topo (s : St) (e : Ev) : (s.insert e).topo = s.topo + 1 ∧ (s.insert e).events.length = s.events.length + 1 := by
  unfold St.insert
  simp only []
  obtain ⟨g, _, hev⟩ := insertCoords_attr s e
  refine ⟨by rw [insertCoords_topo], ?_⟩
  rw [hev]; simp

/-- **log_is_insert_history**: the topological counter equals the number of stored events in every
    reachable state — one index per accepted event, in insertion order, no gaps -/
theorem topo_is_event_count (genesis : List Nat) (es : List Ev) :
    (runAll (St.init genesis) es).topo = (runAll (St.init genesis) es).events.length := by
  suffices h : ∀ s : St, s.topo = s.events.length → (runAll s es).topo = (runAll s es).events.length from h _ rfl
  induction es with
  | nil => intro s h; exact h
  | cons e es ih =>
    intro s h
    apply ih
    show (s.insertAndRun e).1.topo = (s.insertAndRun e).1.events.length
    unfold St.insertAndRun
    cases s.admission e with
    | some r => exact h
    | none =>
      simp only []
      rw [runConsensus_topo, runConsensus_length, (insert_topo s e).1, (insert_topo s e).2, h]

/-- the topological counter only moves when an event is accepted: refused events (bad signature,
    unknown parents, wrong index, …) consume no index, so the database's topological listing has no
    holes at which `Bootstrap` would stop -/
theorem refused_consumes_no_index (s : St) (e : Ev) (r : Rej) (h : (s.insertAndRun e).2 = some r) :
    (s.insertAndRun e).1.topo = s.topo := by
  rw [Props.C07.rejected_is_noop s e r h]

/-- the restored head: a self-event built on the node's last stored event (self-parent = that event,
    index = its index + 1, known other-parent) passes every admission check after a bootstrap, i.e.
    the recovered node extends its own chain and never creates a second event at a used height -/
theorem next_self_event_admitted (s : St) (c : Nat) (l : Ev) (e : Ev)
    (hl : s.lastFrom c = some l) (hrep : s.repertoire.contains c = true)
    (hc : e.creator = c) (hsig : e.sigok = true) (hsp : e.sp = l.id) (hidx : e.index = l.index + 1)
    (hop : e.op = "" ∨ (s.get e.op).isSome) : s.admission e = none := by
  unfold St.admission
  simp only [hsig, Bool.not_true, Bool.false_eq_true, if_false, hc, hrep, hl]
  have h1 : (e.sp != l.id) = false := by simp [hsp]
  have h3 : (e.index != l.index + 1) = false := by simp [hidx]
  rcases hop with h | h
  · simp [h1, h3, h]
  · have : (s.get e.op).isNone = false := by
      cases hg : s.get e.op with
      | none => rw [hg] at h; cases h
      | some _ => rfl
    simp [h1, h3, this]

/-- … whereas re-using an index the node already used is refused (self-fork impossible, C07) -/
theorem reused_height_refused (s : St) (c : Nat) (l : Ev) (e : Ev)
    (hl : s.lastFrom c = some l) (hrep : s.repertoire.contains c = true)
    (hc : e.creator = c) (hsig : e.sigok = true) (hidx : e.index ≤ l.index) : s.admission e ≠ none := by
  unfold St.admission
  simp only [hsig, Bool.not_true, Bool.false_eq_true, if_false, hc, hrep, hl]
  split
  · simp
  · split
    · simp
    · have : (e.index != l.index + 1) = true := by simp; omega
      simp [this]

end Babble.Props.C11
