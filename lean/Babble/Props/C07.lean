import Babble.Proofs.AttrOnly
/-! # C07 — event admission
    `AdmInv` (Proofs/Ancestry.lean) is the property's invariant: every stored event has a fresh id,
    its self-parent is its creator's latest event and its index is that index + 1 (or no self-parent
    and index 0), its other-parent is present, and its coordinates are the ones
    `initEventCoordinates` computes.  The signature bit and the membership of the creator are checked
    by `admission` itself (`admitted_is_checked`).

    Hash assumption (trusted base): an event's id is the hash of its body, so it is non-empty and two
    events with the same id have the same creator and index.  It appears as the hypotheses `hid` /
    `hhash` and is checked on every trace by the harness.

    Scope: nodes started from genesis.  After a fast-sync reset the creator chains start at the
    frame's roots (base index ≠ 0); that case is covered by the correspondence run only. -/
namespace Babble.Props.C07
open Babble Babble.HG

/-- an event already stored under the same id cannot pass the checks (it would have to extend its
    own creator's chain beyond itself) -/
theorem fresh_of_hash (s : St) (e : Ev) (hI : AdmInv s.events) (hadm : s.admission e = none)
    (hhash : ∀ d ∈ s.events, d.id = e.id → d.creator = e.creator ∧ d.index = e.index) :
    getL s.events e.id = none := by
  cases hg : getL s.events e.id with
  | none => rfl
  | some d =>
    exfalso
    have hd := getL_mem hg
    obtain ⟨hc, hi⟩ := hhash d hd (getL_id hg)
    obtain ⟨l, hl, hle, _⟩ := index_le_last hI hd
    rw [hc] at hl
    unfold St.admission at hadm
    rw [s.lastFrom_eq, hl] at hadm
    simp only [] at hadm
    split at hadm
    · cases hadm
    · split at hadm
      · cases hadm
      · split at hadm
        · cases hadm
        · split at hadm
          · cases hadm
          · split at hadm
            · cases hadm
            · rename_i hidx
              have : e.index = l.index + 1 := by simpa using hidx
              omega

/-- **Admission invariant, one step**: an insertion attempt followed by the consensus passes keeps
    the invariant, whether the event is admitted or refused. -/
theorem admission_invariant_step (s : St) (e : Ev) (hI : AdmInv s.events) (hid : e.id ≠ "")
    (hhash : ∀ d ∈ s.events, d.id = e.id → d.creator = e.creator ∧ d.index = e.index) :
    AdmInv (s.insertAndRun e).1.events := by
  unfold St.insertAndRun
  split
  · exact hI
  · rename_i hadm
    simp only []
    have hfresh := fresh_of_hash s e hI hadm hhash
    exact (runConsensus_attr _).admInv (insert_AdmInv s e hI hadm hid hfresh)

/-- a refused event leaves the whole state (DAG, known events, every consensus table) unchanged -/
theorem rejected_is_noop (s : St) (e : Ev) (r : Rej) (h : (s.insertAndRun e).2 = some r) :
    (s.insertAndRun e).1 = s := by
  unfold St.insertAndRun at *
  split
  · rfl
  · rename_i hadm; simp [hadm] at h

/-- what an admitted event was checked for: valid signature bit (event and internal transactions,
    from the real `Verify`), creator in the repertoire -/
theorem admitted_is_checked (s : St) (e : Ev) (h : s.admission e = none) :
    e.sigok = true ∧ s.repertoire.contains e.creator = true := by
  unfold St.admission at h
  split at h
  · cases h
  · rename_i hs
    split at h
    · cases h
    · rename_i hr
      exact ⟨by simpa using hs, by simpa using hr⟩

/-- stored events are input events (same id, creator, index) -/
def StoredFrom (s : St) (es : List Ev) : Prop :=
  ∀ d ∈ s.events, ∃ a ∈ es, a.id = d.id ∧ a.creator = d.creator ∧ a.index = d.index

theorem storedFrom_attr {s s' : St} {es : List Ev} (h : AttrOnly s s') (hs : StoredFrom s es) : StoredFrom s' es := by
  obtain ⟨g, hg, he⟩ := h
  intro d hd
  rw [he] at hd
  obtain ⟨d0, hd0, rfl⟩ := List.mem_map.mp hd
  obtain ⟨a, ha, h1, h2, h3⟩ := hs d0 hd0
  have := hg d0
  simp only [evCore, Prod.mk.injEq] at this
  exact ⟨a, ha, by rw [h1, this.1], by rw [h2, this.2.1], by rw [h3, this.2.2.1]⟩

theorem storedFrom_step (s : St) (e : Ev) (es : List Ev) (he : e ∈ es) (hs : StoredFrom s es) :
    StoredFrom (s.insertAndRun e).1 es := by
  unfold St.insertAndRun
  split
  · exact hs
  · simp only []
    apply storedFrom_attr (runConsensus_attr _)
    unfold St.insert
    apply storedFrom_attr (insertCoords_attr s e)
    intro d hd
    rcases List.mem_cons.mp hd with rfl | hd'
    · exact ⟨e, he, rfl, rfl, rfl⟩
    · exact hs d hd'

/-- **Admission invariant, every reachable state**: for any sequence of insertion attempts — valid
    events mixed with arbitrary other events (wrong / duplicate / negative / skipped indexes,
    unknown parents, foreign creators, bad signatures, replays) — on a node started from genesis. -/
theorem admission_invariant (genesis : List Nat) (es : List Ev)
    (hid : ∀ a ∈ es, a.id ≠ "")
    (hhash : ∀ a ∈ es, ∀ b ∈ es, a.id = b.id → a.creator = b.creator ∧ a.index = b.index) :
    AdmInv (runAll (St.init genesis) es).events := by
  suffices h : ∀ (l : List Ev) (s : St), (∀ a ∈ l, a ∈ es) → AdmInv s.events → StoredFrom s es →
      AdmInv (runAll s l).events from h es (St.init genesis) (fun _ h => h) trivial (by intro d hd; cases hd)
  intro l
  induction l with
  | nil => intro s _ hI _; exact hI
  | cons e l ih =>
    intro s hl hI hs
    have he : e ∈ es := hl e List.mem_cons_self
    apply ih _ (fun a ha => hl a (List.mem_cons_of_mem _ ha))
    · apply admission_invariant_step s e hI (hid e he)
      intro d hd hde
      obtain ⟨a, ha, h1, h2, h3⟩ := hs d hd
      obtain ⟨hc, hi⟩ := hhash a ha e he (by rw [h1, hde])
      exact ⟨by rw [← h2, hc], by rw [← h3, hi]⟩
    · exact storedFrom_step s e es he hs

/-- consequently: no two stored events of one creator at the same height -/
theorem no_two_at_same_height {es : List Ev} (hI : AdmInv es) {a b : Ev} (ha : a ∈ es) (hb : b ∈ es)
    (hc : a.creator = b.creator) (hi : a.index = b.index) : a = b := unique_index hI ha hb hc hi

/-- … and per-creator indexes are gap free: an event either is a first event with index 0 or its
    self-parent is stored, by the same creator, with the preceding index -/
theorem indexes_gap_free {es : List Ev} (hI : AdmInv es) {z : Ev} (hz : z ∈ es) :
    (z.sp = "" ∧ z.index = 0) ∨ (∃ l, getL es z.sp = some l ∧ l.creator = z.creator ∧ z.index = l.index + 1) :=
  sp_spec hI hz

/-- … and the index arithmetic the consensus code uses for ancestry is exact: `ancestor(x, y)`
    (comparison of `lastAncestors[creator y].Index` with `y.Index`, operator regenerated from the
    source) holds iff `y` is reachable from `x` through parent links -/
theorem ancestor_eq_reachability (s : St) (hI : AdmInv s.events) {x y : Ev} (hx : x ∈ s.events) (hy : y ∈ s.events) :
    s.ancestor x.id y.id = true ↔ Anc s.events y.id x.id := by
  rw [← ancestorL_iff_Anc hI hx hy]
  unfold St.ancestor ancestorL
  rw [s.get_eq hI, s.get_eq hI]
  by_cases hxy : x.id = y.id
  · simp [hxy]
  · have hb : (x.id == y.id) = false := by simpa using hxy
    simp only [hb, getL_of_mem hI hx, getL_of_mem hI hy, laGet, Gen.cmpAncestor, Cmp.eval]
    cases posGet x.la y.creator <;> simp

/-- non-vacuity: a two-event history satisfying the invariant -/
example : AdmInv
    [{ id := "b", creator := 1, index := 0, sp := "", op := "a", ts := 0, key := 2, mid := true,
       la := [some ⟨0, "a"⟩, some ⟨0, "b"⟩] },
     { id := "a", creator := 0, index := 0, sp := "", op := "", ts := 0, key := 1, mid := true,
       la := [some ⟨0, "a"⟩] }] := by
  simp [AdmInv, getL, lastFromL, laOf, mergeLa, setAt]

end Babble.Props.C07
