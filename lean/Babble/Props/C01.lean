import Babble.Proofs.Vote
import Babble.Proofs.HGBlocks
/-! # C01 — agreement
    What is proved here (unbounded in the number of validators, witnesses, rounds, and for every
    order in which deciders are met):

    * the vote core of `DecideFame` (Babble's tally rule, with the comparison operators, the
      supermajority formula and the coin period regenerated from the Go source): any two decisions
      about the fame of one witness agree, whichever witnesses decide and at whichever rounds
      (`fame_decisions_agree`), and a witness unknown to a supermajority of first-round voters can
      never be decided famous (`late_witness_never_famous`, the justification of the `decided` latch);
    * delivered blocks form an append-only sequence with consecutive indexes on every node (from
      C02), so "prefix-consistent at every instant" follows from agreement of the final sequences.

    NOT proved (visible goal, decided by correspondence + oracle only): `agreement_static`, i.e. the
    instantiation of the abstract vote system from the operational state for two nodes holding
    different views of one fork-free history, and agreement under validator-set changes
    (`agreement_dynamic`).  See DESIGN.md §3 C01. -/
namespace Babble.Props.C01
open Babble Babble.Vote

variable {W : Type} [DecidableEq W]

/-- any two fame decisions for the same candidate agree, whatever the deciders and their rounds;
    stated for the rule written with the generated operators (`decidesAtG`) -/
theorem fame_decisions_agree (V : VoteSys W) (d d' : Nat) (y y' : W)
    (hy : V.lvl y = d + 1) (hy' : V.lvl y' = d' + 1) (b b' : Bool)
    (h : V.decidesAtG d y = some b) (h' : V.decidesAtG d' y' = some b') : b = b' := by
  rw [V.decidesAtG_eq] at h h'
  exact V.decisions_agree d d' y y' hy hy' b b' h h'

/-- the latch lemma: if a supermajority of first-round voters do not see the candidate, every
    decision about it, at any later round and by any decider, is "not famous" -/
theorem late_witness_never_famous (V : VoteSys W)
    (T : Finset W) (hTl : ∀ w ∈ T, V.lvl w = 0) (hTv : ∀ w ∈ T, V.sees w = false)
    (hTc : Gen.superMajority V.n ≤ T.card)
    (d : Nat) (y : W) (hy : V.lvl y = d + 1) (b : Bool) (hd : V.decidesAtG d y = some b) : b = false := by
  rw [V.decidesAtG_eq] at hd
  rw [V.gen_sm] at hTc
  exact V.late_witness_never_famous T hTl hTv hTc d y hy b hd

/-- the second voting round (diff = 2) is a normal round for the generated coin period: the latch
    lemma's first step never falls on a coin round -/
theorem second_round_is_normal : normalLvl 1 = true := normal_one

/-- delivered blocks of one node at two instants are prefix-related (from C02), so agreement of the
    sequences two nodes hold at the end of a schedule gives agreement at every instant -/
theorem own_history_prefix (s : HG.St) (es es' : List HG.Ev) :
    ∃ new, (HG.runAll s (es ++ es')).blocks = (HG.runAll s es).blocks ++ new := by
  rw [HG.runAll_append]; exact HG.runAll_extends _ _

/-- non-vacuity of the vote system: one validator, two witnesses (levels 0 and 1); the level-1
    witness strongly sees the level-0 one and decides what it voted -/
def tiny : VoteSys (Fin 2) where
  n := 1
  lvl := fun w => w.val
  creator := fun _ => 0
  creator_inj := by
    intro a b h _; exact Fin.ext h
  S := fun y => if y = 1 then {0} else ∅
  S_lvl := by
    intro y w hw
    by_cases hy : y = 1
    · subst hy; simp at hw; subst hw; rfl
    · simp [hy] at hw
  S_cardG := by
    intro y hy
    have : y = 1 := by
      apply Fin.ext
      have := y.isLt
      simp at hy ⊢
      omega
    subst this; decide
  sees := fun _ => true
  coin := fun _ => false

example : tiny.decidesAtG 0 1 = some true := by decide

end Babble.Props.C01
