import Babble.Proofs.Vote
import Babble.Proofs.HGBlocks
import Babble.Proofs.DagVote
/-! # C01 — agreement
    What is proved here (unbounded in the number of validators, witnesses, rounds, and for every
    order in which deciders are met):

    * the vote core of `DecideFame` (Babble's tally rule, with the comparison operators, the
      supermajority formula and the coin period regenerated from the Go source): any two decisions
      about the fame of one witness agree, whichever witnesses decide and at whichever rounds
      (`fame_decisions_agree`), and a witness unknown to a supermajority of first-round voters can
      never be decided famous (`late_witness_never_famous`, the justification of the `decided` latch);
    * delivered blocks form an append-only sequence with consecutive indexes on every node (from
      C02), so "prefix-consistent at every instant" follows from agreement of the final sequences.

    * `agreement_static_fame`, `latch_sound`, `famous_sets_agree` (static validator set): for the
      declarative model `Babble.Dag` — events as hash-linked trees, round / witness / strongly-see /
      votes / decisions defined by `Dag.info` exactly as `hashgraph.go` computes them for a node that
      runs the passes after every insertion, and compared with the Go code on every static view of
      every generated history — the vote system of any fork-free history is an instance of the
      abstract vote core, so: any two deciders of a witness' fame agree, whichever nodes hold them;
      a witness a node did not hold when it declared the round decided is never famous for anybody
      (the `decided` latch of `RoundInfo` is sound); and two nodes that both declared round r decided
      have the same set of famous witnesses of r; hence `round_received_agrees` and `frames_agree`:
      the round received of an event and the set of events received in a round are the same on all
      nodes (the block body is then the canonical sort of the frame, C03/C04).  The declarative
      `DecideRoundReceived` (`Dag.rrFrom`) and Lamport timestamps are compared with the Go code too.

    NOT proved (decided by correspondence + oracle only): the refinement from the operational model
    `Babble.HG` (coordinates, stored tables) to `Babble.Dag` — both are compared with the Go code
    and with each other on every generated static view —, and agreement under validator-set changes
    (`agreement_dynamic`).  See DESIGN.md §3 C01. -/
namespace Babble.Props.C01
open Babble Babble.Vote

variable {W : Type} [DecidableEq W]

/-- any two fame decisions for the same candidate agree, whatever the deciders and their rounds;
    stated for the rule written with the generated operators (`decidesAtG`) -/
theorem fame_decisions_agree (V : VoteSys W) (d d' : Nat) (y y' : W)
    (hy : V.lvl y = d + 1) (hy' : V.lvl y' = d' + 1) (b b' : Bool)
    (h : V.decidesAtG d y = some b) (h' : V.decidesAtG d' y' = some b') : b = b' := by
  rw [V.decidesAtG_eq] at h h'
  exact V.decisions_agree d d' y y' hy hy' b b' h h'

/-- the latch lemma: if a supermajority of first-round voters do not see the candidate, every
    decision about it, at any later round and by any decider, is "not famous" -/
theorem late_witness_never_famous (V : VoteSys W)
    (T : Finset W) (hTl : ∀ w ∈ T, V.lvl w = 0) (hTv : ∀ w ∈ T, V.sees w = false)
    (hTc : Gen.superMajority V.n ≤ T.card)
    (d : Nat) (y : W) (hy : V.lvl y = d + 1) (b : Bool) (hd : V.decidesAtG d y = some b) : b = false := by
  rw [V.decidesAtG_eq] at hd
  rw [V.gen_sm] at hTc
  exact V.late_witness_never_famous T hTl hTv hTc d y hy b hd

/-- the second voting round (diff = 2) is a normal round for the generated coin period: the latch
    lemma's first step never falls on a coin round -/
theorem second_round_is_normal : normalLvl 1 = true := normal_one

/-- delivered blocks of one node at two instants are prefix-related (from C02), so agreement of the
    sequences two nodes hold at the end of a schedule gives agreement at every instant -/
theorem own_history_prefix (s : HG.St) (es es' : List HG.Ev) :
    ∃ new, (HG.runAll s (es ++ es')).blocks = (HG.runAll s es).blocks ++ new := by
  rw [HG.runAll_append]; exact HG.runAll_extends _ _

/-! ### agreement on the declarative model (static validator set) -/

open Babble.Dag in
/-- **agreement_static (fame)**: in a fork-free history `U` (closed under ancestors, ids = hashes
    injective), any two witnesses that decide the fame of witness `x` decide the same value -/
theorem agreement_static_fame {ps : List Nat} {U : Dag.E → Prop} (H : Dag.Hist ps U) {x y y' : Dag.E}
    (hx : U x) (hy : U y) (hy' : U y') {b b' : Bool}
    (h : Dag.decision ps y x = some b) (h' : Dag.decision ps y' x = some b') : b = b' :=
  Dag.dag_fame_agreement H hx hy hy' h h'

/-- **latch_sound**: a node whose view `V` has declared round `r` decided never needs to look at
    round `r` again — a witness of `r` it does not hold is not famous for anybody, ever -/
theorem latch_sound {ps : List Nat} {U V : Dag.E → Prop} (H : Dag.Hist ps U) (hV : Dag.View V U) {r : Int}
    (hdec : Dag.RoundDecided ps V r) {x' : Dag.E} (hx' : U x') (hr' : Dag.round ps x' = r) (hnot : ¬ V x') :
    ∀ y, U y → Dag.decision ps y x' ≠ some true :=
  Dag.dag_late_witness_not_famous H hV hdec hx' hr' hnot

/-- **famous_sets_agree**: two nodes (views `A`, `B` of one fork-free history, neither need contain
    the other) that both declared round `r` decided have the same famous witnesses of `r` -/
theorem famous_sets_agree {ps : List Nat} {U A B : Dag.E → Prop} (H : Dag.Hist ps U)
    (hA : Dag.View A U) (hB : Dag.View B U) {r : Int}
    (dA : Dag.RoundDecided ps A r) (dB : Dag.RoundDecided ps B r) (x : Dag.E) :
    Dag.FamousIn ps A r x ↔ Dag.FamousIn ps B r x :=
  Dag.famous_agree H hA hB dA dB x

/-- **round_received_agrees**: two nodes that both assign a round received to an event assign the
    same one (`k` = the supermajority the Go code asks of the number of famous witnesses) -/
theorem round_received_agrees {ps : List Nat} {U A B : Dag.E → Prop} (H : Dag.Hist ps U)
    (hA : Dag.View A U) (hB : Dag.View B U) {k : Nat} {e : Dag.E} {i j : Int}
    (hi : Dag.RoundReceived ps A k e i) (hj : Dag.RoundReceived ps B k e j) : i = j :=
  Dag.round_received_agree H hA hB hi hj

/-- **frames_agree**: the events a node receives in round `i` are received in round `i` by every
    node that has decided the rounds in between — and such a node holds them: the frame of a round,
    hence the block made from it, has the same events everywhere -/
theorem frames_agree {ps : List Nat} {U A B : Dag.E → Prop} (H : Dag.Hist ps U)
    (hA : Dag.View A U) (hB : Dag.View B U) {k : Nat} (hk : 1 ≤ k) {e : Dag.E} {i : Int}
    (hi : Dag.RoundReceived ps A k e i)
    (dB : ∀ j, Dag.round ps e < j → j ≤ i → Dag.RoundDecided ps B j) :
    B e ∧ Dag.RoundReceived ps B k e i :=
  Dag.round_received_transfer H hA hB hk hi dB

/-- non-vacuity: a one-event history is a history (larger ones are evaluated, not proved: every
    static view of every generated DAG goes through `Dag.build`, see the correspondence run) -/
example : Dag.Hist [0] (fun e => e = Dag.E.mk 1 0 .nil .nil false) where
  idInj := by intro a b ha hb _; rw [ha, hb]
  dc := by
    intro e a he ha; subst he
    rcases Dag.anc_mk.mp ha with h | h | h
    · exact h
    · exact absurd h (Dag.anc_nil_right a)
    · exact absurd h (Dag.anc_nil_right a)
  forkFree := by
    intro a b ha hb _; subst ha; subst hb
    left; simp [Dag.SelfAnc, Dag.selfL]

/-- non-vacuity of the vote system: one validator, two witnesses (levels 0 and 1); the level-1
    witness strongly sees the level-0 one and decides what it voted -/
def tiny : VoteSys (Fin 2) where
  n := 1
  lvl := fun w => w.val
  creator := fun _ => 0
  creator_inj := by
    intro a b h _; exact Fin.ext h
  S := fun y => if y = 1 then {0} else ∅
  S_lvl := by
    intro y w hw
    by_cases hy : y = 1
    · subst hy; simp at hw; subst hw; rfl
    · simp [hy] at hw
  S_cardG := by
    intro y hy
    have : y = 1 := by
      apply Fin.ext
      have := y.isLt
      simp at hy ⊢
      omega
    subst this; decide
  sees := fun _ => true
  coin := fun _ => false

example : tiny.decidesAtG 0 1 = some true := by decide

end Babble.Props.C01
