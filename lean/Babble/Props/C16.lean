import Babble.Proofs.Containers
/-! # C16 — store fidelity: the containers behind the store are exact partial views of a plain map
    `RollingIndex` (per-participant event listings, consensus cache) and `LRU` (events, rounds,
    blocks, frames) are modelled in `Babble.Containers` and tied to `src/common` by the C16
    correspondence run (random and exhaustive-small operation sequences, Go vs model).  The store
    itself (InmemStore/BadgerStore: caches in front of a durable key-value map, close/reopen) is
    compared against a trivially correct reference in Go by the same check; its Lean model is the
    composition of these containers and is not separately proved (see DESIGN.md §3 C16). -/
namespace Babble.Props.C16
open Babble.Containers

variable {α : Type}

/-- one `Set` attempt on a rolling index and on the reference log (latest successful write per index) -/
def riStep (p : RI α × (Int → Option α)) (op : α × Int) : RI α × (Int → Option α) :=
  match p.1.set op.1 op.2 with
  | .ok r' => (r', fun j => if j = op.2 then some op.1 else p.2 j)
  | .error _ => p

def RSim (p : RI α × (Int → Option α)) : Prop := RI.Reg p.1 ∧ ∀ j x, p.1.view j = some x → p.2 j = some x

theorem rsim_step (p : RI α × (Int → Option α)) (op : α × Int) (hi : 0 ≤ op.2) (h : RSim p) : RSim (riStep p op) := by
  unfold riStep
  cases hs : p.1.set op.1 op.2 with
  | error e => exact h
  | ok r' =>
    simp only []
    refine ⟨RI.set_reg p.1 r' op.1 op.2 h.1 hi hs, ?_⟩
    intro j x hx
    simp only []
    by_cases hj : j = op.2
    · subst hj
      rw [RI.view_set_same p.1 r' op.1 _ h.1 hi hs] at hx
      have : op.1 = x := by simpa using hx
      simp [this]
    · simp only [hj, if_false]
      by_cases hin : p.1.lastIndex < 0 ∨ op.2 = p.1.lastIndex + 1
      · have hw : r'.oldest ≤ j := by
          unfold RI.view at hx
          split at hx
          · rename_i hc; exact hc.1
          · cases hx
        rw [RI.view_set_append p.1 r' op.1 op.2 j h.1 hs hin hj hw] at hx
        exact h.2 j x hx
      · rw [RI.view_set_replace p.1 r' op.1 op.2 j hs hin hj] at hx
        exact h.2 j x hx

/-- **rolling_index_window**: after any sequence of `Set` attempts with non-negative indexes (valid,
    skipping, too late, replacing), whatever a `RollingIndex` of any size still holds at index `j` is
    the latest item successfully written at `j`; `GetItem` answers exactly from that window. -/
theorem rolling_index_window (size : Nat) (ops : List (α × Int)) (hops : ∀ op ∈ ops, 0 ≤ op.2) (j : Int) (x : α) :
    let p := ops.foldl riStep (RI.new size, fun _ => none)
    (p.1.getItem j = .ok x → p.2 j = some x) ∧ RI.Reg p.1 := by
  have key : ∀ (l : List (α × Int)) (p : RI α × (Int → Option α)), (∀ op ∈ l, 0 ≤ op.2) → RSim p → RSim (l.foldl riStep p) := by
    intro l
    induction l with
    | nil => intro p _ h; exact h
    | cons op l ih =>
      intro p hl h
      exact ih _ (fun o ho => hl o (List.mem_cons_of_mem _ ho)) (rsim_step p op (hl op List.mem_cons_self) h)
  have h0 : RSim (RI.new size, fun _ => (none : Option α)) := by
    refine ⟨RI.reg_new size, ?_⟩
    intro j x hx
    simp [RI.view, RI.new] at hx
  have h := key ops _ hops h0
  simp only []
  refine ⟨?_, h.1⟩
  intro hg
  apply h.2
  rw [RI.getItem_eq_view _ h.1] at hg
  cases hv : (ops.foldl riStep (RI.new size, fun _ => none)).1.view j with
  | some y => rw [hv] at hg; simp at hg; rw [hg]
  | none => rw [hv] at hg; simp at hg; split at hg <;> cases hg

/-- capacity: a rolling index of size ≥ 2 never holds more than `size` items -/
theorem rolling_index_bounded (size : Nat) (hs : 2 ≤ size) (ops : List (α × Int)) :
    (ops.foldl riStep (RI.new size, fun _ => none)).1.items.length ≤ size := by
  have key : ∀ (l : List (α × Int)) (p : RI α × (Int → Option α)), p.1.size = size → p.1.items.length ≤ size →
      (l.foldl riStep p).1.items.length ≤ size := by
    intro l
    induction l with
    | nil => intro p _ h; exact h
    | cons op l ih =>
      intro p hsz hl
      simp only [List.foldl_cons]
      unfold riStep
      cases hset : p.1.set op.1 op.2 with
      | error e => exact ih p hsz hl
      | ok r' =>
        have := RI.set_len p.1 r' op.1 op.2 (by omega) (by omega) hset
        exact ih _ (by simp only []; omega) (by simp only []; omega)
  exact key ops _ rfl (by simp [RI.new])

variable {κ ν : Type} [DecidableEq κ]

/-- **lru_is_partial_map**: every value an LRU cache of any capacity returns, after any sequence of
    Add / Get / Remove, is the latest value a plain map holds for that key -/
theorem lru_is_partial_map (ops : List (LOp κ ν)) (size : Nat) (k : κ) (v : ν)
    (h : (ops.foldl lruStep (LRU.new size)).lookup k = some v) :
    (ops.foldl mapStep (fun _ => none)) k = some v := lru_refines_map ops size k v h

/-- an LRU never holds a key twice nor more than `size` entries -/
theorem lru_bounded (ops : List (LOp κ ν)) (size : Nat) :
    ((ops.foldl lruStep (LRU.new size)).items.map (·.1)).Nodup ∧
    (ops.foldl lruStep (LRU.new size)).items.length ≤ (ops.foldl lruStep (LRU.new size)).size :=
  lru_inv_all ops size

/-- what was just added is readable (capacity ≥ 1): a write is never lost immediately -/
theorem lru_read_your_write (c : LRU κ ν) (k : κ) (v : ν) (hs : 1 ≤ c.size) (h : LRU.Inv c) :
    (c.add k v).1.lookup k = some v := LRU.lookup_add_same c k v hs h

/-- non-vacuity: a size-2 rolling index after four appends holds indexes 2 and 3 -/
example : ((([(10, 0), (11, 1), (12, 2), (13, 3)] : List (Nat × Int)).foldl riStep (RI.new 2, fun _ => none)).1.getItem 3) = .ok 13 := by
  rfl
example : ((([(10, 0), (11, 1), (12, 2), (13, 3)] : List (Nat × Int)).foldl riStep (RI.new 2, fun _ => none)).1.getItem 0) = .error .tooLate := by
  rfl

end Babble.Props.C16
