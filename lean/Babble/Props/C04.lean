import Babble.Proofs.HGOrder
import Babble.Proofs.HGBlocks
import Babble.Proofs.HGReceived
import Babble.Proofs.DagVote
import Babble.Proofs.HGLamport
import Babble.Proofs.HGRoundReceived
import Babble.Proofs.HGAncLamport
import Babble.Proofs.HGWitnessUnique
/-! # C04 — committed order extends causality; events are committed whole and once
    About the operational model `Babble.HG` (no quorum reasoning, any validator-set behaviour) and,
    for the two causality clauses, about the declarative model `Babble.Dag` (static validator set;
    Lamport timestamps and round received of `Babble.Dag` are compared with the Go code on every
    static view): an ancestor has a strictly smaller Lamport timestamp than its descendant
    (`lamport_respects_ancestry`: never later within a block) and is received in the same or an
    earlier round (`ancestors_received_no_later`: never in a later block). -/
namespace Babble.Props.C04
open Babble Babble.HG

/-- **never later within a block**: the frame is sorted by Lamport timestamp first, and Lamport
    timestamps strictly increase along ancestry -/
theorem lamport_respects_ancestry (ps : List Nat) {a e : Dag.E} (h : Dag.Anc a e) (hne : a ≠ e) :
    Dag.lamport ps a < Dag.lamport ps e := Dag.lamport_anc ps h hne

/-- **never in a later block**: in any one view, an ancestor's round received is at most its
    descendant's (blocks are made in increasing order of round received, C02) -/
theorem ancestors_received_no_later {ps : List Nat} {V : Dag.E → Prop} {k : Nat} {a e : Dag.E} {i j : Int}
    (h : Dag.Anc a e) (hi : Dag.RoundReceived ps V k e i) (hj : Dag.RoundReceived ps V k a j) : j ≤ i :=
  Dag.round_received_mono h hi hj

/-- a block contains exactly the payload of the events of one round received: its transactions are
    the concatenation, in committed order and each event's own order, of the frame events'
    transactions (same for internal transactions); an event's transactions are therefore contiguous -/
theorem block_payload_exact (index r : Int) (frame : Frame) (sorted : List Ev) (b : Block)
    (h : blockOf index r frame sorted = some b) :
    b.txs = (sorted.map (·.txs)).flatten ∧ b.itx = (sorted.map (·.itx)).flatten ∧
    b.events = sorted.map (·.id) := by
  have := blockOf_payload index r frame sorted b h
  exact ⟨this.1, this.2.1, this.2.2.1⟩

/-- the committed order inside a round received is the (Lamport, signature-key) order and contains
    exactly the events received in that round -/
theorem frame_sorted_and_complete (s : St) (r : Int) (ri : RoundInfo) :
    (s.getFrame r ri).2.Pairwise (fun a b => frameLe a b = true) ∧
    (s.getFrame r ri).2.Perm (ri.received.filterMap s.get) := getFrame_sorted s r ri

/-- a Lamport timestamp is strictly greater than those of both parents -/
theorem lamport_gt_parents (s : St) (e : Ev) :
    (e.sp ≠ "" → ∀ t, s.lamportOf e.sp = some t → t < s.computeLamport e) ∧
    (e.op ≠ "" → ∀ t, s.lamportOf e.op = some t → t < s.computeLamport e) := computeLamport_gt s e

/-- hence inside a frame an event with a smaller Lamport timestamp (in particular an ancestor) is
    never committed after one with a larger timestamp -/
theorem frame_order_respects_lamport (s : St) (r : Int) (ri : RoundInfo) (i j : Nat)
    (hi : i < (s.getFrame r ri).2.length) (hj : j < (s.getFrame r ri).2.length)
    (hlt : ((s.getFrame r ri).2[i]).lamport.getD 0 < ((s.getFrame r ri).2[j]).lamport.getD 0) : i < j :=
  sorted_lamport_order _ (getFrame_sorted s r ri).1 i j hi hj hlt

/-- the committed order of a frame is canonical: independent of the order in which the node
    happened to receive the events -/
theorem frame_order_canonical (l₁ l₂ : List Ev) (hp : l₁.Perm l₂)
    (hkey : ∀ a b, a ∈ l₁ → b ∈ l₁ → a.lamport.getD 0 = b.lamport.getD 0 → a.key = b.key → a = b) :
    l₁.mergeSort frameLe = l₂.mergeSort frameLe := HG.frame_order_canonical l₁ l₂ hp hkey

/-- non-vacuity: a two-event frame with a Lamport tie broken by the signature key -/
example : blockOf 0 3 { round := 3, ts := 7, peers := [0, 1], events := [], roots := [], peerSets := [] }
    [{ id := "a", creator := 0, index := 0, sp := "", op := "", ts := 1, key := 5, mid := true, txs := [1, 2], lamport := some 4 },
     { id := "b", creator := 1, index := 0, sp := "", op := "", ts := 2, key := 9, mid := true, txs := [3], lamport := some 4 }]
    = some { index := 0, rr := 3, ts := 7, txs := [1, 2, 3], itx := [], events := ["a", "b"], peers := [0, 1] } := by
  rfl

/-- **every event is committed at most once** (operational model, any validator-set behaviour): for
    every sequence of insertion attempts — admissible or not — of events with pairwise distinct ids
    into a node started from genesis, no delivered block lists an event twice and no two delivered
    blocks share an event. (Distinct ids: the id is the SHA-256 of the body; the same event offered
    twice is refused by the admission checks, C07.) -/
theorem every_event_committed_at_most_once (g : List Nat) (es : List Ev) (hes : ∀ e ∈ es, e.round = none)
    (hnd : (es.map (·.id)).Nodup) :
    (∀ b ∈ (runAll (St.init g) es).blocks, b.events.Nodup) ∧
    (runAll (St.init g) es).blocks.Pairwise (fun a b => ∀ x ∈ a.events, x ∉ b.events) :=
  committed_once g es hes hnd

/-! ## the causality clause on the operational model
    The two theorems at the top are about the declarative model.  The same clause on the operational
    model — the one compared with the Go code on every insertion — for any validator-set behaviour: -/

/-- **Lamport timestamps increase along the parent edges** (operational model): in every state a
    node started from genesis reaches through insertion attempts — admitted or refused — of fresh
    events, every stored event has a Lamport timestamp, the parents it names are stored, and their
    timestamps are strictly smaller -/
theorem lamport_increases_along_parents (g : List Nat) (es : List Ev) (hnd : (es.map (·.id)).Nodup)
    (hfresh : ∀ e ∈ es, e.id ≠ "" ∧ e.lamport = none ∧ e.rr = none) (x : String) (e : Ev)
    (hx : (runAll (St.init g) es).get x = some e) :
    ∃ t, e.lamport = some t ∧
      (e.sp ≠ "" → ∃ p tp, (runAll (St.init g) es).get e.sp = some p ∧ p.lamport = some tp ∧ tp < t) ∧
      (e.op ≠ "" → ∃ p tp, (runAll (St.init g) es).get e.op = some p ∧ p.lamport = some tp ∧ tp < t) :=
  lamport_parents g es hnd hfresh x e hx

/-- **never later within a block, on the operational model**: a proper ancestor has a strictly
    smaller Lamport timestamp than its descendant; with `frame_order_respects_lamport` it is
    committed earlier whenever both are in the same frame -/
theorem lamport_respects_ancestry_operational (g : List Nat) (es : List Ev) (hnd : (es.map (·.id)).Nodup)
    (hfresh : ∀ e ∈ es, e.id ≠ "" ∧ e.lamport = none ∧ e.rr = none) (a b : String)
    (h : ProperAncestor (runAll (St.init g) es) a b) :
    ∃ ea eb ta tb, (runAll (St.init g) es).get a = some ea ∧ (runAll (St.init g) es).get b = some eb ∧
      ea.lamport = some ta ∧ eb.lamport = some tb ∧ ta < tb := by
  have hI := runAll_linv (St.init g) es [] (init_all g) (init_linv g) (by simpa using hnd) hfresh
  generalize runAll (St.init g) es = s at hI h
  obtain ⟨ta, tb, hta, htb, hlt⟩ := hI.anc_lt h
  unfold St.lamportOf at hta htb
  cases ha : s.get a with
  | none => rw [ha] at hta; cases hta
  | some ea =>
    cases hb : s.get b with
    | none => rw [hb] at htb; cases htb
    | some eb =>
      rw [ha] at hta; rw [hb] at htb
      exact ⟨ea, eb, ta, tb, rfl, rfl, by simpa using hta, by simpa using htb, hlt⟩

/-- the same with the reachability relation of C07 — the relation `ancestor_eq_reachability` proves
    equal to the Go `ancestor` predicate: a stored ancestor other than the event itself has a strictly
    smaller Lamport timestamp -/
theorem lamport_respects_reachability (g : List Nat) (es : List Ev) (hnd : (es.map (·.id)).Nodup)
    (hfresh : ∀ e ∈ es, e.id ≠ "" ∧ e.lamport = none ∧ e.rr = none) (a b : String) (hab : a ≠ b)
    (h : Anc (runAll (St.init g) es).events a b) :
    ∃ ea eb ta tb, (runAll (St.init g) es).get a = some ea ∧ (runAll (St.init g) es).get b = some eb ∧
      ea.lamport = some ta ∧ eb.lamport = some tb ∧ ta < tb := by
  have hI : AdmInv (runAll (St.init g) es).events :=
    Babble.Props.C07.admission_invariant g es (fun x hx => (hfresh x hx).1) (HG.nodup_hash hnd)
  rcases HG.anc_proper _ hI a b h with heq | hpa
  · exact absurd heq hab
  · exact lamport_respects_ancestry_operational g es hnd hfresh a b hpa

/-- **the committed order of a block extends ancestry** (operational model): in any state in which
    the Lamport invariant holds — every state reachable by insertions from genesis
    (`lamport_increases_along_parents`), and it is kept by every pass, so also the states in which
    `ProcessDecidedRounds` builds a frame — if one event of the sorted frame is a proper ancestor of
    another, it comes first; the block lists the events, and hence their transactions, in that order
    (`block_payload_exact`) -/
theorem frame_order_extends_ancestry (s : St) (hI : LInv s) (r : Int) (ri : RoundInfo) (i j : Nat)
    (hi : i < (s.getFrame r ri).2.length) (hj : j < (s.getFrame r ri).2.length)
    (h : ProperAncestor s ((s.getFrame r ri).2[i]).id ((s.getFrame r ri).2[j]).id) : i < j :=
  HG.frame_order_extends_ancestry s hI r ri i j hi hj h

/-- the invariant used above holds in every reachable state and is kept by every step that keeps
    what is set and touches attributes only (all consensus passes) -/
theorem lamport_invariant_reachable_and_kept (g : List Nat) (es : List Ev) (hnd : (es.map (·.id)).Nodup)
    (hfresh : ∀ e ∈ es, e.id ≠ "" ∧ e.lamport = none ∧ e.rr = none) :
    LInv (runAll (St.init g) es) ∧
    (∀ s s' : St, AttrOnly s s' → Final s s' → LInv s → LInv s') :=
  ⟨runAll_linv (St.init g) es [] (init_all g) (init_linv g) (by simpa using hnd) hfresh,
   fun _ _ a f h => h.of_final a f⟩

/-- **an event is received strictly after the round it was created in** (operational model): an event
    that has a round received has a round, and the round received is strictly larger — the search of
    `DecideRoundReceived` starts at round + 1 and only moves upwards; with C02's increasing round
    received per block, a block never contains an event of its own or a later round -/
theorem round_received_above_round (g : List Nat) (es : List Ev) (hnd : (es.map (·.id)).Nodup)
    (hfresh : ∀ e ∈ es, e.id ≠ "" ∧ e.round = none ∧ e.rr = none) (x : String) (e : Ev) (k : Int)
    (hx : (runAll (St.init g) es).get x = some e) (hk : e.rr = some k) : ∃ r, e.round = some r ∧ r < k :=
  HG.round_received_above_round g es hnd hfresh x e k hx hk

/-- non-vacuity: two validators, a first event each, then an event of validator 0 on top of both -/
example :
    let es : List Ev := [
      { id := "a", creator := 0, index := 0, sp := "", op := "", ts := 1, key := 1, mid := true },
      { id := "b", creator := 1, index := 0, sp := "", op := "", ts := 2, key := 2, mid := true },
      { id := "c", creator := 0, index := 1, sp := "a", op := "b", ts := 3, key := 3, mid := true }]
    ((runAll (St.init [0, 1]) es).events.map (fun e => (e.id, e.lamport))) = [("c", some 1), ("b", some 0), ("a", some 0)] := by
  decide

end Babble.Props.C04
