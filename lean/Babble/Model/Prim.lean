/-! Primitive vocabulary shared by the regenerated facts (`Babble.Generated`) and the models.
    Core Lean only: everything under `Babble/Model` and `Driver` is linked into the `driver` executable. -/
namespace Babble

/-- comparison operators that occur at the quorum sites of the Go source -/
inductive Cmp | ge | gt | le | lt | eq | ne
deriving Repr, DecidableEq, Inhabited

def Cmp.eval (c : Cmp) (a b : Int) : Bool :=
  match c with
  | .ge => decide (a ≥ b) | .gt => decide (a > b) | .le => decide (a ≤ b)
  | .lt => decide (a < b) | .eq => decide (a = b) | .ne => decide (a ≠ b)

def Cmp.evalN (c : Cmp) (a b : Nat) : Bool :=
  match c with
  | .ge => decide (a ≥ b) | .gt => decide (a > b) | .le => decide (a ≤ b)
  | .lt => decide (a < b) | .eq => decide (a = b) | .ne => decide (a ≠ b)

/-- `int(math.Ceil(float64(a)/float64(b)))` for non-negative a and positive b (validated against the
    real float computation by the C19 correspondence run for every n up to 100000) -/
def ceilDiv (a b : Nat) : Nat := (a + b - 1) / b

/-- node states of `src/node/state/state.go` -/
inductive NodeState | babbling | catchingUp | joining | leaving | shutdown | suspended
deriving Repr, DecidableEq, Inhabited

/-- steps of `core.fastForward` / `node.fastForward`, in source order (fact F6) -/
inductive FFStep
  | structure          -- checkFastForwardInput: null / truncated elements
  | checkBlock         -- Hashgraph.CheckBlock: peer-set hash, +1/3 distinct valid signatures
  | frameHashCompare   -- frame.Hash() against block.FrameHash()
  | trustedSigner      -- checkTrustedSigner: a valid signature from a known validator
  | check              -- the whole of checkFastForward (no side effects)
  | restore            -- proxy.Restore(snapshot)
  | reset              -- Hashgraph.Reset
  | setPeers
  | coreFF             -- core.fastForward
deriving Repr, DecidableEq, Inhabited

/-- peer-sets a node knows independently of a fast-forward response -/
inductive TrustSrc | peers | genesis | validators
deriving Repr, DecidableEq, Inhabited

/-- which validator set `core.fastForward` checks the block's signatures against (fact F7) -/
inductive FFSet | fromResponse | fromKnown | unknown
deriving Repr, DecidableEq, Inhabited

end Babble
