import Babble.Generated
/-! Model of block-signature handling: `Hashgraph.ProcessSigPool`, `SetAnchorBlock`, and the signing
    step of `core.commit`.  Signature validity ("verifies against the node's own body of that block")
    and well-formedness are input bits from the real `Block.Verify`.  Core Lean only. -/
namespace Babble.SigPool
open Babble

structure Sig where
  validator : Nat
  index : Int
  wellFormed : Bool     -- does the signature string decode at all
  valid : Bool          -- does it verify against the node's own body of block `index`
deriving Repr, DecidableEq

structure SBlock where
  index : Int
  rr : Int
  sigs : List Nat := []   -- validators whose signature is recorded (map keys: no duplicates)
deriving Repr

structure SP where
  blocks : List SBlock := []
  pool : List Sig := []
  anchor : Option Int := none
  /-- validator set of a round (`Store.GetPeerSet`); fixed for the rounds of existing blocks (C10) -/
  peersAt : Int → List Nat
  /-- have a peer-set entry at all? (GetPeerSet fails only on an empty table) -/
  hasPeers : Bool := true

def SP.getBlock (s : SP) (i : Int) : Option SBlock := s.blocks.find? (·.index == i)

def trust (ps : List Nat) : Nat := Gen.trustCount ps.length ps.length

def addSig (b : SBlock) (v : Nat) : SBlock := if b.sigs.contains v then b else { b with sigs := b.sigs ++ [v] }

def SP.setBlock (s : SP) (b : SBlock) : SP :=
  { s with blocks := s.blocks.map (fun x => if x.index == b.index then b else x) }

def SP.aboveAnchor (s : SP) (i : Int) : Bool :=
  match s.anchor with | none => true | some a => Gen.cmpAnchorIndex.eval i a

/-- `SetAnchorBlock` -/
def SP.setAnchor (s : SP) (b : SBlock) : SP :=
  if Gen.cmpAnchor.evalN b.sigs.length (trust (s.peersAt b.rr)) && s.aboveAnchor b.index
  then { s with anchor := some b.index } else s

/-- one pool entry: returns the new state and whether the entry leaves the pool -/
def SP.processSig (s : SP) (g : Sig) : SP × Bool :=
  match s.getBlock g.index with
  | none => (s, false)                                   -- unknown (future) block: stays pending
  | some b =>
    if !s.hasPeers then (s, false) else
    if !(s.peersAt b.rr).contains g.validator then (s, false)   -- not a validator of the block's round
    else if !g.wellFormed then (s, true)                 -- malformed: dropped (C08 repair)
    else if !g.valid then (s, false)                     -- does not verify: ignored
    else
      let b' := addSig b g.validator
      (((s.setBlock b').setAnchor b'), true)

def processStep (acc : SP × List Sig) (g : Sig) : SP × List Sig :=
  let (s', gone) := acc.1.processSig g
  (s', if gone then acc.2 else acc.2 ++ [g])

/-- `ProcessSigPool`: every pool entry once -/
def SP.processPool (s : SP) : SP :=
  let (s', rest) := s.pool.foldl processStep ({ s with pool := [] }, [])
  { s' with pool := rest }

/-- `core.commit` after the application answered: sign if we belong to the block's validator set,
    then `SetAnchorBlock` -/
def SP.commitBlock (s : SP) (index rr : Int) (self : Nat) : SP :=
  let b : SBlock := { index := index, rr := rr }
  let b := if (s.peersAt rr).contains self then addSig b self else b
  ({ s with blocks := s.blocks ++ [b] }).setAnchor b

end Babble.SigPool
