import Babble.Generated
import Babble.Model.Median
/-! # Operational model of `src/hashgraph/hashgraph.go` (+ `InmemStore`, `PeerSetCache`, `RoundInfo`)

The state has the same tables as the Go `Hashgraph` + store and the steps are the Go passes run in
the same order: `InsertEvent` (admission, coordinates, first-descendant walk), `DivideRounds`,
`DecideFame`, `DecideRoundReceived`, `ProcessDecidedRounds` (`GetFrame`, `createRoot`,
`NewBlockFromFrame`, the commit callback of `core` applying accepted internal transactions at
round-received + 6), `Reset`/`InsertFrameEvent`.

Representation (DESIGN.md §1.3): the insertion history is a list of events *newest first*;
`lastAncestors` is a positional list indexed by creator number; tables keyed by round are
association lists.  Thresholds, comparison operators and constants come from `Babble.Gen`
(regenerated from the Go sources on every run).

Totalisations (`getD`) and where the Go code has the same default:
* a missing vote counts as `false` (Go: `votes[w][x]` on a missing key is `false`);
* `roundOf` of an unknown event is `-1` (Go returns an error; only reached for parents, which
  admission guarantees to be present);
* other-parent Lamport timestamp `MinInt32` when the other parent is not in the store (Go: same).
Iteration over Go maps (witnesses of a round) is modelled by the order of creation in the round;
C01/C03 theorems do not depend on that order. -/
namespace Babble.HG
open Babble

structure Coord where
  idx : Int
  id : String
deriving Repr, BEq, DecidableEq, Inhabited

structure Ev where
  id : String
  creator : Nat
  index : Int
  sp : String            -- "" = none
  op : String
  ts : Int               -- claimed timestamp
  key : Nat              -- R component of the signature (frame sort key)
  mid : Bool             -- middleBit(hash)
  txs : List Nat := []   -- transaction names
  itx : List (Bool × Nat) := []   -- internal transactions (true = join, peer)
  sigok : Bool := true   -- does the signature verify (input bit from the real ecdsa.Verify)
  la : List (Option Coord) := []  -- lastAncestors, frozen at insertion
  fd : List (Option Int) := []    -- firstDescendants (index only), filled by later insertions
  round : Option Int := none
  wit : Option Bool := none       -- memoised witness flag
  lamport : Option Int := none
  rr : Option Int := none
deriving Repr, Inhabited

inductive Fame | undef | yes | no
deriving Repr, BEq, DecidableEq, Inhabited

structure RoundEv where
  id : String
  witness : Bool
  fame : Fame := .undef
deriving Repr, Inhabited

structure RoundInfo where
  created : List RoundEv := []     -- in order of creation in this view
  received : List String := []
  decided : Bool := false          -- the latch
deriving Repr, Inhabited

structure FrameEv where
  id : String
  round : Int
  lamport : Int
  witness : Bool
deriving Repr, Inhabited, BEq

structure Frame where
  round : Int
  ts : Int
  peers : List Nat
  events : List FrameEv
  roots : List (Nat × List FrameEv)
  peerSets : List (Int × List Nat)
deriving Repr, Inhabited

structure Block where
  index : Int
  rr : Int
  ts : Int
  txs : List Nat
  itx : List (Bool × Nat)
  events : List String     -- the frame's events in committed order
  peers : List Nat
deriving Repr, Inhabited

structure St where
  peerSets : List (Int × List Nat) := []   -- PeerSetCache: sorted by round
  validators : List Nat := []              -- core.validators (latest set)
  repertoire : List Nat := []
  events : List Ev := []                   -- insertion history, NEWEST FIRST
  rounds : List (Int × RoundInfo) := []
  pending : List (Int × Bool) := []        -- PendingRoundsCache, sorted by round
  undet : List String := []                -- UndeterminedEvents (FIFO)
  lastRound : Int := -1
  lastBlock : Int := -1
  lcr : Option Int := none                 -- LastConsensusRound
  blocks : List Block := []                -- delivered, oldest first
  frames : List Frame := []
  lastCons : List (Nat × String) := []     -- lastConsensusEvents
  lowerBound : Option Int := none          -- roundLowerBound
  topo : Nat := 0                          -- topologicalIndex counter
  pendingLoaded : Int := 0                 -- PendingLoadedEvents: loaded events inserted and not yet in a processed frame
deriving Inhabited

/-! ## small helpers -/

def smL (l : List Nat) : Nat := Gen.superMajority l.length

def alGet {β} (l : List (Nat × β)) (k : Nat) : Option β := (l.find? (·.1 == k)).map (·.2)
def alSet {β} (l : List (Nat × β)) (k : Nat) (v : β) : List (Nat × β) :=
  if l.any (·.1 == k) then l.map (fun p => if p.1 == k then (k, v) else p) else l ++ [(k, v)]

def posGet {α} (l : List (Option α)) (p : Nat) : Option α := (l[p]?).getD none

def setAt {α} : List (Option α) → Nat → Option α → List (Option α)
  | [], 0, v => [v]
  | [], p+1, v => none :: setAt [] p v
  | _ :: l, 0, v => v :: l
  | x :: l, p+1, v => x :: setAt l p v

/-- pointwise maximum by index; on equal or missing right entry the left (self-parent) entry is kept,
    as in `initEventCoordinates` (`!ok || sla.Index < ola.Index` replaces) -/
def maxC : Option Coord → Option Coord → Option Coord
  | none, b => b
  | a, none => a
  | some a, some b => some (if a.idx < b.idx then b else a)

def mergeLa : List (Option Coord) → List (Option Coord) → List (Option Coord)
  | [], b => b
  | a, [] => a
  | x :: a, y :: b => maxC x y :: mergeLa a b

def tblExact (tbl : List (Int × List Nat)) (r : Int) : Option (List Nat) := (tbl.find? (·.1 == r)).map (·.2)
def tblLatest (tbl : List (Int × List Nat)) (r : Int) : Option (List Nat) :=
  ((tbl.filter (fun p => decide (p.1 ≤ r))).getLast?).map (·.2)

/-- `PeerSetCache.Get`: exact hit, else below the first entry → first entry, else the latest entry ≤ r -/
def peersAtTbl (tbl : List (Int × List Nat)) (r : Int) : List Nat :=
  match tblExact tbl r with
  | some p => p
  | none =>
    match tbl.head? with
    | none => []
    | some first => if r < first.1 then first.2 else (tblLatest tbl r).getD first.2

def St.peersAt (s : St) (r : Int) : List Nat := peersAtTbl s.peerSets r

def St.get (s : St) (id : String) : Option Ev := if id == "" then none else s.events.find? (·.id == id)
def St.lastFrom (s : St) (c : Nat) : Option Ev := s.events.find? (·.creator == c)
def St.byIndex (s : St) (c : Nat) (i : Int) : Option Ev := s.events.find? (fun e => e.creator == c && e.index == i)
def St.update (s : St) (id : String) (f : Ev → Ev) : St :=
  { s with events := s.events.map (fun e => if e.id == id then f e else e) }

def St.getRound (s : St) (r : Int) : Option RoundInfo := (s.rounds.find? (·.1 == r)).map (·.2)
def St.setRound (s : St) (r : Int) (ri : RoundInfo) : St :=
  let rs := if s.rounds.any (·.1 == r) then s.rounds.map (fun p => if p.1 == r then (r, ri) else p)
            else s.rounds ++ [(r, ri)]
  { s with rounds := rs, lastRound := if r > s.lastRound then r else s.lastRound }

/-! ## RoundInfo -/

def RoundInfo.witnesses (ri : RoundInfo) : List String := (ri.created.filter (·.witness)).map (·.id)
def RoundInfo.famous (ri : RoundInfo) : List String :=
  (ri.created.filter (fun e => e.witness && e.fame == .yes)).map (·.id)
def RoundInfo.addCreated (ri : RoundInfo) (id : String) (w : Bool) : RoundInfo :=
  if ri.created.any (·.id == id) then ri else { ri with created := ri.created ++ [{ id := id, witness := w }] }
def RoundInfo.setFame (ri : RoundInfo) (id : String) (f : Bool) : RoundInfo :=
  let fm := if f then Fame.yes else Fame.no
  if ri.created.any (·.id == id) then
    { ri with created := ri.created.map (fun e => if e.id == id then { e with fame := fm } else e) }
  else { ri with created := ri.created ++ [{ id := id, witness := true, fame := fm }] }
def RoundInfo.isDecided (ri : RoundInfo) (id : String) : Bool :=
  ri.created.any (fun e => e.id == id && e.witness && e.fame != .undef)
/-- `WitnessesDecided` with the latch (returns the updated info) -/
def RoundInfo.witnessesDecided (ri : RoundInfo) (ps : List Nat) : Bool × RoundInfo :=
  if ri.decided then (true, ri) else
  if ri.created.any (fun e => e.witness && e.fame == .undef) then (false, ri) else
  let c := (ri.created.filter (fun e => e.witness && e.fame != .undef)).length
  let d := Gen.cmpWitnessesDecided.evalN c (smL ps)
  (d, { ri with decided := d })

/-! ## ancestry, strongly-see, round, witness, lamport -/

/-- `ancestor(x,y)`: y is an ancestor of x, by coordinates -/
def St.ancestor (s : St) (x y : String) : Bool :=
  if x == y then true else
  match s.get x, s.get y with
  | some ex, some ey =>
    match posGet ex.la ey.creator with
    | some c => Gen.cmpAncestor.eval c.idx ey.index
    | none => false
  | _, _ => false

def ssCount (xla : List (Option Coord)) (yfd : List (Option Int)) (ps : List Nat) : Nat :=
  (ps.filter (fun p =>
    match posGet xla p, posGet yfd p with
    | some a, some b => Gen.cmpStronglySeeCoord.eval a.idx b
    | _, _ => false)).length

def St.stronglySee (s : St) (x y : String) (ps : List Nat) : Bool :=
  match s.get x, s.get y with
  | some ex, some ey => Gen.cmpStronglySee.evalN (ssCount ex.la ey.fd ps) (smL ps)
  | _, _ => false

def St.roundOf (s : St) (id : String) : Int := match s.get id with
  | some e => e.round.getD (-1)
  | none => -1

def St.parentRound (s : St) (e : Ev) : Int :=
  let spR := if e.sp == "" then -1 else s.roundOf e.sp
  if e.op == "" then spR else
  let opR := s.roundOf e.op
  if Gen.cmpRoundParent.eval opR spR then opR else spR

/-- `_round` for an event whose parents already have stored rounds -/
def St.computeRound (s : St) (e : Ev) : Int :=
  let pr := s.parentRound e
  if pr == -1 then 0 else
  match s.getRound pr with
  | none => pr   -- (Go returns an error here; unreachable when parents were divided)
  | some ri =>
    let ps := s.peersAt pr
    let c := (ri.witnesses.filter (fun w => s.stronglySee e.id w ps)).length
    if Gen.cmpRound.evalN c (smL ps) then pr + 1 else pr

def St.computeWitness (s : St) (e : Ev) (r : Int) : Bool :=
  let spR := if e.sp == "" then -1 else s.roundOf e.sp
  (s.peersAt r).contains e.creator && Gen.cmpWitness.eval r spR

def St.lamportOf (s : St) (id : String) : Option Int := (s.get id).bind (·.lamport)
def St.computeLamport (s : St) (e : Ev) : Int :=
  let a := if e.sp == "" then -1 else (s.lamportOf e.sp).getD (-1)
  if e.op == "" then a + 1 else
  let b := (s.lamportOf e.op).getD (-2147483648)
  (if Gen.cmpLamport.eval b a then b else a) + 1

/-- `witness(ah)` as used by the first-descendant walk (memoised flag, else computed) -/
def St.isWitnessStored (s : St) (id : String) : Bool :=
  match s.get id with
  | some e => e.wit.getD (s.computeWitness e (e.round.getD (-1)))
  | none => false

/-! ## InsertEvent -/

/-- walk down the self-parent chain from `ah`, setting fd[cr] := idx until an entry is already set
    or a witness has been updated (`updateAncestorFirstDescendant`) -/
def St.fdWalk (s : St) (fuel : Nat) (ah : String) (cr : Nat) (idx : Int) : St :=
  match fuel with
  | 0 => s
  | fuel+1 =>
    match s.get ah with
    | none => s
    | some a =>
      match posGet a.fd cr with
      | some _ => s
      | none =>
        let s' := s.update ah (fun a => { a with fd := setAt a.fd cr (some idx) })
        if s'.isWitnessStored ah then s' else s'.fdWalk fuel a.sp cr idx

def St.laOf (s : St) (id : String) : Option (List (Option Coord)) := (s.get id).map (·.la)

/-- `initEventCoordinates` -/
def St.initLa (s : St) (e : Ev) : List (Option Coord) :=
  let la0 := match s.laOf e.sp, s.laOf e.op with
    | none, some o => o
    | some a, none => a
    | some a, some o => mergeLa a o
    | none, none => []
  setAt la0 e.creator (some { idx := e.index, id := e.id })

def walkOne (cr : Nat) (idx : Int) (st : St) (c : Option Coord) : St :=
  match c with
  | some c => st.fdWalk (st.events.length + 1) c.id cr idx
  | none => st

/-- coordinates + store + first-descendant walk (the part shared by InsertEvent and InsertFrameEvent) -/
def St.insertCoords (s : St) (e : Ev) : St :=
  let e' := { e with la := s.initLa e, fd := setAt [] e.creator (some e.index) }
  let s1 := { s with events := e' :: s.events }
  e'.la.foldl (walkOne e.creator e.index) s1

inductive Rej | badSig | unknownCreator | selfParent | otherParent | index | itxSig
deriving Repr, DecidableEq, Inhabited

def Rej.toString : Rej → String
  | .badSig => "sig" | .unknownCreator => "creator" | .selfParent => "selfparent"
  | .otherParent => "otherparent" | .index => "index" | .itxSig => "itxsig"

/-- the admission checks of `InsertEvent` in source order: Verify, checkSelfParent, checkOtherParent,
    checkIndex (the creator test is `LastEventFrom`'s UnknownParticipant error) -/
def St.admission (s : St) (e : Ev) : Option Rej :=
  if !e.sigok then some .badSig else
  if !s.repertoire.contains e.creator then some .unknownCreator else
  match s.lastFrom e.creator with
  | none => if e.sp != "" then some .selfParent else
            if e.op != "" && (s.get e.op).isNone then some .otherParent else
            if e.index != 0 then some .index else none
  | some l => if e.sp != l.id then some .selfParent else
              if e.op != "" && (s.get e.op).isNone then some .otherParent else
              if e.index != l.index + 1 then some .index else none

/-- `Event.IsLoaded`: a first event, or one that carries transactions or internal transactions -/
def Ev.isLoaded (e : Ev) : Bool := e.index == 0 || !e.txs.isEmpty || !e.itx.isEmpty

def St.insert (s : St) (e : Ev) : St :=
  let s2 := s.insertCoords e
  { s2 with undet := s2.undet ++ [e.id], topo := s2.topo + 1,
            pendingLoaded := s2.pendingLoaded + (if e.isLoaded then 1 else 0) }

/-! ## DivideRounds -/

/-- insertion into the sorted pending queue (after the entries with a round ≤ the new one) -/
def insertSorted : List (Int × Bool) → Int × Bool → List (Int × Bool)
  | [], x => [x]
  | p :: t, x => if p.1 ≤ x.1 then p :: insertSorted t x else x :: p :: t

/-- `PendingRounds.Set` under the three conditions of `DivideRounds` -/
def St.aboveLB (st : St) (r : Int) : Bool :=
  match st.lowerBound with | none => true | some lb => decide (r > lb)

def St.queueRound (st : St) (r : Int) (ri : RoundInfo) : St :=
  if !(st.pending.any (·.1 == r)) && !ri.decided && st.aboveLB r then
    { st with pending := insertSorted st.pending (r, false) }
  else st

/-- first half of the loop body of `DivideRounds`: round, pending queue, witness flag, RoundInfo -/
def St.assignRound (st : St) (id : String) (ev : Ev) : St :=
  let r := st.computeRound ev
  let ri := (st.getRound r).getD {}
  let st := st.queueRound r ri
  let st := st.update id (fun e => { e with round := some r })
  let w := st.computeWitness ev r
  let st := st.setRound r (ri.addCreated id w)
  st.update id (fun e => { e with wit := some w })

/-- second half: the Lamport timestamp -/
def St.assignLamport (st : St) (id : String) : St :=
  match st.get id with
  | none => st
  | some ev1 => st.update id (fun e => { e with lamport := some (st.computeLamport ev1) })

def divideOne (st : St) (id : String) : St :=
  match st.get id with
  | none => st
  | some ev =>
    let st1 := if ev.round.isNone then st.assignRound id ev else st
    if ev.lamport.isNone then st1.assignLamport id else st1

def St.divideRounds (s : St) : St := s.undet.foldl divideOne s

/-! ## DecideFame -/

abbrev Votes := List ((String × String) × Bool)
def vGet (v : Votes) (y x : String) : Bool := ((v.find? (fun p => p.1 == (y, x))).map (·.2)).getD false
def vSet (v : Votes) (y x : String) (b : Bool) : Votes := ((y, x), b) :: v.filter (fun p => p.1 != (y, x))

/-- one witness `y` of round `j` votes on `x` (round `r`); returns the decision if `y` decides -/
def St.voteStep (s : St) (x : String) (r j : Int) (acc : Votes × Option Bool) (y : String) : Votes × Option Bool :=
  match acc.2 with
  | some _ => acc
  | none =>
    let diff := j - r
    if Gen.cmpFirstVoteRound.eval diff 1 then (vSet acc.1 y x (s.ancestor y x), none) else
    let prevW := ((s.getRound (j-1)).map (·.witnesses)).getD []
    let prevPs := s.peersAt (j-1)
    let jsm := smL (s.peersAt j)
    let ssw := prevW.filter (fun w => s.stronglySee y w prevPs)
    let yays := (ssw.filter (fun w => vGet acc.1 w x)).length
    let nays := ssw.length - yays
    let v := Gen.cmpFameTie.evalN yays nays
    let t := if v then yays else nays
    if Gen.cmpCoinTest.evalN (diff.toNat % Gen.coinRoundFreq) 0 then
      if Gen.cmpFameNormal.evalN t jsm then (vSet acc.1 y x v, some v) else (vSet acc.1 y x v, none)
    else
      if Gen.cmpFameCoin.evalN t jsm then (vSet acc.1 y x v, none)
      else (vSet acc.1 y x ((s.get y).map (·.mid) |>.getD true), none)

/-- vote loop for one witness x of round r over rounds j = `j` .. lastRound -/
def St.voteLoop (s : St) (x : String) (r : Int) (fuel : Nat) (j : Int) (votes : Votes) : Option Bool :=
  match fuel with
  | 0 => none
  | fuel+1 =>
    if j > s.lastRound then none else
    match s.getRound j with
    | none => none
    | some jri =>
      let (votes', dec) := jri.witnesses.foldl (s.voteStep x r j) (votes, none)
      match dec with
      | some v => some v
      | none => s.voteLoop x r fuel (j+1) votes'

def St.decideWitness (st : St) (r : Int) (ri : RoundInfo) (x : String) : RoundInfo :=
  if ri.isDecided x then ri else
  match st.voteLoop x r (st.lastRound - r + 2).toNat (r+1) [] with
  | some v => ri.setFame x v
  | none => ri

def decideFameRound (acc : St × List Int) (pr : Int × Bool) : St × List Int :=
  let st := acc.1
  let r := pr.1
  match st.getRound r with
  | none => acc
  | some ri =>
    let ri' := ri.witnesses.foldl (st.decideWitness r) ri
    let (d, ri'') := ri'.witnessesDecided (st.peersAt r)
    (st.setRound r ri'', if d then acc.2 ++ [r] else acc.2)

def St.decideFame (s : St) : St :=
  let (s', decidedRounds) := s.pending.foldl decideFameRound (s, [])
  { s' with pending := s'.pending.map (fun p => if decidedRounds.contains p.1 then (p.1, true) else p) }

/-! ## DecideRoundReceived -/

/-- search the round received of x starting at round i -/
def St.rrLoop (s : St) (x : String) (fuel : Nat) (i : Int) : St × Bool :=
  match fuel with
  | 0 => (s, false)
  | fuel+1 =>
    if i > s.lastRound then (s, false) else
    match s.getRound i with
    | none =>                 -- a missing round at or below the fast-sync lower bound is skipped, else `break`
      (match s.lowerBound with
       | none => (s, false)
       | some lb => if lb < i then (s, false) else s.rrLoop x fuel (i+1))
    | some tr =>
      let tps := s.peersAt i
      let (d, tr') := tr.witnessesDecided tps
      let s := s.setRound i tr'
      if !d then
        (match s.lowerBound with
         | none => (s, false)
         | some lb => if lb < i then (s, false) else s.rrLoop x fuel (i+1))
      else
      let fws := tr'.famous
      let seen := fws.filter (fun w => s.ancestor w x)
      if Gen.cmpRoundReceivedAll.evalN seen.length fws.length && Gen.cmpRoundReceived.evalN seen.length (smL tps) then
        let s := s.update x (fun e => { e with rr := some i })
        let s := s.setRound i { tr' with received := tr'.received ++ [x] }
        (s, true)
      else s.rrLoop x fuel (i+1)

def receiveOne (acc : St × List String) (x : String) : St × List String :=
  let st := acc.1
  let r := st.roundOf x
  let (st', got) := st.rrLoop x (st.lastRound - r + 1).toNat (r+1)
  (st', if got then acc.2 else acc.2 ++ [x])

def St.decideRoundReceived (s : St) : St :=
  let (s', newUndet) := s.undet.foldl receiveOne (s, [])
  { s' with undet := newUndet }

/-! ## frames and blocks -/

def St.frameEv (s : St) (id : String) : Option FrameEv :=
  match s.get id with
  | none => none
  | some e =>
    let r := e.round.getD (-1)
    match s.getRound r with
    | none => none
    | some ri =>
      match ri.created.find? (·.id == id) with
      | none => none
      | some re => some { id := id, round := r, lamport := e.lamport.getD 0, witness := re.witness }

/-- predecessors of `head` by index, newest first, at most `k` of them -/
def St.rootPreds (s : St) (c : Nat) (k : Nat) (i : Int) : List FrameEv :=
  match k with
  | 0 => []
  | k+1 =>
    let j := i - 1
    if j < 0 then [] else
    match s.byIndex c j with
    | none => []
    | some e =>
      match s.frameEv e.id with
      | none => []
      | some fe => fe :: s.rootPreds c k j

/-- `createRoot(participant, head)`: head and up to ROOT_DEPTH predecessors by index, oldest first -/
def St.createRoot (s : St) (c : Nat) (head : String) : List FrameEv :=
  match s.get head with
  | none => []
  | some h =>
    match s.frameEv head with
    | none => []
    | some fh => (fh :: s.rootPreds c Gen.rootDepth h.index).reverse

def firstRoundTbl (tbl : List (Int × List Nat)) (c : Nat) : Option Int :=
  ((tbl.filter (fun p => p.2.contains c)).map (·.1)).foldl
    (fun acc r => match acc with | none => some r | some a => some (if r < a then r else a)) none

def frameLe (a b : Ev) : Bool :=
  let la := a.lamport.getD 0; let lb := b.lamport.getD 0
  if la != lb then decide (la < lb) else decide (a.key ≤ b.key)

def addRootFor (s : St) (acc : List (Nat × List FrameEv)) (e : Ev) : List (Nat × List FrameEv) :=
  if acc.any (·.1 == e.creator) then acc else acc ++ [(e.creator, s.createRoot e.creator e.sp)]

def addRootOther (s : St) (r : Int) (acc : List (Nat × List FrameEv)) (c : Nat) : List (Nat × List FrameEv) :=
  match firstRoundTbl s.peerSets c with
  | none => acc
  | some fr =>
    if fr > r then acc else
    if acc.any (·.1 == c) then acc else
    acc ++ [(c, s.createRoot c ((alGet s.lastCons c).getD ""))]

def St.getFrame (s : St) (r : Int) (ri : RoundInfo) : Frame × List Ev :=
  let evs := ri.received.filterMap s.get
  let sorted := evs.mergeSort frameLe
  let ts := Median.median64 ((ri.famous.filterMap s.get).map (·.ts))
  let roots := sorted.foldl (addRootFor s) []
  let roots := s.repertoire.foldl (addRootOther s r) roots
  ({ round := r, ts := ts, peers := s.peersAt r, events := sorted.filterMap (fun e => s.frameEv e.id),
     roots := roots, peerSets := s.peerSets }, sorted)

def setLastCons (lc : List (Nat × String)) (e : Ev) : List (Nat × String) := alSet lc e.creator e.id

def applyItx (v : List Nat) (it : Bool × Nat) : List Nat :=
  if it.1 then (if v.contains it.2 then v else v ++ [it.2]) else v.filter (· != it.2)

/-- `PeerSetCache.Set`: the rounds slice is kept sorted -/
def insertPeerSet : List (Int × List Nat) → Int → List Nat → List (Int × List Nat)
  | [], r, v => [(r, v)]
  | p :: t, r, v => if p.1 ≤ r then p :: insertPeerSet t r v else (r, v) :: p :: t

def addRep (rep : List Nat) (c : Nat) : List Nat := if rep.contains c then rep else rep ++ [c]

/-- `core.processAcceptedInternalTransactions` with every receipt accepted (the harness's application
    accepts everything unless stated otherwise): new validator set effective at rr + 6 -/
def St.applyReceipts (s : St) (rr : Int) (itxs : List (Bool × Nat)) : St :=
  if itxs.isEmpty then s else
  let v := itxs.foldl applyItx s.validators
  let eff := Gen.effectiveRound rr
  if s.peerSets.any (·.1 == eff) then s   -- `SetPeerSet` refuses a second entry; core returns the error before updating validators
  else { s with validators := v, peerSets := insertPeerSet s.peerSets eff v, repertoire := v.foldl addRep s.repertoire }

/-- `NewBlockFromFrame` + the test of `ProcessDecidedRounds`: a block exists only for a non-empty frame
    carrying a transaction or an internal transaction -/
def blockOf (index r : Int) (frame : Frame) (sorted : List Ev) : Option Block :=
  let txs := (sorted.map (·.txs)).flatten
  let itxs := (sorted.map (·.itx)).flatten
  if Gen.cmpFrameNonEmpty.evalN sorted.length 0 &&
     (Gen.cmpBlockHasTx.evalN txs.length 0 || Gen.cmpBlockHasItx.evalN itxs.length 0) then
    some { index := index, rr := r, ts := frame.ts, txs := txs, itx := itxs,
           events := sorted.map (·.id), peers := frame.peers }
  else none

/-- `SetBlock` + commit callback -/
def St.addBlock (s : St) (b : Block) : St :=
  ({ s with blocks := s.blocks ++ [b], lastBlock := s.lastBlock + 1 }).applyReceipts b.rr b.itx

def St.addFrame (s : St) (frame : Frame) (sorted : List Ev) : St :=
  { s with frames := s.frames ++ [frame],
           lastCons := if Gen.cmpFrameNonEmpty.evalN sorted.length 0 then sorted.foldl setLastCons s.lastCons else s.lastCons,
           -- the loaded events of a processed frame are no longer pending
           pendingLoaded := if Gen.cmpFrameNonEmpty.evalN sorted.length 0 then s.pendingLoaded - (sorted.filter Ev.isLoaded).length
                            else s.pendingLoaded }

def St.popPending (s : St) (r : Int) (rest : List (Int × Bool)) : St :=
  { s with pending := rest,
           lcr := match s.lcr with
                  | none => some r
                  | some l => if r > l then some r else some l }

/-- process the first pending round if it is decided; `none` when the pass stops -/
def St.processOne (s : St) : Option St :=
  match s.pending with
  | [] => none
  | (r, d) :: rest =>
    if !d then none else
    match s.getRound r with
    | none => none
    | some ri =>
      let fs := s.getFrame r ri
      let s1 := s.addFrame fs.1 fs.2
      match blockOf (s.lastBlock + 1) r fs.1 fs.2 with
      | some b => some ((s1.addBlock b).popPending r rest)
      | none => some (s1.popPending r rest)

def St.processLoop (s : St) : Nat → St
  | 0 => s
  | fuel+1 => match s.processOne with
    | none => s
    | some s' => s'.processLoop fuel

def St.processDecidedRounds (s : St) : St := s.processLoop (s.pending.length + 1)

def St.runConsensus (s : St) : St :=
  (((s.divideRounds).decideFame).decideRoundReceived).processDecidedRounds

/-- `InsertEventAndRunConsensus` -/
def St.insertAndRun (s : St) (e : Ev) : St × Option Rej :=
  match s.admission e with
  | some r => (s, some r)
  | none => ((s.insert e).runConsensus, none)

/-! ## Reset from a frame -/

/-- `InsertFrameEvent`: preset round / lamport / witness, coordinates recomputed, no undetermined entry -/
def St.insertFrameEvent (s : St) (p : FrameEv × Ev) : St :=
  let fe := p.1
  let ri := (s.getRound fe.round).getD {}
  let s := s.setRound fe.round (ri.addCreated fe.id fe.witness)
  let e : Ev := { p.2 with la := [], fd := [], round := some fe.round, lamport := some fe.lamport,
                           wit := some fe.witness, rr := none }
  let s := s.insertCoords e
  { s with lastCons := setLastCons s.lastCons e }

def frameEvLe (x y : FrameEv × Ev) : Bool :=
  if x.1.lamport != y.1.lamport then decide (x.1.lamport < y.1.lamport) else decide (x.2.key ≤ y.2.key)

/-- `Hashgraph.Reset(block, frame)` + the receipts of the anchor block applied by `node.fastForward`.
    `lookup` supplies the core event of each frame event (the frame ships them). -/
def resetFrom (blk : Block) (fr : Frame) (lookup : String → Option Ev) : St :=
  let rep := fr.peerSets.foldl (fun rep p => p.2.foldl addRep rep) []
  -- core.fastForward: validators = the most recent entry of the shipped history above the frame's round, else frame.Peers
  let later := fr.peerSets.filter (fun p => decide (p.1 > fr.round))
  let b0 : St := { peerSets := fr.peerSets, validators := ((later.getLast?).map (·.2)).getD fr.peers, repertoire := rep }
  let all := (fr.roots.map (·.2)).flatten ++ fr.events
  let withSrc := all.filterMap (fun fe => (lookup fe.id).map (fun e => (fe, e)))
  let sorted := withSrc.mergeSort frameEvLe
  let b1 := sorted.foldl St.insertFrameEvent b0
  let b2 := { b1 with blocks := [blk], lastBlock := blk.index, lcr := some blk.rr, lowerBound := some blk.rr, frames := [fr] }
  b2.applyReceipts blk.rr blk.itx

def St.init (genesis : List Nat) : St :=
  { peerSets := [(0, genesis)], validators := genesis, repertoire := genesis }

end Babble.HG
