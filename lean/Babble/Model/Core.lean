/-! Model of the transaction pool of `node.core`: `addTransactions`, `addSelfEvent` (the new event
    carries the whole pool as it is when the event is built; after a successful insertion the pool is
    trimmed by the count captured before the insertion, because the commit callback may have appended
    to it meanwhile; a failed insertion leaves the pool untouched), and the commit log.
    Transactions are opaque names; duplicates are different occurrences.  Core Lean only. -/
namespace Babble.Core

structure CoreSt where
  pool : List Nat := []            -- transactionPool
  placed : List (List Nat) := []   -- payload of own events, oldest first
  submitted : List Nat := []       -- ghost: everything ever accepted, in order
deriving Repr

inductive Op
  | submit (tx : Nat)                  -- application submits a transaction (also: refill by the commit path)
  | selfEventOk (refill : List Nat)    -- addSelfEvent succeeded; `refill` was appended during the insertion
  | selfEventFail                      -- addSelfEvent failed before the event entered the DAG
deriving Repr

def step (s : CoreSt) : Op → CoreSt
  | .submit tx => { s with pool := s.pool ++ [tx], submitted := s.submitted ++ [tx] }
  | .selfEventOk refill =>
    let n := s.pool.length
    let payload := s.pool
    let pool' := s.pool ++ refill            -- appended while InsertEventAndRunConsensus ran
    { s with placed := s.placed ++ [payload], pool := pool'.drop n, submitted := s.submitted ++ refill }
  | .selfEventFail => s

def run (ops : List Op) : CoreSt := ops.foldl step {}

end Babble.Core
