/-! Models of `common.RollingIndex` (src/common/rolling_index.go) and `common.LRU`
    (src/common/lru.go).  Items are abstract (`Nat` names in the driver).  Core Lean only. -/
namespace Babble.Containers

inductive RErr | tooLate | skipped | notFound | empty
deriving Repr, DecidableEq, Inhabited

def RErr.toString : RErr → String
  | .tooLate => "TooLate" | .skipped => "SkippedIndex" | .notFound => "KeyNotFound" | .empty => "Empty"

/-- `RollingIndex`: `items` oldest first -/
structure RI (α : Type) where
  size : Nat
  lastIndex : Int := -1
  items : List α := []
deriving Repr

namespace RI
variable {α : Type}

def new (size : Nat) : RI α := { size := size }

/-- index of the oldest cached item ("assume there are no gaps") -/
def oldest (r : RI α) : Int := r.lastIndex - r.items.length + 1

/-- `Get(skipIndex)` -/
def get (r : RI α) (skip : Int) : Except RErr (List α) :=
  if skip > r.lastIndex then .ok []
  else if skip + 1 < r.oldest then .error .tooLate
  else .ok (r.items.drop (skip - r.oldest + 1).toNat)

/-- `GetItem(index)` -/
def getItem (r : RI α) (index : Int) : Except RErr α :=
  if index < r.oldest then .error .tooLate
  else match r.items[(index - r.oldest).toNat]? with
    | some x => .ok x
    | none => .error .notFound

/-- `roll`: evict the earlier half -/
def roll (r : RI α) : RI α := { r with items := r.items.drop (r.size / 2) }

/-- `Set(item, index)`; on error the structure is unchanged -/
def set (r : RI α) (item : α) (index : Int) : Except RErr (RI α) :=
  if 0 ≤ r.lastIndex ∧ index > r.lastIndex + 1 then .error .skipped
  else if r.lastIndex < 0 ∨ index = r.lastIndex + 1 then
    let r' := if r.items.length ≥ r.size then r.roll else r
    .ok { r' with items := r'.items ++ [item], lastIndex := index }
  else if index < r.oldest then .error .tooLate
  else .ok { r with items := r.items.set (index - r.oldest).toNat item }

/-- the last item (`RollingIndexMap.GetLast`) -/
def last (r : RI α) : Except RErr α :=
  match r.items.getLast? with
  | some x => .ok x
  | none => .error .empty

end RI

/-- association-list helpers (own recursive definitions: lemmas are plain inductions) -/
def alookup {κ ν : Type} [DecidableEq κ] (k : κ) : List (κ × ν) → Option ν
  | [] => none
  | p :: l => if p.1 = k then some p.2 else alookup k l

def aerase {κ ν : Type} [DecidableEq κ] (k : κ) : List (κ × ν) → List (κ × ν)
  | [] => []
  | p :: l => if p.1 = k then aerase k l else p :: aerase k l

/-- `LRU`: `items` most recently used first -/
structure LRU (κ ν : Type) where
  size : Nat
  items : List (κ × ν) := []
deriving Repr

namespace LRU
variable {κ ν : Type} [DecidableEq κ]

def new (size : Nat) : LRU κ ν := { size := size }

def lookup (c : LRU κ ν) (k : κ) : Option ν := alookup k c.items

/-- `Add`: returns the new cache and whether an eviction occurred -/
def add (c : LRU κ ν) (k : κ) (v : ν) : LRU κ ν × Bool :=
  if (c.lookup k).isSome then
    ({ c with items := (k, v) :: aerase k c.items }, false)
  else
    if c.items.length + 1 > c.size then ({ c with items := ((k, v) :: c.items).dropLast }, true)
    else ({ c with items := (k, v) :: c.items }, false)

/-- `Get`: moves the entry to the front -/
def get (c : LRU κ ν) (k : κ) : LRU κ ν × Option ν :=
  match c.lookup k with
  | some v => ({ c with items := (k, v) :: aerase k c.items }, some v)
  | none => (c, none)

def peek (c : LRU κ ν) (k : κ) : Option ν := c.lookup k
def contains (c : LRU κ ν) (k : κ) : Bool := (c.lookup k).isSome
def remove (c : LRU κ ν) (k : κ) : LRU κ ν × Bool :=
  if (c.lookup k).isSome then ({ c with items := aerase k c.items }, true) else (c, false)
def removeOldest (c : LRU κ ν) : LRU κ ν × Option (κ × ν) :=
  match c.items.getLast? with
  | some p => ({ c with items := c.items.dropLast }, some p)
  | none => (c, none)
/-- `Keys`: oldest to newest -/
def keys (c : LRU κ ν) : List κ := (c.items.map (·.1)).reverse
def len (c : LRU κ ν) : Nat := c.items.length

end LRU
end Babble.Containers
