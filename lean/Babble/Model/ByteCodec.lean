import Babble.Model.Decode
/-! Byte-level model of the two string encodings every key, hash and signature of Babble travels in:

    * `common.EncodeToString` / `common.DecodeFromString` — `"0X"` + upper-case hexadecimal, decoded by
      dropping the first two bytes *whatever they are* and handing the rest to `hex.DecodeString`
      (both cases accepted, odd length or a foreign byte is an error);
    * `keys.EncodeSignature` / `keys.DecodeSignature` — `r.Text(36) + "|" + s.Text(36)`, decoded by
      `strings.Split(sig, "|")` and `big.Int.SetString(part, 36)` (optional sign, both cases accepted).

    `Babble.Decode` (C08) only says *whether* these decoders succeed and how many bytes come out;
    this module computes the values, so that round-trips and the re-spelling facts behind D8 (one
    key, many spellings) can be stated and compared with the Go functions byte for byte.
    Strings and byte slices are lists of naturals below 256.  Core Lean only. -/
namespace Babble.ByteCodec
open Babble.Decode (Bytes splitOn)

/-! ## hexadecimal -/

/-- `%X` of one nibble: `'0'..'9'`, `'A'..'F'` -/
def hexDigitU (d : Nat) : Nat := if d < 10 then 48 + d else 55 + d

/-- `encoding/hex.fromHexChar` -/
def hexVal (c : Nat) : Option Nat :=
  if 48 ≤ c ∧ c ≤ 57 then some (c - 48)
  else if 97 ≤ c ∧ c ≤ 102 then some (c - 87)
  else if 65 ≤ c ∧ c ≤ 70 then some (c - 55)
  else none

def hexBody : List Nat → Bytes
  | [] => []
  | b :: r => hexDigitU (b / 16) :: hexDigitU (b % 16) :: hexBody r

/-- `common.EncodeToString`: `fmt.Sprintf("0X%X", bytes)` -/
def encodeToString (bs : List Nat) : Bytes := 48 :: 88 :: hexBody bs

/-- `hex.DecodeString` (the error cases collapsed into `none`) -/
def hexDecode : Bytes → Option (List Nat)
  | [] => some []
  | [_] => none
  | a :: b :: r =>
    match hexVal a, hexVal b, hexDecode r with
    | some x, some y, some t => some ((x * 16 + y) :: t)
    | _, _, _ => none

/-- `common.DecodeFromString`: length guard, `hexString[2:]`, `hex.DecodeString` -/
def decodeFromString (s : Bytes) : Option (List Nat) :=
  if s.length < 2 then none else hexDecode (s.drop 2)

/-- ASCII lower-casing of a byte (`strings.ToLower` on ASCII) -/
def lowerByte (c : Nat) : Nat := if 65 ≤ c ∧ c ≤ 90 then c + 32 else c
/-- ASCII upper-casing of a byte (`strings.ToUpper` on ASCII) -/
def upperByte (c : Nat) : Nat := if 97 ≤ c ∧ c ≤ 122 then c - 32 else c

/-! ## base 36 -/

/-- `big.Int.Text(36)` digit: `'0'..'9'`, `'a'..'z'` -/
def digit36 (d : Nat) : Nat := if d < 10 then 48 + d else 87 + d

/-- digit value as `big.Int.SetString(_, 36)` reads it (upper and lower case are the same) -/
def val36 (c : Nat) : Option Nat :=
  if 48 ≤ c ∧ c ≤ 57 then some (c - 48)
  else if 97 ≤ c ∧ c ≤ 122 then some (c - 87)
  else if 65 ≤ c ∧ c ≤ 90 then some (c - 55)
  else none

/-- base-36 digits, least significant first -/
def digitsLE (n : Nat) : List Nat :=
  if h : n < 36 then [n] else (n % 36) :: digitsLE (n / 36)
termination_by n
decreasing_by omega

/-- `big.Int.Text(36)` of a non-negative integer -/
def text36 (n : Nat) : Bytes := (digitsLE n).reverse.map digit36

/-- digits most significant first, accumulated -/
def parseAux (acc : Nat) : Bytes → Option Nat
  | [] => some acc
  | c :: r => match val36 c with
    | some v => parseAux (acc * 36 + v) r
    | none => none

/-- `big.Int.SetString(s, 36)`: optional sign, at least one digit, nothing else -/
def setString36 (s : Bytes) : Option Int :=
  match s with
  | 43 :: r => if r.isEmpty then none else (parseAux 0 r).map Int.ofNat
  | 45 :: r => if r.isEmpty then none else (parseAux 0 r).map (fun n => - Int.ofNat n)
  | r => if r.isEmpty then none else (parseAux 0 r).map Int.ofNat

/-- `keys.EncodeSignature` (r and s of an ECDSA signature are positive) -/
def encodeSignature (r s : Nat) : Bytes := text36 r ++ 124 :: text36 s

def pairOpt (x y : Option Int) : Option (Int × Int) :=
  match x, y with
  | some r, some s => some (r, s)
  | _, _ => none

/-- `keys.DecodeSignature` -/
def decodeSignature (sig : Bytes) : Option (Int × Int) :=
  match splitOn 124 sig with
  | [a, b] => pairOpt (setString36 a) (setString36 b)
  | _ => none

end Babble.ByteCodec
