/-! Model of `common.Median` (src/common/median.go) with Go's int64 semantics:
    the sum of the two middle elements wraps modulo 2^64, `/` truncates toward zero. -/
namespace Babble.Median

def two63 : Int := 9223372036854775808
def two64 : Int := 18446744073709551616

/-- two's complement wrap of an integer into the int64 range -/
def wrap64 (x : Int) : Int := (x + two63) % two64 - two63

def inInt64 (x : Int) : Prop := -two63 ≤ x ∧ x < two63

def sorted (l : List Int) : List Int := l.mergeSort (fun a b => decide (a ≤ b))

/-- `common.Median` -/
def median64 (l : List Int) : Int :=
  let s := sorted l
  let n := s.length
  if n = 0 then 0
  else if n % 2 = 0 then (wrap64 (s.getD (n / 2 - 1) 0 + s.getD (n / 2) 0)).tdiv 2
  else s.getD (n / 2) 0

end Babble.Median
