/-! Model of the validation layer a hostile message goes through before anything else:
    `common.DecodeFromString`, `keys.DecodeSignature`, `keys.ToPublicKey`, `keys.Verify`,
    `InternalTransaction.Verify`, `Event.Verify`, `Block.Verify`, and the limit arithmetic of
    `processSyncRequest`.  Go's partial operations (slicing, nil dereference) are explicit: a result
    is `ok`, `err` (the function returned an error / false) or `panic`.  Strings are byte lists.
    The definitions describe the code after the C08 repairs (each repair is the guard in front of the
    partial operation).  Core Lean only. -/
namespace Babble.Decode

inductive Out (α : Type) | ok (a : α) | err | panic
deriving Repr, DecidableEq

abbrev Bytes := List Nat

def Out.cls {α} : Out α → String
  | .ok _ => "ok" | .err => "err" | .panic => "panic"

def isHexByte (b : Nat) : Bool := (48 ≤ b && b ≤ 57) || (97 ≤ b && b ≤ 102) || (65 ≤ b && b ≤ 70)
def isB36Byte (b : Nat) : Bool := (48 ≤ b && b ≤ 57) || (97 ≤ b && b ≤ 122) || (65 ≤ b && b ≤ 90)

/-- Go's `s[2:]`: panics (slice bounds out of range) when the string is shorter than 2 bytes -/
def sliceFrom2 (s : Bytes) : Out Bytes := if s.length < 2 then .panic else .ok (s.drop 2)

/-- `hex.DecodeString`: error on odd length or a non-hex byte; otherwise the number of bytes -/
def hexDecode (s : Bytes) : Out Nat := if s.length % 2 ≠ 0 || !s.all isHexByte then .err else .ok (s.length / 2)

/-- `common.DecodeFromString`: length guard, then `hexString[2:]`, then `hex.DecodeString` -/
def decodeFromString (s : Bytes) : Out Nat :=
  if s.length < 2 then .err else
  match sliceFrom2 s with
  | .ok b => hexDecode b
  | .err => .err
  | .panic => .panic

/-- `big.Int.SetString(s, 36)`: optional sign, then at least one base-36 digit and nothing else -/
def setString36 (s : Bytes) : Bool :=
  let body := match s with
    | 43 :: r => r   -- '+'
    | 45 :: r => r   -- '-'
    | r => r
  !body.isEmpty && body.all isB36Byte

def splitOn (sep : Nat) : Bytes → List Bytes
  | [] => [[]]
  | b :: r => match splitOn sep r with
    | [] => [[b]]     -- unreachable
    | p :: ps => if b = sep then [] :: p :: ps else (b :: p) :: ps

/-- `keys.DecodeSignature`: two `|`-separated base-36 integers; a part that does not parse is an
    error (before the repair it silently became a nil `*big.Int`) -/
def decodeSignature (s : Bytes) : Out Unit :=
  match splitOn 124 s with
  | [a, b] => if setString36 a && setString36 b then .ok () else .err
  | _ => .err

/-- a public key as the verification code sees it: `none` = nil key (empty bytes, or bytes that are
    not a point of the curve: `ToPublicKey` returns nil after the repair) -/
def toPublicKey (nbytes : Nat) (onCurve : Bool) : Option Unit := if nbytes = 0 || !onCurve then none else some ()

/-- `keys.Verify`: a nil key verifies nothing (guard added by the repair; `ecdsa.Verify` would
    dereference it) -/
def keysVerify (key : Option Unit) (valid : Bool) : Out Bool :=
  match key with
  | none => .ok false
  | some _ => .ok valid

/-- what a signature check needs from the wire: key string, whether its bytes are on the curve,
    signature string, whether the signature is cryptographically valid (input bits from the real code) -/
structure SigIn where
  keyHex : Bytes
  onCurve : Bool
  sig : Bytes
  valid : Bool
deriving Repr

/-- `Peer.PubKeyBytes`: `DecodeFromString` with the error dropped (nil bytes on error) -/
def pubKeyBytes (keyHex : Bytes) : Out Nat :=
  match decodeFromString keyHex with
  | .ok n => .ok n
  | .err => .ok 0
  | .panic => .panic

/-- `InternalTransaction.Verify` -/
def verifyItx (i : SigIn) : Out Bool :=
  match pubKeyBytes i.keyHex with
  | .panic => .panic
  | .err => .err
  | .ok n =>
    let key := toPublicKey n i.onCurve
    match decodeSignature i.sig with
    | .panic => .panic
    | .err => .err
    | .ok _ => keysVerify key i.valid

/-- `Event.Verify`: internal transactions first (an invalid one is an error), then the event's own
    signature against the creator bytes -/
def verifyEvent (itxs : List SigIn) (creatorBytes : Nat) (onCurve : Bool) (sig : Bytes) (valid : Bool) : Out Bool :=
  let rec go : List SigIn → Out Unit
    | [] => .ok ()
    | i :: r => match verifyItx i with
      | .panic => .panic
      | .err => .err
      | .ok false => .err
      | .ok true => go r
  match go itxs with
  | .panic => .panic
  | .err => .err
  | .ok _ =>
    match decodeSignature sig with
    | .panic => .panic
    | .err => .err
    | .ok _ => keysVerify (toPublicKey creatorBytes onCurve) valid

/-- `limit := min(cmd.SyncLimit, conf.SyncLimit)`, clamped at zero by the repair -/
def clampLimit (reqLimit confLimit : Int) : Int :=
  let limit := if reqLimit < confLimit then reqLimit else confLimit
  if limit < 0 then 0 else limit

/-- `processSyncRequest`: `eventDiff[:limit]` is taken only when `limit < len`; Go panics (slice
    bounds out of range) for a negative bound -/
def syncSlice (diffLen : Nat) (reqLimit confLimit : Int) : Out Nat :=
  let limit := clampLimit reqLimit confLimit
  if limit < diffLen then
    (if 0 ≤ limit then .ok limit.toNat else .panic)
  else .ok diffLen

end Babble.Decode
