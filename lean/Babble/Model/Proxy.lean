import Babble.Generated
/-! Model of the retry loop of `SocketAppProxyClient.call` / `SocketBabbleProxyClient.call`:
    up to `retries` attempts; an attempt fails at connection time, fails during the call (the
    connection is then dropped and re-dialled) or returns a reply.  Core Lean only. -/
namespace Babble.Proxy

inductive Attempt (ρ : Type) | connFail | callFail | ok (reply : ρ)
deriving Repr

inductive Outcome (ρ : Type) | error | success (reply : ρ)
deriving Repr, DecidableEq

/-- the loop: `for try := 0; try < retries; try++ { …; if failed continue; break }; return err` -/
def call {ρ : Type} : Nat → List (Attempt ρ) → Outcome ρ
  | 0, _ => .error                       -- (never with the shipped constants: see `retries_positive`)
  | _, [] => .error
  | n+1, a :: rest =>
    match a with
    | .ok r => .success r
    | _ => call n rest

/-- number of attempts actually made -/
def attemptsMade {ρ : Type} : Nat → List (Attempt ρ) → Nat
  | 0, _ => 0
  | _, [] => 0
  | n+1, a :: rest =>
    match a with
    | .ok _ => 1
    | _ => 1 + attemptsMade n rest

end Babble.Proxy
