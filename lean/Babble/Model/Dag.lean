import Babble.Generated
/-! # Declarative model of the hashgraph: events as hash-linked trees (static validator set)

An event *is* its whole ancestry (`E.mk id creator selfParent otherParent coinBit`): this is what a
hash-linked, signed event is.  Everything Babble computes about an event before any block is made
— round, witness flag, strongly-see, the votes it casts on earlier witnesses and the fame decisions
it triggers — is defined here as a function of that tree alone (`info`), by structural recursion
with one non-recursive step `infoStep`.  "Two nodes that hold the same event compute the same
values for it, whatever else they hold and in whichever order they received it" is then true by
construction, and the safety argument (agreement of fame decisions, stability of the set of famous
witnesses, hence of round-received) is carried out in `Babble/Proofs/Dag*.lean`.

The rules are the ones of `hashgraph.go` for a node that runs the consensus passes after every
insertion (what `core.sync` does), with the comparison operators, the supermajority formula and
the coin period of `Babble.Gen` (regenerated from the Go sources):

* `round`     : `_round` — parent round, +1 when the event strongly sees a supermajority of the
                parent round's witnesses;
* `wit`       : `_witness` — creator is a validator and round > self-parent's round;
* strongly-see: Babble's coordinate test `lastAncestors(x)[p] >= firstDescendants(w)[p]` counted
                over validators p.  `updateAncestorFirstDescendant` fills `firstDescendants(a)[p]`
                while walking down the self-parent chain from `lastAncestors(e)[creator a]` and
                stops after the first witness, i.e. at the beginning of that creator's current round;
                so validator `p` counts for `(x, w)` exactly when some ancestor-or-self `e` of `x`
                created by `p` has, as last known event of `w`'s creator, a self-descendant of `w`
                that is still in `w`'s round (`reach`).
* `votes`/`decs`: the tally rule of `DecideFame`.

`info e` lists one record per ancestor-or-self of `e` (newest = `e` first), duplicates removed by
event id (ids stand for hashes: the theorems assume ids are injective on the history considered).
`build` evaluates `info` over a topologically ordered event list with sharing (each record is
computed once), which is what the correspondence run executes next to the Go code. -/
namespace Babble.Dag
open Babble

inductive E
  | nil
  | mk (id creator : Nat) (sp op : E) (mid : Bool)
deriving Repr, Inhabited, DecidableEq

namespace E
def id : E → Nat | nil => 0 | mk i _ _ _ _ => i
def creator : E → Nat | nil => 0 | mk _ c _ _ _ => c
def sp : E → E | nil => nil | mk _ _ s _ _ => s
def op : E → E | nil => nil | mk _ _ _ o _ => o
def mid : E → Bool | nil => false | mk _ _ _ _ m => m
/-- length of the self-parent chain (Babble's index + 1) -/
def idx : E → Nat | nil => 0 | mk _ _ s _ _ => s.idx + 1
end E

/-- one coordinate of `lastAncestors`: the last known event of `creator`, with its round -/
structure LaEnt where
  creator : Nat
  ev : E
  round : Int
deriving Repr, Inhabited

structure Rec where
  e : E
  round : Int
  wit : Bool
  lamport : Int := 0              -- `_lamportTimestamp`: max over the parents + 1
  ancs : List Nat                 -- ids of the ancestors-or-self
  nssw : Nat := 0                 -- number of witnesses of the previous round it strongly sees
  la : List LaEnt                 -- lastAncestors, own entry included
  votes : List (Nat × Bool) := [] -- witness only: (candidate id, vote)
  decs : List (Nat × Bool) := []  -- witness only: (candidate id, fame decided by this witness)
deriving Repr, Inhabited

def hasId (l : List Rec) (i : Nat) : Bool := l.any (fun r => r.e.id == i)
/-- union of two ancestor lists, without repeating an id -/
def unionRecs (a b : List Rec) : List Rec := a ++ b.filter (fun r => !hasId a r.e.id)

def rOf : List Rec → Int | [] => -1 | r :: _ => r.round
def lOf : List Rec → Int | [] => -1 | r :: _ => r.lamport
def laOf : List Rec → List LaEnt | [] => [] | r :: _ => r.la

def laGet (la : List LaEnt) (p : Nat) : Option LaEnt := la.find? (fun x => x.creator == p)
/-- pointwise latest by index; on a tie the left (self-parent) entry is kept -/
def laMerge (a b : List LaEnt) : List LaEnt :=
  a.map (fun x => match laGet b x.creator with
    | some y => if x.ev.idx < y.ev.idx then y else x
    | none => x)
  ++ b.filter (fun y => (laGet a y.creator).isNone)
def laSet (la : List LaEnt) (ent : LaEnt) : List LaEnt := ent :: la.filter (fun x => x.creator != ent.creator)

/-- is the event with id `wid` on the self-parent chain of the given event (itself included) -/
def selfAncB (wid : Nat) : E → Bool
  | .nil => false
  | .mk i _ s _ _ => i == wid || selfAncB wid s

/-- the holder of coordinates `la` reaches `w` (id, creator `p`, round `rw`) inside `w`'s round:
    its last known event of `p` is `w` or a self-descendant of `w` with the same round -/
def reach (la : List LaEnt) (wid p : Nat) (rw : Int) : Bool :=
  match laGet la p with
  | some a => selfAncB wid a.ev && a.round == rw
  | none => false

section
variable (ps : List Nat)

def sm : Nat := Gen.superMajority ps.length

/-- number of validators through which the holder of `ents` (one entry per ancestor-or-self:
    creator and coordinates) strongly sees `w` -/
def sseeCount (ents : List (Nat × List LaEnt)) (w : Rec) : Nat :=
  (ps.filter (fun cr => ents.any (fun z => z.1 == cr && reach z.2 w.e.id w.e.creator w.round))).length

def sseeB (ents : List (Nat × List LaEnt)) (w : Rec) : Bool :=
  Gen.cmpStronglySee.evalN (sseeCount ps ents w) (sm ps)

/-- the witnesses of round `ρ` among `t` strongly seen by the holder of `ents` -/
def strongSeen (ents : List (Nat × List LaEnt)) (t : List Rec) (ρ : Int) : List Rec :=
  t.filter (fun w => w.wit && w.round == ρ && sseeB ps ents w)

def parentRound (isp iop : List Rec) : Int :=
  let spR := rOf isp
  match iop with
  | [] => spR
  | o :: _ => if Gen.cmpRoundParent.eval o.round spR then o.round else spR

def voteGet (v : List (Nat × Bool)) (x : Nat) : Bool := ((v.find? (fun p => p.1 == x)).map (·.2)).getD false

/-- the tally rule of `DecideFame` for a voting round `diff ≥ 2` rounds after the candidate's:
    vote and, in a normal round with a supermajority, the decision -/
def tally (diff : Int) (mid : Bool) (yays nays : Nat) : Bool × Option Bool :=
  let v := Gen.cmpFameTie.evalN yays nays
  let t := if v then yays else nays
  if Gen.cmpCoinTest.evalN (diff.toNat % Gen.coinRoundFreq) 0 then
    (if Gen.cmpFameNormal.evalN t (sm ps) then (v, some v) else (v, none))
  else
    (if Gen.cmpFameCoin.evalN t (sm ps) then (v, none) else (mid, none))

/-- the vote of a witness of round `j` (coin bit `mid`, ancestors `ancs`, strongly seen witnesses of
    round `j-1` = `ssw`) on candidate `x`, and the decision if this vote decides -/
def voteOn (j : Int) (mid : Bool) (ancs : List Nat) (ssw : List Rec) (x : Rec) : Bool × Option Bool :=
  let diff := j - x.round
  if Gen.cmpFirstVoteRound.eval diff 1 then (ancs.contains x.e.id, none) else
  let yays := (ssw.filter (fun w => voteGet w.votes x.e.id)).length
  tally ps diff mid yays (ssw.length - yays)

/-- entries used for strongly-see by event `e` with merged parent coordinates `laP`: its own entry
    (without its own creator's coordinate: that one is `e` itself, whose round is not known yet and
    which adds nothing, see DESIGN) and one entry per proper ancestor -/
def entsOf (e : E) (laP : List LaEnt) (t : List Rec) : List (Nat × List LaEnt) :=
  (e.creator, laP.filter (fun x => x.creator != e.creator)) :: t.map (fun r => (r.e.creator, r.la))

/-- `_round`: 0 without parents, else the parent round, plus one when a supermajority of that
    round's witnesses is strongly seen -/
def roundFrom (ents : List (Nat × List LaEnt)) (t : List Rec) (pr : Int) : Int :=
  if pr == -1 then 0 else
  if Gen.cmpRound.evalN (strongSeen ps ents t pr).length (sm ps) then pr + 1 else pr

/-- `_lamportTimestamp` -/
def lamportFrom (isp iop : List Rec) : Int :=
  match iop with
  | [] => lOf isp + 1
  | o :: _ => (if Gen.cmpLamport.eval o.lamport (lOf isp) then o.lamport else lOf isp) + 1

/-- the record of `e` from the ancestor lists of its parents -/
def headRec (e : E) (isp iop : List Rec) : Rec :=
  let t := unionRecs isp iop
  let ancs := e.id :: t.map (fun r => r.e.id)
  let laP := laMerge (laOf isp) (laOf iop)
  let ents := entsOf e laP t
  let r := roundFrom ps ents t (parentRound isp iop)
  let wit := ps.contains e.creator && Gen.cmpWitness.eval r (rOf isp)
  let ssw := strongSeen ps ents t (r - 1)
  let cands := t.filter (fun x => x.wit && decide (x.round < r))
  let vd := if wit then cands.map (fun x => (x.e.id, voteOn ps r e.mid ancs ssw x)) else []
  { e := e, round := r, wit := wit, lamport := lamportFrom isp iop, ancs := ancs, nssw := ssw.length, la := laSet laP ⟨e.creator, e, r⟩,
    votes := vd.map (fun p => (p.1, p.2.1)),
    decs := vd.filterMap (fun p => p.2.2.map (fun b => (p.1, b))) }

def infoStep (e : E) (isp iop : List Rec) : List Rec := headRec ps e isp iop :: unionRecs isp iop

/-- one record per ancestor-or-self of the event, the event's own record first -/
def info : E → List Rec
  | .nil => []
  | .mk i c s o m => infoStep ps (.mk i c s o m) (info s) (info o)

def recOf (e : E) : Rec := (info ps e).headD default
def round (e : E) : Int := rOf (info ps e)
def wit (e : E) : Bool := (recOf ps e).wit
/-- the vote of `y` on candidate `x` (false when `y` casts none) -/
def vote (y x : E) : Bool := voteGet (recOf ps y).votes x.id
/-- the fame of candidate `x` as decided by witness `y`, if `y` decides it.  For a candidate among
    `y`'s ancestors this is the recorded decision; a candidate `y` has never heard of got the vote
    `false` from every witness `y` strongly sees (no vote recorded = `false`, as in the Go `votes`
    map), and `y` decides on that tally like on any other -/
def decideRec (y x : Rec) : Option Bool :=
  if !(y.wit && x.wit && decide (x.round < y.round)) then none else
  if y.ancs.contains x.e.id then (y.decs.find? (fun p => p.1 == x.e.id)).map (·.2) else
  if Gen.cmpFirstVoteRound.eval (y.round - x.round) 1 then none else
  (tally ps (y.round - x.round) y.e.mid 0 y.nssw).2
def decision (y x : E) : Option Bool := decideRec ps (recOf ps y) (recOf ps x)

/-! ## the same rules with a validator set per round

`psAt r` is the validator set in force at round `r` (the node's `PeerSetCache`).  Which round's set
each rule consults is what `hashgraph.go` does: `_round` the parent round's, `_witness` the event's
round's, `DecideFame` the previous round's for strongly-see and the voter's round's for the
threshold, `DecideRoundReceived` the candidate round's.  With a constant `psAt` these are the
definitions above (`infoD_const`). -/

def headRecD (psAt : Int → List Nat) (e : E) (isp iop : List Rec) : Rec :=
  let t := unionRecs isp iop
  let ancs := e.id :: t.map (fun r => r.e.id)
  let laP := laMerge (laOf isp) (laOf iop)
  let ents := entsOf e laP t
  let pr := parentRound isp iop
  let r := roundFrom (psAt pr) ents t pr
  let wit := (psAt r).contains e.creator && Gen.cmpWitness.eval r (rOf isp)
  let ssw := strongSeen (psAt (r - 1)) ents t (r - 1)
  let cands := t.filter (fun x => x.wit && decide (x.round < r))
  let vd := if wit then cands.map (fun x => (x.e.id, voteOn (psAt r) r e.mid ancs ssw x)) else []
  { e := e, round := r, wit := wit, lamport := lamportFrom isp iop, ancs := ancs, nssw := ssw.length, la := laSet laP ⟨e.creator, e, r⟩,
    votes := vd.map (fun p => (p.1, p.2.1)),
    decs := vd.filterMap (fun p => p.2.2.map (fun b => (p.1, b))) }

def infoStepD (psAt : Int → List Nat) (e : E) (isp iop : List Rec) : List Rec :=
  headRecD psAt e isp iop :: unionRecs isp iop

def infoD (psAt : Int → List Nat) : E → List Rec
  | .nil => []
  | .mk i c s o m => infoStepD psAt (.mk i c s o m) (infoD psAt s) (infoD psAt o)

def decideRecD (psAt : Int → List Nat) (y x : Rec) : Option Bool :=
  if !(y.wit && x.wit && decide (x.round < y.round)) then none else
  if y.ancs.contains x.e.id then (y.decs.find? (fun p => p.1 == x.e.id)).map (·.2) else
  if Gen.cmpFirstVoteRound.eval (y.round - x.round) 1 then none else
  (tally (psAt y.round) (y.round - x.round) y.e.mid 0 y.nssw).2

/-! ## evaluation with sharing -/

structure Node where
  id : Nat
  creator : Nat
  sp : Nat      -- id, 0 = none
  op : Nat
  mid : Bool
deriving Repr, Inhabited

def lookupInfo (tbl : List (Nat × List Rec)) (i : Nat) : List Rec :=
  ((tbl.find? (fun p => p.1 == i)).map (·.2)).getD []
def headE : List Rec → E | [] => .nil | r :: _ => r.e

/-- table id ↦ `info` of the event, newest first -/
def buildStep (tbl : List (Nat × List Rec)) (nd : Node) : List (Nat × List Rec) :=
  let isp := lookupInfo tbl nd.sp
  let iop := lookupInfo tbl nd.op
  (nd.id, infoStep ps (.mk nd.id nd.creator (headE isp) (headE iop) nd.mid) isp iop) :: tbl
def build (nodes : List Node) : List (Nat × List Rec) := nodes.foldl (buildStep ps) []

/-! ## a node's view: the events it holds (a list of records, any order) -/

/-- fame of candidate `x` in a view: the decision of the first witness that decides it -/
def fameIn (view : List Rec) (x : Rec) : Option Bool := view.findSome? (fun y => decideRec ps y x)

/-- the famous witnesses of round `i` in a view -/
def famousOf (view : List Rec) (i : Int) : List Rec :=
  view.filter (fun x => x.wit && x.round == i && fameIn ps view x == some true)

/-- `DecideRoundReceived` for event `e`: the first round `i` above its own, all rounds up to `i`
    being decided, whose famous witnesses all see `e` and number a supermajority.  `decided` says
    which rounds the node has declared decided (the latch of `RoundInfo`); `last` is the node's
    last round -/
def rrFrom (decided : Int → Bool) (view : List Rec) (e : Rec) (fuel : Nat) (i last : Int) : Option Int :=
  match fuel with
  | 0 => none
  | fuel + 1 =>
    if i > last then none else
    if !decided i then none else
    let fws := famousOf ps view i
    let seen := fws.filter (fun w => w.ancs.contains e.e.id)
    if Gen.cmpRoundReceivedAll.evalN seen.length fws.length && Gen.cmpRoundReceived.evalN seen.length (sm ps) then some i
    else rrFrom decided view e fuel (i + 1) last

/-! ## dynamic versions of the evaluation and of the view-level functions -/

def buildStepD (psAt : Int → List Nat) (tbl : List (Nat × List Rec)) (nd : Node) : List (Nat × List Rec) :=
  let isp := lookupInfo tbl nd.sp
  let iop := lookupInfo tbl nd.op
  (nd.id, infoStepD psAt (.mk nd.id nd.creator (headE isp) (headE iop) nd.mid) isp iop) :: tbl
def buildD (psAt : Int → List Nat) (nodes : List Node) : List (Nat × List Rec) := nodes.foldl (buildStepD psAt) []

/-- fame of candidate `x` in a view, as `DecideFame` finds it: the vote loop goes up round by round,
    so the decision is that of a decider of the lowest round.  With a static validator set all
    deciders agree (`dag_fame_agreement`) and the choice does not matter; across a validator-set
    change that is not proved, and the lowest round is what the code takes.  The second component
    says whether two deciders of that lowest round disagree (the code would then depend on the
    iteration order of a Go map). -/
def fameInD (psAt : Int → List Nat) (view : List Rec) (x : Rec) : Option Bool × Bool :=
  let ds := view.filterMap (fun y => (decideRecD psAt y x).map (fun b => (y.round, b)))
  match ds with
  | [] => (none, false)
  | d :: rest =>
    let best := rest.foldl (fun acc p => if p.1 < acc.1 then p else acc) d
    (some best.2, ds.any (fun p => p.1 == best.1 && p.2 != best.2))

def famousOfD (psAt : Int → List Nat) (view : List Rec) (i : Int) : List Rec :=
  view.filter (fun x => x.wit && x.round == i && (fameInD psAt view x).1 == some true)

def rrFromD (psAt : Int → List Nat) (decided : Int → Bool) (view : List Rec) (e : Rec) (fuel : Nat) (i last : Int) : Option Int :=
  match fuel with
  | 0 => none
  | fuel + 1 =>
    if i > last then none else
    if !decided i then none else
    let fws := famousOfD psAt view i
    let seen := fws.filter (fun w => w.ancs.contains e.e.id)
    if Gen.cmpRoundReceivedAll.evalN seen.length fws.length && Gen.cmpRoundReceived.evalN seen.length (sm (psAt i)) then some i
    else rrFromD psAt decided view e fuel (i + 1) last

end
end Babble.Dag
