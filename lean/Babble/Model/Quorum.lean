import Babble.Generated
/-! Model of `peers.PeerSet`: a peer list with `WithNewPeer` / `WithRemovedPeer`, `Len`,
    `SuperMajority`, `TrustCount`.  Peers are identified by their public key (a `Nat` name here);
    `ByPubKey`/`ByID` are the set of keys of the list.  The thresholds are the *generated*
    definitions of `Babble.Gen`. -/
namespace Babble.Quorum
open Babble

/-- a peer set is the slice `Peers`; keys may in principle repeat (NewPeerSet does not dedup) -/
abbrev PeerList := List Nat

/-- the distinct keys of the list (what `initMaps` puts into `ByPubKey`) -/
def dedup : List Nat → List Nat
  | [] => []
  | a :: as => if as.contains a then dedup as else a :: dedup as

/-- `len(peerSet.ByPubKey)` : number of distinct keys -/
def len (ps : PeerList) : Nat := (dedup ps).length

/-- `WithNewPeer`: append unless the id is already in `ByID` -/
def withNewPeer (ps : PeerList) (p : Nat) : PeerList := if ps.contains p then ps else ps ++ [p]

/-- `WithRemovedPeer`: keep the peers whose key differs -/
def withRemovedPeer (ps : PeerList) (p : Nat) : PeerList := ps.filter (· != p)

inductive Op | add (p : Nat) | rm (p : Nat)
deriving Repr

def applyOp (ps : PeerList) : Op → PeerList
  | .add p => withNewPeer ps p
  | .rm p => withRemovedPeer ps p

def superMajority (ps : PeerList) : Nat := Gen.superMajority (len ps)
def trustCount (ps : PeerList) : Nat := Gen.trustCount ps.length (len ps)

end Babble.Quorum
