import Babble.Model.Hashgraph
/-! Model of the compact wire form of an event: `Hashgraph.SetWireInfo` + `Event.ToWire` on the sending
    node, `Hashgraph.ReadWireInfo` on the receiving node.  Parents travel as (creator, index) pairs and
    are resolved through the receiver's per-participant index.  Participant IDs (FNV-32 of the key)
    are the creator numbers (injectivity is part of the trusted base).  Core Lean only. -/
namespace Babble.HG

structure Wire where
  creator : Nat
  index : Int
  spIndex : Int          -- -1 = no self-parent
  opCreator : Nat
  opIndex : Int          -- -1 = no other-parent
  ts : Int
  key : Nat
  mid : Bool
  txs : List Nat
  itx : List (Bool × Nat)
  sigok : Bool
deriving Repr

/-- `SetWireInfo` + `ToWire`: fails if a parent is not in the sender's store -/
def St.toWire (s : St) (e : Ev) : Option Wire :=
  let sp : Option Int := if e.sp == "" then some (-1) else (s.get e.sp).map (·.index)
  let op : Option (Nat × Int) := if e.op == "" then some (0, -1) else (s.get e.op).map (fun o => (o.creator, o.index))
  match sp, op with
  | some si, some (oc, oi) =>
    some { creator := e.creator, index := e.index, spIndex := si, opCreator := oc, opIndex := oi,
           ts := e.ts, key := e.key, mid := e.mid, txs := e.txs, itx := e.itx, sigok := e.sigok }
  | _, _ => none

/-- `ReadWireInfo`: the parents' hashes as the receiver resolves them (`ParticipantEvent(creator, index)`) -/
def St.readWireParents (s : St) (w : Wire) : Option (String × String) :=
  let sp : Option String := if w.spIndex ≥ 0 then (s.byIndex w.creator w.spIndex).map (·.id) else some ""
  let op : Option String := if w.opIndex ≥ 0 then (s.byIndex w.opCreator w.opIndex).map (·.id) else some ""
  match sp, op with
  | some a, some b => some (a, b)
  | _, _ => none

end Babble.HG
