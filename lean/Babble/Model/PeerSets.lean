import Babble.Model.Hashgraph
/-! The validator-set table as built by the commit callback, and its specification `replay`.
    Core Lean only. -/
namespace Babble.HG

/-- a committed block as far as validator sets are concerned: round received and the accepted
    internal transactions (join = true / leave = false, peer) -/
abbrev PBlock := Int × List (Bool × Nat)

/-- what the commit callback does to (table, latest validators) for one block -/
def tableStep (p : List (Int × List Nat) × List Nat) (b : PBlock) : List (Int × List Nat) × List Nat :=
  if b.2.isEmpty then p else
  let v := b.2.foldl applyItx p.2
  let eff := Gen.effectiveRound b.1
  if p.1.any (·.1 == eff) then p else (insertPeerSet p.1 eff v, v)

def buildTable (genesis : List Nat) (bs : List PBlock) : List (Int × List Nat) × List Nat :=
  bs.foldl tableStep ([(0, genesis)], genesis)

/-- the specification: genesis modified, in block order, by exactly the accepted receipts of the
    blocks whose round received + activation delay ≤ r -/
def replay (genesis : List Nat) (bs : List PBlock) (r : Int) : List Nat :=
  (bs.filter (fun b => decide (Gen.effectiveRound b.1 ≤ r))).foldl (fun v b => b.2.foldl applyItx v) genesis

/-- all accepted changes applied (the set `core.validators` holds) -/
def replayAll (genesis : List Nat) (bs : List PBlock) : List Nat :=
  bs.foldl (fun v b => b.2.foldl applyItx v) genesis

end Babble.HG
