import Babble.Model.FastForward
/-! Model of the validator sets a node trusts, over its whole life (`src/node/core.go`: the fields
    `peers`, `genesisPeers`, `validators`).  Only three places write them (checked on every run by
    the writer sets of the source tie, `sources.py:WRITERS["C14"]`): `newCore` (configuration),
    `processAcceptedInternalTransactions` (a consensus receipt: `validators` and `peers` become the
    new set) and `core.fastForward` (after `checkFastForward` accepted the response: both become
    the frame's set).  Everything else a node receives — join responses, sync responses, eager
    pushes, fast-forward responses that are refused — leaves them alone.  Keys are numbers.
    Core Lean only. -/
namespace Babble.Trust
open Babble Babble.FF

structure St where
  peers : List Nat
  genesis : List Nat
  validators : List Nat
  /-- ghost: every key the node has a reason to trust — configured, or put into a validator set by
      consensus, or member of the frame of a response that was accepted -/
  reason : List Nat
deriving Repr

def init (configured genesis : List Nat) : St :=
  { peers := configured, genesis := genesis, validators := genesis, reason := configured ++ genesis }

/-- a fast-forward response as far as trust is concerned: the members of its frame, the members
    whose signature over the block verifies, and the outcome of the other checks -/
structure Resp where
  framePeers : List Nat
  validSigners : List Nat
  structOk : Bool
  peersHashOk : Bool
  frameHashOk : Bool
deriving Repr

def knows (s : St) (k : Nat) : Bool := s.peers.contains k || s.genesis.contains k || s.validators.contains k

/-- the input of `checkFastForward` for this response in this state -/
def ffIn (s : St) (r : Resp) : In :=
  { structOk := r.structOk, peersHashOk := r.peersHashOk, frameHashOk := r.frameHashOk,
    lenPeers := r.framePeers.length, members := r.framePeers.length,
    trusted := (r.validSigners.filter (knows s)).length,
    entries := r.validSigners.map (fun k => ⟨some k, true⟩) }

inductive Op
  /-- an answer to the node's JoinRequest: unauthenticated, from one responder -/
  | joinResponse (accepted : Bool) (acceptedRound : Nat) (claimed : List Nat)
  /-- a block delivered by consensus whose receipts change the validator set -/
  | receipt (newSet : List Nat)
  /-- a fast-forward response from whoever answered -/
  | fastForward (r : Resp)
  /-- any other message (sync, eager sync, requests served) -/
  | other
deriving Repr

def step (s : St) : Op → St
  | .joinResponse _ _ _ => s
  | .receipt ns => { s with peers := ns, validators := ns, reason := s.reason ++ ns }
  | .fastForward r =>
      if accept (ffIn s r) then
        { s with peers := r.framePeers, validators := r.framePeers, reason := s.reason ++ r.framePeers }
      else s
  | .other => s

def run (s : St) (ops : List Op) : St := ops.foldl step s

end Babble.Trust
