import Babble.Generated
/-! Model of `Node.processRPC`'s state gate and of `Node.checkSuspend`, from the regenerated gate
    expression and comparison operators.  Core Lean only. -/
namespace Babble.Rpc
open Babble

inductive Cmd | sync | eagerSync | fastForward | join | unknown
deriving Repr, DecidableEq, Inhabited

def Cmd.isSync : Cmd → Bool
  | .sync => true
  | _ => false

/-- does the command change the node (insert events, queue an internal transaction)? a SyncRequest
    and a FastForwardRequest only read -/
def Cmd.mutating : Cmd → Bool
  | .eagerSync => true
  | .join => true
  | _ => false

inductive Outcome | refused | handled
deriving Repr, DecidableEq, Inhabited

/-- `processRPC`: the gate comes first; a refused command gets the error "Not in Babbling state" and
    nothing else happens -/
def processRPC (st : NodeState) (cmd : Cmd) : Outcome :=
  if Gen.rpcRefused st cmd.isSync then .refused else .handled

/-- `checkSuspend` -/
def suspends (undetermined initial limit validators : Int) (lcr : Option Int) (removed accepted : Int) : Bool :=
  let tooMany := Gen.cmpSuspendUndetermined.eval (undetermined - initial) (limit * validators)
  let evicted := match lcr with
    | none => false
    | some l => Gen.cmpEvictedRemovedPositive.eval removed 0 && Gen.cmpEvictedAfterAccepted.eval removed accepted &&
                Gen.cmpEvictedReached.eval l removed
  Gen.suspendShape && (tooMany || evicted)

end Babble.Rpc
