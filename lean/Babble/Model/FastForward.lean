import Babble.Generated
/-! Model of the acceptance decision of a fast-forward response: `core.checkFastForward`
    (`checkFastForwardInput`, `Hashgraph.CheckBlock`, frame-hash comparison, `checkTrustedSigner`),
    with the order of the checks, the threshold and the comparison operator taken from `Babble.Gen`.
    Hash equalities and signature validity are input bits computed by the real code.  Core Lean only. -/
namespace Babble.FF
open Babble

/-- one entry of the block's signature map after decoding its key: the member of the frame's peer
    set it names (if any) and whether the signature verifies against the block body -/
structure Entry where
  signer : Option Nat
  verifies : Bool
deriving Repr

structure In where
  structOk : Bool        -- no null / truncated element
  peersHashOk : Bool     -- hash(frame.Peers) = block.PeersHash
  frameHashOk : Bool     -- hash(frame) = block.FrameHash
  lenPeers : Nat         -- len(frame.Peers)
  members : Nat          -- distinct keys of frame.Peers
  trusted : Nat          -- distinct verifying signers that belong to a peer-set the node already knows
  entries : List Entry
deriving Repr

def insertNew (acc : List Nat) (x : Nat) : List Nat := if acc.contains x then acc else acc ++ [x]

/-- the distinct members with a verifying signature, as `CheckBlock` counts them (each validator once) -/
def validSigners (es : List Entry) : List Nat :=
  es.foldl (fun acc e => match e.signer, e.verifies with
    | some m, true => insertNew acc m
    | _, _ => acc) []

/-- `Hashgraph.CheckBlock` -/
def checkBlock (i : In) : Bool :=
  i.peersHashOk && !(Gen.cmpCheckBlockReject.evalN (validSigners i.entries).length (Gen.trustCount i.lenPeers i.members))

def stepOk (i : In) : FFStep → Bool
  | .structure => i.structOk
  | .checkBlock => checkBlock i
  | .frameHashCompare => i.frameHashOk
  | .trustedSigner => decide (0 < i.trusted)
  | _ => true

/-- `core.checkFastForward`: the checks in source order, all must pass -/
def accept (i : In) : Bool := Gen.coreCheckSteps.all (stepOk i)

end Babble.FF
