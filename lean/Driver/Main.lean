import Babble.Model.Quorum
import Babble.Model.Median
import Driver.HGEngine
import Driver.ContEngine
import Driver.DecEngine
import Driver.FFEngine
import Driver.RpcEngine
import Driver.SPEngine
import Driver.PTEngine
import Driver.PXEngine
import Driver.COEngine
import Driver.TREngine
/-! Line-protocol driver: one operation per input line; for every line the driver prints the
    model's observations (lines starting with `O `) followed by a line containing a single `.`.
    Core Lean only (linked as an executable). -/
open Babble

structure DState where
  ps : Quorum.PeerList := []
  hg : HGState := {}
  cont : ContState := {}
  tr : Babble.Trust.St := { peers := [], genesis := [], validators := [], reason := [] }

instance : Inhabited DState := ⟨{}⟩

def parseInt? (s : String) : Option Int := s.toInt?

def stepLine (st : DState) (toks : List String) : DState × List String :=
  match toks with
  | ["CASE"] => ({}, [])
  | "HG" :: rest => let (h, obs) := hgStep st.hg rest
                    ({ st with hg := h }, obs)
  | "DEC" :: rest => (st, decStep rest)
  | "FF" :: rest => (st, ffStep rest)
  | "RPC" :: rest => (st, rpcStep rest)
  | "SP" :: rest => (st, spStep rest)
  | "PT" :: rest => (st, ptStep rest)
  | "PX" :: rest => (st, pxStep rest)
  | "CO" :: rest => (st, coStep rest)
  | "TR" :: rest => let (t, obs) := trStep st.tr rest
                    ({ st with tr := t }, obs)
  | "RI" :: rest => let (c, obs) := riStep st.cont rest
                    ({ st with cont := c }, obs)
  | "LRU" :: rest => let (c, obs) := lruStepD st.cont rest
                     ({ st with cont := c }, obs)
  | ["Q", a, b] =>
    match a.toNat?, b.toNat? with
    | some lp, some lk => (st, [s!"O {Gen.superMajority lk} {Gen.trustCount lp lk}"])
    | _, _ => (st, ["O bad-op"])
  | ["PS", "new"] => ({ st with ps := [] }, [])
  | ["PS", "add", k] =>
    match k.toNat? with
    | some p => let ps := Quorum.withNewPeer st.ps p
                ({ st with ps := ps }, [s!"O {ps}"])
    | none => (st, ["O bad-op"])
  | ["PS", "rm", k] =>
    match k.toNat? with
    | some p => let ps := Quorum.withRemovedPeer st.ps p
                ({ st with ps := ps }, [s!"O {ps}"])
    | none => (st, ["O bad-op"])
  | ["PS", "len"] => (st, [s!"O {Quorum.len st.ps} {Quorum.superMajority st.ps} {Quorum.trustCount st.ps}"])
  | "MED" :: vals =>
    match vals.mapM parseInt? with
    | some l => (st, [s!"O {Median.median64 l}"])
    | none => (st, ["O bad-op"])
  | _ => (st, ["O bad-op"])

partial def loop (h : IO.FS.Stream) (out : IO.FS.Stream) (st : DState) : IO Unit := do
  let line ← h.getLine
  if line.isEmpty then return ()
  let toks := (line.trimAscii.toString.splitOn " ").filter (· ≠ "")
  let (st', obs) := stepLine st toks
  for o in obs do out.putStrLn o
  out.putStrLn "."
  loop h out st'

def main : IO Unit := do
  let out ← IO.getStdout
  loop (← IO.getStdin) out {}
  out.flush
