import Babble.Model.Trust
open Babble Babble.Trust

/-- `TR init <configured> <genesis>` | `TR join <0|1> <round> <claimed>` | `TR receipt <set>` |
    `TR ff <framePeers> <validSigners> <structOk> <peersHashOk> <frameHashOk>` | `TR other`;
    lists are comma separated numbers or `-`; every op answers with the three sets -/
def trList (s : String) : List Nat := if s == "-" then [] else (s.splitOn ",").filterMap String.toNat?

def trShow (l : List Nat) : String := if l.isEmpty then "-" else ",".intercalate (l.map toString)

def trObs (s : St) : String := s!"O sets peers={trShow s.peers} genesis={trShow s.genesis} validators={trShow s.validators}"

def trStep (st : St) (toks : List String) : St × List String :=
  match toks with
  | ["init", c, g] => let s := init (trList c) (trList g); (s, [trObs s])
  | ["join", a, r, cl] => let s := step st (.joinResponse (a == "1") r.toNat! (trList cl)); (s, [trObs s])
  | ["receipt", ns] => let s := step st (.receipt (trList ns)); (s, [trObs s])
  | ["ff", fp, vs, a, b, c] =>
    let r : Resp := { framePeers := trList fp, validSigners := trList vs, structOk := a == "1", peersHashOk := b == "1", frameHashOk := c == "1" }
    let acc := Babble.FF.accept (ffIn st r)
    let s := step st (.fastForward r)
    (s, [s!"O {if acc then "acc" else "rej"}", trObs s])
  | ["other"] => (st, [trObs st])
  | _ => (st, ["O bad-op"])
