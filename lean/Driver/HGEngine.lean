import Babble.Model.Codec
import Babble.Model.Dag
import Std.Data.HashMap
/-! Line-protocol engine for the hashgraph model (`HG ...` operations). Core Lean only. -/
open Babble Babble.HG

structure HGState where
  evs : Std.HashMap String Ev := {}
  nodes : Std.HashMap Nat St := {}
  shown : Std.HashMap Nat Nat := {}     -- number of blocks already printed per node

instance : Inhabited HGState := ⟨{}⟩

def nameNum (s : String) : Nat := (s.drop 1).toString.toNat?.getD 0
def dash (s : String) : String := if s == "-" then "" else s
def undash (s : String) : String := if s == "" then "-" else s
def fmtOpt (o : Option Int) : String := match o with | some v => toString v | none => "-"
def fmtList (l : List String) : String := if l.isEmpty then "-" else ",".intercalate l
def fmtItx (l : List (Bool × Nat)) : String := fmtList (l.map (fun p => (if p.1 then "+" else "-") ++ toString p.2))
def parseNats (s : String) : List Nat := if s == "-" then [] else (s.splitOn ",").filterMap (·.toNat?)
def parseItx (s : String) : List (Bool × Nat) :=
  if s == "-" then [] else (s.splitOn ",").map (fun t => (t.startsWith "+", (t.drop 1).toString.toNat?.getD 0))

def fmtBlock (b : Block) : String :=
  s!"O block {b.index} {b.rr} {b.ts} txs={fmtList (b.txs.map toString)} itx={fmtItx b.itx} events={fmtList b.events} peers={fmtList (b.peers.map toString)}"

def fmtFrameEv (fe : FrameEv) : String := s!"{fe.id}/{fe.round}/{fe.lamport}/{if fe.witness then 1 else 0}"
def fmtPeerSets (t : List (Int × List Nat)) : String :=
  ";".intercalate (t.map (fun p => s!"{p.1}:[{",".intercalate (p.2.map toString)}]"))
def fmtFrame (fr : Frame) : String :=
  let roots := fr.roots.toArray.qsort (fun a b => a.1 < b.1) |>.toList
  let rs := roots.map (fun r => s!"{r.1}:[{" ".intercalate (r.2.map fmtFrameEv)}]")
  s!"O frame {fr.round} ts={fr.ts} peers={fmtList (fr.peers.map toString)} events={fmtList (fr.events.map fmtFrameEv)} roots={";".intercalate rs} peersets={fmtPeerSets fr.peerSets}"

def newBlocks (h : HGState) (n : Nat) (s : St) : HGState × List String :=
  let k := (h.shown.get? n).getD 0
  let fresh := s.blocks.drop k
  ({ h with shown := h.shown.insert n s.blocks.length }, fresh.map fmtBlock)

def witFlag (s : St) (e : Ev) : String :=
  match e.round with
  | none => "-"
  | some r => match (s.getRound r).bind (fun ri => ri.created.find? (·.id == e.id)) with
    | some re => if re.witness then "1" else "0"
    | none => "?"

/-- compare the operational state of a node (static validator set, passes after every insertion)
    with the declarative model `Babble.Dag`: round and witness flag of every event, fame of every
    witness -/
def dagCheck (s : St) : String :=
  let psAt : Int → List Nat := fun r => s.peersAt r
  let num (id : String) : Nat := if id == "" then 0 else nameNum id + 1
  let nodes : List Dag.Node := s.events.reverse.map (fun e =>
    { id := num e.id, creator := e.creator, sp := num e.sp, op := num e.op, mid := e.mid })
  let tbl := Dag.buildD psAt nodes
  let view : List Dag.Rec := tbl.filterMap (fun p => p.2.head?)
  let decidedFn (i : Int) : Bool := ((s.getRound i).map (·.decided)).getD false
  let bad := s.events.filterMap (fun e =>
    match view.find? (fun r => r.e.id == num e.id) with
    | none => some s!"{e.id}:missing"
    | some r =>
      if e.round != some r.round then some s!"{e.id}:round {fmtOpt e.round} spec {r.round}" else
      if e.lamport != some r.lamport then some s!"{e.id}:lamport {fmtOpt e.lamport} spec {r.lamport}" else
      let rrSpec := Dag.rrFromD psAt decidedFn view r (s.lastRound - r.round + 2).toNat (r.round + 1) s.lastRound
      if e.rr != rrSpec then some s!"{e.id}:round-received {fmtOpt e.rr} spec {fmtOpt rrSpec}" else
      let w := witFlag s e
      if w != (if r.wit then "1" else "0") then some s!"{e.id}:witness {w} spec {r.wit}" else
      if !r.wit then none else
      let ri := (s.getRound r.round).getD {}
      let fm := ((ri.created.find? (·.id == e.id)).map (·.fame)).getD .undef
      let fi := Dag.fameInD psAt view r
      if fi.2 then some s!"{e.id}:two deciders of the lowest deciding round disagree" else
      match fi.1, fm with
      | some true, .yes => none
      | some false, .no => none
      | none, .undef => none
      | some false, .undef => if ri.decided then none else some s!"{e.id}:fame undecided spec false (round not latched)"
      | sf, f => some s!"{e.id}:fame {repr f} spec {sf}")
  let nw := (view.filter (·.wit)).length
  let nf := (view.filter (fun r => r.wit && (Dag.fameInD psAt view r).1 == some true)).length
  if bad.isEmpty then s!"O dag ok ev={view.length} wit={nw} famous={nf}"
  else s!"O dag MISMATCH {bad.length}: {" | ".intercalate (bad.take 5)}"

def hgStep (h : HGState) (toks : List String) : HGState × List String :=
  match toks with
  | ["new", n, ps] =>
    match n.toNat? with
    | some n => ({ h with nodes := h.nodes.insert n (St.init (parseNats ps)), shown := h.shown.insert n 0 }, [])
    | none => (h, ["O bad-op"])
  | ["ev", id, cr, idx, sp, op, ts, key, mid, txs, itx, sigok] =>
    match cr.toNat?, idx.toInt?, ts.toInt?, key.toNat? with
    | some cr, some idx, some ts, some key =>
      let e : Ev := { id := id, creator := cr, index := idx, sp := dash sp, op := dash op, ts := ts, key := key,
                      mid := mid == "1", txs := parseNats txs, itx := parseItx itx, sigok := sigok == "1" }
      ({ h with evs := h.evs.insert id e }, [])
    | _, _, _, _ => (h, ["O bad-op"])
  | ["run", n, id] =>
    match n.toNat?.bind (h.nodes.get? ·), h.evs.get? id with
    | some s, some e =>
      let n := n.toNat!
      let (s', rej) := s.insertAndRun e
      let h := { h with nodes := h.nodes.insert n s' }
      match rej with
      | some r => (h, [s!"O rej {r.toString}"])
      | none => let (h, bl) := newBlocks h n s'
                (h, "O acc" :: s!"O pl {s'.pendingLoaded}" :: bl)
    | _, _ => (h, ["O bad-op"])
  | ["ins", n, id] =>
    match n.toNat?.bind (h.nodes.get? ·), h.evs.get? id with
    | some s, some e =>
      match s.admission e with
      | some r => (h, [s!"O rej {r.toString}"])
      | none => ({ h with nodes := h.nodes.insert n.toNat! (s.insert e) }, ["O acc"])
    | _, _ => (h, ["O bad-op"])
  | ["pass", n] =>
    match n.toNat?.bind (h.nodes.get? ·) with
    | some s =>
      let s' := s.runConsensus
      let h := { h with nodes := h.nodes.insert n.toNat! s' }
      let (h, bl) := newBlocks h n.toNat! s'
      (h, bl)
    | none => (h, ["O bad-op"])
  | ["reset", n, src, k] =>
    match n.toNat?, src.toNat?.bind (h.nodes.get? ·), k.toInt? with
    | some n, some a, some k =>
      match a.blocks.find? (·.index == k) with
      | none => (h, ["O reset err"])
      | some blk =>
        match a.frames.find? (·.round == blk.rr) with
        | none => (h, ["O reset err"])
        | some fr =>
          let s := resetFrom blk fr (fun id => h.evs.get? id)
          ({ h with nodes := h.nodes.insert n s, shown := h.shown.insert n 1 }, ["O reset ok"])
    | _, _, _ => (h, ["O bad-op"])
  | ["wire", a, b, id] =>
    match a.toNat?.bind (h.nodes.get? ·), b.toNat?.bind (h.nodes.get? ·) with
    | some sa, some sb =>
      match sa.get id with
      | none => (h, ["O wire unknown-event"])
      | some e =>
        match sa.toWire e with
        | none => (h, ["O wire no-wire-info"])
        | some w =>
          let back := match sb.readWireParents w with
            | some (x, y) => s!"sp={undash x} op={undash y}"
            | none => "unreadable"
          (h, [s!"O wire {w.creator} {w.index} {w.spIndex} {if w.opIndex < 0 then 0 else w.opCreator} {w.opIndex} {back}"])
    | _, _ => (h, ["O bad-op"])
  | ["dump", n, what] =>
    match n.toNat?.bind (h.nodes.get? ·) with
    | none => (h, ["O bad-op"])
    | some s =>
      match what with
      | "ev" =>
        let evs := s.events.toArray.qsort (fun a b => nameNum a.id < nameNum b.id) |>.toList
        (h, evs.map (fun e => s!"O ev {e.id} {fmtOpt e.round} {witFlag s e} {fmtOpt e.lamport} {fmtOpt e.rr}"))
      | "rounds" =>
        let rs := s.rounds.toArray.qsort (fun a b => a.1 < b.1) |>.toList
        (h, rs.map (fun (r, ri) =>
          let ws := (ri.created.filter (·.witness)).toArray.qsort (fun a b => nameNum a.id < nameNum b.id) |>.toList
          let wss := ws.map (fun w => s!"{w.id}:{match w.fame with | .undef => 0 | .yes => 1 | .no => 2}")
          s!"O round {r} {if ri.decided then 1 else 0} created={ri.created.length} received={ri.received.length} {fmtList wss}"))
      | "frames" => (h, s.frames.map fmtFrame)
      | "blocks" => (h, s.blocks.map fmtBlock)
      | "peersets" => (h, [s!"O peersets {fmtPeerSets s.peerSets} validators={fmtList (s.validators.map toString)} repertoire={fmtList ((s.repertoire.toArray.qsort (· < ·)).toList.map toString)}"])
      | "last" =>
        let pend := s.pending.map (fun p => s!"{p.1}:{if p.2 then 1 else 0}")
        (h, [s!"O last lastRound={s.lastRound} lcr={fmtOpt s.lcr} undet={s.undet.length} pending={fmtList pend} lastBlock={s.lastBlock}"])
      | _ => (h, ["O bad-op"])
  | ["dagdbg", n, id] =>
    match n.toNat?.bind (h.nodes.get? ·) with
    | none => (h, ["O bad-op"])
    | some s =>
      let psAt : Int → List Nat := fun r => s.peersAt r
      let num (id : String) : Nat := if id == "" then 0 else nameNum id + 1
      let nodes : List Dag.Node := s.events.reverse.map (fun e =>
        { id := num e.id, creator := e.creator, sp := num e.sp, op := num e.op, mid := e.mid })
      let view : List Dag.Rec := (Dag.buildD psAt nodes).filterMap (fun p => p.2.head?)
      match view.find? (fun r => r.e.id == num id) with
      | none => (h, ["O dbg none"])
      | some x =>
        let ds := view.filterMap (fun y => (Dag.decideRecD psAt y x).map (fun b => s!"e{y.e.id - 1}/r{y.round}/c{y.e.creator}:{b}/anc{y.ancs.contains x.e.id}/nssw{y.nssw}/ps{(psAt y.round).length}"))
        let vs := (view.filter (fun y => y.wit && y.round ≤ x.round + 4 && y.round > x.round)).map (fun y => s!"e{y.e.id - 1}/r{y.round}/c{y.e.creator}:{Dag.voteGet y.votes x.e.id}/anc{y.ancs.contains x.e.id}/nssw{y.nssw}")
        (h, [s!"O dbg x=e{x.e.id - 1} round={x.round} wit={x.wit} deciders={ds}", s!"O dbg votes={vs}"])
  | ["dag", n] =>
    match n.toNat?.bind (h.nodes.get? ·) with
    | none => (h, ["O bad-op"])
    | some s => (h, [dagCheck s])
  | _ => (h, ["O bad-op"])
