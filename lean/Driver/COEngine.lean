import Babble.Model.Core
open Babble.Core

def coFmt (l : List Nat) : String := if l.isEmpty then "-" else ",".intercalate (l.map toString)

/-- `CO ops <submit:3;ok:;fail;ok:7.8>` → pool and payloads -/
def coStep (toks : List String) : List String :=
  match toks with
  | ["ops", s] =>
    let ops : List Op := if s == "-" then [] else (s.splitOn ";").filterMap (fun t => match t.splitOn ":" with
      | ["submit", x] => x.toNat?.map Op.submit
      | ["ok", x] => some (Op.selfEventOk (if x == "" then [] else (x.splitOn ".").filterMap (·.toNat?)))
      | ["fail"] => some Op.selfEventFail
      | _ => none)
    let st := run ops
    [s!"O pool={coFmt st.pool} placed={if st.placed.isEmpty then "-" else ";".intercalate (st.placed.map coFmt)}"]
  | _ => ["O bad-op"]
