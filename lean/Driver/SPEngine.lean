import Babble.Model.SigPool
open Babble.SigPool

def spKv (t : String) : String := ((t.splitOn "=").drop 1 |>.headD "")
def spNats (s : String) : List Nat := if s == "-" || s == "" then [] else (s.splitOn ",").filterMap (·.toNat?)
def sortNat (l : List Nat) : List Nat := (l.toArray.qsort (· < ·)).toList
def fmtN (l : List Nat) : String := if l.isEmpty then "-" else ",".intercalate (l.map toString)

/-- `SP step peers=<rr:a.b.c;..> blocks=<index/rr:a.b;..> anchor=<a|-> pool=<v:i:wf:valid,..>` -/
def spStep (toks : List String) : List String :=
  match toks with
  | ["step", ps, bs, an, pl] =>
    let tbl : List (Int × List Nat) := if spKv ps == "-" then [] else
      ((spKv ps).splitOn ";").filterMap (fun e => match e.splitOn ":" with
        | [r, l] => r.toInt?.map (fun r => (r, if l == "" then [] else (l.splitOn ".").filterMap (·.toNat?)))
        | _ => none)
    let blocks : List SBlock := if spKv bs == "-" then [] else
      ((spKv bs).splitOn ";").filterMap (fun e => match e.splitOn ":" with
        | [h, l] => match h.splitOn "/" with
          | [i, r] => match i.toInt?, r.toInt? with
            | some i, some r => some { index := i, rr := r, sigs := if l == "" then [] else (l.splitOn ".").filterMap (·.toNat?) }
            | _, _ => none
          | _ => none
        | _ => none)
    let pool : List Sig := if spKv pl == "-" then [] else
      ((spKv pl).splitOn ",").filterMap (fun e => match e.splitOn ":" with
        | [v, i, w, x] => match v.toNat?, i.toInt? with
          | some v, some i => some { validator := v, index := i, wellFormed := w == "1", valid := x == "1" }
          | _, _ => none
        | _ => none)
    let s : SP := { blocks := blocks, pool := pool, anchor := (spKv an).toInt?,
                    peersAt := fun r => ((tbl.find? (·.1 == r)).map (·.2)).getD [], hasPeers := true }
    let s' := s.processPool
    let bl := s'.blocks.map (fun b => s!"{b.index}/{b.rr}:{".".intercalate ((sortNat b.sigs).map toString)}")
    let rest := (s'.pool.map (fun g => s!"{g.validator}:{g.index}")).toArray.qsort (· < ·) |>.toList
    [s!"O anchor={match s'.anchor with | some a => toString a | none => "-"} blocks={if bl.isEmpty then "-" else ";".intercalate bl} pool={if rest.isEmpty then "-" else ",".intercalate rest}"]
  | _ => ["O bad-op"]
