import Babble.Model.PeerSets
open Babble.HG

def ptKv (t : String) : String := ((t.splitOn "=").drop 1 |>.headD "")
def ptNats (s : String) : List Nat := if s == "-" || s == "" then [] else (s.splitOn ".").filterMap (·.toNat?)

/-- `PT lookup genesis=0.1.2 blocks=<rr:+3.-1;rr:;..> rounds=<r1,r2>` -/
def ptStep (toks : List String) : List String :=
  match toks with
  | ["lookup", g, bs, rs] =>
    let genesis := ptNats (ptKv g)
    let blocks : List PBlock := if ptKv bs == "-" then [] else
      ((ptKv bs).splitOn ";").filterMap (fun e => match e.splitOn ":" with
        | [r, l] => r.toInt?.map (fun r => (r, if l == "" then [] else (l.splitOn ".").map (fun t => (t.startsWith "+", (t.drop 1).toString.toNat?.getD 0))))
        | _ => none)
    let t := buildTable genesis blocks
    let rounds := if ptKv rs == "-" then [] else ((ptKv rs).splitOn ",").filterMap (·.toInt?)
    let out := rounds.map (fun r => s!"{r}:{".".intercalate ((peersAtTbl t.1 r).map toString)}")
    let spec := rounds.map (fun r => s!"{r}:{".".intercalate ((replay genesis blocks r).map toString)}")
    [s!"O {";".intercalate out} validators={".".intercalate (t.2.map toString)}", s!"O spec {";".intercalate spec}"]
  | _ => ["O bad-op"]
