import Babble.Model.Containers
/-! Line-protocol engine for the container models (`RI ...`, `LRU ...`). Core Lean only. -/
open Babble.Containers

structure ContState where
  ri : RI Nat := RI.new 0
  lru : LRU Nat Nat := LRU.new 0

instance : Inhabited ContState := ⟨{}⟩

def fmtNats (l : List Nat) : String := if l.isEmpty then "-" else ",".intercalate (l.map toString)

def riStep (c : ContState) (toks : List String) : ContState × List String :=
  match toks with
  | ["new", n] => match n.toNat? with
    | some n => ({ c with ri := RI.new n }, [])
    | none => (c, ["O bad-op"])
  | ["set", item, idx] => match item.toNat?, idx.toInt? with
    | some item, some idx =>
      match c.ri.set item idx with
      | .ok r => ({ c with ri := r }, ["O ok"])
      | .error e => (c, [s!"O err:{e.toString}"])
    | _, _ => (c, ["O bad-op"])
  | ["get", skip] => match skip.toInt? with
    | some skip => match c.ri.get skip with
      | .ok l => (c, [s!"O ok {fmtNats l}"])
      | .error e => (c, [s!"O err:{e.toString}"])
    | none => (c, ["O bad-op"])
  | ["item", idx] => match idx.toInt? with
    | some idx => match c.ri.getItem idx with
      | .ok x => (c, [s!"O ok {x}"])
      | .error e => (c, [s!"O err:{e.toString}"])
    | none => (c, ["O bad-op"])
  | ["window"] => (c, [s!"O {fmtNats c.ri.items} {c.ri.lastIndex}"])
  | _ => (c, ["O bad-op"])

def lruStepD (c : ContState) (toks : List String) : ContState × List String :=
  match toks with
  | ["new", n] => match n.toNat? with
    | some n => ({ c with lru := LRU.new n }, [])
    | none => (c, ["O bad-op"])
  | ["add", k, v] => match k.toNat?, v.toNat? with
    | some k, some v => let (l, ev) := c.lru.add k v
                        ({ c with lru := l }, [s!"O {if ev then 1 else 0}"])
    | _, _ => (c, ["O bad-op"])
  | ["get", k] => match k.toNat? with
    | some k => let (l, r) := c.lru.get k
                ({ c with lru := l }, [s!"O {match r with | some v => toString v | none => "-"}"])
    | none => (c, ["O bad-op"])
  | ["peek", k] => match k.toNat? with
    | some k => (c, [s!"O {match c.lru.peek k with | some v => toString v | none => "-"}"])
    | none => (c, ["O bad-op"])
  | ["contains", k] => match k.toNat? with
    | some k => (c, [s!"O {if c.lru.contains k then 1 else 0}"])
    | none => (c, ["O bad-op"])
  | ["remove", k] => match k.toNat? with
    | some k => let (l, r) := c.lru.remove k
                ({ c with lru := l }, [s!"O {if r then 1 else 0}"])
    | none => (c, ["O bad-op"])
  | ["rmoldest"] => let (l, r) := c.lru.removeOldest
                    ({ c with lru := l }, [s!"O {match r with | some p => s!"{p.1}:{p.2}" | none => "-"}"])
  | ["keys"] => (c, [s!"O {fmtNats c.lru.keys} {c.lru.len}"])
  | _ => (c, ["O bad-op"])
