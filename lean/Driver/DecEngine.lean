import Babble.Model.Decode
import Babble.Model.ByteCodec
/-! Line-protocol engine for the decode-layer model (`DEC ...`). Strings arrive percent-escaped. -/
open Babble.Decode

def hexVal (c : Char) : Nat :=
  if c.isDigit then c.toNat - 48 else if 'A' ≤ c ∧ c ≤ 'F' then c.toNat - 55 else if 'a' ≤ c ∧ c ≤ 'f' then c.toNat - 87 else 0

/-- undo the harness's escaping: `%` alone = empty string, `%XX` = byte -/
def unesc (s : String) : Bytes :=
  if s == "%" then [] else
  let rec go : List Char → Bytes
    | '%' :: a :: b :: r => (hexVal a * 16 + hexVal b) :: go r
    | c :: r => c.toNat :: go r
    | [] => []
  go s.toList

def parseSigIn (k oc sg v : String) : SigIn := { keyHex := unesc k, onCurve := oc == "1", sig := unesc sg, valid := v == "1" }

def hexLow (n : Nat) : Char := if n < 10 then Char.ofNat (48 + n) else Char.ofNat (87 + n)
/-- bytes as lower-case hexadecimal (`-` for the empty string) -/
def showBytes (bs : List Nat) : String :=
  if bs.isEmpty then "-" else String.ofList (bs.flatMap (fun b => [hexLow (b / 16), hexLow (b % 16)]))
def showAscii (bs : List Nat) : String := String.ofList (bs.map Char.ofNat)

def decStep (toks : List String) : List String :=
  match toks with
  | ["hexenc", s] => [s!"O {showAscii (Babble.ByteCodec.encodeToString (unesc s))}"]
  | ["hexdec", s] => match Babble.ByteCodec.decodeFromString (unesc s) with
    | some bs => [s!"O ok {showBytes bs}"]
    | none => ["O err"]
  | ["sigenc", r, s] => match r.toNat?, s.toNat? with
    | some r, some s => [s!"O {showAscii (Babble.ByteCodec.encodeSignature r s)}"]
    | _, _ => ["O bad-op"]
  | ["sigdec", s] => match Babble.ByteCodec.decodeSignature (unesc s) with
    | some (r, s) => [s!"O ok {r} {s}"]
    | none => ["O err"]
  | ["hex", s] => match decodeFromString (unesc s) with
    | .ok n => [s!"O ok {n}"]
    | o => [s!"O {o.cls}"]
  | ["sig", s] => [s!"O {(decodeSignature (unesc s)).cls}"]
  | ["itx", k, oc, sg, v] => match verifyItx (parseSigIn k oc sg v) with
    | .ok b => [s!"O ok {if b then 1 else 0}"]
    | o => [s!"O {o.cls}"]
  | "event" :: cb :: oc :: sg :: v :: itxs =>
    let rec grp : List String → List SigIn
      | k :: o :: s :: w :: r => parseSigIn k o s w :: grp r
      | _ => []
    match verifyEvent (grp itxs) cb.toNat! (oc == "1") (unesc sg) (v == "1") with
    | .ok b => [s!"O ok {if b then 1 else 0}"]
    | o => [s!"O {o.cls}"]
  | ["limit", d, r, c] => match d.toNat?, r.toInt?, c.toInt? with
    | some d, some r, some c => match syncSlice d r c with
      | .ok n => [s!"O ok {n}"]
      | o => [s!"O {o.cls}"]
    | _, _, _ => ["O bad-op"]
  | _ => ["O bad-op"]
