import Babble.Model.Proxy
open Babble Babble.Proxy

def pxStep (toks : List String) : List String :=
  match toks with
  | ["call", atts] =>
    let l : List (Attempt Nat) := (atts.splitOn ",").map (fun a => if a == "ok" then .ok 1 else if a == "connFail" then .connFail else .callFail)
    let out := match call Gen.appProxyRetries l with | .error => "error" | .success _ => "success"
    let refused := l.all (fun a => match a with | .connFail => true | _ => false)
    let made : Int := if refused then -1 else attemptsMade Gen.appProxyRetries l
    [s!"O {out} attempts={made}"]
  | _ => ["O bad-op"]
