import Babble.Model.Rpc
open Babble Babble.Rpc

def parseState : String → Option NodeState
  | "Babbling" => some .babbling | "CatchingUp" => some .catchingUp | "Joining" => some .joining
  | "Leaving" => some .leaving | "Shutdown" => some .shutdown | "Suspended" => some .suspended
  | _ => none

def parseCmd : String → Cmd
  | "sync" => .sync | "eager" => .eagerSync | "ff" => .fastForward | "join" => .join | _ => .unknown

def rpcStep (toks : List String) : List String :=
  match toks with
  | ["gate", st, cmd] => match parseState st with
    | some s => [s!"O {match processRPC s (parseCmd cmd) with | .refused => "refused" | .handled => "handled"}"]
    | none => ["O bad-op"]
  | ["suspend", u, i, l, v, lcr, rem, acc] =>
    match u.toInt?, i.toInt?, l.toInt?, v.toInt?, rem.toInt?, acc.toInt? with
    | some u, some i, some l, some v, some rem, some acc =>
      [s!"O {if suspends u i l v (if lcr == "-" then none else lcr.toInt?) rem acc then 1 else 0}"]
    | _, _, _, _, _, _ => ["O bad-op"]
  | _ => ["O bad-op"]
