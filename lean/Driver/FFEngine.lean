import Babble.Model.FastForward
open Babble.FF

def kvVal (t : String) : String := ((t.splitOn "=").drop 1 |>.headD "")

def ffStep (toks : List String) : List String :=
  match toks with
  | ["core", s, ph, fh, lp, mem, tr, es] =>
    let entries : List Entry := if kvVal es == "-" then [] else
      ((kvVal es).splitOn ",").map (fun e => match e.splitOn ":" with
        | [a, b] => { signer := a.toNat?, verifies := b == "1" }
        | _ => { signer := none, verifies := false })
    let i : In := { structOk := kvVal s == "1", peersHashOk := kvVal ph == "1", frameHashOk := kvVal fh == "1",
                    lenPeers := (kvVal lp).toNat!, members := (kvVal mem).toNat!, trusted := (kvVal tr).toNat!, entries := entries }
    [s!"O {if accept i then "acc" else "rej"}"]
  | _ => ["O bad-op"]
