-- Root of the `Babble` library: every property file (which pulls in models and proofs).
import Babble.Props.C01
import Babble.Props.C02
import Babble.Props.C03
import Babble.Props.C04
import Babble.Props.C07
import Babble.Props.C08
import Babble.Props.C09
import Babble.Props.C10
import Babble.Props.C12
import Babble.Props.C13
import Babble.Props.C14
import Babble.Props.C15
import Babble.Props.C16
import Babble.Props.C17
import Babble.Props.C18
import Babble.Props.C19
import Babble.Props.C20
