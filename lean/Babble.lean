-- Root of the `Babble` library: every property file (which pulls in models and proofs).
import Babble.Props.C18
import Babble.Props.C19
