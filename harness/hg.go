package main

// Hashgraph-level machinery shared by C01-C04, C13, C18: gossip-DAG generator
// (G1), real Hashgraph nodes fed in different orders, observation printers that
// mirror the Lean driver's, and the property oracles on the Go side.

import (
	"bytes"
	"encoding/json"
	"fmt"
	"io"
	"math"
	"math/rand"
	"os"
	"path/filepath"
	"sort"
	"strconv"
	"strings"

	"github.com/mosaicnetworks/babble/src/common"
	"github.com/mosaicnetworks/babble/src/crypto/keys"
	hg "github.com/mosaicnetworks/babble/src/hashgraph"
	"github.com/mosaicnetworks/babble/src/peers"
	"github.com/sirupsen/logrus"
)

func quiet() *logrus.Entry { l := logrus.New(); l.Out = io.Discard; return logrus.NewEntry(l) }

type gEvent struct {
	name    string
	num     int
	ev      *hg.Event // master copy, never inserted anywhere
	creator int
	sp, op  *gEvent
	txs     []int
	itx     []string
	defLine string
}

type dag struct {
	parts                                      []*participant
	idx                                        map[string]int // pubkey string -> creator number
	n0                                         int
	events                                     []*gEvent // creation order (topological)
	byHex                                      map[string]*gEvent
	txSeq                                      int
	txBody                                     map[int][]byte
	maxElection, coinSteps                     int // longest election (rounds) seen by the reference node; steps with an election in or past its coin round
	oldRoundEvents, lateWitnesses              int // events / witnesses created into a round the reference node had already processed
	outOfOrderSteps, witnessIntoWaitingDecided int
	guidedLateWitnesses                        int
}

// noteElection: coverage of elections that reach a coin round (a round still undecided four or
// more rounds later).
func (d *dag) noteElection(ref *hnode) {
	for _, pr := range ref.h.PendingRounds.GetOrderedPendingRounds() {
		if !pr.Decided {
			gap := ref.store.LastRound() - pr.Index
			if gap > d.maxElection {
				d.maxElection = gap
			}
			if gap >= 4 {
				d.coinSteps++
			}
			break
		}
	}
}

func newDag(rng *rand.Rand, n0, extra int) *dag {
	// (coverage counters oldRoundEvents / lateWitnesses are filled by generate)
	d := &dag{parts: newParticipants(rng, n0+extra), idx: map[string]int{}, n0: n0, byHex: map[string]*gEvent{}, txBody: map[int][]byte{}}
	for i, p := range d.parts {
		d.idx[p.hex] = i
	}
	return d
}

func (d *dag) genesis() []*peers.Peer {
	g := []*peers.Peer{}
	for i := 0; i < d.n0; i++ {
		g = append(g, d.parts[i].peer)
	}
	return g
}

func (d *dag) nameOf(hex string) string {
	if hex == "" {
		return "-"
	}
	if e, ok := d.byHex[hex]; ok {
		return e.name
	}
	return "?" + hex[:8]
}

func listOrDash(l []string) string {
	if len(l) == 0 {
		return "-"
	}
	return strings.Join(l, ",")
}

func intsOrDash(l []int) string {
	s := []string{}
	for _, x := range l {
		s = append(s, strconv.Itoa(x))
	}
	return listOrDash(s)
}

// newEvent creates and signs an event; the definition line for the driver
// carries everything the model needs (sort key, middle bit, signature bit).
func (d *dag) newEvent(rng *rand.Rand, creator int, sp, op *gEvent, ntx int, itxs []hg.InternalTransaction, itxDesc []string, ts int64, txKind int) *gEvent {
	c := d.parts[creator]
	spHex, opHex, index := "", "", 0
	if sp != nil {
		spHex = sp.ev.Hex()
		index = sp.ev.Index() + 1
	}
	if op != nil {
		opHex = op.ev.Hex()
	}
	var txs [][]byte
	nums := []int{}
	for k := 0; k < ntx; k++ {
		d.txSeq++
		var body []byte
		switch txKind {
		case 1:
			body = []byte{} // empty transaction
		case 2:
			body = []byte("dup") // duplicate content
		case 3:
			body = []byte{0, 0xff, 0xfe, byte(d.txSeq), 0x80}
		default:
			body = []byte(fmt.Sprintf("tx%d", d.txSeq))
		}
		d.txBody[d.txSeq] = body
		txs = append(txs, body)
		nums = append(nums, d.txSeq)
	}
	e := hg.NewEvent(txs, itxs, nil, []string{spHex, opHex}, keys.FromPublicKey(&c.key.PublicKey), index)
	e.Body.Timestamp = ts
	e.Sign(c.key)
	g := &gEvent{name: fmt.Sprintf("e%d", len(d.events)), num: len(d.events), ev: e, creator: creator, sp: sp, op: op, txs: nums, itx: itxDesc}
	g.defLine = d.defLine(g, true)
	d.events = append(d.events, g)
	d.byHex[e.Hex()] = g
	return g
}

func (d *dag) defLine(g *gEvent, sigok bool) string {
	r, _, _ := keys.DecodeSignature(g.ev.Signature)
	mid := 0
	if hg.VerifMiddleBit(g.ev.Hex()) {
		mid = 1
	}
	so := 0
	if sigok {
		so = 1
	}
	spn, opn := "-", "-"
	if g.sp != nil {
		spn = g.sp.name
	}
	if g.op != nil {
		opn = g.op.name
	}
	return fmt.Sprintf("HG ev %s %d %d %s %s %d %s %d %s %s %d", g.name, g.creator, g.ev.Index(), spn, opn, g.ev.Timestamp(), r.String(), mid, intsOrDash(g.txs), listOrDash(g.itx), so)
}

// ---------------------------------------------------------------------------
// nodes

type hnode struct {
	id         int
	d          *dag
	h          *hg.Hashgraph
	store      hg.Store
	blocks     []*hg.Block
	shown      int
	validators *peers.PeerSet
	inserted   map[string]bool
	order      []*gEvent // accepted events in insertion order
	badger     string
	refuse     map[string]bool // itx descriptors the application refuses (not used by the model: keep empty)
	commitLog  []int           // block indexes in delivery order
	commitBody map[int]string  // body hash at delivery
	batched    bool            // fed with InsertEvent only, passes run separately
	preBlocks  int             // blocks delivered in an earlier life, before Reset
	failCommit map[int]bool    // block indexes for which the commit callback reports an error after doing its work
	failed     int
	retro      int // validator sets registered for a round that already existed (see applyReceipts)
}

func newNode(d *dag, id int, cache int, badgerDir string) *hnode {
	nd := &hnode{id: id, d: d, inserted: map[string]bool{}, commitBody: map[int]string{}}
	if badgerDir != "" {
		st, err := hg.NewBadgerStore(cache, badgerDir, false, quiet())
		if err != nil {
			panic(err)
		}
		nd.store = st
		nd.badger = badgerDir
	} else {
		nd.store = hg.NewInmemStore(cache)
	}
	nd.validators = peers.NewPeerSet(d.genesis())
	nd.h = hg.NewHashgraph(nd.store, nd.commit, quiet())
	nd.h.Init(peers.NewPeerSet(d.genesis()))
	return nd
}

// commit emulates core.commit + processAcceptedInternalTransactions with an
// application that accepts every internal transaction.
func (nd *hnode) commit(b *hg.Block) error {
	nd.blocks = append(nd.blocks, b)
	nd.commitLog = append(nd.commitLog, b.Index())
	bh, _ := b.Body.Hash()
	nd.commitBody[b.Index()] = string(bh)
	nd.applyReceipts(b.RoundReceived(), b.InternalTransactions())
	if nd.failCommit[b.Index()] {
		// the application applied the block, then the commit path reports an error (as when
		// core.commit fails after the application call): nothing may be delivered twice
		delete(nd.failCommit, b.Index())
		nd.failed++
		return fmt.Errorf("injected commit failure after block %d was applied", b.Index())
	}
	return nil
}

func (nd *hnode) applyReceipts(rr int, itxs []hg.InternalTransaction) {
	changed := false
	v := nd.validators
	for _, itx := range itxs {
		p := itx.Body.Peer
		if itx.Body.Type == hg.PEER_ADD {
			v = v.WithNewPeer(&p)
		} else {
			v = v.WithRemovedPeer(&p)
		}
		changed = true
	}
	if changed {
		if nd.store.LastRound() >= rr+6 {
			// the new set takes effect at a round this node has already created: rounds, witnesses and
			// votes of that round (and later ones) were computed with the old set, later events of the same
			// rounds will be computed with the new one
			nd.retro++
		}
		if err := nd.store.SetPeerSet(rr+6, v); err == nil {
			nd.validators = v
		}
	}
}

func (nd *hnode) close() {
	nd.store.Close()
	if nd.badger != "" {
		os.RemoveAll(nd.badger)
	}
}

func rejKind(err error) string {
	s := err.Error()
	switch {
	case strings.Contains(s, "Invalid Event signature"), strings.Contains(s, "invalid signature on internal transaction"):
		return "sig"
	case strings.Contains(s, "Unknown Participant"):
		return "creator"
	case strings.Contains(s, "Self-parent"), hg.IsNormalSelfParentError(err), strings.Contains(s, "ParticipantEvents"):
		return "selfparent"
	case strings.Contains(s, "Other-parent"):
		return "otherparent"
	case strings.Contains(s, "Invalid Index"):
		return "index"
	}
	return "other:" + s
}

func (nd *hnode) itxDesc(itxs []hg.InternalTransaction) []string {
	res := []string{}
	for _, itx := range itxs {
		c, ok := nd.d.idx[strings.ToUpper(itx.Body.Peer.PubKeyHex)]
		cs := "?"
		if ok {
			cs = strconv.Itoa(c)
		}
		if itx.Body.Type == hg.PEER_ADD {
			res = append(res, "+"+cs)
		} else {
			res = append(res, "-"+cs)
		}
	}
	return res
}

func (nd *hnode) peerNums(ps []*peers.Peer) []string {
	res := []string{}
	for _, p := range ps {
		if c, ok := nd.d.idx[p.PubKeyString()]; ok {
			res = append(res, strconv.Itoa(c))
		} else {
			res = append(res, "?")
		}
	}
	return res
}

func (nd *hnode) blockLine(b *hg.Block) string {
	evs, txs := []string{}, []string{}
	prs := []string{"?"}
	fr, err := nd.store.GetFrame(b.RoundReceived())
	if err == nil {
		for _, fe := range fr.Events {
			g := nd.d.byHex[fe.Core.Hex()]
			if g == nil {
				evs = append(evs, "?")
				continue
			}
			evs = append(evs, g.name)
			for _, t := range g.txs {
				txs = append(txs, strconv.Itoa(t))
			}
		}
		prs = nd.peerNums(fr.Peers)
	}
	return fmt.Sprintf("O block %d %d %d txs=%s itx=%s events=%s peers=%s", b.Index(), b.RoundReceived(), b.Timestamp(),
		listOrDash(txs), listOrDash(nd.itxDesc(b.InternalTransactions())), listOrDash(evs), listOrDash(prs))
}

func (nd *hnode) newBlockLines() []string {
	res := []string{}
	for ; nd.shown < len(nd.blocks); nd.shown++ {
		res = append(res, nd.blockLine(nd.blocks[nd.shown]))
	}
	return res
}

// run = InsertEventAndRunConsensus on a private copy of the event.
func (nd *hnode) run(c *Case, g *gEvent) (accepted bool, err error) {
	cp := &hg.Event{Body: g.ev.Body, Signature: g.ev.Signature}
	err = nd.h.InsertEventAndRunConsensus(cp, true)
	op := fmt.Sprintf("HG run %d %s", nd.id, g.name)
	if err != nil {
		c.Op(op, "O rej "+rejKind(err))
		return false, err
	}
	nd.inserted[g.name] = true
	nd.order = append(nd.order, g)
	// the counter behind core.busy(): loaded events inserted and not yet in a processed frame
	c.Op(op, append([]string{"O acc", fmt.Sprintf("O pl %d", nd.h.PendingLoadedEvents)}, nd.newBlockLines()...)...)
	return true, nil
}

func (nd *hnode) insertOnly(c *Case, g *gEvent) bool {
	cp := &hg.Event{Body: g.ev.Body, Signature: g.ev.Signature}
	err := nd.h.InsertEvent(cp, true)
	op := fmt.Sprintf("HG ins %d %s", nd.id, g.name)
	if err != nil {
		c.Op(op, "O rej "+rejKind(err))
		return false
	}
	nd.inserted[g.name] = true
	nd.order = append(nd.order, g)
	c.Op(op, "O acc")
	return true
}

func (nd *hnode) pass(c *Case) error {
	var err error
	if err = nd.h.DivideRounds(); err == nil {
		if err = nd.h.DecideFame(); err == nil {
			if err = nd.h.DecideRoundReceived(); err == nil {
				err = nd.h.ProcessDecidedRounds()
			}
		}
	}
	c.Op(fmt.Sprintf("HG pass %d", nd.id), nd.newBlockLines()...)
	return err
}

func fo(p *int) string {
	if p == nil {
		return "-"
	}
	return strconv.Itoa(*p)
}

func (nd *hnode) dumpEv(c *Case) {
	evs := append([]*gEvent{}, nd.order...)
	sort.Slice(evs, func(i, j int) bool { return evs[i].num < evs[j].num })
	lines := []string{}
	for _, g := range evs {
		e, err := nd.store.GetEvent(g.ev.Hex())
		if err != nil {
			lines = append(lines, fmt.Sprintf("O ev %s evicted", g.name))
			continue
		}
		w := "-"
		if e.VerifRound() != nil {
			w = "?"
			if ri, err := nd.store.GetRound(*e.VerifRound()); err == nil {
				if re, ok := ri.VerifCreated()[g.ev.Hex()]; ok {
					if re.Witness {
						w = "1"
					} else {
						w = "0"
					}
				}
			}
		}
		lines = append(lines, fmt.Sprintf("O ev %s %s %s %s %s", g.name, fo(e.VerifRound()), w, fo(e.VerifLamport()), fo(e.VerifRoundReceived())))
	}
	c.Op(fmt.Sprintf("HG dump %d ev", nd.id), lines...)
}

func (nd *hnode) dumpRounds(c *Case, from int) {
	lines := []string{}
	for r := from; r <= nd.store.LastRound(); r++ {
		ri, err := nd.store.GetRound(r)
		if err != nil {
			continue
		}
		type wf struct {
			num int
			s   string
		}
		ws := []wf{}
		for k, v := range ri.VerifCreated() {
			if v.Witness {
				g := nd.d.byHex[k]
				ws = append(ws, wf{g.num, fmt.Sprintf("%s:%d", g.name, v.Famous)})
			}
		}
		sort.Slice(ws, func(i, j int) bool { return ws[i].num < ws[j].num })
		ss := []string{}
		for _, w := range ws {
			ss = append(ss, w.s)
		}
		dcd := 0
		if ri.VerifDecided() {
			dcd = 1
		}
		lines = append(lines, fmt.Sprintf("O round %d %d created=%d received=%d %s", r, dcd, len(ri.CreatedEvents), len(ri.ReceivedEvents), listOrDash(ss)))
	}
	c.Op(fmt.Sprintf("HG dump %d rounds", nd.id), lines...)
}

func (nd *hnode) fmtFrameEv(fe *hg.FrameEvent) string {
	w := 0
	if fe.Witness {
		w = 1
	}
	return fmt.Sprintf("%s/%d/%d/%d", nd.d.nameOf(fe.Core.Hex()), fe.Round, fe.LamportTimestamp, w)
}

func (nd *hnode) fmtPeerSets(m map[int][]*peers.Peer) string {
	rs := []int{}
	for r := range m {
		rs = append(rs, r)
	}
	sort.Ints(rs)
	ss := []string{}
	for _, r := range rs {
		ss = append(ss, fmt.Sprintf("%d:[%s]", r, strings.Join(nd.peerNums(m[r]), ",")))
	}
	return strings.Join(ss, ";")
}

func (nd *hnode) frameLine(fr *hg.Frame) string {
	evs := []string{}
	for _, fe := range fr.Events {
		evs = append(evs, nd.fmtFrameEv(fe))
	}
	type rt struct {
		c int
		s string
	}
	roots := []rt{}
	for p, r := range fr.Roots {
		es := []string{}
		for _, fe := range r.Events {
			es = append(es, nd.fmtFrameEv(fe))
		}
		roots = append(roots, rt{nd.d.idx[p], fmt.Sprintf("%d:[%s]", nd.d.idx[p], strings.Join(es, " "))})
	}
	sort.Slice(roots, func(i, j int) bool { return roots[i].c < roots[j].c })
	rs := []string{}
	for _, r := range roots {
		rs = append(rs, r.s)
	}
	return fmt.Sprintf("O frame %d ts=%d peers=%s events=%s roots=%s peersets=%s", fr.Round, fr.Timestamp, listOrDash(nd.peerNums(fr.Peers)),
		listOrDash(evs), strings.Join(rs, ";"), nd.fmtPeerSets(fr.PeerSets))
}

// dumpFrames prints the frames of all processed rounds (the model keeps every
// frame it built; the store only those still cached).
func (nd *hnode) dumpFrames(c *Case, rounds []int) {
	lines := []string{}
	for _, r := range rounds {
		fr, err := nd.store.GetFrame(r)
		if err != nil {
			lines = append(lines, fmt.Sprintf("O frame %d missing", r))
			continue
		}
		lines = append(lines, nd.frameLine(fr))
	}
	c.Op(fmt.Sprintf("HG dump %d frames", nd.id), lines...)
}

func (nd *hnode) dumpPeerSets(c *Case) {
	all, _ := nd.store.GetAllPeerSets()
	rep := []int{}
	for k := range nd.store.RepertoireByPubKey() {
		rep = append(rep, nd.d.idx[k])
	}
	sort.Ints(rep)
	c.Op(fmt.Sprintf("HG dump %d peersets", nd.id), fmt.Sprintf("O peersets %s validators=%s repertoire=%s", nd.fmtPeerSets(all),
		listOrDash(nd.peerNums(nd.validators.Peers)), intsOrDash(rep)))
}

func (nd *hnode) dumpLast(c *Case) {
	pend := []string{}
	for _, p := range nd.h.PendingRounds.GetOrderedPendingRounds() {
		d := 0
		if p.Decided {
			d = 1
		}
		pend = append(pend, fmt.Sprintf("%d:%d", p.Index, d))
	}
	c.Op(fmt.Sprintf("HG dump %d last", nd.id), fmt.Sprintf("O last lastRound=%d lcr=%s undet=%d pending=%s lastBlock=%d",
		nd.store.LastRound(), fo(nd.h.LastConsensusRound), len(nd.h.UndeterminedEvents), listOrDash(pend), nd.store.LastBlockIndex()))
}

func (nd *hnode) topoCount() int { return len(nd.order) }

// ---------------------------------------------------------------------------
// G1: gossip DAG generator

type genOpts struct {
	n0, extra   int
	steps       int
	lag         bool // isolate one creator for a while (late witnesses)
	silentThird bool // a minority goes silent from a random point
	partition   bool // two groups for a while, then heal
	leave       bool
	staleOp     bool     // sometimes use an older event of the peer as other-parent
	byz         []int    // creators with lying clocks
	txKinds     bool     // exotic transaction payloads
	burst       bool     // bursts of events without other-parent
	idle        bool     // a long phase without transactions in the middle of the run
	eagerPause  bool     // an eager joiner is silent around its first round
	eagerJoiner bool     // joiners create events before their accepted round (no honest core does)
	joinEarly   bool     // joins are requested in the first steps (long life as validators afterwards)
	shrink      bool     // a leave that lowers the supermajority, with a silent validator
	skew        bool     // one honest creator's clock runs an hour fast for the first half of the run, then is corrected
	hermit      bool     // the lagger first builds a long chain of loaded events on its own (high Lamport timestamps), stays cut off while the others advance several rounds, and is then pulled from: an other-parent far behind in rounds and ahead in Lamport time
	sleeper     bool     // the last creator sleeps from steps/6 on and only wakes to create a witness of a decided round that still waits for an earlier one
	topo        int      // gossip graph: 0 complete, 1 path, 2 two camps joined by one bridge (persistent split votes, slow elections)
	ring        bool     // (with late) efficient ring gossip among the awake creators
	late        bool     // creators nap, then catch up through old other-parents (truncated syncs): late witnesses, slow elections
	txRate      int      // 1/txRate of events carry a transaction
	refuseNone  struct{} // (placeholder: the application accepts every request)
}

func (o genOpts) String() string {
	s := fmt.Sprintf("n0=%d extra=%d steps=%d lag=%v silent=%v part=%v leave=%v stale=%v byz=%v burst=%v late=%v ring=%v topo=%d sleeper=%v", o.n0, o.extra, o.steps, o.lag, o.silentThird, o.partition, o.leave, o.staleOp, o.byz, o.burst, o.late, o.ring, o.topo, o.sleeper)
	if o.hermit {
		s += " hermit=true"
	}
	if o.skew {
		s += " skew=true"
	}
	return s
}

func randomOpts(rng *rand.Rand, thorough bool, dynamic bool) genOpts {
	o := genOpts{}
	o.n0 = 1 + rng.Intn(7)
	if rng.Intn(3) == 0 {
		o.n0 = 3 + rng.Intn(3)
	}
	o.steps = 60 + rng.Intn(100)
	if thorough {
		o.steps = 100 + rng.Intn(260)
	}
	if dynamic {
		if o.n0 < 3 {
			o.n0 = 3 + rng.Intn(3)
		}
		o.extra = 1 + rng.Intn(2)
		o.leave = rng.Intn(2) == 0
		o.steps += 150
		if rng.Intn(3) == 0 {
			// shrink family: a leave that lowers the supermajority (5 -> 4, 6 -> 5, 7 -> 6), no joiner,
			// and (below) a silent validator, so that rounds are decided with exactly the new
			// supermajority of famous witnesses
			o.n0 = 5 + rng.Intn(3)
			o.extra = 0
			o.leave = true
			o.shrink = true
			o.steps += 100
		}
	}
	o.lag = rng.Intn(3) == 0 && o.n0 >= 4
	o.silentThird = (rng.Intn(4) == 0 || o.shrink) && o.n0 >= 4
	o.partition = rng.Intn(4) == 0 && o.n0 >= 4
	if o.shrink {
		o.lag, o.partition = false, false
	}
	o.staleOp = rng.Intn(2) == 0
	o.burst = rng.Intn(4) == 0
	o.late = rng.Intn(2) == 0 && o.n0 >= 4
	if !dynamic && rng.Intn(4) == 0 {
		// late-focused: nothing but naps and piecewise catch-up, long enough for many rounds
		o.n0 = []int{4, 4, 4, 5}[rng.Intn(4)]
		o.steps = 260 + rng.Intn(160)
		if thorough {
			o.steps += 200
		}
		o.late, o.lag, o.silentThird, o.partition, o.burst = true, false, false, false, false
		o.ring = rng.Intn(3) != 0
		o.topo = rng.Intn(3)
		if o.topo != 0 {
			o.ring = false
		}
	} else if !dynamic && o.n0 >= 4 && rng.Intn(4) == 0 {
		o.topo = 1 + rng.Intn(2)
		o.steps += 150
		if rng.Intn(2) == 0 {
			o.n0 = []int{5, 5, 7}[rng.Intn(3)]
			o.topo = 2
			o.sleeper = true
			o.lag, o.silentThird, o.partition, o.byz = false, false, false, nil
			o.steps += 100
		}
	}
	o.txKinds = rng.Intn(3) == 0
	o.txRate = 2 + rng.Intn(4)
	o.idle = rng.Intn(3) == 0
	// an honest clock that runs an hour fast and is corrected half-way (derived from the step count so
	// that the other choices of a seed stay what they were): later medians below earlier timestamps
	o.skew = o.steps%3 == 0
	if o.n0 >= 4 && rng.Intn(2) == 0 {
		nb := (o.n0 - 1) / 3
		for len(o.byz) < nb {
			b := rng.Intn(o.n0)
			dup := false
			for _, x := range o.byz {
				dup = dup || x == b
			}
			if !dup {
				o.byz = append(o.byz, b)
			}
		}
	}
	return o
}

// hermitOpts: four or five validators, one of which talks to itself for a long time (a chain of
// loaded events, hence high Lamport timestamps in a low round), stays cut off while the others
// advance, and is then heard again.
func hermitOpts(rng *rand.Rand, thorough bool) genOpts {
	o := genOpts{}
	o.n0 = 4 + rng.Intn(2)
	o.steps = 330 + rng.Intn(60)
	if thorough {
		o.steps += rng.Intn(200)
	}
	o.lag, o.hermit = true, true
	o.staleOp = rng.Intn(2) == 0
	o.txRate = 2 + rng.Intn(3)
	o.txKinds = rng.Intn(3) == 0
	return o
}

// topoLinked: may creators x and y gossip directly
func topoLinked(topo, n, x, y int) bool {
	switch topo {
	case 1: // path 0-1-2-...-(n-1)
		return x-y == 1 || y-x == 1
	case 2: // camps [0, n/2) and [n/2, n), complete inside, bridge between n/2-1 and n/2
		h := n / 2
		if (x < h) == (y < h) {
			return true
		}
		return (x == h-1 && y == h) || (x == h && y == h-1)
	}
	return true
}

// generate builds the DAG by simulated gossip on top of the reference node
// (node 0), which receives every event in creation order. The case records the
// reference node's operations and observations.
func generate(rng *rand.Rand, o genOpts, c *Case, ref *hnode) *dag {
	d := ref.d
	n := len(d.parts)
	heads := make([]*gEvent, n)
	chains := make([][]*gEvent, n)
	view := make([]map[int]bool, n) // events known to each creator (by number)
	for i := range view {
		view[i] = map[int]bool{}
	}
	isByz := map[int]bool{}
	for _, b := range o.byz {
		isByz[b] = true
	}
	skewWho := -1
	if o.skew {
		for try := 0; try < 20 && (skewWho < 0 || isByz[skewWho]); try++ {
			skewWho = rng.Intn(o.n0)
		}
		if isByz[skewWho] {
			skewWho = -1
		}
	}
	lagger, lagFrom, lagTo := -1, 0, 0
	if o.lag {
		lagger = rng.Intn(o.n0)
		lagFrom = o.steps / 5
		lagTo = lagFrom + o.steps/3 + rng.Intn(o.steps/4+1)
	}
	hermitBurst := 0
	if o.hermit {
		// the monologue is longer than anything the others can add to their Lamport time while the
		// hermit is cut off (at most one per event)
		lagFrom = 25 + rng.Intn(15)
		hermitBurst = 70 + rng.Intn(30)
		lagTo = lagFrom + hermitBurst + 45 + rng.Intn(20)
	}
	silentFrom := o.steps
	silent := map[int]bool{}
	if o.silentThird {
		silentFrom = o.steps/4 + rng.Intn(o.steps/2)
		k := (o.n0 - 1) / 3
		if o.shrink {
			k = 1
		}
		for len(silent) < k {
			silent[rng.Intn(o.n0)] = true
		}
	}
	partFrom, partTo := o.steps, o.steps
	group := map[int]int{}
	if o.partition {
		partFrom = o.steps / 4
		partTo = partFrom + o.steps/3
		for i := 0; i < n; i++ {
			group[i] = rng.Intn(2)
		}
	}
	joinIssued := map[int]bool{}
	lastJoinStep := -1
	leaveIssued := false
	burstLeft, burstWho := 0, 0
	// naps and catch-up (o.late): a creator sleeps for a while; when it wakes up it learns the
	// others' history piecewise — its next events take as other-parent the peer's event just beyond
	// what it already knows (what a sync truncated by the sync limit gives), so it creates
	// witnesses of old rounds long after the others decided them
	napUntil := make([]int, n)
	catchup := make([]int, n) // remaining catch-up events
	ancMemo := map[[2]int]bool{}
	nextUnknown := func(a, b int) *gEvent {
		ch := chains[b]
		if len(ch) == 0 {
			return nil
		}
		lo := 0 // first index of b's chain that is not an ancestor of a's head
		if heads[a] != nil {
			for lo < len(ch) && isAncestor(ch[lo], heads[a], ancMemo) {
				lo++
			}
		}
		if lo >= len(ch) {
			return ch[len(ch)-1]
		}
		k := lo + rng.Intn(3)
		if k >= len(ch) {
			k = len(ch) - 1
		}
		return ch[k]
	}
	if o.lag && o.late {
		catchup[lagger] = 0 // set when the lag ends
	}
	ringPos := 0
	for count := 0; count < o.steps; count++ {
		a := rng.Intn(n)
		if o.hermit && count == lagFrom {
			burstLeft, burstWho = hermitBurst, lagger
		}
		if burstLeft > 0 {
			a = burstWho
		}
		inHermitBurst := o.hermit && burstLeft > 0 && a == lagger
		if o.late && o.ring && burstLeft == 0 && rng.Intn(6) != 0 {
			// efficient ring gossip among the awake creators (rounds advance every few events);
			// a creator that is catching up gets its turn now and then
			cu := -1
			for x := 0; x < o.n0; x++ {
				if catchup[x] > 0 && napUntil[x] == 0 {
					cu = x
				}
			}
			if cu >= 0 && rng.Intn(3) == 0 {
				a = cu
			} else {
				for try := 0; try < n; try++ {
					ringPos = (ringPos + 1) % o.n0
					if napUntil[ringPos] == 0 && catchup[ringPos] == 0 {
						break
					}
				}
				a = ringPos
			}
		}
		if o.late && a < o.n0 && burstLeft == 0 {
			away := 0 // creators that do not take part at the moment: a supermajority must stay awake
			for x := 0; x < o.n0; x++ {
				if napUntil[x] > 0 || (count >= silentFrom && silent[x]) || (x == lagger && count >= lagFrom && count < lagTo) {
					away++
				}
			}
			if count >= partFrom && count < partTo {
				away = n
			}
			if napUntil[a] == 0 && catchup[a] == 0 && away < (o.n0-1)/3 && rng.Intn(25) == 0 {
				napUntil[a] = count + 10 + o.steps/8 + rng.Intn(o.steps/3+1)
			}
			if napUntil[a] > 0 {
				if count < napUntil[a] {
					continue
				}
				napUntil[a] = 0
				catchup[a] = 3 + rng.Intn(n+4)
				if os.Getenv("DBGLATE") != "" {
					fmt.Fprintf(os.Stderr, "DBG wake a=%d count=%d/%d catchup=%d\n", a, count, o.steps, catchup[a])
				}
			}
			if o.lag && a == lagger && count >= lagTo && count < lagTo+3*n && catchup[a] == 0 {
				catchup[a] = 3 + rng.Intn(3*n+4)
			}
		}
		_, known := ref.store.RepertoireByPubKey()[d.parts[a].hex]
		if !known && rng.Intn(30) != 0 {
			continue
		}
		if known && a >= o.n0 {
			// an honest joiner does not babble before its accepted round (core.addSelfEvent:
			// "Too early to insert self-event"): its first event appears once the round from which it is
			// a validator has been reached
			// (eagerJoiner: a faulty joiner that babbles as soon as the others accept its events)
			if fr, ok := ref.store.FirstRound(d.parts[a].peer.ID()); ok && ref.store.LastRound() < fr && !o.eagerJoiner {
				continue
			} else if ok && o.eagerJoiner && o.eagerPause && ref.store.LastRound() >= fr-2 && ref.store.LastRound() <= fr+1 {
				// ... and falls silent around the round from which it is a validator
				continue
			}
		}
		if count >= silentFrom && silent[a] {
			continue
		}
		if a == lagger && count >= lagFrom && count < lagTo && !(o.hermit && burstLeft > 0) && (o.hermit || rng.Intn(4) != 0) {
			continue
		}
		var op *gEvent
		b := rng.Intn(n)
		forcedOp := (*gEvent)(nil)
		if (o.late || o.topo != 0) && (o.sleeper || rng.Intn(2) == 0) {
			// state-guided: while a round R is decided on the reference node but waits for an earlier
			// round, let a creator whose head is below R create a witness of R (other-parent in R)
			roundOf := func(g *gEvent) int {
				if g == nil {
					return -1
				}
				if e, err := ref.store.GetEvent(g.ev.Hex()); err == nil && e.VerifRound() != nil {
					return *e.VerifRound()
				}
				return -1
			}
			waiting, R := false, -1
			for _, pr := range ref.h.PendingRounds.GetOrderedPendingRounds() {
				if !pr.Decided {
					waiting = true
				} else if waiting && R < 0 {
					R = pr.Index
				}
			}
			if R >= 0 && os.Getenv("DBGLATE") != "" {
				hs := []int{}
				for x := 0; x < o.n0; x++ {
					hs = append(hs, roundOf(heads[x]))
				}
				fmt.Fprintf(os.Stderr, "DBG window R=%d heads=%v naps=%v late=%v topo=%d\n", R, hs, napUntil, o.late, o.topo)
			}
			if R >= 0 {
				for x := 0; x < o.n0 && forcedOp == nil; x++ {
					if heads[x] == nil || roundOf(heads[x]) >= R {
						continue
					}
					for y := 0; y < n && forcedOp == nil; y++ {
						if y == x {
							continue
						}
						for k := len(chains[y]) - 1; k >= 0; k-- {
							rk := roundOf(chains[y][k])
							if rk == R {
								a, b, forcedOp = x, y, chains[y][k]
								break
							}
							if rk < R {
								break
							}
						}
					}
				}
			}
		}
		if o.late && catchup[a] == 0 && forcedOp == nil {
			// the awake creators gossip among themselves: rounds keep advancing while somebody naps
			if o.ring && rng.Intn(6) != 0 {
				b = a
				for try := 0; try < n; try++ {
					b = (b + o.n0 - 1) % o.n0
					if b != a && napUntil[b] == 0 && catchup[b] == 0 {
						break
					}
				}
			}
			for try := 0; try < 6 && (b == a || napUntil[b] > 0 || catchup[b] > 0); try++ {
				b = rng.Intn(n)
			}
		}
		asleep := o.sleeper && count >= o.steps/6
		if asleep && forcedOp == nil && a == o.n0-1 {
			continue
		}
		if o.topo != 0 && forcedOp == nil && a < o.n0 {
			nb := []int{}
			for y := 0; y < o.n0; y++ {
				if asleep && y == o.n0-1 {
					continue
				}
				if y != a && topoLinked(o.topo, o.n0, a, y) {
					nb = append(nb, y)
				}
			}
			if len(nb) > 0 {
				b = nb[rng.Intn(len(nb))]
			}
		}
		okPeer := b != a && heads[b] != nil
		if okPeer && count >= lagFrom && count < lagTo && (b == lagger || a == lagger) {
			okPeer = false // nobody talks to the lagger and it hears nobody
		}
		if okPeer && count >= partFrom && count < partTo && group[a] != group[b] {
			okPeer = false
		}
		if okPeer && count >= silentFrom && silent[b] && rng.Intn(3) != 0 {
			okPeer = false
		}
		if burstLeft > 0 {
			okPeer = false
			burstLeft--
		} else if o.burst && rng.Intn(25) == 0 {
			burstLeft, burstWho = 2+rng.Intn(12), a
		}
		if okPeer && o.eagerPause && a >= o.n0 {
			if fr, ok := ref.store.FirstRound(d.parts[a].peer.ID()); ok && ref.store.LastRound() < fr {
				okPeer = false // the eager joiner talks to itself: events insertable whatever else is known
			}
		}
		if okPeer && rng.Intn(12) != 0 {
			op = heads[b]
			if o.staleOp && rng.Intn(5) == 0 {
				op = chains[b][rng.Intn(len(chains[b]))]
			}
			if forcedOp != nil {
				op = forcedOp
				d.guidedLateWitnesses++
			} else if catchup[a] > 0 {
				op = nextUnknown(a, b)
				catchup[a]--
				if os.Getenv("DBGLATE") != "" && heads[a] != nil && op != nil {
					hr, or := -9, -9
					if e, err := ref.store.GetEvent(heads[a].ev.Hex()); err == nil && e.VerifRound() != nil {
						hr = *e.VerifRound()
					}
					if e, err := ref.store.GetEvent(op.ev.Hex()); err == nil && e.VerifRound() != nil {
						or = *e.VerifRound()
					}
					fmt.Fprintf(os.Stderr, "DBG catchup a=%d b=%d headRound=%d opRound=%d opIdx=%d/%d lastRound=%d lcr=%v\n", a, b, hr, or, op.ev.Index(), len(chains[b]), ref.store.LastRound(), fo(ref.h.LastConsensusRound))
				}
			}
		}
		ntx := 0
		if rng.Intn(o.txRate) == 0 {
			ntx = 1 + rng.Intn(2)
		}
		if o.idle && count > o.steps/5 && count < (3*o.steps)/5 {
			ntx = 0 // an idle network: rounds go by without transactions, hence without blocks
		}
		if inHermitBurst {
			ntx = 1 + rng.Intn(2)
		}
		txKind := 0
		if o.txKinds {
			txKind = rng.Intn(4)
		}
		itxs := []hg.InternalTransaction{}
		itxDesc := []string{}
		if known && a < o.n0 {
			for j := o.n0; j < n; j++ {
				closeToLast := lastJoinStep >= 0 && count-lastJoinStep < 40 && rng.Intn(6) == 0 // two changes inside one activation window
				if !joinIssued[j] && (closeToLast || (o.joinEarly && count > 10+20*(j-o.n0)) || rng.Intn(o.steps/(3*(o.extra+1))+1) == 0) {
					lastJoinStep = count
					itx := hg.NewInternalTransactionJoin(*d.parts[j].peer)
					itx.Sign(d.parts[j].key)
					itxs = append(itxs, itx)
					itxDesc = append(itxDesc, fmt.Sprintf("+%d", j))
					joinIssued[j] = true
				}
			}
			if o.leave && !leaveIssued && count > o.steps/3 && rng.Intn(20) == 0 && len(ref.validators.Peers) > 2 {
				itx := hg.NewInternalTransactionLeave(*d.parts[a].peer)
				itx.Sign(d.parts[a].key)
				itxs = append(itxs, itx)
				itxDesc = append(itxDesc, fmt.Sprintf("-%d", a))
				leaveIssued = true
			}
		}
		ts := int64(1600000000 + count + rng.Intn(7))
		if o.skew && a == skewWho && count < o.steps/2 {
			ts += 3600
		}
		if isByz[a] {
			switch rng.Intn(4) {
			case 0:
				ts = math.MinInt64
			case 1:
				ts = math.MaxInt64
			case 2:
				ts = -int64(rng.Intn(1000))
			default:
				ts = int64(rng.Uint64())
			}
		}
		g := d.newEvent(rng, a, heads[a], op, ntx, itxs, itxDesc, ts, txKind)
		c.Op(g.defLine)
		acc, _ := ref.run(c, g)
		if !acc {
			// dropped from the DAG (kept in the trace as a refused attempt)
			d.events = d.events[:len(d.events)-1]
			delete(d.byHex, g.ev.Hex())
			for _, dsc := range itxDesc {
				j, _ := strconv.Atoi(dsc[1:])
				if dsc[0] == '+' {
					delete(joinIssued, j)
				} else {
					leaveIssued = false
				}
			}
			// names must stay unique: re-number by keeping a tombstone
			d.events = append(d.events, nil)
			continue
		}
		heads[a] = g
		chains[a] = append(chains[a], g)
		// coverage: a later round decided while an earlier one still waits (slow election), and
		// witnesses created into such a decided-but-unprocessed round
		{
			prs := ref.h.PendingRounds.GetOrderedPendingRounds()
			waiting := false
			decidedAfterWaiting := map[int]bool{}
			for _, pr := range prs {
				if !pr.Decided {
					waiting = true
				} else if waiting {
					decidedAfterWaiting[pr.Index] = true
				}
			}
			d.noteElection(ref)
			if len(decidedAfterWaiting) > 0 {
				d.outOfOrderSteps++
				if e, err := ref.store.GetEvent(g.ev.Hex()); err == nil && e.VerifRound() != nil && decidedAfterWaiting[*e.VerifRound()] {
					if ri, err := ref.store.GetRound(*e.VerifRound()); err == nil {
						if re, ok := ri.VerifCreated()[g.ev.Hex()]; ok && re.Witness {
							d.witnessIntoWaitingDecided++
						}
					}
				}
			}
		}
		// coverage: events that land in a round the reference node has already processed
		if e, err := ref.store.GetEvent(g.ev.Hex()); err == nil && e.VerifRound() != nil && ref.h.LastConsensusRound != nil && *e.VerifRound() <= *ref.h.LastConsensusRound {
			d.oldRoundEvents++
			if ri, err := ref.store.GetRound(*e.VerifRound()); err == nil {
				if re, ok := ri.VerifCreated()[g.ev.Hex()]; ok && re.Witness {
					d.lateWitnesses++
				}
			}
		}
	}
	// drop tombstones
	evs := []*gEvent{}
	for _, e := range d.events {
		if e != nil {
			evs = append(evs, e)
		}
	}
	d.events = evs
	return d
}

// topoOrder returns a random topological order of the given events (a
// downward-closed set).
func topoOrder(rng *rand.Rand, evs []*gEvent) []*gEvent {
	in := map[*gEvent]bool{}
	for _, e := range evs {
		in[e] = true
	}
	done := map[*gEvent]bool{}
	res := []*gEvent{}
	remaining := append([]*gEvent{}, evs...)
	for len(remaining) > 0 {
		ready := []int{}
		for i, e := range remaining {
			if (e.sp == nil || done[e.sp] || !in[e.sp]) && (e.op == nil || done[e.op] || !in[e.op]) {
				ready = append(ready, i)
				if len(ready) > 12 {
					break
				}
			}
		}
		k := ready[rng.Intn(len(ready))]
		// bias: sometimes stick to the creation order to vary the shape
		e := remaining[k]
		done[e] = true
		res = append(res, e)
		remaining = append(remaining[:k], remaining[k+1:]...)
	}
	return res
}

// downClosed picks a random downward-closed subset: the ancestors of a random
// set of events.
func downClosed(rng *rand.Rand, evs []*gEvent) []*gEvent {
	if len(evs) == 0 {
		return evs
	}
	keep := map[*gEvent]bool{}
	var mark func(e *gEvent)
	mark = func(e *gEvent) {
		for e != nil && !keep[e] {
			keep[e] = true
			if e.op != nil {
				mark(e.op)
			}
			e = e.sp
		}
	}
	k := 1 + rng.Intn(3)
	for i := 0; i < k; i++ {
		mark(evs[len(evs)/2+rng.Intn(len(evs)-len(evs)/2)])
	}
	res := []*gEvent{}
	for _, e := range evs {
		if keep[e] {
			res = append(res, e)
		}
	}
	return res
}

// feed inserts the events into the node in the given order; an event refused
// (parents not yet accepted because a joiner is not known yet...) is retried
// after later acceptances, as gossip would.
func feed(nd *hnode, c *Case, order []*gEvent, batch func(i int) bool) {
	pending := []*gEvent{}
	tryPending := func() {
		progress := true
		for progress {
			progress = false
			rest := []*gEvent{}
			for _, p := range pending {
				if (p.sp == nil || nd.inserted[p.sp.name]) && (p.op == nil || nd.inserted[p.op.name]) {
					if ok, _ := nd.run(c, p); ok {
						progress = true
						continue
					}
				}
				rest = append(rest, p)
			}
			pending = rest
		}
	}
	for i, g := range order {
		if nd.inserted[g.name] {
			continue
		}
		if batch != nil {
			nd.batched = true
			if nd.insertOnly(c, g) {
				if batch(i) {
					nd.pass(c)
				}
			}
			continue
		}
		if (g.sp != nil && !nd.inserted[g.sp.name]) || (g.op != nil && !nd.inserted[g.op.name]) {
			pending = append(pending, g)
			continue
		}
		ok, _ := nd.run(c, g)
		if !ok {
			pending = append(pending, g)
		} else if len(pending) > 0 {
			tryPending()
		}
	}
	tryPending()
	if batch != nil {
		nd.pass(c)
	}
}

func (nd *hnode) processedRounds() []int {
	rs := []int{}
	// rounds for which a frame exists in the cache, ascending
	last := -1
	if nd.h.LastConsensusRound != nil {
		last = *nd.h.LastConsensusRound
	}
	for r := 0; r <= last; r++ {
		if _, err := nd.store.GetFrame(r); err == nil {
			rs = append(rs, r)
		}
	}
	return rs
}

// dumpDag: comparison with the declarative model (Babble.Dag); only meaningful for a
// static validator set and passes after every insertion.
func (nd *hnode) dumpDag(c *Case) {
	nev, nw, nf := 0, 0, 0
	for _, g := range nd.order {
		e, err := nd.store.GetEvent(g.ev.Hex())
		if err != nil {
			return // evicted events: the comparison needs the whole view
		}
		nev++
		if e.VerifRound() == nil {
			continue
		}
		if ri, err := nd.store.GetRound(*e.VerifRound()); err == nil {
			if re, ok := ri.VerifCreated()[g.ev.Hex()]; ok && re.Witness {
				nw++
				if re.Famous == int(common.True) {
					nf++
				}
			}
		}
	}
	c.Op(fmt.Sprintf("HG dag %d", nd.id), fmt.Sprintf("O dag ok ev=%d wit=%d famous=%d", nev, nw, nf))
}

func (nd *hnode) dumpAll(c *Case) {
	nd.dumpEv(c)
	nd.dumpRounds(c, 0)
	nd.dumpPeerSets(c)
	nd.dumpLast(c)
}

// ---------------------------------------------------------------------------
// oracles on the Go side

type blockView struct {
	index, rr          int
	ts                 int64
	bodyHash           string
	frameHash          string
	peersHash          string
	line               string
	txs                [][]byte
	itxs               int
	events             []*gEvent
	famousTs           []int64
	famousHonestMinMax [2]int64
	haveHonest         bool
}

func (nd *hnode) view(b *hg.Block) blockView {
	bh, _ := b.Body.Hash()
	v := blockView{index: b.Index(), rr: b.RoundReceived(), ts: b.Timestamp(), bodyHash: string(bh), frameHash: string(b.FrameHash()), peersHash: string(b.PeersHash()),
		line: nd.blockLine(b), txs: b.Transactions(), itxs: len(b.InternalTransactions())}
	if fr, err := nd.store.GetFrame(b.RoundReceived()); err == nil {
		for _, fe := range fr.Events {
			v.events = append(v.events, nd.d.byHex[fe.Core.Hex()])
		}
	}
	return v
}

// prefixConsistent compares the delivered block sequences of two nodes (C01).
func prefixConsistent(a, b *hnode) (bool, string) {
	ma := map[int]*hg.Block{}
	for _, x := range a.blocks {
		ma[x.Index()] = x
	}
	for _, y := range b.blocks {
		x, ok := ma[y.Index()]
		if !ok {
			continue
		}
		hx, _ := x.Body.Hash()
		hy, _ := y.Body.Hash()
		if !bytes.Equal(hx, hy) {
			return false, fmt.Sprintf("block %d differs: node %d: %s | node %d: %s", y.Index(), a.id, a.blockLine(x), b.id, b.blockLine(y))
		}
	}
	return true, ""
}

// assignedValuesDiffer: do two nodes disagree on the round, witness flag, Lamport timestamp or round
// received of an event both hold, or on the famous witnesses of a round both decided?
func assignedValuesDiffer(a, b *hnode) bool {
	for _, g := range b.order {
		ea, e1 := a.store.GetEvent(g.ev.Hex())
		eb, e2 := b.store.GetEvent(g.ev.Hex())
		if e1 != nil || e2 != nil {
			continue
		}
		if fo(ea.VerifRound()) != fo(eb.VerifRound()) || fo(ea.VerifLamport()) != fo(eb.VerifLamport()) {
			return true
		}
		if ea.VerifRoundReceived() != nil && eb.VerifRoundReceived() != nil && *ea.VerifRoundReceived() != *eb.VerifRoundReceived() {
			return true
		}
	}
	for rd := 0; rd <= b.store.LastRound(); rd++ {
		ra, e1 := a.store.GetRound(rd)
		rb, e2 := b.store.GetRound(rd)
		if e1 != nil || e2 != nil || !ra.VerifDecided() || !rb.VerifDecided() {
			continue
		}
		fa, fb := ra.FamousWitnesses(), rb.FamousWitnesses()
		sort.Strings(fa)
		sort.Strings(fb)
		if strings.Join(fa, ",") != strings.Join(fb, ",") {
			return true
		}
	}
	return false
}

func isAncestor(a, b *gEvent, memo map[[2]int]bool) bool {
	// a ancestor-or-equal of b
	if a == b {
		return true
	}
	if b == nil || a.num > b.num {
		return false
	}
	k := [2]int{a.num, b.num}
	if v, ok := memo[k]; ok {
		return v
	}
	r := (b.sp != nil && isAncestor(a, b.sp, memo)) || (b.op != nil && isAncestor(a, b.op, memo))
	memo[k] = r
	return r
}

// scenario: everything a hashgraph-level property check needs.
type scenario struct {
	opts  genOpts
	d     *dag
	nodes []*hnode
	cs    []*Case
	canon string
	heldBack int // events held back on purpose in delayed orders (adversarial scenarios)
}

func (sc *scenario) close() {
	for _, n := range sc.nodes {
		n.close()
	}
}

func tmpBadger(tag string) string {
	base := scratchDir
	if base == "" {
		base = os.TempDir()
	}
	dir, err := os.MkdirTemp(base, "bdg-"+tag)
	if err != nil {
		panic(err)
	}
	return filepath.Join(dir, "db")
}

// jsonCopy sends a value through encoding/json as the transport does.
func jsonCopy(in, out interface{}) {
	b, err := json.Marshal(in)
	if err != nil {
		panic(err)
	}
	if err := json.Unmarshal(b, out); err != nil {
		panic(err)
	}
}
