package main

// C17: real Node objects put into every non-babbling state; sequences of sync /
// eager-sync / join / fast-forward requests and transaction submissions; the
// gate's decision is compared with the Lean model (regenerated gate
// expression); refused requests and submissions must leave DAG, head and
// delivered blocks unchanged; a suspended node's sync answer must be the exact
// difference. checkSuspend is driven on nodes without a quorum and on removed
// validators and compared with the model's suspension rule.

import (
	"fmt"
	"math/rand"
	"sort"
	"strings"
	"time"

	hg "github.com/mosaicnetworks/babble/src/hashgraph"
	bnet "github.com/mosaicnetworks/babble/src/net"
	_state "github.com/mosaicnetworks/babble/src/node/state"
)

func init() { runners["C17"] = runC17 }

func (rn *realNode) dagDigest() string {
	var b strings.Builder
	vc := rn.n.VerifCore()
	known := vc.KnownEvents()
	ids := []int{}
	for id := range known {
		ids = append(ids, int(id))
	}
	sort.Ints(ids)
	for _, id := range ids {
		fmt.Fprintf(&b, "k%d=%d;", id, known[uint32(id)])
	}
	fmt.Fprintf(&b, "head%s;seq%d;blocks%d;undet%d;lastround%d;itxpool%d", vc.Head(), vc.Seq(), len(rn.app.delivered), len(vc.Hashgraph().UndeterminedEvents),
		vc.Hashgraph().Store.LastRound(), len(vc.InternalTransactionPool()))
	return b.String()
}

func runC17(r *Result, thorough bool) {
	r.Rule = "real Node objects (inmem transport, inmem application) with honest history, put into Suspended / CatchingUp / Joining / Leaving / Shutdown (and Babbling as control); random sequences (3-8) of Sync / EagerSync / Join / FastForward requests through processRPC and transaction submissions; " +
		"gate decision vs the Lean model; oracle: refused request and submission leave the DAG digest unchanged, submission changes only the pool, suspended sync answer = exact event difference; " +
		"checkSuspend on nodes creating undetermined events without quorum and on removed validators vs the model's rule. non-trivial: sequence of >=3 requests in a non-babbling state"
	rng := rand.New(rand.NewSource(r.Seed))
	rounds := 3
	if thorough {
		rounds = 25
	}
	c := &Case{ID: "gate"}
	states := []_state.State{_state.Suspended, _state.CatchingUp, _state.Joining, _state.Leaving, _state.Shutdown, _state.Babbling}
	for ri := 0; ri < rounds; ri++ {
		nodes := newRealNodes(rng, 3, 1000)
		for k := 0; k < 80; k++ {
			a, b := nodes[rng.Intn(3)], nodes[rng.Intn(3)]
			if a == b {
				continue
			}
			if rng.Intn(2) == 0 {
				b.n.VerifAddTransaction([]byte(fmt.Sprintf("t%d", k)))
			}
			validExchange(a, b)
		}
		target, other := nodes[0], nodes[1]
		for _, st := range states {
			target.n.SetState(st)
			seqLen := 3 + rng.Intn(6)
			nonBabbling := st != _state.Babbling
			for q := 0; q < seqLen; q++ {
				before := target.dagDigest()
				poolBefore := len(target.n.VerifCore().TransactionPool())
				kind := []string{"sync", "eager", "join", "ff", "submit"}[rng.Intn(5)]
				if kind == "submit" {
					target.n.VerifAddTransaction([]byte(fmt.Sprintf("sub-%d-%d", ri, q)))
					r.Inc("submissions_"+st.String(), 1)
					if after := target.dagDigest(); after != before && nonBabbling {
						r.Violate("impl-violation", fmt.Sprintf("a submitted transaction changed the DAG of a %s node: %s -> %s", st, before, after), "submit-changed-dag:"+st.String(), nil)
					}
					if len(target.n.VerifCore().TransactionPool()) != poolBefore+1 {
						r.Violate("impl-violation", fmt.Sprintf("a transaction submitted to a %s node is not pending", st), "submit-lost:"+st.String(), nil)
					}
					continue
				}
				var cmd interface{}
				known := other.n.VerifCore().KnownEvents()
				reqKnown := map[uint32]int{}
				for id, v := range known {
					reqKnown[id] = v - rng.Intn(3)
				}
				limit := 1 + rng.Intn(30)
				switch kind {
				case "sync":
					cmd = &bnet.SyncRequest{FromID: other.n.GetID(), Known: reqKnown, SyncLimit: limit}
				case "eager":
					// a valid new event of `other` pushed to the target
					other.n.VerifAddTransaction([]byte(fmt.Sprintf("e-%d-%d", ri, q)))
					other.n.VerifCore().AddSelfEvent("")
					diff, _ := other.n.VerifCore().EventDiff(target.n.VerifCore().KnownEvents())
					wire, _ := other.n.VerifCore().ToWire(diff)
					cmd = &bnet.EagerSyncRequest{FromID: other.n.GetID(), Events: wire}
				case "join":
					j := newParticipants(rng, 1)[0]
					itx := hg.NewInternalTransactionJoin(*j.peer)
					itx.Sign(j.key)
					cmd = &bnet.JoinRequest{InternalTransaction: itx}
				case "ff":
					cmd = &bnet.FastForwardRequest{FromID: other.n.GetID()}
				}
				var expected []string
				if kind == "sync" {
					diff, err := target.n.VerifCore().EventDiff(reqKnown)
					if err == nil {
						if limit < len(diff) {
							diff = diff[:limit]
						}
						for _, e := range diff {
							expected = append(expected, e.Hex())
						}
					}
				}
				cls, det, resp := rpcCall(target.n, cmd)
				outcome := "handled"
				if cls == "err" && strings.Contains(det, "Not in Babbling state") {
					outcome = "refused"
				}
				if cls == "panic" {
					r.violateFor("C08", "processRPC panics in state "+st.String()+": "+det, "panic:rpc:"+kind, nil)
				}
				c.Op(fmt.Sprintf("RPC gate %s %s", st, kind), "O "+outcome)
				r.Inc("requests_"+st.String()+"_"+outcome, 1)
				after := target.dagDigest()
				if outcome == "refused" && after != before {
					r.Violate("impl-violation", fmt.Sprintf("a refused %s request changed a %s node: %s -> %s", kind, st, before, after), "refused-changed:"+kind, nil)
				}
				if nonBabbling && after != before {
					r.Violate("impl-violation", fmt.Sprintf("a %s request changed the DAG / head / blocks of a %s node (%s): %s -> %s", kind, st, outcome, before, after), "nonbabbling-changed:"+st.String()+":"+kind, nil)
				}
				if kind == "sync" && outcome == "handled" {
					sr, ok := resp.(*bnet.SyncResponse)
					if !ok {
						r.Violate("impl-violation", "sync request handled without a SyncResponse", "sync-noresp", nil)
					} else {
						// the answer must be the exact difference (as wire events of the expected hashes, in order)
						got := []string{}
						for _, w := range sr.Events {
							ev, err := other.n.VerifCore().Hashgraph().ReadWireInfo(w)
							if err != nil {
								// the requester may not know the parents yet (truncated answers); compare by creator/index instead
								got = append(got, fmt.Sprintf("%d/%d", w.Body.CreatorID, w.Body.Index))
								continue
							}
							got = append(got, ev.Hex())
						}
						if len(got) != len(expected) {
							r.Violate("impl-violation", fmt.Sprintf("%s node answered a sync with %d events, the difference has %d", st, len(got), len(expected)), "sync-diff-size:"+st.String(), nil)
						} else {
							for i := range got {
								if strings.HasPrefix(got[i], "0X") && got[i] != expected[i] {
									r.Violate("impl-violation", fmt.Sprintf("%s node: sync answer differs from the exact difference at position %d", st, i), "sync-diff:"+st.String(), nil)
									break
								}
							}
						}
						r.Inc("sync_answers_checked_"+st.String(), 1)
					}
				}
			}
			r.Count(fmt.Sprintf("%d %s %d", ri, st, seqLen), nonBabbling && seqLen >= 3)
		}
		target.n.SetState(_state.Babbling)
	}
	r.Compare(c)
	r.Sample(map[string]interface{}{"gate_ops": clip(c.Ops[:min(len(c.Ops), 12)], 12), "go": c.Obs[:min(len(c.Obs), 12)]}, 8)

	// ---- checkSuspend
	sc := &Case{ID: "suspend"}
	srounds := 2
	if thorough {
		srounds = 12
	}
	for ri := 0; ri < srounds; ri++ {
		// every other round: the peers list (peers.json) is larger than the validator set, as on a
		// node whose peers file is ahead of its hashgraph; the limit counts validators
		realNodeExtraPeers = (ri % 2) * (1 + rng.Intn(2))
		nodes := newRealNodes(rng, 3+rng.Intn(3), 1000)
		realNodeExtraPeers = 0
		t := nodes[0]
		vc := t.n.VerifCore()
		limit := t.n.VerifSuspendLimit()
		suspendedAt := -1
		// no quorum: the node keeps creating events nobody else references
		for k := 0; k < limit*(len(nodes)+2)+8; k++ {
			t.n.VerifAddTransaction([]byte(fmt.Sprintf("m%d", k)))
			vc.AddSelfEvent("")
			undet := len(vc.Hashgraph().UndeterminedEvents)
			lcr := "-"
			if vc.Hashgraph().LastConsensusRound != nil {
				lcr = fmt.Sprint(*vc.Hashgraph().LastConsensusRound)
			}
			t.n.VerifCheckSuspend()
			susp := t.n.GetState() == _state.Suspended
			sc.Op(fmt.Sprintf("RPC suspend %d %d %d %d %s %d %d", undet, t.n.VerifInitialUndeterminedEvents(), limit, vc.Validators().Len(), lcr, vc.RemovedRound(), vc.AcceptedRound()),
				fmt.Sprintf("O %d", boolInt(susp)))
			if susp && suspendedAt < 0 {
				suspendedAt = undet
				r.Inc("suspended_by_undetermined", 1)
				break
			}
		}
		if suspendedAt < 0 {
			r.Violate("impl-violation", fmt.Sprintf("a node without quorum created %d undetermined events (limit %d x %d validators) and never suspended itself", len(vc.Hashgraph().UndeterminedEvents), limit, len(nodes)), "never-suspended", nil)
		} else if suspendedAt != limit*vc.Validators().Len()+1+t.n.VerifInitialUndeterminedEvents() {
			r.Violate("impl-violation", fmt.Sprintf("suspended at %d undetermined events, expected at %d", suspendedAt, limit*vc.Validators().Len()+1), "suspended-at", nil)
		}
		// the same with a request still in flight (a JoinRequest handler waits up to the join timeout for
		// consensus): the node must be Suspended, and refuse pushes, from the moment the limit is exceeded,
		// not only once its routines have finished
		{
			fn := newRealNodes(rng, 3+rng.Intn(2), 1000)
			ft, pusher := fn[0], fn[1]
			fvc := ft.n.VerifCore()
			release := make(chan struct{})
			ft.n.GoFunc(func() { <-release })
			for k := 0; k < ft.n.VerifSuspendLimit()*fvc.Validators().Len()+2; k++ {
				ft.n.VerifAddTransaction([]byte(fmt.Sprintf("f%d", k)))
				fvc.AddSelfEvent("")
			}
			done := make(chan struct{})
			go func() { ft.n.VerifCheckSuspend(); close(done) }()
			time.Sleep(60 * time.Millisecond)
			st := ft.n.GetState()
			before := ft.dagDigest()
			pusher.n.VerifAddTransaction([]byte("push"))
			pusher.n.VerifCore().AddSelfEvent("")
			diff, _ := pusher.n.VerifCore().EventDiff(fvc.KnownEvents())
			wire, _ := pusher.n.VerifCore().ToWire(diff)
			cls, _, _ := rpcCall(ft.n, &bnet.EagerSyncRequest{FromID: pusher.n.GetID(), Events: wire})
			after := ft.dagDigest()
			close(release)
			<-done
			r.Inc("suspensions_with_a_request_in_flight", 1)
			// the suspended node (transactions still pooled) is sent an eager push with no events at all
			if ft.n.GetState() == _state.Suspended {
				ft.n.VerifAddTransaction([]byte("pooled while suspended"))
				b0 := ft.dagDigest()
				cls0, _, _ := rpcCall(ft.n, &bnet.EagerSyncRequest{FromID: pusher.n.GetID(), Events: nil})
				if a0 := ft.dagDigest(); cls0 == "ok" || a0 != b0 {
					r.Violate("impl-violation", fmt.Sprintf("a Suspended node handled an eager push without events (%s): %s -> %s", cls0, b0, a0), "suspended-empty-push", nil)
				}
				r.Inc("empty_pushes_to_a_suspended_node", 1)
			}
			if st != _state.Suspended {
				r.Violate("impl-violation", fmt.Sprintf("over its suspend limit with a request still in flight, the node is %s, not Suspended", st.String()), "suspend-waits-for-routines", nil)
			}
			if cls == "ok" || before != after {
				r.Violate("impl-violation", fmt.Sprintf("over its suspend limit with a request still in flight, the node handled an eager push (%s): %s -> %s", cls, before, after), "suspend-window-push", nil)
			}
		}
		// evicted: removal round reached by the last consensus round (fresh nodes with a high limit so
		// that only the eviction clause can fire)
		realNodeSuspendLimit = 100000
		nodes = newRealNodes(rng, 3+rng.Intn(2), 1000)
		realNodeSuspendLimit = 5
		e := nodes[1]
		for k := 0; k < 120; k++ {
			a, b := nodes[rng.Intn(len(nodes))], nodes[rng.Intn(len(nodes))]
			if a != b {
				b.n.VerifAddTransaction([]byte(fmt.Sprintf("q%d", k)))
				validExchange(a, b)
			}
		}
		ec := e.n.VerifCore()
		if ri%2 == 0 {
			// the removed validator is idle when the heartbeat comes: nothing pending in its pools, no
			// loaded event waiting (exchanges without new transactions until it is not busy)
			for k := 0; k < 400 && ec.Busy(); k++ {
				a, b := nodes[rng.Intn(len(nodes))], nodes[rng.Intn(len(nodes))]
				if a != b {
					validExchange(a, b)
					a.n.VerifCore().ProcessSigPool()
					b.n.VerifCore().ProcessSigPool()
				}
			}
			r.Inc("eviction_checks_on_an_idle_node", boolInt(!ec.Busy()))
		}
		if ec.Hashgraph().LastConsensusRound != nil {
			l := *ec.Hashgraph().LastConsensusRound
			for _, rem := range []int{l + 3, l, 1, 0, -1} {
				e.n.SetState(_state.Babbling)
				ec.SetRemovedRound(rem)
				e.n.VerifCheckSuspend()
				susp := e.n.GetState() == _state.Suspended
				sc.Op(fmt.Sprintf("RPC suspend %d %d %d %d %d %d %d", len(ec.Hashgraph().UndeterminedEvents), e.n.VerifInitialUndeterminedEvents(), e.n.VerifSuspendLimit(), ec.Validators().Len(), l, rem, ec.AcceptedRound()),
					fmt.Sprintf("O %d", boolInt(susp)))
				r.Inc("evicted_checks", 1)
				// the property's own rule: removed from the validator set (removal round reached) => suspended
				if rem > 0 && rem > ec.AcceptedRound() && l >= rem && !susp {
					r.Violate("impl-violation", fmt.Sprintf("a validator whose removal round %d has been reached by its last consensus round %d stays %s after checkSuspend (busy=%v, %d undetermined events)", rem, l, e.n.GetState(), ec.Busy(), len(ec.Hashgraph().UndeterminedEvents)),
						"removed-not-suspended", map[string]interface{}{"removed_round": rem, "last_consensus_round": l, "busy": ec.Busy()})
				}
				if susp {
					r.Inc("suspended_by_eviction", 1)
					break // a suspended node cannot be un-suspended (suspendCh is closed)
				}
			}
		}
		r.Count(fmt.Sprintf("suspend %d %d", ri, len(nodes)), true)
	}
	r.Compare(sc)
}
