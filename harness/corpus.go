package main

// Corpus of scripted hashgraphs (kept from past failures) and delayed-delivery orders.
//
// corpusSlowElection is the hand-designed hashgraph of the seeded change C01 (seeded/C01): 39
// events of 4 validators in which the fame election of d1 (round 1) lasts until round 6 (split
// votes, a coin round) while rounds 2 and 3 are decided in between — decided but not processed —
// and c3, a witness of round 3, has no descendants, so a node may receive it at any later moment,
// in particular inside that window. The randomised generator reaches "a round decided before an
// earlier one" only rarely and never together with a witness arriving in the window.

import (
	"fmt"
	"math/rand"
	"strings"
)

type scriptEv struct {
	creator      int
	name, sp, op string
	tx           bool
}

func parseScript(text string) []scriptEv {
	res := []scriptEv{}
	for _, l := range strings.Split(strings.TrimSpace(text), "\n") {
		f := strings.Fields(l)
		if len(f) < 4 {
			continue
		}
		dash := func(s string) string {
			if s == "-" {
				return ""
			}
			return s
		}
		res = append(res, scriptEv{creator: int(f[0][0] - 'a'), name: f[1], sp: dash(f[2]), op: dash(f[3]), tx: len(f) > 4})
	}
	return res
}

// creator name self-parent other-parent [tx]
var corpusSlowElection = parseScript(`
a a0 - - tx
b b0 - - tx
c c0 - - tx
d d0 - -
b b01 b0 a0
c c01 c0 b01
a a01 a0 c01
b b1 b01 a01 tx
c c1 c01 b1
a a1 a01 c1
d dx d0 - tx
d d1 dx c1
c c11 c1 a1
b b2 b1 c11 tx
a a2 a1 b2
c c12 c11 d1
c c2 c12 b2
d d2 d1 c2
b b21 b2 a2
c c21 c2 b21
a a21 a2 c21 tx
b b3 b21 a21
a a3 a21 b3
c c22 c21 d2
a a31 a3 c22
d d3 d2 a31
c c3 c22 a31
b b31 b3 d3 tx
a a4 a31 b31
d d4 d3 a4
b b4 b31 d4
a a41 a4 b4
d d5 d4 a41
b b5 b4 d5
a a5 a41 b5 tx
d d51 d5 a5
b b6 b5 d51
a a6 a5 b6
d d6 d51 a6
`)

// delayedOrders: the creation order with one event held back: for every event whose first
// descendant comes at least `gap` positions later (or never), every `stride`-th later position up
// to just before that descendant.
func delayedOrders(evs []*gEvent, gap, stride, max int, all ...[]*gEvent) [][]*gEvent {
	res := [][]*gEvent{}
	held := evs
	if len(all) > 0 {
		// only the events of evs are held back, inside the full list all[0]
		evs = all[0]
	}
	isHeld := map[*gEvent]bool{}
	for _, e := range held {
		isHeld[e] = true
	}
	for i, x := range evs {
		if !isHeld[x] {
			continue
		}
		firstChild := len(evs)
		for j := i + 1; j < len(evs); j++ {
			if evs[j].sp == x || evs[j].op == x {
				firstChild = j
				break
			}
		}
		if firstChild-i < gap {
			continue
		}
		start := i + gap
		if start <= i {
			start = i + 2
		}
		if len(all) > 0 && max > 1 {
			// a chosen event: the positions end just before its first descendant and are spread
			// over the whole interval
			if (firstChild-start)/stride >= max {
				stride = (firstChild - start) / (max - 1)
			}
			start = firstChild - stride*((firstChild-start)/stride)
		}
		for p := start; p <= firstChild && len(res) < max; p += stride {
			// x is delivered just before the event that was at position p (or last)
			order := []*gEvent{}
			for j, e := range evs {
				if j == i {
					continue
				}
				if j == p {
					order = append(order, x)
				}
				order = append(order, e)
			}
			if p >= len(evs) {
				order = append(order, x)
			}
			res = append(res, order)
		}
	}
	return res
}

// buildCorpusScenario: the scripted hashgraph on a reference node (creation order) and on one
// node per delayed order.
func buildCorpusScenario(rng *rand.Rand, script []scriptEv, n int, maxOrders int) *scenario {
	d := newDag(rng, n, 0)
	by := map[string]*gEvent{}
	for i, s := range script {
		ntx := 0
		if s.tx {
			ntx = 1
		}
		by[s.name] = d.newEvent(rng, s.creator, by[s.sp], by[s.op], ntx, nil, nil, int64(1600000000+i), 0)
	}
	return scenarioFromDag(rng, d, n, maxOrders, 0, "corpus slow-election")
}

// scenarioFromDag: a finished static DAG on a reference node (creation order), on one node per
// delayed order and on `randomOrders` nodes fed in random topological orders.
func scenarioFromDag(rng *rand.Rand, d *dag, n int, maxOrders, randomOrders int, id string, holdBack ...*gEvent) *scenario {
	o := genOpts{n0: n, steps: len(d.events), extra: len(d.parts) - n}
	sc := &scenario{opts: o, d: d, heldBack: len(holdBack)}
	c := &Case{ID: id}
	c.Op("CASE")
	genesis := []int{}
	for i := 0; i < n; i++ {
		genesis = append(genesis, i)
	}
	ref := newNode(d, 0, 10000, "")
	c.Op(fmt.Sprintf("HG new 0 %s", intsOrDash(genesis)))
	sc.nodes = append(sc.nodes, ref)
	for _, g := range d.events {
		c.Op(g.defLine)
		ref.run(c, g)
		d.noteElection(ref)
	}
	orders := [][]*gEvent{}
	// events to hold back in particular: delivered at every third later position up to their
	// first descendant
	for _, h := range holdBack {
		orders = append(orders, delayedOrders([]*gEvent{h}, 0, 3, maxOrders/2, d.events)...)
	}
	orders = append(orders, delayedOrders(d.events, 3, 2, maxOrders-len(orders))...)
	for k := 0; k < randomOrders; k++ {
		orders = append(orders, randomDelayed(rng, topoOrder(rng, d.events)))
	}
	for k, order := range orders {
		nd := newNode(d, k+1, 10000, "")
		c.Op(fmt.Sprintf("HG new %d %s", k+1, intsOrDash(genesis)))
		sc.nodes = append(sc.nodes, nd)
		feed(nd, c, order, nil)
	}
	for _, nd := range sc.nodes {
		nd.dumpAll(c)
		if nd.retro == 0 {
			nd.dumpDag(c) // the declarative model takes the validator-set table as given for every round
		}
	}
	// frames of the reference node (every processed round still cached)
	ref.dumpFrames(c, ref.processedRounds())
	sc.cs = []*Case{c}
	sc.canon = c.Canon()
	return sc
}

// randomDelayed: the given (topological) order with a few events held back as long as possible,
// or up to a random point before their first descendant.
func randomDelayed(rng *rand.Rand, evs []*gEvent) []*gEvent {
	order := append([]*gEvent{}, evs...)
	for k := 0; k < 1+rng.Intn(3) && len(order) > 4; k++ {
		i := rng.Intn(len(order))
		x := order[i]
		firstChild := len(order)
		for j := i + 1; j < len(order); j++ {
			if order[j].sp == x || order[j].op == x {
				firstChild = j
				break
			}
		}
		if firstChild-i < 2 {
			continue
		}
		p := firstChild
		if rng.Intn(2) == 0 {
			p = i + 1 + rng.Intn(firstChild-i)
		}
		// remove x, insert it before what was at position p
		rest := append(append([]*gEvent{}, order[:i]...), order[i+1:]...)
		q := p - 1
		if q > len(rest) {
			q = len(rest)
		}
		order = append(append(append([]*gEvent{}, rest[:q]...), x), rest[q:]...)
	}
	return order
}
