package main

// C07: event admission. Valid gossip DAGs with hostile variations of events
// injected at random points: accept/reject (and the kind of rejection) is
// compared with the Lean model's admission function; the oracle evaluates the
// admission invariant on the real store after every attempt and checks that a
// rejected event changed nothing.

import (
	"bytes"
	"crypto/ecdsa"
	"crypto/elliptic"
	"crypto/sha256"
	"encoding/json"
	"fmt"
	"math/big"
	"math/rand"
	"sort"
	"strings"

	"github.com/btcsuite/btcd/btcec"
	"github.com/mosaicnetworks/babble/src/crypto/keys"
	hg "github.com/mosaicnetworks/babble/src/hashgraph"
)

func init() { runners["C07"] = runC07 }

type tamper struct {
	kind string
	g    *gEvent
}

// mkEvent builds an arbitrary event (possibly invalid) signed with `key`.
func (d *dag) mkEvent(name string, creator int, pub []byte, key *ecdsa.PrivateKey, spHex, opHex, spName, opName string, index int,
	txs [][]byte, txNums []int, itxs []hg.InternalTransaction, itxDesc []string, ts int64) *gEvent {
	e := hg.NewEvent(txs, itxs, nil, []string{spHex, opHex}, pub, index)
	e.Body.Timestamp = ts
	e.Sign(key)
	g := &gEvent{name: name, num: -1, ev: e, creator: creator, txs: txNums, itx: itxDesc}
	return g
}

// defLineRaw: definition line with explicit parent names and signature bit.
func (d *dag) defLineRaw(g *gEvent, spName, opName string, sigok bool) string {
	r, _, _ := keys.DecodeSignature(g.ev.Signature)
	rs := "0"
	if r != nil {
		rs = r.String()
	}
	mid := 0
	if hg.VerifMiddleBit(g.ev.Hex()) {
		mid = 1
	}
	so := 0
	if sigok {
		so = 1
	}
	return fmt.Sprintf("HG ev %s %d %d %s %s %d %s %d %s %s %d", g.name, g.creator, g.ev.Index(), spName, opName, g.ev.Timestamp(), rs, mid, intsOrDash(g.txs), listOrDash(g.itx), so)
}

// storeDigest: everything a rejected event must leave unchanged.
func (nd *hnode) storeDigest() string {
	var b strings.Builder
	known := nd.store.KnownEvents()
	ids := []int{}
	for id := range known {
		ids = append(ids, int(id))
	}
	sort.Ints(ids)
	for _, id := range ids {
		fmt.Fprintf(&b, "k%d=%d;", id, known[uint32(id)])
	}
	for _, p := range nd.d.parts {
		evs, err := nd.store.ParticipantEvents(p.hex, -1)
		if err == nil {
			fmt.Fprintf(&b, "p%s;", strings.Join(evs, ","))
		}
		last, err := nd.store.LastEventFrom(p.hex)
		fmt.Fprintf(&b, "l%s%v;", last, err != nil)
	}
	fmt.Fprintf(&b, "u%d;r%d;b%d;t%d;lb%d;", len(nd.h.UndeterminedEvents), nd.store.LastRound(), len(nd.blocks), nd.h.VerifNextTopologicalIndex(), nd.store.LastBlockIndex())
	fmt.Fprintf(&b, "sp%d;", nd.h.PendingSignatures.Len())
	for r := 0; r <= nd.store.LastRound(); r++ {
		if ri, err := nd.store.GetRound(r); err == nil {
			fmt.Fprintf(&b, "R%d:%d:%d:%v;", r, len(ri.CreatedEvents), len(ri.ReceivedEvents), ri.VerifDecided())
		}
	}
	return b.String()
}

// admInvOracle evaluates the admission invariant on the real store.
func (nd *hnode) admInvOracle() string {
	for ci, p := range nd.d.parts {
		evs, err := nd.store.ParticipantEvents(p.hex, -1)
		if err != nil {
			continue // not a participant (yet)
		}
		prev := ""
		for i, h := range evs {
			e, err := nd.store.GetEvent(h)
			if err != nil {
				return fmt.Sprintf("creator %d: listed event %d not readable: %v", ci, i, err)
			}
			if e.Index() != i {
				return fmt.Sprintf("creator %d: event at position %d has index %d", ci, i, e.Index())
			}
			if e.SelfParent() != prev {
				return fmt.Sprintf("creator %d: event %d self-parent is not the creator's previous event", ci, i)
			}
			if e.Creator() != p.hex {
				return fmt.Sprintf("creator %d: event %d has another creator", ci, i)
			}
			if op := e.OtherParent(); op != "" {
				if _, err := nd.store.GetEvent(op); err != nil {
					return fmt.Sprintf("creator %d: event %d other-parent unknown", ci, i)
				}
			}
			ok, err := e.Verify()
			if err != nil || !ok {
				return fmt.Sprintf("creator %d: event %d does not verify", ci, i)
			}
			prev = h
		}
		k, ok := nd.store.KnownEvents()[p.peer.ID()]
		if ok && k != len(evs)-1 {
			return fmt.Sprintf("creator %d: known index %d but %d events listed", ci, k, len(evs))
		}
	}
	return ""
}

func parentName(g *gEvent) string {
	if g == nil {
		return "-"
	}
	return g.name
}

func safeVerify(e *hg.Event) (ok bool, panicked bool) {
	defer func() {
		if r := recover(); r != nil {
			ok, panicked = false, true
		}
	}()
	ok, err := e.Verify()
	return ok && err == nil, false
}

// specVerify: what a signature has to cover, recomputed here without the repository's Hash / Sign /
// Verify functions: the digest of an event is the SHA-256 of the JSON encoding of its *whole* body,
// the digest of a membership request is the SHA-256 of the JSON encoding of its *whole* body (type
// and peer), signatures are "r|s" in base 36 over that digest, by the event's creator and by the
// peer the request concerns. Only the struct definitions, encoding/json and crypto/ecdsa are used.
func specVerify(e *hg.Event) (ok bool) {
	defer func() {
		if rec := recover(); rec != nil {
			ok = false
		}
	}()
	digest := func(v interface{}) []byte {
		var b bytes.Buffer
		if err := json.NewEncoder(&b).Encode(v); err != nil {
			panic(err)
		}
		h := sha256.Sum256(b.Bytes())
		return h[:]
	}
	check := func(pub []byte, dg []byte, sig string) bool {
		parts := strings.Split(sig, "|")
		if len(parts) != 2 {
			return false
		}
		rr, ok1 := new(big.Int).SetString(parts[0], 36)
		ss, ok2 := new(big.Int).SetString(parts[1], 36)
		if !ok1 || !ok2 {
			return false
		}
		x, y := elliptic.Unmarshal(btcec.S256(), pub) // secp256k1, uncompressed point
		if x == nil {
			return false
		}
		return ecdsa.Verify(&ecdsa.PublicKey{Curve: btcec.S256(), X: x, Y: y}, dg, rr, ss)
	}
	for i := range e.Body.InternalTransactions {
		itx := e.Body.InternalTransactions[i]
		if !check(itx.Body.Peer.PubKeyBytes(), digest(&itx.Body), itx.Signature) {
			return false
		}
	}
	return check(e.Body.Creator, digest(&e.Body), e.Signature)
}

func runC07(r *Result, thorough bool) {
	r.Rule = "valid gossip DAGs (3-6 validators, optional joiner) fed to a real Hashgraph with hostile variations injected at random points " +
		"(tampered payload, wrong/duplicate/negative/skipped index re-signed by the creator, first event with index != 0, unknown or future parents, " +
		"foreign creator, equivocation, replay, bad internal-transaction signature, genuine membership requests replayed with another type or address, self-parent of another creator; and the sync path: events in wire form rebuilt by ReadWireInfo with tampered index / self-parent index / other-parent index, re-signed by the creator, inserted as core.sync does); accept / rejection kind compared " +
		"with the Lean admission function (its signature bit is recomputed independently: SHA-256 of the JSON of the whole body, secp256k1); oracle: Event.Verify agrees with that recomputation, admission invariant on the real store after every attempt, digest unchanged on rejection. " +
		"non-trivial: >=1 accepted and rejected attempts of >=3 different kinds"
	rng := rand.New(rand.NewSource(r.Seed))
	cases := 6
	if thorough {
		cases = 100
	}
	for ci := 0; ci < cases; ci++ {
		o := genOpts{n0: 3 + rng.Intn(4), steps: 50 + rng.Intn(60), txRate: 3, staleOp: rng.Intn(2) == 0}
		if rng.Intn(3) == 0 {
			o.extra = 1
			o.steps += 120
		}
		if thorough {
			o.steps += rng.Intn(150)
		}
		d := newDag(rng, o.n0, o.extra)
		c := &Case{ID: "c07 " + o.String()}
		c.Op("CASE")
		genesis := []int{}
		for i := 0; i < o.n0; i++ {
			genesis = append(genesis, i)
		}
		ref := newNode(d, 0, 10000, "")
		c.Op(fmt.Sprintf("HG new 0 %s", intsOrDash(genesis)))
		generate(rng, o, c, ref)
		nd := newNode(d, 1, 10000, "")
		c.Op(fmt.Sprintf("HG new 1 %s", intsOrDash(genesis)))
		foreign := newParticipants(rng, 1)[0]
		kinds := map[string]int{}
		accepted, rejected := 0, 0
		tn := 0
		setWire := true // false: the event comes from ReadWireInfo, as in core.sync
		attempt := func(g *gEvent, spName, opName, kind string) {
			ok, panicked := safeVerify(&hg.Event{Body: g.ev.Body, Signature: g.ev.Signature})
			if panicked {
				r.Inc("verify_panics_skipped", 1)
				return
			}
			// the signature bit handed to the model is recomputed independently (whole bodies covered)
			spec := specVerify(&hg.Event{Body: g.ev.Body, Signature: g.ev.Signature})
			if spec != ok {
				r.Violate("impl-violation", fmt.Sprintf("Event.Verify says %v for a %s attempt, but the signatures %s the whole bodies (event body, membership request type and peer)",
					ok, kind, map[bool]string{true: "do cover", false: "do not cover"}[spec]), "signature-scope:"+kind, map[string]interface{}{"kind": kind, "ops": clip(c.Ops, 300)})
			}
			r.Inc("signature_checks_recomputed", 1)
			c.Op(d.defLineRaw(g, spName, opName, spec))
			before := nd.storeDigest()
			var err error
			func() {
				defer func() {
					if rec := recover(); rec != nil {
						err = fmt.Errorf("PANIC %v", rec)
					}
				}()
				cp := &hg.Event{Body: g.ev.Body, Signature: g.ev.Signature}
				err = nd.h.InsertEventAndRunConsensus(cp, setWire)
			}()
			op := fmt.Sprintf("HG run 1 %s", g.name)
			if err != nil {
				c.Op(op, "O rej "+rejKind(err))
				rejected++
				kinds[kind+":"+rejKind(err)]++
				r.Inc("rejected_"+kind, 1)
				if after := nd.storeDigest(); after != before {
					r.Violate("impl-violation", fmt.Sprintf("rejected event (%s, %v) changed the store: before %s after %s", kind, err, before, after), "rejected-not-noop", map[string]interface{}{"kind": kind, "ops": clip(c.Ops, 600)})
				}
			} else {
				nd.inserted[g.name] = true
				nd.order = append(nd.order, g)
				if _, known := d.byHex[g.ev.Hex()]; !known {
					d.byHex[g.ev.Hex()] = g
				}
				c.Op(op, append([]string{"O acc", fmt.Sprintf("O pl %d", nd.h.PendingLoadedEvents)}, nd.newBlockLines()...)...)
				accepted++
				r.Inc("accepted_"+kind, 1)
			}
			if what := nd.admInvOracle(); what != "" {
				r.Violate("impl-violation", fmt.Sprintf("after a %s attempt (%v): %s", kind, err, what), "adminv:"+kind, map[string]interface{}{"kind": kind, "ops": clip(c.Ops, 600)})
			}
		}
		nameOfHex := func(h string) string {
			if h == "" {
				return "-"
			}
			if g, ok := d.byHex[h]; ok {
				return g.name
			}
			return "unknown"
		}
		variant := func(base *gEvent, kind string) {
			tn++
			name := fmt.Sprintf("t%d", 100000+tn)
			c0 := d.parts[base.creator]
			pub := keys.FromPublicKey(&c0.key.PublicKey)
			spHex, opHex := base.ev.SelfParent(), base.ev.OtherParent()
			idx := base.ev.Index()
			key := c0.key
			creator := base.creator
			txs := base.ev.Transactions()
			itxs := base.ev.InternalTransactions()
			switch kind {
			case "index+1":
				idx++
			case "index-1":
				idx--
			case "index-same-as-parent":
				if base.sp == nil {
					return
				}
				idx = base.sp.ev.Index()
			case "index-negative":
				idx = -1 - rng.Intn(5)
			case "index-skip":
				idx += 2 + rng.Intn(6)
			case "unknown-selfparent":
				spHex = fmt.Sprintf("0X%064X", rng.Uint64())
			case "unknown-otherparent":
				opHex = fmt.Sprintf("0X%064X", rng.Uint64())
			case "foreign-creator":
				pub = keys.FromPublicKey(&foreign.key.PublicKey)
				key = foreign.key
				creator = len(d.parts) // not a known creator number
			case "wrong-key":
				key = foreign.key // signed by somebody else
			case "selfparent-of-other":
				if base.op == nil {
					return
				}
				spHex = base.ev.OtherParent()
			case "no-selfparent":
				if base.sp == nil {
					return
				}
				spHex = ""
			case "extra-tx":
				txs = append(append([][]byte{}, txs...), []byte("injected"))
			}
			var g *gEvent
			if kind == "tampered-payload" {
				// keep the signature, change the payload
				e := hg.NewEvent(append(append([][]byte{}, txs...), []byte("evil")), itxs, nil, []string{spHex, opHex}, pub, idx)
				e.Body.Timestamp = base.ev.Timestamp()
				e.Signature = base.ev.Signature
				g = &gEvent{name: name, num: -1, ev: e, creator: creator, txs: base.txs, itx: base.itx}
			} else if kind == "itx-replayed-type-flipped" || kind == "itx-replayed-peer-changed" {
				// a genuine request signed by the peer it concerns, replayed with another type / address
				itx := hg.NewInternalTransactionJoin(*foreign.peer)
				itx.Sign(foreign.key)
				desc := fmt.Sprintf("+%d", len(d.parts))
				if kind == "itx-replayed-type-flipped" {
					itx.Body.Type = hg.PEER_REMOVE
					desc = fmt.Sprintf("-%d", len(d.parts))
				} else {
					itx.Body.Peer.NetAddr = "10.6.6.6:1337"
				}
				g = d.mkEvent(name, creator, pub, key, spHex, opHex, "", "", idx, txs, base.txs, []hg.InternalTransaction{itx}, []string{desc}, base.ev.Timestamp())
			} else if kind == "itx-forged-rides-on-genuine" {
				// two requests in one event: a genuine one, then a forged one about the same peer that
				// re-uses the genuine signature string
				good := hg.NewInternalTransactionJoin(*foreign.peer)
				good.Sign(foreign.key)
				forged := hg.NewInternalTransactionLeave(*foreign.peer)
				forged.Signature = good.Signature
				g = d.mkEvent(name, creator, pub, key, spHex, opHex, "", "", idx, txs, base.txs, []hg.InternalTransaction{good, forged},
					[]string{fmt.Sprintf("+%d", len(d.parts)), fmt.Sprintf("-%d", len(d.parts))}, base.ev.Timestamp())
			} else if kind == "bad-itx-signature" {
				itx := hg.NewInternalTransactionJoin(*foreign.peer)
				itx.Sign(c0.key) // must be signed by the peer it concerns
				g = d.mkEvent(name, creator, pub, key, spHex, opHex, "", "", idx, txs, base.txs, []hg.InternalTransaction{itx}, []string{fmt.Sprintf("+%d", len(d.parts))}, base.ev.Timestamp())
			} else {
				nums := base.txs
				if kind == "extra-tx" {
					d.txSeq++
					nums = append(append([]int{}, nums...), d.txSeq)
				}
				g = d.mkEvent(name, creator, pub, key, spHex, opHex, "", "", idx, txs, nums, itxs, base.itx, base.ev.Timestamp())
			}
			attempt(g, nameOfHex(spHex), nameOfHex(opHex), kind)
		}
		// the sync path: the event travels in wire form (creator id and parent *indexes*), the
		// victim rebuilds parents and index with ReadWireInfo, a Byzantine creator signs whatever
		// body that yields; inserted without recomputing the wire info, as core.sync does
		wireVariant := func(base *gEvent, kind string) {
			stored, err := ref.store.GetEvent(base.ev.Hex())
			if err != nil {
				return
			}
			w := stored.ToWire()
			switch kind {
			case "wire-valid":
			case "wire-first-negative":
				if base.sp != nil {
					return
				}
				k := -2 - rng.Intn(4)
				w.Body.SelfParentIndex = k
				w.Body.Index = k + 1
			case "wire-index-shift":
				w.Body.Index += []int{-2, -1, 1, 2, 5}[rng.Intn(5)]
			case "wire-selfparent-back":
				if w.Body.SelfParentIndex < 1 {
					return
				}
				w.Body.SelfParentIndex -= 1 + rng.Intn(w.Body.SelfParentIndex)
				w.Body.Index = w.Body.SelfParentIndex + 1
			case "wire-selfparent-negative":
				w.Body.SelfParentIndex = -2 - rng.Intn(4)
			case "wire-otherparent-negative":
				w.Body.OtherParentIndex = -2 - rng.Intn(4)
			}
			before := nd.storeDigest()
			var ev1 *hg.Event
			func() {
				defer func() {
					if rec := recover(); rec != nil {
						err = fmt.Errorf("PANIC %v", rec)
					}
				}()
				ev1, err = nd.h.ReadWireInfo(w)
			}()
			if err != nil || ev1 == nil {
				r.Inc("wire_unreadable_"+kind, 1)
				if after := nd.storeDigest(); after != before {
					r.Violate("impl-violation", fmt.Sprintf("an unreadable wire event (%s, %v) changed the store", kind, err), "rejected-not-noop", map[string]interface{}{"kind": kind})
				}
				return
			}
			if kind != "wire-valid" {
				if ev1.Hex() == base.ev.Hex() {
					r.Inc("wire_tampering_without_effect", 1)
					return // the victim rebuilt the original event: nothing hostile about it
				}
				ev1.Sign(d.parts[base.creator].key) // Byzantine creator: signs the body the victim rebuilds
			}
			tn++
			name := fmt.Sprintf("t%d", 100000+tn)
			if kind == "wire-valid" {
				if nd.inserted[base.name] {
					return
				}
				name = base.name
			}
			g := &gEvent{name: name, num: -1, ev: ev1, creator: base.creator, txs: base.txs, itx: base.itx, sp: base.sp, op: base.op}
			setWire = false
			attempt(g, nameOfHex(ev1.SelfParent()), nameOfHex(ev1.OtherParent()), kind)
			setWire = true
		}
		wireKinds := []string{"wire-first-negative", "wire-first-negative", "wire-index-shift", "wire-index-shift", "wire-selfparent-back", "wire-selfparent-back", "wire-selfparent-negative", "wire-selfparent-negative", "wire-otherparent-negative"}
		allKinds := []string{"index+1", "index-1", "index-same-as-parent", "index-negative", "index-skip", "unknown-selfparent", "unknown-otherparent",
			"foreign-creator", "wrong-key", "selfparent-of-other", "no-selfparent", "tampered-payload", "bad-itx-signature", "itx-replayed-type-flipped", "itx-replayed-peer-changed", "itx-forged-rides-on-genuine"}
		for i, g := range d.events {
			// hostile variations of the event that is about to be inserted
			if rng.Intn(3) == 0 {
				variant(g, allKinds[rng.Intn(len(allKinds))])
			}
			if rng.Intn(3) == 0 || (g.sp == nil && rng.Intn(2) == 0) {
				wireVariant(g, wireKinds[rng.Intn(len(wireKinds))])
			}
			if rng.Intn(3) == 0 {
				wireVariant(g, "wire-valid")
			}
			// a future event (parents not yet known)
			if rng.Intn(12) == 0 && i+3 < len(d.events) {
				f := d.events[i+1+rng.Intn(2)]
				if (f.sp != nil && !nd.inserted[f.sp.name]) || (f.op != nil && !nd.inserted[f.op.name]) {
					attempt(f, parentName(f.sp), parentName(f.op), "future")
				}
			}
			// the valid event itself (same name as on the reference node: it is the same event)
			if !nd.inserted[g.name] {
				attempt(g, parentName(g.sp), parentName(g.op), "valid")
			}
			// replay and equivocation
			if rng.Intn(10) == 0 {
				attempt(g, parentName(g.sp), parentName(g.op), "replay")
			}
			if rng.Intn(10) == 0 {
				variant(g, "extra-tx") // same parents and index as the event just inserted: a fork
			}
		}
		// model-side names: the valid events were defined twice (e<k> by the generator for node 0 and t<k> for node 1); fine.
		nd.dumpLast(c)
		nk := 0
		for range kinds {
			nk++
		}
		r.Count(c.Canon(), accepted >= 1 && nk >= 3)
		r.Inc("attempts_accepted", accepted)
		r.Inc("attempts_rejected", rejected)
		r.Inc("scenarios", 1)
		if ci == 0 {
			ks := []string{}
			for k, v := range kinds {
				ks = append(ks, fmt.Sprintf("%s=%d", k, v))
			}
			sort.Strings(ks)
			r.Sample(map[string]interface{}{"options": o.String(), "rejections_by_kind": ks, "accepted": accepted, "last_ops": clip(c.Ops, 12)}, 8)
		}
		r.Compare(c)
		ref.close()
		nd.close()
	}
	// corpus: the pre-repair witnesses of defect D7 must now be refused
	corpusC07(r, rng)
}

// corpusC07 replays the inputs that the unrepaired InsertEvent accepted.
func corpusC07(r *Result, rng *rand.Rand) {
	d := newDag(rng, 3, 0)
	nd := newNode(d, 0, 100, "")
	defer nd.close()
	pub := func(i int) []byte { return keys.FromPublicKey(&d.parts[i].key.PublicKey) }
	try := func(what string, e *hg.Event, wantReject bool) {
		err := nd.h.InsertEventAndRunConsensus(e, true)
		r.Inc("corpus_cases", 1)
		if wantReject && err == nil {
			r.Violate("impl-violation", "corpus: "+what+" was accepted", "corpus:"+what, map[string]string{"case": what})
		}
		if !wantReject && err != nil {
			r.Violate("impl-violation", "corpus: "+what+" was refused: "+err.Error(), "corpus-valid:"+what, map[string]string{"case": what})
		}
		if w := nd.admInvOracle(); w != "" {
			r.Violate("impl-violation", "corpus: after "+what+": "+w, "corpus-adminv:"+what, map[string]string{"case": what})
		}
	}
	mk := func(c int, sp, op string, idx int) *hg.Event {
		e := hg.NewEvent(nil, nil, nil, []string{sp, op}, pub(c), idx)
		e.Sign(d.parts[c].key)
		return e
	}
	try("first event with index 7", mk(0, "", "", 7), true)
	try("first event with index -4", mk(0, "", "", -4), true)
	e0 := mk(0, "", "", 0)
	try("first event with index 0", e0, false)
	try("second event with the index of its self-parent", mk(0, e0.Hex(), "", 0), true)
	try("second event with a skipped index", mk(0, e0.Hex(), "", 2), true)
	topo := nd.h.VerifNextTopologicalIndex()
	if topo != 1 {
		r.Violate("impl-violation", fmt.Sprintf("corpus: refused events consumed topological indexes (next=%d, want 1)", topo), "corpus:topological-hole", map[string]int{"next": topo})
	}
	try("second event with index 1", mk(0, e0.Hex(), "", 1), false)
}
