package main

// C20: the application proxy is transparent. Both real socket proxies over
// loopback TCP and the in-process proxy in front of the same handler: blocks
// with arbitrary binary content, commit responses, snapshots, transactions
// (empty, large, non-UTF-8) must arrive byte identical and in submission order;
// a fault-injecting endpoint (connection refused / dropped mid-call / garbage
// reply) must surface as an error, never as an empty success; the number of
// attempts is compared with the Lean retry-loop model.

import (
	"bytes"
	"encoding/json"
	"fmt"
	"math/rand"
	"net"
	"sync"
	"sync/atomic"
	"time"

	hg "github.com/mosaicnetworks/babble/src/hashgraph"
	_state "github.com/mosaicnetworks/babble/src/node/state"
	"github.com/mosaicnetworks/babble/src/peers"
	"github.com/mosaicnetworks/babble/src/proxy"
	"github.com/mosaicnetworks/babble/src/proxy/inmem"
	aproxy "github.com/mosaicnetworks/babble/src/proxy/socket/app"
	bproxy "github.com/mosaicnetworks/babble/src/proxy/socket/babble"
)

func init() { runners["C20"] = runC20 }

// recording handler: what the application side received and what it answers
type recHandler struct {
	mu        sync.Mutex
	blocks    []string // JSON of received blocks
	answers   []proxy.CommitResponse
	restored  [][]byte
	snapshots map[int][]byte
	states    []_state.State
	rng       *rand.Rand
}

func (h *recHandler) CommitHandler(b hg.Block) (proxy.CommitResponse, error) {
	h.mu.Lock()
	defer h.mu.Unlock()
	js, _ := json.Marshal(b)
	h.blocks = append(h.blocks, string(js))
	sh := make([]byte, 1+h.rng.Intn(40))
	h.rng.Read(sh)
	receipts := []hg.InternalTransactionReceipt{}
	for i, it := range b.InternalTransactions() {
		if i%2 == 0 {
			receipts = append(receipts, it.AsAccepted())
		} else {
			receipts = append(receipts, it.AsRefused())
		}
	}
	resp := proxy.CommitResponse{StateHash: sh, InternalTransactionReceipts: receipts}
	h.answers = append(h.answers, resp)
	return resp, nil
}
func (h *recHandler) SnapshotHandler(i int) ([]byte, error) {
	h.mu.Lock()
	defer h.mu.Unlock()
	if s, ok := h.snapshots[i]; ok {
		return s, nil
	}
	return nil, fmt.Errorf("no snapshot %d", i)
}
func (h *recHandler) RestoreHandler(s []byte) ([]byte, error) {
	h.mu.Lock()
	defer h.mu.Unlock()
	h.restored = append(h.restored, append([]byte{}, s...))
	return []byte("restored"), nil
}
func (h *recHandler) StateChangeHandler(s _state.State) error {
	h.mu.Lock()
	defer h.mu.Unlock()
	h.states = append(h.states, s)
	return nil
}

func freePort() string {
	l, err := net.Listen("tcp", "127.0.0.1:0")
	if err != nil {
		panic(err)
	}
	a := l.Addr().String()
	l.Close()
	return a
}

func randomBlock(rng *rand.Rand, k int) hg.Block {
	txs := payloadVariants(rng, k)
	if rng.Intn(3) == 0 {
		big := make([]byte, 20000+rng.Intn(50000))
		rng.Read(big)
		txs = append(txs, big)
	}
	itxs := []hg.InternalTransaction{}
	for i := 0; i < rng.Intn(3); i++ {
		p := newParticipants(rng, 1)[0]
		it := hg.NewInternalTransactionJoin(*p.peer)
		it.Sign(p.key)
		itxs = append(itxs, it)
	}
	ps := []*peers.Peer{}
	for _, p := range newParticipants(rng, 1+rng.Intn(3)) {
		ps = append(ps, p.peer)
	}
	fh := make([]byte, 32)
	rng.Read(fh)
	b := hg.NewBlock(k, k+rng.Intn(5), fh, ps, txs, itxs, rng.Int63())
	if rng.Intn(2) == 0 {
		sig, _ := b.Sign(newParticipants(rng, 1)[0].key)
		b.SetSignature(sig)
	}
	return *b
}

func runC20(r *Result, thorough bool) {
	r.Rule = "type-directed blocks (nil / empty / binary / duplicate / 20-70 kB transactions, 0-2 internal transactions, optional signatures), commit responses with binary state hashes and accept/refuse receipts, snapshots, transactions (empty, large, non-UTF-8) through both real socket proxies over loopback TCP and through the in-process proxy, in front of one recording handler: " +
		"every value compared byte for byte on both sides, submission order per connection; fault injection: endpoint refusing connections, closing mid-call, answering garbage, at every call position: the proxy call must return an error (never a zero-valued success), and the number of connection attempts must be what the Lean retry model predicts. non-trivial: payload > 1 kB, non-UTF-8 or empty, or a dropped connection"
	rng := rand.New(rand.NewSource(r.Seed))
	n := 25
	if thorough {
		n = 200
	}
	// --- transparent path: socket proxies
	h := &recHandler{snapshots: map[int][]byte{}, rng: rand.New(rand.NewSource(r.Seed + 1))}
	appAddr, babbleAddr := freePort(), freePort()
	timeout := 2 * time.Second
	// Babble side: AppProxy that dials the application at appAddr and listens for submissions at babbleAddr
	ap, err := aproxy.NewSocketAppProxy(appAddr, babbleAddr, timeout, quiet())
	if err != nil {
		panic(err)
	}
	// application side: listens at appAddr, submits to babbleAddr
	bp, err := bproxy.NewSocketBabbleProxy(babbleAddr, appAddr, h, timeout, quiet())
	if err != nil {
		panic(err)
	}
	// in-process reference with the same handler type
	h2 := &recHandler{snapshots: map[int][]byte{}, rng: rand.New(rand.NewSource(r.Seed + 1))}
	ip := inmem.NewInmemProxy(h2, quiet())
	for k := 0; k < n; k++ {
		blk := randomBlock(rng, k)
		want, _ := json.Marshal(blk)
		resp, err := ap.CommitBlock(blk)
		resp2, err2 := ip.CommitBlock(blk)
		big := len(want) > 1000
		r.Count(fmt.Sprintf("block %d %d", k, len(want)), big || len(blk.Transactions()) == 0)
		if err != nil || err2 != nil {
			r.Violate("impl-violation", fmt.Sprintf("CommitBlock failed on a healthy connection: %v / %v", err, err2), "commit-error", nil)
			continue
		}
		h.mu.Lock()
		got := h.blocks[len(h.blocks)-1]
		ans := h.answers[len(h.answers)-1]
		h.mu.Unlock()
		var gb hg.Block
		json.Unmarshal([]byte(got), &gb)
		gh, _ := gb.Body.Hash()
		wh, _ := blk.Body.Hash()
		if !bytes.Equal(gh, wh) || !sameTxs(gb.Transactions(), blk.Transactions()) || len(gb.Signatures) != len(blk.Signatures) || gb.Index() != blk.Index() {
			r.Violate("impl-violation", fmt.Sprintf("block %d arrived at the application with different content through the socket proxy", k), "socket-block-differs", nil)
		}
		h2.mu.Lock()
		got2 := h2.blocks[len(h2.blocks)-1]
		h2.mu.Unlock()
		var gb2 hg.Block
		json.Unmarshal([]byte(got2), &gb2)
		g2h, _ := gb2.Body.Hash()
		if !bytes.Equal(g2h, wh) {
			r.Violate("impl-violation", fmt.Sprintf("block %d arrived with different content through the in-process proxy", k), "inmem-block-differs", nil)
		}
		// what Babble receives back is what the application returned
		if !bytes.Equal(resp.StateHash, ans.StateHash) || len(resp.InternalTransactionReceipts) != len(ans.InternalTransactionReceipts) {
			r.Violate("impl-violation", fmt.Sprintf("commit response of block %d changed on its way back (state hash %x vs %x)", k, resp.StateHash, ans.StateHash), "socket-response-differs", nil)
		}
		for i := range resp.InternalTransactionReceipts {
			if i < len(ans.InternalTransactionReceipts) && resp.InternalTransactionReceipts[i].Accepted != ans.InternalTransactionReceipts[i].Accepted {
				r.Violate("impl-violation", "receipt decision changed on its way back", "socket-receipt-differs", nil)
			}
		}
		if !bytes.Equal(resp.StateHash, resp2.StateHash) {
			r.Violate("impl-violation", "socket and in-process proxies returned different state hashes for the same handler", "proxies-disagree", nil)
		}
		// snapshots
		snap := make([]byte, rng.Intn(3000))
		rng.Read(snap)
		h.mu.Lock()
		h.snapshots[k] = snap
		h.mu.Unlock()
		gs, err := ap.GetSnapshot(k)
		if err != nil || !bytes.Equal(gs, snap) {
			r.Violate("impl-violation", fmt.Sprintf("snapshot %d changed through the socket proxy (err %v)", k, err), "socket-snapshot", nil)
		}
		if err := ap.Restore(snap); err != nil {
			r.Violate("impl-violation", "Restore failed on a healthy connection: "+err.Error(), "socket-restore", nil)
		} else {
			h.mu.Lock()
			last := h.restored[len(h.restored)-1]
			h.mu.Unlock()
			if !bytes.Equal(last, snap) {
				r.Violate("impl-violation", "restored snapshot differs", "socket-restore-differs", nil)
			}
		}
		if _, err := ap.GetSnapshot(-5); err == nil {
			r.Violate("impl-violation", "an application error (unknown snapshot) came back as success", "error-as-success", nil)
		}
	}
	// submissions: byte identical and in order per connection
	sub := [][]byte{}
	done := make(chan struct{})
	go func() {
		for i := 0; i < 3*n; i++ {
			select {
			case tx := <-ap.SubmitCh():
				sub = append(sub, tx)
			case <-time.After(5 * time.Second):
				close(done)
				return
			}
		}
		close(done)
	}()
	sent := [][]byte{}
	for i := 0; i < 3*n; i++ {
		var tx []byte
		switch i % 5 {
		case 0:
			tx = []byte{}
		case 1:
			tx = []byte{0xff, 0xfe, 0x00, 0x80, byte(i)}
		case 2:
			tx = make([]byte, 30000+rng.Intn(30000))
			rng.Read(tx)
		default:
			tx = []byte(fmt.Sprintf("tx-%d", i))
		}
		sent = append(sent, tx)
		if err := bp.SubmitTx(tx); err != nil {
			r.Violate("impl-violation", "SubmitTx failed on a healthy connection: "+err.Error(), "submit-error", nil)
		}
		r.Count(fmt.Sprintf("tx %d", i), len(tx) == 0 || len(tx) > 1000 || i%5 == 1)
	}
	<-done
	if len(sub) != len(sent) {
		r.Violate("impl-violation", fmt.Sprintf("%d transactions submitted, %d reached the node", len(sent), len(sub)), "submit-count", nil)
	}
	for i := range sub {
		if i < len(sent) && !bytes.Equal(sub[i], sent[i]) {
			r.Violate("impl-violation", fmt.Sprintf("transaction %d reached the node with different bytes or out of order (len %d vs %d)", i, len(sub[i]), len(sent[i])), "submit-bytes-order", nil)
			break
		}
	}
	r.Inc("blocks_through_proxies", n)
	r.Inc("transactions_submitted", len(sent))

	// --- fault injection: a fake application endpoint
	c := &Case{ID: "retry"}
	faults := []string{"refuse", "close", "garbage", "ok-after-1", "ok-after-2", "ok-after-3"}
	for _, f := range faults {
		addr := freePort()
		var accepts int32
		var ln net.Listener
		stop := make(chan struct{})
		okAfter := -1
		fmt.Sscanf(f, "ok-after-%d", &okAfter)
		if f != "refuse" {
			ln, err = net.Listen("tcp", addr)
			if err != nil {
				panic(err)
			}
			go func(f string) {
				for {
					conn, err := ln.Accept()
					if err != nil {
						return
					}
					k := int(atomic.AddInt32(&accepts, 1))
					go func(conn net.Conn, k int) {
						defer conn.Close()
						buf := make([]byte, 1<<20)
						conn.SetReadDeadline(time.Now().Add(2 * time.Second))
						nr, _ := conn.Read(buf)
						switch {
						case f == "close":
							return
						case f == "garbage":
							conn.Write([]byte("this is not json-rpc\n"))
							return
						case okAfter >= 0 && k <= okAfter:
							return // drop the first okAfter connections mid-call
						default:
							// a well-formed JSON-RPC answer with a recognisable state hash
							var req struct {
								ID uint64 `json:"id"`
							}
							json.Unmarshal(buf[:nr], &req)
							ans := fmt.Sprintf(`{"id":%d,"result":{"StateHash":"c3RhdGU=","InternalTransactionReceipts":[]},"error":null}`+"\n", req.ID)
							conn.Write([]byte(ans))
							time.Sleep(50 * time.Millisecond)
						}
					}(conn, k)
				}
			}(f)
		}
		client := aproxy.NewSocketAppProxyClient(addr, 500*time.Millisecond, quiet())
		blk := randomBlock(rng, 1)
		resp, err := client.CommitBlock(blk)
		if ln != nil {
			ln.Close()
		}
		close(stop)
		attempts := int(atomic.LoadInt32(&accepts))
		r.Count("fault "+f, true)
		r.Inc("fault_"+f, 1)
		// model: sequence of attempt outcomes
		atts := []string{}
		want := "error"
		switch {
		case f == "refuse":
			atts = []string{"connFail", "connFail", "connFail", "connFail"}
		case f == "close" || f == "garbage":
			atts = []string{"callFail", "callFail", "callFail", "callFail"}
		default:
			for i := 0; i < okAfter; i++ {
				atts = append(atts, "callFail")
			}
			atts = append(atts, "ok", "ok")
			if okAfter < 3 {
				want = "success"
			}
		}
		got := "error"
		if err == nil {
			got = "success"
		}
		made := attempts
		if f == "refuse" {
			made = -1 // no listener: attempts are not observable
		}
		obs := fmt.Sprintf("O %s attempts=%d", got, made)
		c.Op(fmt.Sprintf("PX call %s", joinComma2(atts)), obs)
		if err == nil && len(resp.StateHash) == 0 {
			r.Violate("impl-violation", fmt.Sprintf("fault %q: CommitBlock returned success with an empty response", f), "empty-success", map[string]string{"fault": f})
		}
		if got != want {
			r.Violate("impl-violation", fmt.Sprintf("fault %q: CommitBlock returned %s (err=%v), expected %s", f, got, err, want), "fault-outcome:"+f, map[string]string{"fault": f})
		}
	}
	r.Compare(c)
	c20SlowApp(r, rng)
	c20FailingApp(r, rng)
}

// failingHandler: an application whose CommitHandler reports an error for the first failFirst calls
// it receives for a block (a transient fault), then answers normally
type failingHandler struct {
	recHandler
	failFirst map[int]int // block index -> remaining failures
	calls     map[int]int // handler invocations per block index
	byIndex   map[int]proxy.CommitResponse
	lock      sync.Mutex
}

func (h *failingHandler) CommitHandler(b hg.Block) (proxy.CommitResponse, error) {
	h.lock.Lock()
	h.calls[b.Index()]++
	fail := h.failFirst[b.Index()] > 0
	if fail {
		h.failFirst[b.Index()]--
	}
	h.lock.Unlock()
	if fail {
		return proxy.CommitResponse{}, fmt.Errorf("application: transient failure on block %d", b.Index())
	}
	resp, err := h.recHandler.CommitHandler(b)
	h.lock.Lock()
	h.byIndex[b.Index()] = resp
	h.lock.Unlock()
	return resp, err
}

// c20FailingApp: the application's commit handler fails 0..4 times for a block. Through the socket
// proxy the call must behave like the retry loop of the model (each attempt reaches the handler;
// success iff one of the first `retries` attempts succeeds, with that attempt's answer) and must
// never return a success the application did not produce.
func c20FailingApp(r *Result, rng *rand.Rand) {
	timeout := 500 * time.Millisecond
	h := &failingHandler{recHandler: recHandler{snapshots: map[int][]byte{}, rng: rand.New(rand.NewSource(r.Seed + 11))},
		failFirst: map[int]int{}, calls: map[int]int{}, byIndex: map[int]proxy.CommitResponse{}}
	appAddr, babbleAddr := freePort(), freePort()
	ap, err := aproxy.NewSocketAppProxy(appAddr, babbleAddr, timeout, quiet())
	if err != nil {
		r.Inc("failing_app_setup_failed", 1)
		return
	}
	if _, err := bproxy.NewSocketBabbleProxy(babbleAddr, appAddr, h, timeout, quiet()); err != nil {
		r.Inc("failing_app_setup_failed", 1)
		return
	}
	c := &Case{ID: "failing-app"}
	for k := 0; k < 10; k++ {
		blk := randomBlock(rng, 5000+k)
		nf := []int{0, 1, 2, 3, 4, 1, 1, 2, 0, 3}[k]
		h.lock.Lock()
		h.failFirst[blk.Index()] = nf
		h.lock.Unlock()
		resp, err := ap.CommitBlock(blk)
		r.Inc("failing_app_calls", 1)
		r.Inc(fmt.Sprintf("failing_app_handler_failures_%d", nf), 1)
		h.lock.Lock()
		want, ok := h.byIndex[blk.Index()]
		made := h.calls[blk.Index()]
		h.lock.Unlock()
		atts := []string{}
		for i := 0; i < nf; i++ {
			atts = append(atts, "callFail")
		}
		atts = append(atts, "ok")
		obs := fmt.Sprintf("O error attempts=%d", made)
		if err == nil {
			obs = fmt.Sprintf("O success attempts=%d", made)
			if len(resp.StateHash) == 0 || !ok || !bytes.Equal(resp.StateHash, want.StateHash) || len(resp.InternalTransactionReceipts) != len(want.InternalTransactionReceipts) {
				r.Violate("impl-violation", fmt.Sprintf("failing application (block %d, handler fails %d times): CommitBlock returned success with state hash %x and %d receipts; the application produced %x (answered: %v)", blk.Index(), nf, resp.StateHash, len(resp.InternalTransactionReceipts), want.StateHash, ok),
					"failing-app-empty-success", map[string]int{"block": blk.Index(), "handler_failures": nf})
			}
		} else {
			r.Inc("failing_app_call_errors", 1)
		}
		c.Op(fmt.Sprintf("PX call %s", joinComma2(atts)), obs)
	}
	r.Count(c.Canon(), true)
	r.Compare(c)
}

// slowHandler: an application whose first answers are slower than the proxy's timeout
type slowHandler struct {
	recHandler
	slowFirst int
	delay     time.Duration
	byIndex   map[int]proxy.CommitResponse
	lock      sync.Mutex
}

func (h *slowHandler) CommitHandler(b hg.Block) (proxy.CommitResponse, error) {
	h.lock.Lock()
	slow := h.slowFirst > 0
	if slow {
		h.slowFirst--
	}
	h.lock.Unlock()
	if slow {
		time.Sleep(h.delay)
	}
	resp, err := h.recHandler.CommitHandler(b)
	h.lock.Lock()
	h.byIndex[b.Index()] = resp
	h.lock.Unlock()
	return resp, err
}

// c20SlowApp: an application that answers one call slower than the timeout (the proxy abandons the
// call, reconnects and retries), then normally: every call must return an error or exactly what the
// application returned for that block — never an empty success, never another call's answer.
func c20SlowApp(r *Result, rng *rand.Rand) {
	for round := 0; round < 2; round++ {
		timeout := 250 * time.Millisecond
		h := &slowHandler{recHandler: recHandler{snapshots: map[int][]byte{}, rng: rand.New(rand.NewSource(r.Seed + 7))},
			slowFirst: 1 + round, delay: 3 * timeout, byIndex: map[int]proxy.CommitResponse{}}
		appAddr, babbleAddr := freePort(), freePort()
		ap, err := aproxy.NewSocketAppProxy(appAddr, babbleAddr, timeout, quiet())
		if err != nil {
			r.Inc("slow_app_setup_failed", 1)
			return
		}
		if _, err := bproxy.NewSocketBabbleProxy(babbleAddr, appAddr, h, timeout, quiet()); err != nil {
			r.Inc("slow_app_setup_failed", 1)
			return
		}
		for k := 0; k < 5; k++ {
			blk := randomBlock(rng, 1000*(round+1)+k)
			resp, err := ap.CommitBlock(blk)
			time.Sleep(10 * time.Millisecond)
			r.Inc("slow_app_calls", 1)
			if err != nil {
				r.Inc("slow_app_call_errors", 1)
				continue
			}
			h.lock.Lock()
			want, ok := h.byIndex[blk.Index()]
			h.lock.Unlock()
			if len(resp.StateHash) == 0 || !ok || !bytes.Equal(resp.StateHash, want.StateHash) {
				r.Violate("impl-violation", fmt.Sprintf("slow application (call %d): CommitBlock returned success with state hash %x, the application returned %x for that block (answered: %v)", k, resp.StateHash, want.StateHash, ok),
					"slow-app-wrong-answer", map[string]int{"call": k, "slow_first": 1 + round})
			}
		}
	}
}

func joinComma2(l []string) string {
	s := ""
	for i, x := range l {
		if i > 0 {
			s += ","
		}
		s += x
	}
	return s
}
