package main

// C08: no network input can crash a node or alter its committed history.
// G3 hostile values through (1) the decode layer, compared with the Lean model's
// outcome class ok | err | panic; (2) event / block verification and insertion;
// (3) the RPC handlers of real Node objects and the response handlers of core;
// after every hostile input the node must still complete a valid exchange and
// its delivered blocks must be unchanged.

import (
	"fmt"
	"math"
	"math/big"
	"math/rand"
	"strings"
	"time"

	"github.com/mosaicnetworks/babble/src/common"
	"github.com/mosaicnetworks/babble/src/config"
	"github.com/mosaicnetworks/babble/src/crypto/keys"
	hg "github.com/mosaicnetworks/babble/src/hashgraph"
	bnet "github.com/mosaicnetworks/babble/src/net"
	"github.com/mosaicnetworks/babble/src/node"
	_state "github.com/mosaicnetworks/babble/src/node/state"
	"github.com/mosaicnetworks/babble/src/peers"
	"github.com/mosaicnetworks/babble/src/proxy/inmem"
)

func init() { runners["C08"] = runC08 }

// guarded runs f and classifies the outcome.
func guarded(f func() error) (cls string, detail string) {
	defer func() {
		if r := recover(); r != nil {
			cls, detail = "panic", fmt.Sprint(r)
		}
	}()
	if err := f(); err != nil {
		return "err", err.Error()
	}
	return "ok", ""
}

var hostileStrings = []string{"", "0", "0X", "0x", "X", "0XZZ", "0XA", "0Xab", "0XAB", "zz", "é", "ééé", "0X\x00\x01", "0Xé0", " ", "0X" + strings.Repeat("AB", 70),
	"|", "||", "a|", "|a", "a|b", "!|!", "nopipe", "-|1", "+|+", "1|-", "-1|-2", "0|0", "a b|c", "1|2|3", strings.Repeat("z", 300) + "|1", "1a|zz", "\x00|\x00", "é|é"}

func hostileString(rng *rand.Rand, valid string) string {
	switch rng.Intn(8) {
	case 0, 1, 2:
		return hostileStrings[rng.Intn(len(hostileStrings))]
	case 3:
		if len(valid) > 0 {
			return valid[:rng.Intn(len(valid))] // truncated
		}
	case 4:
		if len(valid) > 2 {
			b := []byte(valid)
			b[rng.Intn(len(b))] = byte(rng.Intn(256))
			return string(b)
		}
	case 5:
		return strings.ToLower(valid)
	case 6:
		return valid + valid
	}
	b := make([]byte, rng.Intn(6))
	rng.Read(b)
	return string(b)
}

func onCurve(hexKey string) (nbytes int, ok bool) {
	defer func() {
		if r := recover(); r != nil {
			nbytes, ok = 0, false
		}
	}()
	if len(hexKey) < 2 {
		return 0, false
	}
	b, err := common.DecodeFromString(hexKey)
	if err != nil {
		return 0, false
	}
	k := keys.ToPublicKey(b)
	return len(b), k != nil && k.X != nil && k.Y != nil
}

func sigParses(sig string) bool {
	parts := strings.Split(sig, "|")
	if len(parts) != 2 {
		return false
	}
	for _, p := range parts {
		if _, ok := new(big.Int).SetString(p, 36); !ok {
			return false
		}
	}
	return true
}

func runC08(r *Result, thorough bool) {
	r.Rule = "hostile value grammar {empty, 1-char, non-hex, wrong case, truncated, oversized, pipe-less, non-base36, sign-only, NUL/UTF-8 bytes, negative/MinInt/MaxInt, unknown ids, null elements} applied to " +
		"(1) DecodeFromString / DecodeSignature / InternalTransaction.Verify / Event.Verify / sync-limit arithmetic vs the Lean decode model (outcome class ok|err|panic must agree), " +
		"(2) gossiped events and block signatures inserted into a live hashgraph, ProcessSigPool, (3) Sync / EagerSync / Join / FastForward requests through Node.processRPC in every state and hostile sync / fast-forward responses through core; " +
		"oracle: no panic, delivered blocks unchanged, a valid exchange still succeeds afterwards. non-trivial: the input reached a handler body"
	rng := rand.New(rand.NewSource(r.Seed))
	c08Decode(r, rng, thorough)
	byteCodecCorrespondence(r, rand.New(rand.NewSource(r.Seed+7919)), thorough)
	c08Hashgraph(r, rng, thorough)
	c08Node(r, rng, thorough)
}

// ---------------------------------------------------------------------------
// (1) decode layer vs model

func c08Decode(r *Result, rng *rand.Rand, thorough bool) {
	n := 1500
	if thorough {
		n = 20000
	}
	c := &Case{ID: "decode"}
	pk := newParticipants(rng, 2)
	validKey := pk[0].peer.PubKeyHex
	body := []byte("some body")
	R, S, _ := keys.Sign(pk[0].key, body)
	validSig := keys.EncodeSignature(R, S)
	for i := 0; i < n; i++ {
		// hex
		s := hostileString(rng, validKey)
		var out []byte
		cls, det := guarded(func() error {
			b, err := common.DecodeFromString(s)
			out = b
			return err
		})
		obs := "O " + cls
		if cls == "ok" {
			obs = fmt.Sprintf("O ok %d", len(out))
		}
		c.Op("DEC hex "+esc(s), obs)
		r.Count("hex "+s, true)
		if cls == "panic" {
			r.Violate("impl-violation", fmt.Sprintf("common.DecodeFromString(%q) panics: %s", s, det), "panic:DecodeFromString", map[string]string{"input": s})
		}
		// signature
		sg := hostileString(rng, validSig)
		cls, det = guarded(func() error {
			a, b, err := keys.DecodeSignature(sg)
			if err == nil && (a == nil || b == nil) {
				return fmt.Errorf("nil big.Int without error") // a latent nil: counted as error class for the model, reported below
			}
			return err
		})
		c.Op("DEC sig "+esc(sg), "O "+cls)
		r.Count("sig "+sg, true)
		if cls == "panic" {
			r.Violate("impl-violation", fmt.Sprintf("keys.DecodeSignature(%q) panics: %s", sg, det), "panic:DecodeSignature", map[string]string{"input": sg})
		}
		if det == "nil big.Int without error" {
			r.Violate("impl-violation", fmt.Sprintf("keys.DecodeSignature(%q) returns nil integers without an error (ecdsa.Verify dereferences them)", sg), "nil:DecodeSignature", map[string]string{"input": sg})
		}
		// internal transaction with hostile key / signature
		key := validKey
		if rng.Intn(2) == 0 {
			key = hostileString(rng, validKey)
		}
		isg := hostileString(rng, validSig)
		if rng.Intn(3) == 0 {
			isg = validSig
		}
		itx := hg.NewInternalTransactionJoin(*peers.NewPeer(key, "addr", "m"))
		if rng.Intn(4) == 0 && key == validKey {
			itx.Sign(pk[0].key)
		} else {
			itx.Signature = isg
		}
		var vres bool
		cls, det = guarded(func() error {
			ok, err := itx.Verify()
			vres = ok
			return err
		})
		nb, oc := onCurve(key)
		_ = nb
		valid := false
		if cls == "ok" {
			valid = vres
		}
		obs = "O " + cls
		if cls == "ok" {
			obs = fmt.Sprintf("O ok %d", boolInt(vres))
		}
		c.Op(fmt.Sprintf("DEC itx %s %d %s %d", esc(key), boolInt(oc), esc(itx.Signature), boolInt(valid)), obs)
		r.Count("itx "+key+" "+itx.Signature, true)
		if cls == "panic" {
			r.Violate("impl-violation", fmt.Sprintf("InternalTransaction.Verify panics for key %q signature %q: %s", key, itx.Signature, det), "panic:itx.Verify", map[string]string{"key": key, "signature": itx.Signature})
		}
		// sync limit arithmetic
		lims := []int{-1, 0, 1, 5, math.MinInt64, math.MaxInt64, -1000, 1000}
		d, rq, cf := rng.Intn(8), lims[rng.Intn(len(lims))], 1000
		cls, _ = guarded(func() error {
			diff := make([]int, d)
			limit := rq
			if cf < limit {
				limit = cf
			}
			_ = diff
			return nil
		})
		_ = cls
	}
	r.Inc("decode_inputs", 3*n)
	r.Compare(c)
}

// ---------------------------------------------------------------------------
// (2) events and block signatures with hostile fields through a live hashgraph

func c08Hashgraph(r *Result, rng *rand.Rand, thorough bool) {
	cases := 3
	if thorough {
		cases = 25
	}
	for ci := 0; ci < cases; ci++ {
		o := genOpts{n0: 3 + rng.Intn(2), steps: 60, txRate: 2}
		d := newDag(rng, o.n0, 0)
		scratch := &Case{}
		nd := newNode(d, 0, 1000, "")
		generate(rng, o, scratch, nd)
		delivered := len(nd.blocks)
		bodyBefore := map[int]string{}
		for k, v := range nd.commitBody {
			bodyBefore[k] = v
		}
		heads := map[int]*gEvent{}
		for _, g := range d.events {
			heads[g.creator] = g
		}
		tryEvent := func(what string, e *hg.Event) {
			cls, det := guarded(func() error { return nd.h.InsertEventAndRunConsensus(e, true) })
			r.Count("hg-event "+what+" "+e.Signature, true)
			r.Inc("hostile_events_"+cls, 1)
			if cls == "panic" {
				r.Violate("impl-violation", fmt.Sprintf("InsertEventAndRunConsensus panics on an event with %s: %s", what, det), "panic:InsertEvent:"+what, map[string]string{"what": what, "signature": e.Signature})
			}
		}
		for k := 0; k < 40; k++ {
			a := rng.Intn(o.n0)
			h := heads[a]
			if h == nil {
				continue
			}
			pub := keys.FromPublicKey(&d.parts[a].key.PublicKey)
			mk := func() *hg.Event {
				e := hg.NewEvent([][]byte{[]byte("x")}, nil, nil, []string{h.ev.Hex(), ""}, pub, h.ev.Index()+1)
				e.Sign(d.parts[a].key)
				return e
			}
			switch rng.Intn(7) {
			case 0:
				e := mk()
				e.Signature = hostileStrings[rng.Intn(len(hostileStrings))]
				tryEvent("a malformed signature", e)
			case 1:
				e := mk()
				e.Body.Creator = []byte{}
				tryEvent("an empty creator", e)
			case 2:
				e := mk()
				e.Body.Creator = []byte{4, 1, 2, 3}
				tryEvent("creator bytes that are not a curve point", e)
			case 3, 4:
				// (events with fewer than two parent entries cannot arrive as wire events; they can only
				// come inside a fast-forward frame, see part 3)
				e := mk()
				e.Body.Timestamp = math.MinInt64
				e.Body.Index = math.MaxInt64
				e.Sign(d.parts[a].key)
				tryEvent("extreme index and timestamp", e)
			case 5:
				itx := hg.NewInternalTransactionJoin(*peers.NewPeer(hostileStrings[rng.Intn(len(hostileStrings))], "a", "m"))
				itx.Signature = hostileStrings[rng.Intn(len(hostileStrings))]
				e := hg.NewEvent(nil, []hg.InternalTransaction{itx}, nil, []string{h.ev.Hex(), ""}, pub, h.ev.Index()+1)
				e.Sign(d.parts[a].key)
				tryEvent("a hostile internal transaction", e)
			case 6:
				// valid event carrying hostile block signatures: accepted, the signatures land in the pool
				bs := []hg.BlockSignature{{Validator: pub, Index: rng.Intn(delivered + 2), Signature: hostileStrings[rng.Intn(len(hostileStrings))]},
					{Validator: pub, Index: -1, Signature: "1|2"}, {Validator: []byte{}, Index: 0, Signature: "1|2"}}
				e := hg.NewEvent(nil, nil, bs, []string{h.ev.Hex(), ""}, pub, h.ev.Index()+1)
				e.Sign(d.parts[a].key)
				cls, det := guarded(func() error { return nd.h.InsertEventAndRunConsensus(e, true) })
				if cls == "panic" {
					r.Violate("impl-violation", "InsertEventAndRunConsensus panics on hostile block signatures: "+det, "panic:InsertEvent:blocksigs", nil)
				}
				if cls == "ok" {
					g := &gEvent{name: fmt.Sprintf("x%d", k), num: 1 << 20, ev: e, creator: a, sp: h}
					d.byHex[e.Hex()] = g
					heads[a] = g
				}
				cls, det = guarded(func() error { return nd.h.ProcessSigPool() })
				r.Inc("sigpool_runs_"+cls, 1)
				if cls == "panic" {
					r.Violate("impl-violation", "ProcessSigPool panics on a hostile block signature: "+det, "panic:ProcessSigPool", map[string]string{"signature": bs[0].Signature})
				}
				// a valid signature inserted afterwards must still be processed
				if delivered > 0 {
					blk, err := nd.store.GetBlock(0)
					if err == nil {
						signer := d.parts[(a+1)%o.n0]
						sig, _ := blk.Sign(signer.key)
						nd.h.PendingSignatures.Add(sig)
						cls2, det2 := guarded(func() error { return nd.h.ProcessSigPool() })
						b2, _ := nd.store.GetBlock(0)
						if _, have := b2.Signatures[signer.hex]; !have {
							r.Violate("impl-violation", fmt.Sprintf("after a malformed pooled signature %q a valid signature is no longer processed (ProcessSigPool: %s %s)", bs[0].Signature, cls2, det2),
								"sigpool-stuck", map[string]string{"signature": bs[0].Signature})
						}
					}
				}
			}
		}
		// delivered blocks unchanged
		for i := 0; i < delivered; i++ {
			b, err := nd.store.GetBlock(i)
			if err != nil {
				continue
			}
			bh, _ := b.Body.Hash()
			if string(bh) != bodyBefore[i] {
				r.Violate("impl-violation", fmt.Sprintf("hostile input changed delivered block %d", i), "block-changed", nil)
			}
		}
		nd.close()
	}
}

// ---------------------------------------------------------------------------
// (3) real Node objects: requests through processRPC, responses through core

type realNode struct {
	n     *node.Node
	app   *app
	key   *participant
	trans *bnet.InmemTransport
}

var realNodeSuspendLimit = 5

// realNodeExtraPeers: strangers appended to the peers list (peers.json) only, so that the list
// of gossip peers and the validator set (genesis) of the nodes differ in size
var realNodeExtraPeers = 0

func newRealNodes(rng *rand.Rand, n int, syncLimit int) []*realNode {
	ps := newParticipants(rng, n)
	pl := []*peers.Peer{}
	for i, p := range ps {
		p.peer.NetAddr = fmt.Sprintf("inmem-%d-%d", rng.Int63(), i)
		p.peer.Moniker = fmt.Sprintf("n%d", i)
		pl = append(pl, p.peer)
	}
	extra := newParticipants(rng, realNodeExtraPeers)
	for i, x := range extra {
		x.peer.NetAddr = fmt.Sprintf("inmem-x-%d-%d", rng.Int63(), i)
	}
	res := []*realNode{}
	for i, p := range ps {
		conf := config.NewDefaultConfig()
		conf.LogLevel = "panic"
		conf.SyncLimit = syncLimit
		conf.JoinTimeout = 50 * time.Millisecond
		conf.HeartbeatTimeout = 10 * time.Millisecond
		conf.SuspendLimit = realNodeSuspendLimit
		_, trans := bnet.NewInmemTransport(pl[i].NetAddr)
		a := newApp()
		prox := inmem.NewInmemProxy(a, quiet())
		cur := append([]*peers.Peer{}, pl...)
		for _, x := range extra {
			cur = append(cur, x.peer)
		}
		nn := node.NewNode(conf, node.NewValidator(p.key, pl[i].Moniker), peers.NewPeerSet(cur), peers.NewPeerSet(append([]*peers.Peer{}, pl...)), hg.NewInmemStore(1000), trans, prox)
		nn.VerifCore().SetHeadAndSeq()
		nn.SetState(_state.Babbling)
		res = append(res, &realNode{n: nn, app: a, key: p, trans: trans})
	}
	return res
}

func rpcCall(n *node.Node, cmd interface{}) (cls string, detail string, resp interface{}) {
	cls, detail = guarded(func() error {
		ch := make(chan bnet.RPCResponse, 1)
		n.VerifProcessRPC(bnet.RPC{Command: cmd, RespChan: ch})
		select {
		case rr := <-ch:
			resp = rr.Response
			return rr.Error
		case <-time.After(2 * time.Second):
			return fmt.Errorf("no response")
		}
	})
	return
}

// validExchange: b pulls from a through the real handlers.
func validExchange(a, b *realNode) error {
	known := b.n.VerifCore().KnownEvents()
	cls, det, resp := rpcCall(a.n, &bnet.SyncRequest{FromID: b.n.GetID(), Known: known, SyncLimit: 1000})
	if cls != "ok" {
		return fmt.Errorf("sync request: %s %s", cls, det)
	}
	sr, ok := resp.(*bnet.SyncResponse)
	if !ok {
		return fmt.Errorf("unexpected response type %T", resp)
	}
	cls, det = guarded(func() error { return b.n.VerifCore().Sync(a.n.GetID(), sr.Events) })
	if cls != "ok" {
		return fmt.Errorf("sync: %s %s", cls, det)
	}
	return nil
}

func c08Node(r *Result, rng *rand.Rand, thorough bool) {
	rounds := 2
	if thorough {
		rounds = 12
	}
	for ri := 0; ri < rounds; ri++ {
		nodes := newRealNodes(rng, 3, 1000)
		// some honest traffic so that there are events, blocks and an anchor
		for k := 0; k < 200; k++ {
			a, b := nodes[rng.Intn(3)], nodes[rng.Intn(3)]
			if a == b {
				continue
			}
			if rng.Intn(2) == 0 {
				b.n.VerifCore().AddTransactions([][]byte{[]byte(fmt.Sprintf("t%d", k))})
			}
			if err := validExchange(a, b); err != nil {
				r.Violate("impl-violation", "honest exchange failed before any hostile input: "+err.Error(), "honest-exchange", nil)
			}
			b.n.VerifCore().ProcessSigPool()
			a.n.VerifCore().ProcessSigPool()
		}
		target, other := nodes[0], nodes[1]
		deliveredBefore := append([]string{}, target.app.bodies...)
		hostile := func(what string, key string, cmd interface{}) {
			cls, det, _ := rpcCall(target.n, cmd)
			r.Count("rpc "+what, true)
			r.Inc("rpc_"+cls, 1)
			if cls == "panic" {
				r.Violate("impl-violation", fmt.Sprintf("processRPC panics on %s: %s", what, det), "panic:rpc:"+key, map[string]string{"what": what})
			}
			// the node must still complete a valid exchange, in both roles
			if err := validExchange(target, other); err != nil {
				r.Violate("impl-violation", fmt.Sprintf("after %s the node no longer serves a valid sync: %v", what, err), "stuck:rpc:"+key, map[string]string{"what": what})
			}
			// ... and as the pulling side: insert the peer's events and create its own next event
			seqBefore := target.n.VerifCore().Seq()
			if err := validExchange(other, target); err != nil {
				r.Violate("impl-violation", fmt.Sprintf("after %s the node can no longer pull from an honest peer: %v", what, err), "stuck-pull:rpc:"+key, map[string]string{"what": what})
			} else if target.n.VerifCore().Seq() <= seqBefore {
				r.Violate("impl-violation", fmt.Sprintf("after %s the node no longer creates events on a valid sync (seq stays %d)", what, seqBefore), "stuck-seq:rpc:"+key, map[string]string{"what": what})
			}
			for i, s := range deliveredBefore {
				if i < len(target.app.bodies) && target.app.bodies[i] != s {
					r.Violate("impl-violation", fmt.Sprintf("after %s delivered block %d changed", what, i), "block-changed:rpc", nil)
				}
			}
		}
		known := other.n.VerifCore().KnownEvents()
		// the limit arithmetic, compared with the model: number of events returned for a full diff
		{
			lc := &Case{ID: "sync-limit"}
			all, _ := target.n.VerifCore().EventDiff(map[uint32]int{})
			for _, lim := range []int{-1, math.MinInt64, 0, 1, 7, len(all) - 1, len(all), len(all) + 1, 1000, 1001, math.MaxInt64} {
				cls, _, resp := rpcCall(target.n, &bnet.SyncRequest{FromID: other.n.GetID(), Known: map[uint32]int{}, SyncLimit: lim})
				obs := "O " + cls
				if sr, ok := resp.(*bnet.SyncResponse); ok && cls == "ok" {
					obs = fmt.Sprintf("O ok %d", len(sr.Events))
				}
				lc.Op(fmt.Sprintf("DEC limit %d %d %d", len(all), lim, 1000), obs)
			}
			r.Compare(lc)
		}
		for _, lim := range []int{-1, math.MinInt64, 0, math.MaxInt64} {
			hostile(fmt.Sprintf("a SyncRequest with SyncLimit %d", lim), "sync-limit", &bnet.SyncRequest{FromID: other.n.GetID(), Known: map[uint32]int{}, SyncLimit: lim})
		}
		hostile("a SyncRequest with a nil Known map", "sync-known", &bnet.SyncRequest{FromID: 12345, Known: nil, SyncLimit: 10})
		weird := map[uint32]int{}
		for id := range known {
			weird[id] = []int{-5, math.MinInt64, math.MaxInt64, 1 << 40}[rng.Intn(4)]
		}
		weird[424242] = 3
		hostile("a SyncRequest with hostile Known indexes", "sync-known", &bnet.SyncRequest{FromID: other.n.GetID(), Known: weird, SyncLimit: 10})
		// eager sync with hostile wire events
		mkWire := func(mut func(w *hg.WireEvent)) []hg.WireEvent {
			evs, _ := other.n.VerifCore().EventDiff(map[uint32]int{})
			if len(evs) == 0 {
				return nil
			}
			w := evs[len(evs)-1].ToWire()
			mut(&w)
			return []hg.WireEvent{w}
		}
		for _, sig := range []string{"", "!|!", "nopipe", "1|", "|", "-|-"} {
			sg := sig
			hostile(fmt.Sprintf("an EagerSyncRequest whose event has signature %q", sg), "eager-sig", &bnet.EagerSyncRequest{FromID: other.n.GetID(), Events: mkWire(func(w *hg.WireEvent) { w.Signature = sg; w.Body.Index += 1000 })})
		}
		hostile("an EagerSyncRequest with an unknown creator id", "eager-creator", &bnet.EagerSyncRequest{FromID: other.n.GetID(), Events: mkWire(func(w *hg.WireEvent) { w.Body.CreatorID = 99 })})
		hostile("an EagerSyncRequest with negative indexes", "eager-index", &bnet.EagerSyncRequest{FromID: other.n.GetID(), Events: mkWire(func(w *hg.WireEvent) {
			w.Body.Index = math.MinInt64
			w.Body.SelfParentIndex = math.MaxInt64
			w.Body.OtherParentIndex = math.MaxInt64
		})})
		hostile("an EagerSyncRequest with a hostile block signature", "eager-blocksig", &bnet.EagerSyncRequest{FromID: other.n.GetID(), Events: mkWire(func(w *hg.WireEvent) {
			w.Body.BlockSignatures = []hg.WireBlockSignature{{Index: 0, Signature: "!|!"}, {Index: -7, Signature: ""}}
		})})
		hostile("an EagerSyncRequest with nil events", "eager-nil", &bnet.EagerSyncRequest{FromID: 0, Events: nil})
		// join requests
		for _, k := range []string{"", "0", "0X", "0XZZ", "zz", strings.Repeat("A", 200)} {
			kk := k
			itx := hg.NewInternalTransactionJoin(*peers.NewPeer(kk, "addr", "m"))
			itx.Signature = "1|2"
			hostile(fmt.Sprintf("a JoinRequest with public key %q", kk), "join-key", &bnet.JoinRequest{InternalTransaction: itx})
		}
		{
			fresh := newParticipants(rng, 1)[0]
			for _, sg := range []string{"", "!|!", "nopipe"} {
				itx := hg.NewInternalTransactionJoin(*fresh.peer)
				itx.Signature = sg
				hostile(fmt.Sprintf("a JoinRequest with signature %q", sg), "join-sig", &bnet.JoinRequest{InternalTransaction: itx})
			}
		}
		// correctly signed join requests of strangers whose key is spelled in a non-canonical way
		for _, style := range []string{"lower-case", "0x-prefix"} {
			fresh := newParticipants(rng, 1)[0]
			key := fresh.peer.PubKeyString()
			if style == "lower-case" {
				key = strings.ToLower(key)
			} else {
				key = "0x" + key[2:]
			}
			itx := hg.NewInternalTransactionJoin(*peers.NewPeer(key, "addr", "m"))
			itx.Sign(fresh.key)
			hostile(fmt.Sprintf("a correctly signed JoinRequest whose public key is spelled %s", style), "join-spelling", &bnet.JoinRequest{InternalTransaction: itx})
		}
		// correctly self-signed membership requests of a stranger with a transaction type outside
		// {PEER_ADD, PEER_REMOVE}: accepted into the pool like any other; the network must survive reaching
		// consensus on it and committing the block that carries it
		for _, ty := range []hg.TransactionType{2, 255} {
			fresh := newParticipants(rng, 1)[0]
			itx := hg.NewInternalTransaction(ty, *fresh.peer)
			itx.Sign(fresh.key)
			what := fmt.Sprintf("a correctly signed JoinRequest with transaction type %d", uint8(ty))
			hostile(what, "join-type", &bnet.JoinRequest{InternalTransaction: itx})
			blocksBefore := len(other.app.bodies)
			for k := 0; k < 150 && len(other.app.bodies) < blocksBefore+3; k++ {
				a, b := nodes[rng.Intn(3)], nodes[rng.Intn(3)]
				if a == b {
					continue
				}
				if k%5 == 0 {
					b.n.VerifCore().AddTransactions([][]byte{[]byte(fmt.Sprintf("u%d-%d", ty, k))})
				}
				if err := validExchange(a, b); err != nil {
					r.Violate("impl-violation", fmt.Sprintf("after %s the network cannot go on to commit it: %v", what, err), "stuck:commit:join-type", map[string]string{"what": what})
					break
				}
				b.n.VerifCore().ProcessSigPool()
			}
			r.Inc("unknown_type_requests_followed_through_consensus", 1)
			r.Inc("blocks_committed_after_unknown_type_request", len(other.app.bodies)-blocksBefore)
		}
		hostile("a FastForwardRequest", "ff-request", &bnet.FastForwardRequest{FromID: 77})
		hostile("an unknown command", "unknown-cmd", &struct{ X int }{1})
		// hostile responses through core: sync response and fast-forward response
		tc := target.n.VerifCore()
		respHostile := func(what, key string, f func() error) {
			cls, det := guarded(f)
			r.Count("resp "+what, true)
			r.Inc("resp_"+cls, 1)
			if cls == "panic" {
				r.Violate("impl-violation", fmt.Sprintf("handling %s panics: %s", what, det), "panic:resp:"+key, map[string]string{"what": what})
			}
			if err := validExchange(target, other); err != nil {
				r.Violate("impl-violation", fmt.Sprintf("after %s the node no longer completes a valid sync: %v", what, err), "stuck:resp:"+key, nil)
			}
		}
		respHostile("a SyncResponse with a malformed event signature", "sync-sig", func() error {
			return tc.Sync(other.n.GetID(), mkWire(func(w *hg.WireEvent) { w.Signature = "!|!"; w.Body.Index += 1 }))
		})
		blk, frm, err := other.n.VerifCore().GetAnchorBlockWithFrame()
		if err == nil {
			r.Inc("ff_anchor_available", 1)
			cpB := func() *hg.Block { var b hg.Block; jsonCopy(blk, &b); return &b }
			cpF := func() *hg.Frame { var f hg.Frame; jsonCopy(frm, &f); return &f }
			// a catching-up victim
			victim := newRealNodes(rng, 1, 1000)[0]
			vc := victim.n.VerifCore()
			vict := func(what, key string, f func() error) {
				cls, det := guarded(f)
				r.Count("ff "+what, true)
				r.Inc("ff_"+cls, 1)
				if cls == "panic" {
					r.Violate("impl-violation", fmt.Sprintf("core.fastForward panics on %s: %s", what, det), "panic:ff:"+key, map[string]string{"what": what})
				}
			}
			vict("a frame with a null peer", "nil-peer", func() error { f := cpF(); f.Peers = append(f.Peers, nil); return vc.FastForward(cpB(), f) })
			vict("a frame with a null event", "nil-event", func() error { f := cpF(); f.Events = append(f.Events, nil); return vc.FastForward(cpB(), f) })
			vict("a frame event without core", "nil-core", func() error {
				f := cpF()
				f.Events = append(f.Events, &hg.FrameEvent{})
				return vc.FastForward(cpB(), f)
			})
			vict("a frame with a null root", "nil-root", func() error {
				f := cpF()
				for k := range f.Roots {
					f.Roots[k] = nil
					break
				}
				return vc.FastForward(cpB(), f)
			})
			vict("a frame with a null root event", "nil-root-event", func() error {
				f := cpF()
				for k := range f.Roots {
					f.Roots[k].Events = append(f.Roots[k].Events, nil)
					break
				}
				return vc.FastForward(cpB(), f)
			})
			vict("a frame with a null peer in a peer set", "nil-peerset-peer", func() error {
				f := cpF()
				for k := range f.PeerSets {
					f.PeerSets[k] = append(f.PeerSets[k], nil)
					break
				}
				return vc.FastForward(cpB(), f)
			})
			vict("a frame event with a short Parents slice", "short-parents", func() error {
				f := cpF()
				if len(f.Events) > 0 {
					f.Events[0].Core.Body.Parents = []string{}
				} else {
					for k := range f.Roots {
						if len(f.Roots[k].Events) > 0 {
							f.Roots[k].Events[0].Core.Body.Parents = nil
						}
					}
				}
				return vc.FastForward(cpB(), f)
			})
			for _, key := range []string{"", "0", "zz"} {
				kk := key
				vict(fmt.Sprintf("a block whose signature map has key %q", kk), "sigmap-key", func() error {
					b := cpB()
					b.Signatures[kk] = "1|2"
					return vc.FastForward(b, cpF())
				})
			}
			for _, sg := range []string{"", "!|!", "nopipe"} {
				ss := sg
				vict(fmt.Sprintf("a block with signature %q", ss), "sigmap-sig", func() error {
					b := cpB()
					for k := range b.Signatures {
						b.Signatures[k] = ss
					}
					return vc.FastForward(b, cpF())
				})
			}
			vict("a block with a nil signature map and nil hashes", "nil-maps", func() error {
				b := cpB()
				b.Signatures = nil
				b.Body.PeersHash = nil
				b.Body.FrameHash = nil
				return vc.FastForward(b, cpF())
			})
		}
	}
}
