module verif/harness

go 1.20

require (
	github.com/btcsuite/btcd v0.0.0-20190523000118-16327141da8c
	github.com/mosaicnetworks/babble v0.0.0
)

require (
	github.com/sirupsen/logrus v1.2.0 // indirect
	golang.org/x/crypto v0.0.0-20200128174031-69ecbb4d6d5d // indirect
	golang.org/x/sys v0.0.0-20191120155948-bd437916bb0e // indirect
)

replace github.com/mosaicnetworks/babble => /repo
