module verif/harness

go 1.20

require (
	github.com/btcsuite/btcd v0.0.0-20190523000118-16327141da8c
	github.com/mosaicnetworks/babble v0.0.0
	github.com/sirupsen/logrus v1.2.0
)

require (
	github.com/AndreasBriese/bbloom v0.0.0-20190306092124-e2d15f34fcf9 // indirect
	github.com/dgraph-io/badger v1.6.0 // indirect
	github.com/dgryski/go-farm v0.0.0-20190423205320-6a90982ecee2 // indirect
	github.com/dustin/go-humanize v1.0.0 // indirect
	github.com/golang/protobuf v1.3.1 // indirect
	github.com/pkg/errors v0.9.1 // indirect
	github.com/ugorji/go/codec v1.1.7 // indirect
	golang.org/x/crypto v0.0.0-20200128174031-69ecbb4d6d5d // indirect
	golang.org/x/net v0.0.0-20200226121028-0de0cce0169b // indirect
	golang.org/x/sys v0.0.0-20191120155948-bd437916bb0e // indirect
)

replace github.com/mosaicnetworks/babble => /repo
