package main

// C13: fast-sync continuity at the hashgraph level. A full-history node A; at
// several anchors a fresh node B is Reset from A's (block, frame) sent through
// JSON, the anchor's receipts are applied as node.fastForward does, and the rest
// of the history is fed to B. B must deliver from the next block on exactly A's
// blocks, with the same validator-set history. Frames of one round computed by
// nodes with different insertion orders must be identical. Everything B does is
// also run on the Lean model (Reset / InsertFrameEvent included).

import (
	"bytes"
	"fmt"
	"math/rand"
	"os"
	"sort"
	"strings"

	"github.com/mosaicnetworks/babble/src/crypto/keys"
	hg "github.com/mosaicnetworks/babble/src/hashgraph"
	"github.com/mosaicnetworks/babble/src/peers"
)

func init() { runners["C13"] = runC13 }

// resetNode creates node `id` from A's block k and frame (through JSON), as core.fastForward +
// node.fastForward do at the hashgraph level.
func resetNode(d *dag, a *hnode, id int, k int, c *Case) (*hnode, error) {
	return resetNodePre(d, a, id, k, c, nil)
}

// resetNodePre: as resetNode, but the node first lives through `pre` (a prefix of A's
// history, with its own deliveries) before it is reset, as a node that falls behind and
// fast-forwards does: Reset must leave no trace of the earlier life. The earlier life is
// not part of the case: the model's reset starts from scratch.
func resetNodePre(d *dag, a *hnode, id int, k int, c *Case, pre []*gEvent) (*hnode, error) {
	blk := a.blocks[k]
	fr, err := a.store.GetFrame(blk.RoundReceived())
	if err != nil {
		return nil, err
	}
	var b2 hg.Block
	var f2 hg.Frame
	jsonCopy(blk, &b2)
	jsonCopy(fr, &f2)
	nd := &hnode{id: id, d: d, inserted: map[string]bool{}, commitBody: map[int]string{}}
	nd.store = hg.NewInmemStore(10000)
	nd.validators = peers.NewPeerSet(d.genesis())
	nd.h = hg.NewHashgraph(nd.store, nd.commit, quiet())
	nd.h.Init(peers.NewPeerSet(d.genesis()))
	if len(pre) > 0 {
		scratch := &Case{}
		for _, g := range pre {
			nd.run(scratch, g)
		}
		nd.preBlocks = len(nd.blocks)
		nd.inserted = map[string]bool{}
		nd.order = nil
		nd.blocks = nil
		nd.commitLog = nil
		nd.commitBody = map[int]string{}
	}
	if err := nd.h.Reset(&b2, &f2); err != nil {
		c.Op(fmt.Sprintf("HG reset %d %d %d", id, a.id, blk.Index()), "O reset err")
		return nil, err
	}
	c.Op(fmt.Sprintf("HG reset %d %d %d", id, a.id, blk.Index()), "O reset ok")
	nd.validators = peers.NewPeerSet(f2.Peers)
	latest := f2.Round
	for rd, ps := range f2.PeerSets {
		if rd > latest {
			latest = rd
			nd.validators = peers.NewPeerSet(ps)
		}
	}
	nd.applyReceipts(b2.RoundReceived(), b2.InternalTransactions())
	nd.blocks = []*hg.Block{&b2}
	nd.shown = 1
	// what the reset inserted
	for _, rt := range f2.Roots {
		for _, fe := range rt.Events {
			if g := d.byHex[fe.Core.Hex()]; g != nil {
				nd.inserted[g.name] = true
				nd.order = append(nd.order, g)
			}
		}
	}
	for _, fe := range f2.Events {
		if g := d.byHex[fe.Core.Hex()]; g != nil {
			nd.inserted[g.name] = true
			nd.order = append(nd.order, g)
		}
	}
	return nd, nil
}

func blk0rr(a *hnode, k int) int { return a.blocks[k].RoundReceived() }

var dbgAnchor bool

func runC13(r *Result, thorough bool) {
	r.Rule = "G1 gossip DAGs with joins / leaves (3-6 validators, joiners whose first events have no other-parent, requests pending inside the activation window at the anchor); a full-history node A and, for several anchors k (every delivered block in thorough mode), a node B reset from A's block k + frame through JSON and fed the rest of the history; " +
		"all of B's operations also run on the Lean model (Reset, InsertFrameEvent, lower bound); oracle: B's blocks after the anchor = A's blocks of the same index (body hash), same validator-set table from the anchor on, frames of a round identical across nodes with different insertion orders. non-trivial: the reset node delivered >= 2 blocks after the anchor"
	rng := rand.New(rand.NewSource(r.Seed))
	c13Cores(r, rng, thorough)
	cases := 10
	if thorough {
		cases = 60
	}
	for ci := 0; ci < cases; ci++ {
		o := randomOpts(rng, thorough, ci%3 != 0)
		if o.n0 < 3 {
			o.n0 = 3
		}
		o.byz = nil
		o.eagerJoiner = ci%2 == 1 && o.extra > 0
		o.eagerPause = o.eagerJoiner && ci%4 == 1
		o.joinEarly = o.extra > 0 && (ci%3 == 1 || o.eagerJoiner) // joins accepted early: many anchors around and after the joiner's first round
		if o.eagerJoiner {
			r.Inc("scenarios_with_a_joiner_babbling_before_its_accepted_round", 1)
		}
		o.steps += 120
		if o.joinEarly {
			o.steps *= 2 // a long life after the joiner's first round
		}
		if ci%2 == 0 {
			o.staleOp = false
		}
		d := newDag(rng, o.n0, o.extra)
		c := &Case{ID: "c13 " + o.String()}
		c.Op("CASE")
		genesis := []int{}
		for i := 0; i < o.n0; i++ {
			genesis = append(genesis, i)
		}
		a := newNode(d, 0, 10000, "")
		c.Op(fmt.Sprintf("HG new 0 %s", intsOrDash(genesis)))
		generate(rng, o, c, a)
		// a second full node with another order: frames must be identical
		other := newNode(d, 1, 10000, "")
		c.Op(fmt.Sprintf("HG new 1 %s", intsOrDash(genesis)))
		feed(other, c, topoOrder(rng, d.events), nil)
		for _, b := range other.blocks {
			fa, e1 := a.store.GetFrame(b.RoundReceived())
			fb, e2 := other.store.GetFrame(b.RoundReceived())
			if e1 == nil && e2 == nil {
				ha, _ := fa.Hash()
				hb, _ := fb.Hash()
				r.Inc("frames_compared", 1)
				if !bytes.Equal(ha, hb) {
					r.Violate("impl-violation", fmt.Sprintf("frame of round %d differs between two full nodes with different insertion orders: %s vs %s", b.RoundReceived(), a.frameLine(fa), other.frameLine(fb)), "frame-differs", map[string]interface{}{"options": o.String()})
				}
			}
		}
		if len(a.blocks) < 3 {
			r.Inc("scenarios_too_few_blocks", 1)
			r.Count(c.Canon(), false)
			r.Compare(c)
			a.close()
			other.close()
			continue
		}
		anchors := []int{len(a.blocks) / 3, len(a.blocks) / 2, (2 * len(a.blocks)) / 3}
		if thorough {
			anchors = nil
			for k := 0; k < len(a.blocks)-1; k++ {
				anchors = append(anchors, k)
			}
		}
		// anchors whose frame carries two or more validator sets that are not yet in force (two
		// changes accepted inside one activation window) come first
		if !thorough {
			multi := []int{}
			for k := 0; k < len(a.blocks)-1; k++ {
				if fr, err := a.store.GetFrame(a.blocks[k].RoundReceived()); err == nil {
					pend := 0
					for rd := range fr.PeerSets {
						if rd > fr.Round {
							pend++
						}
					}
					if pend >= 2 {
						multi = append(multi, k)
					}
				}
			}
			if len(multi) > 2 {
				multi = []int{multi[0], multi[len(multi)/2]}
			}
			if len(multi) > 0 {
				r.Inc("anchors_with_two_pending_changes", len(multi))
			}
			anchors = append(multi, anchors...)
			// ... and anchors at the very round from which a joiner is a validator
			for k := 0; k < len(a.blocks)-1; k++ {
				for j := o.n0; j < len(d.parts); j++ {
					if fr, ok := a.store.FirstRound(d.parts[j].peer.ID()); ok && fr == a.blocks[k].RoundReceived() {
						anchors = append([]int{k}, anchors...)
					}
				}
			}
		}
		if os.Getenv("DBGC13") != "" {
			rrs := []int{}
			for _, b := range a.blocks {
				rrs = append(rrs, b.RoundReceived())
			}
			for j := o.n0; j < len(d.parts); j++ {
				fr, ok := a.store.FirstRound(d.parts[j].peer.ID())
				fmt.Fprintln(os.Stderr, "DBG joiner", j, "first round", fr, ok, "last round", a.store.LastRound(), "block rounds", rrs, o.String())
			}
		}
		seen := map[int]bool{}
		nontrivial := false
		for ai, k := range anchors {
			if seen[k] || k >= len(a.blocks) {
				continue
			}
			seen[k] = true
			// coverage: anchors at the very round from which a joiner is a validator
			if frK, err := a.store.GetFrame(a.blocks[k].RoundReceived()); err == nil {
				for j := o.n0; j < len(d.parts); j++ {
					if fr, ok := a.store.FirstRound(d.parts[j].peer.ID()); ok && fr == frK.Round {
						r.Inc("anchors_at_a_joiners_first_round", 1)
						earlier, inFrame := 0, 0
						for _, g := range d.events {
							if g.creator != j {
								continue
							}
							if e, err := a.store.GetEvent(g.ev.Hex()); err == nil && e.VerifRoundReceived() != nil {
								if *e.VerifRoundReceived() < frK.Round {
									earlier++
								} else if *e.VerifRoundReceived() == frK.Round {
									inFrame++
								}
							}
						}
						if earlier > 0 {
							r.Inc("anchors_at_a_joiners_first_round_with_earlier_events", 1)
							if inFrame == 0 {
								r.Inc("anchors_at_a_joiners_first_round_with_earlier_events_none_in_frame", 1)
								dbgAnchor = true
							}
						}
					}
				}
			}
			var pre []*gEvent
			if ai%2 == 1 {
				pre = a.order[:rng.Intn(len(a.order)+1)] // an earlier life before the fast-forward
				r.Inc("resets_of_used_nodes", 1)
			}
			b, err := resetNodePre(d, a, 10+ai, k, c, pre)
			if err != nil {
				r.Violate("impl-violation", fmt.Sprintf("Reset from an honest anchor (block %d) failed: %v", k, err), "reset-failed", map[string]interface{}{"options": o.String()})
				continue
			}
			resetInserted := map[string]bool{}
			for nm := range b.inserted {
				resetInserted[nm] = true
			}
			// feed the history: skip what B already knows by (creator, index)
			rejected := 0
			for _, g := range d.events {
				if b.inserted[g.name] {
					continue
				}
				known := b.store.KnownEvents()
				id := keys.PublicKeyID(g.ev.Body.Creator)
				if last, ok := known[id]; ok && g.ev.Index() <= last {
					continue
				}
				if ok, err := b.run(c, g); !ok {
					rejected++
					if dbgAnchor && rejected <= 3 && os.Getenv("DBGC13") != "" {
						spn, opn := "-", "-"
						if g.sp != nil {
							spn = fmt.Sprint(g.sp.name, " inserted=", b.inserted[g.sp.name])
						}
						if g.op != nil {
							opn = fmt.Sprint(g.op.name, " creator ", g.op.creator, " inserted=", b.inserted[g.op.name])
						}
						fmt.Fprintln(os.Stderr, "DBG rejected", g.name, "creator", g.creator, "index", g.ev.Index(), "sp", spn, "op", opn, err)
					}
				} else if dbgAnchor && g.creator >= o.n0 && os.Getenv("DBGC13") != "" {
					fmt.Fprintln(os.Stderr, "DBG accepted joiner event", g.name, "index", g.ev.Index())
				}
			}
			b.dumpRounds(c, 0)
			b.dumpPeerSets(c)
			b.dumpLast(c)
			r.Inc("resets", 1)
			if dbgAnchor && os.Getenv("DBGC13") != "" {
				fmt.Fprintln(os.Stderr, "DBG anchor", k, "round", a.blocks[k].RoundReceived(), "blocks full", len(a.blocks), "reset", len(b.blocks), "rejected", rejected, o.String())
			}
			dbgAnchor = false
			r.Inc("events_refused_after_reset", rejected)
			after := 0
			for _, bb := range b.blocks[1:] {
				after++
				if bb.Index() >= len(a.blocks) {
					continue
				}
				ab := a.blocks[bb.Index()]
				h1, _ := ab.Body.Hash()
				h2, _ := bb.Body.Hash()
				if !bytes.Equal(h1, h2) {
					shape := "other"
					detail := ""
					// classify the history shape (used as the key of known findings)
					frA, _ := a.store.GetFrame(blk0rr(a, k))
					for _, g := range d.events {
						if resetInserted[g.name] {
							continue // frame and root events carry no round received on the reset node
						}
						ea, e1 := a.store.GetEvent(g.ev.Hex())
						eb, e2 := b.store.GetEvent(g.ev.Hex())
						if e1 != nil || e2 != nil {
							continue
						}
						if fo(ea.VerifRound()) != fo(eb.VerifRound()) {
							if ea.VerifRound() != nil && frA != nil && *ea.VerifRound() <= frA.Round {
								shape = "old-round-after-reset"
							} else {
								shape = "round-differs"
							}
							break
						}
						if ea.VerifRoundReceived() != nil && eb.VerifRoundReceived() != nil && frA != nil &&
							*ea.VerifRoundReceived() <= frA.Round && *eb.VerifRoundReceived() > frA.Round {
							// received at or before the anchor on the full-history node, yet shipped neither as
							// a frame event nor inside a root: the reset node receives it again, later
							shape = "received-before-anchor-not-shipped"
							if fr, ok := a.store.FirstRound(keys.PublicKeyID(g.ev.Body.Creator)); ok && fr > frA.Round {
								// the creator only becomes a validator after the anchor: frames give it no root yet
								shape = "events-of-a-joiner-before-its-first-round"
							}
							_, hasRoot := frA.Roots[g.ev.Creator()]
							first := -1
							for rd, ps := range frA.PeerSets {
								for _, p := range ps {
									if p.PubKeyString() == g.ev.Creator() && (first < 0 || rd < first) {
										first = rd
									}
								}
							}
							detail = fmt.Sprintf(" [event %s creator %d index %d: full node round %s rr %s; reset node round %s rr %s; anchor frame round %d; creator has a root in the frame: %v; creator's first validator set in the frame: round %d]",
								g.name, g.creator, g.ev.Index(), fo(ea.VerifRound()), fo(ea.VerifRoundReceived()), fo(eb.VerifRound()), fo(eb.VerifRoundReceived()), frA.Round, hasRoot, first)
							break
						}
						if ea.VerifRoundReceived() != nil && eb.VerifRoundReceived() == nil && *ea.VerifRoundReceived() <= b.store.LastRound()-2 {
							if g.sp == nil && g.op == nil {
								shape = "parentless-event-never-received"
							} else {
								shape = "event-never-received"
							}
							lb := -1
							if b.h.VerifRoundLowerBound() != nil {
								lb = *b.h.VerifRoundLowerBound()
							}
							detail = fmt.Sprintf(" [event %s creator %d index %d: full node round %s rr %s; reset node round %s lamport %s rr -; lower bound %d, reset node last round %d, lcr %s]", g.name, g.creator, g.ev.Index(),
								fo(ea.VerifRound()), fo(ea.VerifRoundReceived()), fo(eb.VerifRound()), fo(eb.VerifLamport()), lb, b.store.LastRound(), fo(b.h.LastConsensusRound))
							break
						}
					}
					if shape == "other" {
						fa, e1 := a.store.GetFrame(ab.RoundReceived())
						fb, e2 := b.store.GetFrame(bb.RoundReceived())
						if e1 == nil && e2 == nil {
							la, lb := strings.Split(a.frameLine(fa), " "), strings.Split(b.frameLine(fb), " ")
							for i := range la {
								if i < len(lb) && la[i] != lb[i] {
									pa, pb := strings.Split(la[i], ";"), strings.Split(lb[i], ";")
									for j := range pa {
										if j < len(pb) && pa[j] != pb[j] {
											detail += fmt.Sprintf(" [frame differs: full %.300s | reset %.300s]", pa[j], pb[j])
											if strings.HasPrefix(la[i], "roots=") {
												shape = "frame-roots-differ"
											}
											break
										}
									}
									break
								}
							}
						}
					}
					r.Violate("impl-violation", fmt.Sprintf("node reset at block %d delivers a different block %d than the full-history node%s:\n full : %s\n reset: %s", k, bb.Index(), detail, a.blockLine(ab), b.blockLine(bb)),
						"continuity:"+shape, map[string]interface{}{"options": o.String(), "anchor": k, "ops": clip(c.Ops, 1200)})
					break
				}
			}
			// B must not fall behind forever: it received every event A has
			if len(b.blocks)-1+k+1 < len(a.blocks) && rejected == 0 {
				r.Violate("impl-violation", fmt.Sprintf("node reset at block %d received the whole history without a refusal but delivered only up to block %d (full node: %d)", k, b.blocks[len(b.blocks)-1].Index(), len(a.blocks)-1),
					"continuity:stuck", map[string]interface{}{"options": o.String(), "anchor": k})
			}
			if after >= 2 {
				nontrivial = true
			}
			r.Inc("blocks_after_reset", after)
			// validator-set table from the anchor on
			pa, _ := a.store.GetAllPeerSets()
			pb, _ := b.store.GetAllPeerSets()
			rs := []int{}
			for e := range pb {
				rs = append(rs, e)
			}
			sort.Ints(rs)
			for _, e := range rs {
				if sa, ok := pa[e]; ok && a.fmtPeerSets(map[int][]*peers.Peer{e: sa}) != b.fmtPeerSets(map[int][]*peers.Peer{e: pb[e]}) {
					r.Violate("impl-violation", fmt.Sprintf("reset node and full node disagree on the validator set of round %d", e), "continuity:peersets", nil)
				}
			}
			b.close()
		}
		r.Count(c.Canon(), nontrivial)
		r.Inc("scenarios", 1)
		if ci == 0 {
			r.Sample(map[string]interface{}{"options": o.String(), "anchors": anchors, "blocks_of_full_node": len(a.blocks)}, 8)
		}
		r.Compare(c)
		a.close()
		other.close()
	}
}

// c13Cores: the same property on real core objects: an observer fast-forwards
// from a peer's anchor (through JSON, with the application snapshot) at a random
// moment of a run with membership changes, keeps pulling, and must deliver the
// same block bodies as the full-history nodes.
func c13Cores(r *Result, rng *rand.Rand, thorough bool) {
	runs := 4
	if thorough {
		runs = 30
	}
	for ri := 0; ri < runs; ri++ {
		n := 3 + rng.Intn(2)
		cl := newCluster(rng, n, 10000, nil)
		steps := 500 + rng.Intn(200)
		ffAt := steps/3 + rng.Intn(steps/3)
		joinAt := ffAt - 10 - rng.Intn(60)
		if joinAt < 40 {
			joinAt = 40
		}
		var obs *member
		pendingAtFF := false
		// every other run: two joins a few steps apart (two validator sets pending at the anchor), the
		// observer prefers an anchor that carries both, and a third change is requested after it
		// fast-forwarded (applied on top of what core.fastForward left in core.validators)
		double := ri%2 == 1
		obsAt, thirdDone := -1, false
		join1Done, join2Done := false, false
		for s := 0; s < steps; s++ {
			act := cl.activeMembers()
			a, b := act[rng.Intn(len(act))], act[rng.Intn(len(act))]
			if a == b {
				continue
			}
			if rng.Intn(3) == 0 {
				cl.submit(a, cl.newTx())
			}
			if s >= joinAt && !join1Done {
				join1Done = true
				cl.startJoin(a)
			}
			if double && s >= joinAt+22+(ri%3)*9 && !join2Done {
				join2Done = true
				cl.startJoin(a)
			}
			if s == joinAt+20 && n >= 4 && ri%2 == 0 {
				cl.startLeave(cl.members[n-1])
			}
			if double && obs != nil && !thirdDone && s >= obsAt+25 {
				thirdDone = true
				if ri%4 == 1 {
					cl.startJoin(a)
				} else {
					cl.startLeave(cl.members[n-1])
				}
				r.Inc("core_third_change_after_fast_forward", 1)
			}
			if s >= joinAt && obs == nil {
				// prefer an anchor whose frame already records a change that is not yet effective
				var src *member
				for _, m := range act {
					if _, f, err := m.core.GetAnchorBlockWithFrame(); err == nil {
						pend := 0
						for rd := range f.PeerSets {
							if rd > f.Round {
								pend++
							}
						}
						if os.Getenv("DBGLATE") != "" && double && pend >= 1 {
							ks := []int{}
							for rd := range f.PeerSets {
								ks = append(ks, rd)
							}
							sort.Ints(ks)
							fmt.Fprintf(os.Stderr, "DBG13 run %d step %d member %d frame round %d peersets %v\n", ri, s, m.idx, f.Round, ks)
						}
						if pend >= 2 || (pend >= 1 && (!double || s >= joinAt+170)) {
							src = m
						}
					}
				}
				if src == nil && s >= ffAt+100 {
					src = a
				}
				if src == nil {
					goto gossip
				}
				blk, frm, err := src.core.GetAnchorBlockWithFrame()
				if err == nil && blk.Index() >= 1 {
					var b2 hg.Block
					var f2 hg.Frame
					jsonCopy(blk, &b2)
					jsonCopy(frm, &f2)
					o := newMember(cl.rng, 500)
					cl.mkCore(o, src.core.Peers().Peers)
					o.core.SetAcceptedRound(1 << 30)
					snap, _ := src.app.SnapshotHandler(b2.Index())
					o.app.RestoreHandler(snap)
					if err := o.core.FastForward(&b2, &f2); err != nil {
						r.Violate("impl-violation", "an honest anchor was refused by a fresh core: "+err.Error(), "core-ff-refused", nil)
						continue
					}
					o.core.ProcessAcceptedInternalTransactions(b2.RoundReceived(), b2.InternalTransactionReceipts())
					// is a change recorded but not yet effective at the frame's round?
					for rd := range f2.PeerSets {
						if rd > f2.Round {
							pendingAtFF = true
						}
					}
					obs = o
					obsAt = s
					npend := 0
					for rd := range f2.PeerSets {
						if rd > f2.Round {
							npend++
						}
					}
					r.Inc("core_fast_forwards_with_two_pending_changes", boolInt(npend >= 2))
					obs.idx = 500
					r.Inc("core_fast_forwards", 1)
					r.Inc("core_fast_forwards_with_pending_change", boolInt(pendingAtFF))
				}
			}
		gossip:
			cl.pull(a, b, -1)
			if obs != nil && rng.Intn(2) == 0 {
				cl.pull(obs, a, -1)
			}
			cl.activateJoiners()
		}
		if obs != nil {
			for k := 0; k < 10; k++ {
				cl.pull(obs, cl.members[0], -1)
			}
			ok, what := bodiesPrefixConsistent(cl.members[0], obs)
			if !ok {
				key := "continuity:cores"
				if pendingAtFF {
					key = "continuity:cores-pending-change"
				}
				r.Violate("impl-violation", "a fast-forwarded core delivers different blocks than the full-history cores ("+fmt.Sprintf("membership change pending at the anchor: %v", pendingAtFF)+"): "+what, key, map[string]interface{}{"pending_change_at_anchor": pendingAtFF})
			}
			r.Inc("core_blocks_after_ff", len(obs.app.delivered))
			r.Count(fmt.Sprintf("cores %d %d %v", ri, n, pendingAtFF), len(obs.app.delivered) >= 2)
		}
		cl.close()
	}
}
