package main

// C15: encoding identity. Events converted to wire form on one node and read
// back on another (which knows the parents); events reloaded from the database
// after eviction and after reopen; blocks and frames through the JSON transport;
// frames whose maps were filled in different orders. In every case: same hash,
// signatures still valid, same payload bytes. Payloads are type directed: nil vs
// empty slices, empty and binary transactions, many internal transactions and
// block signatures, all parent combinations.

import (
	"bytes"
	"encoding/json"
	"fmt"
	"math/rand"
	"os"
	"strings"

	"github.com/mosaicnetworks/babble/src/common"
	"github.com/mosaicnetworks/babble/src/crypto/keys"
	hg "github.com/mosaicnetworks/babble/src/hashgraph"
	bnet "github.com/mosaicnetworks/babble/src/net"
	"github.com/mosaicnetworks/babble/src/peers"
)

func init() { runners["C15"] = runC15 }

func payloadVariants(rng *rand.Rand, k int) [][]byte {
	switch k % 7 {
	case 0:
		return nil
	case 1:
		return [][]byte{}
	case 2:
		return [][]byte{{}}
	case 3:
		return [][]byte{nil, {}, []byte("x")}
	case 4:
		b := make([]byte, 300)
		rng.Read(b)
		return [][]byte{b, {0}, {0xff, 0xfe, 0x00}}
	case 5:
		return [][]byte{[]byte("dup"), []byte("dup")}
	}
	return [][]byte{[]byte(fmt.Sprintf("tx-%d", k))}
}

func sameTxs(a, b [][]byte) bool {
	if len(a) != len(b) {
		return false
	}
	for i := range a {
		if !bytes.Equal(a[i], b[i]) {
			return false
		}
	}
	return true
}

func runC15(r *Result, thorough bool) {
	r.Rule = "type-directed events (nil / empty / binary / duplicate transactions, 0-3 internal transactions, 0-3 block signatures, all parent combinations) created on real cores that gossip; " +
		"(a) every event a node serves in wire form is read back by another node that knows its parents: same hash, Verify true, same payload; servers include nodes that were reset from a frame; " +
		"(b) Badger: every event re-read from the database after eviction and after reopen: same hash and signature, same wire info; (c) blocks and frames through encoding/json (FastForwardResponse): same body hash / frame hash, signatures still verify; " +
		"(e) common.EncodeToString / DecodeFromString and keys.EncodeSignature / DecodeSignature against the byte-level Lean model (Babble.ByteCodec: values, not only success) on keys, hashes, random byte strings, real and random signatures, canonical and re-spelled forms, with Go-side round-trip oracles; " +
		"(d) a frame's hash after a JSON round trip and after re-insertion of its maps in another order is unchanged. non-trivial: a value with nil and empty slice positions or binary payload"
	rng := rand.New(rand.NewSource(r.Seed))
	c15FrameTimestamp(r, rng, thorough)
	byteCodecCorrespondence(r, rand.New(rand.NewSource(r.Seed+7919)), thorough)
	runs := 3
	if thorough {
		runs = 20
	}
	for ri := 0; ri < runs; ri++ {
		n := 3 + rng.Intn(2)
		dirs := []string{}
		cl := newCluster(rng, n, 40+rng.Intn(60), func(m *member) hg.Store {
			if m.idx == 0 {
				dir := tmpBadger(fmt.Sprintf("c15-%d", ri))
				dirs = append(dirs, dir)
				st, err := hg.NewBadgerStore(30, dir, false, quiet())
				if err != nil {
					panic(err)
				}
				m.badger = dir
				return st
			}
			return hg.NewInmemStore(10000)
		})
		// membership requests whose key is spelled in lower-case hex travel inside events and blocks:
		// the string is part of the hashed and signed JSON and must survive every form verbatim
		cl.spellAlways = ri%2 == 0
		steps := 250 + rng.Intn(150)
		var joiner *member
		k := 0
		wireChecked, wireFailed := 0, 0
		for s := 0; s < steps; s++ {
			act := cl.activeMembers()
			a, b := act[rng.Intn(len(act))], act[rng.Intn(len(act))]
			if a == b {
				continue
			}
			// type-directed payloads go through the pools
			if rng.Intn(2) == 0 {
				k++
				txs := payloadVariants(rng, k)
				a.core.AddTransactions(txs)
				for _, t := range txs {
					cl.submitted[string(t)]++
				}
				nt := false
				for _, t := range txs {
					if len(t) == 0 || len(t) > 100 {
						nt = true
					}
				}
				r.Count(fmt.Sprintf("payload %d %d", ri, k), nt || txs == nil || len(txs) == 0)
			}
			if joiner == nil && s >= steps/4 {
				joiner = cl.startJoin(a)
			}
			// (a) the pull, step by step, checking each wire event
			known := a.core.KnownEvents()
			diff, err := b.core.EventDiff(known)
			if err != nil {
				continue
			}
			wire, _ := b.core.ToWire(diff)
			for i, w := range wire {
				// through the JSON transport, as a SyncResponse
				var resp bnet.SyncResponse
				jsonCopy(bnet.SyncResponse{FromID: b.core.ID(), Events: []hg.WireEvent{w}}, &resp)
				ev, err := a.core.Hashgraph().ReadWireInfo(resp.Events[0])
				orig := diff[i]
				if err != nil {
					// a later event of the same answer may depend on this one: only an error if the parents are known
					spOK := orig.SelfParent() == ""
					if !spOK {
						_, e1 := a.core.Hashgraph().Store.GetEvent(orig.SelfParent())
						spOK = e1 == nil
					}
					opOK := orig.OtherParent() == ""
					if !opOK {
						_, e2 := a.core.Hashgraph().Store.GetEvent(orig.OtherParent())
						opOK = e2 == nil
					}
					if spOK && opOK {
						wireFailed++
						r.Violate("impl-violation", fmt.Sprintf("node %d cannot read back the wire form of an event served by node %d although it knows both parents: %v (wire creator id %d, self-parent index %d)", a.idx, b.idx, err, w.Body.CreatorID, w.Body.SelfParentIndex),
							"wire-unreadable", map[string]interface{}{"error": err.Error()})
					}
					continue
				}
				wireChecked++
				if ev.Hex() != orig.Hex() {
					r.Violate("impl-violation", fmt.Sprintf("wire round trip changed the hash of an event (creator %d index %d)", w.Body.CreatorID, w.Body.Index), "wire-hash", nil)
				}
				if ok, err := ev.Verify(); !ok || err != nil {
					r.Violate("impl-violation", "signature no longer verifies after the wire round trip", "wire-signature", nil)
				}
				if !sameTxs(ev.Transactions(), orig.Transactions()) || len(ev.InternalTransactions()) != len(orig.InternalTransactions()) || len(ev.BlockSignatures()) != len(orig.BlockSignatures()) {
					r.Violate("impl-violation", "payload changed by the wire round trip", "wire-payload", nil)
				}
			}
			a.core.Sync(b.core.ID(), wire)
			a.core.ProcessSigPool()
			cl.activateJoiners()
		}
		r.Inc("wire_events_checked", wireChecked)
		r.Inc("wire_events_unreadable", wireFailed)
		// (b) database forms on the Badger member
		m0 := cl.members[0]
		if bs, ok := m0.store.(*hg.BadgerStore); ok {
			check := func(stage string) {
				topo, err := bs.VerifDBTopologicalEvents(0, 100000)
				if err != nil {
					r.Violate("impl-violation", "topological listing unreadable "+stage+": "+err.Error(), "db-topo", nil)
					return
				}
				for _, e := range topo {
					ok, err := e.Verify()
					if !ok || err != nil {
						r.Violate("impl-violation", "an event reloaded from the database no longer verifies ("+stage+")", "db-signature", nil)
					}
					// its wire form must be readable by another node that has it
					w := e.ToWire()
					other := cl.members[1]
					if _, err := other.core.Hashgraph().Store.GetEvent(e.Hex()); err == nil {
						ev, err := other.core.Hashgraph().ReadWireInfo(w)
						if err != nil || ev.Hex() != e.Hex() {
							r.Violate("impl-violation", fmt.Sprintf("the wire form of an event reloaded from the database (%s) is not readable by a node that holds the same event: %v", stage, err), "db-wire", nil)
							break
						}
					}
					r.Inc("db_events_checked", 1)
				}
			}
			check("after eviction")
			m0.store.Close()
			st, err := hg.NewBadgerStore(30, m0.badger, false, quiet())
			if err == nil {
				bs = st
				m0.store = st
				check("after reopen")
			}
		}
		// (c),(d) blocks and frames through JSON
		for _, m := range cl.activeMembers() {
			for _, d := range m.app.delivered {
				blk, err := m.core.Hashgraph().Store.GetBlock(d.Index())
				if err != nil {
					continue
				}
				fr, err := m.core.Hashgraph().Store.GetFrame(blk.RoundReceived())
				if err != nil {
					continue
				}
				var resp bnet.FastForwardResponse
				jsonCopy(bnet.FastForwardResponse{FromID: 1, Block: *blk, Frame: *fr, Snapshot: []byte{0, 1, 2}}, &resp)
				h1, _ := blk.Body.Hash()
				h2, _ := resp.Block.Body.Hash()
				if !bytes.Equal(h1, h2) {
					r.Violate("impl-violation", fmt.Sprintf("block %d: body hash changed by the JSON transport", blk.Index()), "json-block-hash", nil)
				}
				for _, s := range resp.Block.GetSignatures() {
					if ok, err := resp.Block.Verify(s); !ok || err != nil {
						r.Violate("impl-violation", fmt.Sprintf("block %d: a signature no longer verifies after the JSON transport", blk.Index()), "json-block-signature", nil)
					}
				}
				if !sameTxs(blk.Transactions(), resp.Block.Transactions()) {
					r.Violate("impl-violation", fmt.Sprintf("block %d: transactions changed by the JSON transport", blk.Index()), "json-block-payload", nil)
				}
				f1, _ := fr.Hash()
				f2, _ := resp.Frame.Hash()
				if !bytes.Equal(f1, f2) || !bytes.Equal(f1, blk.FrameHash()) {
					r.Violate("impl-violation", fmt.Sprintf("frame of round %d: hash changed by the JSON transport", fr.Round), "json-frame-hash", nil)
				}
				// (d) rebuild the maps in another insertion order
				f3 := hg.Frame{Round: resp.Frame.Round, Peers: resp.Frame.Peers, Events: resp.Frame.Events, Timestamp: resp.Frame.Timestamp, Roots: map[string]*hg.Root{}, PeerSets: map[int][]*peers.Peer{}}
				ks := []string{}
				for k := range resp.Frame.Roots {
					ks = append(ks, k)
				}
				rng.Shuffle(len(ks), func(i, j int) { ks[i], ks[j] = ks[j], ks[i] })
				for _, k := range ks {
					f3.Roots[k] = resp.Frame.Roots[k]
				}
				rs := []int{}
				for k := range resp.Frame.PeerSets {
					rs = append(rs, k)
				}
				rng.Shuffle(len(rs), func(i, j int) { rs[i], rs[j] = rs[j], rs[i] })
				for _, k := range rs {
					f3.PeerSets[k] = resp.Frame.PeerSets[k]
				}
				h3, _ := f3.Hash()
				if !bytes.Equal(f1, h3) {
					r.Violate("impl-violation", fmt.Sprintf("frame of round %d: hash depends on the order in which its maps were filled", fr.Round), "frame-map-order", nil)
				}
				r.Inc("blocks_frames_checked", 1)
			}
		}
		// (a') a node that was reset from a frame serves its events to a node holding them
		srcs := cl.activeMembers()
		var src *member
		for _, m := range srcs {
			if m.core.Hashgraph().AnchorBlock != nil && *m.core.Hashgraph().AnchorBlock >= 1 {
				src = m
			}
		}
		if src != nil {
			blk, frm, err := src.core.GetAnchorBlockWithFrame()
			if err == nil {
				var b2 hg.Block
				var f2 hg.Frame
				jsonCopy(blk, &b2)
				jsonCopy(frm, &f2)
				rst := newMember(cl.rng, 700)
				cl.mkCore(rst, src.core.Peers().Peers)
				rst.core.SetAcceptedRound(1 << 30)
				if err := rst.core.FastForward(&b2, &f2); err == nil {
					// the frame the fast-forwarded node now holds (and would serve) hashes to the same
					// value on both sides of the JSON transport, whatever Reset did to the object
					if fServed, err := rst.core.Hashgraph().Store.GetFrame(b2.RoundReceived()); err == nil {
						h1, _ := fServed.Hash()
						var fc hg.Frame
						jsonCopy(fServed, &fc)
						h2, _ := fc.Hash()
						r.Inc("frames_of_reset_nodes_rehashed", 1)
						if !bytes.Equal(h1, h2) {
							r.Violate("impl-violation", fmt.Sprintf("the frame of round %d held by a fast-forwarded node hashes differently before and after the JSON transport (%d roots)", fServed.Round, len(fServed.Roots)), "json-frame-hash-after-reset", nil)
						}
					}
					evs, err := rst.core.EventDiff(map[uint32]int{})
					if err == nil {
						wire, _ := rst.core.ToWire(evs)
						bad, total := 0, 0
						var firstErr error
						for i, w := range wire {
							// the receiver holds the event and its parents (it is a full-history node)
							if _, e := src.core.Hashgraph().Store.GetEvent(evs[i].Hex()); e != nil {
								continue
							}
							pOK := true
							for _, p := range []string{evs[i].SelfParent(), evs[i].OtherParent()} {
								if p != "" {
									if _, e := src.core.Hashgraph().Store.GetEvent(p); e != nil {
										pOK = false
									}
								}
							}
							if !pOK {
								continue
							}
							total++
							ev, err := src.core.Hashgraph().ReadWireInfo(w)
							if err != nil || ev.Hex() != evs[i].Hex() {
								bad++
								if firstErr == nil {
									firstErr = err
								}
							}
						}
						r.Inc("reset_server_events_checked", total)
						if bad > 0 {
							r.Violate("impl-violation", fmt.Sprintf("%d of %d events served in wire form by a node that adopted them through a fast-forward frame cannot be read back by a full-history node that knows their parents: %v", bad, total, firstErr),
								"wire-from-reset-node", map[string]interface{}{"bad": bad, "total": total})
						}
					}
				}
				rst.store.Close()
			}
		}
		cl.close()
		for _, d := range dirs {
			os.RemoveAll(d)
		}
	}
	// (e) the wire conversion against the Lean model (Model/Codec): hashgraph-level scenario, two nodes
	wireCases := 3
	if thorough {
		wireCases = 15
	}
	for wi := 0; wi < wireCases; wi++ {
		o := randomOpts(rng, false, wi%2 == 1)
		o.byz = nil
		sc := buildScenario(rng, o, 1, false, false, false)
		c := sc.cs[0]
		a, b := sc.nodes[0], sc.nodes[1]
		ids := map[uint32]int{}
		for i, p := range sc.d.parts {
			ids[p.peer.ID()] = i
		}
		for k := 0; k < 60 && len(a.order) > 0; k++ {
			g := a.order[rng.Intn(len(a.order))]
			e, err := a.store.GetEvent(g.ev.Hex())
			if err != nil {
				continue
			}
			w := e.ToWire()
			back := "unreadable"
			if ev, err := b.h.ReadWireInfo(w); err == nil {
				back = fmt.Sprintf("sp=%s op=%s", sc.d.nameOf(ev.SelfParent()), sc.d.nameOf(ev.OtherParent()))
				if ev.Hex() != e.Hex() {
					r.Violate("impl-violation", "wire round trip changed an event's hash", "wire-hash", nil)
				}
			}
			opc := 0
			if w.Body.OtherParentIndex >= 0 {
				opc = ids[w.Body.OtherParentCreatorID]
			}
			c.Op(fmt.Sprintf("HG wire 0 1 %s", g.name), fmt.Sprintf("O wire %d %d %d %d %d %s", ids[w.Body.CreatorID], w.Body.Index, w.Body.SelfParentIndex, opc, w.Body.OtherParentIndex, back))
			r.Inc("wire_model_comparisons", 1)
		}
		r.Compare(c)
		sc.close()
	}
	// JSON of the payload-carrying types: nil vs empty must not matter for the hash the receiver computes
	for k := 0; k < 14; k++ {
		p := newParticipants(rng, 1)[0]
		e := hg.NewEvent(payloadVariants(rng, k), nil, nil, []string{"", ""}, keys.FromPublicKey(&p.key.PublicKey), 0)
		e.Sign(p.key)
		js, _ := json.Marshal(e)
		var e2 hg.Event
		json.Unmarshal(js, &e2)
		if e.Hex() != e2.Hex() {
			r.Violate("impl-violation", fmt.Sprintf("event hash changed by a JSON round trip for payload variant %d (nil / empty slices)", k%7), "json-event-hash", map[string]int{"variant": k % 7})
		}
		r.Inc("json_event_variants", 1)
	}
}

// c15FrameTimestamp: a frame's timestamp (part of its hash) is the median of the famous witnesses'
// claims, collected by ranging over a map: the value must not depend on the order in which the
// claims arrive, for any number of validators (no test uses more than 10).
func c15FrameTimestamp(r *Result, rng *rand.Rand, thorough bool) {
	k := 400
	if thorough {
		k = 5000
	}
	c := &Case{ID: "frame timestamp"}
	for i := 0; i < k; i++ {
		n := 1 + rng.Intn(64)
		vals := []int64{}
		base := int64(1600000000) + rng.Int63n(1000000)
		for j := 0; j < n; j++ {
			vals = append(vals, base+rng.Int63n(30))
		}
		a := append([]int64{}, vals...)
		b := append([]int64{}, vals...)
		rng.Shuffle(len(b), func(x, y int) { b[x], b[y] = b[y], b[x] })
		ma, mb := common.Median(a), common.Median(b)
		r.Inc("timestamp_lists_in_two_orders", 1)
		if n > 16 {
			r.Inc("timestamp_lists_of_more_than_16_witnesses", 1)
		}
		if ma != mb {
			r.Violate("impl-violation", fmt.Sprintf("the timestamp of a frame depends on the order in which the %d famous witnesses are visited: %d vs %d", n, ma, mb), "frame-timestamp-order",
				map[string]interface{}{"claims": fmt.Sprint(a), "other_order": fmt.Sprint(b)})
		}
		strs := []string{}
		for _, v := range a {
			strs = append(strs, fmt.Sprint(v))
		}
		c.Op("MED "+strings.Join(strs, " "), fmt.Sprintf("O %d", ma))
	}
	r.Compare(c)
}
