package main

// C16: store fidelity. (a) common.RollingIndex and common.LRU against the Lean
// container models on random and exhaustive-small operation sequences; (b) the
// real InmemStore / BadgerStore, filled by real gossip histories with tiny to
// default caches and close/reopen at arbitrary points, against a trivially
// correct reference kept by the harness.

import (
	"bytes"
	"fmt"
	"github.com/mosaicnetworks/babble/src/crypto/keys"
	"math/rand"
	"os"
	"path/filepath"
	"strings"
	"time"

	"github.com/mosaicnetworks/babble/src/common"
	hg "github.com/mosaicnetworks/babble/src/hashgraph"
	"github.com/mosaicnetworks/babble/src/peers"
)

func peersOf(d *dag) *peers.PeerSet { return peers.NewPeerSet(d.genesis()) }

func init() { runners["C16"] = runC16 }

func storeErrKind(err error) string {
	switch {
	case common.IsStore(err, common.TooLate):
		return "TooLate"
	case common.IsStore(err, common.SkippedIndex):
		return "SkippedIndex"
	case common.IsStore(err, common.KeyNotFound):
		return "KeyNotFound"
	case common.IsStore(err, common.Empty):
		return "Empty"
	}
	return "other:" + err.Error()
}

func itemsStr(l []interface{}) string {
	s := []string{}
	for _, x := range l {
		s = append(s, fmt.Sprint(x))
	}
	return listOrDash(s)
}

func riCase(r *Result, c *Case, size int, ops [][3]int) {
	start := len(c.Ops)
	ri := common.NewRollingIndex("ri", size)
	c.Op(fmt.Sprintf("RI new %d", size))
	sets, errs := 0, 0
	for _, op := range ops {
		switch op[0] {
		case 0:
			err := ri.Set(op[1], op[2])
			if err != nil {
				c.Op(fmt.Sprintf("RI set %d %d", op[1], op[2]), "O err:"+storeErrKind(err))
				errs++
			} else {
				c.Op(fmt.Sprintf("RI set %d %d", op[1], op[2]), "O ok")
				sets++
			}
		case 1:
			l, err := ri.Get(op[2])
			if err != nil {
				c.Op(fmt.Sprintf("RI get %d", op[2]), "O err:"+storeErrKind(err))
			} else {
				c.Op(fmt.Sprintf("RI get %d", op[2]), "O ok "+itemsStr(l))
			}
		case 2:
			x, err := ri.GetItem(op[2])
			if err != nil {
				c.Op(fmt.Sprintf("RI item %d", op[2]), "O err:"+storeErrKind(err))
			} else {
				c.Op(fmt.Sprintf("RI item %d", op[2]), fmt.Sprintf("O ok %v", x))
			}
		}
		w, last := ri.GetLastWindow()
		c.Op("RI window", fmt.Sprintf("O %s %d", itemsStr(w), last))
	}
	r.Count(strings.Join(c.Ops[start:], "\n"), sets > 0 && errs > 0)
	r.Inc("ri_sequences", 1)
	r.Inc("ri_ops", len(ops))
}

func lruCase(r *Result, rng *rand.Rand, c *Case, size int, n int) {
	start := len(c.Ops)
	l := common.NewLRU(size, nil)
	c.Op(fmt.Sprintf("LRU new %d", size))
	ref := map[int]int{} // reference: latest value per key (no eviction)
	evictions := 0
	for i := 0; i < n; i++ {
		k := rng.Intn(size + 3)
		switch rng.Intn(8) {
		case 0, 1, 2:
			v := rng.Intn(1000)
			ev := l.Add(k, v)
			ref[k] = v
			c.Op(fmt.Sprintf("LRU add %d %d", k, v), fmt.Sprintf("O %d", boolInt(ev)))
			evictions += boolInt(ev)
		case 3, 4:
			v, ok := l.Get(k)
			s := "-"
			if ok {
				s = fmt.Sprint(v)
				if rv, have := ref[k]; !have || rv != v.(int) {
					r.Violate("impl-violation", fmt.Sprintf("LRU.Get(%d)=%v but the latest value written is %v", k, v, ref[k]), "lru-stale", c.Ops)
				}
			}
			c.Op(fmt.Sprintf("LRU get %d", k), "O "+s)
		case 5:
			v, ok := l.Peek(k)
			s := "-"
			if ok {
				s = fmt.Sprint(v)
			}
			c.Op(fmt.Sprintf("LRU peek %d", k), "O "+s)
			c.Op(fmt.Sprintf("LRU contains %d", k), fmt.Sprintf("O %d", boolInt(l.Contains(k))))
		case 6:
			ok := l.Remove(k)
			delete(ref, k)
			c.Op(fmt.Sprintf("LRU remove %d", k), fmt.Sprintf("O %d", boolInt(ok)))
		case 7:
			k2, v2, ok := l.RemoveOldest()
			s := "-"
			if ok {
				s = fmt.Sprintf("%v:%v", k2, v2)
				delete(ref, k2.(int))
			}
			c.Op("LRU rmoldest", "O "+s)
		}
		ks := []string{}
		for _, k := range l.Keys() {
			ks = append(ks, fmt.Sprint(k))
		}
		c.Op("LRU keys", fmt.Sprintf("O %s %d", listOrDash(ks), l.Len()))
		if l.Len() > size && size > 0 {
			r.Violate("impl-violation", fmt.Sprintf("LRU of size %d holds %d entries", size, l.Len()), "lru-size", c.Ops)
		}
	}
	r.Count(strings.Join(c.Ops[start:], "\n"), evictions > 0)
	r.Inc("lru_sequences", 1)
	r.Inc("lru_evictions", evictions)
}

func runC16(r *Result, thorough bool) {
	r.Rule = "(a) RollingIndex: every operation sequence of length<=5 over {set valid/replace/skip/late, get, item} for sizes 1..4 (exhaustive-small) and random long sequences, " +
		"LRU: random sequences of add/get/peek/contains/remove/removeOldest for sizes 0..6, each vs the Lean container models; " +
		"(b) InmemStore/BadgerStore filled by real gossip histories with cache sizes from tiny to default, close/reopen at random points: every read (events, blocks, rounds, frames, peer sets, roots, participant listings, topological listing; cache and database level) vs a reference kept by the harness. " +
		"non-trivial: a sequence with both accepted and refused writes / an eviction / a read served from the database after eviction or reopen"
	rng := rand.New(rand.NewSource(r.Seed))
	// --- (a1) RollingIndex exhaustive-small: the next index is relative to the current last index
	depth := 4
	if thorough {
		depth = 5
	}
	for size := 1; size <= 4; size++ {
		big := &Case{ID: fmt.Sprintf("ri-exhaustive-size-%d", size)}
		var rec func(seq [][3]int, last int)
		cnt := 0
		rec = func(seq [][3]int, last int) {
			if len(seq) == depth {
				cnt++
				riCase(r, big, size, seq)
				return
			}
			// candidate operations
			cands := [][3]int{{0, 100 + len(seq), last + 1}, {0, 200 + len(seq), last}, {0, 300 + len(seq), last + 2}, {0, 400 + len(seq), last - size}, {1, 0, last - 1}, {2, 0, last}}
			for _, op := range cands {
				nl := last
				if op[0] == 0 && op[2] == last+1 {
					nl = last + 1
				}
				if op[0] == 0 && last < 0 && op[2] >= 0 {
					nl = op[2]
				}
				rec(append(append([][3]int{}, seq...), op), nl)
			}
		}
		rec(nil, -1)
		r.Compare(big)
		r.Inc("ri_exhaustive_sequences", cnt)
	}
	r.Exhaustive = false
	// --- (a2) random long sequences
	nseq := 150
	if thorough {
		nseq = 3000
	}
	bigR := &Case{ID: "ri-random"}
	bigL := &Case{ID: "lru-random"}
	for s := 0; s < nseq; s++ {
		size := 1 + rng.Intn(8)
		ops := [][3]int{}
		last := -1
		for i := 0; i < 10+rng.Intn(60); i++ {
			switch rng.Intn(10) {
			case 0, 1, 2, 3, 4:
				ops = append(ops, [3]int{0, 1000 + i, last + 1})
				last++
			case 5:
				ops = append(ops, [3]int{0, 2000 + i, last - rng.Intn(size+2)})
			case 6:
				ops = append(ops, [3]int{0, 3000 + i, last + 2 + rng.Intn(3)})
			case 7:
				ops = append(ops, [3]int{1, 0, last - rng.Intn(size+3)})
			default:
				ops = append(ops, [3]int{2, 0, last + 1 - rng.Intn(size+3)})
			}
		}
		riCase(r, bigR, size, ops)
		lruCase(r, rng, bigL, rng.Intn(7), 20+rng.Intn(80))
	}
	r.Compare(bigR)
	r.Compare(bigL)
	r.Sample(map[string]interface{}{"rolling_index_ops": clip(bigR.Ops[:min(len(bigR.Ops), 14)], 14), "lru_ops": clip(bigL.Ops[:min(len(bigL.Ops), 14)], 14)}, 8)
	// --- (b) stores
	nst := 4
	if thorough {
		nst = 40
	}
	deadline := time.Now().Add(6 * time.Minute)
	for s := 0; s < nst && time.Now().Before(deadline); s++ {
		storeCase(r, rng, s, thorough)
		r.Inc("store_cases", 1)
	}
	// --- (c) an acknowledged write is what is read back: second writes of events, also of events
	// that left the cache and the creator's rolling window long ago
	nrw := 6
	if thorough {
		nrw = 60
	}
	for s := 0; s < nrw; s++ {
		storeRewriteCase(r, rng, s)
	}
	// --- (d) what Reset writes (roots, peer sets, the frame) is what a reopened store returns, also
	// after later validator-set entries were recorded
	nrs := 2
	if thorough {
		nrs = 12
	}
	for s := 0; s < nrs; s++ {
		storeResetCase(r, rng, s)
	}
}

// storeResetCase: a Badger store started from genesis is Reset from a frame of a history with a
// joiner (roots for participants the database has never heard of), later validator sets are
// recorded, the store is closed and reopened: every root of the frame, every shipped validator
// set and the frame itself must be read back identically.
func storeResetCase(r *Result, rng *rand.Rand, id int) {
	o := genOpts{n0: 3, extra: 1 + rng.Intn(2), steps: 500 + rng.Intn(200), txRate: 2, joinEarly: true, late: true, ring: true}
	d := newDag(rng, o.n0, o.extra)
	scratch := &Case{ID: "gen"}
	ref := newNode(d, 0, 10000, "")
	generate(rng, o, scratch, ref)
	defer ref.close()
	if len(ref.blocks) < 2 {
		return
	}
	// prefer a frame that carries a root for a joiner
	var fr *hg.Frame
	for k := len(ref.blocks) - 1; k >= 0 && fr == nil; k-- {
		f, err := ref.store.GetFrame(ref.blocks[k].RoundReceived())
		if err != nil {
			continue
		}
		for _, p := range d.parts[o.n0:] {
			if rt, ok := f.Roots[p.hex]; ok && len(rt.Events) > 0 {
				fr = f
			}
		}
	}
	if fr == nil {
		if os.Getenv("DBGLATE") != "" {
			ps, _ := ref.store.GetAllPeerSets()
			ks := []int{}
			for k := range ps {
				ks = append(ks, k)
			}
			fmt.Fprintf(os.Stderr, "DBG16 events=%d blocks=%d lastRound=%d peersets=%v\n", len(d.events), len(ref.blocks), ref.store.LastRound(), ks)
		}
		r.Inc("reset_cases_without_joiner_root", 1)
		return
	}
	var f2 hg.Frame
	jsonCopy(fr, &f2)
	dir := tmpBadger(fmt.Sprintf("c16rs-%d", id))
	defer os.RemoveAll(filepath.Dir(dir))
	cache := 50 + rng.Intn(200)
	st, err := hg.NewBadgerStore(cache, dir, false, nil)
	if err != nil {
		panic(err)
	}
	what := func(s string, a ...interface{}) {
		r.Violate("impl-violation", fmt.Sprintf("store reset case %d (%s): ", id, o.String())+fmt.Sprintf(s, a...), "store-reset:"+strings.SplitN(s, " ", 2)[0], map[string]interface{}{"options": o.String()})
	}
	if err := st.SetPeerSet(0, peers.NewPeerSet(d.genesis())); err != nil {
		st.Close()
		return
	}
	if err := st.Reset(&f2); err != nil {
		what("Reset failed: %v", err)
		st.Close()
		return
	}
	// later entries: everybody in the repertoire of the frame, then plus a stranger
	all := []*peers.Peer{}
	seen := map[string]bool{}
	for _, ps := range f2.PeerSets {
		for _, p := range ps {
			if !seen[p.PubKeyString()] {
				seen[p.PubKeyString()] = true
				all = append(all, p)
			}
		}
	}
	maxRound := f2.Round
	for rd := range f2.PeerSets {
		if rd > maxRound {
			maxRound = rd
		}
	}
	st.SetPeerSet(maxRound+3, peers.NewPeerSet(all))
	st.SetPeerSet(maxRound+9, peers.NewPeerSet(append(append([]*peers.Peer{}, all...), newParticipants(rng, 1)[0].peer)))
	st.Close()
	st2, err := hg.NewBadgerStore(cache, dir, false, nil)
	if err != nil {
		what("reopen failed: %v", err)
		return
	}
	defer st2.Close()
	for pk, want := range fr.Roots {
		got, err := st2.GetRoot(pk)
		if err != nil {
			what("root of a participant of the frame is missing after reopen: %v", err)
			continue
		}
		if dbr, err := st2.VerifDBGetRoot(pk); err == nil {
			hd, _ := dbr.Hash()
			hw0, _ := want.Hash()
			if hd != hw0 {
				what("root in the database differs from the frame's after Reset and later validator sets (%d events shipped, %d in the database)", len(want.Events), len(dbr.Events))
			}
		}
		hw, _ := want.Hash()
		hgot, _ := got.Hash()
		if hw != hgot {
			what("root read back after Reset, later validator sets and reopen differs from the frame's (%d events shipped, %d read back)", len(want.Events), len(got.Events))
		}
	}
	// (the validator sets shipped by the frame live in the persisted frame; BadgerStore.Reset records
	// only the set of the frame's round in the peer-set table: not compared here)
	if got, err := st2.VerifDBGetPeerSet(fr.Round); err != nil {
		what("validator set of the frame's round is missing in the database after reopen: %v", err)
	} else {
		hw, _ := peers.NewPeerSet(fr.Peers).Hash()
		hgot, _ := got.Hash()
		if !bytes.Equal(hw, hgot) {
			what("validator set of the frame's round read back after reopen differs from the frame's peers")
		}
	}
	if got, err := st2.VerifDBGetFrame(fr.Round); err != nil { // (GetFrame is cache-only by design)
		what("frame missing in the database after reopen: %v", err)
	} else {
		hw, _ := fr.Hash()
		hgot, _ := got.Hash()
		if !bytes.Equal(hw, hgot) {
			what("frame read back after reopen has another hash")
		}
	}
	r.Inc("reset_cases", 1)
	r.Count(fmt.Sprintf("reset %d", id), true)
}

// storeRewriteCase: raw store API on Badger and in-memory stores with a small cache: a chain of
// events much longer than the cache, then second writes (changed consensus attributes) of random
// events (the wire info, a persisted part of the database form, is changed; round, Lamport
// timestamp and round received are by design not persisted). SetEvent either refuses (then the stored value is unchanged) or acknowledges (then
// GetEvent, the database and the store after close / reopen return the written value).
func storeRewriteCase(r *Result, rng *rand.Rand, id int) {
	cache := 3 + rng.Intn(10)
	nCreators := 1 + rng.Intn(3)
	parts := newParticipants(rng, nCreators)
	pl := []*peers.Peer{}
	for _, p := range parts {
		pl = append(pl, p.peer)
	}
	badger := rng.Intn(4) != 0
	var st hg.Store
	dir := ""
	if badger {
		dir = tmpBadger(fmt.Sprintf("c16rw-%d", id))
		defer os.RemoveAll(filepath.Dir(dir))
		b, err := hg.NewBadgerStore(cache, dir, false, nil)
		if err != nil {
			panic(err)
		}
		st = b
	} else {
		st = hg.NewInmemStore(cache)
	}
	if err := st.SetPeerSet(0, peers.NewPeerSet(pl)); err != nil {
		return
	}
	what := func(s string, a ...interface{}) {
		r.Violate("impl-violation", fmt.Sprintf("store rewrite case %d (badger=%v cache %d, %d creators): ", id, badger, cache, nCreators)+fmt.Sprintf(s, a...), "store-rewrite:"+strings.SplitN(s, " ", 2)[0], map[string]interface{}{"cache": cache, "badger": badger})
	}
	heads := make([]string, nCreators)
	hexes := []string{}
	want := map[string][3]int{} // wire info (self-parent index, other-parent creator, other-parent index) as last acknowledged
	n := cache*(2+rng.Intn(3)) + rng.Intn(cache)
	for i := 0; i < n; i++ {
		c := rng.Intn(nCreators)
		idx := 0
		for _, h := range hexes {
			if e, err := st.GetEvent(h); err == nil && e.Creator() == parts[c].hex {
				idx++
			}
		}
		other := ""
		if len(hexes) > 0 {
			other = hexes[rng.Intn(len(hexes))]
		}
		ev := hg.NewEvent([][]byte{[]byte(fmt.Sprintf("rw%d", i))}, nil, nil, []string{heads[c], other}, keys.FromPublicKey(&parts[c].key.PublicKey), idx)
		ev.Sign(parts[c].key)
		if err := st.SetEvent(ev); err != nil {
			what("first write of an event refused: %v", err)
			return
		}
		heads[c] = ev.Hex()
		hexes = append(hexes, ev.Hex())
		w0 := ev.ToWire()
		want[ev.Hex()] = [3]int{w0.Body.SelfParentIndex, int(w0.Body.OtherParentCreatorID), w0.Body.OtherParentIndex}
	}
	acked, refused := 0, 0
	get := func(e *hg.Event) [3]int {
		w := e.ToWire()
		return [3]int{w.Body.SelfParentIndex, int(w.Body.OtherParentCreatorID), w.Body.OtherParentIndex}
	}
	for k := 0; k < 3*cache; k++ {
		h := hexes[rng.Intn(len(hexes))]
		if rng.Intn(2) == 0 {
			h = hexes[rng.Intn(cache)] // old ones: out of the cache and of the rolling window
		}
		e, err := st.GetEvent(h)
		if err != nil {
			if badger {
				what("GetEvent of a stored event fails: %v", err)
			}
			continue // the in-memory store forgets evicted events (outside the property)
		}
		nv := [3]int{rng.Intn(50), rng.Intn(500), rng.Intn(50)}
		e.SetWireInfo(nv[0], uint32(nv[1]), nv[2], e.ToWire().Body.CreatorID)
		if err := st.SetEvent(e); err != nil {
			refused++
		} else {
			acked++
			want[h] = nv
		}
		if g, err := st.GetEvent(h); err == nil && get(g) != want[h] {
			what("SetEvent answered %v for a second write of an event, GetEvent returns wire info %v, last acknowledged %v", err, get(g), want[h])
			return
		}
	}
	r.Inc("rewrites_acknowledged", acked)
	r.Inc("rewrites_refused", refused)
	// blocks: more of them than the cache holds, then a late signature for an old one (read back, signed,
	// saved again as ProcessSigPool does): the last block index and the newer blocks must not move
	nb := cache*2 + rng.Intn(cache)
	for i := 0; i < nb; i++ {
		blk := hg.NewBlock(i, i+1, []byte(fmt.Sprintf("fh%d", i)), pl, [][]byte{[]byte(fmt.Sprintf("btx%d", i))}, nil, int64(1000+i))
		if err := st.SetBlock(blk); err != nil {
			what("SetBlock refused: %v", err)
			return
		}
	}
	for k := 0; k < 4; k++ {
		old := rng.Intn(cache / 2)
		blk, err := st.GetBlock(old)
		if err != nil {
			if badger {
				what("GetBlock of an old block fails: %v", err)
			}
			continue
		}
		if sig, err := blk.Sign(parts[rng.Intn(nCreators)].key); err == nil {
			blk.SetSignature(sig)
		}
		if err := st.SetBlock(blk); err != nil {
			continue
		}
		r.Inc("late_signatures_on_old_blocks", 1)
		if li := st.LastBlockIndex(); li != nb-1 {
			what("LastBlockIndex is %d after a late signature was saved on block %d, it was %d", li, old, nb-1)
			return
		}
		if last, err := st.GetBlock(nb - 1); err != nil || last.Index() != nb-1 || string(last.Transactions()[0]) != fmt.Sprintf("btx%d", nb-1) {
			what("the last block changed after a late signature was saved on block %d", old)
			return
		}
	}
	if badger {
		st.Close()
		b, err := hg.NewBadgerStore(cache, dir, false, nil)
		if err != nil {
			what("reopen failed: %v", err)
			return
		}
		defer b.Close()
		for h, w := range want {
			g, err := b.VerifDBGetEvent(h)
			if err != nil {
				what("event missing after reopen: %v", err)
				return
			}
			if get(g) != w {
				what("after close and reopen an event has wire info %v, the last acknowledged write was %v", get(g), w)
				return
			}
		}
	} else {
		st.Close()
	}
	r.Count(fmt.Sprintf("rewrite %d %v %d", id, badger, cache), acked > 0)
}

// storeCase drives a real store through a gossip history and compares every
// read with the reference.
func storeCase(r *Result, rng *rand.Rand, id int, thorough bool) {
	o := genOpts{n0: 3 + rng.Intn(3), steps: 80 + rng.Intn(120), txRate: 2, staleOp: true}
	if rng.Intn(3) == 0 {
		o.extra = 1
		o.steps += 100
	}
	d := newDag(rng, o.n0, o.extra)
	scratch := &Case{ID: "gen"}
	ref := newNode(d, 0, 10000, "")
	generate(rng, o, scratch, ref)
	defer ref.close()

	// cache sizes from "half of the history" up: below the in-flight window the hashgraph layer
	// recomputes the rounds of evicted ancestors recursively (rounds are not persisted), which is
	// outside the supported range and takes exponential time with stale other-parents
	cache := []int{len(d.events) / 2, (2 * len(d.events)) / 3, len(d.events), 1000, 10000}[rng.Intn(5)]
	if cache < 60 {
		cache = 60
	}
	dir := tmpBadger(fmt.Sprintf("c16-%d", id))
	defer os.RemoveAll(dir)
	nd := newNode(d, 1, cache, dir)
	bs := nd.store.(*hg.BadgerStore)
	// reference
	type evRef struct {
		bodyHash string
		sig      string
		topo     int
	}
	refEvents := map[string]evRef{}
	refOrder := []string{}
	refByCreator := map[int][]string{}
	dbReads, failedInserts := 0, 0
	reopenAt := -1
	if rng.Intn(2) == 0 {
		reopenAt = len(d.events)/3 + rng.Intn(len(d.events)/3+1)
	}
	what := func(s string, a ...interface{}) {
		r.Violate("impl-violation", fmt.Sprintf("store case %d (cache %d, %s): ", id, cache, o.String())+fmt.Sprintf(s, a...), "store:"+strings.SplitN(s, " ", 2)[0], map[string]interface{}{"options": o.String(), "cache": cache, "events": len(d.events)})
	}
	checkAll := func(stage string) {
		// events: through the store (cache or DB) and directly from the DB
		for h, er := range refEvents {
			e, err := nd.store.GetEvent(h)
			if err != nil {
				what("GetEvent missing at %s: %v", stage, err)
				continue
			}
			bh, _ := e.Body.Hash()
			if string(bh) != er.bodyHash || e.Signature != er.sig {
				what("GetEvent differs at %s", stage)
			}
			de, err := bs.VerifDBGetEvent(h)
			if err != nil {
				what("dbGetEvent missing at %s: %v", stage, err)
				continue
			}
			dbh, _ := de.Body.Hash()
			if string(dbh) != er.bodyHash || de.Signature != er.sig || de.VerifTopologicalIndex() != er.topo {
				what("dbGetEvent differs at %s (topological index %d, want %d)", stage, de.VerifTopologicalIndex(), er.topo)
			}
			dbReads++
		}
		// participant listings
		for ci, p := range d.parts {
			want := refByCreator[ci]
			got, err := bs.VerifDBParticipantEvents(p.hex, -1)
			if err != nil {
				what("dbParticipantEvents error at %s: %v", stage, err)
			} else if strings.Join(got, ",") != strings.Join(want, ",") {
				what("dbParticipantEvents differ at %s for creator %d: %d listed, %d stored", stage, ci, len(got), len(want))
			}
			if len(want) > 0 {
				got2, err := nd.store.ParticipantEvents(p.hex, -1)
				if err != nil || strings.Join(got2, ",") != strings.Join(want, ",") {
					what("ParticipantEvents(-1) differ at %s for creator %d: err=%v %d listed, %d stored", stage, ci, err, len(got2), len(want))
				}
				k := rng.Intn(len(want))
				h, err := nd.store.ParticipantEvent(p.hex, k)
				if err != nil || h != want[k] {
					what("ParticipantEvent differs at %s: creator %d index %d err=%v", stage, ci, k, err)
				}
			}
		}
		// topological listing: every stored event exactly once, in order, no gaps
		tev, err := bs.VerifDBTopologicalEvents(0, len(refOrder)+10)
		if err != nil {
			what("dbTopologicalEvents error at %s: %v", stage, err)
		} else {
			if len(tev) != len(refOrder) {
				what("topological listing has %d events, %d stored, at %s", len(tev), len(refOrder), stage)
			}
			for i := 0; i < len(tev) && i < len(refOrder); i++ {
				if tev[i].Hex() != refOrder[i] {
					what("topological listing differs at position %d at %s", i, stage)
					break
				}
			}
		}
		// blocks
		for _, b := range nd.blocks {
			want, _ := b.Body.Hash()
			sb, err := nd.store.GetBlock(b.Index())
			if err != nil {
				what("GetBlock missing at %s: %v", stage, err)
				continue
			}
			got, _ := sb.Body.Hash()
			if !bytes.Equal(got, want) {
				what("GetBlock differs at %s: block %d", stage, b.Index())
			}
			db, err := bs.VerifDBGetBlock(b.Index())
			if err != nil {
				what("dbGetBlock missing at %s: %v", stage, err)
				continue
			}
			got, _ = db.Body.Hash()
			if !bytes.Equal(got, want) || len(db.Signatures) != len(b.Signatures) {
				what("dbGetBlock differs at %s: block %d", stage, b.Index())
			}
		}
	}
	reopened := false
	aborted := false
	for i, g := range d.events {
		if i == reopenAt {
			checkAll("before-close")
			// rounds / frames / peer sets written so far decode to the identical value
			for rd := 0; rd <= nd.store.LastRound(); rd++ {
				ri, err := nd.store.GetRound(rd)
				if err != nil {
					continue
				}
				dr, err := bs.VerifDBGetRound(rd)
				if err != nil {
					what("dbGetRound missing: round %d: %v", rd, err)
					continue
				}
				a, _ := ri.Marshal()
				b, _ := dr.Marshal()
				if !bytes.Equal(a, b) {
					what("dbGetRound differs: round %d", rd)
				}
				if fr, err := nd.store.GetFrame(rd); err == nil {
					df, err := bs.VerifDBGetFrame(rd)
					if err != nil {
						what("dbGetFrame missing: round %d: %v", rd, err)
					} else {
						h1, _ := fr.Hash()
						h2, _ := df.Hash()
						if !bytes.Equal(h1, h2) {
							what("dbGetFrame differs: round %d", rd)
						}
					}
				}
			}
			all, _ := nd.store.GetAllPeerSets()
			for rd, ps := range all {
				dps, err := bs.VerifDBGetPeerSet(rd)
				if err != nil {
					what("dbGetPeerSet missing: round %d: %v", rd, err)
					continue
				}
				if len(dps.Peers) != len(ps) {
					what("dbGetPeerSet differs: round %d", rd)
				}
				for k := range ps {
					if k < len(dps.Peers) && dps.Peers[k].PubKeyHex != ps[k].PubKeyHex {
						what("dbGetPeerSet differs: round %d position %d", rd, k)
					}
				}
			}
			for _, p := range d.parts {
				if _, known := nd.store.RepertoireByPubKey()[p.hex]; known {
					if _, err := bs.VerifDBGetRoot(p.hex); err != nil {
						what("dbGetRoot missing for a known participant: %v", err)
					}
				}
			}
			// close and reopen: a new store object on the same directory, bootstrap replays the history
			blocksBefore := nd.blocks
			nd.store.Close()
			st, err := hg.NewBadgerStore(cache, dir, false, quiet())
			if err != nil {
				what("reopen failed: %v", err)
				return
			}
			nd.store = st
			bs = st
			nd.blocks = nil
			nd.shown = 0
			nd.commitLog = nil
			nd.validators = nil
			nd.h = hg.NewHashgraph(st, nd.commit, quiet())
			nd.validators = peersOf(d)
			if err := nd.h.Bootstrap(); err != nil {
				what("bootstrap after reopen failed: %v", err)
				return
			}
			reopened = true
			if len(nd.blocks) != len(blocksBefore) {
				what("bootstrap re-delivered %d blocks, %d were delivered before the reopen", len(nd.blocks), len(blocksBefore))
			}
			for k := range nd.blocks {
				if k < len(blocksBefore) {
					a, _ := nd.blocks[k].Body.Hash()
					b, _ := blocksBefore[k].Body.Hash()
					if !bytes.Equal(a, b) {
						what("bootstrap re-delivered a different block %d", k)
					}
				}
			}
			checkAll("after-reopen")
		}
		cp := &hg.Event{Body: g.ev.Body, Signature: g.ev.Signature}
		if err := nd.h.InsertEventAndRunConsensus(cp, true); err != nil {
			failedInserts++
			if cache >= len(d.events) {
				what("insert failed with a cache (%d) above the history length (%d): %v", cache, len(d.events), err)
			}
			// below the in-flight window the hashgraph layer (not the store) gives up; the half-inserted
			// event makes the reference meaningless from here on: stop this case
			aborted = true
			break
		}
		bh, _ := g.ev.Body.Hash()
		refEvents[g.ev.Hex()] = evRef{string(bh), g.ev.Signature, len(refOrder)}
		refOrder = append(refOrder, g.ev.Hex())
		refByCreator[g.creator] = append(refByCreator[g.creator], g.ev.Hex())
	}
	if !aborted {
		checkAll("end")
	}
	r.Inc("store_cases_aborted_small_cache", boolInt(aborted))
	r.Inc("store_cases", 1)
	r.Inc("store_db_reads", dbReads)
	r.Inc("store_failed_inserts_small_cache", failedInserts)
	r.Inc("store_reopens", boolInt(reopened))
	r.Inc("store_blocks", len(nd.blocks))
	r.Count(fmt.Sprintf("store %d %s cache=%d reopen=%d", id, o.String(), cache, reopenAt), dbReads > 0)
	if id == 0 {
		r.Sample(map[string]interface{}{"store_case": o.String(), "cache": cache, "events": len(refOrder), "reopen_at": reopenAt, "blocks": len(nd.blocks), "db_reads": dbReads}, 8)
	}
	nd.store.Close()
}
