package main

// C06: liveness under fair gossip. Real cores (G2): an adversarial prefix
// (random schedule, truncated and failing pulls, a minority of fewer than n/3
// validators going silent at a random point, submissions and membership
// requests up to the end of the prefix), then fair all-pairs cycles among the
// live validators. Oracle: within 120 cycles every live validator is idle and
// every transaction / membership request accepted by a live validator is
// committed by all of them.

import (
	"fmt"
	"math/rand"

	hg "github.com/mosaicnetworks/babble/src/hashgraph"
)

func init() { runners["C06"] = runC06 }

const c06MaxCycles = 120

func runC06(r *Result, thorough bool) {
	r.Rule = "G2 runs of real cores (3-7 validators): adversarial prefix of 100-400 random exchanges with sync limits 1-5, failing pulls, a silent minority (< n/3) from a random point (in half of the runs preceded by a quiet period in which nodes become idle, and by a last act: the validator accepts a transaction, creates events, a live validator pulls them through a damaged answer, then silence), submissions and a join request; then fair all-pairs cycles (every live validator pulls from every other); also prefixes that replay, as pulls on real cores, schedules found by a beam search for elections that stay open for many rounds (rounds decided before an earlier one), followed by a quiet network; " +
		"oracle: within 120 cycles all live validators report busy() = false and have committed every transaction and membership request accepted by a live validator; the number of cycles needed is recorded. non-trivial: the prefix left at least one live node busy and the fair suffix ran"
	rng := rand.New(rand.NewSource(r.Seed))
	runs := 6
	if thorough {
		runs = 60
	}
	maxCycles := 0
	for ri := 0; ri < runs; ri++ {
		n := 3 + rng.Intn(5)
		forceLastAct := ri%2 == 0
		if forceLastAct && n < 4 {
			n = 4 + rng.Intn(4)
		}
		cl := newCluster(rng, n, 10000, nil)
		steps := 100 + rng.Intn(300)
		nSilent := 0
		if n >= 4 {
			nSilent = rng.Intn((n-1)/3 + 1)
			if forceLastAct && nSilent == 0 {
				nSilent = 1
			}
		}
		silent := map[int]bool{}
		for len(silent) < nSilent {
			silent[rng.Intn(n)] = true
		}
		silentFrom := rng.Intn(steps)
		// half of the runs: a quiet period (no submissions, pulls go on, nodes become idle) before the
		// minority goes silent, and a "last act" of each silent validator: it accepts a transaction,
		// creates events, a live validator pulls them but the answer is damaged (one event missing in
		// the middle), and then it is never heard of again
		quiet, lastAct := 0, false
		if forceLastAct || rng.Intn(4) == 0 {
			quiet = 40 + rng.Intn(60)
			lastAct = true
			if silentFrom < quiet+20 {
				silentFrom = quiet + 20
				if silentFrom >= steps {
					steps = silentFrom + 10
				}
			}
		}
		accepted := map[string]bool{} // tx content accepted by a validator that stays live
		var joiner *member
		joinHostLive := false
		for s := 0; s < steps; s++ {
			act := cl.activeMembers()
			a, b := act[rng.Intn(len(act))], act[rng.Intn(len(act))]
			if a == b {
				continue
			}
			if lastAct && s == silentFrom {
				// the quiet period ends with everybody idle: fair cycles until nothing is pending, then
				// two more (idle pulls that bring nothing new)
				extra := 0
				for cyc := 0; cyc < 40 && extra < 2; cyc++ {
					for _, x := range cl.activeMembers() {
						for _, y := range cl.activeMembers() {
							if x != y {
								cl.pull(x, y, -1)
							}
						}
					}
					cl.activateJoiners()
					idle := true
					for _, m := range cl.activeMembers() {
						idle = idle && !m.core.Busy()
					}
					if idle {
						extra++
					}
				}
				if extra >= 2 {
					r.Inc("quiet_periods_reaching_idle", 1)
				}
				for _, x := range cl.activeMembers() {
					if !silent[x.idx] {
						continue
					}
					var lv []*member
					for _, m := range cl.activeMembers() {
						if !silent[m.idx] {
							lv = append(lv, m)
						}
					}
					if len(lv) < 2 {
						continue
					}
					tx := cl.newTx()
					cl.submit(x, tx)
					cl.pull(x, lv[rng.Intn(len(lv))], -1)
					for k := rng.Intn(3); k >= 0; k-- {
						cl.pull(x, lv[rng.Intn(len(lv))], -1)
					}
					victim := lv[rng.Intn(len(lv))]
					known := victim.core.KnownEvents()
					if rng.Intn(2) == 0 {
						// ... or through a complete, error-free pull (the victim still holds the empty head
						// left by its idle pulls from x): x's events are then known to a live validator and
						// must be tied in by it
						cl.pull(victim, x, -1)
						r.Inc("last_acts_with_clean_pull", 1)
					} else if diff, err := x.core.EventDiff(known); err == nil && len(diff) >= 3 {
						wire, _ := x.core.ToWire(diff)
						k := 1 + rng.Intn(len(wire)-2) // drop one event in the middle
						damaged := append(append([]hg.WireEvent{}, wire[:k]...), wire[k+1:]...)
						if victim.core.Sync(x.core.ID(), damaged) != nil {
							r.Inc("last_acts_with_aborted_sync", 1)
						}
						// ... possibly followed, before the victim talks to anybody else, by an answer of x
						// that brings no event of x (an empty answer, or one truncated by the sync limit)
						switch rng.Intn(3) {
						case 0:
							victim.core.Sync(x.core.ID(), []hg.WireEvent{})
							r.Inc("last_acts_followed_by_an_empty_answer", 1)
						case 1:
							cl.pull(victim, x, 1)
							r.Inc("last_acts_followed_by_a_truncated_pull", 1)
						}
						// the transaction was accepted by a validator that then went silent: it need not
						// commit, but the live validators must become idle again (C06: no stall)
					}
					r.Inc("last_acts", 1)
				}
			}
			if s >= silentFrom && (silent[a.idx] || silent[b.idx]) {
				continue
			}
			if rng.Intn(3) == 0 && !(quiet > 0 && s >= silentFrom-quiet && s < silentFrom) {
				tx := cl.newTx()
				cl.submit(a, tx)
				if !silent[a.idx] {
					accepted[string(tx)] = true
				}
			}
			if joiner == nil && n >= 3 && ri%2 == 0 && s == steps/2 && !silent[a.idx] {
				joiner = cl.startJoin(a)
				joinHostLive = true
			}
			switch rng.Intn(6) {
			case 0:
				cl.pull(a, b, 1+rng.Intn(5))
			case 1:
				known := a.core.KnownEvents()
				if diff, err := b.core.EventDiff(known); err == nil && len(diff) > 1 {
					wire, _ := b.core.ToWire(diff)
					k := rng.Intn(len(wire))
					bad := wire[k]
					bad.Body.CreatorID = 31337
					a.core.Sync(b.core.ID(), append(append([]hg.WireEvent{}, wire[:k]...), bad))
				}
			default:
				cl.pull(a, b, -1)
			}
			cl.activateJoiners()
		}
		live := []*member{}
		for _, m := range cl.activeMembers() {
			if !silent[m.idx] {
				live = append(live, m)
			}
		}
		busyBefore := 0
		for _, m := range live {
			if m.core.Busy() {
				busyBefore++
			}
		}
		// fair suffix
		done := -1
		for cyc := 1; cyc <= c06MaxCycles; cyc++ {
			for _, x := range live {
				for _, y := range live {
					if x != y {
						cl.pull(x, y, -1)
					}
				}
			}
			cl.activateJoiners()
			// a joiner that became active joins the fair set
			for _, m := range cl.activeMembers() {
				if m.joiner && !silent[m.idx] {
					have := false
					for _, l := range live {
						have = have || l == m
					}
					if !have {
						live = append(live, m)
					}
				}
			}
			idle := true
			for _, m := range live {
				if m.core.Busy() {
					idle = false
				}
			}
			if !idle {
				continue
			}
			all := true
			for _, m := range live {
				got := map[string]bool{}
				for _, b := range m.app.delivered {
					for _, tx := range b.Transactions() {
						got[string(tx)] = true
					}
				}
				for tx := range accepted {
					if !got[tx] && !m.joiner {
						all = false
					}
				}
			}
			if all {
				done = cyc
				break
			}
		}
		r.Inc("runs", 1)
		r.Inc("silent_validators", nSilent)
		r.Inc("busy_nodes_after_prefix", busyBefore)
		if joiner != nil && joinHostLive {
			r.Inc("join_requests", 1)
			if joiner.active {
				r.Inc("joins_completed", 1)
			}
		}
		r.Count(fmt.Sprintf("run %d n=%d silent=%d steps=%d", ri, n, nSilent, steps), busyBefore > 0)
		if done < 0 {
			detail := ""
			for _, m := range live {
				lcr := -1
				if m.core.Hashgraph().LastConsensusRound != nil {
					lcr = *m.core.Hashgraph().LastConsensusRound
				}
				// which events are stuck: undetermined events whose round is far below the last consensus round
				hgm := m.core.Hashgraph()
				stuck := []string{}
				for _, h := range hgm.UndeterminedEvents {
					e, err := hgm.Store.GetEvent(h)
					if err != nil || e.VerifRound() == nil || lcr < 0 || *e.VerifRound() > lcr-5 {
						continue
					}
					anc, _ := hgm.VerifAncestor(m.core.Head(), h)
					stuck = append(stuck, fmt.Sprintf("creator=%d index=%d round=%d loaded=%v ancestor-of-own-head=%v", cl.memberIndexOfHex(e.Creator()), e.Index(), *e.VerifRound(), e.IsLoaded(), anc))
				}
				detail += fmt.Sprintf(" {stuck: %v}", stuck)
				detail += fmt.Sprintf(" [node %d busy=%v pool=%d itx=%d sigs=%d lcr=%d target=%d undetermined=%d delivered=%d]", m.idx, m.core.Busy(), len(m.core.TransactionPool()), len(m.core.InternalTransactionPool()),
					len(m.core.SelfBlockSignatures()), lcr, m.core.TargetRound(), len(m.core.Hashgraph().UndeterminedEvents), len(m.app.delivered))
			}
			r.Violate("impl-violation", fmt.Sprintf("%d live validators of %d (silent: %d) did not become idle with everything committed within %d fair all-pairs cycles:%s", len(live), n, nSilent, c06MaxCycles, detail),
				"not-live", map[string]interface{}{"n": n, "silent": nSilent, "steps": steps, "seed_run": ri})
		} else {
			if done > maxCycles {
				maxCycles = done
			}
			r.Inc("cycles_needed_total", done)
		}
		if ri == 0 {
			r.Sample(map[string]interface{}{"validators": n, "silent": nSilent, "prefix_steps": steps, "busy_after_prefix": busyBefore, "fair_cycles_needed": done}, 8)
		}
		cl.close()
	}
	r.Stats["max_fair_cycles_needed"] = maxCycles
	c06Adversarial(r, rng, thorough)
}

// c06Adversarial: the prefix is a schedule found by the beam search of adversary.go (an election
// that stays open for many rounds, so that later rounds are decided before an earlier one), replayed
// on real cores as pulls (creator pulls from the creator of the other-parent) while transactions
// keep the nodes busy; then the submissions stop and fair all-pairs cycles must bring every node to
// idle with everything committed.
func c06Adversarial(r *Result, rng *rand.Rand, thorough bool) {
	runs := 6
	if thorough {
		runs = 40
	}
	for ri := 0; ri < runs; ri++ {
		n := 4
		if ri%4 == 3 {
			n = 5
		}
		hideDeciders = false
		minTargetRound = []int{0, 1, 1, 2}[rng.Intn(4)]
		coreLike = true
		levs, predicted, _ := beamSearch(rng, n, 16*n+10, 30, 5+rng.Intn(5))
		coreLike = false
		r.Inc(fmt.Sprintf("adversarial_prefix_predicted_election_%d_rounds", predicted), 1)
		cl := newCluster(rng, n, 10000, nil)
		accepted := map[string]bool{}
		outOfOrder, maxGap := 0, 0
		for k, l := range levs {
			a, b := cl.members[l.creator], cl.members[l.opCreator]
			if k < 3*n || rng.Intn(4) == 0 {
				tx := cl.newTx()
				cl.submit(a, tx)
				accepted[string(tx)] = true
			}
			cl.pull(a, b, -1)
			waiting := false
			for _, pr := range a.core.Hashgraph().PendingRounds.GetOrderedPendingRounds() {
				if !pr.Decided && !waiting {
					if gap := a.core.Hashgraph().Store.LastRound() - pr.Index; gap > maxGap {
						maxGap = gap
					}
				}
				if !pr.Decided {
					waiting = true
				} else if waiting {
					outOfOrder++
					break
				}
			}
		}
		r.Inc("adversarial_prefix_runs", 1)
		r.Inc(fmt.Sprintf("adversarial_prefix_longest_election_%d_rounds", maxGap), 1)
		r.Inc("adversarial_prefix_steps_with_a_round_decided_before_an_earlier_one", outOfOrder)
		live := cl.activeMembers()
		done := -1
		for cyc := 1; cyc <= c06MaxCycles && done < 0; cyc++ {
			for _, x := range live {
				for _, y := range live {
					if x != y {
						cl.pull(x, y, -1)
					}
				}
			}
			idle := true
			for _, m := range live {
				if m.core.Busy() {
					idle = false
				}
			}
			if !idle {
				continue
			}
			all := true
			for _, m := range live {
				got := map[string]bool{}
				for _, b := range m.app.delivered {
					for _, tx := range b.Transactions() {
						got[string(tx)] = true
					}
				}
				for tx := range accepted {
					if !got[tx] {
						all = false
					}
				}
			}
			if all {
				done = cyc
			}
		}
		r.Count(fmt.Sprintf("adversarial run %d n=%d steps=%d", ri, n, len(levs)), outOfOrder > 0)
		if done < 0 {
			detail := ""
			for _, m := range live {
				prs := ""
				for _, pr := range m.core.Hashgraph().PendingRounds.GetOrderedPendingRounds() {
					prs += fmt.Sprintf(" %d", pr.Index)
					if pr.Decided {
						prs += "D"
					}
				}
				detail += fmt.Sprintf(" [node %d busy=%v pool=%d undetermined=%d pendingLoaded=%d delivered=%d pending rounds:%s]", m.idx, m.core.Busy(), len(m.core.TransactionPool()),
					len(m.core.Hashgraph().UndeterminedEvents), m.core.Hashgraph().PendingLoadedEvents, len(m.app.delivered), prs)
			}
			r.Violate("impl-violation", fmt.Sprintf("after a prefix with a slow election, %d validators did not become idle with everything committed within %d fair all-pairs cycles:%s", n, c06MaxCycles, detail),
				"not-live-after-slow-election", map[string]interface{}{"n": n, "seed_run": ri})
		} else {
			r.Inc("cycles_needed_total", done)
		}
		cl.close()
	}
}
