package main

// C12 (fast-sync acceptance) and C14 (fast-sync trust): valid (block, frame,
// snapshot) triples harvested from honest runs, every field tampered, applied
// to fresh catching-up cores; forged responses with a self-made validator set.
// The accept/refuse decision is compared with the Lean model of
// core.fastForward; the oracle recomputes the three acceptance conditions
// independently (distinct signers) and checks that a refusal changed nothing.

import (
	"bytes"
	"fmt"
	"math/rand"
	"sort"
	"strings"
	"sync/atomic"
	"time"

	"github.com/mosaicnetworks/babble/src/common"
	"github.com/mosaicnetworks/babble/src/config"
	"github.com/mosaicnetworks/babble/src/crypto/keys"
	hg "github.com/mosaicnetworks/babble/src/hashgraph"
	bnet "github.com/mosaicnetworks/babble/src/net"
	"github.com/mosaicnetworks/babble/src/node"
	_state "github.com/mosaicnetworks/babble/src/node/state"
	"github.com/mosaicnetworks/babble/src/peers"
	"github.com/mosaicnetworks/babble/src/proxy/inmem"
)

func init() {
	runners["C12"] = func(r *Result, th bool) { runFF(r, th, "C12") }
	runners["C14"] = func(r *Result, th bool) { runFF(r, th, "C14") }
}

// honestRun gossips until some member has an anchor block with index >= 1.
func honestRun(rng *rand.Rand, n int, steps int, withJoin bool) *cluster {
	cl := newCluster(rng, n, 10000, nil)
	var joiner *member
	for s := 0; s < steps; s++ {
		act := cl.activeMembers()
		a, b := act[rng.Intn(len(act))], act[rng.Intn(len(act))]
		if a == b {
			continue
		}
		if rng.Intn(3) == 0 {
			cl.submit(a, cl.newTx())
		}
		if withJoin && joiner == nil && s == steps/4 {
			joiner = cl.startJoin(a)
		}
		cl.pull(a, b, -1)
		cl.activateJoiners()
	}
	return cl
}

func (m *member) digest() string {
	var b strings.Builder
	known := m.core.KnownEvents()
	ids := []int{}
	for id := range known {
		ids = append(ids, int(id))
	}
	sort.Ints(ids)
	for _, id := range ids {
		fmt.Fprintf(&b, "k%d=%d;", id, known[uint32(id)])
	}
	st := m.core.Hashgraph().Store
	all, _ := st.GetAllPeerSets()
	rs := []int{}
	for r := range all {
		rs = append(rs, r)
	}
	sort.Ints(rs)
	for _, r := range rs {
		fmt.Fprintf(&b, "ps%d:", r)
		for _, p := range all[r] {
			b.WriteString(p.PubKeyHex[:12])
		}
	}
	fmt.Fprintf(&b, ";lb%d;lr%d;head%s;seq%d;", st.LastBlockIndex(), st.LastRound(), m.core.Head(), m.core.Seq())
	fmt.Fprintf(&b, "val%s;peers%s;", m.core.Validators().Hex(), m.core.Peers().Hex())
	fmt.Fprintf(&b, "app%x;restored%d;delivered%d;", m.app.state, m.app.restored, len(m.app.delivered))
	if m.core.Hashgraph().AnchorBlock != nil {
		fmt.Fprintf(&b, "anchor%d;", *m.core.Hashgraph().AnchorBlock)
	}
	fmt.Fprintf(&b, "undet%d", len(m.core.Hashgraph().UndeterminedEvents))
	return b.String()
}

// independent recomputation of the acceptance conditions
type ffFacts struct {
	structOk     bool
	peersHashOk  bool
	frameHashOk  bool
	nMembers     int
	lenPeers     int
	distinctOK   int      // distinct members with a verifying signature
	entries      []string // model line fragments: member index or -, verifies bit
	trustedValid int      // distinct known-to-victim members with a verifying signature
}

func factsOf(victim *member, blk *hg.Block, frm *hg.Frame) ffFacts {
	f := ffFacts{structOk: true}
	for _, p := range frm.Peers {
		if p == nil {
			f.structOk = false
		}
	}
	chk := func(fe *hg.FrameEvent) {
		if fe == nil || fe.Core == nil || len(fe.Core.Body.Parents) != 2 {
			f.structOk = false
		}
	}
	for _, fe := range frm.Events {
		chk(fe)
	}
	for _, rt := range frm.Roots {
		if rt == nil {
			f.structOk = false
			continue
		}
		for _, fe := range rt.Events {
			chk(fe)
		}
	}
	for _, ps := range frm.PeerSets {
		for _, p := range ps {
			if p == nil {
				f.structOk = false
			}
		}
	}
	if !f.structOk {
		return f
	}
	ps := peers.NewPeerSet(frm.Peers)
	f.nMembers = ps.Len()
	f.lenPeers = len(ps.Peers)
	h, _ := ps.Hash()
	f.peersHashOk = bytes.Equal(h, blk.PeersHash())
	fh, err := frm.Hash()
	f.frameHashOk = err == nil && bytes.Equal(fh, blk.FrameHash())
	memberIdx := map[string]int{}
	for i, p := range ps.Peers {
		memberIdx[p.PubKeyString()] = i
	}
	seen := map[int]bool{}
	seenTrusted := map[int]bool{}
	keysSorted := []string{}
	for k := range blk.Signatures {
		keysSorted = append(keysSorted, k)
	}
	sort.Strings(keysSorted)
	body, _ := blk.Body.Hash()
	for _, k := range keysSorted {
		sig := blk.Signatures[k]
		idx := -1
		ok := false
		if len(k) >= 2 {
			if b, err := common.DecodeFromString(k); err == nil {
				canon := common.EncodeToString(b)
				if i, in := memberIdx[canon]; in {
					idx = i
					pk := keys.ToPublicKey(b)
					if rr, ss, err := keys.DecodeSignature(sig); err == nil && pk != nil {
						ok = keys.Verify(pk, body, rr, ss)
					}
					if ok {
						seen[i] = true
						_, t1 := victim.core.Peers().ByPubKey[canon]
						_, t2 := victim.core.GenesisPeers().ByPubKey[canon]
						_, t3 := victim.core.Validators().ByPubKey[canon]
						if t1 || t2 || t3 {
							seenTrusted[i] = true
						}
					}
				}
			}
		}
		is := "-"
		if idx >= 0 {
			is = fmt.Sprint(idx)
		}
		f.entries = append(f.entries, fmt.Sprintf("%s:%d", is, boolInt(ok)))
	}
	f.distinctOK = len(seen)
	f.trustedValid = len(seenTrusted)
	return f
}

func (f ffFacts) line() string {
	return fmt.Sprintf("FF core struct=%d peershash=%d framehash=%d lenpeers=%d members=%d trusted=%d entries=%s",
		boolInt(f.structOk), boolInt(f.peersHashOk), boolInt(f.frameHashOk), f.lenPeers, f.nMembers, f.trustedValid, listOrDash(f.entries))
}

// specAccept: what the property demands
func (f ffFacts) specAccept() bool {
	if !f.structOk || !f.peersHashOk || !f.frameHashOk {
		return false
	}
	if f.nMembers == 1 {
		return f.distinctOK >= 1
	}
	return 3*f.distinctOK > f.nMembers
}

type tamperFn struct {
	name    string
	changes bool // does the tampering change content (must then be refused)
	f       func(b *hg.Block, f *hg.Frame, src *member, cl *cluster, rng *rand.Rand)
}

func lowerAfterPrefix(k string) string { return k[:2] + strings.ToLower(k[2:]) }

var ffTampers = []tamperFn{
	{"none", false, func(b *hg.Block, f *hg.Frame, src *member, cl *cluster, rng *rand.Rand) {}},
	{"block.Index", true, func(b *hg.Block, f *hg.Frame, _ *member, _ *cluster, _ *rand.Rand) { b.Body.Index++ }},
	{"block.RoundReceived", true, func(b *hg.Block, f *hg.Frame, _ *member, _ *cluster, _ *rand.Rand) { b.Body.RoundReceived++ }},
	{"block.Timestamp", true, func(b *hg.Block, f *hg.Frame, _ *member, _ *cluster, _ *rand.Rand) { b.Body.Timestamp++ }},
	{"block.StateHash", true, func(b *hg.Block, f *hg.Frame, _ *member, _ *cluster, _ *rand.Rand) {
		b.Body.StateHash = append(append([]byte{}, b.Body.StateHash...), 1)
	}},
	{"block.FrameHash", true, func(b *hg.Block, f *hg.Frame, _ *member, _ *cluster, _ *rand.Rand) {
		b.Body.FrameHash = []byte{1, 2, 3}
	}},
	{"block.PeersHash", true, func(b *hg.Block, f *hg.Frame, _ *member, _ *cluster, _ *rand.Rand) {
		b.Body.PeersHash = []byte{1, 2, 3}
	}},
	{"block.Transactions", true, func(b *hg.Block, f *hg.Frame, _ *member, _ *cluster, _ *rand.Rand) {
		b.Body.Transactions = append(b.Body.Transactions, []byte("forged"))
	}},
	{"block.InternalTransactions", true, func(b *hg.Block, f *hg.Frame, src *member, _ *cluster, _ *rand.Rand) {
		itx := hg.NewInternalTransactionLeave(*src.peer)
		b.Body.InternalTransactions = append(b.Body.InternalTransactions, itx)
	}},
	{"frame.Round", true, func(b *hg.Block, f *hg.Frame, _ *member, _ *cluster, _ *rand.Rand) { f.Round++ }},
	{"frame.Timestamp", true, func(b *hg.Block, f *hg.Frame, _ *member, _ *cluster, _ *rand.Rand) { f.Timestamp++ }},
	{"frame.Peers-drop", true, func(b *hg.Block, f *hg.Frame, _ *member, _ *cluster, _ *rand.Rand) { f.Peers = f.Peers[1:] }},
	{"frame.Peers-reorder", true, func(b *hg.Block, f *hg.Frame, _ *member, _ *cluster, _ *rand.Rand) {
		if len(f.Peers) > 1 {
			f.Peers[0], f.Peers[1] = f.Peers[1], f.Peers[0]
		}
	}},
	{"frame.Peers-add", true, func(b *hg.Block, f *hg.Frame, _ *member, _ *cluster, rng *rand.Rand) {
		f.Peers = append(f.Peers, newParticipants(rng, 1)[0].peer)
	}},
	{"frame.Peers-netaddr", true, func(b *hg.Block, f *hg.Frame, _ *member, _ *cluster, _ *rand.Rand) {
		cp := *f.Peers[0]
		cp.NetAddr = "evil:1"
		f.Peers[0] = &cp
	}},
	{"frame.Events-drop", true, func(b *hg.Block, f *hg.Frame, _ *member, _ *cluster, _ *rand.Rand) {
		if len(f.Events) > 0 {
			f.Events = f.Events[1:]
		} else {
			f.Timestamp--
		}
	}},
	{"frame.Events-round", true, func(b *hg.Block, f *hg.Frame, _ *member, _ *cluster, _ *rand.Rand) {
		if len(f.Events) > 0 {
			f.Events[0].Round++
		} else {
			f.Timestamp--
		}
	}},
	{"frame.Events-witness", true, func(b *hg.Block, f *hg.Frame, _ *member, _ *cluster, _ *rand.Rand) {
		if len(f.Events) > 0 {
			f.Events[0].Witness = !f.Events[0].Witness
		} else {
			f.Timestamp--
		}
	}},
	{"frame.Events-payload", true, func(b *hg.Block, f *hg.Frame, _ *member, _ *cluster, _ *rand.Rand) {
		if len(f.Events) > 0 {
			f.Events[0].Core.Body.Transactions = append(f.Events[0].Core.Body.Transactions, []byte("x"))
		} else {
			f.Timestamp--
		}
	}},
	{"frame.Roots-drop-event", true, func(b *hg.Block, f *hg.Frame, _ *member, _ *cluster, _ *rand.Rand) {
		done := false
		ks := []string{}
		for k := range f.Roots {
			ks = append(ks, k)
		}
		sort.Strings(ks)
		for _, k := range ks {
			if len(f.Roots[k].Events) > 0 && !done {
				f.Roots[k].Events = f.Roots[k].Events[1:]
				done = true
			}
		}
		if !done {
			f.Timestamp--
		}
	}},
	{"frame.Roots-lamport", true, func(b *hg.Block, f *hg.Frame, _ *member, _ *cluster, _ *rand.Rand) {
		done := false
		ks := []string{}
		for k := range f.Roots {
			ks = append(ks, k)
		}
		sort.Strings(ks)
		for _, k := range ks {
			if len(f.Roots[k].Events) > 0 && !done {
				f.Roots[k].Events[0].LamportTimestamp += 3
				done = true
			}
		}
		if !done {
			f.Timestamp--
		}
	}},
	{"frame.Roots-remove", true, func(b *hg.Block, f *hg.Frame, _ *member, _ *cluster, _ *rand.Rand) {
		ks := []string{}
		for k := range f.Roots {
			ks = append(ks, k)
		}
		sort.Strings(ks)
		delete(f.Roots, ks[0])
	}},
	{"frame.PeerSets-add", true, func(b *hg.Block, f *hg.Frame, _ *member, _ *cluster, rng *rand.Rand) {
		f.PeerSets[f.Round+100] = []*peers.Peer{newParticipants(rng, 1)[0].peer}
	}},
	{"frame.PeerSets-alter", true, func(b *hg.Block, f *hg.Frame, _ *member, _ *cluster, _ *rand.Rand) {
		for k := range f.PeerSets {
			if len(f.PeerSets[k]) > 1 {
				f.PeerSets[k] = f.PeerSets[k][1:]
				return
			}
		}
		f.Timestamp--
	}},
	{"sigs-undersigned", true, func(b *hg.Block, f *hg.Frame, _ *member, _ *cluster, _ *rand.Rand) {
		// keep exactly TrustCount signatures (one too few)
		ps := peers.NewPeerSet(f.Peers)
		ks := []string{}
		for k := range b.Signatures {
			ks = append(ks, k)
		}
		sort.Strings(ks)
		for i, k := range ks {
			if i >= ps.TrustCount() {
				delete(b.Signatures, k)
			}
		}
	}},
	{"sigs-undersigned-padded", true, func(b *hg.Block, f *hg.Frame, _ *member, cl *cluster, rng *rand.Rand) {
		// at most TrustCount verifying signatures; the other members' entries are replayed from
		// another body or garbage, so that the number of member entries exceeds TrustCount
		ps := peers.NewPeerSet(f.Peers)
		other := *b
		other.Body.StateHash = append(append([]byte{}, b.Body.StateHash...), 7)
		ks := []string{}
		for k := range b.Signatures {
			ks = append(ks, k)
		}
		sort.Strings(ks)
		keep := map[string]bool{}
		for i, k := range ks {
			if i < ps.TrustCount() {
				keep[k] = true
			}
		}
		if len(keep) == 0 && len(ks) > 0 {
			keep[ks[0]] = true // TrustCount = 0 (single validator): nothing can be under-signed
		}
		for _, m := range cl.members {
			if _, member := ps.ByPubKey[m.hex]; !member || keep[m.hex] {
				continue
			}
			if rng.Intn(2) == 0 {
				sig, _ := other.Sign(m.key)
				b.Signatures[m.hex] = sig.Signature
			} else {
				b.Signatures[m.hex] = "1a|2b"
			}
		}
	}},
	{"sigs-one-signer-reencoded", true, func(b *hg.Block, f *hg.Frame, _ *member, _ *cluster, _ *rand.Rand) {
		// a single signer presented under several map keys decoding to the same bytes
		ks := []string{}
		for k := range b.Signatures {
			ks = append(ks, k)
		}
		sort.Strings(ks)
		keep := ks[0]
		sig := b.Signatures[keep]
		b.Signatures = map[string]string{keep: sig, lowerAfterPrefix(keep): sig, "zz" + keep[2:]: sig, "0x" + keep[2:]: sig, "  " + strings.ToLower(keep[2:]): sig}
	}},
	{"sigs-by-stranger", true, func(b *hg.Block, f *hg.Frame, _ *member, _ *cluster, rng *rand.Rand) {
		st := newParticipants(rng, 1)[0]
		sig, _ := b.Sign(st.key)
		b.Signatures = map[string]string{sig.ValidatorHex(): sig.Signature}
	}},
	{"sigs-over-other-body", true, func(b *hg.Block, f *hg.Frame, _ *member, cl *cluster, _ *rand.Rand) {
		other := *b
		other.Body.Index += 7
		b.Signatures = map[string]string{}
		for _, m := range cl.members[:len(cl.genesis)] {
			sig, _ := other.Sign(m.key)
			b.Signatures[sig.ValidatorHex()] = sig.Signature
		}
	}},
	{"sigs-extra-garbage", false, func(b *hg.Block, f *hg.Frame, _ *member, _ *cluster, _ *rand.Rand) {
		b.Signatures["0XFF"] = "1|2"
		b.Signatures["nonsense"] = "zz"
	}},
}

func runFF(r *Result, thorough bool, prop string) {
	if prop == "C12" {
		r.Rule = "valid (block, frame) pairs harvested from honest G2 runs (3-5 validators, optional join), every block-body field, frame field (peers, events, roots, peer sets), and signature-map shape (under-signed, under-signed but padded with replayed or garbage entries of other members, one signer under re-encoded keys, stranger, other body, garbage) tampered, applied to fresh cores; " +
			"accept/refuse compared with the Lean model of core.fastForward; oracle: accepted => the three conditions recomputed independently with distinct signers, refused => digest (events, blocks, peer sets, head, application) unchanged; node level: a hostile serving peer in front of the real Node.fastForward (application restore counted). " +
			"non-trivial: triple obtained from a run and exactly one field changed"
	} else {
		r.Rule = "forged fast-forward responses: fresh keys, a self-made validator set of 1-4 members, internally consistent frame + block signed by the whole forged set (passes peer-hash, frame-hash and signature-count checks), plain or decorated with entries under the keys of validators the victim knows (a copied stranger's signature, the known validators' signatures over another block, garbage), against cores and real Nodes holding honest peer lists; " +
			"oracle: always refused, digest unchanged. non-trivial: the forged response is internally consistent"
	}
	rng := rand.New(rand.NewSource(r.Seed))
	if prop == "C12" {
		// one key, many spellings: the decoders against the byte-level model (distinct signers are counted by value)
		byteCodecCorrespondence(r, rand.New(rand.NewSource(r.Seed+7919)), thorough)
	}
	runs := 3
	if thorough {
		runs = 25
	}
	c := &Case{ID: "ff"}
	for ri := 0; ri < runs; ri++ {
		n := 3 + rng.Intn(3)
		cl := honestRun(rng, n, 150+rng.Intn(150), rng.Intn(3) == 0)
		var src *member
		for _, m := range cl.members {
			if m.active && m.core.Hashgraph().AnchorBlock != nil && *m.core.Hashgraph().AnchorBlock >= 1 {
				src = m
			}
		}
		if src == nil {
			r.Inc("runs_without_anchor", 1)
			cl.close()
			continue
		}
		blk0, frm0, err := src.core.GetAnchorBlockWithFrame()
		if err != nil {
			cl.close()
			continue
		}
		r.Inc("runs_with_anchor", 1)
		freshVictim := func() *member {
			v := newMember(rng, 100+len(cl.members))
			cl.mkCore(v, cl.genesis)
			return v
		}
		apply := func(name string, changes bool, blk *hg.Block, frm *hg.Frame, key string) {
			victim := freshVictim()
			defer victim.store.Close()
			before := victim.digest()
			facts := factsOf(victim, blk, frm)
			cls, det := guarded(func() error { return victim.core.FastForward(blk, frm) })
			accepted := cls == "ok"
			c.Op(facts.line(), fmt.Sprintf("O %s", map[bool]string{true: "acc", false: "rej"}[accepted]))
			r.Count(prop+" "+name+" "+facts.line(), true)
			r.Inc("ff_"+name+"_"+cls, 1)
			if cls == "panic" {
				r.violateFor("C08", "core.fastForward panics on tampering "+name+": "+det, "panic:ff:"+name, nil)
			}
			if prop == "C12" {
				if accepted && !facts.specAccept() {
					r.Violate("impl-violation", fmt.Sprintf("tampering %q accepted although the acceptance conditions do not hold: %s", name, facts.line()), "accepted:"+key, map[string]string{"tamper": name, "facts": facts.line()})
				}
				if accepted && changes {
					r.Violate("impl-violation", fmt.Sprintf("single-field tampering %q of a valid response was accepted (%s)", name, facts.line()), "tamper-accepted:"+key, map[string]string{"tamper": name, "facts": facts.line()})
				}
				if !accepted && !changes && facts.specAccept() {
					r.Violate("impl-violation", fmt.Sprintf("valid response refused (%s): %s", name, det), "valid-refused:"+key, map[string]string{"tamper": name, "detail": det})
				}
			}
			if !accepted {
				if after := victim.digest(); after != before {
					r.violateFor(prop, fmt.Sprintf("refused response (%s: %s) changed the node: %s -> %s", name, det, before, after), "refused-not-noop:"+key, map[string]string{"tamper": name})
				}
			}
		}
		if prop == "C12" {
			for _, t := range ffTampers {
				var b hg.Block
				var f hg.Frame
				jsonCopy(blk0, &b)
				jsonCopy(frm0, &f)
				t.f(&b, &f, src, cl, rng)
				apply(t.name, t.changes, &b, &f, t.name)
			}
			// a second response to the SAME node: it first adopts the genuine response, then the very
			// same signed block comes back with another frame (every tampering again, applied to the
			// frame only when it leaves the block alone) — what was verified for the first pair says
			// nothing about the second
			for _, t := range ffTampers {
				var b, b2 hg.Block
				var f, f2 hg.Frame
				jsonCopy(blk0, &b)
				jsonCopy(frm0, &f)
				jsonCopy(blk0, &b2)
				jsonCopy(frm0, &f2)
				t.f(&b2, &f2, src, cl, rng)
				bh1, _ := b.Body.Hash()
				bh2, _ := b2.Body.Hash()
				fh1, _ := f.Hash()
				fh2, _ := f2.Hash()
				if !bytes.Equal(bh1, bh2) || len(b2.Signatures) != len(b.Signatures) || bytes.Equal(fh1, fh2) {
					continue // this tampering touches the block (or nothing): covered above on fresh nodes
				}
				victim := freshVictim()
				if cls, _ := guarded(func() error { return victim.core.FastForward(&b, &f) }); cls != "ok" {
					victim.store.Close()
					continue
				}
				before := victim.digest()
				var b3 hg.Block
				jsonCopy(blk0, &b3)
				cls, det := guarded(func() error { return victim.core.FastForward(&b3, &f2) })
				r.Inc("ff_replayed_block_with_other_frame_"+cls, 1)
				if cls == "ok" {
					r.Violate("impl-violation", fmt.Sprintf("after adopting a genuine response the node adopted the same block again with a tampered frame (%s)", t.name), "replayed-block-other-frame:"+t.name, map[string]string{"tamper": t.name})
				} else if after := victim.digest(); after != before {
					r.Violate("impl-violation", fmt.Sprintf("a refused replay of the anchor block with a tampered frame (%s: %s) changed the node", t.name, det), "replayed-refused-not-noop:"+t.name, map[string]string{"tamper": t.name})
				}
				victim.store.Close()
			}
			// a node that has already *seen* the genuine signatures (a first response refused only because
			// of its frame) is offered the same signatures over another body: whatever the node remembers
			// about verified signatures must not outlive the body they were verified against
			for _, t := range ffTampers {
				var b2 hg.Block
				var f2 hg.Frame
				jsonCopy(blk0, &b2)
				jsonCopy(frm0, &f2)
				t.f(&b2, &f2, src, cl, rng)
				bh1, _ := blk0.Body.Hash()
				bh2, _ := b2.Body.Hash()
				if bytes.Equal(bh1, bh2) || len(b2.Signatures) != len(blk0.Signatures) {
					continue // only tamperings of the block body that keep the signature map
				}
				victim := freshVictim()
				var b1 hg.Block
				var f1 hg.Frame
				jsonCopy(blk0, &b1)
				jsonCopy(frm0, &f1)
				f1.Timestamp++ // genuine block, frame no longer hashes to it: refused after the signatures were checked
				if cls, _ := guarded(func() error { return victim.core.FastForward(&b1, &f1) }); cls == "ok" {
					victim.store.Close()
					continue
				}
				before := victim.digest()
				cls, det := guarded(func() error { return victim.core.FastForward(&b2, &f2) })
				r.Inc("ff_replayed_signatures_after_a_refused_response_"+cls, 1)
				if cls == "ok" {
					r.Violate("impl-violation", fmt.Sprintf("after refusing a response with the genuine block, the node adopted a tampered block (%s) carrying the same signatures", t.name), "primed-replayed-signatures:"+t.name, map[string]string{"tamper": t.name})
				} else if after := victim.digest(); after != before {
					r.Violate("impl-violation", fmt.Sprintf("a refused tampered block (%s: %s) changed the node", t.name, det), "primed-refused-not-noop:"+t.name, map[string]string{"tamper": t.name})
				}
				victim.store.Close()
			}
			// one signer, many spellings, in the peer set itself: a self-made but internally consistent
			// response whose validator set lists one genuine validator (known to the victim, the only one
			// who signs) several times under re-spelled keys next to the other genuine validators, and whose
			// signature map carries that one signature under every spelling. One distinct signer is not
			// more than a third of the distinct members: refused, node untouched.
			for k := 0; k < 2; k++ {
				gen := []*member{}
				for _, m := range cl.members {
					if !m.joiner {
						gen = append(gen, m)
					}
				}
				if len(gen) < 3 {
					break
				}
				att := gen[rng.Intn(len(gen))]
				copies := len(gen) + rng.Intn(3) // the attacker appears more often than there are other members
				extra := []*peers.Peer{}
				spell := []string{}
				for i := 0; i < copies; i++ {
					sp := fmt.Sprintf("%dX", 1+i) + att.hex[2:]
					if k == 1 && i%2 == 0 {
						sp = "0x" + strings.ToLower(att.hex[2:]) + ""
						if i > 0 {
							sp = fmt.Sprintf("%dx", i) + strings.ToLower(att.hex[2:])
						}
					}
					spell = append(spell, sp)
					extra = append(extra, peers.NewPeer(sp, "addr", fmt.Sprintf("copy%d", i)))
				}
				for _, m := range gen {
					if m != att {
						extra = append(extra, m.peer)
					}
				}
				fb, ff := forgeResponseBy([]*participant{{key: att.key, peer: att.peer, hex: att.hex}}, blk0, extra...)
				var one string
				for _, v := range fb.Signatures {
					one = v
				}
				for i, sp := range spell {
					if i%2 == 0 {
						fb.Signatures[strings.ToUpper(sp)] = one
					} else {
						fb.Signatures[sp] = one
					}
				}
				victim := freshVictim()
				before := victim.digest()
				cls, det := guarded(func() error { return victim.core.FastForward(fb, ff) })
				r.Inc("ff_peer_set_with_one_signer_under_many_spellings_"+cls, 1)
				r.Count(fmt.Sprintf("respelled-peer-set %d %d %d", ri, k, copies), true)
				if cls == "ok" {
					r.Violate("impl-violation", fmt.Sprintf("a response whose validator set lists one signer %d times under re-spelled keys (plus %d members who did not sign) was adopted on that one signature", copies+1, len(gen)-1),
						"respelled-peer-set-adopted", map[string]interface{}{"copies": copies, "spellings": spell})
				} else if after := victim.digest(); after != before {
					r.Violate("impl-violation", "refused response (re-spelled peer set) changed the node: "+det, "respelled-refused-not-noop", nil)
				}
				victim.store.Close()
			}
			// D9: the real Node.fastForward in front of a hostile serving peer
			nodeLevelFF(r, rng, cl, blk0, frm0, src)
		} else {
			// C14: forged, internally consistent responses
			for k := 0; k < 8; k++ {
				fb, ff := forgeResponse(rng, 1+rng.Intn(4), blk0)
				// decorations: entries filed under the keys of validators the victim knows, none of
				// which is a signature of that validator over this block
				switch k % 4 {
				case 1: // a copy of a stranger's (valid) signature string under a known key
					var any string
					for _, sg := range fb.Signatures {
						any = sg
					}
					for _, m := range cl.members[:len(cl.genesis)] {
						if rng.Intn(2) == 0 || m == cl.members[0] {
							fb.Signatures[m.hex] = any
						}
					}
					r.Inc("forged_with_copied_signature", 1)
				case 2: // the known validators' genuine signatures, but over another block
					for _, m := range cl.members[:len(cl.genesis)] {
						sig, _ := blk0.Sign(m.key)
						fb.Signatures[m.hex] = sig.Signature
					}
					r.Inc("forged_with_replayed_signature", 1)
				case 3: // garbage under known keys
					for _, m := range cl.members[:len(cl.genesis)] {
						fb.Signatures[m.hex] = "1f|2e"
					}
					r.Inc("forged_with_garbage_signature", 1)
				}
				victim := freshVictim()
				before := victim.digest()
				facts := factsOf(victim, fb, ff)
				cls, det := guarded(func() error { return victim.core.FastForward(fb, ff) })
				c.Op(facts.line(), fmt.Sprintf("O %s", map[bool]string{true: "acc", false: "rej"}[cls == "ok"]))
				consistent := facts.structOk && facts.peersHashOk && facts.frameHashOk && facts.specAccept()
				r.Count("forged "+facts.line(), consistent)
				r.Inc("forged_"+cls, 1)
				r.Inc("forged_internally_consistent", boolInt(consistent))
				if cls == "ok" {
					r.Violate("impl-violation", fmt.Sprintf("a response carrying a self-made validator set of %d strangers, signed only by them, was adopted: validators are now %d forged peers, last block %d",
						facts.nMembers, len(victim.core.Validators().Peers), victim.core.Hashgraph().Store.LastBlockIndex()), "forged-set-adopted", map[string]interface{}{"forged_members": facts.nMembers, "facts": facts.line()})
				} else if after := victim.digest(); after != before {
					r.Violate("impl-violation", "refused forged response changed the node: "+det, "forged-refused-not-noop", nil)
				}
				victim.store.Close()
			}
			// nodes in any state: a node that has already adopted a genuine response (and so has verified the
			// known validators' signatures for that block index) is offered a strangers' block with the SAME
			// index, decorated with those genuine signatures
			{
				victim := freshVictim()
				var gb hg.Block
				var gf hg.Frame
				jsonCopy(blk0, &gb)
				jsonCopy(frm0, &gf)
				if cls, _ := guarded(func() error { return victim.core.FastForward(&gb, &gf) }); cls == "ok" {
					strangers := newParticipants(rng, 1+rng.Intn(4))
					pl := []*peers.Peer{}
					roots := map[string]*hg.Root{}
					for _, p := range strangers {
						pl = append(pl, p.peer)
						roots[p.hex] = hg.NewRoot()
					}
					frame := &hg.Frame{Round: blk0.RoundReceived(), Peers: pl, Roots: roots, Events: []*hg.FrameEvent{}, PeerSets: map[int][]*peers.Peer{0: pl}, Timestamp: 777}
					fh, _ := frame.Hash()
					fbk := hg.NewBlock(blk0.Index(), frame.Round, fh, pl, [][]byte{[]byte("forged state")}, nil, 777)
					for _, p := range strangers {
						sig, _ := fbk.Sign(p.key)
						fbk.SetSignature(sig)
					}
					for k, v := range blk0.Signatures {
						fbk.Signatures[k] = v // genuine signatures of known validators, over the genuine block of that index
					}
					var fb hg.Block
					var ff hg.Frame
					jsonCopy(fbk, &fb)
					jsonCopy(frame, &ff)
					before := victim.digest()
					cls, det := guarded(func() error { return victim.core.FastForward(&fb, &ff) })
					r.Inc("forged_same_index_after_genuine_"+cls, 1)
					if cls == "ok" {
						r.Violate("impl-violation", "after adopting a genuine response the node adopted a strangers' block with the same index carrying the known validators' signatures over the genuine block", "forged-same-index-after-genuine", nil)
					} else if after := victim.digest(); after != before {
						r.Violate("impl-violation", "refused forged response changed the node: "+det, "forged-refused-not-noop", nil)
					}
				}
				victim.store.Close()
			}
			// nodes in any state: a joining node whose handshake was answered by a stranger
			for k := 0; k < 4; k++ {
				joinThenFF(r, rng, blk0)
			}
			// a valid honest response must still be accepted (the check must not refuse everything)
			var b hg.Block
			var f hg.Frame
			jsonCopy(blk0, &b)
			jsonCopy(frm0, &f)
			victim := freshVictim()
			facts := factsOf(victim, &b, &f)
			cls, det := guarded(func() error { return victim.core.FastForward(&b, &f) })
			c.Op(facts.line(), fmt.Sprintf("O %s", map[bool]string{true: "acc", false: "rej"}[cls == "ok"]))
			if cls != "ok" {
				r.Violate("impl-violation", "an honest response endorsed by known validators was refused: "+det, "honest-refused", nil)
			}
			victim.store.Close()
		}
		cl.close()
	}
	if ri := r.Stat("runs_with_anchor"); ri == 0 {
		r.CoverageHoles = append(r.CoverageHoles, "no honest run produced an anchor block")
	}
	r.Sample(map[string]interface{}{"model_ops": clip(c.Ops[:min(len(c.Ops), 6)], 6), "go_observations": c.Obs[:min(len(c.Obs), 6)]}, 8)
	r.Compare(c)
}

// forgeResponse: fresh keys, self-made set, consistent frame and block signed by all of them.
func forgeResponse(rng *rand.Rand, n int, like *hg.Block) (*hg.Block, *hg.Frame) {
	return forgeResponseBy(newParticipants(rng, n), like)
}

func forgeResponseBy(ps []*participant, like *hg.Block, extraPeers ...*peers.Peer) (*hg.Block, *hg.Frame) {
	pl := append([]*peers.Peer{}, extraPeers...)
	roots := map[string]*hg.Root{}
	for _, p := range ps {
		pl = append(pl, p.peer)
		roots[p.hex] = hg.NewRoot()
	}
	frame := &hg.Frame{Round: like.RoundReceived() + 50, Peers: pl, Roots: roots, Events: []*hg.FrameEvent{}, PeerSets: map[int][]*peers.Peer{0: pl}, Timestamp: 12345}
	fh, _ := frame.Hash()
	blk := hg.NewBlock(like.Index()+40, frame.Round, fh, pl, [][]byte{[]byte("forged state")}, nil, 12345)
	blk.Body.StateHash = []byte("forged")
	for _, p := range ps {
		sig, _ := blk.Sign(p.key)
		blk.SetSignature(sig)
	}
	var b hg.Block
	var f hg.Frame
	jsonCopy(blk, &b)
	jsonCopy(frame, &f)
	return &b, &f
}

// nodeLevelFF: real Node.fastForward against serving endpoints; one of them is
// hostile. The victim's application must not be restored from a response that
// is then refused.
func nodeLevelFF(r *Result, rng *rand.Rand, cl *cluster, blk0 *hg.Block, frm0 *hg.Frame, src *member) {
	for kind := 0; kind < 3; kind++ {
		nodeLevelFFKind(r, rng, cl, blk0, frm0, src, kind)
	}
	joinThenFF(r, rng, blk0)
}

// joinThenFF: "for nodes in any state" — a node outside its configured validator set first runs
// the join handshake. Whoever sits at the address of a configured peer answers the JoinRequest
// ("accepted", with a peer list of its own making) and then serves a forged, internally consistent
// fast-forward response signed by strangers. An unauthenticated JoinResponse gives the node no
// reason to trust anybody: the fast-forward must still be refused.
func joinThenFF(r *Result, rng *rand.Rand, like *hg.Block) {
	configured := newParticipants(rng, 2+rng.Intn(3))
	strangers := newParticipants(rng, 1+rng.Intn(4))
	me := newParticipants(rng, 1)[0]
	me.peer.NetAddr = fmt.Sprintf("inmem-joiner-%d", rng.Int63())
	me.peer.Moniker = "joiner"
	_, evil := bnet.NewInmemTransport(fmt.Sprintf("inmem-evil-%d", rng.Int63()))
	_, trans := bnet.NewInmemTransport(me.peer.NetAddr)
	pl := []*peers.Peer{}
	for i, p := range configured {
		p.peer.NetAddr = fmt.Sprintf("inmem-cfg-%d-%d", rng.Int63(), i)
		pl = append(pl, p.peer)
		trans.Connect(p.peer.NetAddr, evil)
	}
	sl := []*peers.Peer{}
	for i, p := range strangers {
		p.peer.NetAddr = fmt.Sprintf("inmem-str-%d-%d", rng.Int63(), i)
		sl = append(sl, p.peer)
		trans.Connect(p.peer.NetAddr, evil)
	}
	evil.Connect(me.peer.NetAddr, trans)
	conf := config.NewDefaultConfig()
	conf.LogLevel = "panic"
	conf.EnableFastSync = true
	conf.JoinTimeout = 200 * time.Millisecond
	conf.HeartbeatTimeout = 10 * time.Millisecond
	a := newApp()
	victim := node.NewNode(conf, node.NewValidator(me.key, "joiner"), peers.NewPeerSet(append([]*peers.Peer{}, pl...)), peers.NewPeerSet(append([]*peers.Peer{}, pl...)), hg.NewInmemStore(1000), trans, inmem.NewInmemProxy(a, quiet()))
	victim.VerifCore().SetHeadAndSeq()
	victim.SetState(_state.Joining)
	// what the responder claims: variants of the peer list and of the forged frame
	variant := rng.Intn(4)
	claimed := append([]*peers.Peer{}, sl...)
	switch variant {
	case 0: // strangers + the joiner (what an honest network would answer, with other keys)
		claimed = append(claimed, me.peer)
	case 1: // strangers only
	case 2: // configured peers + strangers + the joiner
		claimed = append(append(claimed, pl...), me.peer)
	case 3: // nothing
		claimed = nil
	}
	var fb *hg.Block
	var ff *hg.Frame
	if rng.Intn(2) == 0 {
		fb, ff = forgeResponseBy(strangers, like)
	} else {
		fb, ff = forgeResponseBy(strangers, like, me.peer) // the joiner is a member, only strangers signed
	}
	r.Inc(fmt.Sprintf("join_then_ff_variant_%d", variant), 1)
	// the same history on the Lean model of the trusted sets (Babble.Trust)
	num := map[string]int{me.peer.PubKeyString(): 99}
	for i, p := range configured {
		num[p.peer.PubKeyString()] = 1 + i
	}
	for i, p := range strangers {
		num[p.peer.PubKeyString()] = 10 + i
	}
	nums := func(ps []*peers.Peer) string {
		l := []string{}
		for _, p := range ps {
			if p != nil {
				l = append(l, fmt.Sprint(num[p.PubKeyString()]))
			}
		}
		return listOrDash(l)
	}
	setOf := func(ps *peers.PeerSet) string {
		if ps == nil {
			return "-"
		}
		return nums(ps.Peers)
	}
	tc := &Case{ID: fmt.Sprintf("join-then-ff variant %d", variant)}
	sets := func() string {
		vc := victim.VerifCore()
		return fmt.Sprintf("O sets peers=%s genesis=%s validators=%s", setOf(vc.Peers()), setOf(vc.GenesisPeers()), setOf(vc.Validators()))
	}
	tc.Op("CASE")
	tc.Op(fmt.Sprintf("TR init %s %s", nums(pl), nums(pl)), sets())
	signers := func(b *hg.Block, f *hg.Frame) string {
		l := []string{}
		for _, p := range f.Peers {
			if sg, ok := b.Signatures[p.PubKeyString()]; ok {
				if ok2, _ := b.Verify(hg.BlockSignature{Validator: p.PubKeyBytes(), Index: b.Index(), Signature: sg}); ok2 {
					l = append(l, fmt.Sprint(num[p.PubKeyString()]))
				}
			}
		}
		return listOrDash(l)
	}
	defer func() { r.Compare(tc) }()
	var serving atomic.Value
	serving.Store([2]interface{}{fb, ff})
	stop := make(chan struct{})
	go func() {
		for {
			select {
			case rpc := <-evil.Consumer():
				switch rpc.Command.(type) {
				case *bnet.JoinRequest:
					rpc.Respond(&bnet.JoinResponse{FromID: configured[0].peer.ID(), Accepted: true, AcceptedRound: 0, Peers: claimed}, nil)
				case *bnet.FastForwardRequest:
					cur := serving.Load().([2]interface{})
					rpc.Respond(&bnet.FastForwardResponse{FromID: strangers[0].peer.ID(), Block: *(cur[0].(*hg.Block)), Frame: *(cur[1].(*hg.Frame)), Snapshot: []byte("evil snapshot")}, nil)
				default:
					rpc.Respond(nil, fmt.Errorf("busy"))
				}
			case <-stop:
				return
			}
		}
	}()
	defer close(stop)
	jcls, jdet := guarded(func() error { return victim.VerifJoin() })
	r.Inc("join_then_ff_join_"+jcls, 1)
	if jcls == "panic" {
		r.Violate("impl-violation", "Node.join panicked on a hostile JoinResponse: "+jdet, "join-panic", nil)
		return
	}
	r.Inc("join_then_ff_state_"+victim.GetState().String(), 1)
	tc.Op(fmt.Sprintf("TR join 1 0 %s", nums(claimed)), sets())
	if rng.Intn(3) == 0 {
		// first a response that configured validators endorse: a new set (configured + two newcomers),
		// signed by everybody. It is accepted, and the newcomers are from then on keys the node has a
		// reason to trust; the strangers of the second response are not.
		newcomers := newParticipants(rng, 2)
		for i, p := range newcomers {
			num[p.peer.PubKeyString()] = 50 + i
			p.peer.NetAddr = strangers[0].peer.NetAddr
		}
		eb, ef := forgeResponseBy(append(append([]*participant{}, configured...), newcomers...), like)
		serving.Store([2]interface{}{eb, ef})
		victim.SetState(_state.CatchingUp)
		ecls, edet := guarded(func() error { return victim.VerifFastForward() })
		r.Inc("join_then_ff_endorsed_"+ecls, 1)
		tc.Op(fmt.Sprintf("TR ff %s %s 1 1 1", nums(ef.Peers), signers(eb, ef)), fmt.Sprintf("O %s", map[bool]string{true: "acc", false: "rej"}[ecls == "ok"]), sets())
		if ecls != "ok" {
			r.Violate("impl-violation", "a response endorsed by every configured validator was refused after the join handshake: "+edet, "join-then-ff-endorsed-refused", nil)
		}
		// the forged one must be newer than what the node now holds
		fb, ff = forgeResponseBy(strangers, eb)
		serving.Store([2]interface{}{fb, ff})
	}
	victim.SetState(_state.CatchingUp)
	stateBefore := append([]byte{}, a.state...)
	restoredBefore := a.restored
	cls, det := guarded(func() error { return victim.VerifFastForward() })
	r.Inc("join_then_ff_"+cls, 1)
	tc.Op(fmt.Sprintf("TR ff %s %s 1 1 1", nums(ff.Peers), signers(fb, ff)), fmt.Sprintf("O %s", map[bool]string{true: "acc", false: "rej"}[cls == "ok"]), sets())
	strangerIn := func(ps *peers.PeerSet) bool {
		if ps == nil {
			return false
		}
		for _, p := range strangers {
			if _, ok := ps.ByPubKey[p.peer.PubKeyString()]; ok {
				return true
			}
		}
		return false
	}
	if cls == "ok" || victim.VerifCore().Hashgraph().Store.LastBlockIndex() == fb.Index() || strangerIn(victim.VerifCore().Validators()) {
		r.Violate("impl-violation", fmt.Sprintf("after a join handshake answered by a stranger (peer list variant %d) the node reset to a block signed only by strangers (%s %s)", variant, cls, det),
			"join-then-ff-accepted", map[string]interface{}{"variant": variant})
	}
	if a.restored != restoredBefore || !bytes.Equal(a.state, stateBefore) {
		r.Violate("impl-violation", fmt.Sprintf("after a join handshake answered by a stranger the application was restored from the strangers' snapshot (%s %s)", cls, det),
			"join-then-ff-restored", map[string]interface{}{"variant": variant})
	}
}

// kind 0: an honest response with one tampered field; kind 1: a forged, internally consistent
// response (self-made validator set, correctly hashed and signed by that set): it passes every
// check but the trusted-signer one; kind 2: the same with a garbage entry under a known key
func nodeLevelFFKind(r *Result, rng *rand.Rand, cl *cluster, blk0 *hg.Block, frm0 *hg.Frame, src *member, kind int) {
	nodes := newRealNodes(rng, 2, 1000)
	victim, server := nodes[0], nodes[1]
	// connect transports both ways and serve requests of the hostile endpoint by hand
	victim.trans.Connect(server.trans.LocalAddr(), server.trans)
	server.trans.Connect(victim.trans.LocalAddr(), victim.trans)
	var b hg.Block
	var f hg.Frame
	jsonCopy(blk0, &b)
	jsonCopy(frm0, &f)
	if kind == 0 {
		b.Body.Transactions = append(b.Body.Transactions, []byte("forged")) // tampered: must be refused
	} else {
		fb, ff := forgeResponse(rng, 1+rng.Intn(4), blk0)
		b, f = *fb, *ff
		if kind == 2 {
			b.Signatures[server.key.hex] = "1f|2e"
		}
	}
	r.Inc(fmt.Sprintf("node_ff_kind_%d", kind), 1)
	stop := make(chan struct{})
	go func() {
		for {
			select {
			case rpc := <-server.trans.Consumer():
				if _, ok := rpc.Command.(*bnet.FastForwardRequest); ok {
					rpc.Respond(&bnet.FastForwardResponse{FromID: server.n.GetID(), Block: b, Frame: f, Snapshot: []byte("evil snapshot")}, nil)
				} else {
					rpc.Respond(nil, fmt.Errorf("busy"))
				}
			case <-stop:
				return
			}
		}
	}()
	victim.n.SetState(_state.CatchingUp)
	restoredBefore := victim.app.restored
	stateBefore := append([]byte{}, victim.app.state...)
	cls, det := guarded(func() error { return victim.n.VerifFastForward() })
	close(stop)
	r.Inc("node_ff_"+cls, 1)
	if cls == "ok" {
		r.Violate("impl-violation", "Node.fastForward adopted a tampered response", "node-ff-accepted", nil)
	}
	if victim.app.restored != restoredBefore || !bytes.Equal(victim.app.state, stateBefore) {
		r.Violate("impl-violation", fmt.Sprintf("Node.fastForward restored the application from the snapshot of a response it then refused (%s %s): state %q", cls, det, victim.app.state),
			"restore-before-check", map[string]string{"refusal": det})
	}
}
