package main

// G2: real core objects (node.VerifCore) driven without goroutines: pulls with
// limits and failures, submissions, joins/leaves through internal transactions,
// a deterministic application. Shared by the node-level properties.

import (
	"bytes"
	"crypto/ecdsa"
	"crypto/sha256"
	"encoding/json"
	"fmt"
	"math/rand"
	"os"

	"github.com/mosaicnetworks/babble/src/crypto/keys"
	hg "github.com/mosaicnetworks/babble/src/hashgraph"
	"github.com/mosaicnetworks/babble/src/node"
	_state "github.com/mosaicnetworks/babble/src/node/state"
	"github.com/mosaicnetworks/babble/src/peers"
	"github.com/mosaicnetworks/babble/src/proxy"
)

// app is a deterministic application: state = hash chain over the committed
// transactions; accepts every internal transaction unless told otherwise.
type app struct {
	state     []byte
	delivered []hg.Block // as delivered (before the answer is applied)
	bodies    []string   // canonical body JSON including the answer
	snapshots map[int][]byte
	restored  int
	refuse    map[string]bool // pubkey (upper) -> refuse
	failNext  bool
	failAfter bool // the next block is applied, then an error is reported (a reply lost on the way back)
	states    []_state.State
}

func newApp() *app { return &app{snapshots: map[int][]byte{}, refuse: map[string]bool{}} }

func (a *app) CommitHandler(b hg.Block) (proxy.CommitResponse, error) {
	if a.failNext {
		a.failNext = false
		return proxy.CommitResponse{}, fmt.Errorf("application failure")
	}
	h := a.state
	for _, tx := range b.Transactions() {
		s := sha256.Sum256(append(append([]byte{}, h...), tx...))
		h = s[:]
	}
	a.state = h
	receipts := []hg.InternalTransactionReceipt{}
	for _, it := range b.InternalTransactions() {
		if a.refuse[it.Body.Peer.PubKeyString()] {
			receipts = append(receipts, it.AsRefused())
		} else {
			receipts = append(receipts, it.AsAccepted())
		}
	}
	a.delivered = append(a.delivered, b)
	body := b.Body
	body.StateHash = h
	body.InternalTransactionReceipts = receipts
	js, _ := json.Marshal(body)
	a.bodies = append(a.bodies, string(js))
	a.snapshots[b.Index()] = append([]byte{}, h...)
	if a.failAfter {
		a.failAfter = false
		return proxy.CommitResponse{}, fmt.Errorf("reply lost")
	}
	return proxy.CommitResponse{StateHash: h, InternalTransactionReceipts: receipts}, nil
}

func (a *app) commitCallback(b hg.Block) (proxy.CommitResponse, error) { return a.CommitHandler(b) }

func (a *app) SnapshotHandler(blockIndex int) ([]byte, error) {
	s, ok := a.snapshots[blockIndex]
	if !ok {
		return nil, fmt.Errorf("no snapshot for block %d", blockIndex)
	}
	return s, nil
}

func (a *app) RestoreHandler(snapshot []byte) ([]byte, error) {
	a.state = append([]byte{}, snapshot...)
	a.restored++
	return a.state, nil
}

func (a *app) StateChangeHandler(s _state.State) error {
	a.states = append(a.states, s)
	return nil
}

type member struct {
	idx    int
	key    *ecdsa.PrivateKey
	peer   *peers.Peer
	hex    string
	core   *node.VerifCore
	app    *app
	store  hg.Store
	active bool
	joiner bool
	badger string
	cache  int
}

type cluster struct {
	rng       *rand.Rand
	members   []*member
	genesis   []*peers.Peer
	txSeq     int
	submitted map[string]int // tx bytes -> times submitted
	errs      map[string]int
	cache     int
	mkStore   func(m *member) hg.Store
	spellAlways bool // every join request spells the key in lower-case hex
	// every other join request spells the joiner's key in lower-case hex (a valid spelling of the same key)
	spellJoins bool
	joinsSpelled int
}

func newMember(rng *rand.Rand, idx int) *member {
	k := detKey(rng)
	p := peers.NewPeer(keys.PublicKeyHex(&k.PublicKey), fmt.Sprintf("addr%d", idx), fmt.Sprintf("node%d", idx))
	return &member{idx: idx, key: k, peer: p, hex: p.PubKeyString(), app: newApp()}
}

func newCluster(rng *rand.Rand, n int, cache int, mkStore func(m *member) hg.Store) *cluster {
	cl := &cluster{rng: rng, submitted: map[string]int{}, errs: map[string]int{}, cache: cache, mkStore: mkStore}
	for i := 0; i < n; i++ {
		m := newMember(rng, i)
		cl.members = append(cl.members, m)
		cl.genesis = append(cl.genesis, m.peer)
	}
	for _, m := range cl.members {
		cl.mkCore(m, cl.genesis)
		m.core.SetHeadAndSeq()
		m.active = true
	}
	return cl
}

func (cl *cluster) mkCore(m *member, cur []*peers.Peer) {
	if cl.mkStore != nil {
		m.store = cl.mkStore(m)
	} else {
		m.store = hg.NewInmemStore(cl.cache)
	}
	gen := peers.NewPeerSet(append([]*peers.Peer{}, cl.genesis...))
	m.core = node.NewVerifCore(node.NewValidator(m.key, m.peer.Moniker), peers.NewPeerSet(append([]*peers.Peer{}, cur...)), gen, m.store, m.app.commitCallback, false, quiet())
}

func (cl *cluster) close() {
	for _, m := range cl.members {
		if m.store != nil {
			m.store.Close()
		}
		if m.badger != "" {
			os.RemoveAll(m.badger)
		}
	}
}

// pull: a asks b for what it does not know (node.pull without the transport).
func (cl *cluster) pull(a, b *member, limit int) error {
	known := a.core.KnownEvents()
	diff, err := b.core.EventDiff(known)
	if err != nil {
		return fmt.Errorf("diff: %v", err)
	}
	if limit >= 0 && limit < len(diff) {
		diff = diff[:limit]
	}
	wire, _ := b.core.ToWire(diff)
	if err := a.core.Sync(b.core.ID(), wire); err != nil {
		return fmt.Errorf("sync: %v", err)
	}
	return a.core.ProcessSigPool()
}

func (cl *cluster) submit(a *member, tx []byte) {
	a.core.AddTransactions([][]byte{tx})
	cl.submitted[string(tx)]++
}

func (cl *cluster) newTx() []byte {
	cl.txSeq++
	return []byte(fmt.Sprintf("tx-%d", cl.txSeq))
}

// startJoin creates a new member and submits its join request to host.
func (cl *cluster) startJoin(host *member) *member {
	j := newMember(cl.rng, len(cl.members))
	j.joiner = true
	cl.mkCore(j, host.core.Peers().Peers)
	p := *j.peer
	if cl.spellAlways || (cl.spellJoins && cl.rng.Intn(2) == 0) {
		p.PubKeyHex = lowerAfterPrefix(p.PubKeyHex)
		cl.joinsSpelled++
	}
	itx := hg.NewInternalTransactionJoin(p)
	itx.Sign(j.key)
	host.core.AddInternalTransaction(itx)
	cl.members = append(cl.members, j)
	return j
}

func (cl *cluster) startLeave(m *member) {
	itx := hg.NewInternalTransactionLeave(*m.peer)
	itx.Sign(m.key)
	m.core.AddInternalTransaction(itx)
}

// activateJoiners: a joiner starts babbling once some active node recorded a
// validator set containing it (node.join sets the accepted round from the answer).
func (cl *cluster) activateJoiners() {
	for _, j := range cl.members {
		if !j.joiner || j.active {
			continue
		}
		for _, m := range cl.members {
			if !m.active {
				continue
			}
			all, _ := m.core.Hashgraph().Store.GetAllPeerSets()
			best := -1
			for r, set := range all {
				for _, p := range set {
					if p.PubKeyString() == j.hex && (best == -1 || r < best) {
						best = r
					}
				}
			}
			if best >= 0 {
				j.core.SetAcceptedRound(best)
				j.core.SetHeadAndSeq()
				j.active = true
				break
			}
		}
	}
}

func (cl *cluster) activeMembers() []*member {
	res := []*member{}
	for _, m := range cl.members {
		if m.active {
			res = append(res, m)
		}
	}
	return res
}

// bodiesPrefixConsistent: C01 oracle at the application boundary.
func bodiesPrefixConsistent(a, b *member) (bool, string) {
	// align by block index (a fast-forwarded node starts later)
	ia := map[int]string{}
	for k, blk := range a.app.delivered {
		ia[blk.Index()] = a.app.bodies[k]
	}
	for k, blk := range b.app.delivered {
		if s, ok := ia[blk.Index()]; ok && s != b.app.bodies[k] {
			return false, fmt.Sprintf("block %d differs between node %d and node %d:\n %s\n %s", blk.Index(), a.idx, b.idx, s, b.app.bodies[k])
		}
	}
	return true, ""
}

func bytesEq(a, b []byte) bool { return bytes.Equal(a, b) }
