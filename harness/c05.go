package main

// C05: transaction integrity. Real cores (G2) with submissions of empty,
// duplicate-content and binary transactions, truncated pulls (sync limit) and
// failing pulls (an undecodable wire event in the middle of an answer). Per
// node: accepted = payload of own events ++ pool, as lists (compared with the
// Lean pool model); network: nothing committed that was not submitted, no
// occurrence committed twice.

import (
	"bytes"
	"fmt"
	"math/rand"
	"strings"

	hg "github.com/mosaicnetworks/babble/src/hashgraph"
)

func init() { runners["C05"] = runC05 }

type txLedger struct {
	names   map[string][]int // content -> occurrence numbers, in submission order (network wide)
	perNode map[int][]int    // node -> occurrence numbers accepted, in order
	content map[int][]byte
	seq     int
}

func (l *txLedger) submit(cl *cluster, m *member, tx []byte) int {
	l.seq++
	l.names[string(tx)] = append(l.names[string(tx)], l.seq)
	l.perNode[m.idx] = append(l.perNode[m.idx], l.seq)
	l.content[l.seq] = tx
	cl.submit(m, tx)
	return l.seq
}

// ownPayloads: transactions of the node's own events in index order, and the pool
func ownPayloads(m *member) (placed [][][]byte, pool [][]byte, err error) {
	evs, err := m.core.Hashgraph().Store.ParticipantEvents(m.hex, -1)
	if err != nil {
		return nil, m.core.TransactionPool(), nil
	}
	for _, h := range evs {
		e, err := m.core.Hashgraph().Store.GetEvent(h)
		if err != nil {
			return nil, nil, err
		}
		placed = append(placed, e.Transactions())
	}
	return placed, m.core.TransactionPool(), nil
}

// faultStore fails the next write of an event created by `own` when armed
// (a store write error while the node inserts its own new event).
type faultStore struct {
	hg.Store
	own   string
	armed bool
	fired int
	// frame fault: after the node's own new event was written, the next GetFrame (a consensus step of
	// the same InsertEventAndRunConsensus call, before anything of the round is changed) fails once
	frameMode  bool
	frameArmed bool
	frameFired int
}

func (s *faultStore) GetFrame(rr int) (*hg.Frame, error) {
	if s.frameArmed {
		s.frameArmed = false
		s.frameFired++
		return nil, fmt.Errorf("injected store failure (GetFrame)")
	}
	return s.Store.GetFrame(rr)
}

func (s *faultStore) SetEvent(e *hg.Event) error {
	if s.frameMode && e.Creator() == s.own {
		if _, err := s.Store.GetEvent(e.Hex()); err != nil {
			s.frameArmed = true // the own event goes in; a later step of the same call fails
		}
		return s.Store.SetEvent(e)
	}
	if s.armed && e.Creator() == s.own {
		if _, err := s.Store.GetEvent(e.Hex()); err == nil {
			return s.Store.SetEvent(e) // an update of a stored event: not the insertion
		}
		s.armed = false
		s.fired++
		return fmt.Errorf("injected store failure")
	}
	return s.Store.SetEvent(e)
}

func runC05(r *Result, thorough bool) {
	r.Rule = "G2 runs of real cores (3-5 validators) with submissions of empty, duplicate-content, binary and ordinary transactions to random nodes, pulls truncated by the sync limit (1-5 events), failing pulls (an undecodable wire event injected into the answer) failing self-events (the store refuses the node's own new event while its pool is non-empty) and a consensus step that fails right after the node's own event entered the DAG (GetFrame; the unchanged code then can never extend its chain again and is taken out of the run); " +
		"per node and step: accepted transactions (in order) = concatenation of its own events' payloads ++ pool, compared as lists with the Lean pool model; network oracle: every committed transaction was submitted byte for byte, no occurrence is committed twice (counted per content), every node delivers the same transactions. " +
		"non-trivial: >=1 failed or truncated pull, >=1 failed self-event and >=5 submissions including duplicate content"
	rng := rand.New(rand.NewSource(r.Seed))
	runs := 4
	if thorough {
		runs = 30
	}
	c := &Case{ID: "pool"}
	for ri := 0; ri < runs; ri++ {
		n := 3 + rng.Intn(3)
		faults := map[int]*faultStore{}
		cl := newCluster(rng, n, 10000, func(m *member) hg.Store {
			fs := &faultStore{Store: hg.NewInmemStore(10000), own: m.hex}
			faults[m.idx] = fs
			return fs
		})
		selfFail, lateFail := 0, 0
		stuck := map[int]bool{}
		led := &txLedger{names: map[string][]int{}, perNode: map[int][]int{}, content: map[int][]byte{}}
		steps := 250 + rng.Intn(200)
		failed, truncated, dups := 0, 0, 0
		// per node model op log
		opsLog := map[int][]string{}
		ownEvents := map[int]int{}
		observe := func(m *member) {
			if stuck[m.idx] {
				return
			}
			placed, pool, err := ownPayloads(m)
			if err != nil {
				return
			}
			// new own events since last observation -> "ok" ops (payload sizes recomputed by the model)
			for len(placed) > ownEvents[m.idx] {
				opsLog[m.idx] = append(opsLog[m.idx], "ok:")
				ownEvents[m.idx]++
			}
			// oracle: accepted = placed ++ pool (bytes, in order)
			acc := led.perNode[m.idx]
			flat := [][]byte{}
			for _, p := range placed {
				flat = append(flat, p...)
			}
			flat = append(flat, pool...)
			okk := len(flat) == len(acc)
			for i := 0; okk && i < len(acc); i++ {
				okk = bytes.Equal(flat[i], led.content[acc[i]])
			}
			if !okk {
				r.Violate("impl-violation", fmt.Sprintf("node %d: accepted %d transactions, its own events carry %d and %d are pending: not the same list (dropped, duplicated or reordered)", m.idx, len(acc), len(flat)-len(pool), len(pool)),
					"pool-conservation", map[string]interface{}{"node": m.idx})
			}
		}
		for s := 0; s < steps; s++ {
			act := cl.activeMembers()
			a, b := act[rng.Intn(len(act))], act[rng.Intn(len(act))]
			if a == b {
				continue
			}
			if rng.Intn(2) == 0 {
				var tx []byte
				switch rng.Intn(6) {
				case 0:
					tx = []byte{}
				case 1:
					tx = []byte("dup")
					dups++
				case 2:
					tx = []byte{0xff, 0x00, 0xfe, byte(s)}
				default:
					tx = cl.newTx()
				}
				t := a
				if rng.Intn(3) == 0 {
					t = b
				}
				id := led.submit(cl, t, tx)
				opsLog[t.idx] = append(opsLog[t.idx], fmt.Sprintf("submit:%d", id))
			}
			switch rng.Intn(10) {
			case 9: // a consensus step fails right after the node's own event entered the DAG
				if len(stuck) >= (n-1)/3 { // the others must stay a supermajority
					cl.pull(a, b, -1)
					break
				}
				fs := faults[a.idx]
				ownBefore, _, _ := ownPayloads(a)
				fs.frameMode = true
				err := cl.pull(a, b, -1)
				fs.frameMode, fs.frameArmed = false, false
				ownAfter, _, _ := ownPayloads(a)
				if err != nil && len(ownAfter) > len(ownBefore) {
					lateFail++
					if a.core.Seq() < len(ownAfter)-1 {
						// the unchanged code: the event is in the DAG, head and pool were not advanced: the
						// node can never extend its chain again (it needs a restart); its payload is in the
						// event and still in the pool, but no second event can carry it
						stuck[a.idx] = true
						a.active = false
						r.Inc("nodes_stuck_after_late_failure", 1)
					}
				}
			case 8: // the store refuses the node's own new event: addSelfEvent fails, the pool must survive
				fs := faults[a.idx]
				ownBefore, _, _ := ownPayloads(a)
				fs.armed = true
				err := cl.pull(a, b, -1)
				fs.armed = false
				ownAfter, _, _ := ownPayloads(a)
				if err != nil && len(ownAfter) == len(ownBefore) {
					selfFail++
					opsLog[a.idx] = append(opsLog[a.idx], "fail")
				}
			case 0: // truncated pull
				cl.pull(a, b, 1+rng.Intn(5))
				truncated++
				// now and then the application's reply to the next block gets lost: the block was applied,
				// the node sees an error
				if rng.Intn(4) == 0 && len(a.app.delivered) > 0 {
					a.app.failAfter = true
					r.Inc("commit_replies_lost", 1)
				}
			case 1: // failing pull: the answer contains an undecodable event after a few good ones
				known := a.core.KnownEvents()
				diff, err := b.core.EventDiff(known)
				if err == nil && len(diff) > 1 {
					wire, _ := b.core.ToWire(diff)
					k := rng.Intn(len(wire))
					bad := wire[k]
					bad.Body.CreatorID = 987654321
					wire2 := append(append([]hg.WireEvent{}, wire[:k]...), bad)
					before := len(a.core.TransactionPool())
					ownBefore, _, _ := ownPayloads(a)
					err := a.core.Sync(b.core.ID(), wire2)
					if err != nil {
						failed++
						ownAfter, _, _ := ownPayloads(a)
						if len(ownAfter) == len(ownBefore) && len(a.core.TransactionPool()) != before {
							r.Violate("impl-violation", fmt.Sprintf("node %d: a failed sync changed the transaction pool (%d -> %d) without creating an event", a.idx, before, len(a.core.TransactionPool())), "failed-sync-pool", nil)
						}
					}
				}
			default:
				cl.pull(a, b, -1)
			}
			observe(a)
			observe(b)
		}
		// drain: fair gossip so that everything commits
		for k := 0; k < 60; k++ {
			act := cl.activeMembers()
			for _, x := range act {
				for _, y := range act {
					if x != y {
						cl.pull(x, y, -1)
					}
				}
			}
		}
		for _, m := range cl.activeMembers() {
			observe(m)
			// model correspondence for this node
			placed, pool, err := ownPayloads(m)
			if err != nil {
				continue
			}
			// names: map bytes back to occurrence numbers in order of acceptance
			acc := led.perNode[m.idx]
			pos := 0
			ps := []string{}
			for _, p := range placed {
				ns := []string{}
				for range p {
					if pos < len(acc) {
						ns = append(ns, fmt.Sprint(acc[pos]))
						pos++
					}
				}
				ps = append(ps, listOrDash(ns))
			}
			pl := []string{}
			for range pool {
				if pos < len(acc) {
					pl = append(pl, fmt.Sprint(acc[pos]))
					pos++
				}
			}
			c.Op("CO ops "+listOrDashSep(opsLog[m.idx], ";"), fmt.Sprintf("O pool=%s placed=%s", listOrDash(pl), listOrDashSep(ps, ";")))
		}
		// network oracle
		submittedCount := map[string]int{}
		for content, occ := range led.names {
			submittedCount[content] = len(occ)
		}
		var refDelivered []string
		for _, m := range cl.activeMembers() {
			cnt := map[string]int{}
			all := []string{}
			for _, b := range m.app.delivered {
				for _, tx := range b.Transactions() {
					cnt[string(tx)]++
					all = append(all, string(tx))
				}
			}
			for content, k := range cnt {
				if k > submittedCount[content] {
					r.Violate("impl-violation", fmt.Sprintf("node %d delivered transaction %q %d times, it was submitted %d times", m.idx, content, k, submittedCount[content]), "committed-more-than-submitted", map[string]interface{}{"content": content})
				}
			}
			if refDelivered == nil {
				refDelivered = all
			} else {
				l := len(all)
				if len(refDelivered) < l {
					l = len(refDelivered)
				}
				if strings.Join(all[:l], "\x00") != strings.Join(refDelivered[:l], "\x00") {
					r.Violate("impl-violation", fmt.Sprintf("node %d delivered a different transaction sequence than node %d", m.idx, cl.activeMembers()[0].idx), "delivery-differs", nil)
				}
			}
		}
		// after the fair suffix everything submitted to a running node is committed exactly once
		tot := 0
		for _, k := range submittedCount {
			tot += k
		}
		r.Inc("submitted", tot)
		r.Inc("delivered_by_reference", len(refDelivered))
		if len(refDelivered) != tot {
			r.Inc("runs_with_uncommitted_leftover", 1)
		}
		r.Inc("failed_pulls", failed)
		r.Inc("failed_self_events", selfFail)
		r.Inc("consensus_failures_after_own_insertion", lateFail)
		r.Inc("truncated_pulls", truncated)
		r.Count(fmt.Sprintf("run %d %d %d", ri, n, steps), failed+truncated >= 1 && selfFail >= 1 && tot >= 5 && dups >= 2)
		cl.close()
	}
	if len(c.Ops) > 0 {
		r.Sample(map[string]interface{}{"model_op": c.Ops[0][:min(len(c.Ops[0]), 400)], "go": c.Obs[0]}, 8)
	}
	r.Compare(c)
}
