package main

// C11: crash recovery. A child process (this same binary) runs a seeded gossip
// schedule on real cores whose stores are Badger databases wrapped in a
// counting proxy, and SIGKILLs itself at the k-th store write (before or after
// performing it). It logs durably what it delivered to its applications and
// what each node knew after every completed operation. The parent reopens the
// databases, bootstraps fresh cores with reset applications, and checks:
// re-delivered blocks identical to the logged ones, every event of the last
// completed snapshot known, head restored (no self-fork), and agreement after
// continuing gossip among the recovered nodes. A clean close/reopen is the
// k = infinity case.

import (
	"bytes"
	"bufio"
	"crypto/sha256"
	"encoding/hex"
	"fmt"
	"math/rand"
	"os"
	"os/exec"
	"path/filepath"
	"sort"
	"strconv"
	"strings"
	"syscall"

	hg "github.com/mosaicnetworks/babble/src/hashgraph"
	"github.com/mosaicnetworks/babble/src/crypto/keys"
	"github.com/mosaicnetworks/babble/src/node"
	"github.com/mosaicnetworks/babble/src/peers"
	"github.com/mosaicnetworks/babble/src/proxy"
)

func init() {
	runners["C11"] = runC11
	runners["C11child"] = runC11child
}

// countingStore kills the process at the k-th write.
type countingStore struct {
	hg.Store
	counter *int
	killAt  int
	profile *[]string // dry run only: kind of every write, in order
}

func (s *countingStore) note(kind string) {
	if s.profile != nil {
		*s.profile = append(*s.profile, kind)
	}
}

func (s *countingStore) tick(after bool) {
	// odd kill points fire before the write, even ones after it
	if !after {
		*s.counter++
		if *s.counter == s.killAt && s.killAt%2 == 1 {
			syscall.Kill(os.Getpid(), syscall.SIGKILL)
		}
	} else if *s.counter == s.killAt && s.killAt%2 == 0 {
		syscall.Kill(os.Getpid(), syscall.SIGKILL)
	}
}

func (s *countingStore) SetEvent(e *hg.Event) error {
	if s.profile != nil {
		if _, err := s.Store.GetEvent(e.Hex()); err == nil {
			s.note("Eu") // update of a stored event (first-descendant walk, round assignment, ...)
		} else {
			s.note("En")
		}
	}
	s.tick(false)
	err := s.Store.SetEvent(e)
	s.tick(true)
	return err
}
func (s *countingStore) SetBlock(b *hg.Block) error {
	s.note("B")
	s.tick(false)
	err := s.Store.SetBlock(b)
	s.tick(true)
	return err
}
func (s *countingStore) SetRound(r int, ri *hg.RoundInfo) error {
	s.note("R")
	s.tick(false)
	err := s.Store.SetRound(r, ri)
	s.tick(true)
	return err
}
func (s *countingStore) SetFrame(f *hg.Frame) error {
	s.note("F")
	s.tick(false)
	err := s.Store.SetFrame(f)
	s.tick(true)
	return err
}
func (s *countingStore) SetPeerSet(r int, ps *peers.PeerSet) error {
	s.note("P")
	s.tick(false)
	err := s.Store.SetPeerSet(r, ps)
	s.tick(true)
	return err
}

func c11Members(rng *rand.Rand, n int) []*member {
	ms := []*member{}
	for i := 0; i < n; i++ {
		ms = append(ms, newMember(rng, i))
	}
	return ms
}

func appendLine(path, line string) {
	f, err := os.OpenFile(path, os.O_APPEND|os.O_CREATE|os.O_WRONLY|os.O_SYNC, 0644)
	if err != nil {
		panic(err)
	}
	f.WriteString(line + "\n")
	f.Close()
}

// the schedule both the child and (for sizing) the parent derive from the seed
func c11Params(seed int64) (n, steps int, withJoin bool) {
	rng := rand.New(rand.NewSource(seed * 7919))
	return 3 + rng.Intn(2), 60 + rng.Intn(60), rng.Intn(3) == 0
}

func runC11child(r *Result, thorough bool) {
	dir := scratchDir
	killAt, _ := strconv.Atoi(replayPath)
	rng := rand.New(rand.NewSource(r.Seed))
	n, steps, withJoin := c11Params(r.Seed)
	counter := 0
	var profile *[]string
	if killAt == 0 {
		profile = &[]string{}
	}
	cl := &cluster{rng: rng, submitted: map[string]int{}, errs: map[string]int{}, cache: 200}
	cl.mkStore = func(m *member) hg.Store {
		st, err := hg.NewBadgerStore(200, filepath.Join(dir, fmt.Sprintf("m%d", m.idx)), false, nil)
		if err != nil {
			panic(err)
		}
		return &countingStore{Store: st, counter: &counter, killAt: killAt, profile: profile}
	}
	for i := 0; i < n; i++ {
		m := newMember(rng, i)
		cl.members = append(cl.members, m)
		cl.genesis = append(cl.genesis, m.peer)
	}
	for _, m := range cl.members {
		mm := m
		cl.mkCoreLogged(mm, cl.genesis, filepath.Join(dir, fmt.Sprintf("m%d.deliveries", mm.idx)))
		mm.core.SetHeadAndSeq()
		mm.active = true
	}
	snapshot := func() {
		for _, m := range cl.members {
			if !m.active {
				continue
			}
			known := m.core.KnownEvents()
			parts := []string{}
			for _, q := range cl.members {
				if v, ok := known[q.peer.ID()]; ok {
					parts = append(parts, fmt.Sprintf("%d=%d", q.idx, v))
				}
			}
			appendLine(filepath.Join(dir, fmt.Sprintf("m%d.known", m.idx)), strings.Join(parts, ","))
		}
		appendLine(filepath.Join(dir, "writes"), fmt.Sprint(counter))
	}
	var joiner *member
	bigDone := false
	for s := 0; s < steps; s++ {
		act := cl.activeMembers()
		a, b := act[rng.Intn(len(act))], act[rng.Intn(len(act))]
		if a == b {
			continue
		}
		if rng.Intn(2) == 0 {
			cl.submit(a, cl.newTx())
		}
		if s >= steps/4 && !bigDone && r.Seed%100 == 1 {
			bigDone = true
			// the second schedule of a run: one transaction of a few megabytes (an unusual but legitimate payload)
			big := append([]byte(fmt.Sprintf("big-%d-", r.Seed)), bytes.Repeat([]byte{'x'}, 3500000)...)
			cl.submit(a, big)
			appendLine(filepath.Join(dir, "bigtx"), "1")
		}
		if withJoin && joiner == nil && s >= steps/3 {
			j := newMember(cl.rng, len(cl.members))
			j.joiner = true
			cl.mkCoreLogged(j, a.core.Peers().Peers, filepath.Join(dir, fmt.Sprintf("m%d.deliveries", j.idx)))
			itx := hg.NewInternalTransactionJoin(*j.peer)
			itx.Sign(j.key)
			a.core.AddInternalTransaction(itx)
			cl.members = append(cl.members, j)
			joiner = j
		}
		// a faulty validator's offer: an event of some member q, signed with q's key, with the right
		// self-parent and a known other-parent, whose index skips ahead (or repeats). The node refuses it;
		// a refused insertion must not leave a trace that a later restart trips over (what was inserted
		// afterwards is still there after the restart)
		if rng.Intn(9) == 0 {
			q := act[rng.Intn(len(act))]
			hgb := b.core.Hashgraph()
			if q != b {
				if last, err := hgb.Store.LastEventFrom(q.peer.PubKeyString()); err == nil && last != "" {
					if le, err := hgb.Store.GetEvent(last); err == nil {
						op := ""
						if olast, err := hgb.Store.LastEventFrom(a.peer.PubKeyString()); err == nil {
							op = olast
						}
						idx := le.Index() + []int{2, 3, 0, 7}[rng.Intn(4)]
						e := hg.NewEvent([][]byte{[]byte(fmt.Sprintf("skipped-%d", s))}, nil, nil, []string{last, op}, keys.FromPublicKey(&q.key.PublicKey), idx)
						e.Sign(q.key)
						if err := hgb.InsertEventAndRunConsensus(e, true); err == nil {
							appendLine(filepath.Join(dir, "offers_accepted"), fmt.Sprint(s))
						} else {
							appendLine(filepath.Join(dir, "offers_refused"), fmt.Sprint(s))
						}
					}
				}
			}
		}
		cl.pull(a, b, -1)
		cl.activateJoiners()
		snapshot()
	}
	appendLine(filepath.Join(dir, "finished"), fmt.Sprint(counter))
	if profile != nil {
		os.WriteFile(filepath.Join(dir, "profile"), []byte(strings.Join(*profile, "\n")), 0644)
	}
	// clean shutdown
	for _, m := range cl.members {
		m.store.Close()
	}
	os.Exit(0)
}

// mkCoreLogged: like mkCore, with an application that logs every delivery durably before answering.
func (cl *cluster) mkCoreLogged(m *member, cur []*peers.Peer, logPath string) {
	m.store = cl.mkStore(m)
	gen := peers.NewPeerSet(append([]*peers.Peer{}, cl.genesis...))
	a := m.app
	cb := func(b hg.Block) (proxy.CommitResponse, error) {
		resp, err := a.CommitHandler(b)
		h := sha256.Sum256([]byte(a.bodies[len(a.bodies)-1]))
		appendLine(logPath, fmt.Sprintf("%d %s", b.Index(), hex.EncodeToString(h[:])))
		return resp, err
	}
	m.core = newVerifCoreWith(m, cur, gen, cb)
}

func runC11(r *Result, thorough bool) {
	r.Rule = "child process running a seeded G2 schedule (3-4 validators, optional join) on Badger-backed real cores, SIGKILLed at the k-th store write (odd k: before the write, even k: after it), k spread over the whole schedule (every write boundary of a short schedule in thorough mode), plus clean shutdown; " +
		"the parent reopens every database, bootstraps fresh cores with reset applications and checks: every block logged as delivered before the crash is re-delivered with the identical body (state hash and receipts included), every event of the last completed known-events snapshot is known, head/seq restored to the node's last own event, then fair gossip among the recovered nodes keeps them in agreement and no node refuses its own next event. " +
		"non-trivial: crash point strictly inside the schedule with >=1 block delivered before it"
	rng := rand.New(rand.NewSource(r.Seed))
	schedules := 2
	points := 12
	if thorough {
		schedules = 4
		points = 40
	}
	self, _ := os.Executable()
	for si := 0; si < schedules; si++ {
		seed := r.Seed*100 + int64(si)
		// a dry run without kill to learn the number of writes
		dir := filepath.Join(scratchDir, fmt.Sprintf("c11-%d-dry", si))
		os.MkdirAll(dir, 0755)
		cmd := exec.Command(self, "-prop", "C11child", "-seed", fmt.Sprint(seed), "-scratch", dir, "-replay", "0")
		cmd.Run()
		total := 0
		if b, err := os.ReadFile(filepath.Join(dir, "finished")); err == nil {
			total, _ = strconv.Atoi(strings.TrimSpace(string(b)))
		}
		if total == 0 {
			r.CoverageHoles = append(r.CoverageHoles, "dry run of the child schedule produced no store writes")
			os.RemoveAll(dir)
			continue
		}
		// kinds of the writes: boundaries between two consecutive updates of stored events lie inside
		// one InsertEvent (the first-descendant walk writes one ancestor at a time)
		inWalk := []int{}
		if b, err := os.ReadFile(filepath.Join(dir, "profile")); err == nil {
			kinds := strings.Split(string(b), "\n")
			for j := 1; j < len(kinds); j++ { // boundary after write j (1-based)
				if kinds[j-1] == "Eu" && kinds[j] == "Eu" {
					k := j
					if k%2 == 1 {
						k = j + 1 // odd kill points fire before the write
					}
					inWalk = append(inWalk, k)
				}
			}
		}
		r.Inc("write_boundaries_inside_an_insertion", len(inWalk))
		if _, err := os.Stat(filepath.Join(dir, "bigtx")); err == nil {
			r.Inc("schedules_with_a_transaction_of_several_megabytes", 1)
		}
		r.Inc("refused_offers_with_a_skipped_or_repeated_index", len(readLines(filepath.Join(dir, "offers_refused"))))
		if acc := readLines(filepath.Join(dir, "offers_accepted")); len(acc) > 0 {
			r.violateFor("C07", fmt.Sprintf("schedule %d: an event whose index skips ahead or repeats was admitted at step %s", seed, acc[0]), "skipped-index-admitted", nil)
		}
		// the clean-shutdown case: recover from the dry run's databases
		c11Recover(r, rng, dir, seed, -1, total)
		os.RemoveAll(dir)
		ks := []int{}
		if thorough && si == 0 {
			for k := 1; k <= total && len(ks) < 400; k += 1 + total/400 {
				ks = append(ks, k)
			}
		} else {
			for i := 0; i < points; i++ {
				if i%2 == 0 && len(inWalk) > 0 {
					ks = append(ks, inWalk[rng.Intn(len(inWalk))])
					r.Inc("kill_points_inside_an_insertion", 1)
				} else {
					ks = append(ks, 1+rng.Intn(total))
				}
			}
		}
		for _, k := range ks {
			dir := filepath.Join(scratchDir, fmt.Sprintf("c11-%d-%d", si, k))
			os.MkdirAll(dir, 0755)
			cmd := exec.Command(self, "-prop", "C11child", "-seed", fmt.Sprint(seed), "-scratch", dir, "-replay", fmt.Sprint(k))
			err := cmd.Run()
			killed := false
			if ee, ok := err.(*exec.ExitError); ok {
				if ws, ok := ee.Sys().(syscall.WaitStatus); ok && ws.Signaled() {
					killed = true
				}
			}
			r.Inc("children_killed", boolInt(killed))
			r.Inc("children_finished", boolInt(!killed))
			c11Recover(r, rng, dir, seed, k, total)
			os.RemoveAll(dir)
		}
	}
}

func newVerifCoreWith(m *member, cur []*peers.Peer, gen *peers.PeerSet, cb proxy.CommitCallback) *node.VerifCore {
	return node.NewVerifCore(node.NewValidator(m.key, m.peer.Moniker), peers.NewPeerSet(append([]*peers.Peer{}, cur...)), gen, m.store, cb, false, quiet())
}

func readLines(path string) []string {
	f, err := os.Open(path)
	if err != nil {
		return nil
	}
	defer f.Close()
	res := []string{}
	sc := bufio.NewScanner(f)
	sc.Buffer(make([]byte, 1<<20), 1<<26)
	for sc.Scan() {
		if l := strings.TrimSpace(sc.Text()); l != "" {
			res = append(res, l)
		}
	}
	return res
}

// c11Recover reopens what the child left behind and runs the oracles.
func c11Recover(r *Result, rng *rand.Rand, dir string, seed int64, k, total int) {
	n, _, withJoin := c11Params(seed)
	krng := rand.New(rand.NewSource(seed))
	cl := &cluster{rng: krng, submitted: map[string]int{}, errs: map[string]int{}, cache: 200}
	for i := 0; i < n; i++ {
		m := newMember(krng, i)
		cl.members = append(cl.members, m)
		cl.genesis = append(cl.genesis, m.peer)
	}
	// the joiner's key cannot be re-derived (the child's PRNG advanced): recover only the genesis members
	_ = withJoin
	what := func(f string, a ...interface{}) string {
		return fmt.Sprintf("crash at store write %d of %d (seed %d): ", k, total, seed) + fmt.Sprintf(f, a...)
	}
	replay := map[string]interface{}{"child_seed": seed, "kill_at_write": k, "writes_in_schedule": total}
	deliveredBefore := 0
	recovered := []*member{}
	for _, m := range cl.members {
		path := filepath.Join(dir, fmt.Sprintf("m%d", m.idx))
		if _, err := os.Stat(path); err != nil {
			continue
		}
		st, err := hg.NewBadgerStore(200, path, false, nil)
		if err != nil {
			r.Violate("impl-violation", what("node %d: the database cannot be reopened: %v", m.idx, err), "reopen", replay)
			continue
		}
		m.store = st
		gen := peers.NewPeerSet(append([]*peers.Peer{}, cl.genesis...))
		m.app = newApp()
		m.core = newVerifCoreWith(m, cl.genesis, gen, m.app.commitCallback)
		cls, det := guarded(func() error { return m.core.Bootstrap() })
		if cls != "ok" {
			r.Violate("impl-violation", what("node %d: bootstrap %s: %s", m.idx, cls, det), "bootstrap-"+cls, replay)
			st.Close()
			continue
		}
		m.core.SetHeadAndSeq()
		m.active = true
		recovered = append(recovered, m)
		// (1) re-delivered blocks identical
		logged := readLines(filepath.Join(dir, fmt.Sprintf("m%d.deliveries", m.idx)))
		deliveredBefore += len(logged)
		for _, l := range logged {
			f := strings.Fields(l)
			idx, _ := strconv.Atoi(f[0])
			found := false
			for i, b := range m.app.delivered {
				if b.Index() == idx {
					found = true
					h := sha256.Sum256([]byte(m.app.bodies[i]))
					if hex.EncodeToString(h[:]) != f[1] {
						r.Violate("impl-violation", what("node %d re-delivers a different block %d after bootstrap", m.idx, idx), "redelivered-differs", replay)
					}
				}
			}
			if !found {
				r.Violate("impl-violation", what("node %d delivered block %d before the crash but does not re-deliver it after bootstrap (re-delivered %d blocks)", m.idx, idx, len(m.app.delivered)), "block-lost", replay)
				break
			}
		}
		// (2) events of the last completed snapshot are known
		ks := readLines(filepath.Join(dir, fmt.Sprintf("m%d.known", m.idx)))
		if len(ks) > 0 {
			known := m.core.KnownEvents()
			for _, kv := range strings.Split(ks[len(ks)-1], ",") {
				p := strings.Split(kv, "=")
				if len(p) != 2 {
					continue
				}
				ci, _ := strconv.Atoi(p[0])
				want, _ := strconv.Atoi(p[1])
				if ci < len(cl.members) {
					if got := known[cl.members[ci].peer.ID()]; got < want {
						r.Violate("impl-violation", what("node %d knew events of creator %d up to index %d before the crash, only up to %d after bootstrap", m.idx, ci, want, got), "events-lost", replay)
					}
				}
			}
		}
		// (3) head restored: seq = last own index
		if own, ok := m.core.KnownEvents()[m.peer.ID()]; ok && own != m.core.Seq() {
			r.Violate("impl-violation", what("node %d: seq %d after bootstrap but its last own event has index %d (next self-event would fork or skip)", m.idx, m.core.Seq(), own), "head-not-restored", replay)
		}
	}
	// (3b) the bootstrapped hashgraph is the one a fresh node computes from the same events in the
	// same order: rounds, timestamps, round received and both coordinate tables of every event
	for _, m := range recovered {
		bs, ok := m.store.(*hg.BadgerStore)
		if !ok {
			continue
		}
		evs, err := bs.VerifDBTopologicalEvents(0, 1<<30)
		if err != nil || len(evs) == 0 {
			continue
		}
		fresh := &member{idx: m.idx, key: m.key, peer: m.peer, hex: m.hex, app: newApp(), store: hg.NewInmemStore(100000)}
		gen := peers.NewPeerSet(append([]*peers.Peer{}, cl.genesis...))
		fresh.core = newVerifCoreWith(fresh, cl.genesis, gen, fresh.app.commitCallback)
		okReplay := true
		for _, ev := range evs {
			cp := &hg.Event{Body: ev.Body, Signature: ev.Signature}
			if cls, _ := guarded(func() error { return fresh.core.Hashgraph().InsertEventAndRunConsensus(cp, true) }); cls != "ok" {
				okReplay = false
				break
			}
		}
		if !okReplay {
			r.Inc("fresh_replays_refused", 1)
			continue
		}
		r.Inc("fresh_replays_compared", 1)
		coords := func(c hg.CoordinatesMap) string {
			ks := []string{}
			for k, v := range c {
				ks = append(ks, fmt.Sprintf("%s:%d", k[len(k)-6:], v.Index))
			}
			sort.Strings(ks)
			return strings.Join(ks, ",")
		}
		for _, ev := range evs {
			a, e1 := m.core.Hashgraph().Store.GetEvent(ev.Hex())
			b, e2 := fresh.core.Hashgraph().Store.GetEvent(ev.Hex())
			if e1 != nil || e2 != nil {
				continue
			}
			da := fmt.Sprintf("round=%s lamport=%s rr=%s la=[%s] fd=[%s]", fo(a.VerifRound()), fo(a.VerifLamport()), fo(a.VerifRoundReceived()), coords(a.VerifLastAncestors()), coords(a.VerifFirstDescendants()))
			db := fmt.Sprintf("round=%s lamport=%s rr=%s la=[%s] fd=[%s]", fo(b.VerifRound()), fo(b.VerifLamport()), fo(b.VerifRoundReceived()), coords(b.VerifLastAncestors()), coords(b.VerifFirstDescendants()))
			if da != db {
				r.Violate("impl-violation", what("node %d: after bootstrap event %d of creator %s differs from what a fresh node computes from the same events:\n bootstrap: %s\n fresh    : %s", m.idx, ev.Index(), ev.Creator()[len(ev.Creator())-6:], da, db), "bootstrap-differs-from-replay", replay)
				break
			}
		}
	}
	// (4) continue: fair gossip among the recovered genesis members
	if len(recovered) >= 2 {
		for cyc := 0; cyc < 12; cyc++ {
			for _, x := range recovered {
				for _, y := range recovered {
					if x != y {
						if rng.Intn(3) == 0 {
							cl.submit(x, cl.newTx())
						}
						if err := cl.pull(x, y, -1); err != nil && strings.Contains(err.Error(), "Self-parent") {
							r.Violate("impl-violation", what("after recovery node %d cannot extend its own chain: %v", x.idx, err), "self-fork", replay)
						}
					}
				}
			}
		}
		for i := 0; i < len(recovered); i++ {
			for j := i + 1; j < len(recovered); j++ {
				if ok, w := bodiesPrefixConsistent(recovered[i], recovered[j]); !ok {
					r.Violate("impl-violation", what("recovered nodes disagree: %s", w), "recovered-fork", replay)
				}
			}
		}
	}
	// (5) a second restart: what the recovered nodes wrote in their second life must be there too
	if len(recovered) >= 2 && (k < 0 || k%3 == 0) {
		type life struct {
			known     map[uint32]int
			delivered int
			seq       int
		}
		second := map[int]life{}
		for _, m := range recovered {
			second[m.idx] = life{known: m.core.KnownEvents(), delivered: len(m.app.delivered), seq: m.core.Seq()}
			m.store.Close()
		}
		for _, m := range recovered {
			path := filepath.Join(dir, fmt.Sprintf("m%d", m.idx))
			st, err := hg.NewBadgerStore(200, path, false, nil)
			if err != nil {
				r.Violate("impl-violation", what("node %d: the database cannot be reopened a second time: %v", m.idx, err), "reopen-twice", replay)
				continue
			}
			m.store = st
			gen := peers.NewPeerSet(append([]*peers.Peer{}, cl.genesis...))
			m.app = newApp()
			m.core = newVerifCoreWith(m, cl.genesis, gen, m.app.commitCallback)
			if cls, det := guarded(func() error { return m.core.Bootstrap() }); cls != "ok" {
				r.Violate("impl-violation", what("node %d: second bootstrap %s: %s", m.idx, cls, det), "bootstrap-twice-"+cls, replay)
				st.Close()
				continue
			}
			m.core.SetHeadAndSeq()
			r.Inc("second_restarts", 1)
			before := second[m.idx]
			for id, last := range before.known {
				if got := m.core.KnownEvents()[id]; got < last {
					r.Violate("impl-violation", what("node %d knew events of creator %d up to index %d before its second restart, only up to %d after it", m.idx, id, last, got), "second-restart-forgets", replay)
					break
				}
			}
			if len(m.app.delivered) < before.delivered {
				r.Violate("impl-violation", what("node %d had delivered %d blocks before its second restart, re-delivers %d", m.idx, before.delivered, len(m.app.delivered)), "second-restart-blocks", replay)
			}
			if m.core.Seq() < before.seq {
				r.Violate("impl-violation", what("node %d: seq %d after the second restart, %d before", m.idx, m.core.Seq(), before.seq), "second-restart-seq", replay)
			}
			st.Close()
		}
	} else {
		for _, m := range recovered {
			m.store.Close()
		}
	}
	r.Count(fmt.Sprintf("seed %d kill %d", seed, k), k > 0 && k < total && deliveredBefore > 0)
	r.Inc("recoveries", 1)
	r.Inc("blocks_logged_before_crash", deliveredBefore)
	if k < 0 {
		r.Inc("clean_shutdown_recoveries", 1)
	}
	if len(r.Samples) < 4 {
		r.Sample(map[string]interface{}{"child_seed": seed, "kill_at_store_write": k, "store_writes_in_schedule": total, "blocks_logged_before_crash": deliveredBefore, "nodes_recovered": len(recovered)}, 8)
	}
}
