// harness: drives the real babble code in-process (built with -tags verif from
// the repository under verification), pipes the same operations through the Lean
// model driver and reports disagreements and property violations to ./check.
package main

import (
	"flag"
	"fmt"
	"os"
	"runtime/debug"
	"time"
)

type runner func(r *Result, thorough bool)

var runners = map[string]runner{}

func main() {
	prop := flag.String("prop", "", "property id")
	tier := flag.String("tier", "quick", "quick|thorough")
	seed := flag.Int64("seed", 1, "PRNG seed")
	out := flag.String("out", "", "result json")
	flag.StringVar(&driverPath, "driver", "", "path of the Lean driver executable")
	replay := flag.String("replay", "", "replay file (runs only that case)")
	scratch := flag.String("scratch", "", "scratch directory for databases")
	flag.Parse()
	replayPath = *replay
	scratchDir = *scratch
	run, ok := runners[*prop]
	if !ok {
		fmt.Fprintln(os.Stderr, "harness: unknown property", *prop)
		os.Exit(2)
	}
	r := NewResult(*prop, *tier, *seed)
	start := time.Now()
	func() {
		defer func() {
			if e := recover(); e != nil {
				// a panic of the harness itself outside a guarded call: report as
				// broken machinery, not as a verdict
				fmt.Fprintf(os.Stderr, "harness: panic: %v\n%s\n", e, debug.Stack())
				os.Exit(2)
			}
		}()
		run(r, *tier == "thorough")
	}()
	r.Stats["harness_wall_s"] = time.Since(start).Seconds()
	if *out != "" {
		r.Write(*out)
	}
}

var replayPath string
var scratchDir string
